/-
  C02 (rerun clause) / C18 ("every bar grid (start …)") — running the same strategy object again.

  Trigger objects belong to the strategy and keep state (`PeriodTrigger._next_match`, `PeriodsTrigger._next_matches`); the bar
  loop drops out-of-date triggers from `strategy.triggers`.  `Actuator.run` (as repaired, /repo c510ccb) calls `reset()` on every
  trigger before the run and puts the list it found back afterwards; `actuatorRun` / `trigsAfterRun` (Demeter/Actuator.lean)
  model that, switched by the generated source flag `Gen.coreRunResetsTriggers` — if the repair disappears from the source the
  flag turns false and the theorems below no longer build.
-/
import Proofs.C05
namespace Demeter
open Core

namespace Core

theorem rerun_reset_idem (k : TrigKind) : k.reset.reset = k.reset := by cases k <;> rfl

theorem rerun_when_reset (now : Int) (k : TrigKind) : (whenT now k).2.reset = k.reset := by
  cases k with
  | period δ imm pend next => cases next <;> rfl
  | periods δs imm pend nexts => cases nexts <;> rfl
  | _ => rfl

/-- identity, keyword arguments and constructor parameters of a trigger object (what `reset()` leaves) -/
def SameObj (a b : Trig) : Prop := a.id = b.id ∧ a.kw = b.kw ∧ a.k.reset = b.k.reset

theorem rerun_fireLoop_same (now : Int) : ∀ trigs : List Trig, ∀ t' ∈ (fireLoop now trigs).2.1, ∃ t ∈ trigs, SameObj t' t
  | [], t', h => by simp [fireLoop] at h
  | t :: rest, t', h => by
    unfold fireLoop at h
    cases he : whenErr t.k with
    | some e =>
      rw [he] at h
      exact ⟨t', h, rfl, rfl, rfl⟩
    | none =>
      rw [he] at h
      simp only [List.mem_cons] at h
      rcases h with rfl | h
      · exact ⟨t, List.mem_cons_self .., rfl, rfl, rerun_when_reset now t.k⟩
      · obtain ⟨x, hx, hs⟩ := rerun_fireLoop_same now rest t' h
        exact ⟨x, List.mem_cons_of_mem _ hx, hs⟩

theorem rerun_retire_sub (now : Int) : ∀ trigs : List Trig, ∀ t' ∈ (retire now trigs).1, t' ∈ trigs
  | [], t', h => by simp [retire] at h
  | t :: rest, t', h => by
    unfold retire at h
    cases he : outErr t.k with
    | some e => rw [he] at h; exact h
    | none =>
      rw [he] at h
      simp only [] at h
      split at h
      · exact List.mem_cons_of_mem _ (rerun_retire_sub now rest t' h)
      · rcases List.mem_cons.mp h with rfl | h
        · exact List.mem_cons_self ..
        · exact List.mem_cons_of_mem _ (rerun_retire_sub now rest t' h)

theorem rerun_trigPhase_same (now : Int) (trigs : List Trig) : ∀ t' ∈ (trigPhase now trigs).2.1, ∃ t ∈ trigs, SameObj t' t := by
  intro t' h
  unfold trigPhase at h
  dsimp only at h
  cases he : (fireLoop now trigs).2.2 with
  | some e => rw [he] at h; exact rerun_fireLoop_same now trigs t' h
  | none =>
    rw [he] at h
    exact rerun_fireLoop_same now trigs t' (rerun_retire_sub now _ t' h)

theorem rerun_trigRun_same : ∀ (bars : List Int) (trigs : List Trig), ∀ t' ∈ (trigRun bars trigs).2.1, ∃ t ∈ trigs, SameObj t' t
  | [], trigs, t', h => ⟨t', h, rfl, rfl, rfl⟩
  | b :: bars, trigs, t', h => by
    unfold trigRun at h
    dsimp only at h
    cases he : (trigPhase b trigs).2.2 with
    | some e => rw [he] at h; exact rerun_trigPhase_same b trigs t' h
    | none =>
      rw [he] at h
      obtain ⟨x, hx, hs⟩ := rerun_trigRun_same bars _ t' h
      obtain ⟨y, hy, hs'⟩ := rerun_trigPhase_same b trigs x hx
      exact ⟨y, hy, hs.1.trans hs'.1, hs.2.1.trans hs'.2.1, hs.2.2.trans hs'.2.2⟩

theorem rerun_nodup_inj {α β : Type} (f : α → β) : ∀ l : List α, (l.map f).Nodup → ∀ x ∈ l, ∀ y ∈ l, f x = f y → x = y
  | [], _, x, hx, _, _, _ => by cases hx
  | a :: l, hn, x, hx, y, hy, hxy => by
    simp only [List.map_cons, List.nodup_cons, List.mem_map, not_exists, not_and] at hn
    rcases List.mem_cons.mp hx with rfl | hx' <;> rcases List.mem_cons.mp hy with rfl | hy'
    · rfl
    · exact absurd hxy.symm (hn.1 y hy')
    · exact absurd hxy (hn.1 x hx')
    · exact rerun_nodup_inj f l hn.2 x hx' y hy' hxy

/-- handing the list back: every object is where it was, reset it is what it was -/
theorem rerun_handBack_reset (before live : List Trig) (hn : (before.map (·.id)).Nodup)
    (hl : ∀ t' ∈ live, ∃ t ∈ before, SameObj t' t) : (handBack before live).map Trig.reset = before.map Trig.reset := by
  unfold handBack
  rw [List.map_map]
  apply List.map_congr_left
  intro t ht
  simp only [Function.comp]
  cases hf : live.find? (fun t' => t'.id == t.id) with
  | none => rfl
  | some t' =>
    simp only [Option.getD_some]
    have hid : t'.id = t.id := by simpa using List.find?_some hf
    obtain ⟨t0, ht0, h1, h2, h3⟩ := hl t' (List.mem_of_find?_eq_some hf)
    have : t0 = t := by
      exact rerun_nodup_inj (·.id) before hn t0 ht0 t ht (h1.symm.trans hid)
    subst this
    unfold Trig.reset
    cases t' ; cases t0
    simp only [] at h1 h2 h3 ⊢
    subst h1 h2
    rw [h3]

theorem rerun_map_reset_ids (trigs : List Trig) : (trigs.map Trig.reset).map (·.id) = trigs.map (·.id) := by
  rw [List.map_map]; rfl

theorem rerun_map_reset_idem (trigs : List Trig) : (trigs.map Trig.reset).map Trig.reset = trigs.map Trig.reset := by
  rw [List.map_map]
  apply List.map_congr_left
  intro t _
  simp [Trig.reset, rerun_reset_idem]

end Core

/-- the source still resets the triggers and hands the list back (generated from demeter/core/actuator.py) -/
theorem C02_run_resets_triggers_in_source : Gen.coreRunResetsTriggers = true := rfl

/-- **C02 — a rerun does not depend on what an earlier run left in the trigger objects**: whatever state the strategy's triggers
    are in (same objects: same positions, keyword arguments and constructor parameters), `Actuator.run` produces the same call
    trace, account rows, actions and outcome. -/
theorem C02_rerun_any_leftover_state (cfg : Cfg) (sc : Script) (trigs trigs' : List Trig)
    (h : trigs'.map Trig.reset = trigs.map Trig.reset) : actuatorRun cfg trigs' sc = actuatorRun cfg trigs sc := by
  unfold actuatorRun startTrigs
  rw [C02_run_resets_triggers_in_source]
  simp only [if_true, h]

/-- reset, the strategy's trigger objects after a normal run are what they were before it -/
theorem Core.rerun_after_reset (cfg : Cfg) (sc : Script) (trigs : List Trig) (hn : (trigs.map (·.id)).Nodup)
    (h : (actuatorRun cfg trigs sc).err = none) : (trigsAfterRun cfg trigs sc).map Trig.reset = trigs.map Trig.reset := by
  unfold trigsAfterRun
  rw [C02_run_resets_triggers_in_source]
  simp only [if_true]
  have hs : startTrigs trigs = trigs.map Trig.reset := by
    unfold startTrigs; rw [C02_run_resets_triggers_in_source]; rfl
  rw [hs]
  have hleft : (actuatorRun cfg trigs sc).trigsLeft = (trigRun (barIndex cfg) (trigs.map Trig.reset)).2.1 := by
    have := (C05_trigger_calls_are_trigRun cfg (startTrigs trigs) sc h).2.1
    rw [hs] at this
    exact this
  rw [rerun_handBack_reset _ _ (by rw [rerun_map_reset_ids]; exact hn)
    (by rw [hleft]; exact rerun_trigRun_same (barIndex cfg) _), rerun_map_reset_idem]

/-- **C02 — repeating the run with the same strategy object reproduces it exactly.**  After a run that ended normally the strategy
    holds `trigsAfterRun` (the list it had, each object in the state the loop left it in, retired ones included); running again —
    fresh account, same data, same script — gives the identical result, and the trigger objects end up in the same state again. -/
theorem C02_rerun_same_strategy_object (cfg : Cfg) (sc : Script) (trigs : List Trig) (hn : (trigs.map (·.id)).Nodup)
    (h : (actuatorRun cfg trigs sc).err = none) :
    actuatorRun cfg (trigsAfterRun cfg trigs sc) sc = actuatorRun cfg trigs sc ∧
    trigsAfterRun cfg (trigsAfterRun cfg trigs sc) sc = trigsAfterRun cfg trigs sc := by
  have key := Core.rerun_after_reset cfg sc trigs hn h
  have h1 := C02_rerun_any_leftover_state cfg sc trigs _ key
  refine ⟨h1, ?_⟩
  have hst : startTrigs (trigsAfterRun cfg trigs sc) = startTrigs trigs := by
    unfold startTrigs; rw [C02_run_resets_triggers_in_source]; simp only [if_true]; exact key
  have gen : ∀ T T' : List Trig, startTrigs T' = startTrigs T → trigsAfterRun cfg T' sc = trigsAfterRun cfg T sc := by
    intro T T' hT
    unfold trigsAfterRun actuatorRun
    rw [hT]
  exact gen _ _ hst

/-! ### the unrepaired behaviour, as a kernel-checked witness: without the reset the second run of a 2-minute period trigger over
    four one-minute bars is silent (its due time, left by the first run, lies beyond the data) -/

def Core.rerunCfg : Cfg := { markets := [{ idx := [0, 60, 120, 180], openCb := false }], priceIdx := [0, 60, 120, 180], Δ := 60, resample := false }
def Core.rerunScript : Script :=
  { init := [], before := fun _ => [], fire := fun _ _ => [], openCb := fun _ _ => [], on := fun _ => [], after := fun _ => [], upd := fun _ _ => [] }
def Core.rerunTrigs : List Trig := install [("", .period 120 true 0 none), ("", .atTime 60)]

theorem C02_unrepaired_rerun_is_silent :
    (run Core.rerunCfg Core.rerunTrigs Core.rerunScript).trace.filterMap fireOfEv = [⟨0, 0, ""⟩, ⟨60, 1, ""⟩, ⟨120, 0, ""⟩] ∧
    (run Core.rerunCfg (run Core.rerunCfg Core.rerunTrigs Core.rerunScript).trigsLeft Core.rerunScript).trace.filterMap fireOfEv = [] := by
  decide

example : (actuatorRun Core.rerunCfg (trigsAfterRun Core.rerunCfg Core.rerunTrigs Core.rerunScript) Core.rerunScript).trace.filterMap fireOfEv
    = [⟨0, 0, ""⟩, ⟨60, 1, ""⟩, ⟨120, 0, ""⟩] := by decide

example : (actuatorRun Core.rerunCfg Core.rerunTrigs Core.rerunScript).err = none := by decide

end Demeter
