/-
  C02 at the level of `Actuator.run` (review finding E-5).

  `C02_actuator_prefix` (Proofs/C02.lean) is about `runBars`, with the list of bars as an ARGUMENT.  `Actuator.run` computes that list
  itself: `get_test_range` (actuator.py) takes the index of the market whose frame has the most distinct timestamps in the WHOLE frame
  (`longestIdx`, `barIndex`).  Which market that is can be decided by rows that lie after bar k: the clause "bars 0..k depend only on the
  data of bars 0..k" is FALSE of `run` (and of the real Actuator: harness/c02.py, key `lookahead:bar-index:driving-market-changes-in-suffix`):

    * `C02_fails_driving_market_changes_in_the_suffix` — the kernel-checked witness: markets [0,60,120] and [60,120] versus [0,60,120] and
      [60,…,240]: every shared bar supplies the same data (`AgreeAt`), yet the first three account rows differ;
    * `C02_run_prefix_same_driving_market` — what does hold of `run`: if the two runs' bar indexes share the prefix `ts0 :: pre` (in
      particular: the same market defines the index and its frames agree on the prefix) and the data agree on those bars, then the call
      trace, the account rows, the recorded actions and the state after the prefix are identical, whatever comes later (errors included);
    * `C02_first_market_drives` — a sufficient condition on the frames for "the first market defines the index".
-/
import Proofs.C02
namespace Demeter
open Core

namespace Core

/-- `st'` continues `st`: account rows and action list only grow -/
def Ext (st st' : St) : Prop := st.rows <+: st'.rows ∧ st.all <+: st'.all

theorem Ext.refl (st : St) : Ext st st := ⟨List.prefix_refl _, List.prefix_refl _⟩

theorem Ext.trans {a b c : St} (h1 : Ext a b) (h2 : Ext b c) : Ext a c := ⟨h1.1.trans h2.1, h1.2.trans h2.2⟩

theorem Frame.ext {st : St} {r : List Ev × St} (h : Frame st r) : Ext st r.2 :=
  ⟨by rw [h.1]; exact List.prefix_refl _, by rw [h.2.2.2]; exact List.prefix_append _ _⟩

theorem runNotify_ext (sc : Script) (ts : Int) (row : Nat) : ∀ (fuel i : Nat) (st : St), Ext st (runNotify sc ts row fuel i st).2.1
  | 0, _, st => Ext.refl st
  | fuel + 1, i, st => by
    unfold runNotify
    split
    · exact Ext.refl st
    · rename_i a _
      exact (runOps_frame ts .notify (sc.notify row a.tag) st).ext.trans (runNotify_ext sc ts row fuel (i + 1) _)

theorem barStep_ext (cfg : Cfg) (sc : Script) (row : Nat) (ts : Int) (st : St) : Ext st (barStep cfg sc row ts st).2.1 := by
  unfold barStep
  cases priceAt cfg ts with
  | none => exact Ext.refl st
  | some price =>
    simp only []
    have fb : Frame { st with ms := (barParts cfg sc row ts st price).s1.2 } (barParts cfg sc row ts st price).b := runOps_frame ts .before _ _
    have ff : Frame (barParts cfg sc row ts st price).b.2 (barParts cfg sc row ts st price).f := runFires_frame sc ts row _ _
    have fo : Frame { (barParts cfg sc row ts st price).f.2 with trigs := (barParts cfg sc row ts st price).tp.2.1 }
        (barParts cfg sc row ts st price).o := runOpenFrom_frame sc ts row 0 _ _
    have fn : Frame (barParts cfg sc row ts st price).o.2 (barParts cfg sc row ts st price).n := runOps_frame ts .on _ _
    have fu : Frame { (barParts cfg sc row ts st price).n.2 with ms := (barParts cfg sc row ts st price).s2.2 }
        (barParts cfg sc row ts st price).u := runUpdFrom_frame sc ts row 0 _ _
    have fa : Frame (barParts cfg sc row ts st price).u.2 (barParts cfg sc row ts st price).a := runOps_frame ts .after _ _
    have e0 : Ext st (barParts cfg sc row ts st price).f.2 := Ext.trans (b := (barParts cfg sc row ts st price).b.2) fb.ext ff.ext
    have e1 : Ext st (barParts cfg sc row ts st price).nt.2.1 :=
      e0.trans (Ext.trans (b := (barParts cfg sc row ts st price).o.2) fo.ext
        (fn.ext.trans (Ext.trans (b := (barParts cfg sc row ts st price).u.2) fu.ext
          (fa.ext.trans (runNotify_ext sc ts row _ 0 _)))))
    have e2 : Ext st ((barParts cfg sc row ts st price).final ts) :=
      ⟨e1.1.trans (List.prefix_append _ _), e1.2⟩
    cases (barParts cfg sc row ts st price).tp.2.2 with
    | some e => exact e0
    | none =>
      simp only []
      split
      · exact e2
      · exact e2

/-- whatever happens — errors included — the loop only appends to the account rows and to the action list -/
theorem runBars_ext (cfg : Cfg) (sc : Script) : ∀ (bars : List Int) (row : Nat) (st : St), Ext st (runBars cfg sc row bars st).2.1
  | [], _, st => Ext.refl st
  | ts :: bars, row, st => by
    have h1 := barStep_ext cfg sc row ts st
    rw [runBars]
    simp only []
    cases (barStep cfg sc row ts st).2.2 with
    | some e => exact h1
    | none => exact h1.trans (runBars_ext cfg sc bars (row + 1) _)

/-- a loop that stopped inside `pre` never sees what follows -/
theorem runBars_append_err (cfg : Cfg) (sc : Script) : ∀ (pre suf : List Int) (row : Nat) (st : St) (e : PyErr),
    (runBars cfg sc row pre st).2.2 = some e → runBars cfg sc row (pre ++ suf) st = runBars cfg sc row pre st
  | [], _, _, _, _, h => by simp [runBars] at h
  | ts :: pre, suf, row, st, e, h => by
    rw [List.cons_append, runBars, runBars]
    rw [runBars] at h
    simp only [] at h ⊢
    cases hb : (barStep cfg sc row ts st).2.2 with
    | some e' => rfl
    | none =>
      rw [hb] at h
      simp only [] at h ⊢
      rw [runBars_append_err cfg sc pre suf (row + 1) _ e h]

/-- `Actuator.run` up to and including the bars `ts0 :: pre`: the refresh before `initialize`, `initialize`, the loop over those bars
    (calls, state, the exception that ended it if any) -/
def runPrefix (cfg : Cfg) (trigs : List Trig) (sc : Script) (ts0 : Int) (pre : List Int) : List Ev × St × Option PyErr :=
  let s0 := setAllFrom cfg ts0 0 0 cfg.markets
  let i := runOps ts0 .init sc.init ⟨s0.2, trigs, [], [], []⟩
  let r := runBars cfg sc 0 (ts0 :: pre) i.2
  (s0.1 ++ .initialize ts0 :: i.1 ++ r.1, r.2.1, r.2.2)

theorem run_unfold {cfg : Cfg} {trigs : List Trig} {sc : Script} {ts0 : Int} {bars : List Int} {p : Option Int}
    (hc : checkBacktest cfg = none) (hb : barIndex cfg = ts0 :: bars) (hp : priceAt cfg ts0 = some p) :
    run cfg trigs sc =
      ⟨(runPrefix cfg trigs sc ts0 bars).1 ++ (match (runPrefix cfg trigs sc ts0 bars).2.2 with
          | none => [Ev.finalize ((ts0 :: bars).getLast?.getD ts0)] | some _ => []),
        (runPrefix cfg trigs sc ts0 bars).2.1.rows, (runPrefix cfg trigs sc ts0 bars).2.1.all,
        (runPrefix cfg trigs sc ts0 bars).2.1.trigs, (runPrefix cfg trigs sc ts0 bars).2.2⟩ := by
  unfold run runPrefix
  simp only [hc, hb, hp, List.append_assoc, List.cons_append]
  rfl

/-- the prefix of a longer run -/
theorem runPrefix_append (cfg : Cfg) (trigs : List Trig) (sc : Script) (ts0 : Int) (pre suf : List Int)
    (hok : (runPrefix cfg trigs sc ts0 pre).2.2 = none) :
    (∃ later, (runPrefix cfg trigs sc ts0 (pre ++ suf)).1 = (runPrefix cfg trigs sc ts0 pre).1 ++ later) ∧
    Ext (runPrefix cfg trigs sc ts0 pre).2.1 (runPrefix cfg trigs sc ts0 (pre ++ suf)).2.1 := by
  unfold runPrefix at hok ⊢
  simp only [] at hok ⊢
  have ha := runBars_append cfg sc (ts0 :: pre) suf 0 _ hok
  rw [List.cons_append] at ha
  rw [ha]
  simp only [List.append_assoc, List.cons_append]
  exact ⟨⟨_, rfl⟩, runBars_ext cfg sc suf _ _⟩

theorem longestIdx_le (b : Nat) : ∀ ms : List MarketCfg, (∀ m ∈ ms, (distinctTimes m.idx).length ≤ b) → (longestIdx ms).length ≤ b
  | [], _ => by simp [longestIdx]
  | m :: ms, h => by
    unfold longestIdx
    split
    · exact longestIdx_le b ms (fun x hx => h x (List.mem_cons_of_mem _ hx))
    · exact h m (List.mem_cons_self ..)

end Core

/-! ### the witness -/

def Core.drvA : Cfg := ⟨[{ idx := [0, 60, 120], openCb := false }, { idx := [60, 120], openCb := false }], [0, 60, 120], 60, false⟩
def Core.drvB : Cfg := ⟨[{ idx := [0, 60, 120], openCb := false }, { idx := [60, 120, 180, 240], openCb := false }], [0, 60, 120, 180, 240], 60, false⟩
/-- a strategy that does nothing -/
def Core.drvScript : Script :=
  { init := [], before := fun _ => [], fire := fun _ _ => [], openCb := fun _ _ => [], on := fun _ => [], after := fun _ => [], upd := fun _ _ => [] }

instance Core.instDecidableMEq (c₁ c₂ : Cfg) (ts : Int) (m₁ m₂ : MarketCfg) : Decidable (MEq c₁ c₂ ts m₁ m₂) := by
  unfold MEq; exact inferInstance

theorem Core.drv_agree : ∀ t ∈ [(0 : Int), 60, 120], AgreeAt Core.drvA Core.drvB t := by
  intro t ht
  simp only [List.mem_cons, List.not_mem_nil, or_false] at ht
  rcases ht with rfl | rfl | rfl <;>
    exact ⟨by decide, .cons (by decide) (.cons (by decide) .nil)⟩

/-- **C02 is false of `Actuator.run` when the market that defines the bar index changes with data after bar k.**  Two configurations that
    supply the same data for every one of the bars 0, 60, 120 (same price row; per market the same `is_open` and the same row) — they differ
    only in rows stamped 180 and 240 of the second market and of the price frame — and the strategy that does nothing: both runs end normally,
    the first visits the bars 0, 60, 120, the second 60, 120, 180, 240, so already the first account row differs.  (`get_test_range`: the
    market with the most distinct timestamps in the whole frame; by design.) -/
theorem C02_fails_driving_market_changes_in_the_suffix :
    (∀ t ∈ [(0 : Int), 60, 120], AgreeAt Core.drvA Core.drvB t) ∧
    (run Core.drvA [] Core.drvScript).err = none ∧ (run Core.drvB [] Core.drvScript).err = none ∧
    (run Core.drvA [] Core.drvScript).rows = [(0, some 0), (60, some 60), (120, some 120)] ∧
    (run Core.drvB [] Core.drvScript).rows = [(60, some 60), (120, some 120), (180, some 180), (240, some 240)] ∧
    ¬ ((run Core.drvA [] Core.drvScript).rows.take 3 = (run Core.drvB [] Core.drvScript).rows.take 3) ∧
    ¬ ((run Core.drvA [] Core.drvScript).trace.take 3 = (run Core.drvB [] Core.drvScript).trace.take 3) ∧
    barIndex Core.drvA = [0, 60, 120] ∧ barIndex Core.drvB = [60, 120, 180, 240] :=
  ⟨Core.drv_agree, by decide, by decide, by decide, by decide, by decide, by decide, by decide, by decide⟩

/-! ### what holds of `run` -/

/-- **C02 for `Actuator.run`, same driving market.**  Two configurations that pass `_check_backtest`, whose bar indexes — as `run` computes
    them from the frames — share the prefix `ts0 :: pre`, and whose data agree on those bars.  If the first run gets through the prefix
    (`hok`), then: the second run does exactly the same up to there (same calls, same state — installed triggers with their private state,
    `has_update` flags, pending actions, account rows, action list — same outcome); both runs' traces start with the trace of the prefix;
    both runs' account rows start with the rows of the prefix, one row per bar of the prefix; both runs' action lists start with the actions
    recorded in the prefix.  Whatever comes later — more bars, other data, an exception — does not matter. -/
theorem C02_run_prefix_same_driving_market (c₁ c₂ : Cfg) (trigs : List Trig) (sc : Script) (ts0 : Int) (pre suf₁ suf₂ : List Int)
    (hc₁ : checkBacktest c₁ = none) (hc₂ : checkBacktest c₂ = none)
    (hb₁ : barIndex c₁ = ts0 :: pre ++ suf₁) (hb₂ : barIndex c₂ = ts0 :: pre ++ suf₂)
    (hag : ∀ t ∈ ts0 :: pre, AgreeAt c₁ c₂ t)
    (hok : (runPrefix c₁ trigs sc ts0 pre).2.2 = none) :
    runPrefix c₂ trigs sc ts0 pre = runPrefix c₁ trigs sc ts0 pre ∧
    (runPrefix c₁ trigs sc ts0 pre).1 <+: (run c₁ trigs sc).trace ∧ (runPrefix c₁ trigs sc ts0 pre).1 <+: (run c₂ trigs sc).trace ∧
    (runPrefix c₁ trigs sc ts0 pre).2.1.rows <+: (run c₁ trigs sc).rows ∧ (runPrefix c₁ trigs sc ts0 pre).2.1.rows <+: (run c₂ trigs sc).rows ∧
    (runPrefix c₁ trigs sc ts0 pre).2.1.rows.map Prod.fst = ts0 :: pre ∧
    (runPrefix c₁ trigs sc ts0 pre).2.1.all <+: (run c₁ trigs sc).actions ∧ (runPrefix c₁ trigs sc ts0 pre).2.1.all <+: (run c₂ trigs sc).actions := by
  have h0 := hag ts0 (List.mem_cons_self ..)
  -- the second run's prefix is the first's
  have hinit : setAllFrom c₂ ts0 0 0 c₂.markets = setAllFrom c₁ ts0 0 0 c₁.markets := (setAllFrom_agree c₁ c₂ ts0 0 0 _ _ h0.2).symm
  have heq : runPrefix c₂ trigs sc ts0 pre = runPrefix c₁ trigs sc ts0 pre := by
    unfold runPrefix
    simp only [hinit]
    rw [runBars_agree c₁ c₂ sc (ts0 :: pre) 0 _ hag]
  have hok₂ : (runPrefix c₂ trigs sc ts0 pre).2.2 = none := by rw [heq]; exact hok
  -- the first bar has a price row
  have hp₁ : ∃ p, priceAt c₁ ts0 = some p := by
    have hb : (runBars c₁ sc 0 (ts0 :: pre) (runOps ts0 .init sc.init ⟨(setAllFrom c₁ ts0 0 0 c₁.markets).2, trigs, [], [], []⟩).2).2.2 = none := hok
    obtain ⟨p, hp, _⟩ := barStep_ok (runBars_cons_ok hb).1
    exact ⟨p, hp⟩
  obtain ⟨p, hp₁⟩ := hp₁
  have hp₂ : priceAt c₂ ts0 = some p := by rw [← h0.1]; exact hp₁
  have a₁ := runPrefix_append c₁ trigs sc ts0 pre suf₁ hok
  have a₂ := runPrefix_append c₂ trigs sc ts0 pre suf₂ hok₂
  rw [heq] at a₂
  have r₁ := run_unfold (trigs := trigs) (sc := sc) hc₁ (by rw [hb₁]; rfl : barIndex c₁ = ts0 :: (pre ++ suf₁)) hp₁
  have r₂ := run_unfold (trigs := trigs) (sc := sc) hc₂ (by rw [hb₂]; rfl : barIndex c₂ = ts0 :: (pre ++ suf₂)) hp₂
  have hrows : (runPrefix c₁ trigs sc ts0 pre).2.1.rows.map Prod.fst = ts0 :: pre := by
    have hb : (runBars c₁ sc 0 (ts0 :: pre) (runOps ts0 .init sc.init ⟨(setAllFrom c₁ ts0 0 0 c₁.markets).2, trigs, [], [], []⟩).2).2.2 = none := hok
    have hbk := (runBars_book c₁ sc (ts0 :: pre) 0 _ hb).1
    have hi := (runOps_frame ts0 .init sc.init ⟨(setAllFrom c₁ ts0 0 0 c₁.markets).2, trigs, [], [], []⟩).1
    show (runBars c₁ sc 0 (ts0 :: pre) (runOps ts0 .init sc.init ⟨(setAllFrom c₁ ts0 0 0 c₁.markets).2, trigs, [], [], []⟩).2).2.1.rows.map Prod.fst = ts0 :: pre
    rw [hbk, hi]
    simp [List.map_map, Function.comp_def]
  obtain ⟨⟨l₁, hl₁⟩, e₁⟩ := a₁
  obtain ⟨⟨l₂, hl₂⟩, e₂⟩ := a₂
  refine ⟨heq, ?_, ?_, ?_, ?_, hrows, ?_, ?_⟩
  · rw [r₁]; simp only []; rw [hl₁, List.append_assoc]; exact List.prefix_append _ _
  · rw [r₂]; simp only []; rw [hl₂, List.append_assoc]; exact List.prefix_append _ _
  · rw [r₁]; exact e₁.1
  · rw [r₂]; exact e₂.1
  · rw [r₁]; exact e₁.2
  · rw [r₂]; exact e₂.2

/-- … in particular the account rows of the bars of the prefix are the same rows in both runs -/
theorem C02_run_rows_of_prefix_same_driving_market (c₁ c₂ : Cfg) (trigs : List Trig) (sc : Script) (ts0 : Int) (pre suf₁ suf₂ : List Int)
    (hc₁ : checkBacktest c₁ = none) (hc₂ : checkBacktest c₂ = none)
    (hb₁ : barIndex c₁ = ts0 :: pre ++ suf₁) (hb₂ : barIndex c₂ = ts0 :: pre ++ suf₂)
    (hag : ∀ t ∈ ts0 :: pre, AgreeAt c₁ c₂ t)
    (hok : (runPrefix c₁ trigs sc ts0 pre).2.2 = none) :
    (run c₁ trigs sc).rows.take (pre.length + 1) = (run c₂ trigs sc).rows.take (pre.length + 1) ∧
    ((run c₁ trigs sc).rows.take (pre.length + 1)).map Prod.fst = ts0 :: pre := by
  obtain ⟨_, _, _, h₁, h₂, hr, _, _⟩ := C02_run_prefix_same_driving_market c₁ c₂ trigs sc ts0 pre suf₁ suf₂ hc₁ hc₂ hb₁ hb₂ hag hok
  have hlen : (runPrefix c₁ trigs sc ts0 pre).2.1.rows.length = pre.length + 1 := by
    have := congrArg List.length hr
    simpa using this
  have t₁ : (run c₁ trigs sc).rows.take (pre.length + 1) = (runPrefix c₁ trigs sc ts0 pre).2.1.rows := by
    rw [← hlen]; exact (List.prefix_iff_eq_take.mp h₁).symm
  have t₂ : (run c₂ trigs sc).rows.take (pre.length + 1) = (runPrefix c₁ trigs sc ts0 pre).2.1.rows := by
    rw [← hlen]; exact (List.prefix_iff_eq_take.mp h₂).symm
  exact ⟨t₁.trans t₂.symm, by rw [t₁]; exact hr⟩

/-- the loop stopped inside the common prefix (a trigger raised, a price row is missing, a `notify` loop did not end): the two runs are the
    same run -/
theorem C02_run_prefix_error_same_driving_market (c₁ c₂ : Cfg) (trigs : List Trig) (sc : Script) (ts0 : Int) (pre suf₁ suf₂ : List Int) (e : PyErr)
    (hc₁ : checkBacktest c₁ = none) (hc₂ : checkBacktest c₂ = none)
    (hb₁ : barIndex c₁ = ts0 :: pre ++ suf₁) (hb₂ : barIndex c₂ = ts0 :: pre ++ suf₂)
    (hag : ∀ t ∈ ts0 :: pre, AgreeAt c₁ c₂ t) (hp : (priceAt c₁ ts0).isSome)
    (herr : (runPrefix c₁ trigs sc ts0 pre).2.2 = some e) :
    run c₂ trigs sc = run c₁ trigs sc := by
  have h0 := hag ts0 (List.mem_cons_self ..)
  have hinit : setAllFrom c₂ ts0 0 0 c₂.markets = setAllFrom c₁ ts0 0 0 c₁.markets := (setAllFrom_agree c₁ c₂ ts0 0 0 _ _ h0.2).symm
  have heq : runPrefix c₂ trigs sc ts0 pre = runPrefix c₁ trigs sc ts0 pre := by
    unfold runPrefix
    simp only [hinit]
    rw [runBars_agree c₁ c₂ sc (ts0 :: pre) 0 _ hag]
  obtain ⟨p, hp₁⟩ := Option.isSome_iff_exists.mp hp
  have hp₂ : priceAt c₂ ts0 = some p := by rw [← h0.1]; exact hp₁
  have cut : ∀ (c : Cfg) (suf : List Int) (e : PyErr), (runPrefix c trigs sc ts0 pre).2.2 = some e →
      runPrefix c trigs sc ts0 (pre ++ suf) = runPrefix c trigs sc ts0 pre := by
    intro c suf e h
    unfold runPrefix at h ⊢
    simp only [] at h ⊢
    have := runBars_append_err c sc (ts0 :: pre) suf 0 _ e h
    rw [List.cons_append] at this
    rw [this]
  have r₁ := run_unfold (trigs := trigs) (sc := sc) hc₁ (by rw [hb₁]; rfl : barIndex c₁ = ts0 :: (pre ++ suf₁)) hp₁
  have r₂ := run_unfold (trigs := trigs) (sc := sc) hc₂ (by rw [hb₂]; rfl : barIndex c₂ = ts0 :: (pre ++ suf₂)) hp₂
  rw [r₁, r₂, cut c₁ suf₁ e herr, cut c₂ suf₂ e (by rw [heq]; exact herr), heq, herr]

/-- "the same market defines the index", on the frames: if no other market has more distinct timestamps than the first one, the run is over
    the first market's timestamps -/
theorem C02_first_market_drives (cfg : Cfg) (d : MarketCfg) (rest : List MarketCfg) (hm : cfg.markets = d :: rest)
    (h : ∀ m ∈ rest, (distinctTimes m.idx).length ≤ (distinctTimes d.idx).length) :
    barIndex cfg = frameIdx cfg.resample cfg.Δ (distinctTimes d.idx) := by
  unfold barIndex
  rw [hm]
  unfold longestIdx
  have := longestIdx_le _ rest h
  rw [if_neg (by omega)]

/-! ### non-vacuity: the same frames where the second market does NOT outgrow the first ([60,…,180]: three timestamps each) -/

def Core.drvC : Cfg := ⟨[{ idx := [0, 60, 120], openCb := false }, { idx := [60, 120, 180], openCb := false }], [0, 60, 120, 180], 60, false⟩

example : barIndex Core.drvC = frameIdx false 60 (distinctTimes [0, 60, 120]) :=
  C02_first_market_drives Core.drvC _ _ rfl (by decide)

example : (run Core.drvA [] Core.drvScript).rows.take 3 = (run Core.drvC [] Core.drvScript).rows.take 3 ∧
    ((run Core.drvA [] Core.drvScript).rows.take 3).map Prod.fst = [0, 60, 120] :=
  C02_run_rows_of_prefix_same_driving_market Core.drvA Core.drvC [] Core.drvScript 0 [60, 120] [] [] (by decide) (by decide) (by decide) (by decide)
    (by
      intro t ht
      simp only [List.mem_cons, List.not_mem_nil, or_false] at ht
      rcases ht with rfl | rfl | rfl <;> exact ⟨by decide, .cons (by decide) (.cons (by decide) .nil)⟩)
    (by decide)

/-! ### the same on the frames: the first market is the longest in both histories -/

theorem Core.distinctTimes_sorted : ∀ l : List Int, l.Pairwise (· < ·) → distinctTimes l = l
  | [], _ => rfl
  | [_], _ => rfl
  | a :: b :: l, h => by
    have hab : a < b := (List.pairwise_cons.mp h).1 b (List.mem_cons_self ..)
    have ih := Core.distinctTimes_sorted (b :: l) (List.pairwise_cons.mp h).2
    rw [distinctTimes, if_neg (by omega), ih]

/-- **C02 for `Actuator.run`, stated on the frames.**  One-minute runs (no resampling) of two configurations in which the FIRST market's frame
    (one row per timestamp, in time order) has at least as many timestamps as every other market's — in both — and the two first-market frames
    share the timestamps `ts0 :: pre`; data agreeing on those bars; `_check_backtest` passed.  Then the runs agree on the bars `ts0 :: pre`
    (trace, account rows, actions, state), whatever rows follow in any frame — as long as they do not make another market the longest
    (`C02_fails_driving_market_changes_in_the_suffix`: if they do, the clause is false). -/
theorem C02_run_prefix_first_market_longest (c₁ c₂ : Cfg) (trigs : List Trig) (sc : Script) (ts0 : Int) (pre suf₁ suf₂ : List Int)
    (d₁ d₂ : MarketCfg) (r₁ r₂ : List MarketCfg) (hm₁ : c₁.markets = d₁ :: r₁) (hm₂ : c₂.markets = d₂ :: r₂)
    (hr₁ : c₁.resample = false) (hr₂ : c₂.resample = false)
    (hd₁ : d₁.idx = ts0 :: pre ++ suf₁) (hd₂ : d₂.idx = ts0 :: pre ++ suf₂)
    (hs₁ : d₁.idx.Pairwise (· < ·)) (hs₂ : d₂.idx.Pairwise (· < ·))
    (hl₁ : ∀ m ∈ r₁, (distinctTimes m.idx).length ≤ d₁.idx.length) (hl₂ : ∀ m ∈ r₂, (distinctTimes m.idx).length ≤ d₂.idx.length)
    (hc₁ : checkBacktest c₁ = none) (hc₂ : checkBacktest c₂ = none)
    (hag : ∀ t ∈ ts0 :: pre, AgreeAt c₁ c₂ t)
    (hok : (runPrefix c₁ trigs sc ts0 pre).2.2 = none) :
    runPrefix c₂ trigs sc ts0 pre = runPrefix c₁ trigs sc ts0 pre ∧
    (runPrefix c₁ trigs sc ts0 pre).1 <+: (run c₁ trigs sc).trace ∧ (runPrefix c₁ trigs sc ts0 pre).1 <+: (run c₂ trigs sc).trace ∧
    (run c₁ trigs sc).rows.take (pre.length + 1) = (run c₂ trigs sc).rows.take (pre.length + 1) ∧
    ((run c₁ trigs sc).rows.take (pre.length + 1)).map Prod.fst = ts0 :: pre ∧
    (runPrefix c₁ trigs sc ts0 pre).2.1.all <+: (run c₁ trigs sc).actions ∧ (runPrefix c₁ trigs sc ts0 pre).2.1.all <+: (run c₂ trigs sc).actions := by
  have b₁ : barIndex c₁ = ts0 :: pre ++ suf₁ := by
    rw [C02_first_market_drives c₁ d₁ r₁ hm₁ (by rw [Core.distinctTimes_sorted _ hs₁]; exact hl₁), Core.distinctTimes_sorted _ hs₁, hr₁, hd₁]
    rfl
  have b₂ : barIndex c₂ = ts0 :: pre ++ suf₂ := by
    rw [C02_first_market_drives c₂ d₂ r₂ hm₂ (by rw [Core.distinctTimes_sorted _ hs₂]; exact hl₂), Core.distinctTimes_sorted _ hs₂, hr₂, hd₂]
    rfl
  obtain ⟨e, t₁, t₂, _, _, _, a₁, a₂⟩ := C02_run_prefix_same_driving_market c₁ c₂ trigs sc ts0 pre suf₁ suf₂ hc₁ hc₂ b₁ b₂ hag hok
  obtain ⟨q₁, q₂⟩ := C02_run_rows_of_prefix_same_driving_market c₁ c₂ trigs sc ts0 pre suf₁ suf₂ hc₁ hc₂ b₁ b₂ hag hok
  exact ⟨e, t₁, t₂, q₁, q₂, a₁, a₂⟩

/-- non-vacuity: `drvA` / `drvC` of this file (second market [60,120] versus [60,120,180]: never longer than the first) -/
example : (run Core.drvA [] Core.drvScript).rows.take 3 = (run Core.drvC [] Core.drvScript).rows.take 3 :=
  (C02_run_prefix_first_market_longest Core.drvA Core.drvC [] Core.drvScript 0 [60, 120] [] [] _ _ _ _ rfl rfl rfl rfl rfl rfl
    (by decide) (by decide) (by decide) (by decide) (by decide) (by decide)
    (by
      intro t ht
      simp only [List.mem_cons, List.not_mem_nil, or_false] at ht
      rcases ht with rfl | rfl | rfl <;> exact ⟨by decide, .cons (by decide) (.cons (by decide) .nil)⟩)
    (by decide)).2.2.2.1

end Demeter
