/-
  C20 — performance metrics equal their definitions.  Part 1: maximum drawdown.

  `Metrics.maxDrawDown` mirrors the code (`_withdraw_with_high_low` scan over indices, then
  `(nv[idx_h] - nv[idx_l]) / nv[idx_h]`), `Metrics.mddSpec` is the definition (largest relative decline from any
  point to any later point; 0 when nothing falls).  Exact rational semantics; the float rounding of the real
  code is measured by harness/c20.py, not proved.  Parts 2 and 3: Proofs/C20/Returns.lean, Proofs/C20/Stats.lean.
-/
import Proofs.Lemmas.Metrics
namespace Demeter
open Metrics

/-- the constants the scan starts from, as read from the source on this run: `g_withdraw, g_high, g_low = 0, 0, 0`
    (before the repair: `-np.inf, -1, -1`, which made a rising series report `-1.0`) -/
theorem C20_mdd_scan_start_pinned :
    Gen.metricsMddInit = some 0 ∧ Gen.metricsMddInitHigh = 0 ∧ Gen.metricsMddInitLow = 0 ∧ hlInit = ⟨0, 0, 0, 0⟩ := by
  decide +kernel

/-- what pins the rest of the repaired drawdown code.  The body of the scan — the `arr[i_high] > 0` guard, the **relative**
    `_dp = (arr[i_high] - arr[i]) / arr[i_high]`, the two comparisons — is not hand-copied on trust: `_withdraw_with_high_low` is
    translated from the current source by tools/py2lean.py on every run and `Tie_metrics_withdraw_with_high_low`
    (Proofs/Tie/Metrics.lean, audited with this property) proves the translation equal to `withdrawHighLow` for every list;
    reverting `_dp` to the absolute decline makes that theorem fail.  `max_draw_down` itself (pandas `.iloc`) is not translated:
    the flag says its body is still `(nv[idx_h] - nv[idx_l]) / nv[idx_h]` on the indices the scan returns, which is what
    `maxDrawDown` does. -/
theorem C20_mdd_quotient_on_scan_indices_pinned :
    Gen.metricsMddQuotientOnScanIndices = true ∧
    ∀ xs : List Rat, xs ≠ [] → nth xs (withdrawHighLow xs).gHigh ≠ 0 →
      maxDrawDown xs = .ok ((nth xs (withdrawHighLow xs).gHigh - nth xs (withdrawHighLow xs).gLow) / nth xs (withdrawHighLow xs).gHigh) := by
  refine ⟨by decide, fun xs hne h0 => ?_⟩
  have hlen : xs.length ≠ 0 := fun h => hne (List.length_eq_zero_iff.mp h)
  unfold maxDrawDown
  rw [if_neg hlen]
  simp only [h0, if_false]

/-- **the code's scan computes the definition**: for every non-empty positive series `max_draw_down` returns
    exactly the largest relative decline from a point to a later point. -/
theorem C20_mdd_code_eq_definition (xs : List Rat) (hp : AllPos xs) (hne : xs ≠ []) :
    maxDrawDown xs = .ok (mddSpec xs) := by
  have hlen : 0 < xs.length := List.length_pos_iff.mpr hne
  have inv := hlInv_run xs hp C20_mdd_scan_start_pinned.2.2.2 (xs.length - 1) (by omega)
  obtain ⟨_, _, hl, low, g_eq, g_max⟩ := inv
  have hpos : 0 < nth xs (withdrawHighLow xs).gHigh := nth_pos hp (by unfold withdrawHighLow; omega)
  have hval : (withdrawHighLow xs).g = mddSpec xs := by
    apply le_antisymm
    · unfold withdrawHighLow
      rw [g_eq]
      exact mddSpec_ge xs _ _ hl (by omega)
    · obtain ⟨i, j, hij, hj, e⟩ := mddSpec_attained xs hne
      rw [e]
      exact g_max i j hij (by omega)
  unfold maxDrawDown
  rw [if_neg (by omega)]
  simp only
  rw [if_neg (ne_of_gt hpos)]
  congr 1
  rw [← hval]
  unfold withdrawHighLow
  rw [g_eq]
  rfl

/-- the definition *is* "largest relative decline from a point to a later point": `mddSpec xs` is attained by a
    pair `i ≤ j` and bounds every such pair — so `max_draw_down` is that maximum -/
theorem C20_mdd_is_largest_relative_decline (xs : List Rat) (hp : AllPos xs) (hne : xs ≠ []) :
    ∃ v, maxDrawDown xs = .ok v ∧
      (∃ i j, i ≤ j ∧ j < xs.length ∧ v = (nth xs i - nth xs j) / nth xs i) ∧
      (∀ i j, i ≤ j → j < xs.length → (nth xs i - nth xs j) / nth xs i ≤ v) := by
  refine ⟨mddSpec xs, C20_mdd_code_eq_definition xs hp hne, ?_, ?_⟩
  · obtain ⟨i, j, hij, hj, e⟩ := mddSpec_attained xs hne
    exact ⟨i, j, hij, hj, e⟩
  · intro i j hij hj
    exact mddSpec_ge xs i j hij hj

/-! ### consequences, proved on the definition and transported to the code -/

theorem Metrics.maxDecl_eq_zero_of_le (x : Rat) (hx : 0 < x) (ys : List Rat) (h : ∀ y ∈ ys, x ≤ y) : maxDecl x ys = 0 := by
  induction ys with
  | nil => rfl
  | cons y r ih =>
    simp only [maxDecl]
    rw [ih (fun z hz => h z (List.mem_cons_of_mem _ hz))]
    apply max_eq_right
    apply div_nonpos_of_nonpos_of_nonneg _ (le_of_lt hx)
    have := h y List.mem_cons_self
    linarith

theorem Metrics.mddSpec_eq_zero_of_sorted (xs : List Rat) (hp : AllPos xs) (hs : xs.Pairwise (· ≤ ·)) : mddSpec xs = 0 := by
  induction xs with
  | nil => rfl
  | cons x r ih =>
    rw [List.pairwise_cons] at hs
    simp only [mddSpec]
    rw [ih hp.tail hs.2, maxDecl_eq_zero_of_le x hp.head r hs.1]
    simp

/-- **a never-falling series has drawdown 0** -/
theorem C20_mdd_zero_of_never_falling (xs : List Rat) (hp : AllPos xs) (hne : xs ≠ [])
    (hs : xs.Pairwise (· ≤ ·)) : maxDrawDown xs = .ok 0 := by
  rw [C20_mdd_code_eq_definition xs hp hne, mddSpec_eq_zero_of_sorted xs hp hs]

theorem Metrics.maxDecl_lt_one (x : Rat) (hx : 0 < x) (ys : List Rat) (h : AllPos ys) : maxDecl x ys < 1 := by
  induction ys with
  | nil => simp [maxDecl]
  | cons y r ih =>
    simp only [maxDecl]
    apply max_lt _ (ih h.tail)
    rw [div_lt_one hx]
    have := h.head
    linarith

theorem Metrics.mddSpec_lt_one (xs : List Rat) (hp : AllPos xs) : mddSpec xs < 1 := by
  induction xs with
  | nil => simp [mddSpec]
  | cons x r ih =>
    simp only [mddSpec]
    exact max_lt (maxDecl_lt_one x hp.head r hp.tail) (ih hp.tail)

/-- **for a positive series the drawdown lies in [0, 1]** (it is in fact below 1) -/
theorem C20_mdd_in_unit_interval (xs : List Rat) (hp : AllPos xs) (hne : xs ≠ []) :
    ∃ v, maxDrawDown xs = .ok v ∧ 0 ≤ v ∧ v ≤ 1 ∧ v < 1 :=
  ⟨mddSpec xs, C20_mdd_code_eq_definition xs hp hne, mddSpec_nonneg xs, le_of_lt (mddSpec_lt_one xs hp), mddSpec_lt_one xs hp⟩

theorem Metrics.maxDecl_scale (c x : Rat) (hc : c ≠ 0) (ys : List Rat) :
    maxDecl (c * x) (ys.map (c * ·)) = maxDecl x ys := by
  induction ys with
  | nil => rfl
  | cons y r ih =>
    simp only [List.map_cons, maxDecl]
    rw [ih]
    congr 1
    rw [← mul_sub, mul_div_mul_left _ _ hc]

theorem Metrics.mddSpec_scale (c : Rat) (hc : c ≠ 0) (xs : List Rat) : mddSpec (xs.map (c * ·)) = mddSpec xs := by
  induction xs with
  | nil => rfl
  | cons x r ih =>
    simp only [List.map_cons, mddSpec]
    rw [ih, maxDecl_scale c x hc r]

theorem Metrics.AllPos.scale {c : Rat} (hc : 0 < c) {xs : List Rat} (hp : AllPos xs) : AllPos (xs.map (c * ·)) := by
  intro y hy
  rw [List.mem_map] at hy
  obtain ⟨x, hx, rfl⟩ := hy
  exact mul_pos hc (hp x hx)

/-- **rescaling the series does not change the drawdown** -/
theorem C20_mdd_scale_invariant (c : Rat) (hc : 0 < c) (xs : List Rat) (hp : AllPos xs) :
    maxDrawDown (xs.map (c * ·)) = maxDrawDown xs := by
  by_cases hne : xs = []
  · subst hne; rfl
  · rw [C20_mdd_code_eq_definition xs hp hne,
        C20_mdd_code_eq_definition _ (hp.scale hc) (by simpa using hne), mddSpec_scale c (ne_of_gt hc)]

/-! ### the running-peak reading of the definition -/

theorem Metrics.maxDecl_mono_peak {p h : Rat} (hp : 0 < p) (hph : p ≤ h) (ys : List Rat) (hy : AllPos ys) :
    maxDecl p ys ≤ maxDecl h ys := by
  induction ys with
  | nil => exact le_refl _
  | cons y r ih =>
    simp only [maxDecl]
    exact max_le_max (decl_le_of_peak_le hp hph (le_of_lt hy.head)) (ih hy.tail)

theorem Metrics.mddPeak_eq (p : Rat) (hp : 0 < p) (xs : List Rat) (hx : AllPos xs) :
    mddPeak p xs = max (maxDecl p xs) (mddSpec xs) := by
  induction xs generalizing p with
  | nil => simp [mddPeak, maxDecl, mddSpec]
  | cons x r ih =>
    have hx0 := hx.head
    simp only [mddPeak, maxDecl, mddSpec]
    rcases le_total x p with h | h
    · rw [max_eq_left h, ih p hp hx.tail]
      have hm := maxDecl_mono_peak hx0 h r hx.tail
      -- max A (max B C) = max (max A B) (max D C)  with D ≤ B
      rw [max_assoc ((p - x) / p)]
      congr 1
      rw [← max_assoc, max_eq_left hm]
    · rw [max_eq_right h, ih x hx0 hx.tail]
      have hm := maxDecl_mono_peak hp h r hx.tail
      have hneg : (p - x) / p ≤ 0 := div_nonpos_of_nonpos_of_nonneg (by linarith) (le_of_lt hp)
      have h0 : (0 : Rat) ≤ maxDecl x r := maxDecl_nonneg x r
      rw [sub_self, zero_div]
      rw [max_eq_right (le_max_of_le_left h0)]
      rw [max_eq_right (le_trans hneg (maxDecl_nonneg p r)), ← max_assoc, max_eq_right hm]

/-- the definition over pairs equals "at every point, the relative decline from the highest value so far" -/
theorem C20_mdd_running_peak_form (x : Rat) (r : List Rat) (hp : AllPos (x :: r)) :
    maxDrawDown (x :: r) = .ok (mddPeak x (x :: r)) := by
  rw [C20_mdd_code_eq_definition _ hp (by simp), mddPeak_eq x hp.head _ hp]
  congr 1
  simp only [maxDecl, mddSpec, sub_self, zero_div]
  rw [max_eq_right (maxDecl_nonneg x r)]
  exact (max_eq_right (le_max_left _ _)).symm

/-! ### series outside the property's domain (zeros, negative values): the result is still never negative -/

theorem Metrics.hlStep_weak (xs : List Rat) (s : HL) (i : Nat) (h : s.g = dd xs s.gHigh s.gLow ∧ 0 ≤ s.g) :
    (hlStep xs s i).g = dd xs (hlStep xs s i).gHigh (hlStep xs s i).gLow ∧ 0 ≤ (hlStep xs s i).g := by
  unfold hlStep
  simp only
  generalize (if nth xs s.iHigh < nth xs (i - 1) then i - 1 else s.iHigh) = H
  by_cases h1 : 0 < nth xs H
  · simp only [h1, if_true]
    by_cases h2 : s.g < (nth xs H - nth xs i) / nth xs H
    · simp only [h2, if_true]
      exact ⟨rfl, le_of_lt (lt_of_le_of_lt h.2 h2)⟩
    · simp only [h2, if_false]
      exact h
  · simp only [h1, if_false]
    exact h

theorem Metrics.hlRun_weak (xs : List Rat) (k : Nat) :
    (hlRun xs k).g = dd xs (hlRun xs k).gHigh (hlRun xs k).gLow ∧ 0 ≤ (hlRun xs k).g := by
  induction k with
  | zero =>
    rw [hlRun_zero, C20_mdd_scan_start_pinned.2.2.2]
    simp [dd_self]
  | succ k ih => rw [hlRun_succ]; exact hlStep_weak xs _ _ ih

/-- for **any** series — zeros and negative values included — a finite result of `max_draw_down` is non-negative
    (before the repair a rising series gave −1) -/
theorem C20_mdd_never_negative (xs : List Rat) (v : Rat) (h : maxDrawDown xs = .ok v) : 0 ≤ v := by
  unfold maxDrawDown at h
  split at h
  · exact absurd h (by simp)
  · simp only at h
    split at h
    · exact absurd h (by simp)
    · simp only [Except.ok.injEq] at h
      have hw := hlRun_weak xs (xs.length - 1)
      unfold withdrawHighLow at h
      rw [← h]
      have := hw.1
      unfold dd at this
      rw [← this]
      exact hw.2

/-! ### the scan as it was before the repair does not compute the definition (the defect, on its witnesses) -/

/-- the old scan maximised the absolute decline: on `[1, 1/2, 100, 60]` it reported 0.4, the definition is 0.5 -/
theorem C20_old_scan_fails_absolute_vs_relative :
    ¬ (∀ xs : List Rat, AllPos xs → xs ≠ [] → maxDrawDownOld xs = .ok (mddSpec xs)) := by
  intro h
  have := h [1, 1/2, 100, 60] (by intro x hx; simp at hx; rcases hx with rfl | rfl | rfl | rfl <;> norm_num) (by simp)
  revert this
  decide +kernel

/-- … and on the rising series `[1, 2, 3]` it reported −1 (outside [0, 1]) -/
theorem C20_old_scan_fails_on_rising : maxDrawDownOld [1, 2, 3] = .ok (-1) ∧ maxDrawDown [1, 2, 3] = .ok 0 := by
  decide +kernel

/-! ### non-vacuity -/
example : AllPos [1, 1/2, 100, 60] := by
  intro x hx; simp at hx; rcases hx with rfl | rfl | rfl | rfl <;> norm_num
example : maxDrawDown [1, 1/2, 100, 60] = .ok (1/2) := by decide +kernel
example : maxDrawDown [3, 1, 8, 5, 6, 2, 9, 4, 5] = .ok (3/4) ∧ mddSpec [3, 1, 8, 5, 6, 2, 9, 4, 5] = 3/4 := by decide +kernel
example : maxDrawDown [] = .error .index := by decide +kernel
example : maxDrawDown [0, 0, 1] = .error .nonfinite := by decide +kernel

end Demeter
