/-
  C03 (Aave part) — with the bar frozen, supply / withdraw / borrow / repay create no value: the holdings of the
  token concerned (wallet + supplied amount − owed amount, in token units at the bar's indices) change by at most
  the wallet's 1e-5 dust (`Asset.sub` snaps a nearly emptied balance to 0) and the 1e-18 residue clamp of
  `sub_base_amount`, every other token's holdings are untouched, hence so is the net value at any fixed price
  vector; a rejected call changes nothing; nothing becomes negative; a withdrawal never pays out more than the supply.

  Exact rational arithmetic (`aaveExact`); model = `/repo/demeter/aave/market.py` after 8d1be35 (non-positive
  amounts rejected — before it `supply(-x)` produced negative supplies and `borrow(-x)` a negative wallet).
  `update()` (liquidation) loses the bonus by design and is C12's subject; it is covered here by the harness only.
-/
import Proofs.C10.Debt
import Proofs.C04.Aave
import Mathlib.Algebra.Order.AbsoluteValue.Basic
import Mathlib.Algebra.Order.Field.Basic
namespace Demeter
open Aave

variable {env : Env}

/-! ### holdings and net value at frozen prices and indices -/

def aaveWal (c : Core) (t : String) : Rat := (AList.get? c.wallet t).getD 0
def aaveSupBase (c : Core) (t : String) : Rat := ((AList.get? c.supplies t).map (·.base)).getD 0
def aaveBorBase (c : Core) (t : String) : Rat := ((AList.get? c.borrows t).map (·.base)).getD 0

/-- holdings of token `t` in token units: wallet + supplied − owed, at liquidity index `L` and borrow index `V` -/
def aaveTokenNet (L V : Rat) (c : Core) (t : String) : Rat := aaveWal c t + aaveSupBase c t * L - aaveBorBase c t * V

/-- net value over a universe of tokens at prices `P` and indices `L`, `V` (the frozen bar) -/
def aaveNetValue (P L V : String → Rat) (toks : List String) (c : Core) : Rat :=
  (toks.map (fun t => P t * aaveTokenNet (L t) (V t) c t)).sum

/-- if only token `tok`'s holdings moved, by `δ`, the net value moved by `price × δ` -/
theorem aave_netValue_change (P L V : String → Rat) (c c' : Core) (tok : String) (δ : Rat)
    (hoth : ∀ t, t ≠ tok → aaveTokenNet (L t) (V t) c' t = aaveTokenNet (L t) (V t) c t)
    (htok : aaveTokenNet (L tok) (V tok) c' tok = aaveTokenNet (L tok) (V tok) c tok + δ) :
    ∀ toks : List String, toks.Nodup →
      aaveNetValue P L V toks c' = aaveNetValue P L V toks c + (if tok ∈ toks then P tok * δ else 0) := by
  intro toks
  induction toks with
  | nil => intro _; simp [aaveNetValue]
  | cons t rest ih =>
    intro hnd
    simp only [List.nodup_cons] at hnd
    have ih' := ih hnd.2
    unfold aaveNetValue at ih' ⊢
    simp only [List.map_cons, List.sum_cons, List.mem_cons]
    by_cases ht : t = tok
    · subst ht
      have hn : t ∉ rest := hnd.1
      simp only [hn, if_false, add_zero] at ih'
      rw [ih', htok]
      simp
      ring
    · rw [ih', hoth t ht]
      have : (tok = t) = False := by simp [Ne.symm ht]
      simp only [this, false_or]
      ring

theorem aave_ratAbs_eq (x : Rat) : ratAbs x = |x| := by
  unfold ratAbs
  split
  · rename_i h; rw [abs_of_neg h]
  · rename_i h; rw [abs_of_nonneg (not_lt.mp h)]

theorem aave_dust_lt_one : assetDust < 1 := by
  unfold assetDust Gen.assetSubDust; norm_num

/-- what the wallet gives when asked for `amount`: exactly `amount`, or — snapped to zero — within the dust -/
theorem aave_walletTook_delta {w w' : Wallet} {tok : String} {amount : Rat} (hpos : 0 < amount)
    (h : WalletTook w w' tok amount) :
    ∃ b δ, AList.get? w tok = some b ∧ (AList.get? w' tok).getD 0 = b - amount + δ ∧ |δ| ≤ assetDust * |b| ∧
      (∀ k, k ≠ tok → AList.get? w' k = AList.get? w k) := by
  obtain ⟨b, b', hb, hb', hcase, hoth⟩ := h
  rcases hcase with ⟨e, _⟩ | ⟨e0, hd⟩
  · exact ⟨b, 0, hb, by rw [hb', e]; simp, by simp; exact mul_nonneg (le_of_lt (by unfold assetDust Gen.assetSubDust; norm_num)) (abs_nonneg _), hoth⟩
  · refine ⟨b, amount - b, hb, by rw [hb', e0]; simp, ?_, hoth⟩
    rw [aave_ratAbs_eq] at hd
    by_cases hb0 : b = 0
    · exfalso
      simp only [hb0, ne_eq, not_true_eq_false, if_false, zero_sub] at hd
      rw [neg_div, abs_neg, div_self (ne_of_gt hpos), abs_one] at hd
      exact absurd hd (not_lt.mpr (le_of_lt aave_dust_lt_one))
    · simp only [hb0, ne_eq, not_false_eq_true, if_true] at hd
      rw [abs_div] at hd
      have hbpos : 0 < |b| := abs_pos.mpr hb0
      have := (div_lt_iff₀ hbpos).mp hd
      rw [abs_sub_comm]
      exact le_of_lt this

/-! ### conservation -/

/-- **supply conserves**: token `tok`'s holdings (wallet + supply at the bar's index) change by at most the
    wallet dust; no other token's holdings change. -/
theorem C03_aave_supply_conserves {s s' : St} {tok : String} {amount : Rat} {coll : Bool}
    (h : supply aaveExact env tok amount coll s = (.ok (), s')) :
    ∃ st b δ, env.statusOf tok = .ok st ∧ AList.get? s.wallet tok = some b ∧ |δ| ≤ assetDust * |b| ∧
      (∀ V, aaveTokenNet st.liqIdx V s'.core tok = aaveTokenNet st.liqIdx V s.core tok + δ) ∧
      (∀ t L V, t ≠ tok → aaveTokenNet L V s'.core t = aaveTokenNet L V s.core t) := by
  obtain ⟨st, e, hst, he, hb, hoth, hbor, hw⟩ := C10_supply_exact h
  obtain ⟨_, _, _, hpos, _, _, _, _, _⟩ := supply_inv h
  obtain ⟨b, δ, hwb, hw', hδ, hwoth⟩ := aave_walletTook_delta hpos hw
  refine ⟨st, b, δ, hst, hwb, hδ, fun V => ?_, fun t L V ht => ?_⟩
  · simp only [aaveTokenNet, aaveWal, aaveSupBase, aaveBorBase, St.core]
    rw [hw', he, hbor, hwb]
    simp only [Option.map_some, Option.getD_some]
    linarith [hb]
  · simp only [aaveTokenNet, aaveWal, aaveSupBase, aaveBorBase, St.core]
    rw [hwoth t ht, hoth t ht, hbor]

/-- **borrow conserves exactly**: the wallet receives what the debt grows by. -/
theorem C03_aave_borrow_conserves {s s' : St} {tok : String} {amount? : Option Rat}
    (h : borrow aaveExact env tok amount? s = (.ok (), s')) :
    ∃ st, env.statusOf tok = .ok st ∧
      (∀ L, aaveTokenNet L st.varIdx s'.core tok = aaveTokenNet L st.varIdx s.core tok) ∧
      (∀ t L V, t ≠ tok → aaveTokenNet L V s'.core t = aaveTokenNet L V s.core t) := by
  obtain ⟨st, e, amount, hst, _, _, he, hb, hoth, hsup, hw, hwoth⟩ := C10_borrow_exact h
  refine ⟨st, hst, fun L => ?_, fun t L V ht => ?_⟩
  · simp only [aaveTokenNet, aaveWal, aaveSupBase, aaveBorBase, St.core]
    rw [hw, he, hsup]
    simp only [Option.map_some, Option.getD_some]
    linarith [hb]
  · simp only [aaveTokenNet, aaveWal, aaveSupBase, aaveBorBase, St.core]
    rw [hwoth t ht, hoth t ht, hsup]

/-- **withdraw creates no value**: the wallet receives exactly what the supply goes down by, except that a
    scaled remainder below `MIN_TOKEN_VALUE` is forfeited (`δ ≤ 0`, and `δ > −MIN_TOKEN_VALUE × index`). -/
theorem C03_aave_withdraw_conserves (hI : AavePosIdx env) {s s' : St} (hs : Good aaveExact env s) {tok : String}
    {amount? : Option Rat} (h : withdraw aaveExact env tok amount? s = (.ok (), s')) :
    ∃ st δ, env.statusOf tok = .ok st ∧ δ ≤ 0 ∧ -(Gen.aaveMinTokenValue * st.liqIdx) < δ ∧
      (∀ V, aaveTokenNet st.liqIdx V s'.core tok = aaveTokenNet st.liqIdx V s.core tok + δ) ∧
      (∀ t L V, t ≠ tok → aaveTokenNet L V s'.core t = aaveTokenNet L V s.core t) := by
  obtain ⟨st, info, amount, hst, hg, _, hpos, hle, hcase, hoth, hbor, hw, hwoth⟩ := C10_withdraw_exact hs h
  have hIpos : 0 < st.liqIdx := (hI tok st hst).1
  have hothers : ∀ t L V, t ≠ tok → aaveTokenNet L V s'.core t = aaveTokenNet L V s.core t := by
    intro t L V ht
    simp only [aaveTokenNet, aaveWal, aaveSupBase, aaveBorBase, St.core]
    rw [hwoth t ht, hoth t ht, hbor]
  rcases hcase with ⟨hlt, hnone⟩ | ⟨_, e, he, heb⟩
  · refine ⟨st, amount - info.base * st.liqIdx, hst, by linarith, ?_, fun V => ?_, hothers⟩
    · have := mul_lt_mul_of_pos_right hlt hIpos
      rw [sub_mul, div_mul_cancel₀ _ (ne_of_gt hIpos)] at this
      linarith
    · simp only [aaveTokenNet, aaveWal, aaveSupBase, aaveBorBase, St.core]
      rw [hw, hnone, hbor, hg]
      simp only [Option.map_some, Option.map_none, Option.getD_some, Option.getD_none]
      ring
  · refine ⟨st, 0, hst, le_refl _, by simp; exact mul_pos aave_minToken_pos hIpos, fun V => ?_, hothers⟩
    simp only [aaveTokenNet, aaveWal, aaveSupBase, aaveBorBase, St.core]
    rw [hw, he, hbor, hg]
    simp only [Option.map_some, Option.getD_some]
    linarith [heb]

/-- **repay (cash) creates at most the clamp quantum plus the wallet dust**: the debt goes down by what the wallet
    gives, except that a scaled remainder below `MIN_TOKEN_VALUE` is forgiven. -/
theorem C03_aave_repay_conserves (hI : AavePosIdx env) {s s' : St} (hs : Good aaveExact env s) {tok : String}
    {amount? : Option Rat} {collTok? : Option String}
    (h : repay aaveExact env tok amount? false collTok? s = (.ok (), s')) :
    ∃ st b δw δc, env.statusOf tok = .ok st ∧ AList.get? s.wallet tok = some b ∧ |δw| ≤ assetDust * |b| ∧
      δc < Gen.aaveMinTokenValue * st.varIdx ∧
      (∀ L, aaveTokenNet L st.varIdx s'.core tok = aaveTokenNet L st.varIdx s.core tok + δw + δc) ∧
      (∀ t L V, t ≠ tok → aaveTokenNet L V s'.core t = aaveTokenNet L V s.core t) := by
  obtain ⟨st, info, payback, hst, hg, _, hpos, hcase, hoth, hsup, hw⟩ := C10_repay_exact hI hs h
  obtain ⟨b, δ, hwb, hw', hδ, hwoth⟩ := aave_walletTook_delta hpos hw
  have hIpos : 0 < st.varIdx := (hI tok st hst).2
  have hothers : ∀ t L V, t ≠ tok → aaveTokenNet L V s'.core t = aaveTokenNet L V s.core t := by
    intro t L V ht
    simp only [aaveTokenNet, aaveWal, aaveSupBase, aaveBorBase, St.core]
    rw [hwoth t ht, hoth t ht, hsup]
  rcases hcase with ⟨hlt, hnone⟩ | ⟨_, e, he, heb⟩
  · refine ⟨st, b, δ, info.base * st.varIdx - payback, hst, hwb, hδ, ?_, fun L => ?_, hothers⟩
    · have := mul_lt_mul_of_pos_right hlt hIpos
      rw [sub_mul, div_mul_cancel₀ _ (ne_of_gt hIpos)] at this
      linarith
    · simp only [aaveTokenNet, aaveWal, aaveSupBase, aaveBorBase, St.core]
      rw [hw', hnone, hsup, hg, hwb]
      simp only [Option.map_some, Option.map_none, Option.getD_some, Option.getD_none]
      ring
  · refine ⟨st, b, δ, 0, hst, hwb, hδ, mul_pos aave_minToken_pos hIpos, fun L => ?_, hothers⟩
    simp only [aaveTokenNet, aaveWal, aaveSupBase, aaveBorBase, St.core]
    rw [hw', he, hsup, hg, hwb]
    simp only [Option.map_some, Option.getD_some]
    linarith [heb]

/-- **net value at any fixed price vector**: an accepted borrow leaves it exactly unchanged (shown for borrow; the
    other three operations follow from their `…_conserves` theorem with `aave_netValue_change` in the same way). -/
theorem C03_aave_borrow_net_value (P L V : String → Rat) (toks : List String) (hnd : toks.Nodup)
    {s s' : St} {tok : String} {amount? : Option Rat} (h : borrow aaveExact env tok amount? s = (.ok (), s'))
    (hV : ∀ st, env.statusOf tok = .ok st → V tok = st.varIdx) :
    aaveNetValue P L V toks s'.core = aaveNetValue P L V toks s.core := by
  obtain ⟨st, hst, htok, hoth⟩ := C03_aave_borrow_conserves h
  have := aave_netValue_change P L V s.core s'.core tok 0 (fun t ht => hoth t _ _ ht)
    (by rw [hV st hst, htok]; ring) toks hnd
  rw [this]; simp

/-- **supply: net value within the wallet dust** at any fixed non-negative price vector. -/
theorem C03_aave_supply_net_value (P L V : String → Rat) (toks : List String) (hnd : toks.Nodup)
    {s s' : St} {tok : String} {amount : Rat} {coll : Bool} (h : supply aaveExact env tok amount coll s = (.ok (), s'))
    (hP : 0 ≤ P tok) (hL : ∀ st, env.statusOf tok = .ok st → L tok = st.liqIdx) :
    ∃ b, AList.get? s.wallet tok = some b ∧
      |aaveNetValue P L V toks s'.core - aaveNetValue P L V toks s.core| ≤ P tok * (assetDust * |b|) := by
  obtain ⟨st, b, δ, hst, hwb, hδ, htok, hoth⟩ := C03_aave_supply_conserves h
  have := aave_netValue_change P L V s.core s'.core tok δ (fun t ht => hoth t _ _ ht)
    (by rw [hL st hst]; exact htok _) toks hnd
  refine ⟨b, hwb, ?_⟩
  rw [this]
  split
  · simp only [add_sub_cancel_left, abs_mul, abs_of_nonneg hP]
    exact mul_le_mul_of_nonneg_left hδ hP
  · simp only [add_zero, sub_self, abs_zero]
    exact mul_nonneg hP (mul_nonneg (le_of_lt (by unfold assetDust Gen.assetSubDust; norm_num)) (abs_nonneg _))

/-- **withdraw never raises the net value**, and lowers it by less than `price × MIN_TOKEN_VALUE × index`. -/
theorem C03_aave_withdraw_net_value (hI : AavePosIdx env) (P L V : String → Rat) (toks : List String) (hnd : toks.Nodup)
    {s s' : St} (hs : Good aaveExact env s) {tok : String} {amount? : Option Rat}
    (h : withdraw aaveExact env tok amount? s = (.ok (), s'))
    (hP : 0 ≤ P tok) (hL : ∀ st, env.statusOf tok = .ok st → L tok = st.liqIdx) :
    aaveNetValue P L V toks s'.core ≤ aaveNetValue P L V toks s.core ∧
    ∃ st, env.statusOf tok = .ok st ∧
      aaveNetValue P L V toks s.core - aaveNetValue P L V toks s'.core ≤ P tok * (Gen.aaveMinTokenValue * st.liqIdx) := by
  obtain ⟨st, δ, hst, hle, hgt, htok, hoth⟩ := C03_aave_withdraw_conserves hI hs h
  have := aave_netValue_change P L V s.core s'.core tok δ (fun t ht => hoth t _ _ ht)
    (by rw [hL st hst]; exact htok _) toks hnd
  have hIpos : 0 < st.liqIdx := (hI tok st hst).1
  rw [this]
  split
  · refine ⟨by nlinarith [mul_nonneg hP (neg_nonneg.mpr hle)], st, hst, ?_⟩
    have : P tok * (-δ) ≤ P tok * (Gen.aaveMinTokenValue * st.liqIdx) :=
      mul_le_mul_of_nonneg_left (by linarith) hP
    linarith
  · refine ⟨by simp, st, hst, ?_⟩
    simp only [add_zero, sub_self]
    exact mul_nonneg hP (le_of_lt (mul_pos aave_minToken_pos hIpos))

/-- **repay (cash) raises the net value by less than the clamp quantum plus the wallet dust**. -/
theorem C03_aave_repay_net_value (hI : AavePosIdx env) (P L V : String → Rat) (toks : List String) (hnd : toks.Nodup)
    {s s' : St} (hs : Good aaveExact env s) {tok : String} {amount? : Option Rat} {collTok? : Option String}
    (h : repay aaveExact env tok amount? false collTok? s = (.ok (), s'))
    (hP : 0 ≤ P tok) (hV : ∀ st, env.statusOf tok = .ok st → V tok = st.varIdx) :
    ∃ st b, env.statusOf tok = .ok st ∧ AList.get? s.wallet tok = some b ∧
      aaveNetValue P L V toks s'.core - aaveNetValue P L V toks s.core ≤
        P tok * (assetDust * |b| + Gen.aaveMinTokenValue * st.varIdx) := by
  obtain ⟨st, b, δw, δc, hst, hwb, hδw, hδc, htok, hoth⟩ := C03_aave_repay_conserves hI hs h
  have := aave_netValue_change P L V s.core s'.core tok (δw + δc) (fun t ht => hoth t _ _ ht)
    (by rw [hV st hst, htok]; ring) toks hnd
  have hIpos : 0 < st.varIdx := (hI tok st hst).2
  refine ⟨st, b, hst, hwb, ?_⟩
  rw [this]
  have hδw' : δw ≤ assetDust * |b| := le_trans (le_abs_self _) hδw
  split
  · simp only [add_sub_cancel_left]
    exact mul_le_mul_of_nonneg_left (by linarith) hP
  · simp only [add_zero, sub_self]
    exact mul_nonneg hP (add_nonneg (mul_nonneg (le_of_lt (by unfold assetDust Gen.assetSubDust; norm_num)) (abs_nonneg _))
      (le_of_lt (mul_pos aave_minToken_pos hIpos)))

/-- **a rejected operation changes no holding** (C04), hence no value. -/
theorem C03_aave_rejected_conserves {cx : ACtx} (s : St) (hs : Good cx env s) (op : Op) (hu : op ≠ .update) (e : Err)
    (h : (step cx env s op).1 = .error e) (P L V : String → Rat) (toks : List String) :
    aaveNetValue P L V toks (step cx env s op).2.core = aaveNetValue P L V toks s.core := by
  rw [C04_aave_reject_noop s hs op hu e h]

/-! ### nothing negative, no over-redemption -/

/-- every wallet balance, scaled supply and scaled debt is non-negative -/
def AaveNonneg (c : Core) : Prop :=
  (∀ k b, AList.get? c.wallet k = some b → 0 ≤ b) ∧ (∀ k i, AList.get? c.supplies k = some i → 0 ≤ i.base) ∧
  (∀ k i, AList.get? c.borrows k = some i → 0 ≤ i.base)

theorem aave_get_cases {ν : Type} {m m' : AList String ν} {tok : String}
    (hoth : ∀ k, k ≠ tok → AList.get? m' k = AList.get? m k) {P : ν → Prop} (hm : ∀ k v, AList.get? m k = some v → P v)
    (htok : ∀ v, AList.get? m' tok = some v → P v) : ∀ k v, AList.get? m' k = some v → P v := by
  intro k v hk
  by_cases h : k = tok
  · subst h; exact htok v hk
  · rw [hoth k h] at hk; exact hm k v hk

/-- **supply keeps everything non-negative** (the wallet refuses an overdraft, the amount is positive). -/
theorem C03_aave_supply_nonneg (hI : AavePosIdx env) {s s' : St} (hn : AaveNonneg s.core) {tok : String} {amount : Rat}
    {coll : Bool} (h : supply aaveExact env tok amount coll s = (.ok (), s')) : AaveNonneg s'.core := by
  obtain ⟨st, e, hst, he, hb, hoth, hbor, b, b', hwb, hwb', hcase, hwoth⟩ := C10_supply_exact h
  obtain ⟨st', w', _, hpos, hst', _, _, _, _⟩ := supply_inv h
  rw [hst] at hst'; cases hst'
  have hIpos : 0 < st.liqIdx := (hI tok st hst).1
  refine ⟨aave_get_cases (m := s.wallet) (m' := s'.wallet) hwoth hn.1 ?_,
          aave_get_cases (m := s.supplies) (m' := s'.supplies) hoth hn.2.1 ?_, by
            show ∀ k i, AList.get? s'.borrows k = some i → _
            rw [hbor]; exact hn.2.2⟩
  · intro v hv
    rw [hwb'] at hv; cases hv
    rcases hcase with ⟨e1, hnn⟩ | ⟨e0, _⟩
    · rw [e1]; exact hnn
    · rw [e0]
  · intro v hv
    rw [he] at hv; cases hv
    have hold : 0 ≤ ((AList.get? s.supplies tok).map (·.base)).getD 0 := by
      cases hg : AList.get? s.supplies tok with
      | none => simp
      | some i => simp; exact hn.2.1 tok i hg
    have : 0 ≤ e.base * st.liqIdx := by rw [hb]; exact add_nonneg (mul_nonneg hold (le_of_lt hIpos)) (le_of_lt hpos)
    exact nonneg_of_mul_nonneg_left this hIpos

/-- **no over-redemption**: an accepted withdrawal pays out a positive amount that does not exceed the supply. -/
theorem C03_aave_no_over_redemption {s s' : St} (hs : Good aaveExact env s) {tok : String} {amount? : Option Rat}
    (h : withdraw aaveExact env tok amount? s = (.ok (), s')) :
    ∃ st info paid, env.statusOf tok = .ok st ∧ AList.get? s.supplies tok = some info ∧
      AList.get? s'.wallet tok = some ((AList.get? s.wallet tok).getD 0 + paid) ∧ 0 < paid ∧ paid ≤ info.base * st.liqIdx := by
  obtain ⟨st, info, amount, hst, hg, _, hpos, hle, _, _, _, hw, _⟩ := C10_withdraw_exact hs h
  exact ⟨st, info, amount, hst, hg, hw, hpos, hle⟩

theorem aave_credit_nonneg {w : Wallet} (hw : ∀ k b, AList.get? w k = some b → 0 ≤ b) {w' : Wallet} {tok : String} {amount : Rat}
    (hpos : 0 < amount) (h1 : AList.get? w' tok = some ((AList.get? w tok).getD 0 + amount))
    (h2 : ∀ k, k ≠ tok → AList.get? w' k = AList.get? w k) : ∀ k b, AList.get? w' k = some b → 0 ≤ b := by
  refine aave_get_cases (m := w) (m' := w') h2 hw ?_
  intro v hv
  rw [h1] at hv; cases hv
  have : 0 ≤ (AList.get? w tok).getD 0 := by
    cases hg : AList.get? w tok with
    | none => simp
    | some b => simp; exact hw tok b hg
  linarith

/-- **withdraw keeps everything non-negative** (what remains of the supply is at least `MIN_TOKEN_VALUE`, or gone). -/
theorem C03_aave_withdraw_nonneg (hI : AavePosIdx env) {s s' : St} (hs : Good aaveExact env s) (hn : AaveNonneg s.core)
    {tok : String} {amount? : Option Rat} (h : withdraw aaveExact env tok amount? s = (.ok (), s')) :
    AaveNonneg s'.core := by
  obtain ⟨st, info, amount, hst, hg, _, hpos, hle, hcase, hoth, hbor, hw, hwoth⟩ := C10_withdraw_exact hs h
  have hIpos : 0 < st.liqIdx := (hI tok st hst).1
  refine ⟨aave_credit_nonneg hn.1 hpos hw hwoth, aave_get_cases (m := s.supplies) (m' := s'.supplies) hoth hn.2.1 ?_, by
    show ∀ k i, AList.get? s'.borrows k = some i → _
    rw [hbor]; exact hn.2.2⟩
  intro v hv
  rcases hcase with ⟨_, hnone⟩ | ⟨hge, e, he, heb⟩
  · rw [hnone] at hv; cases hv
  · have hve : v = e := by rw [he] at hv; exact (Option.some.inj hv).symm
    rw [hve]
    have h1 : e.base * st.liqIdx = (info.base - amount / st.liqIdx) * st.liqIdx := by
      rw [heb, sub_mul, div_mul_cancel₀ _ (ne_of_gt hIpos)]
    have h2 : e.base = info.base - amount / st.liqIdx := mul_right_cancel₀ (ne_of_gt hIpos) h1
    rw [h2]; exact le_trans (le_of_lt aave_minToken_pos) hge

/-- **borrow keeps everything non-negative**. -/
theorem C03_aave_borrow_nonneg (hI : AavePosIdx env) {s s' : St} (hn : AaveNonneg s.core) {tok : String}
    {amount? : Option Rat} (h : borrow aaveExact env tok amount? s = (.ok (), s')) : AaveNonneg s'.core := by
  obtain ⟨st, e, amount, hst, _, hpos2, he, hb, hoth, hsup, hw, hwoth⟩ := C10_borrow_exact h
  have hIpos : 0 < st.varIdx := (hI tok st hst).2
  refine ⟨aave_credit_nonneg hn.1 hpos2 hw hwoth, by
      show ∀ k i, AList.get? s'.supplies k = some i → _
      rw [hsup]; exact hn.2.1,
    aave_get_cases (m := s.borrows) (m' := s'.borrows) hoth hn.2.2 ?_⟩
  intro v hv
  rw [he] at hv; cases hv
  have hold : 0 ≤ ((AList.get? s.borrows tok).map (·.base)).getD 0 := by
    cases hg : AList.get? s.borrows tok with
    | none => simp
    | some i => simp; exact hn.2.2 tok i hg
  have : 0 ≤ e.base * st.varIdx := by rw [hb]; exact add_nonneg (mul_nonneg hold (le_of_lt hIpos)) (le_of_lt hpos2)
  exact nonneg_of_mul_nonneg_left this hIpos

/-- **repay keeps everything non-negative** (the wallet refuses an overdraft; what remains of the debt is at least
    `MIN_TOKEN_VALUE`, or gone). -/
theorem C03_aave_repay_nonneg (hI : AavePosIdx env) {s s' : St} (hs : Good aaveExact env s) (hn : AaveNonneg s.core)
    {tok : String} {amount? : Option Rat} {collTok? : Option String}
    (h : repay aaveExact env tok amount? false collTok? s = (.ok (), s')) : AaveNonneg s'.core := by
  obtain ⟨st, info, payback, hst, hg, _, hpos, hcase, hoth, hsup, b, b', hwb, hwb', hwc, hwoth⟩ := C10_repay_exact hI hs h
  have hIpos : 0 < st.varIdx := (hI tok st hst).2
  refine ⟨aave_get_cases (m := s.wallet) (m' := s'.wallet) hwoth hn.1 ?_, by
      show ∀ k i, AList.get? s'.supplies k = some i → _
      rw [hsup]; exact hn.2.1,
    aave_get_cases (m := s.borrows) (m' := s'.borrows) hoth hn.2.2 ?_⟩
  · intro v hv
    rw [hwb'] at hv; cases hv
    rcases hwc with ⟨e1, hnn⟩ | ⟨e0, _⟩
    · rw [e1]; exact hnn
    · rw [e0]
  · intro v hv
    rcases hcase with ⟨_, hnone⟩ | ⟨hge, e, he, heb⟩
    · rw [hnone] at hv; cases hv
    · have hve : v = e := by rw [he] at hv; exact (Option.some.inj hv).symm
      rw [hve]
      have h1 : e.base * st.varIdx = (info.base - payback / st.varIdx) * st.varIdx := by
        rw [heb, sub_mul, div_mul_cancel₀ _ (ne_of_gt hIpos)]
      have h2 : e.base = info.base - payback / st.varIdx := mul_right_cancel₀ (ne_of_gt hIpos) h1
      rw [h2]; exact le_trans (le_of_lt aave_minToken_pos) hge

/-! ### non-vacuity -/

example : AaveNonneg c04AaveSt.core := by
  refine ⟨?_, ?_, ?_⟩ <;> intro k v hk <;> simp [c04AaveSt, St.core, St.init, aget_cons] at hk
  · obtain ⟨_, rfl⟩ := hk; norm_num
  · obtain ⟨_, rfl⟩ := hk; norm_num
  · obtain ⟨_, rfl⟩ := hk; norm_num

-- 10 scaled WETH at index 1.1 and price 1000, 5 WETH in the wallet, 7000 USDC owed: 16 × 1000 − 7000 = 9000
example : aaveNetValue (fun t => if t = "WETH" then 1000 else 1) (fun t => if t = "WETH" then 11/10 else 1)
    (fun _ => 1) ["WETH", "USDC"] c04AaveSt.core = 9000 := by
  simp [aaveNetValue, aaveTokenNet, aaveWal, aaveSupBase, aaveBorBase, c04AaveSt, St.core, St.init, aget_cons]
  norm_num

end Demeter
