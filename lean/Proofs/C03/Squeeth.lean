/-
  C03, Squeeth part — with the market frozen: no holding ever becomes negative, nothing is redeemed beyond what is
  held, mint / deposit / burn / withdraw conserve the account's value (up to the wallet's 1e-5 dust snap), a
  liquidation loses the 10 % bounty.  Two value effects that the properties' own valuation rules imply are known
  findings (witnesses below): re-valuation of an LP position between mark (pool) and index (vault) price, and the
  forgiven shortfall when an underwater vault is liquidated at the collateral cap.  Exact rational semantics.
-/
import Proofs.C14.Moves
import Proofs.C14.Amounts
import Proofs.C14.Liquidation
import Proofs.C14.Long
import Proofs.C01.Squeeth
import Proofs.C04.Squeeth
import Mathlib.Tactic.FieldSimp
import Mathlib.Tactic.LinearCombination
namespace Demeter
open Squeeth Gen

namespace Squeeth
/-- mark price of oSQTH in the account's currency: `OSQTH × WETH` of the squeeth data row -/
def markO (e : Env) : Rat := e.osqth * e.weth

/-- what the wallet's WETH and oSQTH are worth at the frozen prices -/
def walletValue (e : Env) (s : State) : Rat := bal s sqWethName * e.weth + bal s sqOsqthName * markO e

/-- one vault's contribution to `get_market_balance().net_value`: effective collateral × ETH price − debt at mark -/
def vaultValue (e : Env) (s : State) (vk : Nat) : Option Rat :=
  match AList.get? s.vaults vk, effColl NumCtx.exact e s vk with
  | some v, .ok c => some (c * e.weth - v.short * markO e)
  | _, _ => none

/-- the effective collateral of a vault depends on its own collateral, its LP reference and the pool's positions only -/
theorem effColl_frame (e : Env) (s s' : State) (vk : Nat) (v v' : Vault) (c : Rat)
    (hv : AList.get? s.vaults vk = some v) (hv' : AList.get? s'.vaults vk = some v') (hn : v'.nft = v.nft)
    (hp : s'.positions = s.positions) (hc : effColl NumCtx.exact e s vk = .ok c) :
    effColl NumCtx.exact e s' vk = .ok (c - v.coll + v'.coll) := by
  unfold effColl at hc ⊢
  rw [hv] at hc; rw [hv']
  simp only [hn]
  cases hnft : v.nft with
  | none =>
    simp only [hnft, Except.ok.injEq] at hc ⊢
    rw [← hc]; ring
  | some pos =>
    simp only [hnft] at hc ⊢
    have hpa : posAmount NumCtx.exact e s' pos = posAmount NumCtx.exact e s pos := by unfold posAmount; rw [hp]
    rw [hp, hpa]
    cases hpos : AList.get? s.positions pos with
    | none => rw [hpos] at hc; simp at hc
    | some p =>
      simp only [hpos, Except.ok.injEq, NumCtx.exact_add] at hc ⊢
      rw [← hc]; ring

theorem ratAbs_nonneg (x : Rat) : 0 ≤ ratAbs x := by
  unfold ratAbs; split_ifs with h <;> linarith

theorem ratAbs_mul_nonneg (x w : Rat) (hw : 0 ≤ w) : ratAbs (x * w) = ratAbs x * w := by
  unfold ratAbs
  by_cases hx : x < 0
  · by_cases hxw : x * w < 0
    · simp only [hx, hxw, if_true]; ring
    · simp only [hx, hxw, if_true, if_false]
      have : x * w = 0 := le_antisymm (by nlinarith) (not_lt.mp hxw)
      nlinarith
  · by_cases hxw : x * w < 0
    · exfalso; nlinarith [not_lt.mp hx]
    · simp only [hx, hxw, if_false]

theorem dust_bound (b eth d : Rat) (hb : b ≠ 0) (hd : ratAbs ((b - eth) / b) < d) : ratAbs (eth - b) ≤ d * ratAbs b := by
  have hr : b - eth = (b - eth) / b * b := (div_mul_cancel₀ _ hb).symm
  generalize (b - eth) / b = r at hr hd
  have he : eth - b = -(r * b) := by linarith
  rw [he]
  unfold ratAbs at *
  split_ifs at * <;> nlinarith


theorem weth_ne_osqth : sqWethName ≠ sqOsqthName := by decide
theorem osqth_ne_weth : sqOsqthName ≠ sqWethName := by decide
end Squeeth

/-- **mint conserves value**: the minted oSQTH in the wallet is worth exactly the debt the vault takes on (both at mark) -/
theorem C03_squeeth_mint_conserves_value (e : Env) (s : State) (vk : Nat) (v : Vault) (m c : Rat) (hm : 0 < m)
    (hv : AList.get? s.vaults vk = some v) (hc : effColl NumCtx.exact e s vk = .ok c) :
    ∃ x x', vaultValue e s vk = some x ∧ vaultValue e (mintBody NumCtx.exact s vk m).st vk = some x' ∧
      walletValue e (mintBody NumCtx.exact s vk m).st + x' = walletValue e s + x := by
  obtain ⟨_, hv', hbal, _, hoth, hpos⟩ := C14_mint_moves_exactly s vk v m hm hv
  have hc' := effColl_frame e s _ vk v _ c hv hv' rfl hpos hc
  refine ⟨c * e.weth - v.short * markO e, (c - v.coll + v.coll) * e.weth - (v.short + m) * markO e, ?_, ?_, ?_⟩
  · unfold vaultValue; rw [hv, hc]
  · unfold vaultValue; rw [hv', hc']
  · unfold walletValue
    have hw : bal (mintBody NumCtx.exact s vk m).st sqWethName = bal s sqWethName := by
      unfold bal; rw [hoth _ weth_ne_osqth]
    rw [hw, hbal]; ring


/-- **no negative holdings** (the frozen-market instance of C14_amounts_never_negative): any operation, any arguments,
    accepted or rejected -/
theorem C03_squeeth_no_negative_holdings (e : Env) (s : State) (op : Op) (hp : 0 ≤ twap e .osqth)
    (hq : op.isTrade = true → PoolOk e) (h : Inv s) :
    Inv (step NumCtx.exact e s op).st := C14_amounts_never_negative e s op hp hq h

/-- … anywhere in a sequence at one fixed market state (vault operations and trades of the long side in any order; the pool's
    price is non-negative and its fee rate at most 1) -/
theorem C03_squeeth_no_negative_holdings_in_sequences (e : Env) (s : State) (ops : List Op) (hp : 0 ≤ twap e .osqth)
    (hq : PoolOk e) (h : Inv s) : Inv (runOps NumCtx.exact s (ops.map fun op => (e, op))) :=
  C14_amounts_never_negative_along_paths s _ (by
    intro eo heo
    obtain ⟨op, _, rfl⟩ := List.mem_map.mp heo
    exact hp) (by
    intro eo heo _
    obtain ⟨op, _, rfl⟩ := List.mem_map.mp heo
    exact hq) h

/-- **no over-redemption**: a burn takes `min(requested, debt)` oSQTH, a withdrawal pays `min(requested, collateral)` ETH -/
theorem C03_squeeth_no_over_redemption (e : Env) (s : State) (vk : Nat) :
    (∀ burn, 0 < burn → (burnBody NumCtx.exact s vk burn).err = none →
      ∃ v v', AList.get? s.vaults vk = some v ∧ AList.get? (burnBody NumCtx.exact s vk burn).st.vaults vk = some v' ∧
        v.short - v'.short ≤ v.short ∧ v.short - v'.short ≤ burn ∧ v'.coll = v.coll) ∧
    (∀ amount, 0 < amount → (withdrawCollBody NumCtx.exact e s vk amount).err = none →
      ∃ v v', AList.get? s.vaults vk = some v ∧ AList.get? (withdrawCollBody NumCtx.exact e s vk amount).st.vaults vk = some v' ∧
        v.coll - v'.coll ≤ v.coll ∧ v.coll - v'.coll ≤ amount ∧ v'.short = v.short ∧
        bal (withdrawCollBody NumCtx.exact e s vk amount).st sqWethName - bal s sqWethName = v.coll - v'.coll) := by
  constructor
  · intro burn hb h
    obtain ⟨v, _, _, hv, hv', _⟩ := C14_burn_moves_exactly s vk burn hb h
    refine ⟨v, _, hv, hv', ?_, ?_, rfl⟩ <;> simp only []
    · linarith [min_le_right burn v.short]
    · linarith [min_le_left burn v.short]
  · intro amount _ h
    obtain ⟨v, hv, hv', hb, _⟩ := C14_withdraw_moves_exactly e s vk amount h
    refine ⟨v, _, hv, hv', ?_, ?_, rfl, ?_⟩ <;> simp only []
    · linarith [min_le_right amount v.coll]
    · linarith [min_le_left amount v.coll]
    · rw [hb]; ring

/-- **withdraw conserves value**: the ETH leaves the vault's collateral and arrives in the wallet -/
theorem C03_squeeth_withdraw_conserves_value (e : Env) (s : State) (vk : Nat) (amount c : Rat)
    (h : (withdrawCollBody NumCtx.exact e s vk amount).err = none) (hc : effColl NumCtx.exact e s vk = .ok c) :
    ∃ x x', vaultValue e s vk = some x ∧ vaultValue e (withdrawCollBody NumCtx.exact e s vk amount).st vk = some x' ∧
      walletValue e (withdrawCollBody NumCtx.exact e s vk amount).st + x' = walletValue e s + x := by
  obtain ⟨v, hv, hv', hbal, _, hoth, hpos, _⟩ := C14_withdraw_moves_exactly e s vk amount h
  have hc' := effColl_frame e s _ vk v _ c hv hv' rfl hpos hc
  refine ⟨c * e.weth - v.short * markO e, (c - v.coll + (v.coll - min amount v.coll)) * e.weth - v.short * markO e, ?_, ?_, ?_⟩
  · unfold vaultValue; rw [hv, hc]
  · unfold vaultValue; rw [hv', hc']
  · unfold walletValue
    have hw : bal (withdrawCollBody NumCtx.exact e s vk amount).st sqOsqthName = bal s sqOsqthName := by
      unfold bal; rw [hoth _ osqth_ne_weth]
    rw [hw, hbal]; ring

/-- **deposit conserves value up to wallet dust**: exactly when `Asset.sub` subtracts exactly; when it snaps the
    remainder to zero the account's value moves by less than 1e-5 of the WETH balance it touched -/
theorem C03_squeeth_deposit_value_within_dust (e : Env) (s : State) (vk : Nat) (eth c : Rat) (hw : 0 ≤ e.weth)
    (h : (depositBody NumCtx.exact s vk eth).err = none) (hc : effColl NumCtx.exact e s vk = .ok c) :
    ∃ x x' b, vaultValue e s vk = some x ∧ vaultValue e (depositBody NumCtx.exact s vk eth).st vk = some x' ∧
      AList.get? s.wallet sqWethName = some b ∧
      (walletValue e (depositBody NumCtx.exact s vk eth).st + x' = walletValue e s + x ∨
       ratAbs ((walletValue e (depositBody NumCtx.exact s vk eth).st + x') - (walletValue e s + x)) ≤ assetDust * ratAbs b * e.weth) := by
  obtain ⟨v, b, b', hv, hge, hv', hb, hsub, hb', _, hoth, hpos⟩ := C14_deposit_moves_exactly s vk eth h
  have hc' := effColl_frame e s _ vk v _ c hv hv' rfl hpos hc
  refine ⟨c * e.weth - v.short * markO e, (c - v.coll + (v.coll + eth)) * e.weth - v.short * markO e, b, ?_, ?_, hb, ?_⟩
  · unfold vaultValue; rw [hv, hc]
  · unfold vaultValue; rw [hv', hc']
  · have ho : bal (depositBody NumCtx.exact s vk eth).st sqOsqthName = bal s sqOsqthName := by
      unfold bal; rw [hoth _ osqth_ne_weth]
    have hw0 : bal s sqWethName = b := by unfold bal; rw [hb]; rfl
    have hw1 : bal (depositBody NumCtx.exact s vk eth).st sqWethName = b' := by unfold bal; rw [hb']; rfl
    unfold walletValue
    rw [ho, hw0, hw1]
    rcases C14_debit_exact_or_dust b eth b' hsub with ⟨h1, _⟩ | ⟨h1, hb0, hd⟩ | ⟨h1, h2, h3⟩ | ⟨h1, h2, hd⟩
    · left; rw [h1]; ring
    · right
      rw [h1]
      have e1 : (0 * e.weth + bal s sqOsqthName * markO e + ((c - v.coll + (v.coll + eth)) * e.weth - v.short * markO e)) -
          (b * e.weth + bal s sqOsqthName * markO e + (c * e.weth - v.short * markO e)) = (eth - b) * e.weth := by ring
      rw [e1]
      rw [ratAbs_mul_nonneg _ _ hw]
      exact mul_le_mul_of_nonneg_right (dust_bound b eth assetDust hb0 hd) hw
    · left; rw [h1, h3]; ring
    · -- balance 0: the dust branch would need `|(0 - eth)/eth| = 1 < 1e-5`, so it is only reached with `eth = 0`
      by_cases he : eth = 0
      · left; rw [h1, h2, he]; ring
      · exfalso
        have e1 : (0 - eth) / eth = -1 := by field_simp; ring
        rw [e1] at hd
        unfold ratAbs assetDust Gen.assetSubDust at hd
        norm_num at hd


/-- **burn conserves value up to wallet dust** (same shape as deposit, on the oSQTH side) -/
theorem C03_squeeth_burn_value_within_dust (e : Env) (s : State) (vk : Nat) (burn c : Rat) (hb : 0 < burn) (hm : 0 ≤ markO e)
    (h : (burnBody NumCtx.exact s vk burn).err = none) (hc : effColl NumCtx.exact e s vk = .ok c) :
    ∃ x x' b, vaultValue e s vk = some x ∧ vaultValue e (burnBody NumCtx.exact s vk burn).st vk = some x' ∧
      AList.get? s.wallet sqOsqthName = some b ∧
      (walletValue e (burnBody NumCtx.exact s vk burn).st + x' = walletValue e s + x ∨
       ratAbs ((walletValue e (burnBody NumCtx.exact s vk burn).st + x') - (walletValue e s + x)) ≤ assetDust * ratAbs b * markO e) := by
  obtain ⟨v, b, b', hv, hv', hb0, hsub, hb', _, hoth, hpos⟩ := C14_burn_moves_exactly s vk burn hb h
  have hc' := effColl_frame e s _ vk v _ c hv hv' rfl hpos hc
  refine ⟨c * e.weth - v.short * markO e, (c - v.coll + v.coll) * e.weth - (v.short - min burn v.short) * markO e, b, ?_, ?_, hb0, ?_⟩
  · unfold vaultValue; rw [hv, hc]
  · unfold vaultValue; rw [hv', hc']
  · have ho : bal (burnBody NumCtx.exact s vk burn).st sqWethName = bal s sqWethName := by
      unfold bal; rw [hoth _ weth_ne_osqth]
    have hw0 : bal s sqOsqthName = b := by unfold bal; rw [hb0]; rfl
    have hw1 : bal (burnBody NumCtx.exact s vk burn).st sqOsqthName = b' := by unfold bal; rw [hb']; rfl
    unfold walletValue
    rw [ho, hw0, hw1]
    generalize min burn v.short = r at hsub ⊢
    rcases C14_debit_exact_or_dust b r b' hsub with ⟨h1, _⟩ | ⟨h1, hbn, hd⟩ | ⟨h1, h2, h3⟩ | ⟨h1, h2, hd⟩
    · left; rw [h1]; ring
    · right
      rw [h1]
      have e1 : (bal s sqWethName * e.weth + 0 * markO e + ((c - v.coll + v.coll) * e.weth - (v.short - r) * markO e)) -
          (bal s sqWethName * e.weth + b * markO e + (c * e.weth - v.short * markO e)) = (r - b) * markO e := by ring
      rw [e1, ratAbs_mul_nonneg _ _ hm]
      exact mul_le_mul_of_nonneg_right (dust_bound b r assetDust hbn hd) hm
    · left; rw [h1, h3]; ring
    · by_cases he : r = 0
      · left; rw [h1, h2, he]; ring
      · exfalso
        have e1 : (0 - r) / r = -1 := by field_simp; ring
        rw [e1] at hd
        unfold ratAbs assetDust Gen.assetSubDust at hd
        norm_num at hd

/-- the liquidator never pays less than the burned debt is worth at the TWAP, unless the vault is under water -/
theorem specLiq_pays_at_least_debt (p short coll : Rat) (hs : 0 ≤ short) (hp : 0 ≤ p) (hw : short * p ≤ coll) :
    (specLiq p short coll).1 * p ≤ (specLiq p short coll).2 := by
  unfold specLiq liqPay
  have hsp : 0 ≤ short * p := mul_nonneg hs hp
  by_cases h1 : coll - short / 2 * p * (11 / 10) < 1 / 2
  · simp only [h1, if_true]
    by_cases h2 : short * p * (11 / 10) > coll
    · simp only [h2, if_true]; exact hw
    · simp only [h2, if_false]; nlinarith
  · simp only [h1, if_false]
    by_cases h2 : short / 2 * p * (11 / 10) > coll
    · simp only [h2, if_true]; exact hw
    · simp only [h2, if_false]; nlinarith

/-- **a liquidation creates no value** for a vault that is not under water (frozen market: TWAP = the row's oSQTH
    price): the vault's value falls by the bounty `(paid − burned × price) × ETH price ≥ 0`, the wallet is untouched.
    (For an underwater vault the cap forgives the shortfall — the known finding witnessed below.) -/
theorem C03_squeeth_liquidation_creates_no_value_partial (e : Env) (s : State) (vk : Nat) (v : Vault) (d : Bool)
    (hv : AList.get? s.vaults vk = some v) (hn : v.nft = none) (hs : 0 ≤ v.short) (hp : 0 ≤ e.osqth) (hw : 0 ≤ e.weth)
    (hfrozen : twap e .osqth = e.osqth) (hu : vaultStatus NumCtx.exact e s vk = .ok (false, d))
    (hsolvent : v.short * e.osqth ≤ v.coll) :
    ∃ x x', vaultValue e s vk = some x ∧ vaultValue e (step NumCtx.exact e s (.liquidate vk)).st vk = some x' ∧
      x' ≤ x ∧ (step NumCtx.exact e s (.liquidate vk)).st.wallet = s.wallet := by
  have hp' : 0 ≤ twap e .osqth := by rw [hfrozen]; exact hp
  rw [C14_liquidate_without_lp e s vk v d hv hn hs hp' hu, hfrozen]
  have hpay := specLiq_pays_at_least_debt e.osqth v.short v.coll hs hp hsolvent
  generalize specLiq e.osqth v.short v.coll = a at hpay
  refine ⟨v.coll * e.weth - v.short * markO e, (v.coll - a.2) * e.weth - (v.short - a.1) * markO e, ?_, ?_, ?_, rfl⟩
  · unfold vaultValue effColl; rw [hv]; simp only [hn]
  · unfold vaultValue effColl
    simp only [Res.ok_st, State.record, State.setVault, get?_set_self]
  · unfold markO; nlinarith


/-! ### the two known findings: value that the valuation rules themselves create -/
namespace Squeeth
/-- the account's reported net value as the code computes it: wallet at the row's prices + `SqueethMarket.get_market_balance().net_value`
    + `UniLpMarket.get_market_balance().net_value` (in WETH) × ETH price -/
def reportedValue (e : Env) (s : State) : Option Rat :=
  match marketBalance NumCtx.exact e s with
  | .ok b => some (walletValue e s + b.netValue + uniNetValue NumCtx.exact e s * e.weth)
  | .error _ => none

def valueNotRaised : Option Rat → Option Rat → Bool
  | some x, some x' => decide (x' ≤ x)
  | _, _ => true

/-- frozen market, index oSQTH/ETH = 0.5 · 2000 / 10000 = 0.1, mark (pool and data row) = 0.09 -/
def findEnv : Env := { nf := 1/2, weth := 2000, osqth := 9/100, now := none, rows := [], uniPrice := 9/100, uniOpen := true, mean := fun _ => 0 }
def findState : State :=
  { wallet := [("WETH", 1), ("OSQTH", 0)], vaults := [(1, { coll := 1, short := 0, nft := none }), (2, { coll := 0, short := 1, nft := none })],
    maxId := 2, positions := [((18000, 21000), { liquidity := 10^19, pending0 := 0, pending1 := 0, transferred := false })], log := [] }
end Squeeth

/-- FINDING (C03 `squeeth.value-created:lp-deposit-index-above-mark`): lending an LP position to a vault re-values its
    oSQTH from the pool's mark price to the index price — with index 0.1 > mark 0.09 the accepted
    `deposit_uni_position` raises the reported net value although nothing was traded -/
theorem C03_squeeth_fails_lp_revaluation :
    ¬ (∀ (e : Env) (s : State) (vk : Nat) (pos : PosKey), e.now = none → e.uniPrice = e.osqth →
        (step NumCtx.exact e s (.depositUni vk pos)).err = none →
        valueNotRaised (reportedValue e s) (reportedValue e (step NumCtx.exact e s (.depositUni vk pos)).st) = true) := by
  intro h
  have := h findEnv findState 1 (18000, 21000) rfl rfl (by decide +kernel)
  revert this
  decide +kernel

/-- FINDING (C03 `squeeth.value-created:liquidation-of-underwater-vault`): vault 2 owes 1 oSQTH (180 at mark) and holds
    nothing; `update` burns the debt for the capped payment of 0 ETH and the reported net value rises by the shortfall -/
theorem C03_squeeth_fails_underwater_liquidation :
    ¬ (∀ (e : Env) (s : State), e.now = none → (step NumCtx.exact e s .update).err = none →
        valueNotRaised (reportedValue e s) (reportedValue e (step NumCtx.exact e s .update).st) = true) := by
  intro h
  have := h findEnv findState rfl (by decide +kernel)
  revert this
  decide +kernel


/-! ### the long side on a frozen bar: the swap fee is lost, nothing is created -/
namespace Squeeth
theorem debit_value_cases (b amt b' : Rat) (h : assetSub NumCtx.exact b amt false = some b') :
    b' = b - amt ∨ (b' = 0 ∧ ratAbs (amt - b) ≤ assetDust * ratAbs b) := by
  rcases C14_debit_exact_or_dust b amt b' h with ⟨h1, _⟩ | ⟨h1, hb0, hd⟩ | ⟨h1, h2, h3⟩ | ⟨h1, h2, hd⟩
  · exact Or.inl h1
  · exact Or.inr ⟨h1, dust_bound b amt assetDust hb0 hd⟩
  · left; rw [h1, h2, h3]; ring
  · by_cases he : amt = 0
    · left; rw [h1, h2, he]; ring
    · exfalso
      have e1 : (0 - amt) / amt = -1 := by field_simp; ring
      rw [e1] at hd
      unfold ratAbs assetDust Gen.assetSubDust at hd
      norm_num at hd
end Squeeth

/-- **a buy loses exactly the reported fee** (frozen bar: the pool trades at the price the account values oSQTH with): an accepted
    `buy_squeeth` reports `(fee, spent, got)` with `fee ≥ 0` in WETH, and the wallet's value falls by exactly `fee × ETH price` — or,
    when `Asset.sub` snaps the WETH remainder to zero, differs from that by less than 1e-5 of the WETH balance it touched -/
theorem C03_squeeth_buy_loses_fee_within_dust (e : Env) (s : State) (o q : Option Rat) (hw : 0 ≤ e.weth) (hf0 : 0 ≤ e.uniFee)
    (hfrozen : e.uniPrice = e.osqth) (h : (step NumCtx.exact e s (.buy o q)).err = none) :
    ∃ fee spent got, (step NumCtx.exact e s (.buy o q)).out = [fee, spent, got] ∧ 0 ≤ fee ∧
      (walletValue e (step NumCtx.exact e s (.buy o q)).st = walletValue e s - fee * e.weth ∨
       ratAbs (walletValue e (step NumCtx.exact e s (.buy o q)).st - (walletValue e s - fee * e.weth)) ≤
         assetDust * ratAbs (bal s sqWethName) * e.weth) := by
  obtain ⟨a, _, h0, h1⟩ := C14_buy_moves_exactly e s o q h
  by_cases ha : a = 0
  · rw [h0 ha]
    exact ⟨0, 0, 0, rfl, le_refl 0, Or.inl (by simp)⟩
  · obtain ⟨hp, hf, hc, b, b', hb, hsub, hb', hbo, hout, _⟩ := h1 ha
    refine ⟨_, _, _, hout, mul_nonneg hc hf0, ?_⟩
    have hw0 : bal s sqWethName = b := by unfold bal; rw [hb]; rfl
    have hw1 : bal (step NumCtx.exact e s (.buy o q)).st sqWethName = b' := by unfold bal; rw [hb']; rfl
    have hap : a * e.osqth = buyCost e a - buyCost e a * e.uniFee := by
      unfold buyCost; rw [hfrozen]; field_simp
    unfold walletValue markO
    rw [hw0, hw1, hbo]
    rcases debit_value_cases b _ b' hsub with h2 | ⟨h2, hd⟩
    · left; rw [h2]; linear_combination e.weth * hap
    · right
      rw [h2]
      have e1 : (0 * e.weth + (bal s sqOsqthName + a) * (e.osqth * e.weth)) -
          (b * e.weth + bal s sqOsqthName * (e.osqth * e.weth) - buyCost e a * e.uniFee * e.weth) = (buyCost e a - b) * e.weth := by
        linear_combination e.weth * hap
      rw [e1, ratAbs_mul_nonneg _ _ hw]
      exact mul_le_mul_of_nonneg_right hd hw

/-- **a sell loses exactly the reported fee**: the fee is in oSQTH, the wallet's value falls by `fee × mark price` (or differs from
    that by less than 1e-5 of the oSQTH balance when the remainder is snapped to zero) -/
theorem C03_squeeth_sell_loses_fee_within_dust (e : Env) (s : State) (o q : Option Rat) (hm : 0 ≤ markO e) (hf0 : 0 ≤ e.uniFee)
    (hfrozen : e.uniPrice = e.osqth) (h : (step NumCtx.exact e s (.sell o q)).err = none) :
    ∃ fee sold got, (step NumCtx.exact e s (.sell o q)).out = [fee, sold, got] ∧ 0 ≤ fee ∧
      (walletValue e (step NumCtx.exact e s (.sell o q)).st = walletValue e s - fee * markO e ∨
       ratAbs (walletValue e (step NumCtx.exact e s (.sell o q)).st - (walletValue e s - fee * markO e)) ≤
         assetDust * ratAbs (bal s sqOsqthName) * markO e) := by
  obtain ⟨a, _, ha0, h0, h1⟩ := C14_sell_moves_exactly e s o q h
  by_cases ha : a = 0
  · rw [h0 ha]
    exact ⟨0, 0, 0, rfl, le_refl 0, Or.inl (by simp)⟩
  · obtain ⟨b, b', hb, hsub, hb', hbw, hout, _⟩ := h1 ha
    refine ⟨_, _, _, hout, mul_nonneg ha0 hf0, ?_⟩
    have hw0 : bal s sqOsqthName = b := by unfold bal; rw [hb]; rfl
    have hw1 : bal (step NumCtx.exact e s (.sell o q)).st sqOsqthName = b' := by unfold bal; rw [hb']; rfl
    unfold walletValue
    rw [hw0, hw1, hbw, hfrozen]
    rcases debit_value_cases b _ b' hsub with h2 | ⟨h2, hd⟩
    · left; rw [h2]; unfold markO; ring
    · right
      rw [h2]
      have e1 : ((bal s sqWethName + (a - a * e.uniFee) * e.osqth) * e.weth + 0 * markO e) -
          (bal s sqWethName * e.weth + b * markO e - a * e.uniFee * markO e) = (a - b) * markO e := by
        unfold markO; ring
      rw [e1, ratAbs_mul_nonneg _ _ hm]
      exact mul_le_mul_of_nonneg_right hd hm

namespace Squeeth
/-- the wallet keeps its oSQTH entry through a trade (so `get_market_balance` stays defined) -/
theorem trade_keeps_osqth_entry (e : Env) (s : State) (op : Op) (hop : op.isTrade = true) (l : Rat)
    (hl : AList.get? s.wallet sqOsqthName = some l) : ∃ l', AList.get? (step NumCtx.exact e s op).st.wallet sqOsqthName = some l' := by
  cases herr : (step NumCtx.exact e s op).err with
  | some er => rw [C04_squeeth_rejected_trade_leaves_state_intact _ e s op hop (by rw [herr]; simp)]; exact ⟨l, hl⟩
  | none =>
    cases op with
    | buy o q =>
      obtain ⟨a, _, h0, h1⟩ := C14_buy_moves_exactly e s o q herr
      by_cases ha : a = 0
      · rw [h0 ha]; exact ⟨l, hl⟩
      · obtain ⟨_, _, _, b, b', _, _, _, hbo, _⟩ := h1 ha
        have hstep : step NumCtx.exact e s (.buy o q) = buySqueethOp NumCtx.exact e s o q := rfl
        obtain ⟨a', _, h0' | ⟨_, _, _, _, w1, _, _, _, hw, _⟩⟩ := buy_ok_exact e s o q (by rw [← hstep]; exact herr)
        · rw [hstep, h0'.2]; exact ⟨l, hl⟩
        · rw [hstep, hw, get?_credit_self]; exact ⟨_, rfl⟩
    | sell o q =>
      obtain ⟨a, _, _, h0, h1⟩ := C14_sell_moves_exactly e s o q herr
      by_cases ha : a = 0
      · rw [h0 ha]; exact ⟨l, hl⟩
      · obtain ⟨b, b', _, _, hb', _⟩ := h1 ha
        exact ⟨b', hb'⟩
    | _ => simp [Op.isTrade] at hop
end Squeeth

/-- **on a frozen bar a trade of the long side never raises the account's net value** beyond the wallet's 1e-5 dust: the reported net
    value (wallet at the row's prices + `SqueethMarket.get_market_balance().net_value` + the pool's net value × ETH price) after
    `buy_squeeth` / `sell_squeeth` — any arguments, accepted or rejected — is at most the value before plus 1e-5 of the WETH and oSQTH
    balances; the market parts do not move at all (`C01_squeeth_trade_moves_no_market_value`), the wallet loses the fee -/
theorem C03_squeeth_trade_never_raises_net_value (e : Env) (s : State) (op : Op) (hop : op.isTrade = true) (hw : 0 ≤ e.weth)
    (hm : 0 ≤ markO e) (hf0 : 0 ≤ e.uniFee) (hfrozen : e.uniPrice = e.osqth) (x : Rat) (hx : reportedValue e s = some x) :
    ∃ x', reportedValue e (step NumCtx.exact e s op).st = some x' ∧
      x' - x = walletValue e (step NumCtx.exact e s op).st - walletValue e s ∧
      x' ≤ x + assetDust * (ratAbs (bal s sqWethName) * e.weth + ratAbs (bal s sqOsqthName) * markO e) := by
  have hd1 : 0 ≤ assetDust * ratAbs (bal s sqWethName) * e.weth :=
    mul_nonneg (mul_nonneg (by unfold assetDust Gen.assetSubDust; norm_num) (ratAbs_nonneg _)) hw
  have hd2 : 0 ≤ assetDust * ratAbs (bal s sqOsqthName) * markO e :=
    mul_nonneg (mul_nonneg (by unfold assetDust Gen.assetSubDust; norm_num) (ratAbs_nonneg _)) hm
  -- the market parts
  unfold reportedValue at hx ⊢
  cases hb : marketBalance NumCtx.exact e s with
  | error er => simp [hb] at hx
  | ok b =>
    simp only [hb, Option.some.injEq] at hx
    obtain ⟨_, hu, _, hmb⟩ := C01_squeeth_trade_moves_no_market_value NumCtx.exact e s op hop
    have hl : ∃ l, AList.get? s.wallet sqOsqthName = some l := by
      unfold marketBalance at hb
      cases hg : AList.get? s.wallet sqOsqthName with
      | none => simp [hg] at hb
      | some l => exact ⟨l, rfl⟩
    obtain ⟨l, hl⟩ := hl
    obtain ⟨l', hl'⟩ := trade_keeps_osqth_entry e s op hop l hl
    rw [hmb b l' hb hl', hu]
    refine ⟨_, rfl, by rw [← hx]; ring, ?_⟩
    -- the wallet part
    have hwv : walletValue e (step NumCtx.exact e s op).st ≤ walletValue e s +
        assetDust * (ratAbs (bal s sqWethName) * e.weth + ratAbs (bal s sqOsqthName) * markO e) := by
      cases herr : (step NumCtx.exact e s op).err with
      | some er =>
        rw [C04_squeeth_rejected_trade_leaves_state_intact _ e s op hop (by rw [herr]; simp)]; nlinarith
      | none =>
        have habs : ∀ (v t : Rat), ratAbs (v - t) ≤ ratAbs (v - t) → v ≤ t + ratAbs (v - t) := by
          intro v t _; unfold ratAbs; split_ifs <;> linarith
        cases op with
        | buy o q =>
          obtain ⟨fee, _, _, _, hfee, h1 | h1⟩ := C03_squeeth_buy_loses_fee_within_dust e s o q hw hf0 hfrozen herr
          · rw [h1]; nlinarith [mul_nonneg hfee hw]
          · have := habs _ _ (le_refl (ratAbs (walletValue e (step NumCtx.exact e s (.buy o q)).st - (walletValue e s - fee * e.weth))))
            nlinarith [mul_nonneg hfee hw]
        | sell o q =>
          obtain ⟨fee, _, _, _, hfee, h1 | h1⟩ := C03_squeeth_sell_loses_fee_within_dust e s o q hm hf0 hfrozen herr
          · rw [h1]; nlinarith [mul_nonneg hfee hm]
          · have := habs _ _ (le_refl (ratAbs (walletValue e (step NumCtx.exact e s (.sell o q)).st - (walletValue e s - fee * markO e))))
            nlinarith [mul_nonneg hfee hm]
        | _ => simp [Op.isTrade] at hop
    rw [← hx]; linarith

/-! ### non-vacuity -/
-- a frozen bar (pool price = the row's oSQTH price), a buy of 2 oSQTH and a sell of 1: accepted, and the reported value falls by the fee
example : findEnv.uniPrice = findEnv.osqth ∧ 0 ≤ findEnv.weth ∧ 0 ≤ markO findEnv ∧ 0 ≤ findEnv.uniFee := by
  refine ⟨rfl, ?_, ?_, ?_⟩ <;> norm_num [findEnv, markO]
example : (step NumCtx.exact findEnv findState (.buy (some 2) none)).err = none := by decide +kernel
example : (step NumCtx.exact findEnv (step NumCtx.exact findEnv findState (.buy (some 2) none)).st (.sell (some 1) none)).err = none := by decide +kernel
example : (reportedValue findEnv (step NumCtx.exact findEnv findState (.buy (some 2) none)).st).map (fun x' => decide (x' < ((reportedValue findEnv findState).getD 0))) =
    some true := by decide +kernel
example : (reportedValue findEnv findState).isSome = true := by decide +kernel
example : (step NumCtx.exact findEnv findState (.burnWithdraw 1 0 (1/2))).err = none := by decide +kernel

end Demeter
