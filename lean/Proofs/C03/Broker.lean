/-
  C03 (wallet/broker part) — `Asset.sub` never makes a balance negative (in every rounding context), debits the
  stated amount except for the documented snap-to-zero dust (relative 1e-5 of the balance), and a broker swap
  changes the wallet's value by exactly minus the reported fee (up to that dust).
-/
import Proofs.Lemmas.WalletLemmas
import Mathlib.Tactic.Positivity
import Mathlib.Tactic.FieldSimp
namespace Demeter
open WalletLemmas

/-- the dust constant is the float literal `0.00001` of `Asset.sub`: positive and not more than 1e-5 + 1e-20 -/
theorem C03_wallet_dust_value : 0 < assetDust ∧ assetDust < 1 / 100000 + 1 / 10 ^ 20 ∧ (1 : Rat) / 100000 - 1 / 10 ^ 20 < assetDust := by
  unfold assetDust Gen.assetSubDust; norm_num

theorem assetSub_false (cx : NumCtx) (b a : Rat) : assetSub cx b a false =
    (if (if b ≠ 0 then b else a) = 0 then some b
     else if ratAbs (cx.div (cx.sub b a) (if b ≠ 0 then b else a)) < assetDust then some 0
     else if cx.sub b a < 0 then none else some (cx.sub b a)) := by
  simp [assetSub]

/-- **no negative balance, any rounding context**: whatever `Decimal` rounding does, a debit without
    `allow_negative_balance` leaves a non-negative balance or is refused. -/
theorem C03_wallet_sub_nonneg (cx : NumCtx) (b a b' : Rat) (hb : 0 ≤ b)
    (h : assetSub cx b a false = some b') : 0 ≤ b' := by
  rw [assetSub_false] at h
  by_cases h1 : (if b ≠ 0 then b else a) = 0
  · simp only [h1, if_true] at h; injection h with h; rw [← h]; exact hb
  · simp only [h1, if_false] at h
    by_cases h2 : ratAbs (cx.div (cx.sub b a) (if b ≠ 0 then b else a)) < assetDust
    · simp only [h2, if_true] at h; injection h with h; rw [← h]
    · simp only [h2, if_false] at h
      by_cases h3 : cx.sub b a < 0
      · simp [h3] at h
      · simp only [h3, if_false] at h; injection h with h; rw [← h]; exact not_lt.mp h3

theorem ratAbs_eq_abs (x : Rat) : ratAbs x = |x| := by
  unfold ratAbs
  split
  · rename_i h; rw [abs_of_neg h]
  · rename_i h; rw [abs_of_nonneg (not_lt.mp h)]

/-- **exact debit up to dust** (exact arithmetic): an accepted debit removes exactly `amount`, or — the documented
    tolerance — zeroes the balance when `|balance − amount| < 1e-5 × balance`. -/
theorem C03_wallet_sub_exact (b a b' : Rat) (hb : 0 ≤ b)
    (h : assetSub NumCtx.exact b a false = some b') :
    b' = b - a ∨ (b' = 0 ∧ 0 < b ∧ |b - a| < assetDust * b) := by
  rw [assetSub_false] at h
  simp only [NumCtx.exact_sub, NumCtx.exact_div, ratAbs_eq_abs] at h
  by_cases hb0 : b = 0
  · subst hb0
    simp only [ne_eq, not_true_eq_false, if_false] at h
    by_cases ha0 : a = 0
    · subst ha0; simp at h; left; rw [← h]; ring
    · simp only [ha0, if_false] at h
      have hone : |(0 - a) / a| = 1 := by
        rw [zero_sub, neg_div, div_self ha0]; simp
      have hd : ¬ ((1 : Rat) < assetDust) := by
        have := C03_wallet_dust_value.2.1; intro hc; linarith
      rw [hone] at h
      simp only [hd, if_false] at h
      by_cases h3 : (0 : Rat) - a < 0
      · simp only [h3, if_true, reduceCtorEq] at h
      · simp only [h3, if_false] at h; injection h with h; left; rw [← h]
  · have hbpos : 0 < b := lt_of_le_of_ne hb (Ne.symm hb0)
    simp only [ne_eq, hb0, not_false_eq_true, if_true, if_false] at h
    by_cases hs : |(b - a) / b| < assetDust
    · simp only [hs, if_true] at h
      injection h with h
      right
      refine ⟨h.symm, hbpos, ?_⟩
      rw [abs_div, abs_of_pos hbpos, div_lt_iff₀ hbpos] at hs
      exact hs
    · simp only [hs, if_false] at h
      by_cases h3 : b - a < 0
      · simp [h3] at h
      · simp only [h3, if_false] at h; injection h with h; left; exact h.symm

/-- an over-request is refused unless it is within the dust of the balance: **no overdraft** -/
theorem C03_wallet_sub_refuses_overdraft (b a : Rat) (hb : 0 ≤ b) (ha : b * (1 + assetDust) ≤ a) (hpos : 0 < a) :
    assetSub NumCtx.exact b a false = none := by
  have hd := C03_wallet_dust_value.1
  rw [assetSub_false]
  simp only [NumCtx.exact_sub, NumCtx.exact_div, ratAbs_eq_abs]
  by_cases hb0 : b = 0
  · subst hb0
    have ha0 : a ≠ 0 := ne_of_gt hpos
    have hone : |(0 - a) / a| = 1 := by rw [zero_sub, neg_div, div_self ha0]; simp
    have hd1 : ¬ ((1 : Rat) < assetDust) := by have := C03_wallet_dust_value.2.1; intro hc; linarith
    simp [ha0, hd1, hpos]
  · have hbpos : 0 < b := lt_of_le_of_ne hb (Ne.symm hb0)
    have hns : ¬ (|(b - a) / b| < assetDust) := by
      rw [abs_div, abs_of_pos hbpos, div_lt_iff₀ hbpos, not_lt]
      have : b - a ≤ -(assetDust * b) := by nlinarith
      rw [abs_of_nonpos (by nlinarith)]; linarith
    have hneg : b - a < 0 := by nlinarith
    simp [hb0, hns, hneg]

/-- credit-after-debit bookkeeping used by both swaps: valuation after `debit from; credit to` -/
theorem swap_value (p : Prices) (w : Wallet) (fromTok toTok : String) (hne : fromTok ≠ toTok)
    (pf pt bf bf' x v : Rat) (hpf : AList.get? p fromTok = some pf) (hpt : AList.get? p toTok = some pt)
    (hbf : AList.get? w fromTok = some bf) (hv : specWallet p w = some v) :
    specWallet p (Wallet.credit NumCtx.exact (AList.set w fromTok bf') toTok x)
      = some (v + (bf' - bf) * pf + x * pt) := by
  have h1 := spec_set_present p fromTok bf' pf hpf w bf v hbf hv
  unfold Wallet.credit assetAdd
  rw [get?_set_ne w fromTok toTok bf' hne]
  cases hbt : AList.get? w toTok with
  | some bt =>
    simp only [NumCtx.exact_add]
    have hg : AList.get? (AList.set w fromTok bf') toTok = some bt := by rw [get?_set_ne _ _ _ _ hne, hbt]
    rw [spec_set_present p toTok (bt + x) pt hpt _ bt _ hg h1]
    congr 1; ring
  | none =>
    simp only [NumCtx.exact_add]
    have hg : AList.get? (AList.set w fromTok bf') toTok = none := by rw [get?_set_ne _ _ _ _ hne, hbt]
    rw [spec_set_absent p toTok (0 + x) pt hpt _ _ hg h1]
    congr 1; ring

/-- **a swap loses exactly the reported fee** (`swap_by_from`, exact arithmetic, no negative-balance mode): the
    wallet's value at the bar's prices changes by `− fee × price(from)`, plus at most the snap-to-zero dust
    `1e-5 × balance × price` when the request is within 1e-5 of the whole balance. -/
theorem C03_broker_swap_from_loses_fee (w : Wallet) (fromTok toTok : String) (hne : fromTok ≠ toTok)
    (amount feeRate pf pt v : Rat) (p : Prices) (r : SwapResult)
    (hw : NonNeg w) (hpf : AList.get? p fromTok = some pf) (hpt : AList.get? p toTok = some pt)
    (hv : specWallet p w = some v)
    (h : swapByFrom NumCtx.exact w false fromTok toTok amount p feeRate = .ok r) :
    ∃ bf v', AList.get? w fromTok = some bf ∧ specWallet p r.wallet = some v' ∧ r.fee = amount * feeRate ∧
      (v' = v - r.fee * pf ∨ (v' - (v - r.fee * pf) = (amount - bf) * pf ∧ |bf - amount| < assetDust * bf)) := by
  unfold swapByFrom at h
  by_cases hneg : amount < 0
  · split at h <;> simp [hneg] at h
  simp only [hneg, if_false] at h
  split at h
  · exact absurd h (by simp)
  · simp only [hpf, hpt] at h
    split at h
    · exact absurd h (by simp)
    · rename_i hpt0
      unfold Wallet.debit at h
      cases hbf : AList.get? w fromTok with
      | none => simp [hbf] at h
      | some bf =>
        simp only [hbf] at h
        cases hs : assetSub NumCtx.exact bf amount false with
        | none => simp [hs] at h
        | some bf' =>
          simp only [hs] at h
          injection h with h
          subst h
          have hbf0 := nonneg_get w fromTok bf hw hbf
          refine ⟨bf, _, rfl, swap_value p w fromTok toTok hne pf pt bf bf' _ v hpf hpt hbf hv, rfl, ?_⟩
          simp only [NumCtx.exact_mul, NumCtx.exact_div, NumCtx.exact_sub]
          have hpt0' : pt ≠ 0 := hpt0
          rcases C03_wallet_sub_exact bf amount bf' hbf0 hs with rfl | ⟨rfl, _, hd⟩
          · left; field_simp; ring
          · right; refine ⟨?_, hd⟩; field_simp; ring

/-- **a swap loses exactly the reported fee** (`swap_by_to`): the caller names the amount received; the wallet pays
    `amount × price(to) / (1 − fee_rate) / price(from)` and the value lost is `fee × price(from)` with
    `fee = paid × fee_rate`, again up to the snap-to-zero dust. -/
theorem C03_broker_swap_to_loses_fee (w : Wallet) (fromTok toTok : String) (hne : fromTok ≠ toTok)
    (amount feeRate pf pt v : Rat) (p : Prices) (r : SwapResult)
    (hw : NonNeg w) (hpf : AList.get? p fromTok = some pf) (hpt : AList.get? p toTok = some pt)
    (hv : specWallet p w = some v)
    (h : swapByTo NumCtx.exact w false fromTok toTok amount p feeRate = .ok r) :
    ∃ bf v', AList.get? w fromTok = some bf ∧ specWallet p r.wallet = some v' ∧ r.fee = r.fromAmount * feeRate ∧
      (v' = v - r.fee * pf ∨ (v' - (v - r.fee * pf) = (r.fromAmount - bf) * pf ∧ |bf - r.fromAmount| < assetDust * bf)) := by
  unfold swapByTo at h
  by_cases hneg : amount < 0
  · split at h <;> simp [hneg] at h
  simp only [hneg, if_false] at h
  split at h
  · exact absurd h (by simp)
  · rename_i hfee
    simp only [hpf, hpt] at h
    split at h
    · exact absurd h (by simp)
    · rename_i hpf0
      unfold Wallet.debit at h
      cases hbf : AList.get? w fromTok with
      | none => simp [hbf] at h
      | some bf =>
        simp only [hbf, NumCtx.exact_mul, NumCtx.exact_div, NumCtx.exact_sub] at h
        cases hs : assetSub NumCtx.exact bf (amount * pt / (1 - feeRate) / pf) false with
        | none => simp [hs] at h
        | some bf' =>
          simp only [hs] at h
          injection h with h
          subst h
          have hbf0 := nonneg_get w fromTok bf hw hbf
          refine ⟨bf, _, rfl, swap_value p w fromTok toTok hne pf pt bf bf' _ v hpf hpt hbf hv, rfl, ?_⟩
          have hpf0' : pf ≠ 0 := hpf0
          have hfr : (1 : Rat) - feeRate ≠ 0 := by
            have : feeRate < 1 := (not_not.mp hfee).2
            linarith
          rcases C03_wallet_sub_exact bf _ bf' hbf0 hs with rfl | ⟨rfl, _, hd⟩
          · left; field_simp; ring
          · right; refine ⟨?_, hd⟩; field_simp; ring

/-- no balance becomes negative in a swap of a non-negative amount at non-negative prices -/
theorem C03_broker_swap_from_nonneg (cx : NumCtx) (w : Wallet) (fromTok toTok : String)
    (amount feeRate : Rat) (p : Prices) (r : SwapResult) (hw : NonNeg w)
    (hcredit : ∀ b x : Rat, 0 ≤ b → 0 ≤ x → 0 ≤ cx.add b x)
    (hto : ∀ pf pt, AList.get? p fromTok = some pf → AList.get? p toTok = some pt →
      0 ≤ cx.div (cx.mul (cx.mul amount pf) (cx.sub 1 feeRate)) pt)
    (h : swapByFrom cx w false fromTok toTok amount p feeRate = .ok r) : NonNeg r.wallet := by
  unfold swapByFrom at h
  by_cases hneg : amount < 0
  · split at h <;> simp [hneg] at h
  simp only [hneg, if_false] at h
  split at h
  · exact absurd h (by simp)
  · cases hpf : AList.get? p fromTok with
    | none => simp [hpf] at h
    | some pf =>
      cases hpt : AList.get? p toTok with
      | none => simp [hpf, hpt] at h
      | some pt =>
        simp only [hpf, hpt] at h
        split at h
        · exact absurd h (by simp)
        · unfold Wallet.debit at h
          cases hbf : AList.get? w fromTok with
          | none => simp [hbf] at h
          | some bf =>
            simp only [hbf] at h
            cases hs : assetSub cx bf amount false with
            | none => simp [hs] at h
            | some bf' =>
              simp only [hs] at h
              injection h with h
              subst h
              have hbf0 := nonneg_get w fromTok bf hw hbf
              have hbf' := C03_wallet_sub_nonneg cx bf amount bf' hbf0 hs
              have hw1 := nonneg_set w fromTok bf' hw hbf'
              have hx := hto pf pt hpf hpt
              show NonNeg (Wallet.credit cx (AList.set w fromTok bf') toTok _)
              unfold Wallet.credit assetAdd
              cases hbt : AList.get? (AList.set w fromTok bf') toTok with
              | some bt => exact nonneg_set _ _ _ hw1 (hcredit _ _ (nonneg_get _ _ _ hw1 hbt) hx)
              | none => exact nonneg_set _ _ _ hw1 (hcredit _ _ (le_refl 0) hx)

/-! non-vacuity -/
example : ((swapByFrom NumCtx.exact [("USDC", 1000), ("ETH", 1)] false "USDC" "ETH" 500 [("USDC", 1), ("ETH", 2000)] (3 / 1000)).toOption.map (·.wallet))
    = some [("USDC", 500), ("ETH", 1 + 997 / 4000)] := by decide +kernel
example : assetSub NumCtx.exact 100 (100 + 1 / 1000000) false = some 0 := by decide +kernel
example : assetSub NumCtx.exact 100 101 false = none := by decide +kernel

end Demeter
