/-
  C03, Uniswap part, value conservation at a frozen status row (exact arithmetic): removing liquidity, collecting
  and adding liquidity move value between wallet and positions without creating or destroying any — up to the
  wallet's own dust snap on a debit (`C03_uni_debit_dust`).
-/
import Proofs.Lemmas.UniValue
import Proofs.Lemmas.UniAtomic
import Proofs.C03.Uni
namespace Demeter.Uni
open Demeter

/-- the frozen market: exact arithmetic, a status row, its sqrt price, and the kernel's amounts as a total
    function `A lower upper liquidity` that is additive in the liquidity and consistent with `new_position` -/
structure Frozen (K : Kern) (pool : Pool) (row : Row) (sqrt : Nat) (A : Int → Int → Int → Rat × Rat) : Prop where
  cx : K.cx = NumCtx.exact
  sqrt_ok : K.priceToSqrt pool row.price = .ok sqrt
  amounts : ∀ lo up l d r, K.amounts pool sqrt lo up l d = .ok r → r = A lo up l
  additive : ∀ lo up l1 l2, A lo up (l1 + l2) = ((A lo up l1).1 + (A lo up l2).1, (A lo up l1).2 + (A lo up l2).2)
  newPos : ∀ lo up a0 a1 u0 u1 L, K.newPos pool sqrt lo up a0 a1 = .ok (u0, u1, L) → A lo up L = (u0, u1)
  tokens : pool.tok0 ≠ pool.tok1

/-- net value of wallet + positions in quote token (what `get_account_status` reports on a Uniswap-only broker,
    cf. C01) -/
def netVal (pool : Pool) (row : Row) (A : Int → Int → Int → Rat × Rat) (s : State) : Rat :=
  walletVal pool row.price s.wallet + sumOver (posValue pool row.price (fun p => A p.lower p.upper p.liq)) s.positions

theorem Frozen.A_zero {K : Kern} {pool : Pool} {row : Row} {sqrt : Nat} {A : Int → Int → Int → Rat × Rat}
    (F : Frozen K pool row sqrt A) (lo up : Int) : A lo up 0 = (0, 0) := by
  have h := F.additive lo up 0 0
  simp only [add_zero] at h
  have h1 : (A lo up 0).1 = (A lo up 0).1 + (A lo up 0).1 := congrArg Prod.fst h
  have h2 : (A lo up 0).2 = (A lo up 0).2 + (A lo up 0).2 := congrArg Prod.snd h
  ext <;> simp <;> linarith

theorem hasKey_eq {p : Pos} {lo up : Int} (h : p.hasKey lo up = true) : p.lower = lo ∧ p.upper = up := by
  unfold Pos.hasKey at h; simpa using h

theorem resolveSqrt_frozen {K : Kern} {pool : Pool} {row : Row} {sqrt : Nat} {A : Int → Int → Int → Rat × Rat}
    (F : Frozen K pool row sqrt A) {s : State} (hrow : s.row = some row) : resolveSqrt K pool s none = .ok sqrt := by
  unfold resolveSqrt priceOf; simp only [hrow, F.sqrt_ok]

end Demeter.Uni

namespace Demeter
open Demeter.Uni

/-- **Removing liquidity conserves value exactly.** An accepted `remove_liquidity(collect=False)` at the market
    price leaves the net value unchanged: what leaves the position's liquidity is what enters its uncollected
    amounts, valued at the same sqrt price. Any requested liquidity (none / part / all / more than held). -/
theorem C03_uni_remove_conserves {K : Kern} {pool : Pool} {row : Row} {sqrt : Nat} {A : Int → Int → Int → Rat × Rat}
    (F : Frozen K pool row sqrt A) (s : State) (hrow : s.row = some row) (lo up : Int) (l : Option Int) (p0 : Pos)
    (hu : UniqueKey s.positions lo up p0) (v : List Rat) (s' : State)
    (h : removeNoCollect K pool s lo up l none = (.ok v, s')) :
    netVal pool row A s' = netVal pool row A s := by
  unfold removeNoCollect at h
  rw [resolveSqrt_frozen F hrow, findPos_unique hu] at h
  simp only [] at h
  split at h
  · simp [fail] at h
  · split at h
    · simp [fail] at h
    · split at h
      · simp [fail] at h
      · split at h
        · simp [fail] at h
        · rename_i g0 g1 hamt
          have hg := F.amounts _ _ _ _ _ hamt
          split at h
          · injection h with _ h2
            subst h2
            obtain ⟨hlo, hup⟩ := hasKey_eq hu.choose_spec.choose_spec.2.2.2
            obtain ⟨lst, r, e, hm⟩ := mapPos_unique (fun _ => removePos K.cx p0 (removeDelta l p0).1 (removeDelta l p0).2 g0 g1) hu
            unfold netVal
            simp only [Uni.record, removeCore, markUpdate, hm]
            rw [e, sumOver_replace _ lst r p0 (removePos K.cx p0 (removeDelta l p0).1 (removeDelta l p0).2 g0 g1)]
            have hadd := F.additive lo up (p0.liq - (removeDelta l p0).1) (removeDelta l p0).1
            rw [sub_add_cancel] at hadd
            have hg0 : g0 = (A lo up (removeDelta l p0).1).1 := congrArg Prod.fst hg
            have hg1 : g1 = (A lo up (removeDelta l p0).1).2 := congrArg Prod.snd hg
            simp only [removePos, F.cx, NumCtx.exact_add, posValue_eq_tokVal, hlo, hup]
            split
            · ring
            · rw [hadd, hg0, hg1]
              simp only []
              have : ∀ (a b c d e f : Rat), tokVal pool row.price (a + b + c) (d + e + f) = tokVal pool row.price (a + (c + b)) (d + (f + e)) := by
                intro a b c d e f; congr 1 <;> ring
              rw [this]; ring
          · simp at h
          · simp at h

/-- **Collecting conserves value exactly.** An accepted `collect_fee` (to the user) moves the collected amounts
    from the position's uncollected amounts into the wallet — for every cap, including caps above what is pending —
    and deleting the then-empty position loses nothing. -/
theorem C03_uni_collect_conserves {K : Kern} {pool : Pool} {row : Row} {sqrt : Nat} {A : Int → Int → Int → Rat × Rat}
    (F : Frozen K pool row sqrt A) (s : State) (lo up : Int) (m0 m1 : Option Rat) (rd : Bool) (p0 : Pos)
    (hu : UniqueKey s.positions lo up p0) (v : List Rat) (s' : State)
    (h : collect K pool s lo up m0 m1 rd true = (.ok v, s')) :
    netVal pool row A s' = netVal pool row A s := by
  unfold collect at h
  rw [findPos_unique hu] at h
  simp only [] at h
  obtain ⟨lst, r, e, hl, hr, hk⟩ := hu
  obtain ⟨hlo, hup⟩ := hasKey_eq hk
  split at h
  · simp [fail] at h
  · split at h
    · simp [fail] at h
    · rename_i hntr
      have htr : p0.transferred = false := by simpa using hntr
      split at h
      · simp [fail] at h
      · split at h
        · injection h with _ h2
          subst h2
          have hk' : (collectPos NumCtx.exact p0 (capAt m0 p0.pending0) (capAt m1 p0.pending1)).hasKey lo up = true := hk
          have hval : posValue pool row.price (fun p => A p.lower p.upper p.liq)
                (collectPos NumCtx.exact p0 (capAt m0 p0.pending0) (capAt m1 p0.pending1)) =
              posValue pool row.price (fun p => A p.lower p.upper p.liq) p0 -
                tokVal pool row.price (capAt m0 p0.pending0) (capAt m1 p0.pending1) := by
            simp only [posValue_eq_tokVal, collectPos, NumCtx.exact_sub]
            rw [← tokVal_sub]; congr 1 <;> ring
          unfold netVal collectFinish
          simp only [Uni.record, collectCore, markUpdate, collectWallet, if_true, F.cx, e,
            mapPos_decomp lst r p0 lo up _ hl hr hk]
          by_cases hdry : isDry (collectPos NumCtx.exact p0 (capAt m0 p0.pending0) (capAt m1 p0.pending1)) rd = true
          · -- the dry position is deleted: it was worth nothing
            simp only [hdry, if_true, erasePos_decomp lst r _ lo up hl hr hk', walletVal_credit2 _ _ _ _ _ F.tokens]
            rw [C01_uni_transferred_skipped _ lst r p0]
            simp only [htr, Bool.false_eq_true, if_false]
            have hz : posValue pool row.price (fun p => A p.lower p.upper p.liq)
                (collectPos NumCtx.exact p0 (capAt m0 p0.pending0) (capAt m1 p0.pending1)) = 0 := by
              unfold isDry at hdry
              simp only [Bool.and_eq_true, beq_iff_eq] at hdry
              obtain ⟨⟨⟨h0, h1⟩, hl0⟩, _⟩ := hdry
              rw [posValue_eq_tokVal, h0, h1]
              have : (collectPos NumCtx.exact p0 (capAt m0 p0.pending0) (capAt m1 p0.pending1)).liq = 0 := hl0
              simp only [this, F.A_zero, add_zero, tokVal_zero]
            rw [hval] at hz
            linarith
          · simp only [hdry, Bool.false_eq_true, if_false, walletVal_credit2 _ _ _ _ _ F.tokens]
            rw [sumOver_replace _ lst r p0]
            simp only [htr, collectPos, Bool.false_eq_true, if_false] at hval ⊢
            rw [hval]; ring
        · simp at h
        · simp at h

end Demeter

namespace Demeter.Uni
open Demeter

theorem sumOver_append_one (f : Pos → Rat) (ps : List Pos) (p : Pos) :
    sumOver f (ps ++ [p]) = sumOver f ps + (if p.transferred then 0 else f p) := by
  have := C01_uni_transferred_skipped f ps [] p
  simpa using this

/-- the positions side of an add: the dict gains exactly the value of the liquidity's amounts -/
theorem addToPositions_value {K : Kern} {pool : Pool} {row : Row} {sqrt : Nat} {A : Int → Int → Int → Rat × Rat}
    (F : Frozen K pool row sqrt A) (s : State) (lo up liq : Int) (ent : Option Pos)
    (hent : newEntity K pool s lo up liq sqrt = .ok ent)
    (hpos : findPos s.positions lo up = none ∨ ∃ p0, UniqueKey s.positions lo up p0 ∧ p0.transferred = false) :
    sumOver (posValue pool row.price (fun p => A p.lower p.upper p.liq)) (addToPositions s.positions lo up liq ent) =
      sumOver (posValue pool row.price (fun p => A p.lower p.upper p.liq)) s.positions +
        tokVal pool row.price (A lo up liq).1 (A lo up liq).2 := by
  unfold newEntity at hent
  rcases hpos with hnone | ⟨p0, hu, htr⟩
  · rw [hnone] at hent
    simp only [] at hent
    split at hent
    · injection hent with hent; subst hent
      simp only [addToPositions]
      rw [sumOver_append_one]
      split <;> simp [mkPos, posValue_eq_tokVal] at *
    · cases hent
    · cases hent
    · cases hent
  · rw [findPos_unique hu] at hent
    injection hent with hent; subst hent
    obtain ⟨lst, r, e, hl, hr, hk⟩ := hu
    obtain ⟨hlo, hup⟩ := hasKey_eq hk
    simp only [addToPositions, e, mapPos_decomp lst r p0 lo up _ hl hr hk]
    rw [sumOver_replace _ lst r p0]
    simp only [htr, Bool.false_eq_true, if_false, posValue_eq_tokVal, hlo, hup, F.additive lo up p0.liq liq]
    have : ∀ (a b c d e f : Rat), tokVal pool row.price (a + (b + c)) (d + (e + f)) =
        tokVal pool row.price (a + b) (d + e) + tokVal pool row.price c f := by
      intro a b c d e f; rw [← tokVal_add]; congr 1 <;> ring
    rw [this]; ring

/-- the wallet side of an add (overdraft not allowed): both debits accepted means the wallet's value fell by the
    value of the used amounts, up to the dust snaps `ε0`, `ε1` of the two balances -/
theorem debit2_value (pool : Pool) (price : Rat) (w w2 : Wallet) (u0 u1 : Rat) (hne : pool.tok0 ≠ pool.tok1)
    (hd : debit2 NumCtx.exact w pool.tok0 u0 pool.tok1 u1 false = .ok w2) :
    ∃ e0 e1 : Rat, walletVal pool price w2 = walletVal pool price w - tokVal pool price u0 u1 + tokVal pool price e0 e1 ∧
      (e0 = 0 ∨ |e0| < assetDust * |if bal w pool.tok0 ≠ 0 then bal w pool.tok0 else u0|) ∧
      (e1 = 0 ∨ |e1| < assetDust * |if bal w pool.tok1 ≠ 0 then bal w pool.tok1 else u1|) := by
  unfold debit2 at hd
  split at hd
  · cases hd
  · rename_i w1 h1
    -- first debit
    unfold debit Wallet.debit at h1
    cases hg0 : AList.get? w pool.tok0 with
    | none => rw [hg0] at h1; simp at h1
    | some b0 =>
      rw [hg0] at h1
      simp only [] at h1
      cases hs0 : assetSub NumCtx.exact b0 u0 false with
      | none => rw [hs0] at h1; simp at h1
      | some b0' =>
        rw [hs0] at h1
        simp only [] at h1
        injection h1 with h1; subst h1
        unfold debit Wallet.debit at hd
        have hg1' : AList.get? (AList.set w pool.tok0 b0') pool.tok1 = AList.get? w pool.tok1 :=
          alist_get_set_other _ _ _ _ hne.symm
        cases hg1 : AList.get? w pool.tok1 with
        | none => rw [hg1', hg1] at hd; simp at hd
        | some b1 =>
          rw [hg1', hg1] at hd
          simp only [] at hd
          cases hs1 : assetSub NumCtx.exact b1 u1 false with
          | none => rw [hs1] at hd; simp at hd
          | some b1' =>
            rw [hs1] at hd
            simp only [] at hd
            injection hd with hd; subst hd
            refine ⟨b0' - (b0 - u0), b1' - (b1 - u1), ?_, ?_, ?_⟩
            · unfold walletVal
              rw [bal_set_other _ _ _ _ hne, bal_set_self, bal_set_self]
              have hb0 : bal w pool.tok0 = b0 := by unfold bal; rw [hg0]; rfl
              have hb1 : bal w pool.tok1 = b1 := by unfold bal; rw [hg1]; rfl
              rw [hb0, hb1, ← tokVal_sub, ← tokVal_add]
              congr 1 <;> ring
            · have hb0 : bal w pool.tok0 = b0 := by unfold bal; rw [hg0]; rfl
              rw [hb0]
              rcases assetSub_exact hs0 with ⟨e, _⟩ | ⟨e, hlt⟩ | ⟨e, hz, ha⟩
              · left; rw [e]; ring
              · right; rw [e, zero_sub, abs_neg]; exact hlt
              · left; rw [e, hz, ha]; ring
            · have hb1 : bal w pool.tok1 = b1 := by unfold bal; rw [hg1]; rfl
              rw [hb1]
              rcases assetSub_exact hs1 with ⟨e, _⟩ | ⟨e, hlt⟩ | ⟨e, hz, ha⟩
              · left; rw [e]; ring
              · right; rw [e, zero_sub, abs_neg]; exact hlt
              · left; rw [e, hz, ha]; ring

end Demeter.Uni

namespace Demeter
open Demeter.Uni

/-- **Adding liquidity conserves value up to the wallet's dust.** An accepted `_add_liquidity_by_tick` at the market
    price (new position, or more liquidity for an existing one that is not lent out) changes the net value by
    exactly the dust the two wallet debits snapped: `ε0`, `ε1` are each 0 or smaller than `1e-5` of the balance they
    touch. The position is worth what it cost, valued at the sqrt price it was sized with. -/
theorem C03_uni_add_conserves {K : Kern} {pool : Pool} {row : Row} {sqrt : Nat} {A : Int → Int → Int → Rat × Rat}
    (F : Frozen K pool row sqrt A) (s : State) (hrow : s.row = some row) (hneg : s.allowNeg = false) (a0 a1 : Rat) (lo up : Int)
    (hpos : findPos s.positions lo up = none ∨ ∃ p0, UniqueKey s.positions lo up p0 ∧ p0.transferred = false)
    (v : Int × Int × Rat × Rat × Int) (s' : State) (h : addRaw K pool s a0 a1 lo up none = (.ok v, s')) :
    ∃ e0 e1 : Rat, netVal pool row A s' = netVal pool row A s + tokVal pool row.price e0 e1 ∧
      (e0 = 0 ∨ |e0| < assetDust * |if bal s.wallet pool.tok0 ≠ 0 then bal s.wallet pool.tok0 else v.2.2.1|) ∧
      (e1 = 0 ∨ |e1| < assetDust * |if bal s.wallet pool.tok1 ≠ 0 then bal s.wallet pool.tok1 else v.2.2.2.1|) := by
  unfold addRaw at h
  rw [resolveSqrt_frozen F hrow] at h
  simp only [] at h
  split at h
  · cases h
  · split at h
    · cases h
    · split at h
      · cases h
      · split at h
        · cases h
        · split at h
          · cases h
          · rename_i u0 u1 liq hnew
            split at h
            · cases h
            · rename_i ent hent
              split at h
              · cases h
              · rename_i w2 hd
                injection h with h1 h2
                injection h1 with h1
                subst h1; subst h2
                rw [F.cx, hneg] at hd
                obtain ⟨e0, e1, hw, hb0, hb1⟩ := debit2_value pool row.price s.wallet w2 u0 u1 F.tokens hd
                refine ⟨e0, e1, ?_, hb0, hb1⟩
                have hA := F.newPos lo up a0 a1 u0 u1 liq hnew
                have hp := addToPositions_value F s lo up liq ent hent hpos
                unfold netVal
                simp only [markUpdate, hw, hp, hA]
                ring

end Demeter

/-! ### the caller-chosen pool price (known finding), and non-vacuity -/
namespace Demeter.Uni
open Demeter

/-- a kernel with linear amounts that depend on the sqrt price: at sqrt price `s` one unit of liquidity holds
    `(s, 10 - s)` of the two tokens (a caricature of a range position: the cheaper the price, the more token0) -/
def linKern : Kern :=
  { cx := NumCtx.exact
    priceToSqrt := fun _ _ => .ok 5
    sqrtToPrice := fun _ _ => .ok 1
    tickToPrice := fun _ _ => .ok 1
    newPos := fun _ s _ _ a0 _ => .ok (((a0 / (s : Rat)).floor * (s : Rat)), ((a0 / (s : Rat)).floor * (10 - (s : Rat))), (a0 / (s : Rat)).floor)
    amounts := fun _ s _ _ l _ => .ok ((l : Rat) * (s : Rat), (l : Rat) * (10 - (s : Rat)))
    tickToSqrt := fun _ => .ok 5 }

def linPool : Pool :=
  { tok0 := "a", tok1 := "b", d0 := 6, d1 := 18, feeRate := 3 / 1000, spacing := 10, q0 := true, decFac := 1 }

/-- one position [0, 10] with liquidity 7; wallet 10 / 1 -/
def linState : State :=
  { positions := [{ (default : Pos) with lower := 0, upper := 10, liq := 7 }], lastTick := none,
    row := some { closeTick := 0, curLiq := 1000, in0 := 0, in1 := 0, price := 2 }, ts := none, isOpen := true,
    hasUpdate := false, wallet := [("a", 10), ("b", 1)], allowNeg := false, actions := [] }

def linRow : Row := { closeTick := 0, curLiq := 1000, in0 := 0, in1 := 0, price := 2 }

theorem linKern_frozen : Frozen linKern linPool linRow 5 (fun _ _ l => ((l : Rat) * 5, (l : Rat) * 5)) :=
  { cx := rfl
    sqrt_ok := rfl
    amounts := by
      intro lo up l d r h
      simp only [linKern] at h
      injection h with h; rw [← h]; norm_num
    additive := by intro lo up l1 l2; simp only [Int.cast_add]; ext <;> simp <;> ring
    newPos := by
      intro lo up a0 a1 u0 u1 L h
      simp only [linKern] at h
      injection h with h
      injection h with h0 h
      injection h with h1 h2
      rw [← h0, ← h1, ← h2]; norm_num
    tokens := by decide }

end Demeter.Uni

namespace Demeter
open Demeter.Uni

/-- the hypotheses of the three conservation theorems are satisfiable: a frozen market with a non-trivial
    (sqrt-price dependent, linear) kernel and a state with one position of liquidity 7 -/
example : ∃ (s : State) (p0 : Pos), Frozen linKern linPool linRow 5 (fun _ _ l => ((l : Rat) * 5, (l : Rat) * 5)) ∧
    s.row = some linRow ∧ UniqueKey s.positions 0 10 p0 ∧ p0.transferred = false ∧ s.allowNeg = false :=
  ⟨linState, { (default : Pos) with lower := 0, upper := 10, liq := 7 }, linKern_frozen, rfl,
   ⟨[], [], rfl, (fun _ h => by cases h), (fun _ h => by cases h), rfl⟩, rfl, rfl⟩

/-- **Known finding (caller-chosen pool price).** `remove_liquidity(..., sqrt_price_x96 = X)` computes what it pays
    into the position's uncollected amounts at the caller's `X`, while the position was (and the rest is) valued at
    the market's sqrt price: with the kernel above, market sqrt price 5 and `X = 1`, removing liquidity 7 of a
    position raises the net value from 117 (position 105 + wallet 12) to 145 (uncollected amounts worth 133 + wallet 12). The property excludes only *swaps* with a caller-chosen price,
    so `C03_uni_remove_conserves` is the partial statement (`sqrt? = none`) and this is its failing complement. -/
theorem C03_uni_fails_remove_chosen_price :
    ∃ (s s' : State) (v : List Rat),
      removeNoCollect linKern linPool s 0 10 none (some 1) = (.ok v, s') ∧
      netVal linPool linRow (fun _ _ l => ((l : Rat) * 5, (l : Rat) * 5)) s <
        netVal linPool linRow (fun _ _ l => ((l : Rat) * 5, (l : Rat) * 5)) s' := by
  refine ⟨linState, _, _, rfl, ?_⟩
  decide +kernel

end Demeter
