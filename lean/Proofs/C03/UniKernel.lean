/-
  C03, Uniswap part: the kernel the code uses (`Kern.std`, exact arithmetic) satisfies the hypotheses `Frozen` of the
  value-conservation theorems: its amounts are a total function of the liquidity, additive in it, independent of
  whether the liquidity is held as `int` or `Decimal`, and `new_position` reports exactly the amounts its
  liquidity is valued at.
-/
import Demeter.Uni.Kernel
import Proofs.C03.UniValue
import Mathlib.Tactic.Linarith
import Mathlib.Tactic.Ring
import Mathlib.Tactic.FieldSimp
namespace Demeter.Uni
open Demeter

theorem amount0Gen_exact (sa sb : Nat) (l : Int) (dec : Bool) (d : Nat) :
    amount0Gen NumCtx.exact sa sb l dec d =
      (l : Rat) * (((Q96 : Nat) : Rat) * (((sortPair sa sb).2 - (sortPair sa sb).1 : Nat) : Rat)) /
        (((sortPair sa sb).2 : Nat) : Rat) / (((sortPair sa sb).1 : Nat) : Rat) / ((pow10 d : Nat) : Rat) := by
  unfold amount0Gen
  cases dec <;> simp [q96R] <;> ring

theorem amount1Gen_exact (sa sb : Nat) (l : Int) (dec : Bool) (d : Nat) :
    amount1Gen NumCtx.exact sa sb l dec d =
      (l : Rat) * ((((sortPair sa sb).2 - (sortPair sa sb).1 : Nat) : Rat)) / (((Q96 : Nat) : Rat)) / ((pow10 d : Nat) : Rat) := by
  unfold amount1Gen
  cases dec <;> simp [q96R]

/-- the amounts of the concrete kernel as a total function of the liquidity ((0, 0) where the code raises) -/
def stdA (pool : Pool) (sqrt : Nat) (lo up l : Int) : Rat × Rat :=
  match amountsGen NumCtx.exact sqrt lo up l false pool.d0 pool.d1 with
  | .ok r => r
  | .error _ => (0, 0)

theorem amountsGen_dec (s : Nat) (ta tb l : Int) (d : Bool) (d0 d1 : Nat) :
    amountsGen NumCtx.exact s ta tb l d d0 d1 = amountsGen NumCtx.exact s ta tb l false d0 d1 := by
  unfold amountsGen
  simp only [amount0Gen_exact, amount1Gen_exact]

theorem amountsGen_zero (s : Nat) (ta tb : Int) (d0 d1 : Nat) (r : Rat × Rat)
    (h : amountsGen NumCtx.exact s ta tb 0 false d0 d1 = .ok r) : r = (0, 0) := by
  unfold amountsGen at h
  simp only [amount0Gen_exact, amount1Gen_exact, Int.cast_zero, zero_mul, zero_div] at h
  repeat' split at h
  all_goals first
    | (injection h with h; exact h.symm)
    | (cases h; rfl)
    | cases h

theorem stdA_additive (pool : Pool) (sqrt : Nat) (lo up l1 l2 : Int) :
    stdA pool sqrt lo up (l1 + l2) =
      ((stdA pool sqrt lo up l1).1 + (stdA pool sqrt lo up l2).1, (stdA pool sqrt lo up l1).2 + (stdA pool sqrt lo up l2).2) := by
  unfold stdA amountsGen
  cases hlo : sqrtAtE lo with
  | error e => simp
  | ok sa0 =>
    cases hup : sqrtAtE up with
    | error e => simp
    | ok sb0 =>
      simp only [amount0Gen_exact, amount1Gen_exact, Int.cast_add]
      by_cases h1 : sqrt ≤ (sortPair sa0 sb0).1
      · simp only [h1, if_true]; ext <;> simp <;> ring
      · by_cases h2 : sqrt < (sortPair sa0 sb0).2
        · simp only [h1, h2, if_true, if_false]; ext <;> simp <;> ring
        · simp only [h1, h2, if_false]; ext <;> simp <;> ring

/-- the concrete kernel under exact arithmetic meets the hypotheses of the conservation theorems -/
theorem kernStd_frozen (sq : Rat → Rat) (pool : Pool) (row : Row) (sqrt : Nat) (hne : pool.tok0 ≠ pool.tok1)
    (hs : priceToSqrtStd NumCtx.exact pool row.price = .ok sqrt) :
    Frozen (Kern.std NumCtx.exact sq) pool row sqrt (stdA pool sqrt) :=
  { cx := rfl
    sqrt_ok := hs
    amounts := by
      intro lo up l d r h
      simp only [Kern.std, tokenAmountsStd] at h
      unfold stdA
      split at h
      · rename_i hl
        injection h with h; subst h; subst hl
        cases hz : amountsGen NumCtx.exact sqrt lo up 0 false pool.d0 pool.d1 with
        | error e => rfl
        | ok r => simp only []; exact (amountsGen_zero _ _ _ _ _ _ hz).symm
      · rw [amountsGen_dec] at h
        rw [h]
    additive := stdA_additive pool sqrt
    newPos := by
      intro lo up a0 a1 u0 u1 L h
      simp only [Kern.std, newPosStd] at h
      unfold stdA
      split at h
      · cases h
      · split at h
        · cases h
        · split at h
          · cases h
          · rename_i u hu
            injection h with h
            injection h with h0 h
            injection h with h1 h2
            subst h2
            rw [hu, ← h0, ← h1]
    tokens := hne }

end Demeter.Uni

namespace Demeter
open Demeter.Uni

/-- **The conservation theorems apply to the code's kernel.** For the kernel of helper.py / liquitidy_math.py under
    exact arithmetic, any pool with two distinct tokens and any status row whose price has a sqrt price, the
    hypotheses `Frozen` hold with the kernel's own amounts — so `C03_uni_add_conserves`, `C03_uni_remove_conserves`
    and `C03_uni_collect_conserves` are statements about the real liquidity math, not only about abstract kernels. -/
theorem C03_uni_kernel_frozen (sq : Rat → Rat) (pool : Pool) (row : Row) (sqrt : Nat) (hne : pool.tok0 ≠ pool.tok1)
    (hs : priceToSqrtStd NumCtx.exact pool row.price = .ok sqrt) :
    Frozen (Kern.std NumCtx.exact sq) pool row sqrt (stdA pool sqrt) :=
  kernStd_frozen sq pool row sqrt hne hs

end Demeter
