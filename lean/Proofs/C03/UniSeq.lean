/-
  C03, Uniswap part, at sequence level (exact arithmetic, frozen status row): over every list of operations that
  carry no caller-chosen execution price, accepted or rejected, helpers failing half-way included,

  * no holding ever becomes negative (wallet balances, liquidity, uncollected amounts), and
  * the value of the account's holdings in this market never rises by more than the wallet's dust snap: one factor
    `(1 + 1e-5)` per wallet-debiting transaction (`_add_liquidity_by_tick`, `swap`), none for remove / collect /
    transfers — per operation anywhere in a sequence, hence over the whole sequence.

  The property excludes "swaps with a caller-chosen execution price"; `Op.marketPriced` is that exclusion, extended to
  the `sqrt_price_x96` / `tick` arguments of add and remove (`remove_liquidity(sqrt_price_x96 = X)` *does* create
  value: known finding, `C03_uni_fails_remove_chosen_price`; the same argument of add loses value, which an abstract
  kernel cannot show).
-/
import Proofs.Lemmas.UniSeqPrim
import Proofs.C03.UniKernel
import Proofs.C01.UniLent
namespace Demeter.Uni
open Demeter

variable {K : Kern} {pool : Pool} {row : Row} {sqrt : Nat} {A : Int → Int → Int → Rat × Rat}

/-- the primitive calls at the market price: no `sqrt_price_x96`, swaps executed at the row's price -/
def Allow.market (K : Kern) (pool : Pool) : Allow :=
  { addSqrt := fun x => x = none, remSqrt := fun x => x = none, swapPx := FairSwap K pool, transfer := True }

theorem noGain_gstepRel (F : FrozenPos K pool row sqrt A) :
    GStepRel K pool (Allow.market K pool) (NoGain pool row A) :=
  { refl := NoGain.refl
    trans := NoGain.trans
    mono := NoGain.mono F
    record := fun _ _ => NoGain.of_same rfl rfl rfl rfl
    addRaw := fun s a0 a1 lo up sq h => by
      have h : sq = none := h
      subst h; exact addRaw_noGain F s a0 a1 lo up
    collect := collect_noGain F
    remove := fun s lo up l c sq rd h => by
      have h : sq = none := h
      subst h; exact remove_noGain F s lo up l c rd
    swap := fun s a f t p log h => swap_noGain F s a f t p log h
    transferOut := fun _ => transferOut_noGain F
    transferIn := fun _ => transferIn_noGain F
    px_none := fun _ _ => rfl
    px_buy := by
      intro s price hp hne
      show swapPrice K pool s pool.quoteTok (givenPrice (some (K.cx.div 1 price))) = swapPrice K pool s pool.quoteTok none
      have hbq : (pool.quoteTok == pool.baseTok) = false := by
        simpa using (baseTok_ne_quoteTok F.base.tokens).symm
      have hinv : (1 : Rat) / price ≠ 0 := one_div_ne_zero hne
      simp only [swapPrice, givenPrice, hp, hbq, F.base.cx, NumCtx.exact_div, bne_iff_ne, ne_eq, hinv, not_false_eq_true,
        if_true, hne, if_false, Bool.false_eq_true]
    px_sell := by
      intro s price hp
      show swapPrice K pool s pool.baseTok (givenPrice (some price)) = swapPrice K pool s pool.baseTok none
      by_cases h0 : price = 0
      · simp [swapPrice, givenPrice, hp, h0]
      · simp [swapPrice, givenPrice, hp, h0] }

/-- **the property's exclusion**: the operation carries no caller-chosen execution price — no `price` for
    swap / buy / sell (0 counts as not given, as in the code), no `sqrt_price_x96` / `tick` for add and remove.
    (`even_rebalance(price)` only sizes its trade with `price`; it executes at the market price.) -/
def Op.marketPriced : Op → Bool
  | .addRaw _ _ _ _ sq => sq.isNone
  | .addByTick _ _ _ _ sq t _ => sq.isNone && t.isNone
  | .remove _ _ _ _ sq _ => sq.isNone
  | .swap _ _ _ p _ => (givenPrice p).isNone
  | .buy _ p => (givenPrice p).isNone
  | .sell _ p => (givenPrice p).isNone
  | _ => true

theorem allowed_of_marketPriced (op : Op) (h : op.marketPriced = true) : op.allowed (Allow.market K pool) := by
  cases op <;> simp only [Op.marketPriced, Option.isNone_iff_eq_none, Bool.and_eq_true] at h <;>
    simp only [Op.allowed, Allow.market]
  case addRaw => exact h
  case addByTick => exact Or.inl ⟨h.1, h.2, trivial⟩
  case remove => exact h
  case swap => intro s; unfold FairSwap; rw [h]
  case buy => exact Or.inl h
  case sell => exact Or.inl h

/-- in a list with unique keys an entry is what its key finds -/
theorem findPos_of_mem {ps : List Pos} (hn : KeysNodup ps) {p : Pos} (hp : p ∈ ps) : findPos ps p.lower p.upper = some p := by
  induction ps with
  | nil => cases hp
  | cons q qs ih =>
    unfold KeysNodup at hn
    simp only [List.map_cons, List.nodup_cons] at hn
    rw [findPos_cons]
    rcases List.mem_cons.mp hp with e | hm
    · subst e
      have : p.hasKey p.lower p.upper = true := by unfold Pos.hasKey; simp
      rw [this]; rfl
    · have hq : q.hasKey p.lower p.upper = false := by
        by_contra hc
        have hk : q.hasKey p.lower p.upper = true := by simpa using hc
        apply hn.1
        rw [(hasKey_iff q _ _).mp hk]
        exact List.mem_map.mpr ⟨p, hm, rfl⟩
      rw [hq]
      exact ih hn.2 hm

theorem mem_of_findPos {ps : List Pos} {lo up : Int} {p : Pos} (h : findPos ps lo up = some p) : p ∈ ps :=
  List.mem_of_find?_eq_some h

/-! ### the code's kernel -/

theorem uni_truncInt_nonneg {x : Rat} (h : 0 ≤ x) : 0 ≤ truncInt x := by
  unfold truncInt
  exact Int.tdiv_nonneg (Rat.num_nonneg.mpr h) (by exact_mod_cast Nat.zero_le _)

theorem getLiquidity_nonneg (s : Nat) (ta tb : Int) (a0 a1 : Rat) (d0 d1 : Nat) (L : Int) (h0 : 0 ≤ a0) (h1 : 0 ≤ a1)
    (h : getLiquidity NumCtx.exact s ta tb a0 a1 d0 d1 = some L) : 0 ≤ L := by
  unfold getLiquidity at h
  have w0 : 0 ≤ toWei NumCtx.exact a0 d0 := by
    unfold toWei; apply uni_truncInt_nonneg; rw [NumCtx.exact_mul]; exact mul_nonneg h0 (by positivity)
  have w1 : 0 ≤ toWei NumCtx.exact a1 d1 := by
    unfold toWei; apply uni_truncInt_nonneg; rw [NumCtx.exact_mul]; exact mul_nonneg h1 (by positivity)
  have q : ∀ (w : Int) (x y : Nat), 0 ≤ w → 0 ≤ w * (x : Int) / (y : Int) :=
    fun w x y hw => Int.ediv_nonneg (mul_nonneg hw (Int.natCast_nonneg _)) (Int.natCast_nonneg _)
  simp only [] at h
  repeat' split at h
  all_goals first
    | (cases h; done)
    | (cases h; first | exact q _ _ _ w0 | exact q _ _ _ w1)

theorem stdA_nonneg (pool : Pool) (sqrt : Nat) (lo up l : Int) (hl : 0 ≤ l) :
    0 ≤ (stdA pool sqrt lo up l).1 ∧ 0 ≤ (stdA pool sqrt lo up l).2 := by
  have hlr : (0 : Rat) ≤ (l : Rat) := by exact_mod_cast hl
  unfold stdA amountsGen
  cases hlo : sqrtAtE lo with
  | error e => simp
  | ok sa0 =>
    cases hup : sqrtAtE up with
    | error e => simp
    | ok sb0 =>
      simp only [amount0Gen_exact, amount1Gen_exact]
      by_cases h1 : sqrt ≤ (sortPair sa0 sb0).1
      · simp only [h1, if_true]; exact ⟨by positivity, le_refl _⟩
      · by_cases h2 : sqrt < (sortPair sa0 sb0).2
        · simp only [h1, h2, if_true, if_false]; exact ⟨by positivity, by positivity⟩
        · simp only [h1, h2, if_false]; exact ⟨le_refl _, by positivity⟩

theorem kernStd_frozenPos (sq : Rat → Rat) (pool : Pool) (row : Row) (sqrt : Nat) (hne : pool.tok0 ≠ pool.tok1)
    (hs : priceToSqrtStd NumCtx.exact pool row.price = .ok sqrt) (hp : 0 < row.price) (hf0 : 0 ≤ pool.feeRate)
    (hf1 : pool.feeRate ≤ 1) : FrozenPos (Kern.std NumCtx.exact sq) pool row sqrt (stdA pool sqrt) :=
  { base := kernStd_frozen sq pool row sqrt hne hs
    price_pos := hp
    fee_nonneg := hf0
    fee_le_one := hf1
    A_nonneg := stdA_nonneg pool sqrt
    newPos_nonneg := by
      intro lo up a0 a1 u0 u1 L h0 h1 h
      simp only [Kern.std, newPosStd] at h
      split at h
      · cases h
      · split at h
        · cases h
        · rename_i l hl
          split at h
          · cases h
          · injection h with h
            injection h with _ h
            injection h with _ h
            subst h
            exact getLiquidity_nonneg _ _ _ _ _ _ _ _ h0 h1 hl }

end Demeter.Uni

namespace Demeter
open Demeter.Uni

variable {K : Kern} {pool : Pool} {row : Row} {sqrt : Nat} {A : Int → Int → Int → Rat × Rat}

/-- **One operation, anywhere.** From a sound state (frozen row, overdraft not allowed, unique keys, no negative
    holding) every market-priced operation — accepted or rejected, also a helper that fails half-way — ends in a sound
    state whose holdings (wallet + all positions incl. uncollected amounts) are worth at most `(1 + dust)^k` times what
    they were, `k` = the number of wallet-debiting transactions the operation can perform (0 for remove, collect,
    remove-all and the transfers: these never raise the value at all). -/
theorem C03_uni_step_no_value_created (F : FrozenPos K pool row sqrt A) (minError : Rat) (s : State) (op : Op)
    (hs : Sound row s) (hop : op.marketPriced = true) :
    Sound row (step K pool minError s op).2 ∧
    allVal pool row A (step K pool minError s op).2 ≤ (1 + Gen.assetSubDust) ^ op.debits * allVal pool row A s :=
  (noGain_gstepRel F).step minError s op (allowed_of_marketPriced op hop) hs

/-- **No holding negative in any reachable state.** Along every list of market-priced operations the soundness
    invariant is kept: every wallet balance, every position's liquidity and both its uncollected amounts stay ≥ 0
    (and the keys stay unique, the row and the overdraft setting untouched). -/
theorem C03_uni_nonneg_invariant (F : FrozenPos K pool row sqrt A) (minError : Rat) (s : State) (ops : List Op)
    (hs : Sound row s) (hops : ∀ op ∈ ops, op.marketPriced = true) :
    Sound row (runOps K pool minError s ops) ∧
    (∀ k, 0 ≤ bal (runOps K pool minError s ops).wallet k) ∧
    (∀ p ∈ (runOps K pool minError s ops).positions, 0 ≤ p.liq ∧ 0 ≤ p.pending0 ∧ 0 ≤ p.pending1) := by
  have h := ((noGain_gstepRel F).runOps minError ops s (fun op ho => allowed_of_marketPriced op (hops op ho)) hs).1
  exact ⟨h, h.wallet_nonneg, h.pos_nonneg⟩

/-- **No value created over any operation sequence.** The holdings after any list of market-priced operations are
    worth at most `(1 + dust)^n` times the holdings before, `n` = the number of wallet-debiting transactions in the
    list (at most two per operation); `dust` is the generated `Asset.sub` constant, within 1e-21 of the property's
    1e-5. With no add and no swap in the list the value does not rise at all. -/
theorem C03_uni_sequence_no_value_created (F : FrozenPos K pool row sqrt A) (minError : Rat) (s : State) (ops : List Op)
    (hs : Sound row s) (hops : ∀ op ∈ ops, op.marketPriced = true) :
    allVal pool row A (runOps K pool minError s ops) ≤ (1 + Gen.assetSubDust) ^ debitsOf ops * allVal pool row A s ∧
    debitsOf ops ≤ 2 * ops.length ∧ |Gen.assetSubDust - 1 / 100000| < 1 / 10 ^ 21 :=
  ⟨((noGain_gstepRel F).runOps minError ops s (fun op ho => allowed_of_marketPriced op (hops op ho)) hs).2,
   debitsOf_le ops, by unfold Gen.assetSubDust; rw [abs_lt]; constructor <;> norm_num⟩

/-- **… and by no operation anywhere in it**: for every split `ops = before ++ op :: after` the operation `op`,
    executed in the state the prefix leads to, raises the value by at most its own dust factor. -/
theorem C03_uni_no_value_created_anywhere (F : FrozenPos K pool row sqrt A) (minError : Rat) (s : State)
    (before after : List Op) (op : Op) (hs : Sound row s) (hops : ∀ o ∈ before ++ op :: after, o.marketPriced = true) :
    allVal pool row A (step K pool minError (runOps K pool minError s before) op).2 ≤
      (1 + Gen.assetSubDust) ^ op.debits * allVal pool row A (runOps K pool minError s before) := by
  have hb := (C03_uni_nonneg_invariant F minError s before hs
    (fun o ho => hops o (List.mem_append_left _ ho))).1
  exact (C03_uni_step_no_value_created F minError _ op hb
    (hops op (List.mem_append_right _ (List.mem_cons_self ..)))).2

/-- **The reported value.** With no position lent out and no transfer among the operations, what
    `get_market_balance` + the wallet report (`netVal`, the valuation of `C03_uni_*_conserves` and of C01, which skips
    lent positions) is the value of the holdings, before and after: the bound holds for the reported net value. -/
theorem C03_uni_sequence_reported_value (F : FrozenPos K pool row sqrt A) (minError : Rat) (s : State) (ops : List Op)
    (hs : Sound row s) (hops : ∀ op ∈ ops, op.marketPriced = true) (hnt : ∀ op ∈ ops, op.isTransfer = false)
    (hfree : ∀ p ∈ s.positions, p.transferred = false) :
    netVal pool row A (runOps K pool minError s ops) ≤ (1 + Gen.assetSubDust) ^ debitsOf ops * netVal pool row A s := by
  have hinv := (C03_uni_nonneg_invariant F minError s ops hs hops).1
  have hfree' : ∀ p ∈ (runOps K pool minError s ops).positions, p.transferred = false := by
    intro p hp
    have h1 := C01_uni_ops_keep_lent_positions K pool minError s ops hnt p.lower p.upper
    unfold isTransferred at h1
    rw [findPos_of_mem hinv.keys hp] at h1
    simp only [] at h1
    rw [h1]
    cases hf : findPos s.positions p.lower p.upper with
    | none => rfl
    | some q => exact hfree q (mem_of_findPos hf)
  have e1 : netVal pool row A (runOps K pool minError s ops) = allVal pool row A (runOps K pool minError s ops) := by
    unfold netVal allVal; rw [sumOver_eq_sumAll _ _ hfree']
  have e2 : netVal pool row A s = allVal pool row A s := by
    unfold netVal allVal; rw [sumOver_eq_sumAll _ _ hfree]
  rw [e1, e2]
  exact (C03_uni_sequence_no_value_created F minError s ops hs hops).1

/-- **The sequence theorems apply to the code's kernel**: `Kern.std` under exact arithmetic, any pool with two distinct
    tokens and a fee rate in [0, 1], any row with a positive price that has a sqrt price. -/
theorem C03_uni_kernel_frozen_pos (sq : Rat → Rat) (pool : Pool) (row : Row) (sqrt : Nat) (hne : pool.tok0 ≠ pool.tok1)
    (hs : priceToSqrtStd NumCtx.exact pool row.price = .ok sqrt) (hp : 0 < row.price) (hf0 : 0 ≤ pool.feeRate)
    (hf1 : pool.feeRate ≤ 1) : FrozenPos (Kern.std NumCtx.exact sq) pool row sqrt (stdA pool sqrt) :=
  kernStd_frozenPos sq pool row sqrt hne hs hp hf0 hf1

/-! ### non-vacuity -/
namespace Uni

theorem linKern_frozenPos : FrozenPos linKern linPool linRow 5 (fun _ _ l => ((l : Rat) * 5, (l : Rat) * 5)) :=
  { base := linKern_frozen
    price_pos := by decide +kernel
    fee_nonneg := by decide +kernel
    fee_le_one := by decide +kernel
    A_nonneg := by
      intro lo up l hl
      have : (0 : Rat) ≤ (l : Rat) := by exact_mod_cast hl
      constructor <;> simp only [] <;> positivity
    newPos_nonneg := by
      intro lo up a0 a1 u0 u1 L h0 h1 h
      simp only [linKern] at h
      injection h with h
      injection h with _ h
      injection h with _ h
      rw [← h]
      exact Rat.le_floor_iff.mpr (by simpa using div_nonneg h0 (by norm_num : (0 : Rat) ≤ 5)) }

theorem linState_sound : Sound linRow linState :=
  { row_eq := rfl
    noNeg := rfl
    keys := by unfold KeysNodup; decide
    wallet_nonneg := by
      intro k
      unfold bal linState AList.get?
      simp only [List.find?_cons, List.find?_nil]
      repeat' split
      all_goals simp
    pos_nonneg := by
      intro p hp
      simp only [linState, List.mem_singleton] at hp
      subst hp
      decide +kernel }

/-- add, partial remove, collect, swap, rebalance, remove all: market-priced, touching every primitive -/
def seqOps : List Op :=
  [.addRaw 6 6 0 10 none, .remove 0 10 (some 3) false none true, .collect 0 10 (some 1) none true true,
   .swap 1 "a" "b" none true, .evenRebalance none, .addRaw 5 5 10 20 none, .transferOut 10 20, .removeAll]

end Uni

example : (∀ op ∈ seqOps, op.marketPriced = true) ∧ debitsOf seqOps = 4 ∧
    allVal linPool linRow (fun _ _ l => ((l : Rat) * 5, (l : Rat) * 5)) linState = 117 ∧
    allVal linPool linRow (fun _ _ l => ((l : Rat) * 5, (l : Rat) * 5)) (runOps linKern linPool 0 linState seqOps) < 117 ∧
    (runOps linKern linPool 0 linState seqOps).positions.length = 1 := by
  decide +kernel

end Demeter
