/-
  C03, Uniswap part — at a frozen market state: swaps lose exactly the fee, a debit never makes a balance negative
  and snaps at most the stated dust, remove/collect never pay out more than is held.
  Arithmetic statements are for the exact context.
-/
import Demeter.Uni.Step
import Proofs.Lemmas.Exact
import Mathlib.Tactic.Linarith
import Mathlib.Tactic.FieldSimp
import Mathlib.Tactic.Ring
import Mathlib.Tactic.Positivity
import Mathlib.Algebra.Order.Field.Rat
import Mathlib.Data.Rat.Cast.Order
namespace Demeter.Uni
open Demeter

theorem ratAbs_eq_abs (x : Rat) : ratAbs x = |x| := by
  unfold ratAbs; split
  · rename_i h; rw [abs_of_neg h]
  · rename_i h; rw [abs_of_nonneg (not_lt.mp h)]

theorem assetDust_pos : 0 < assetDust := by unfold assetDust Gen.assetSubDust; norm_num

/-- `Asset.sub` under exact arithmetic, overdraft not allowed: the new balance is the exact difference, or 0 when
    the difference is within the dust fraction of the balance (of the amount, if the balance is 0) -/
theorem assetSub_exact {b a b' : Rat} (h : assetSub NumCtx.exact b a false = some b') :
    (b' = b - a ∧ 0 ≤ b - a) ∨
    (b' = 0 ∧ |b - a| < assetDust * |if b ≠ 0 then b else a|) ∨ (b' = b ∧ b = 0 ∧ a = 0) := by
  unfold assetSub at h
  simp only [Bool.false_eq_true, if_false] at h
  generalize hbase : (if b ≠ 0 then b else a) = base at h ⊢
  split at h
  · rename_i hb0
    injection h with h
    right; right
    by_cases hb : b ≠ 0
    · rw [if_pos hb] at hbase; exact absurd (hbase.trans hb0) hb
    · have hb' : b = 0 := not_not.mp hb
      rw [if_neg hb] at hbase
      exact ⟨h.symm, hb', hbase.trans hb0⟩
  · rename_i hb0
    split at h
    · rename_i hd
      injection h with h
      right; left
      refine ⟨h.symm, ?_⟩
      rw [NumCtx.exact_div, NumCtx.exact_sub, ratAbs_eq_abs, abs_div] at hd
      have hpos : 0 < |base| := abs_pos.mpr hb0
      calc |b - a| = |b - a| / |base| * |base| := by field_simp
        _ < assetDust * |base| := mul_lt_mul_of_pos_right hd hpos
    · split at h
      · cases h
      · rename_i hneg
        injection h with h
        rw [NumCtx.exact_sub] at h hneg
        left; exact ⟨h.symm, not_lt.mp hneg⟩

end Demeter.Uni

namespace Demeter
open Demeter.Uni

/-- **No negative balance, at most the stated dust.** A debit that the wallet accepts (overdraft not allowed)
    leaves a balance that is non-negative whenever the balance before was, and differs from `balance − amount` by
    less than `1e-5` (the float literal of `Asset.sub`, from the generated constants) of the balance it touches. -/
theorem C03_uni_debit_dust (b a b' : Rat) (hb : 0 ≤ b) (h : assetSub NumCtx.exact b a false = some b') :
    0 ≤ b' ∧ |b' - (b - a)| < Gen.assetSubDust * (if b ≠ 0 then b else |a|) + (if b = 0 ∧ a = 0 then 1 else 0) ∧
    Gen.assetSubDust = (5902958103587057 : Rat) / 590295810358705651712 ∧
    |Gen.assetSubDust - 1 / 100000| < 1 / 10 ^ 21 := by
  have hd : assetDust = Gen.assetSubDust := rfl
  refine ⟨?_, ?_, rfl, by unfold Gen.assetSubDust; rw [abs_lt]; constructor <;> norm_num⟩
  · rcases assetSub_exact h with ⟨e, hn⟩ | ⟨e, _⟩ | ⟨e, hb0, _⟩
    · rw [e]; exact hn
    · rw [e]
    · rw [e]; exact hb
  · rcases assetSub_exact h with ⟨e, hn⟩ | ⟨e, hlt⟩ | ⟨e, hb0, ha0⟩
    · rw [e, sub_self, abs_zero]
      have : 0 ≤ Gen.assetSubDust * (if b ≠ 0 then b else |a|) := by
        rw [← hd]; apply mul_nonneg (le_of_lt assetDust_pos); split
        · exact hb
        · exact abs_nonneg a
      by_cases hz : b = 0 ∧ a = 0
      · rw [if_pos hz]; linarith
      · rw [if_neg hz, add_zero]
        rcases lt_or_eq_of_le this with h1 | h1
        · exact h1
        · exfalso
          have hmz := (mul_eq_zero.mp h1.symm).resolve_left (by rw [← hd]; exact ne_of_gt assetDust_pos)
          by_cases hbz : b ≠ 0
          · rw [if_pos hbz] at hmz; exact hbz hmz
          · rw [if_neg hbz] at hmz; exact hz ⟨not_not.mp hbz, abs_eq_zero.mp hmz⟩
    · rw [e, zero_sub, abs_neg]
      have : (|if b ≠ 0 then b else a| : Rat) = (if b ≠ 0 then b else |a|) := by
        split
        · exact abs_of_nonneg hb
        · rfl
      rw [this, hd] at hlt
      have h01 : (0 : Rat) ≤ (if b = 0 ∧ a = 0 then 1 else 0) := by split <;> norm_num
      linarith
    · rw [e, hb0, ha0]; simp

/-- **Swaps lose exactly the fee.** An accepted `swap` at the market price (no caller-chosen price) debits the
    spent token by the requested amount (up to the wallet's own dust snap, see `C03_uni_debit_dust`) and credits
    `(amount − fee) × price` of the other, `fee = amount × fee_rate`, `price` = the market price (base→quote) or
    its reciprocal (quote→base): valued at that price the two legs differ by exactly the fee. -/
theorem C03_uni_swap_loses_fee (K : Kern) (hK : K.cx = NumCtx.exact) (pool : Pool) (s : State) (amount : Rat)
    (fromTok toTok : String) (log : Bool) (fee got : Rat) (s' : State)
    (h : swap K pool s amount fromTok toTok none log = (.ok (fee, got), s')) :
    fee = amount * pool.feeRate ∧
    ∃ row, s.row = some row ∧
      (fromTok = pool.baseTok → got = (amount - fee) * row.price) ∧
      (fromTok ≠ pool.baseTok → row.price ≠ 0 ∧ got * row.price = amount - fee) ∧
      (∃ w1, debit NumCtx.exact s.wallet fromTok amount s.allowNeg = .ok w1 ∧
        s'.wallet = Wallet.credit NumCtx.exact w1 toTok got) ∧ 0 ≤ amount := by
  unfold swap at h
  split at h
  · cases h
  · split at h
    · cases h
    · split at h
      · cases h
      · rename_i hneg
        split at h
        · cases h
        · rename_i price hp
          simp only [] at h
          split at h
          · cases h
          · rename_i w1 hd
            injection h with h1 h2
            injection h1 with h1
            injection h1 with hfee hgot
            rw [hK] at hfee hgot hd h2
            simp only [NumCtx.exact_mul, NumCtx.exact_sub] at hfee hgot h2
            refine ⟨hfee.symm, ?_⟩
            unfold swapPrice givenPrice at hp
            simp only [] at hp
            cases hrow : s.row with
            | none => simp [priceOf, hrow] at hp
            | some row =>
              simp only [priceOf, hrow] at hp
              refine ⟨row, rfl, ?_, ?_, ⟨w1, hd, ?_⟩, not_lt.mp hneg⟩
              · intro hb
                have : (fromTok == pool.baseTok) = true := by simp [hb]
                rw [if_pos this] at hp
                injection hp with hp
                rw [← hgot, ← hfee, hp]
              · intro hb
                have : ¬ (fromTok == pool.baseTok) = true := by simp [hb]
                rw [if_neg this] at hp
                split at hp
                · cases hp
                · rename_i hne
                  injection hp with hp
                  rw [hK, NumCtx.exact_div] at hp
                  refine ⟨hne, ?_⟩
                  rw [← hgot, ← hfee, ← hp]
                  field_simp
              · rw [← h2]
                split <;> simp only [Uni.record] <;> rw [← hgot]

/-- **No over-redemption (remove).** The liquidity `remove_liquidity` takes out of a position never exceeds what
    the position holds, for every requested amount (including more than held): the position keeps a
    non-negative liquidity. -/
theorem C03_uni_remove_bounded (l : Option Int) (p : Pos) (hl : negLiq l = false) (hp : 0 ≤ p.liq) :
    0 ≤ (removeDelta l p).1 ∧ (removeDelta l p).1 ≤ p.liq := by
  unfold removeDelta
  cases l with
  | none => exact ⟨hp, le_refl _⟩
  | some x =>
    have hx : 0 ≤ x := by simpa [negLiq] using hl
    simp only []
    split
    · rename_i h; exact ⟨hx, le_of_lt h⟩
    · exact ⟨hp, le_refl _⟩

/-- **No over-redemption (collect).** What `collect_fee` pays out of a pending amount never exceeds it, for every
    cap (including caps above the pending amount); the pending amount stays non-negative. -/
theorem C03_uni_collect_bounded (m : Option Rat) (pending : Rat) (hm : negGiven m = false) (hp : 0 ≤ pending) :
    0 ≤ capAt m pending ∧ capAt m pending ≤ pending ∧ 0 ≤ NumCtx.exact.sub pending (capAt m pending) := by
  have key : 0 ≤ capAt m pending ∧ capAt m pending ≤ pending := by
    unfold capAt
    cases m with
    | none => exact ⟨hp, le_refl _⟩
    | some x =>
      have hx : 0 ≤ x := by
        simp only [negGiven, Bool.and_eq_false_iff, bne_eq_false_iff_eq, decide_eq_false_iff_not, not_lt] at hm
        rcases hm with h | h
        · rw [h]
        · exact h
      simp only []
      split
      · rename_i h; exact ⟨hx, le_of_lt h⟩
      · exact ⟨hp, le_refl _⟩
  exact ⟨key.1, key.2, by rw [NumCtx.exact_sub]; linarith [key.2]⟩

end Demeter

/-! ### non-vacuity -/
namespace Demeter
open Demeter.Uni

/-- a debit that is accepted exactly, one that snaps to zero (within 1e-5 of the balance), one that is refused -/
example : assetSub NumCtx.exact 10 4 false = some 6 ∧ assetSub NumCtx.exact 10 (10 - 1 / 1000000) false = some 0 ∧
    assetSub NumCtx.exact 10 11 false = none := by decide +kernel

/-- caps and liquidity requests beyond what is held are clamped (hypotheses of the two `…_bounded` theorems hold) -/
example : capAt (some 50) 7 = 7 ∧ negGiven (some 50) = false ∧
    removeDelta (some 1000) { (default : Pos) with liq := 5 } = (5, false) ∧ negLiq (some 1000) = false := by
  decide +kernel

end Demeter
