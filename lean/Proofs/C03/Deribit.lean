/-
  C03 (Deribit part) — placeholder while the harness is brought up; real theorems follow.
-/
import Proofs.Lemmas.Deribit
namespace Demeter
open Demeter.Deribit

/-- an accepted withdrawal never takes more than the cash held (every context) -/
theorem C03_deribit_withdraw_bounded (cx : DCtx) (c : TokenCfg) (s s' : DState) (a : Rat) (r : Res)
    (h : withdraw cx c s a = (.ok r, s')) : 0 ≤ a ∧ 0 ≤ s'.cash ∧ s'.cash = cx.num.sub s.cash a := by
  unfold withdraw at h
  split at h
  · simp at h
  · rename_i hneg
    simp only [] at h
    split at h
    · simp at h
    · rename_i hl
      simp only [Prod.mk.injEq] at h
      obtain ⟨_, hs⟩ := h
      subst hs
      exact ⟨not_lt.mp hneg, not_lt.mp hl, rfl⟩

end Demeter
