/-
  C03 (Deribit part) — at a frozen market state with bids ≤ mark ≤ asks no sequence of buy / sell / deposit /
  withdraw, accepted or rejected, raises the account value beyond wallet dust; cash, wallet and option amounts
  never become negative; a sell never pays for more than is held.

  Model: Demeter/Deribit.lean (repaired code: /repo 4fb272a 1e18c04 sell checks the holding first, 409c53b
  negative deposits/withdrawals rejected).  Value = wallet(token) + exchange cash + Σ amount × round(mark), the
  valuation `get_market_balance` itself uses (C15_equity).  Exact arithmetic (`DCtx.exact`).

  Finding D-8: the value theorems take `FrozenOK` (bids ≤ ROUND(mark) ≤ asks).  On the property's own raw quantifier
  (`FrozenRaw`, bids ≤ mark ≤ asks) they hold under `MarkOnGrid` or `PricesOnGrid` (`…_ongrid_partial`, `…_pricegrid_partial`)
  and fail without (`C03_deribit_fails_offgrid_mark`, `…_sell`); the non-negativity and over-redemption parts need neither.
-/
import Proofs.Lemmas.DeribitValue
namespace Demeter
open Demeter.Deribit

namespace Deribit
/-- wallet balance of the market's token -/
def walletBal (c : TokenCfg) (s : DState) : Rat := (AList.get? s.wallet c.token).getD 0

/-- what the account is worth in the market's token: wallet + exchange cash + options at (rounded) mark -/
def acctValue (c : TokenCfg) (s : DState) : Rat := walletBal c s + s.cash + markValue c s.book s.positions

/-- the frozen market data the property allows: books with non-negative sizes (sides may be unsorted and may repeat a
    price: orders are matched against the normalised side) and bids ≤ mark ≤ asks, with the mark as the
    valuation uses it (rounded to the fee step), non-negative marks and bid prices -/
structure FrozenOK (c : TokenCfg) (book : List Instr) : Prop where
  inv : BookInv book
  mark_nonneg : ∀ i ∈ book, 0 ≤ i.mark
  asks_ge : ∀ i ∈ book, ∀ l ∈ i.asks, roundDec c.feeExp i.mark ≤ l.price
  bids_le : ∀ i ∈ book, ∀ l ∈ i.bids, l.price ≤ roundDec c.feeExp i.mark
  bids_nonneg : ∀ i ∈ book, ∀ l ∈ i.bids, 0 ≤ l.price

/-- positions dict in good shape: unique keys, every record filed under its own instrument name -/
def PosInv (s : DState) : Prop := (s.positions.map Prod.fst).Nodup ∧ ∀ kp ∈ s.positions, kp.2.name = kp.1

theorem get_mem {m : AList String Position} {k : String} {p : Position} (h : AList.get? m k = some p) : (k, p) ∈ m := by
  simp only [AList.get?, Option.map_eq_some_iff] at h
  obtain ⟨kp, hfind, rfl⟩ := h
  have hm := List.mem_of_find?_eq_some hfind
  have hk := List.find?_some hfind
  simp only [decide_eq_true_eq] at hk
  rw [← hk]; exact hm

theorem tradeFee_nonneg (c : TokenCfg) (hc : 0 ≤ c.tradeFee) (a p : Rat) (ha : 0 ≤ a) (hp : 0 ≤ p) :
    0 ≤ tradeFee DCtx.exact c a p := by
  unfold tradeFee
  apply roundDec_nonneg
  simp only [exact_num, NumCtx.exact_mul]
  have hm : (0 : Rat) ≤ maxFeeRate := by rw [C15_constants.2.2.1]; norm_num
  exact le_min (mul_nonneg hc ha) (mul_nonneg hm hp)

/-- the constraints of the frozen data carry over to the normalised copy of a row that orders are matched against
    (its prices are prices of the raw sides, its mark is the row's mark) -/
theorem frozen_norm {c : TokenCfg} {book : List Instr} (hf : FrozenOK c book) {i0 : Instr} (hm : i0 ∈ book) :
    SideOk (normInstr DCtx.exact i0).asks ∧ SideOk (normInstr DCtx.exact i0).bids ∧
    0 ≤ (normInstr DCtx.exact i0).mark ∧
    (∀ l ∈ (normInstr DCtx.exact i0).asks, roundDec c.feeExp (normInstr DCtx.exact i0).mark ≤ l.price) ∧
    (∀ l ∈ (normInstr DCtx.exact i0).bids, l.price ≤ roundDec c.feeExp (normInstr DCtx.exact i0).mark) ∧
    (∀ l ∈ (normInstr DCtx.exact i0).bids, 0 ≤ l.price) := by
  refine ⟨sideOk_normSide (hf.inv i0 hm).1, sideOk_normSide (hf.inv i0 hm).2, hf.mark_nonneg i0 hm, ?_, ?_, ?_⟩
  · intro l hl
    obtain ⟨l0, h0, hp⟩ := normSide_mem_price hl
    rw [← hp]; exact hf.asks_ge i0 hm l0 h0
  · intro l hl
    obtain ⟨l0, h0, hp⟩ := normSide_mem_price hl
    rw [← hp]; exact hf.bids_le i0 hm l0 h0
  · intro l hl
    obtain ⟨l0, h0, hp⟩ := normSide_mem_price hl
    rw [← hp]; exact hf.bids_nonneg i0 hm l0 h0

/-- the part of the frozen-data constraint that does not mention the mark: non-negative sizes and bid prices.  It is all that
    "nothing becomes negative" and "no over-redemption" need — those hold for every mark, on or off the fee grid. -/
structure BookSane (book : List Instr) : Prop where
  inv : BookInv book
  bids_nonneg : ∀ i ∈ book, ∀ l ∈ i.bids, 0 ≤ l.price

theorem FrozenOK.sane {c : TokenCfg} {book : List Instr} (hf : FrozenOK c book) : BookSane book := ⟨hf.inv, hf.bids_nonneg⟩

theorem sane_norm {book : List Instr} (hf : BookSane book) {i0 : Instr} (hm : i0 ∈ book) :
    SideOk (normInstr DCtx.exact i0).bids ∧ (∀ l ∈ (normInstr DCtx.exact i0).bids, 0 ≤ l.price) := by
  refine ⟨sideOk_normSide (hf.inv i0 hm).2, ?_⟩
  intro l hl
  obtain ⟨l0, h0, hp⟩ := normSide_mem_price hl
  rw [← hp]; exact hf.bids_nonneg i0 hm l0 h0
end Deribit

/-- **a buy never creates value** (exact arithmetic, asks ≥ mark): the account value drops by the fee and
    by what was paid above mark -/
theorem C03_deribit_buy_no_value_created (c : TokenCfg) (hc : 0 ≤ c.tradeFee) (s s' : DState) (r : Req) (res : Res)
    (hf : FrozenOK c s.book) (hp : PosInv s) (h : buy DCtx.exact c s r = (.ok res, s')) :
    acctValue c s' ≤ acctValue c s := by
  obtain ⟨_, ck, hck, fills, prem, fee, hfills, hprem, hfee, _, hcash, _, hs'⟩ := buy_ok h
  obtain ⟨⟨ins0, hfind, hnorm⟩, _, _, _, _⟩ := checkTx_ok hck
  have hmem := findInstr_mem hfind
  obtain ⟨hside, _, hmark0, hage, _, _⟩ := frozen_norm hf hmem
  rw [← hnorm] at hside hmark0 hage
  have hmark : ins0.mark = ck.ins.mark := by rw [hnorm]; rfl
  obtain ⟨f, hfl⟩ := availAsks_filter ck.ins r.mult
  obtain ⟨hsum, hnn, hall⟩ := fills_props hck ck.ins.asks f (by simp [availSide, hfl]) hside
  rw [← hfl, ← hfills] at hsum hall
  set mR := roundDec c.feeExp ck.ins.mark with hmR
  have hmR0 : 0 ≤ mR := roundDec_nonneg _ hmark0
  have hge : ∀ x ∈ fills, 0 ≤ x.amount ∧ mR ≤ x.price := by
    intro x hx
    obtain ⟨h0, l, hl, _, hpe⟩ := hall x hx
    exact ⟨h0, hpe ▸ hage l hl⟩
  have hcost : mR * ck.amount ≤ fillCost fills := by rw [← hsum]; exact fillCost_ge fills mR hge
  have hcost0 : 0 ≤ fillCost fills := fillCost_nonneg fills (fun x hx => ⟨(hge x hx).1, le_trans hmR0 (hge x hx).2⟩)
  rw [premiumOf_exact] at hprem
  have hfee0 : 0 ≤ fee := by rw [hfee, hprem]; exact tradeFee_nonneg c hc _ _ hnn hcost0
  -- value of the positions
  have hname : ∀ p, AList.get? s.positions r.name = some p → p.name = r.name := fun p hg => hp.2 _ (get_mem hg)
  have hpos : markValue c s'.book s'.positions = markValue c s.book s.positions + ck.amount * mR := by
    rw [hs']
    simp only []
    rw [markValue_setAsks, markValue_set c s.book s.positions r.name _ hp.1]
    unfold heldValue boughtPosition
    cases hg : AList.get? s.positions r.name with
    | none => simp only [posValue, hfind, hmark]; ring
    | some p =>
      simp only [posValue, hname p hg, hfind, hmark, exact_num, NumCtx.exact_add]; ring
  have hw : walletBal c s' = walletBal c s := by rw [hs']; rfl
  unfold acctValue
  rw [hpos, hw, hcash, hprem]
  simp only [exact_num, NumCtx.exact_sub, NumCtx.exact_add]
  nlinarith

/-- **a sell never creates value** (exact arithmetic, bids ≤ mark) -/
theorem C03_deribit_sell_no_value_created (c : TokenCfg) (hc : 0 ≤ c.tradeFee) (s s' : DState) (r : Req) (res : Res)
    (hf : FrozenOK c s.book) (hp : PosInv s) (h : sell DCtx.exact c s r = (.ok res, s')) :
    acctValue c s' ≤ acctValue c s := by
  obtain ⟨_, ck, p, bids, hck, hget, hle, hbids, fills, prem, fee, hfills, hprem, hfee, _, hs'⟩ := sell_ok h
  obtain ⟨⟨ins0, hfind, hnorm⟩, _, _, _, _⟩ := checkTx_ok hck
  have hmem := findInstr_mem hfind
  obtain ⟨_, hside, _, _, hble, hbnn⟩ := frozen_norm hf hmem
  rw [← hnorm] at hside hble hbnn
  have hmark : ins0.mark = ck.ins.mark := by rw [hnorm]; rfl
  obtain ⟨f, hfl⟩ := availBids_filter hbids
  obtain ⟨hsum, hnn, hall⟩ := fills_props hck ck.ins.bids f (by simp [availSide, hbids, hfl]) hside
  rw [← hfl, ← hfills] at hsum hall
  set mR := roundDec c.feeExp ck.ins.mark with hmR
  have hle' : ∀ x ∈ fills, 0 ≤ x.amount ∧ x.price ≤ mR := by
    intro x hx
    obtain ⟨h0, l, hl, _, hpe⟩ := hall x hx
    exact ⟨h0, hpe ▸ hble l hl⟩
  have hcost : fillCost fills ≤ mR * ck.amount := by rw [← hsum]; exact fillCost_le fills mR hle'
  have hcost0 : 0 ≤ fillCost fills := fillCost_nonneg fills (fun x hx => by
    obtain ⟨h0, l, hl, _, hpe⟩ := hall x hx
    exact ⟨h0, hpe ▸ hbnn l hl⟩)
  rw [premiumOf_exact] at hprem
  have hfee0 : 0 ≤ fee := by rw [hfee, hprem]; exact tradeFee_nonneg c hc _ _ hnn hcost0
  have hname : p.name = r.name := hp.2 _ (get_mem hget)
  have hpos : markValue c s'.book s'.positions = markValue c s.book s.positions - ck.amount * mR := by
    rw [hs']
    simp only []
    rw [markValue_setBids]
    have hheld : heldValue c s.book s.positions r.name = p.amount * mR := by
      simp only [heldValue, hget, posValue, hname, hfind, hmark, hmR]
    split
    · rename_i hz
      simp only [soldPosition, exact_num, NumCtx.exact_sub] at hz
      have : p.amount = ck.amount := le_antisymm (by linarith) hle
      rw [markValue_erase c s.book s.positions r.name hp.1, hheld, this]
    · rw [markValue_set c s.book s.positions r.name _ hp.1, hheld]
      simp only [posValue, soldPosition, hname, hfind, hmark, exact_num, NumCtx.exact_sub]
      ring
  have hw : walletBal c s' = walletBal c s := by rw [hs']; rfl
  have hcash : s'.cash = s.cash + (fillCost fills - fee) := by rw [hs', hprem]; simp
  unfold acctValue
  rw [hpos, hw, hcash]
  nlinarith


/-- **a deposit creates at most wallet dust** (exact arithmetic): `Asset.sub` snaps a remainder below 1e-5 of
    the balance to zero, so the exchange may receive up to `dust × |wallet balance|` more than the wallet gave -/
theorem C03_deribit_deposit_dust (c : TokenCfg) (s s' : DState) (a : Rat) (res : Res)
    (h : deposit DCtx.exact c s a = (.ok res, s')) :
    acctValue c s' ≤ acctValue c s + assetDust * |walletBal c s| ∧ 0 ≤ a := by
  unfold deposit at h
  split at h
  · simp at h
  · rename_i hneg
    split at h
    · simp at h
    · simp at h
    · rename_i w hw
      simp only [Prod.mk.injEq] at h
      obtain ⟨_, hs⟩ := h
      subst hs
      refine ⟨?_, not_lt.mp hneg⟩
      simp only [acctValue, walletBal, exact_num, NumCtx.exact_add]
      unfold Wallet.debit at hw
      cases hg : AList.get? s.wallet c.token with
      | some b =>
        simp only [hg] at hw
        split at hw
        · rename_i b' hsub
          simp only [Except.ok.injEq] at hw
          subst hw
          rw [alist_get_set]
          simp only [Option.getD_some]
          have := (assetSub_exact hsub).1
          linarith
        · simp at hw
      | none =>
        simp only [hg] at hw
        split at hw
        · simp only [Except.ok.injEq] at hw
          subst hw
          rw [alist_get_set]
          simp only [Option.getD_some, Option.getD_none, abs_zero, mul_zero]
          linarith
        · simp at hw

/-- **a withdrawal moves value, it creates none**, and it never takes more than the cash held -/
theorem C03_deribit_withdraw_conserves (c : TokenCfg) (s s' : DState) (a : Rat) (res : Res)
    (h : withdraw DCtx.exact c s a = (.ok res, s')) :
    acctValue c s' = acctValue c s ∧ 0 ≤ a ∧ a ≤ s.cash ∧ 0 ≤ s'.cash := by
  unfold withdraw at h
  split at h
  · simp at h
  · rename_i hneg
    simp only [] at h
    split at h
    · simp at h
    · rename_i hl
      simp only [Prod.mk.injEq] at h
      obtain ⟨_, hs⟩ := h
      subst hs
      simp only [exact_num, NumCtx.exact_sub] at hl ⊢
      refine ⟨?_, not_lt.mp hneg, by linarith [not_lt.mp hl], not_lt.mp hl⟩
      simp only [acctValue, walletBal, Wallet.credit, assetAdd, NumCtx.exact_add]
      cases hg : AList.get? s.wallet c.token with
      | some b => simp only [alist_get_set, Option.getD_some]; ring
      | none => simp only [alist_get_set, Option.getD_some, Option.getD_none]; ring

/-! ### the invariants travel along a sequence -/

namespace Deribit

/-- what the user can call (the frozen-market operations of the property; `update` is the bar loop's) -/
def Op.isUser : Op → Bool
  | .update => false
  | _ => true

/-- instrument names unique -/
def NamesNodup (book : List Instr) : Prop := (book.map (·.name)).Nodup

theorem findInstr_unique {book : List Instr} (hn : NamesNodup book) {i j : Instr} (hi : findInstr book i.name = some j)
    (hmem : i ∈ book) : j = i :=
  List.inj_on_of_nodup_map hn (findInstr_mem hi) hmem (by
    have := List.find?_some hi; simpa using this)

theorem setAsks_names (book : List Instr) (n : String) (ls : List Level) :
    (setAsks book n ls).map (·.name) = book.map (·.name) := by
  unfold setAsks; rw [List.map_map]; apply List.map_congr_left; intro i _; simp only [Function.comp]; split <;> rfl
theorem setBids_names (book : List Instr) (n : String) (ls : List Level) :
    (setBids book n ls).map (·.name) = book.map (·.name) := by
  unfold setBids; rw [List.map_map]; apply List.map_congr_left; intro i _; simp only [Function.comp]; split <;> rfl

theorem prices_of_new {cx : DCtx} {old : List Level} {fs : List Fill} {l : Level} (hl : l ∈ newOrderList cx old fs) :
    ∃ l0 ∈ old, l.price = l0.price := by
  have : l.price ∈ (newOrderList cx old fs).map (·.price) := List.mem_map_of_mem (f := (·.price)) hl
  rw [newOrderList_prices] at this
  obtain ⟨l0, hl0, hp⟩ := List.mem_map.mp this
  exact ⟨l0, hl0, hp.symm⟩

/-- frozen data stays within the property's constraint when fills are written back: prices, marks and names
    do not move -/
theorem frozenOK_step (c : TokenCfg) (s : DState) (op : Op) (hf : FrozenOK c s.book) (hn : NamesNodup s.book) :
    FrozenOK c (step DCtx.exact c s op).2.book ∧ NamesNodup (step DCtx.exact c s op).2.book := by
  have hinv := step_bookInv c s op hf.inv
  cases op with
  | buy r =>
    rcases hb : buy DCtx.exact c s r with ⟨o, s'⟩
    cases o with
    | error e => simp only [step, hb]; rw [buy_err hb]; exact ⟨hf, hn⟩
    | ok res =>
      obtain ⟨_, ck, hck, fills, _, _, _, _, _, _, _, _, hs'⟩ := buy_ok hb
      obtain ⟨ins0, hfind, hnorm⟩ := (checkTx_ok hck).1
      simp only [step, hb] at hinv ⊢
      have hbook : s'.book = setAsks s.book r.name (newOrderList DCtx.exact ck.ins.asks fills) := by rw [hs']
      rw [hbook] at hinv ⊢
      refine ⟨⟨hinv, ?_, ?_, ?_, ?_⟩, by unfold NamesNodup; rw [setAsks_names]; exact hn⟩
      all_goals
        intro i hi
        obtain ⟨i0, hi0, rfl⟩ := List.mem_map.mp hi
      · split <;> exact hf.mark_nonneg i0 hi0
      · split
        · rename_i hname
          have hck0 : ins0 = i0 := findInstr_unique hn (hname ▸ hfind) hi0
          intro l hl
          obtain ⟨l0, hl0, hp⟩ := prices_of_new hl
          rw [hnorm, hck0] at hl0
          obtain ⟨l00, hl00, hp0⟩ := normSide_mem_price hl0
          rw [hp, ← hp0]; exact hf.asks_ge i0 hi0 l00 hl00
        · exact hf.asks_ge i0 hi0
      · split <;> exact hf.bids_le i0 hi0
      · split <;> exact hf.bids_nonneg i0 hi0
  | sell r =>
    rcases hb : sell DCtx.exact c s r with ⟨o, s'⟩
    cases o with
    | error e => simp only [step, hb]; rw [sell_err hb]; exact ⟨hf, hn⟩
    | ok res =>
      obtain ⟨_, ck, p, bids, hck, _, _, _, fills, _, _, _, _, _, _, hs'⟩ := sell_ok hb
      obtain ⟨ins0, hfind, hnorm⟩ := (checkTx_ok hck).1
      simp only [step, hb] at hinv ⊢
      have hbook : s'.book = setBids s.book r.name (newOrderList DCtx.exact ck.ins.bids fills) := by rw [hs']
      rw [hbook] at hinv ⊢
      refine ⟨⟨hinv, ?_, ?_, ?_, ?_⟩, by unfold NamesNodup; rw [setBids_names]; exact hn⟩
      all_goals
        intro i hi
        obtain ⟨i0, hi0, rfl⟩ := List.mem_map.mp hi
      · split <;> exact hf.mark_nonneg i0 hi0
      · split <;> exact hf.asks_ge i0 hi0
      · split
        · rename_i hname
          have hck0 : ins0 = i0 := findInstr_unique hn (hname ▸ hfind) hi0
          intro l hl
          obtain ⟨l0, hl0, hp⟩ := prices_of_new hl
          rw [hnorm, hck0] at hl0
          obtain ⟨l00, hl00, hp0⟩ := normSide_mem_price hl0
          rw [hp, ← hp0]; exact hf.bids_le i0 hi0 l00 hl00
        · exact hf.bids_le i0 hi0
      · split
        · rename_i hname
          have hck0 : ins0 = i0 := findInstr_unique hn (hname ▸ hfind) hi0
          intro l hl
          obtain ⟨l0, hl0, hp⟩ := prices_of_new hl
          rw [hnorm, hck0] at hl0
          obtain ⟨l00, hl00, hp0⟩ := normSide_mem_price hl0
          rw [hp, ← hp0]; exact hf.bids_nonneg i0 hi0 l00 hl00
        · exact hf.bids_nonneg i0 hi0
  | deposit a =>
    have : (step DCtx.exact c s (.deposit a)).2.book = s.book := by
      simp only [step, deposit]; split
      · rfl
      · split <;> rfl
    rw [this]; exact ⟨hf, hn⟩
  | withdraw a =>
    have : (step DCtx.exact c s (.withdraw a)).2.book = s.book := by
      simp only [step, withdraw]; split
      · rfl
      · split <;> rfl
    rw [this]; exact ⟨hf, hn⟩
  | balance =>
    have : (step DCtx.exact c s .balance).2.book = s.book := by
      simp only [step, getMarketBalance]; split
      · rfl
      · split
        · rfl
        · split <;> rfl
    rw [this]; exact ⟨hf, hn⟩
  | update =>
    have : (step DCtx.exact c s .update).2.book = s.book := by
      simp only [step, update]; split <;> simp [exercise]
    rw [this]; exact ⟨hf, hn⟩

/-- the positions dict stays in good shape under the user's operations -/
theorem posInv_step (c : TokenCfg) (s : DState) (op : Op) (hu : op.isUser = true) (hp : PosInv s) :
    PosInv (step DCtx.exact c s op).2 := by
  cases op with
  | buy r =>
    rcases hb : buy DCtx.exact c s r with ⟨o, s'⟩
    cases o with
    | error e => simp only [step, hb]; rw [buy_err hb]; exact hp
    | ok res =>
      obtain ⟨_, ck, hck, fills, _, _, _, _, _, _, _, _, hs'⟩ := buy_ok hb
      simp only [step, hb]
      have hpos : s'.positions = AList.set s.positions r.name
          (boughtPosition DCtx.exact (AList.get? s.positions r.name) r ck (avgPrice DCtx.exact fills)) := by rw [hs']
      refine ⟨by rw [hpos]; exact alist_keys_set _ _ _ hp.1, ?_⟩
      intro kp hkp
      rw [hpos] at hkp
      rcases alist_mem_set _ _ _ _ hkp with h | h
      · rw [h]
        simp only [boughtPosition]
        cases hg : AList.get? s.positions r.name with
        | none => rfl
        | some p => exact hp.2 _ (get_mem hg)
      · exact hp.2 kp h
  | sell r =>
    rcases hb : sell DCtx.exact c s r with ⟨o, s'⟩
    cases o with
    | error e => simp only [step, hb]; rw [sell_err hb]; exact hp
    | ok res =>
      obtain ⟨_, ck, p, bids, hck, hget, _, _, fills, _, _, _, _, _, _, hs'⟩ := sell_ok hb
      simp only [step, hb]
      rw [hs']
      show PosInv { s with positions := _, cash := _, book := _, actions := _, cache := _ }
      unfold PosInv
      simp only []
      split
      · refine ⟨List.Nodup.sublist (List.Sublist.map _ List.filter_sublist) hp.1, ?_⟩
        intro kp hkp
        exact hp.2 kp (List.mem_filter.mp hkp).1
      · refine ⟨alist_keys_set _ _ _ hp.1, ?_⟩
        intro kp hkp
        rcases alist_mem_set _ _ _ _ hkp with h | h
        · rw [h]; exact hp.2 (r.name, p) (get_mem hget)
        · exact hp.2 kp h
  | deposit a =>
    have : (step DCtx.exact c s (.deposit a)).2.positions = s.positions := by
      simp only [step, deposit]; split
      · rfl
      · split <;> rfl
    exact ⟨by rw [this]; exact hp.1, by rw [this]; exact hp.2⟩
  | withdraw a =>
    have : (step DCtx.exact c s (.withdraw a)).2.positions = s.positions := by
      simp only [step, withdraw]; split
      · rfl
      · split <;> rfl
    exact ⟨by rw [this]; exact hp.1, by rw [this]; exact hp.2⟩
  | balance =>
    have : (step DCtx.exact c s .balance).2.positions = s.positions := by
      simp only [step, getMarketBalance]; split
      · rfl
      · split
        · rfl
        · split <;> rfl
    exact ⟨by rw [this]; exact hp.1, by rw [this]; exact hp.2⟩
  | update => simp [Op.isUser] at hu

/-- the dust a sequence may create: `1e-5 ×` the wallet balance each deposit touches -/
def dustBound (c : TokenCfg) : DState → List Op → Rat
  | _, [] => 0
  | s, o :: os =>
    (match o with
      | .deposit _ => assetDust * |walletBal c s|
      | _ => 0) + dustBound c (step DCtx.exact c s o).2 os

end Deribit

/-- **one operation, accepted or rejected, never creates value beyond the deposit dust** -/
theorem C03_deribit_step_no_value_created (c : TokenCfg) (hc : 0 ≤ c.tradeFee) (s : DState) (op : Op)
    (hu : op.isUser = true) (hf : FrozenOK c s.book) (hp : PosInv s) :
    acctValue c (step DCtx.exact c s op).2 ≤ acctValue c s + dustBound c s [op] := by
  have hd : 0 ≤ assetDust * |walletBal c s| := mul_nonneg assetDust_nonneg (abs_nonneg _)
  rcases hstep : step DCtx.exact c s op with ⟨o, s'⟩
  cases o with
  | error e =>
    rw [step_err hstep]
    simp only [dustBound]
    split <;> linarith
  | ok res =>
    cases op with
    | buy r => simp only [dustBound, add_zero]; exact C03_deribit_buy_no_value_created c hc s s' r res hf hp hstep
    | sell r => simp only [dustBound, add_zero]; exact C03_deribit_sell_no_value_created c hc s s' r res hf hp hstep
    | deposit a => simp only [dustBound, add_zero]; exact (C03_deribit_deposit_dust c s s' a res hstep).1
    | withdraw a => simp only [dustBound, add_zero]; rw [(C03_deribit_withdraw_conserves c s s' a res hstep).1]
    | balance =>
      simp only [dustBound, add_zero]
      have : acctValue c s' = acctValue c s := by
        simp only [step, getMarketBalance] at hstep
        split at hstep
        · simp only [Prod.mk.injEq] at hstep; rw [← hstep.2]; rfl
        · split at hstep
          · simp only [Prod.mk.injEq] at hstep; rw [← hstep.2]
          · split at hstep <;> (simp only [Prod.mk.injEq] at hstep; rw [← hstep.2]; try rfl)
      rw [this]
    | update => simp [Op.isUser] at hu

/-- **no sequence of operations creates value** (induction over the sequence; every rejected call included):
    after any list of buys, sells, deposits, withdrawals and balance reads at a frozen market with
    bids ≤ mark ≤ asks the account value is at most the initial one plus the dust of the deposits made. -/
theorem C03_deribit_sequence_no_value_created (c : TokenCfg) (hc : 0 ≤ c.tradeFee) (ops : List Op) (s : DState)
    (hu : ∀ o ∈ ops, o.isUser = true) (hf : FrozenOK c s.book) (hn : NamesNodup s.book) (hp : PosInv s) :
    acctValue c (runOps DCtx.exact c s ops) ≤ acctValue c s + dustBound c s ops := by
  induction ops generalizing s with
  | nil => simp [runOps, dustBound]
  | cons o os ih =>
    have ho := hu o List.mem_cons_self
    have h1 := C03_deribit_step_no_value_created c hc s o ho hf hp
    obtain ⟨hf', hn'⟩ := frozenOK_step c s o hf hn
    have hp' := posInv_step c s o ho hp
    have h2 := ih (step DCtx.exact c s o).2 (fun o' ho' => hu o' (List.mem_cons_of_mem _ ho')) hf' hn' hp'
    simp only [dustBound, add_zero] at h1
    show acctValue c (runOps DCtx.exact c (step DCtx.exact c s o).2 os) ≤ _
    simp only [dustBound]
    linarith


/-! ### nothing becomes negative, nothing is over-redeemed -/

namespace Deribit
/-- cash, option amounts and (unless the broker allows overdrafts) wallet balances are non-negative -/
def NonNeg (s : DState) : Prop :=
  0 ≤ s.cash ∧ (∀ kp ∈ s.positions, 0 ≤ kp.2.amount) ∧ (s.allowNeg = false → ∀ tb ∈ s.wallet, 0 ≤ tb.2)

theorem tradeFee_le_premium (c : TokenCfg) (hc : 0 ≤ c.tradeFee) (a p : Rat) (ha : 0 ≤ a) (hp : 0 ≤ p) :
    tradeFee DCtx.exact c a p ≤ p := by
  unfold tradeFee
  simp only [exact_num, NumCtx.exact_mul]
  have hm : maxFeeRate = 125 / 1000 := C15_constants.2.2.1
  have h0 : 0 ≤ min (c.tradeFee * a) (maxFeeRate * p) := le_min (mul_nonneg hc ha) (by rw [hm]; positivity)
  calc roundDec c.feeExp (min (c.tradeFee * a) (maxFeeRate * p))
      ≤ 2 * min (c.tradeFee * a) (maxFeeRate * p) := roundDec_le_two _ h0
    _ ≤ 2 * (maxFeeRate * p) := by linarith [min_le_right (c.tradeFee * a) (maxFeeRate * p)]
    _ ≤ p := by rw [hm]; linarith
end Deribit

/-- **no holding ever becomes negative** (exact arithmetic, bid prices ≥ 0; the mark plays no role): cash, every option amount
    and every wallet balance stay non-negative through any operation, accepted or rejected -/
theorem C03_deribit_nonneg_preserved_raw (c : TokenCfg) (hc : 0 ≤ c.tradeFee) (s : DState) (op : Op) (hu : op.isUser = true)
    (hf : BookSane s.book) (hnn : NonNeg s) : NonNeg (step DCtx.exact c s op).2 := by
  rcases hstep : step DCtx.exact c s op with ⟨o, s'⟩
  cases o with
  | error e => rw [step_err hstep]; exact hnn
  | ok res =>
    cases op with
    | buy r =>
      obtain ⟨_, ck, hck, fills, _, _, _, _, _, _, _, hcash0, hs'⟩ := buy_ok hstep
      obtain ⟨_, _, hmin, hamt, _⟩ := checkTx_ok hck
      have hca : 0 ≤ ck.amount := by rw [hamt]; exact roundDec_nonneg _ (le_trans (minAmount_pos c).le hmin)
      refine ⟨hcash0, ?_, by rw [hs']; exact hnn.2.2⟩
      intro kp hkp
      rw [hs'] at hkp
      rcases alist_mem_set _ _ _ _ hkp with h | h
      · rw [h]
        simp only [boughtPosition]
        cases hg : AList.get? s.positions r.name with
        | none => exact hca
        | some p =>
          simp only [exact_num, NumCtx.exact_add]
          have := hnn.2.1 _ (get_mem hg)
          simp only [] at this
          linarith
      · exact hnn.2.1 kp h
    | sell r =>
      obtain ⟨_, ck, p, bids, hck, hget, hle, hbids, fills, prem, fee, hfills, hprem, hfee, _, hs'⟩ := sell_ok hstep
      obtain ⟨⟨ins0, hfind, hnorm⟩, _, _, _, _⟩ := checkTx_ok hck
      have hmem := findInstr_mem hfind
      obtain ⟨hside, hbnn⟩ := sane_norm hf hmem
      rw [← hnorm] at hside hbnn
      obtain ⟨f, hfl⟩ := availBids_filter hbids
      obtain ⟨_, hnn', hall⟩ := fills_props hck ck.ins.bids f (by simp [availSide, hbids, hfl]) hside
      rw [← hfl, ← hfills] at hall
      have hcost0 : 0 ≤ fillCost fills := fillCost_nonneg fills (fun x hx => by
        obtain ⟨h0, l, hl, _, hpe⟩ := hall x hx
        exact ⟨h0, hpe ▸ hbnn l hl⟩)
      rw [premiumOf_exact] at hprem
      have hfee : fee ≤ prem := by rw [hfee, hprem]; exact tradeFee_le_premium c hc _ _ hnn' hcost0
      refine ⟨?_, ?_, by rw [hs']; exact hnn.2.2⟩
      · rw [hs']; simp only [exact_num, NumCtx.exact_add, NumCtx.exact_sub]; linarith [hnn.1]
      · intro kp hkp
        rw [hs'] at hkp
        simp only [] at hkp
        split at hkp
        · exact hnn.2.1 kp (List.mem_filter.mp hkp).1
        · rcases alist_mem_set _ _ _ _ hkp with h | h
          · rw [h]; simp only [soldPosition, exact_num, NumCtx.exact_sub]; linarith
          · exact hnn.2.1 kp h
    | deposit a =>
      simp only [step] at hstep
      have ha := (C03_deribit_deposit_dust c s s' a res hstep).2
      unfold deposit at hstep
      split at hstep
      · simp at hstep
      · split at hstep
        · simp at hstep
        · simp at hstep
        · rename_i w hw
          simp only [Prod.mk.injEq] at hstep
          obtain ⟨_, hs⟩ := hstep
          subst hs
          refine ⟨by simp only [exact_num, NumCtx.exact_add]; linarith [hnn.1], hnn.2.1, ?_⟩
          intro hneg tb htb
          simp only [] at hneg htb
          unfold Wallet.debit at hw
          cases hg : AList.get? s.wallet c.token with
          | some b =>
            simp only [hg] at hw
            split at hw
            · rename_i b' hsub
              simp only [Except.ok.injEq] at hw
              subst hw
              rcases alist_mem_set _ _ _ _ htb with h | h
              · rw [h]
                have hb : 0 ≤ b := by
                  have hm : (c.token, b) ∈ s.wallet := by
                    simp only [AList.get?, Option.map_eq_some_iff] at hg
                    obtain ⟨kp, hfind, rfl⟩ := hg
                    have := List.find?_some hfind
                    simp only [decide_eq_true_eq] at this
                    rw [← this]; exact List.mem_of_find?_eq_some hfind
                  exact hnn.2.2 hneg _ hm
                exact (assetSub_exact hsub).2 hneg hb
              · exact hnn.2.2 hneg tb h
            · simp at hw
          | none =>
            simp only [hg, hneg, Bool.false_eq_true, if_false] at hw
            simp at hw
    | withdraw a =>
      simp only [step] at hstep
      obtain ⟨_, ha, _, hc0⟩ := C03_deribit_withdraw_conserves c s s' a res hstep
      unfold withdraw at hstep
      split at hstep
      · simp at hstep
      · simp only [] at hstep
        split at hstep
        · simp at hstep
        · simp only [Prod.mk.injEq] at hstep
          obtain ⟨_, hs⟩ := hstep
          subst hs
          refine ⟨hc0, hnn.2.1, ?_⟩
          intro hneg tb htb
          simp only [Wallet.credit, assetAdd, exact_num, NumCtx.exact_add] at htb
          cases hg : AList.get? s.wallet c.token with
          | some b =>
            simp only [hg] at htb
            rcases alist_mem_set _ _ _ _ htb with h | h
            · rw [h]
              have hm : (c.token, b) ∈ s.wallet := by
                simp only [AList.get?, Option.map_eq_some_iff] at hg
                obtain ⟨kp, hfind, rfl⟩ := hg
                have := List.find?_some hfind
                simp only [decide_eq_true_eq] at this
                rw [← this]; exact List.mem_of_find?_eq_some hfind
              have := hnn.2.2 hneg _ hm
              simp only [] at this ⊢
              linarith
            · exact hnn.2.2 hneg tb h
          | none =>
            simp only [hg] at htb
            rcases alist_mem_set _ _ _ _ htb with h | h
            · rw [h]; simp only []; linarith
            · exact hnn.2.2 hneg tb h
    | balance =>
      simp only [step, getMarketBalance] at hstep
      split at hstep
      · simp only [Prod.mk.injEq] at hstep; rw [← hstep.2]; exact hnn
      · split at hstep
        · simp only [Prod.mk.injEq] at hstep; rw [← hstep.2]; exact hnn
        · split at hstep <;> (simp only [Prod.mk.injEq] at hstep; rw [← hstep.2]; exact hnn)
    | update => simp [Op.isUser] at hu

/-- the same under the hypothesis the sequence theorems carry (`FrozenOK`, bids ≤ round(mark) ≤ asks) -/
theorem C03_deribit_nonneg_preserved (c : TokenCfg) (hc : 0 ≤ c.tradeFee) (s : DState) (op : Op) (hu : op.isUser = true)
    (hf : FrozenOK c s.book) (hnn : NonNeg s) : NonNeg (step DCtx.exact c s op).2 :=
  C03_deribit_nonneg_preserved_raw c hc s op hu hf.sane hnn

/-- **no over-redemption** (the mark plays no role): an accepted sell is filled for exactly the (rounded) amount, which is at
    most the holding; an accepted withdrawal is at most the cash (`C03_deribit_withdraw_conserves`) -/
theorem C03_deribit_no_over_redemption_raw (c : TokenCfg) (s s' : DState) (r : Req) (fills : List Fill) (fee : Rat)
    (hf : BookSane s.book) (h : sell DCtx.exact c s r = (.ok (.trade fills fee), s')) :
    ∃ p, AList.get? s.positions r.name = some p ∧ fillSum fills ≤ p.amount := by
  obtain ⟨_, ck, p, bids, hck, hget, hle, hbids, fills', _, _, hfills, _, _, hres, _⟩ := sell_ok h
  simp only [Res.trade.injEq] at hres
  obtain ⟨rfl, _⟩ := hres
  obtain ⟨f, hfl⟩ := availBids_filter hbids
  obtain ⟨ins0, hfind, hnorm⟩ := (checkTx_ok hck).1
  have hside := (sane_norm hf (findInstr_mem hfind)).1
  rw [← hnorm] at hside
  obtain ⟨hsum, _, _⟩ := fills_props hck ck.ins.bids f (by simp [availSide, hbids, hfl]) hside
  rw [← hfl, ← hfills] at hsum
  exact ⟨p, hget, hsum ▸ hle⟩

theorem C03_deribit_no_over_redemption (c : TokenCfg) (s s' : DState) (r : Req) (fills : List Fill) (fee : Rat)
    (hf : FrozenOK c s.book) (h : sell DCtx.exact c s r = (.ok (.trade fills fee), s')) :
    ∃ p, AList.get? s.positions r.name = some p ∧ fillSum fills ≤ p.amount :=
  C03_deribit_no_over_redemption_raw c s s' r fills fee hf.sane h

/-! ### the property's own quantifier: the RAW book, bids ≤ mark ≤ asks  (finding D-8)

  `FrozenOK` compares the levels with `roundDec c.feeExp i.mark`, the mark as `get_market_balance` values a holding (rounded
  half-up to the fee step, 1e-6 for ETH, 1e-8 for BTC).  The property text constrains the raw row: bid ≤ mark ≤ ask.  The two
  differ when the mark is not a multiple of the fee step, and then the full statement is FALSE for the code:

      -- FALSE (`C03_deribit_fails_offgrid_mark`, `C03_deribit_fails_offgrid_mark_sell`):
      -- theorem C03_deribit_buy_no_value_created_raw (c) (hc : 0 ≤ c.tradeFee) (s s') (r) (res)
      --     (hf : FrozenRaw s.book) (hp : PosInv s) (h : buy DCtx.exact c s r = (.ok res, s')) :
      --     acctValue c s' ≤ acctValue c s
      -- (and likewise for sell, step, sequence)

  mark = ask = 0.0000016: the valuation books every contract at round(mark) = 0.000002 while the buy pays 0.0000016 plus a fee
  capped at 12.5 % of the premium; buying 1000 turns 105 ETH into 105.0002 ETH.  Mirror image: mark = bid = 0.0000014 is valued
  at 0.000001, selling 1000 held contracts turns 105.001 into 105.001225.  The gain per contract is below
  |round(mark) − mark| ≤ half a fee step and needs round(mark) > 1.125 × price (buy), i.e. marks below about 4e-6.

  What is proved at full strength for the raw quantifier: `…_ongrid_partial` below add the contract `MarkOnGrid` (every mark is
  a multiple of the fee step, so the valuation uses the mark itself); "nothing negative" and "no over-redemption" need no
  contract at all (`C03_deribit_nonneg_preserved_raw`, `C03_deribit_no_over_redemption_raw` above). -/

namespace Deribit
/-- the frozen market data exactly as the property constrains it: every bid ≤ the row's mark ≤ every ask (raw mark, nothing
    rounded), plus the sanity of the data (non-negative sizes, marks and bid prices) -/
structure FrozenRaw (book : List Instr) : Prop where
  inv : BookInv book
  mark_nonneg : ∀ i ∈ book, 0 ≤ i.mark
  asks_ge : ∀ i ∈ book, ∀ l ∈ i.asks, i.mark ≤ l.price
  bids_le : ∀ i ∈ book, ∀ l ∈ i.bids, l.price ≤ i.mark
  bids_nonneg : ∀ i ∈ book, ∀ l ∈ i.bids, 0 ≤ l.price

/-- grid contract (NOT in the property text): every mark is a multiple of the fee step, i.e. the valuation's
    `round_decimal(mark_price, min_fee_decimal)` returns the mark unchanged -/
def MarkOnGrid (c : TokenCfg) (book : List Instr) : Prop := ∀ i ∈ book, roundDec c.feeExp i.mark = i.mark

theorem FrozenRaw.sane {book : List Instr} (hf : FrozenRaw book) : BookSane book := ⟨hf.inv, hf.bids_nonneg⟩

/-- on the grid the raw constraint is the constraint the value theorems use -/
theorem frozenOK_of_raw {c : TokenCfg} {book : List Instr} (hf : FrozenRaw book) (hg : MarkOnGrid c book) : FrozenOK c book :=
  ⟨hf.inv, hf.mark_nonneg, fun i hi l hl => by rw [hg i hi]; exact hf.asks_ge i hi l hl,
    fun i hi l hl => by rw [hg i hi]; exact hf.bids_le i hi l hl, hf.bids_nonneg⟩

theorem roundHalfUpNat_spec (N d : Nat) (hd : 0 < d) :
    2 * (roundHalfUpNat N d * d) ≤ 2 * N + d ∧ 2 * N < 2 * (roundHalfUpNat N d * d) + d := by
  unfold roundHalfUpNat
  have hN := Nat.div_add_mod' N d
  have hr := Nat.mod_lt N hd
  simp only []
  split
  · omega
  · rw [Nat.add_mul]
    omega

/-- `quantHalfUp k x` (x ≥ 0) is `R / 10^k` for the natural number `R` with `R − 1/2 ≤ x·10^k < R + 1/2` -/
theorem quantHalfUp_spec (k : Nat) {x : Rat} (hx : 0 ≤ x) :
    ∃ R : Nat, quantHalfUp k x = (R : Rat) / ((pow10 k : Nat) : Rat) ∧
      (R : Rat) - 1 / 2 ≤ x * ((pow10 k : Nat) : Rat) ∧ x * ((pow10 k : Nat) : Rat) < (R : Rat) + 1 / 2 := by
  unfold quantHalfUp
  have hn : ¬ x.num < 0 := not_lt.mpr (Rat.num_nonneg.mpr hx)
  simp only [hn, if_false]
  have hden : (0 : Rat) < (x.den : Rat) := by exact_mod_cast x.den_pos
  set A : Nat := x.num.natAbs with hA
  set D : Nat := x.den with hD
  have hxe : (A : Rat) / (D : Rat) = x := by
    have h2 : ((A : Nat) : Rat) = ((x.num : Int) : Rat) := by
      rw [hA, ← Int.cast_natCast, Int.natAbs_of_nonneg (Rat.num_nonneg.mpr hx)]
    rw [h2]; exact Rat.num_div_den x
  obtain ⟨h1, h2⟩ := roundHalfUpNat_spec (A * pow10 k) D x.den_pos
  set R := roundHalfUpNat (A * pow10 k) D
  have h1' : 2 * ((R : Rat) * (D : Rat)) ≤ 2 * ((A : Rat) * ((pow10 k : Nat) : Rat)) + (D : Rat) := by exact_mod_cast h1
  have h2' : 2 * ((A : Rat) * ((pow10 k : Nat) : Rat)) < 2 * ((R : Rat) * (D : Rat)) + (D : Rat) := by exact_mod_cast h2
  have hxP : x * ((pow10 k : Nat) : Rat) * (D : Rat) = (A : Rat) * ((pow10 k : Nat) : Rat) := by
    rw [← hxe]; field_simp
  refine ⟨R, by rw [Rat.mkRat_eq_div]; push_cast; rfl, ?_, ?_⟩
  · apply le_of_not_gt; intro hc
    have := mul_lt_mul_of_pos_right hc hden
    nlinarith
  · apply lt_of_not_ge; intro hc
    have := mul_le_mul_of_nonneg_right hc hden.le
    nlinarith

theorem quantHalfUp_mono (k : Nat) {x y : Rat} (hx : 0 ≤ x) (hxy : x ≤ y) : quantHalfUp k x ≤ quantHalfUp k y := by
  obtain ⟨R, hR, hR1, _⟩ := quantHalfUp_spec k hx
  obtain ⟨S, hS, _, hS2⟩ := quantHalfUp_spec k (le_trans hx hxy)
  have hp : (0 : Rat) < ((pow10 k : Nat) : Rat) := by unfold pow10; positivity
  rw [hR, hS]
  apply div_le_div_of_nonneg_right _ hp.le
  have h : (R : Rat) < (S : Rat) + 1 := by
    have := mul_le_mul_of_nonneg_right hxy hp.le
    linarith
  have : R < S + 1 := by exact_mod_cast h
  exact_mod_cast Nat.lt_succ_iff.mp this

/-- `round_decimal` is monotone on non-negative numbers -/
theorem roundDec_mono (e : Int) {x y : Rat} (hx : 0 ≤ x) (hxy : x ≤ y) : roundDec e x ≤ roundDec e y := by
  unfold roundDec
  split
  · exact quantHalfUp_mono _ hx hxy
  · have ht := tenPow_pos e
    exact mul_le_mul_of_nonneg_right
      (quantHalfUp_mono 0 (div_nonneg hx ht.le) (div_le_div_of_nonneg_right hxy ht.le)) ht.le

/-- a second grid contract (NOT in the property text either, but what an exchange's tick size gives: Deribit quotes options in
    ticks of 0.0001 / 0.0005, multiples of the fee step): every PRICE of the book is a multiple of the fee step; the mark may
    be anything -/
def PricesOnGrid (c : TokenCfg) (book : List Instr) : Prop :=
  ∀ i ∈ book, (∀ l ∈ i.asks, roundDec c.feeExp l.price = l.price) ∧ (∀ l ∈ i.bids, roundDec c.feeExp l.price = l.price)

/-- with the prices on the grid the raw constraint gives the constraint of the value theorems for EVERY mark: rounding is
    monotone and leaves the prices where they are -/
theorem frozenOK_of_raw_prices {c : TokenCfg} {book : List Instr} (hf : FrozenRaw book) (hg : PricesOnGrid c book) :
    FrozenOK c book :=
  ⟨hf.inv, hf.mark_nonneg,
    fun i hi l hl => by rw [← (hg i hi).1 l hl]; exact roundDec_mono _ (hf.mark_nonneg i hi) (hf.asks_ge i hi l hl),
    fun i hi l hl => by rw [← (hg i hi).2 l hl]; exact roundDec_mono _ (hf.bids_nonneg i hi l hl) (hf.bids_le i hi l hl),
    hf.bids_nonneg⟩

/-- and conversely: on the grid `FrozenOK` says nothing more than the raw constraint -/
theorem frozenRaw_of_ok {c : TokenCfg} {book : List Instr} (hf : FrozenOK c book) (hg : MarkOnGrid c book) : FrozenRaw book :=
  ⟨hf.inv, hf.mark_nonneg, fun i hi l hl => by have := hf.asks_ge i hi l hl; rwa [hg i hi] at this,
    fun i hi l hl => by have := hf.bids_le i hi l hl; rwa [hg i hi] at this, hf.bids_nonneg⟩
end Deribit

/-- **a buy never creates value**, raw quantifier bids ≤ mark ≤ asks — partial: under the grid contract `MarkOnGrid`
    (without it the statement is false, `C03_deribit_fails_offgrid_mark`) -/
theorem C03_deribit_buy_no_value_created_ongrid_partial (c : TokenCfg) (hc : 0 ≤ c.tradeFee) (s s' : DState) (r : Req)
    (res : Res) (hf : FrozenRaw s.book) (hg : MarkOnGrid c s.book) (hp : PosInv s)
    (h : buy DCtx.exact c s r = (.ok res, s')) : acctValue c s' ≤ acctValue c s :=
  C03_deribit_buy_no_value_created c hc s s' r res (frozenOK_of_raw hf hg) hp h

/-- **a sell never creates value**, raw quantifier — partial: under `MarkOnGrid` (false without it,
    `C03_deribit_fails_offgrid_mark_sell`) -/
theorem C03_deribit_sell_no_value_created_ongrid_partial (c : TokenCfg) (hc : 0 ≤ c.tradeFee) (s s' : DState) (r : Req)
    (res : Res) (hf : FrozenRaw s.book) (hg : MarkOnGrid c s.book) (hp : PosInv s)
    (h : sell DCtx.exact c s r = (.ok res, s')) : acctValue c s' ≤ acctValue c s :=
  C03_deribit_sell_no_value_created c hc s s' r res (frozenOK_of_raw hf hg) hp h

/-- **one operation, accepted or rejected, creates no value beyond the deposit dust**, raw quantifier — partial: under `MarkOnGrid` -/
theorem C03_deribit_step_no_value_created_ongrid_partial (c : TokenCfg) (hc : 0 ≤ c.tradeFee) (s : DState) (op : Op)
    (hu : op.isUser = true) (hf : FrozenRaw s.book) (hg : MarkOnGrid c s.book) (hp : PosInv s) :
    acctValue c (step DCtx.exact c s op).2 ≤ acctValue c s + dustBound c s [op] :=
  C03_deribit_step_no_value_created c hc s op hu (frozenOK_of_raw hf hg) hp

/-- **no sequence of operations creates value**, raw quantifier — partial: under `MarkOnGrid` at the start (marks do not move
    along the sequence, `frozenOK_step`) -/
theorem C03_deribit_sequence_no_value_created_ongrid_partial (c : TokenCfg) (hc : 0 ≤ c.tradeFee) (ops : List Op) (s : DState)
    (hu : ∀ o ∈ ops, o.isUser = true) (hf : FrozenRaw s.book) (hg : MarkOnGrid c s.book) (hn : NamesNodup s.book)
    (hp : PosInv s) : acctValue c (runOps DCtx.exact c s ops) ≤ acctValue c s + dustBound c s ops :=
  C03_deribit_sequence_no_value_created c hc ops s hu (frozenOK_of_raw hf hg) hn hp

/-- **no sequence of operations creates value**, raw quantifier, any marks — partial: under the tick-size contract
    `PricesOnGrid` (every book price a multiple of the fee step).  The D-8 witnesses need a price off the fee grid. -/
theorem C03_deribit_sequence_no_value_created_pricegrid_partial (c : TokenCfg) (hc : 0 ≤ c.tradeFee) (ops : List Op) (s : DState)
    (hu : ∀ o ∈ ops, o.isUser = true) (hf : FrozenRaw s.book) (hg : PricesOnGrid c s.book) (hn : NamesNodup s.book)
    (hp : PosInv s) : acctValue c (runOps DCtx.exact c s ops) ≤ acctValue c s + dustBound c s ops :=
  C03_deribit_sequence_no_value_created c hc ops s hu (frozenOK_of_raw_prices hf hg) hn hp

/-- one operation (accepted or rejected), raw quantifier, any marks — partial: under `PricesOnGrid` -/
theorem C03_deribit_step_no_value_created_pricegrid_partial (c : TokenCfg) (hc : 0 ≤ c.tradeFee) (s : DState) (op : Op)
    (hu : op.isUser = true) (hf : FrozenRaw s.book) (hg : PricesOnGrid c s.book) (hp : PosInv s) :
    acctValue c (step DCtx.exact c s op).2 ≤ acctValue c s + dustBound c s [op] :=
  C03_deribit_step_no_value_created c hc s op hu (frozenOK_of_raw_prices hf hg) hp

/-! ### non-vacuity -/

namespace Deribit
def c03Instr : Instr :=
  { name := "ETH-22SEP23-1650-C", stateOpen := true, kind := .call, strike := 1650, expiry := 30000,
    mark := 287 / 10000, underlying := 165194 / 100, delta := 52071 / 100000, gamma := 342 / 100000,
    asks := [⟨29 / 1000, 605, false⟩, ⟨59 / 2000, 197, true⟩], bids := [⟨28 / 1000, 51, false⟩, ⟨55 / 2000, 585, false⟩] }
def c03State : DState :=
  { cash := 100, positions := [], book := [c03Instr], wallet := [("ETH", 5)], allowNeg := false, actions := [],
    cache := none, flagOpen := true, now := 360, price := 165194 / 100, priceDec := false }
def c03Buy (a : Rat) : Op := .buy { name := "ETH-22SEP23-1650-C", amount := a, priceTok := none, priceUsd := none, mult := none }
def c03Sell (a : Rat) : Op := .sell { name := "ETH-22SEP23-1650-C", amount := a, priceTok := none, priceUsd := none, mult := none }
/-- D-8: a mark off the 1e-6 fee grid that rounds UP (0.0000016 → 0.000002), the best ask on the mark -/
def c03OffInstr : Instr :=
  { c03Instr with mark := 16 / 10000000, asks := [⟨16 / 10000000, 5000, false⟩], bids := [⟨1 / 1000000, 50, false⟩] }
def c03OffState : DState := { c03State with cash := 105, book := [c03OffInstr], wallet := [("ETH", 0)] }
/-- D-8, sell side: a mark that rounds DOWN (0.0000014 → 0.000001), the best bid on the mark, 1000 contracts held -/
def c03OffSellInstr : Instr :=
  { c03Instr with mark := 14 / 10000000, asks := [⟨2 / 1000000, 50, false⟩], bids := [⟨14 / 10000000, 5000, false⟩] }
def c03OffPos : Position :=
  { name := "ETH-22SEP23-1650-C", expiry := 30000, strike := 1650, kind := .call, amount := 1000, avgBuy := 3 / 100,
    buyAmt := 1000, avgSell := 0, sellAmt := 0 }
def c03OffSellState : DState :=
  { c03State with
    cash := 105, book := [c03OffSellInstr], wallet := [("ETH", 0)], positions := [("ETH-22SEP23-1650-C", c03OffPos)] }
end Deribit

section
open Deribit
example : FrozenOK ethCfg c03State.book := by
  have hm : roundDec ethCfg.feeExp c03Instr.mark = 287 / 10000 := by decide +kernel
  refine ⟨?_, ?_, ?_, ?_, ?_⟩ <;> intro i hi <;> simp only [c03State, List.mem_singleton] at hi <;> subst hi
  · refine ⟨?_, ?_⟩ <;>
      (intro l hl; simp only [c03Instr, List.mem_cons, List.not_mem_nil, or_false] at hl; rcases hl with rfl | rfl <;> norm_num)
  · simp [c03Instr]; norm_num
  · intro l hl; rw [hm]; simp only [c03Instr, List.mem_cons, List.not_mem_nil, or_false] at hl; rcases hl with rfl | rfl <;> norm_num
  · intro l hl; rw [hm]; simp only [c03Instr, List.mem_cons, List.not_mem_nil, or_false] at hl; rcases hl with rfl | rfl <;> norm_num
  · intro l hl; simp only [c03Instr, List.mem_cons, List.not_mem_nil, or_false] at hl; rcases hl with rfl | rfl <;> norm_num
example : PosInv c03State := ⟨by simp [c03State], by simp [c03State]⟩
example : NonNeg c03State := ⟨by simp [c03State], by simp [c03State], by intro _ tb h; simp [c03State] at h; subst h; norm_num⟩
example : (0 : Rat) ≤ ethCfg.tradeFee ∧ (0 : Rat) ≤ btcCfg.tradeFee := by
  rw [C15_constants.1, C15_constants.2.1]; norm_num
-- buy 700 (two levels), sell 600 back, move cash around, sell the rest: fees and spread are lost, nothing is gained
example : acctValue ethCfg (runOps DCtx.exact ethCfg c03State [c03Buy 700, c03Sell 600, .withdraw 1, .deposit 1, c03Sell 100, c03Sell 1]) ≤
    acctValue ethCfg c03State := by decide +kernel
example : ¬ acctValue ethCfg c03State ≤ acctValue ethCfg (runOps DCtx.exact ethCfg c03State [c03Buy 700, c03Sell 600]) := by
  decide +kernel
-- the raw constraint and the grid contract hold on that state (mark 0.0287 is a multiple of 1e-6)
example : FrozenRaw c03State.book := by
  refine ⟨?_, ?_, ?_, ?_, ?_⟩ <;> intro i hi <;> simp only [c03State, List.mem_singleton] at hi <;> subst hi
  · refine ⟨?_, ?_⟩ <;>
      (intro l hl; simp only [c03Instr, List.mem_cons, List.not_mem_nil, or_false] at hl; rcases hl with rfl | rfl <;> norm_num)
  · simp [c03Instr]; norm_num
  all_goals
    intro l hl; simp only [c03Instr, List.mem_cons, List.not_mem_nil, or_false] at hl
    rcases hl with rfl | rfl <;> simp only [c03Instr] <;> norm_num
example : MarkOnGrid ethCfg c03State.book := by
  intro i hi; simp only [c03State, List.mem_singleton] at hi; subst hi; decide +kernel
-- a mark OFF the grid (0.0287004) between prices on the grid: raw constraint and `PricesOnGrid` hold, `MarkOnGrid` does not
example : FrozenRaw [{ c03Instr with mark := 287004 / 10000000 }] ∧ PricesOnGrid ethCfg [{ c03Instr with mark := 287004 / 10000000 }] ∧
    ¬ MarkOnGrid ethCfg [{ c03Instr with mark := 287004 / 10000000 }] := by
  refine ⟨⟨?_, ?_, ?_, ?_, ?_⟩, ?_, ?_⟩
  · intro i hi; simp only [List.mem_singleton] at hi; subst hi
    refine ⟨?_, ?_⟩ <;>
      (intro l hl; simp only [c03Instr, List.mem_cons, List.not_mem_nil, or_false] at hl; rcases hl with rfl | rfl <;> norm_num)
  · intro i hi; simp only [List.mem_singleton] at hi; subst hi; norm_num
  · intro i hi; simp only [List.mem_singleton] at hi; subst hi
    intro l hl; simp only [c03Instr, List.mem_cons, List.not_mem_nil, or_false] at hl; rcases hl with rfl | rfl <;> norm_num
  · intro i hi; simp only [List.mem_singleton] at hi; subst hi
    intro l hl; simp only [c03Instr, List.mem_cons, List.not_mem_nil, or_false] at hl; rcases hl with rfl | rfl <;> norm_num
  · intro i hi; simp only [List.mem_singleton] at hi; subst hi
    intro l hl; simp only [c03Instr, List.mem_cons, List.not_mem_nil, or_false] at hl; rcases hl with rfl | rfl <;> norm_num
  · intro i hi; simp only [List.mem_singleton] at hi; subst hi
    refine ⟨?_, ?_⟩ <;>
      (intro l hl; simp only [c03Instr, List.mem_cons, List.not_mem_nil, or_false] at hl; rcases hl with rfl | rfl <;> decide +kernel)
  · intro h
    exact absurd (h _ List.mem_cons_self) (by decide +kernel)
example : BookSane c03State.book ∧ BookSane c03OffState.book := by
  refine ⟨⟨?_, ?_⟩, ⟨?_, ?_⟩⟩ <;> intro i hi <;> simp only [c03State, c03OffState, List.mem_singleton] at hi <;> subst hi
  · refine ⟨?_, ?_⟩ <;>
      (intro l hl; simp only [c03Instr, List.mem_cons, List.not_mem_nil, or_false] at hl; rcases hl with rfl | rfl <;> norm_num)
  · intro l hl; simp only [c03Instr, List.mem_cons, List.not_mem_nil, or_false] at hl; rcases hl with rfl | rfl <;> norm_num
  · refine ⟨?_, ?_⟩ <;>
      (intro l hl; simp only [c03OffInstr, List.mem_cons, List.not_mem_nil, or_false] at hl; subst hl; norm_num)
  · intro l hl; simp only [c03OffInstr, List.mem_cons, List.not_mem_nil, or_false] at hl; subst hl; norm_num
end

/-! ### D-8: the raw quantifier without the grid contract is violated (kernel-checked witnesses) -/

section
open Deribit

theorem Deribit.c03Off_frozenRaw : FrozenRaw c03OffState.book ∧ FrozenRaw c03OffSellState.book := by
  refine ⟨⟨?_, ?_, ?_, ?_, ?_⟩, ⟨?_, ?_, ?_, ?_, ?_⟩⟩ <;> intro i hi <;>
    simp only [c03OffState, c03OffSellState, List.mem_singleton] at hi <;> subst hi
  · refine ⟨?_, ?_⟩ <;> (intro l hl; simp only [c03OffInstr, List.mem_cons, List.not_mem_nil, or_false] at hl; subst hl; norm_num)
  · simp only [c03OffInstr]; norm_num
  · intro l hl; simp only [c03OffInstr, List.mem_cons, List.not_mem_nil, or_false] at hl; subst hl; simp only [c03OffInstr]; norm_num
  · intro l hl; simp only [c03OffInstr, List.mem_cons, List.not_mem_nil, or_false] at hl; subst hl; simp only [c03OffInstr]; norm_num
  · intro l hl; simp only [c03OffInstr, List.mem_cons, List.not_mem_nil, or_false] at hl; subst hl; norm_num
  · refine ⟨?_, ?_⟩ <;> (intro l hl; simp only [c03OffSellInstr, List.mem_cons, List.not_mem_nil, or_false] at hl; subst hl; norm_num)
  · simp only [c03OffSellInstr]; norm_num
  · intro l hl; simp only [c03OffSellInstr, List.mem_cons, List.not_mem_nil, or_false] at hl; subst hl; simp only [c03OffSellInstr]; norm_num
  · intro l hl; simp only [c03OffSellInstr, List.mem_cons, List.not_mem_nil, or_false] at hl; subst hl; simp only [c03OffSellInstr]; norm_num
  · intro l hl; simp only [c03OffSellInstr, List.mem_cons, List.not_mem_nil, or_false] at hl; subst hl; norm_num

/-- **D-8, positive form** (what the real code does, reproduced on /repo 155b57b: net value 105 → 105.0002000): the raw book
    satisfies bid 0.000001 ≤ mark 0.0000016 ≤ ask 0.0000016, the market buy of 1000 is accepted, filled at 0.0000016 with
    fee 0.0002, and the account value goes from 105 to 105.0002 -/
theorem C03_deribit_offgrid_mark_buy_raises_value :
    FrozenRaw c03OffState.book ∧ PosInv c03OffState ∧ NonNeg c03OffState ∧
    (step DCtx.exact ethCfg c03OffState (c03Buy 1000)).1 = .ok (.trade [⟨16 / 10000000, 1000⟩] (2 / 10000)) ∧
    acctValue ethCfg c03OffState = 105 ∧
    acctValue ethCfg (step DCtx.exact ethCfg c03OffState (c03Buy 1000)).2 = 105 + 2 / 10000 ∧
    ¬ MarkOnGrid ethCfg c03OffState.book := by
  refine ⟨c03Off_frozenRaw.1, ⟨by simp [c03OffState, c03State], by simp [c03OffState, c03State]⟩,
    ⟨by simp [c03OffState, c03State], by simp [c03OffState, c03State],
      by intro _ tb h; simp [c03OffState, c03State] at h; subst h; norm_num⟩,
    by decide +kernel, by decide +kernel, by decide +kernel, ?_⟩
  intro h
  exact absurd (h c03OffInstr (by simp [c03OffState])) (by decide +kernel)

/-- **D-8: the full-strength statement (raw quantifier, no grid contract) is false for buy** -/
theorem C03_deribit_fails_offgrid_mark :
    ¬ (∀ (c : TokenCfg) (s s' : DState) (r : Req) (res : Res), 0 ≤ c.tradeFee → FrozenRaw s.book → PosInv s →
        buy DCtx.exact c s r = (.ok res, s') → acctValue c s' ≤ acctValue c s) := by
  intro hall
  obtain ⟨hf, hp, _, hok, h0, h1, _⟩ := C03_deribit_offgrid_mark_buy_raises_value
  have hc : (0 : Rat) ≤ ethCfg.tradeFee := by rw [C15_constants.1]; norm_num
  have := hall ethCfg c03OffState (step DCtx.exact ethCfg c03OffState (c03Buy 1000)).2 _ _ hc hf hp (Prod.ext hok rfl)
  rw [h0, h1] at this
  norm_num at this

/-- **D-8, sell side** (reproduced on /repo 155b57b: 105.001000 → 105.0012250): bid 0.0000014 ≤ mark 0.0000014 ≤ ask 0.000002,
    1000 contracts held and valued at round(mark) = 0.000001; selling them at the bid pays 0.0014 − fee 0.000175 -/
theorem C03_deribit_offgrid_mark_sell_raises_value :
    FrozenRaw c03OffSellState.book ∧ PosInv c03OffSellState ∧ NonNeg c03OffSellState ∧
    (step DCtx.exact ethCfg c03OffSellState (c03Sell 1000)).1 = .ok (.trade [⟨14 / 10000000, 1000⟩] (175 / 1000000)) ∧
    acctValue ethCfg c03OffSellState = 105 + 1 / 1000 ∧
    acctValue ethCfg (step DCtx.exact ethCfg c03OffSellState (c03Sell 1000)).2 = 105 + 1225 / 1000000 := by
  refine ⟨c03Off_frozenRaw.2, ⟨by simp [c03OffSellState, c03State], ?_⟩, ⟨by simp [c03OffSellState, c03State], ?_, ?_⟩,
    by decide +kernel, by decide +kernel, by decide +kernel⟩
  · intro kp h; simp [c03OffSellState] at h; subst h; rfl
  · intro kp h; simp [c03OffSellState] at h; subst h; simp only [c03OffPos]; norm_num
  · intro _ tb h; simp [c03OffSellState, c03State] at h; subst h; norm_num

/-- **D-8: the full-strength statement (raw quantifier, no grid contract) is false for sell** -/
theorem C03_deribit_fails_offgrid_mark_sell :
    ¬ (∀ (c : TokenCfg) (s s' : DState) (r : Req) (res : Res), 0 ≤ c.tradeFee → FrozenRaw s.book → PosInv s →
        sell DCtx.exact c s r = (.ok res, s') → acctValue c s' ≤ acctValue c s) := by
  intro hall
  obtain ⟨hf, hp, _, hok, h0, h1⟩ := C03_deribit_offgrid_mark_sell_raises_value
  have hc : (0 : Rat) ≤ ethCfg.tradeFee := by rw [C15_constants.1]; norm_num
  have := hall ethCfg c03OffSellState (step DCtx.exact ethCfg c03OffSellState (c03Sell 1000)).2 _ _ hc hf hp (Prod.ext hok rfl)
  rw [h0, h1] at this
  norm_num at this
end

end Demeter
