/-
  C03, GMX part — on a frozen row, `buy_glp` / `sell_glp` (v1) and `deposit` / `withdraw` (v2) never create value beyond the
  wallet's dust band, never make a holding or a wallet balance negative, and never redeem more than is held.
  Exact rational semantics (`NumCtx.exact`); v2 for every power function.
-/
import Proofs.C17
import Proofs.C17.V2
import Proofs.Lemmas.GmxValue
namespace Demeter
open Demeter.Gmx

/-! ## v1 -/
section V1
open GmxV1

/-- `get_market_balance().net_value` in closed form -/
theorem Gmx.netValue_eq (env : Env) (s : State) :
    netValue NumCtx.exact env s = s.glp * env.glpPrice + s.reward * env.wavaxPrice / 10 ^ 30 := by
  unfold netValue
  simp only [NumCtx.exact_add, NumCtx.exact_mul, NumCtx.exact_div, Gen.gmxPricePrecision]
  norm_num

/-- the account's net value under a price vector: wallet + market -/
def Gmx.netWorth (price : String → Rat) (env : Env) (s : State) : Rat :=
  walletValue price s.wallet + netValue NumCtx.exact env s

/-- the frozen price vector is the one derived from the same row (`get_price_from_data`: price column / 10³⁰) -/
def Gmx.PricesFromRow (price : String → Rat) (env : Env) : Prop :=
  ∀ r ∈ env.rows, price (walletKey r.name) = r.price / 10 ^ 30

/-- the row is price-consistent: `glp_price = (aum/10³⁰)/(glp/10¹⁸)`, i.e. `glp_price × supply = ⌊aum/10¹²⌋` -/
def Gmx.PriceConsistent (env : Env) : Prop := env.glpPrice * env.glpSupply = aumU env

theorem Gmx.row_name {env : Env} {tok : String} {r : TokenRow} (h : env.row? tok = some r) : r.name = tok := by
  unfold Env.row? at h
  have := List.find?_some h
  simpa using this

/-- **buying never hands out more value than it takes**: the GLP minted, at the row's GLP price, is worth at most the
    tokens requested, at the row's token price. -/
theorem C03_gmx_v1_mint_value_le_paid {env : Env} (he : EnvPos env) (hc : Gmx.PriceConsistent env) {s s' : State} {tok : String}
    {dec : Nat} {a g : Rat} (h : buyGlp NumCtx.exact env s tok dec a = (.ok g, s')) :
    ∃ r, env.row? tok = some r ∧ g * env.glpPrice ≤ a * (r.price / 10 ^ 30) ∧ 0 ≤ g := by
  obtain ⟨ha, mint, fee, br, w, hadd, _, hg, _⟩ := Gmx.buyGlp_ok h
  obtain ⟨r, hr, hfee, haum, hmint⟩ := addLiquidity_ok hadd
  have hP : 0 < r.price := he.price r (row_mem hr)
  have hS : 0 < env.glpSupply := he.glpSupply
  have hA : 0 < aumU env := lt_of_le_of_ne (Gmx.aumU_nonneg he) (Ne.symm haum)
  obtain ⟨hf0, hf1⟩ := feeBps_bounds he.toEnvNonneg hfee
  obtain ⟨haf0, haf1⟩ := afterFee_bounds ha hf0 hf1
  set af := afterFee NumCtx.exact a fee
  have hU := usdgOf_le (dec := dec) haf0 (le_of_lt hP)
  have hU0 := usdgOf_nonneg (dec := dec) haf0 (le_of_lt hP)
  have hm0 : 0 ≤ usdgOf af dec r.price * env.glpSupply / aumU env := by positivity
  have hM : mint ≤ usdgOf af dec r.price * env.glpSupply / aumU env := by rw [hmint]; exact quantDown0_le hm0
  have hM0 : 0 ≤ mint := by rw [hmint]; exact quantDown0_nonneg hm0
  have hgp : 0 ≤ env.glpPrice := by
    have : env.glpPrice * env.glpSupply = aumU env := hc
    by_contra hneg
    have : env.glpPrice * env.glpSupply < 0 := mul_neg_of_neg_of_pos (not_le.mp hneg) hS
    linarith
  have hpp : (0 : Rat) ≤ r.price / 10 ^ 30 := by positivity
  refine ⟨r, hr, ?_, by rw [hg]; positivity⟩
  have hcc : env.glpPrice * env.glpSupply = aumU env := hc
  calc g * env.glpPrice = mint / 10 ^ 18 * env.glpPrice := by rw [hg]
    _ ≤ (usdgOf af dec r.price * env.glpSupply / aumU env) / 10 ^ 18 * env.glpPrice := by
        apply mul_le_mul_of_nonneg_right _ hgp
        exact div_le_div_of_nonneg_right hM (by positivity)
    _ = usdgOf af dec r.price / 10 ^ 18 * (env.glpPrice * env.glpSupply / aumU env) := by ring
    _ = usdgOf af dec r.price / 10 ^ 18 := by rw [hcc]; field_simp
    _ ≤ (af * (r.price / 10 ^ 30) * 10 ^ 18) / 10 ^ 18 := div_le_div_of_nonneg_right hU (by positivity)
    _ = af * (r.price / 10 ^ 30) := by field_simp
    _ ≤ a * (r.price / 10 ^ 30) := mul_le_mul_of_nonneg_right haf1 hpp

/-- **selling never pays out more value than the GLP redeemed is worth**, and never more GLP than is held. -/
theorem C03_gmx_v1_redeem_value_le_held {env : Env} (he : EnvPos env) (hc : Gmx.PriceConsistent env) {s s' : State} {tok : String}
    {dec : Nat} {ga out : Rat} (h : sellGlp NumCtx.exact env s tok dec ga = (.ok out, s')) :
    let g := if ga = 0 then s.glp else ga
    ∃ r, env.row? tok = some r ∧ out * (r.price / 10 ^ 30) ≤ g * env.glpPrice ∧ 0 ≤ out ∧ 0 ≤ g ∧ g ≤ s.glp := by
  intro g
  obtain ⟨hg0, hgle, fee, br, hrem, _⟩ := Gmx.sellGlp_ok (g := g) rfl h
  obtain ⟨r, hr, hsup, hpne, hfee, hout⟩ := removeLiquidity_ok hrem
  have hP : 0 < r.price := he.price r (row_mem hr)
  have hS : 0 < env.glpSupply := he.glpSupply
  have hA : 0 ≤ aumU env := Gmx.aumU_nonneg he
  obtain ⟨hf0, hf1⟩ := feeBps_bounds he.toEnvNonneg hfee
  have hd : (0 : Rat) < 10 ^ dec := by positivity
  have hpp : (0 : Rat) < r.price / 10 ^ 30 := by positivity
  set U := quantDown 0 (g * 10 ^ 18 / env.glpSupply * aumU env) with hUdef
  have hy0 : 0 ≤ g * 10 ^ 18 / env.glpSupply * aumU env := by positivity
  have hUle : U ≤ g * 10 ^ 18 / env.glpSupply * aumU env := quantDown0_le hy0
  have hU0 : 0 ≤ U := quantDown0_nonneg hy0
  set R := U / (r.price / 10 ^ 30) * 10 ^ dec / 10 ^ 18 with hR
  have hR0 : 0 ≤ R := by positivity
  obtain ⟨ho0, ho1⟩ := afterFee_bounds hR0 hf0 hf1
  have hcc : env.glpPrice * env.glpSupply = aumU env := hc
  refine ⟨r, hr, ?_, by rw [hout]; positivity, hg0, hgle⟩
  have h1 : out ≤ R / 10 ^ dec := by rw [hout]; exact div_le_div_of_nonneg_right ho1 (le_of_lt hd)
  have h2 : R / 10 ^ dec * (r.price / 10 ^ 30) = U / 10 ^ 18 := by
    rw [hR]; field_simp
  calc out * (r.price / 10 ^ 30) ≤ R / 10 ^ dec * (r.price / 10 ^ 30) := mul_le_mul_of_nonneg_right h1 (le_of_lt hpp)
    _ = U / 10 ^ 18 := h2
    _ ≤ (g * 10 ^ 18 / env.glpSupply * aumU env) / 10 ^ 18 := div_le_div_of_nonneg_right hUle (by positivity)
    _ = g * (aumU env / env.glpSupply) := by field_simp
    _ = g * env.glpPrice := by rw [← hcc]; field_simp

/-- dust allowance of one operation: `1e-5 ×` the wallet balance a buy touches `×` its price; nothing for a sale -/
def Gmx.dustOf (price : String → Rat) (s : State) : Op → Rat
  | .buy tok _ _ => assetDust * balanceOf s.wallet (walletKey tok) * price (walletKey tok)
  | _ => 0

/-- no negative holding: GLP and every wallet balance -/
def Gmx.Inv (s : State) : Prop := 0 ≤ s.glp ∧ ∀ p ∈ s.wallet, 0 ≤ p.2

theorem Gmx.balanceOf_nonneg {w : Wallet} (hw : ∀ p ∈ w, 0 ≤ p.2) (k : String) : 0 ≤ balanceOf w k := by
  unfold balanceOf
  cases h : AList.get? w k with
  | none => simp
  | some b =>
    simp only [Option.getD_some]
    unfold AList.get? at h
    cases hf : List.find? (fun p => decide (p.1 = k)) w with
    | none => simp [hf] at h
    | some p =>
      simp only [hf, Option.map_some, Option.some.injEq] at h
      have := hw p (List.mem_of_find?_eq_some hf)
      rw [← h]; exact this

theorem Gmx.set_nonneg {w : Wallet} (hw : ∀ p ∈ w, 0 ≤ p.2) (k : String) {v : Rat} (hv : 0 ≤ v) :
    ∀ p ∈ AList.set w k v, 0 ≤ p.2 := by
  induction w with
  | nil => intro p hp; simp [AList.set] at hp; subst hp; exact hv
  | cons q rest ih =>
    obtain ⟨k', v'⟩ := q
    intro p hp
    by_cases hk : k' = k
    · simp [AList.set, hk] at hp
      rcases hp with rfl | hp
      · exact hv
      · exact hw p (List.mem_cons_of_mem _ hp)
    · simp [AList.set, hk] at hp
      rcases hp with rfl | hp
      · exact hw _ (List.mem_cons_self)
      · exact ih (fun p hp => hw p (List.mem_cons_of_mem _ hp)) p hp

/-- **no operation, accepted or rejected, raises the account's net value by more than the dust allowance**
    (`1e-5` of the wallet balance it touches), on a price-consistent frozen row valued at the row's own prices. -/
theorem C03_gmx_v1_no_value_created {price : String → Rat} {env : Env} (he : EnvPos env) (hc : Gmx.PriceConsistent env)
    (hpr : Gmx.PricesFromRow price env) (hp0 : ∀ k, 0 ≤ price k) (s : State) (hinv : Gmx.Inv s) (op : Op) (hop : op ≠ .update) :
    Gmx.netWorth price env (step NumCtx.exact env s op).2 ≤ Gmx.netWorth price env s + Gmx.dustOf price s op := by
  have hd := assetDust_pos
  cases op with
  | update => exact absurd rfl hop
  | buy tok dec a =>
    show Gmx.netWorth price env (buyGlp NumCtx.exact env s tok dec a).2 ≤ _
    have hdust : 0 ≤ Gmx.dustOf price s (.buy tok dec a) := by
      have := Gmx.balanceOf_nonneg hinv.2 (walletKey tok)
      have := hp0 (walletKey tok)
      simp only [Gmx.dustOf]; positivity
    cases hb : buyGlp NumCtx.exact env s tok dec a with
    | mk res s' =>
      cases res with
      | error e => rw [buyGlp_reject hb]; simp only []; linarith
      | ok g =>
        obtain ⟨r, hr, hval, _⟩ := C03_gmx_v1_mint_value_le_paid he hc hb
        obtain ⟨ha, mint, fee, br, w, _, hw, _, hs'⟩ := Gmx.buyGlp_ok hb
        have hpk : price (walletKey tok) = r.price / 10 ^ 30 := by
          have := hpr r (row_mem hr); rw [Gmx.row_name hr] at this; exact this
        have hwv := walletValue_debit (price := price) ha (hp0 _) hw
        simp only []
        rw [hs']
        unfold Gmx.netWorth
        rw [Gmx.netValue_eq, Gmx.netValue_eq]
        simp only [Gmx.dustOf]
        rw [hpk] at hwv ⊢
        nlinarith
  | sell tok dec ga =>
    show Gmx.netWorth price env (sellGlp NumCtx.exact env s tok dec ga).2 ≤ _
    simp only [Gmx.dustOf, add_zero]
    cases hb : sellGlp NumCtx.exact env s tok dec ga with
    | mk res s' =>
      cases res with
      | error e => rw [sellGlp_reject hb]
      | ok out =>
        obtain ⟨r, hr, hval, _, _, _⟩ := C03_gmx_v1_redeem_value_le_held he hc hb
        obtain ⟨_, _, fee, br, _, hs'⟩ := Gmx.sellGlp_ok (g := if ga = 0 then s.glp else ga) rfl hb
        have hpk : price (walletKey tok) = r.price / 10 ^ 30 := by
          have := hpr r (row_mem hr); rw [Gmx.row_name hr] at this; exact this
        simp only []
        rw [hs']
        unfold Gmx.netWorth
        rw [Gmx.netValue_eq, Gmx.netValue_eq]
        simp only []
        rw [walletValue_credit, hpk]
        nlinarith

/-- **no holding ever becomes negative**: GLP and every wallet balance, for every operation, accepted or rejected -/
theorem C03_gmx_v1_inv_preserved {env : Env} (he : EnvPos env) (s : State) (hinv : Gmx.Inv s) (op : Op) :
    Gmx.Inv (step NumCtx.exact env s op).2 := by
  refine ⟨C17_v1_holding_nonneg he s op hinv.1, ?_⟩
  cases op with
  | update =>
    show ∀ p ∈ (update NumCtx.exact env s).2.wallet, 0 ≤ p.2
    unfold update; simp only []
    split <;> exact hinv.2
  | buy tok dec a =>
    show ∀ p ∈ (buyGlp NumCtx.exact env s tok dec a).2.wallet, 0 ≤ p.2
    cases hb : buyGlp NumCtx.exact env s tok dec a with
    | mk res s' =>
      cases res with
      | error e => rw [buyGlp_reject hb]; exact hinv.2
      | ok g =>
        obtain ⟨ha, mint, fee, br, w, _, hw, _, hs'⟩ := Gmx.buyGlp_ok hb
        obtain ⟨b, b', _, hsub, rfl⟩ := debit_ok hw
        obtain ⟨_, hb', _, _⟩ := assetSub_paid ha hsub
        simp only []; rw [hs']
        exact Gmx.set_nonneg hinv.2 _ hb'
  | sell tok dec ga =>
    show ∀ p ∈ (sellGlp NumCtx.exact env s tok dec ga).2.wallet, 0 ≤ p.2
    cases hb : sellGlp NumCtx.exact env s tok dec ga with
    | mk res s' =>
      cases res with
      | error e => rw [sellGlp_reject hb]; exact hinv.2
      | ok out =>
        -- the payout is non-negative (needs positive prices), so the credited balance is
        obtain ⟨_, _, fee, br, hrem, hs'⟩ := Gmx.sellGlp_ok (g := if ga = 0 then s.glp else ga) rfl hb
        have hout : 0 ≤ out := by
          obtain ⟨r, hr, hsup, hpne, hfee, hout⟩ := removeLiquidity_ok hrem
          have hP : 0 < r.price := he.price r (row_mem hr)
          have hS := he.glpSupply
          have hA := Gmx.aumU_nonneg he
          obtain ⟨hf0, hf1⟩ := feeBps_bounds he.toEnvNonneg hfee
          obtain ⟨hg0, _⟩ := C17_v1_redeem_le_held hb
          have hy0 : 0 ≤ (if ga = 0 then s.glp else ga) * 10 ^ 18 / env.glpSupply * aumU env := by positivity
          have hU0 := quantDown0_nonneg hy0
          have hR0 : 0 ≤ quantDown 0 ((if ga = 0 then s.glp else ga) * 10 ^ 18 / env.glpSupply * aumU env) / (r.price / 10 ^ 30) * 10 ^ dec / 10 ^ 18 := by positivity
          obtain ⟨ho0, _⟩ := afterFee_bounds hR0 hf0 hf1
          rw [hout]; positivity
        simp only []; rw [hs']; simp only []
        unfold Wallet.credit assetAdd
        cases hget : AList.get? s.wallet (walletKey tok) with
        | none => simp only [NumCtx.exact_add]; exact Gmx.set_nonneg hinv.2 _ (by linarith)
        | some b =>
          simp only [NumCtx.exact_add]
          have hb0 : 0 ≤ b := by
            have := Gmx.balanceOf_nonneg hinv.2 (walletKey tok)
            unfold balanceOf at this; rw [hget] at this; simpa using this
          exact Gmx.set_nonneg hinv.2 _ (by linarith)

/-- run a sequence of buy/sell operations on the frozen row, accumulating the dust allowance -/
def Gmx.runSeq (price : String → Rat) (env : Env) : List Op → State → State × Rat
  | [], s => (s, 0)
  | op :: ops, s =>
    let r := Gmx.runSeq price env ops (step NumCtx.exact env s op).2
    (r.1, Gmx.dustOf price s op + r.2)

/-- **lifted to sequences**: after any list of buy/sell calls (accepted or rejected, any tokens, any amounts) on a frozen
    price-consistent row the net value is at most the initial one plus the accumulated dust allowance, and no holding is negative. -/
theorem C03_gmx_v1_sequence {price : String → Rat} {env : Env} (he : EnvPos env) (hc : Gmx.PriceConsistent env)
    (hpr : Gmx.PricesFromRow price env) (hp0 : ∀ k, 0 ≤ price k) (ops : List Op) (hops : ∀ op ∈ ops, op ≠ .update)
    (s : State) (hinv : Gmx.Inv s) :
    Gmx.netWorth price env (Gmx.runSeq price env ops s).1 ≤ Gmx.netWorth price env s + (Gmx.runSeq price env ops s).2 ∧
    Gmx.Inv (Gmx.runSeq price env ops s).1 := by
  induction ops generalizing s with
  | nil => simp [Gmx.runSeq]; exact hinv
  | cons op ops ih =>
    have h1 := C03_gmx_v1_no_value_created he hc hpr hp0 s hinv op (hops op List.mem_cons_self)
    have hinv' := C03_gmx_v1_inv_preserved he s hinv op
    obtain ⟨h2, h3⟩ := ih (fun o ho => hops o (List.mem_cons_of_mem _ ho)) _ hinv'
    simp only [Gmx.runSeq]
    exact ⟨by linarith, h3⟩
end V1

/-! ## v2 -/
section V2
open GmxV2 Gmx2

variable {pw : Rat → Rat → Rat}

/-- `get_market_balance().net_value` of the GM market -/
def Gmx2.shareValue (ps : Pool Rat) (amount : Rat) : Rat := if amount > 0 then amount * ps.poolValue / ps.supply else 0

def Gmx2.netWorth (price : String → Rat) (ps : Pool Rat) (s : State Rat) : Rat :=
  walletValue price s.wallet + Gmx2.shareValue ps s.amount

theorem Gmx2.shareValue_eq {ps : Pool Rat} {x : Rat} (hx : 0 ≤ x) : Gmx2.shareValue ps x = x * (ps.poolValue / ps.supply) := by
  unfold Gmx2.shareValue
  by_cases h : x > 0
  · rw [if_pos h]; ring
  · rw [if_neg h]; have : x = 0 := le_antisymm (not_lt.mp h) hx; subst this; simp

/-- **minting never hands out more value than it takes when the price impact is not positive** -/
theorem C03_gmx_v2_mint_value_le_paid {cfg : Config Rat} (hc : CfgOK cfg) {ps : Pool Rat} (hp : PoolPos ps) {la sa : Rat}
    (hla : 0 ≤ la) (hsa : 0 ≤ sa) {r : LPResult Rat} {tag : String}
    (hm : mintAmount (ratOps pw) cfg ps la sa = .ok (r, tag)) (himp : r.priceImpactUsd ≤ 0) :
    r.gmAmount * (ps.poolValue / ps.supply) ≤ la * ps.longPrice + sa * ps.shortPrice := by
  obtain ⟨_, _, _, _, _, hv, _, _⟩ := mintAmount_ok hp hm
  have hpL := hp.longPrice
  have hpS := hp.shortPrice
  have hlu : 0 ≤ la * ps.longPrice := by positivity
  have hsu : 0 ≤ sa * ps.shortPrice := by positivity
  have hsh1 : r.priceImpactUsd * (la * ps.longPrice) / (la * ps.longPrice + sa * ps.shortPrice) ≤ 0 :=
    div_nonpos_of_nonpos_of_nonneg (mul_nonpos_of_nonpos_of_nonneg himp hlu) (by linarith)
  have hsh2 : r.priceImpactUsd * (sa * ps.shortPrice) / (la * ps.longPrice + sa * ps.shortPrice) ≤ 0 :=
    div_nonpos_of_nonpos_of_nonneg (mul_nonpos_of_nonpos_of_nonneg himp hsu) (by linarith)
  have h1 := Gmx2.sideValue_le_paid hc ps.impactPool (amount := la) (pout := ps.shortPrice) hpL hsh1
  have h2 := Gmx2.sideValue_le_paid hc (sideLeft ps.impactPool la ps.shortPrice
    (r.priceImpactUsd * (la * ps.longPrice) / (la * ps.longPrice + sa * ps.shortPrice))) (amount := sa) (pout := ps.longPrice) hpS hsh2
  rw [max_eq_left hla] at h1
  rw [max_eq_left hsa] at h2
  rw [hv]; linarith

theorem Gmx2.get_set_ne {ν : Type} (w : AList String ν) (k k' : String) (v : ν) (hne : k ≠ k') :
    AList.get? (AList.set w k v) k' = AList.get? w k' := by
  induction w with
  | nil => simp [AList.set, AList.get?, List.find?, hne]
  | cons p rest ih =>
    obtain ⟨q, x⟩ := p
    by_cases hq : q = k
    · subst hq
      simp [AList.set, AList.get?, List.find?, hne]
    · simp only [AList.set, hq, if_false]
      unfold AList.get? at ih ⊢
      by_cases hq' : q = k'
      · simp [List.find?, hq']
      · simp only [List.find?, hq', decide_false]
        exact ih

/-- **a deposit with a non-positive price impact never raises the account's net value by more than the dust allowance**
    (`1e-5 ×` the two wallet balances it touches, at their prices); the statement is false for a positive impact, see below -/
theorem C03_gmx_v2_deposit_partial {price : String → Rat} {cfg : Config Rat} (hc : CfgOK cfg) {ps : Pool Rat} (hp : PoolPos ps)
    {lk sk : String} (hne : lk ≠ sk) (hpl : price lk = ps.longPrice) (hps : price sk = ps.shortPrice)
    {s s' : State Rat} (hs : 0 ≤ s.amount) {la sa : Rat} {r : LPResult Rat} {tag : String}
    (h : deposit (ratOps pw) NumCtx.exact cfg ps lk sk s la sa = (.ok (r, tag), s'))
    (himp : r.priceImpactUsd ≤ 0) :
    Gmx2.netWorth price ps s' ≤ Gmx2.netWorth price ps s
      + assetDust * (balanceOf s.wallet lk * ps.longPrice + balanceOf s.wallet sk * ps.shortPrice) := by
  obtain ⟨hla, hsa, hm, hamt, _, w1, hw1, hw2⟩ := Gmx2.deposit_ok h
  obtain ⟨_, _, hl, hsh, _, _, _, _⟩ := mintAmount_ok hp hm
  have hgm := Gmx2.gm_nonneg hc hp hla hsa hm
  have hval := C03_gmx_v2_mint_value_le_paid hc hp hla hsa hm himp
  rw [hl] at hw1
  rw [hsh] at hw2
  have hpL := hp.longPrice
  have hpS := hp.shortPrice
  have d1 := walletValue_debit (price := price) hla (by rw [hpl]; exact le_of_lt hpL) hw1
  have d2 := walletValue_debit (price := price) hsa (by rw [hps]; exact le_of_lt hpS) hw2
  have hbal : balanceOf w1 sk = balanceOf s.wallet sk := by
    obtain ⟨b, b', _, _, rfl⟩ := debit_ok hw1
    unfold balanceOf; rw [Gmx2.get_set_ne _ _ _ _ hne]
  rw [hbal] at d2
  rw [hpl] at d1
  rw [hps] at d2
  unfold Gmx2.netWorth
  rw [hamt, Gmx2.shareValue_eq hs, Gmx2.shareValue_eq (by linarith)]
  nlinarith

/-- **a withdrawal never raises the account's net value**: it pays out the value of the shares less the fee, and never more
    shares than are held -/
theorem C03_gmx_v2_withdraw_no_value_created {price : String → Rat} {cfg : Config Rat} (hc : CfgOK cfg) {ps : Pool Rat} (hp : PoolPos ps)
    {lk sk : String} (hpl : price lk = ps.longPrice) (hps : price sk = ps.shortPrice)
    {s s' : State Rat} {amt : Option Rat} {r : LPResult Rat}
    (h : withdraw (ratOps pw) NumCtx.exact cfg ps lk sk s amt = (.ok r, s')) :
    Gmx2.netWorth price ps s' ≤ Gmx2.netWorth price ps s ∧ 0 ≤ amt.getD s.amount ∧ amt.getD s.amount ≤ s.amount := by
  obtain ⟨h0, h1, ho, hamt, _, hw⟩ := Gmx2.withdraw_ok h
  obtain ⟨_, _, _, _, hg, _, _, hv⟩ := outputAmount_ok ho
  refine ⟨?_, h0, h1⟩
  have hk : 0 < ps.poolValue / ps.supply := div_pos hp.poolValue hp.supply
  unfold Gmx2.netWorth
  rw [hw, hamt, hg]
  rw [walletValue_credit, walletValue_credit, hpl, hps]
  rw [Gmx2.shareValue_eq (by linarith : 0 ≤ s.amount - amt.getD s.amount), Gmx2.shareValue_eq (by linarith : 0 ≤ s.amount)]
  have hw0 := hc.wn0
  have : ps.poolValue * amt.getD s.amount / ps.supply = amt.getD s.amount * (ps.poolValue / ps.supply) := by ring
  rw [this] at hv
  have hpos : 0 ≤ amt.getD s.amount * (ps.poolValue / ps.supply) := by positivity
  nlinarith

/-- value of the GM minted by a deposit on a given state, and its price impact -/
def Gmx2.mintedValue (pw : Rat → Rat → Rat) (cx : NumCtx) (cfg : Config Rat) (ps : Pool Rat) (lk sk : String) (s : State Rat)
    (la sa : Rat) : Option (Rat × Rat) :=
  match deposit (ratOps pw) cx cfg ps lk sk s la sa with
  | (.ok (r, _), _) => some (r.gmAmount * (ps.poolValue / ps.supply), r.priceImpactUsd)
  | _ => none

/-- **witness: a deposit with a positive price impact creates value on a frozen row.**  Default configuration, demo pool
    (10 M USD long / 30 M USD short): 500 long tokens worth 1 000 000 USD mint GM worth ≈ 1 007 300 USD
    (finding `gmx.v2.deposit.value_created.positive_impact`; the impact pool pays for rebalancing deposits by design). -/
theorem C03_fails_gmx_v2_deposit_positive_impact :
    ∃ v imp, Gmx2.mintedValue Gmx2.sq NumCtx.exact Gmx2.defaultCfg Gmx2.demoPool "WETH" "USDC" Gmx2.demoState 500 0 = some (v, imp) ∧
      0 < imp ∧ 500 * Gmx2.demoPool.longPrice + 0 * Gmx2.demoPool.shortPrice < v :=
  ⟨9513679516389187250097578125 / 9444732965739290427392, 73668917132766468017578125 / 9444732965739290427392,
   by decide +kernel, by norm_num, by norm_num [Gmx2.demoPool]⟩

end V2

/-! ### non-vacuity -/

/-- the demo row of C17 is price-consistent (8·10²⁴ GLP at 1.25 USD = ⌊10³⁷/10¹²⌋) and meets `EnvPos`; the demo state meets `Inv` -/
example : Gmx.PriceConsistent Gmx.demoEnv := by
  unfold Gmx.PriceConsistent aumU Gmx.demoEnv; simp only []; decide +kernel
example : Gmx.Inv Gmx.demoState := by
  refine ⟨by norm_num [Gmx.demoState], ?_⟩
  intro p hp; simp [Gmx.demoState] at hp; subst hp; norm_num
/-- a heavy-side deposit has a negative impact: the hypothesis of `C03_gmx_v2_deposit_partial` is satisfiable -/
example : ∃ v imp, Gmx2.mintedValue Gmx2.sq NumCtx.exact Gmx2.defaultCfg Gmx2.demoPool "WETH" "USDC" Gmx2.demoState 0 40000 = some (v, imp)
    ∧ imp < 0 ∧ v < 40000 :=
  ⟨185737096189679848863278125 / 4722366482869645213696, -3025336863585609619921875 / 4722366482869645213696,
   by decide +kernel, by norm_num, by norm_num⟩

end Demeter
