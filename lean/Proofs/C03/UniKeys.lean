/-
  C03 / C01, Uniswap part: position keys stay unique (the positions container is a Python dict), so every position
  is one holding: valued once (C01), credited once by an add, debited once by a remove (C03).
-/
import Proofs.Lemmas.UniStepRel
import Proofs.Lemmas.UniValue
import Mathlib.Data.List.Nodup
namespace Demeter.Uni
open Demeter

def keyOf (p : Pos) : Int × Int := (p.lower, p.upper)

def KeysNodup (ps : List Pos) : Prop := (ps.map keyOf).Nodup

theorem hasKey_iff (p : Pos) (lo up : Int) : p.hasKey lo up = true ↔ keyOf p = (lo, up) := by
  unfold Pos.hasKey keyOf; simp [Prod.ext_iff]

theorem mapPos_keys (ps : List Pos) (lo up : Int) (f : Pos → Pos) (hf : ∀ q, q.hasKey lo up = true → keyOf (f q) = keyOf q) :
    (mapPos ps lo up f).map keyOf = ps.map keyOf := by
  unfold mapPos
  induction ps with
  | nil => rfl
  | cons q qs ih =>
    simp only [List.map_cons, ih]
    by_cases h : q.hasKey lo up = true
    · simp only [h, if_true, hf q h]
    · simp only [h, Bool.false_eq_true, if_false]

theorem findPos_none_not_mem {ps : List Pos} {lo up : Int} (h : findPos ps lo up = none) : (lo, up) ∉ ps.map keyOf := by
  intro hm
  obtain ⟨q, hq, hk⟩ := List.mem_map.mp hm
  unfold findPos at h
  have := List.find?_eq_none.mp h q hq
  exact this ((hasKey_iff q lo up).mpr hk)

theorem findPos_some_key {ps : List Pos} {lo up : Int} {p : Pos} (h : findPos ps lo up = some p) : p.hasKey lo up = true := by
  unfold findPos at h
  have := List.find?_some h
  simpa using this

/-- unique keys + a hit = the decomposition the valuation lemmas use -/
theorem uniqueKey_of_nodup {ps : List Pos} {lo up : Int} {p0 : Pos} (hn : KeysNodup ps) (hf : findPos ps lo up = some p0) :
    UniqueKey ps lo up p0 := by
  unfold findPos at hf
  induction ps with
  | nil => cases hf
  | cons q qs ih =>
    unfold KeysNodup at hn
    simp only [List.map_cons, List.nodup_cons] at hn
    by_cases hq : q.hasKey lo up = true
    · simp only [List.find?_cons, hq] at hf
      injection hf with hf; subst hf
      refine ⟨[], qs, rfl, (fun _ h => by cases h), ?_, hq⟩
      intro x hx
      by_contra hc
      have hxk : x.hasKey lo up = true := by simpa using hc
      have e1 := (hasKey_iff x lo up).mp hxk
      have e2 := (hasKey_iff q lo up).mp hq
      exact hn.1 (List.mem_map.mpr ⟨x, hx, e1.trans e2.symm⟩)
    · have hq' : q.hasKey lo up = false := by simpa using hq
      simp only [List.find?_cons, hq'] at hf
      obtain ⟨l, r, e, hl, hr, hk⟩ := ih hn.2 hf
      refine ⟨q :: l, r, by rw [e]; rfl, ?_, hr, hk⟩
      intro x hx
      rcases List.mem_cons.mp hx with h | h
      · rw [h]; exact hq'
      · exact hl x h

/-- every operation keeps the keys unique -/
def KeysRel (s s' : State) : Prop := KeysNodup s.positions → KeysNodup s'.positions

theorem keysRel_mapPos (s : State) (lo up : Int) (f : Pos → Pos) (hf : ∀ q, q.hasKey lo up = true → keyOf (f q) = keyOf q)
    (s' : State) (h : s'.positions = mapPos s.positions lo up f) : KeysRel s s' := by
  intro hn; unfold KeysNodup at *; rw [h, mapPos_keys _ _ _ _ hf]; exact hn

theorem keysRel_same (s s' : State) (h : s'.positions = s.positions) : KeysRel s s' := by
  intro hn; rw [h]; exact hn

theorem erasePos_keys_nodup (ps : List Pos) (lo up : Int) (h : KeysNodup ps) : KeysNodup (erasePos ps lo up) := by
  unfold KeysNodup erasePos at *
  exact List.Nodup.sublist (List.Sublist.map _ List.filter_sublist) h

theorem mapPos_keys_nodup (ps : List Pos) (lo up : Int) (f : Pos → Pos) (hf : ∀ q, q.hasKey lo up = true → keyOf (f q) = keyOf q)
    (h : KeysNodup ps) : KeysNodup (mapPos ps lo up f) := by
  unfold KeysNodup at *; rw [mapPos_keys _ _ _ _ hf]; exact h

theorem const_keeps_key {p0 p' : Pos} {lo up : Int} (hk : p0.hasKey lo up = true) (hp : keyOf p' = keyOf p0) :
    ∀ q, q.hasKey lo up = true → keyOf ((fun _ => p') q) = keyOf q := by
  intro q hq
  rw [(hasKey_iff q lo up).mp hq, hp, (hasKey_iff p0 lo up).mp hk]

theorem addToPositions_keys {K : Kern} {pool : Pool} {s : State} {lo up liq : Int} {sqrt : Nat} {ent : Option Pos}
    (hent : newEntity K pool s lo up liq sqrt = .ok ent) (hn : KeysNodup s.positions) :
    KeysNodup (addToPositions s.positions lo up liq ent) := by
  unfold newEntity at hent
  cases hf : findPos s.positions lo up with
  | some p0 =>
    rw [hf] at hent
    injection hent with hent; subst hent
    exact mapPos_keys_nodup _ _ _ _ (fun _ _ => rfl) hn
  | none =>
    rw [hf] at hent
    simp only [] at hent
    split at hent
    · injection hent with hent; subst hent
      unfold KeysNodup addToPositions
      simp only [List.map_append, List.map_cons, List.map_nil]
      have hkey : ∀ (a b c : Rat), keyOf (if pool.q0 = true then mkPos lo up liq a b c else mkPos lo up liq b a c) = (lo, up) := by
        intro a b c; split <;> rfl
      rw [List.nodup_append]
      refine ⟨hn, List.nodup_singleton _, ?_⟩
      intro x hx y hy
      simp only [List.mem_singleton] at hy
      subst hy
      intro e
      apply findPos_none_not_mem hf
      rw [← hkey, ← e]; exact hx
    · cases hent
    · cases hent
    · cases hent

theorem collect_keys (K : Kern) (pool : Pool) (s : State) (lo up : Int) (m0 m1 : Option Rat) (rd tu : Bool) :
    KeysRel s (collect K pool s lo up m0 m1 rd tu).2 := by
  intro hn
  unfold collect
  split
  · exact hn
  · split
    · exact hn
    · rename_i p hf
      have hk := findPos_some_key hf
      have hmap : KeysNodup (mapPos s.positions lo up (fun _ => collectPos K.cx p (capAt m0 p.pending0) (capAt m1 p.pending1))) :=
        mapPos_keys_nodup _ _ _ _ (const_keeps_key hk rfl) hn
      split
      · exact hn
      · split
        · exact hn
        · split
          · show KeysNodup (collectFinish K pool s lo up p _ _ rd tu _ _).positions
            unfold collectFinish
            simp only [Uni.record, collectCore, markUpdate]
            split
            · exact erasePos_keys_nodup _ _ _ hmap
            · exact hmap
          · exact hmap
          · exact hmap

theorem removeNoCollect_keys (K : Kern) (pool : Pool) (s : State) (lo up : Int) (l : Option Int) (sq : Option Nat) :
    KeysRel s (removeNoCollect K pool s lo up l sq).2 := by
  intro hn
  unfold removeNoCollect
  split
  · exact hn
  · split
    · exact hn
    · split
      · exact hn
      · split
        · exact hn
        · split
          · exact hn
          · rename_i p hf
            have hk := findPos_some_key hf
            split
            · exact hn
            · have hmap : ∀ g0 g1, KeysNodup (mapPos s.positions lo up
                  (fun _ => removePos K.cx p (removeDelta l p).1 (removeDelta l p).2 g0 g1)) :=
                fun g0 g1 => mapPos_keys_nodup _ _ _ _ (const_keeps_key hk rfl) hn
              split <;> exact hmap _ _

theorem keysRel_stepRel (K : Kern) (pool : Pool) : StepRel K pool KeysRel :=
  { refl := fun _ h => h
    trans := fun h1 h2 h => h2 (h1 h)
    record := fun s a => keysRel_same s _ rfl
    addRaw := by
      intro s a0 a1 lo up sq
      unfold addRaw
      repeat' split
      all_goals first
        | exact fun h => h
        | skip
      rename_i ent hent _ _ _
      exact fun hn => addToPositions_keys hent hn
    collect := collect_keys K pool
    remove := by
      intro s lo up l c sq rd
      unfold remove
      have h := removeNoCollect_keys K pool s lo up l sq
      split
      · rename_i heq; rw [heq] at h; exact h
      · rename_i heq; rw [heq] at h
        split
        · exact fun hn => collect_keys K pool _ lo up none none rd true (h hn)
        · exact h
    swap := by
      intro s a f t p log
      unfold swap
      repeat' split
      all_goals exact fun h => h
    transferOut := by
      intro s lo up
      unfold transferOut
      repeat' split
      all_goals first
        | exact fun h => h
        | exact fun hn => mapPos_keys_nodup _ _ _ _ (fun _ _ => rfl) hn
    transferIn := by
      intro s lo up
      unfold transferIn
      repeat' split
      all_goals first
        | exact fun h => h
        | exact fun hn => mapPos_keys_nodup _ _ _ _ (fun _ _ => rfl) hn }

end Demeter.Uni

namespace Demeter
open Demeter.Uni

/-- **Every position is one holding.** Position keys are unique in a market without positions and stay unique under
    every operation list (accepted or rejected operations): the model's positions list is a dict, as in the code. -/
theorem C03_uni_keys_unique (K : Kern) (pool : Pool) (minError : Rat) (s : State) (ops : List Op)
    (h : (s.positions.map (fun p => (p.lower, p.upper))).Nodup) :
    ((runOps K pool minError s ops).positions.map (fun p => (p.lower, p.upper))).Nodup :=
  (keysRel_stepRel K pool).runOps minError ops s h

/-- … and with unique keys a position found under a key is *the* entry with that key: the `UniqueKey` hypothesis of
    the conservation theorems (C03) and "counted once" of the valuation (C01) hold in every reachable state. -/
theorem C03_uni_unique_of_keys (ps : List Pos) (lo up : Int) (p0 : Pos)
    (hn : (ps.map (fun p => (p.lower, p.upper))).Nodup) (hf : findPos ps lo up = some p0) :
    UniqueKey ps lo up p0 := uniqueKey_of_nodup hn hf

end Demeter
