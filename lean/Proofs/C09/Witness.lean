/-
  C09 — a NON-TRIVIAL kernel that satisfies the mirror law exactly, so that the hypotheses of `C09_orchestration` (and of
  the view theorems) are known to be satisfiable by something that behaves like a concentrated-liquidity kernel:

  `gridKern` is the rational (floor-free) Uniswap v3 math on the three-point sqrt-price grid `{1, 2, 4}` (unit `Q = 2`, so
  `s ↦ 4 / s` is the exact reciprocal): ticks `< 0`, `= 0`, `> 0` have sqrt prices 1, 2, 4; the amounts of a position are
  `l·Q·(1/s − 1/sb)` of token0 and `l·(s − sa)/Q` of token1 with the three regimes below / inside / above the range decided
  exactly as `get_amounts` does (`s ≤ sa`, `s < sb`); `new_position` takes the smaller of the two liquidities the offered
  amounts support (floored to an integer) and returns the amounts that liquidity needs; prices are `(s/Q)²` resp. its
  reciprocal by token order.  ONE kernel is used on both sides (`K = K' = gridKern`); the orientation enters only through
  `pool.q0`, as in the code.  The examples at the end exercise all three regimes with amounts that differ by side.
-/
import Demeter.Uni.Mirror
import Proofs.Lemmas.UniMirror
import Proofs.Lemmas.Exact
import Proofs.C04.Uni
import Proofs.C09
import Mathlib.Tactic.FieldSimp
import Mathlib.Tactic.Ring
import Mathlib.Tactic.Linarith
import Mathlib.Tactic.NormNum
namespace Demeter.Uni.Grid
open Demeter Demeter.Uni

/-- a grid value -/
def G (n : Nat) : Prop := n = 1 ∨ n = 2 ∨ n = 4

/-- any integer sqrt price is read on the grid -/
def snap (s : Nat) : Nat := if s ≤ 1 then 1 else if s ≤ 3 then 2 else 4

/-- the reciprocal on the grid -/
def inv (s : Nat) : Nat := 4 / snap s

/-- sqrt price of a tick -/
def tsq (t : Int) : Nat := if t < 0 then 1 else if t = 0 then 2 else 4

theorem G_snap (s : Nat) : G (snap s) := by unfold snap G; split_ifs <;> simp
theorem G_tsq (t : Int) : G (tsq t) := by unfold tsq G; split_ifs <;> simp
theorem snap_G {n : Nat} (h : G n) : snap n = n := by rcases h with h | h | h <;> subst h <;> rfl
theorem G_inv4 {n : Nat} (h : G n) : G (4 / n) := by rcases h with h | h | h <;> subst h <;> unfold G <;> simp
theorem snap_inv (s : Nat) : snap (inv s) = 4 / snap s := snap_G (G_inv4 (G_snap s))
theorem tsq_neg (t : Int) : tsq (-t) = 4 / tsq t := by
  unfold tsq
  rcases lt_trichotomy t 0 with h | h | h
  · rw [if_neg (by omega), if_neg (by omega), if_pos h]
  · subst h; rfl
  · rw [if_pos (by omega), if_neg (by omega), if_neg (by omega)]
theorem inv4_le {a b : Nat} (ha : G a) (hb : G b) : (4 / a ≤ 4 / b) ↔ b ≤ a := by
  rcases ha with h | h | h <;> rcases hb with h' | h' | h' <;> subst h <;> subst h' <;> simp
theorem inv4_lt {a b : Nat} (ha : G a) (hb : G b) : (4 / a < 4 / b) ↔ b < a := by
  rcases ha with h | h | h <;> rcases hb with h' | h' | h' <;> subst h <;> subst h' <;> simp
theorem inv4_cast {n : Nat} (h : G n) : ((4 / n : Nat) : Rat) = 4 / (n : Rat) := by
  rcases h with h | h | h <;> subst h <;> norm_num
theorem G_pos {n : Nat} (h : G n) : (0 : Rat) < (n : Rat) := by
  rcases h with h | h | h <;> subst h <;> norm_num

/-- `get_amounts` without floors, unit `Q = 2` -/
def amts (S sa sb : Nat) (l : Rat) : Rat × Rat :=
  if S ≤ sa then (l * 2 * (1 / (sa : Rat) - 1 / (sb : Rat)), 0)
  else if S < sb then (l * 2 * (1 / (S : Rat) - 1 / (sb : Rat)), l * ((S : Rat) - (sa : Rat)) / 2)
  else (0, l * ((sb : Rat) - (sa : Rat)) / 2)

/-- `get_liquidity` (integer floor of the rational liquidity each offered amount supports) -/
def liqOf (S sa sb : Nat) (a0 a1 : Rat) : Int :=
  if S ≤ sa then Rat.floor (a0 / (2 * (1 / (sa : Rat) - 1 / (sb : Rat))))
  else if S < sb then
    let x := Rat.floor (a0 / (2 * (1 / (S : Rat) - 1 / (sb : Rat))))
    let y := Rat.floor (a1 / (((S : Rat) - (sa : Rat)) / 2))
    if x < y then x else y
  else Rat.floor (a1 / (((sb : Rat) - (sa : Rat)) / 2))

/-- price of a grid sqrt price in base/quote terms -/
def priceAt (pool : Pool) (S : Nat) : Rat :=
  if pool.q0 then (2 / (S : Rat)) * (2 / (S : Rat)) else ((S : Rat) / 2) * ((S : Rat) / 2)

def priceCell (x : Rat) : Nat := if x < 1 then 1 else if x = 1 then 2 else 4

def gridKern : Kern :=
  { cx := NumCtx.exact
    priceToSqrt := fun pool x => .ok (if pool.q0 then 4 / priceCell x else priceCell x)
    sqrtToPrice := fun pool s => .ok (priceAt pool (snap s))
    tickToPrice := fun pool t => .ok (priceAt pool (tsq t))
    newPos := fun _ s lo up a0 a1 =>
      if tsq lo ≥ tsq up then .error .zeroDiv else
      let l := liqOf (snap s) (tsq lo) (tsq up) a0 a1
      .ok ((amts (snap s) (tsq lo) (tsq up) l).1, (amts (snap s) (tsq lo) (tsq up) l).2, l)
    amounts := fun _ s lo up l _ =>
      if tsq lo ≥ tsq up then .ok (0, 0) else .ok (amts (snap s) (tsq lo) (tsq up) l)
    tickToSqrt := fun t => .ok (tsq t) }

theorem G_priceCell (x : Rat) : G (priceCell x) := by unfold priceCell G; split_ifs <;> simp

/-- the three regimes are exchanged (below ↔ above) and the amounts with them -/
theorem amts_mirror {S sa sb : Nat} (hS : G S) (ha : G sa) (hb : G sb) (hlt : sa < sb) (l : Rat) :
    amts (4 / S) (4 / sb) (4 / sa) l = ((amts S sa sb l).2, (amts S sa sb l).1) := by
  have pS := G_pos hS
  have pa := G_pos ha
  have pb := G_pos hb
  unfold amts
  simp only [inv4_le hS hb, inv4_lt hS ha]
  rw [inv4_cast hS, inv4_cast ha, inv4_cast hb]
  by_cases h1 : S ≤ sa
  · rw [if_pos h1, if_neg (by omega), if_neg (by omega)]
    refine Prod.ext ?_ ?_
    · rfl
    · show l * (4 / (sa : Rat) - 4 / (sb : Rat)) / 2 = l * 2 * (1 / (sa : Rat) - 1 / (sb : Rat))
      field_simp; ring
  · rw [if_neg h1]
    by_cases h2 : S < sb
    · rw [if_pos h2, if_neg (by omega), if_pos (by omega)]
      refine Prod.ext ?_ ?_
      · show l * 2 * (1 / (4 / (S : Rat)) - 1 / (4 / (sa : Rat))) = l * ((S : Rat) - (sa : Rat)) / 2
        field_simp; ring
      · show l * (4 / (S : Rat) - 4 / (sb : Rat)) / 2 = l * 2 * (1 / (S : Rat) - 1 / (sb : Rat))
        field_simp; ring
    · rw [if_neg h2, if_pos (by omega)]
      refine Prod.ext ?_ ?_
      · show l * 2 * (1 / (4 / (sb : Rat)) - 1 / (4 / (sa : Rat))) = l * ((sb : Rat) - (sa : Rat)) / 2
        field_simp; ring
      · rfl

theorem liqOf_mirror {S sa sb : Nat} (hS : G S) (ha : G sa) (hb : G sb) (hlt : sa < sb) (a0 a1 : Rat) :
    liqOf (4 / S) (4 / sb) (4 / sa) a1 a0 = liqOf S sa sb a0 a1 := by
  have pS := G_pos hS
  have pa := G_pos ha
  have pb := G_pos hb
  unfold liqOf
  simp only [inv4_le hS hb, inv4_lt hS ha]
  rw [inv4_cast hS, inv4_cast ha, inv4_cast hb]
  have e1 : 2 * (1 / (4 / (sb : Rat)) - 1 / (4 / (sa : Rat))) = ((sb : Rat) - (sa : Rat)) / 2 := by field_simp; ring
  have e2 : (4 / (sa : Rat) - 4 / (sb : Rat)) / 2 = 2 * (1 / (sa : Rat) - 1 / (sb : Rat)) := by field_simp; ring
  have e3 : 2 * (1 / (4 / (S : Rat)) - 1 / (4 / (sa : Rat))) = ((S : Rat) - (sa : Rat)) / 2 := by field_simp; ring
  have e4 : (4 / (S : Rat) - 4 / (sb : Rat)) / 2 = 2 * (1 / (S : Rat) - 1 / (sb : Rat)) := by field_simp; ring
  by_cases h1 : S ≤ sa
  · rw [if_pos h1, if_neg (by omega), if_neg (by omega), e2]
  · rw [if_neg h1]
    by_cases h2 : S < sb
    · rw [if_pos h2, if_neg (by omega), if_pos (by omega), e3, e4]
      split_ifs <;> omega
    · rw [if_neg h2, if_pos (by omega), e1]

/-- **the grid kernel satisfies the mirror law exactly, with itself on the other side**, for every pool -/
theorem gridKern_mirror (pool : Pool) : KernMirror gridKern gridKern pool inv := by
  refine { cx := rfl, priceToSqrt := ?_, sqrtToPrice := ?_, tickToPrice := ?_, newPos := ?_, amounts := ?_, tickToSqrt := ?_ }
  · intro x
    have hg := G_priceCell x
    show Except.ok _ = Except.ok _
    congr 1
    unfold inv
    cases hq : pool.q0 with
    | false => simp only [mPool, hq, Bool.not_false, if_true, Bool.false_eq_true, if_false, snap_G hg]
    | true =>
      simp only [mPool, hq, Bool.not_true, if_true, Bool.false_eq_true, if_false, snap_G (G_inv4 hg)]
      rcases hg with h | h | h <;> rw [h]
  · intro s
    show Except.ok _ = Except.ok _
    congr 1
    rw [snap_inv]
    have hg := G_snap s
    have hp := G_pos hg
    unfold priceAt
    cases hq : pool.q0 with
    | false => simp only [mPool, hq, Bool.not_false, if_true, Bool.false_eq_true, if_false, inv4_cast hg]; field_simp; norm_num
    | true => simp only [mPool, hq, Bool.not_true, if_true, Bool.false_eq_true, if_false, inv4_cast hg]; field_simp; norm_num
  · intro t
    show Except.ok _ = Except.ok _
    congr 1
    rw [tsq_neg]
    have hg := G_tsq t
    have hp := G_pos hg
    unfold priceAt
    cases hq : pool.q0 with
    | false => simp only [mPool, hq, Bool.not_false, if_true, Bool.false_eq_true, if_false, inv4_cast hg]; field_simp; norm_num
    | true => simp only [mPool, hq, Bool.not_true, if_true, Bool.false_eq_true, if_false, inv4_cast hg]; field_simp; norm_num
  · intro s lo up a0 a1
    show (if tsq (-up) ≥ tsq (-lo) then _ else _) = Except.map _ (if tsq lo ≥ tsq up then _ else _)
    rw [tsq_neg, tsq_neg, snap_inv]
    have ha := G_tsq lo
    have hb := G_tsq up
    have hS := G_snap s
    have hc : (4 / tsq up ≥ 4 / tsq lo) ↔ (tsq lo ≥ tsq up) := inv4_le ha hb
    by_cases h : tsq lo ≥ tsq up
    · rw [if_pos h, if_pos (hc.mpr h)]; rfl
    · rw [if_neg h, if_neg (fun x => h (hc.mp x))]
      have hlt : tsq lo < tsq up := by omega
      simp only [Except.map]
      rw [liqOf_mirror hS ha hb hlt, amts_mirror hS ha hb hlt]
  · intro s lo up l d
    show (if tsq (-up) ≥ tsq (-lo) then _ else _) = Except.map _ (if tsq lo ≥ tsq up then _ else _)
    rw [tsq_neg, tsq_neg, snap_inv]
    have ha := G_tsq lo
    have hb := G_tsq up
    have hS := G_snap s
    have hc : (4 / tsq up ≥ 4 / tsq lo) ↔ (tsq lo ≥ tsq up) := inv4_le ha hb
    by_cases h : tsq lo ≥ tsq up
    · rw [if_pos h, if_pos (hc.mpr h)]; rfl
    · rw [if_neg h, if_neg (fun x => h (hc.mp x))]
      have hlt : tsq lo < tsq up := by omega
      simp only [Except.map]
      rw [amts_mirror hS ha hb hlt]
  · intro t
    show Except.ok _ = Except.ok _
    congr 1
    rw [tsq_neg]
    unfold inv
    rw [snap_G (G_tsq t)]

theorem gridKern_tickErr (pool : Pool) : TickErr gridKern pool := by
  intro t e h
  cases h

end Demeter.Uni.Grid

namespace Demeter
open Demeter.Uni Demeter.Uni.Grid

/-- **non-vacuity of `C09_orchestration` and of the view theorems with a kernel that is not a toy**: the grid kernel (one
    kernel on both sides) satisfies the mirror law, the tick-error convention and — with `toyPool`/`toyState` — every other
    hypothesis of the theorem. -/
theorem C09_mirror_law_has_nontrivial_instance :
    KernMirror gridKern gridKern toyPool Grid.inv ∧ TickErr gridKern toyPool ∧ toyPool.tok0 ≠ toyPool.tok1 ∧
    WalletHas toyPool toyState.wallet :=
  ⟨gridKern_mirror toyPool, gridKern_tickErr toyPool, by decide, ⟨by unfold Has; decide, by unfold Has; decide⟩⟩

/-- the instance exercises the three regimes with amounts that depend on the side: range `[-1, 1]` (sqrt prices 1 … 4),
    liquidity 8: price below the range → only token0 (12, 0); inside → both (4, 4); above → only token1 (0, 12);
    and on the mirror the same amounts exchanged, at the reciprocal sqrt price -/
example :
    gridKern.amounts toyPool 1 (-1) 1 8 false = .ok (12, 0) ∧
    gridKern.amounts toyPool 2 (-1) 1 8 false = .ok (4, 4) ∧
    gridKern.amounts toyPool 4 (-1) 1 8 false = .ok (0, 12) ∧
    gridKern.amounts (mPool toyPool) (Grid.inv 1) (-1) 1 8 false = .ok (0, 12) ∧
    gridKern.amounts (mPool toyPool) (Grid.inv 4) (-1) 1 8 false = .ok (12, 0) := by
  decide +kernel

/-- an asymmetric range `[0, 1]` (sqrt prices 2 … 4) seen from inside-at-the-lower-bound and its mirror `[-1, 0]`;
    `new_position` with offers (3, 100): liquidity 6 is what 3 of token0 supports below the range -/
example :
    gridKern.newPos toyPool 1 0 1 3 100 = .ok (3, 0, 6) ∧
    gridKern.newPos (mPool toyPool) (Grid.inv 1) (-1) 0 100 3 = .ok (0, 3, 6) := by
  decide +kernel

/-- a market with a status row (price 1, i.e. sqrt price 2 on the grid) and 100 of each token -/
def gridState : State :=
  { toyState with row := some { closeTick := 0, curLiq := 1000, in0 := 0, in1 := 0, price := 1 },
                  wallet := [("a", 100), ("b", 100)] }

/-- add on a range the price is below (only token0 used), on one it is above (only token1), on one it is inside (both),
    remove the first with collection, sell 3 of the base token -/
def gridOps : List Op :=
  [.addRaw 5 7 0 10 none, .addRaw 5 7 (-10) 0 none, .addRaw 6 7 (-10) 10 none, .remove 0 10 none true none true, .sell 3 none]

/-- **`C09_orchestration` on a concrete, accepted, three-regime run** (all hypotheses hold: `gridOps` is mirrorable): the
    run on the pool and the mirrored run on the mirror, evaluated — the amounts used differ by regime and by side, the
    mirror uses them exchanged on mirrored ranges, and both end with the same wallet. -/
example :
    (∀ op ∈ gridOps, op.mirrorable = true) ∧ WalletHas toyPool gridState.wallet ∧
    (runE gridKern toyPool 0 gridState gridOps).1 =
      [.ok [0, 10, 5, 0, 10], .ok [-10, 0, 0, 7, 14], .ok [-10, 10, 6, 6, 12], .ok [0, 5], .ok [9 / 1000, 3, 2991 / 1000]] ∧
    (runE gridKern (mPool toyPool) 0 (mState gridState) (gridOps.map mOp)).1 =
      [.ok [-10, 0, 0, 5, 10], .ok [0, 10, 7, 0, 14], .ok [-10, 10, 6, 6, 12], .ok [0, 5], .ok [9 / 1000, 3, 2991 / 1000]] ∧
    (runE gridKern toyPool 0 gridState gridOps).2.wallet = [("a", 96991 / 1000), ("b", 84)] ∧
    (runE gridKern (mPool toyPool) 0 (mState gridState) (gridOps.map mOp)).2.wallet = [("a", 96991 / 1000), ("b", 84)] := by
  refine ⟨by decide, ⟨by unfold Has; decide, by unfold Has; decide⟩, ?_, ?_, ?_, ?_⟩ <;> decide +kernel

end Demeter
