/-
  C09 — the caller-chosen execution price of `add_liquidity_by_tick` under the token-order mirror.

  `C09_orchestration` (Proofs/C09.lean) leaves out operations that carry a caller-chosen pool price.  For
  `add_liquidity_by_tick` that price is the optional `tick` argument (every integer in the tick range is a tick; on the
  mirrored pool the same price is the tick `-t`, in particular `1 ↔ -1` and `0 ↔ 0`) or `sqrt_price_x96` (mirrored through
  the kernel's `ms`).  Here the commutation is proved for them as well: "not given" is `none` and nothing else, an explicit
  tick is used whatever its value.  The defect repaired by /repo 40ebfb6 (`tick = -1` taken for "not given") is exactly a
  violation of `C09_explicit_tick_mirror`: with it the mirrored call at `-t = -1` falls back to the market price.
-/
import Proofs.C09
namespace Demeter.Uni
open Demeter

/-- the `sqrt_price_x96` argument on the mirror: an explicit sqrt price is mapped by `ms`, the default is the market's -/
theorem resolveSqrt_mirrorG {K K' : Kern} {pool : Pool} {ms : Nat → Nat} (hk : KernMirror K K' pool ms) (s : State)
    (sq : Option Nat) :
    resolveSqrt K' (mPool pool) (mState s) (sq.map ms) = (resolveSqrt K pool s sq).map ms := by
  cases sq with
  | none => exact resolveSqrt_mirror hk s
  | some x => rfl

/-- `_add_liquidity_by_tick` with any `sqrt_price_x96` argument -/
theorem addRaw_mirrorG {K K' : Kern} {pool : Pool} {ms : Nat → Nat} (hk : KernMirror K K' pool ms) (ht : TickErr K pool)
    (s : State) (a0 a1 : Rat) (lo up : Int) (sq : Option Nat) (hw : WalletHas pool s.wallet) (hne : pool.tok0 ≠ pool.tok1) :
    addRaw K' (mPool pool) (mState s) a1 a0 (-up) (-lo) (sq.map ms) =
      ((addRaw K pool s a0 a1 lo up sq).1.map (fun r => (-r.2.1, -r.1, r.2.2.2.1, r.2.2.1, r.2.2.2.2)),
       mState (addRaw K pool s a0 a1 lo up sq).2) := by
  unfold addRaw
  have hgt : (-up > -lo) ↔ (lo > up) := by constructor <;> intro h <;> omega
  simp only [mState_isOpen, mPool_spacing, pyMod_neg_zero, resolveSqrt_mirrorG hk, hgt,
    Bool.and_comm (pyMod up pool.spacing == 0), Bool.or_comm (decide (a1 < 0))]
  split
  · rfl
  · split
    · rfl
    · cases hr : resolveSqrt K pool s sq with
      | error e => rfl
      | ok sqrt =>
        simp only [Except.map]
        split
        · rfl
        · split
          · rfl
          · simp only [hk.newPos]
            cases hn : K.newPos pool sqrt lo up a0 a1 with
            | error e => rfl
            | ok r =>
              obtain ⟨u0, u1, liq⟩ := r
              simp only [Except.map, newEntity_mirror hk ht]
              cases he : newEntity K pool s lo up liq sqrt with
              | error e => rfl
              | ok ent =>
                simp only [hk.cx, mState_wallet, mState_allowNeg, mPool_tok0, mPool_tok1,
                  debit2_comm K.cx s.wallet pool.tok1 pool.tok0 u1 u0 s.allowNeg hne.symm hw.2 hw.1]
                cases hd : debit2 K.cx s.wallet pool.tok0 u0 pool.tok1 u1 s.allowNeg with
                | error e => rfl
                | ok w2 =>
                  simp only [mState_positions, addToPositions_mirror]
                  rfl

theorem addAndLog_mirrorG {K K' : Kern} {pool : Pool} {ms : Nat → Nat} (hk : KernMirror K K' pool ms) (ht : TickErr K pool)
    (s : State) (b q : Rat) (lo up : Int) (sq : Option Nat) (lp upp lp' upp' : Rat) (hw : WalletHas pool s.wallet)
    (hne : pool.tok0 ≠ pool.tok1) :
    (addAndLog K' (mPool pool) (mState s) b q (-up) (-lo) (sq.map ms) lp' upp').1 =
        (addAndLog K pool s b q lo up sq lp upp).1.map mKeyResult ∧
    stripLog (addAndLog K' (mPool pool) (mState s) b q (-up) (-lo) (sq.map ms) lp' upp').2 =
        stripLog (mState (addAndLog K pool s b q lo up sq lp upp).2) := by
  unfold addAndLog
  simp only [mPool_conv' pool b q]
  rw [addRaw_mirrorG hk ht s (pool.conv b q).1 (pool.conv b q).2 lo up sq hw hne]
  cases hr : addRaw K pool s (pool.conv b q).1 (pool.conv b q).2 lo up sq with
  | mk out s1 =>
    cases out with
    | error e => exact ⟨rfl, rfl⟩
    | ok v =>
      obtain ⟨l, u, u0, u1, liq⟩ := v
      simp only [Except.map, mPool_conv, mState_wallet, mPool_baseTok, mPool_quoteTok]
      cases hb : balanceOf s1.wallet pool.baseTok with
      | error e => exact ⟨rfl, rfl⟩
      | ok bb =>
        cases hq : balanceOf s1.wallet pool.quoteTok with
        | error e => exact ⟨rfl, rfl⟩
        | ok qb =>
          refine ⟨?_, rfl⟩
          have hv := addRaw_key hr
          simp only [mKeyResult, hv.1, hv.2, Int.cast_neg]

/-- the execution price of `add_liquidity_by_tick`: `sqrt_price_x96` if given, else the sqrt price of `tick` if given
    (whatever integer it is), else the market's — and the same on the mirror with `ms sqrt` / `-tick` -/
theorem sqrtOrTick_mirror {K K' : Kern} {pool : Pool} {ms : Nat → Nat} (hk : KernMirror K K' pool ms)
    (sq : Option Nat) (t : Option Int) :
    sqrtOrTick K' (sq.map ms) (t.map (fun x => -x)) = (sqrtOrTick K sq t).map (Option.map ms) := by
  cases sq with
  | some x => rfl
  | none =>
    cases t with
    | none => rfl
    | some t =>
      simp only [Option.map_none, Option.map_some, sqrtOrTick, hk.tickToSqrt]
      cases K.tickToSqrt t <;> rfl

/-- `add_liquidity_by_tick` with any combination of the optional `sqrt_price_x96` and `tick` arguments -/
theorem addByTick_mirrorG {K K' : Kern} {pool : Pool} {ms : Nat → Nat} (hk : KernMirror K K' pool ms) (ht : TickErr K pool)
    (s : State) (lo up : Int) (b q : Option Rat) (sq : Option Nat) (t : Option Int) (trim : Bool)
    (hw : WalletHas pool s.wallet) (hne : pool.tok0 ≠ pool.tok1) :
    MirrorStep (.addByTick lo up b q sq t trim) (addByTick K pool s lo up b q sq t trim)
      (addByTick K' (mPool pool) (mState s) (-up) (-lo) b q (sq.map ms) (t.map (fun x => -x)) trim) := by
  unfold addByTick
  have key : ∀ (l u : Int),
      (if -u > -l then (-l, -u) else (-u, -l)) = (-(if l > u then (u, l) else (l, u)).2, -(if l > u then (u, l) else (l, u)).1) := by
    intro l u; by_cases h : l > u
    · have : -u > -l := by omega
      simp [h, this]
    · have : ¬ (-u > -l) := by omega
      simp [h, this]
  simp only [mPool_spacing, sqrtOrTick_mirror hk, mState_wallet, mPool_baseTok, mPool_quoteTok]
  cases hs : sqrtOrTick K sq t with
  | error e => exact ⟨rfl, rfl⟩
  | ok sq1 =>
    simp only [Except.map]
    cases trim with
    | true =>
      simp only [if_true, nearestUsable_neg, key]
      cases hb : orBalance s.wallet pool.baseTok b with
      | error e => exact ⟨rfl, rfl⟩
      | ok bv =>
        cases hq : orBalance s.wallet pool.quoteTok q with
        | error e => exact ⟨rfl, rfl⟩
        | ok qv =>
          simp only []
          exact addAndLog_mirrorG hk ht s bv qv _ _ sq1 _ _ _ _ hw hne
    | false =>
      simp only [Bool.false_eq_true, if_false, key]
      cases hb : orBalance s.wallet pool.baseTok b with
      | error e => exact ⟨rfl, rfl⟩
      | ok bv =>
        cases hq : orBalance s.wallet pool.quoteTok q with
        | error e => exact ⟨rfl, rfl⟩
        | ok qv =>
          simp only []
          exact addAndLog_mirrorG hk ht s bv qv _ _ sq1 _ _ _ _ hw hne

end Demeter.Uni

namespace Demeter
open Demeter.Uni

/-- **An explicit execution tick is mirrored as a tick.**  `add_liquidity_by_tick(lower, upper, base, quote, tick = t)`
    on a pool and `add_liquidity_by_tick(-upper, -lower, base, quote, tick = -t)` on its token-order mirror give the same
    outcome (same exception class, or the same used amounts and liquidity with the position key mirrored) and mirrored
    economic states — for **every** integer `t`, `-1`, `0` and `1` included, given or not given (`none ↔ none`), for every
    pair of kernels related by the mirror law and every arithmetic context. -/
theorem C09_explicit_tick_mirror {K K' : Kern} {pool : Pool} {ms : Nat → Nat} (hk : KernMirror K K' pool ms)
    (ht : TickErr K pool) (hne : pool.tok0 ≠ pool.tok1) (minError : Rat) (s : State) (lo up : Int) (b q : Option Rat)
    (t : Option Int) (trim : Bool) (hw : WalletHas pool s.wallet) :
    MirrorStep (.addByTick lo up b q none t trim) (step K pool minError s (.addByTick lo up b q none t trim))
      (step K' (mPool pool) minError (mState s) (mOp (.addByTick lo up b q none t trim))) := by
  simp only [step, mOp]
  exact addByTick_mirrorG hk ht s lo up b q none t trim hw hne

/-- the same with an explicit `sqrt_price_x96` (it overrides `tick`); the mirror's sqrt price is the kernel's `ms` image -/
theorem C09_explicit_sqrt_mirror {K K' : Kern} {pool : Pool} {ms : Nat → Nat} (hk : KernMirror K K' pool ms)
    (ht : TickErr K pool) (hne : pool.tok0 ≠ pool.tok1) (s : State) (lo up : Int) (b q : Option Rat)
    (x : Nat) (t : Option Int) (trim : Bool) (hw : WalletHas pool s.wallet) :
    MirrorStep (.addByTick lo up b q (some x) t trim) (addByTick K pool s lo up b q (some x) t trim)
      (addByTick K' (mPool pool) (mState s) (-up) (-lo) b q (some (ms x)) (t.map (fun y => -y)) trim) :=
  addByTick_mirrorG hk ht s lo up b q (some x) t trim hw hne

/-- operations of the extended orchestration theorem: as `Op.mirrorable`, plus `add_liquidity_by_tick` with an explicit `tick` -/
def Uni.Op.mirrorableT : Op → Bool
  | .addByTick _ _ _ _ sq _ _ => sq.isNone
  | op => op.mirrorable

theorem Uni.step_mirrorT {K K' : Kern} {pool : Pool} {ms : Nat → Nat} (hk : KernMirror K K' pool ms) (ht : TickErr K pool)
    (hne : pool.tok0 ≠ pool.tok1) (me : Rat) (s : State) (op : Op) (hm : op.mirrorableT = true)
    (hw : WalletHas pool s.wallet) :
    MirrorStep op (step K pool me s op) (step K' (mPool pool) me (mState s) (mOp op)) := by
  cases op with
  | addByTick lo up b q sq t trim =>
    have hsq : sq = none := by simpa [Uni.Op.mirrorableT] using hm
    subst hsq
    exact C09_explicit_tick_mirror hk ht hne me s lo up b q t trim hw
  | _ => exact step_mirror hk ht hne me s _ (by simpa [Uni.Op.mirrorableT] using hm) hw

/-- `C09_orchestration` for sequences that may also contain `add_liquidity_by_tick(..., tick = t)` with any explicit `t`
    (mirrored as `-t`): step by step the same outcomes, and the mirror of the final economic state. -/
theorem C09_orchestration_explicit_tick {K K' : Kern} {pool : Pool} {ms : Nat → Nat} (hk : KernMirror K K' pool ms)
    (ht : TickErr K pool) (hne : pool.tok0 ≠ pool.tok1) (minError : Rat) :
    ∀ (ops : List Op) (s : State), (∀ op ∈ ops, op.mirrorableT = true) → WalletHas pool s.wallet →
      (runE K' (mPool pool) minError (mState s) (ops.map mOp)).1 = mOutcomes ops (runE K pool minError s ops).1 ∧
      (runE K' (mPool pool) minError (mState s) (ops.map mOp)).2 = mState (runE K pool minError s ops).2 := by
  intro ops
  induction ops with
  | nil => intro s _ _; exact ⟨rfl, rfl⟩
  | cons op ops ih =>
    intro s hm hw
    have hop := hm op (List.mem_cons_self ..)
    have hstep := Uni.step_mirrorT hk ht hne minError (stripLog s) op hop hw
    have hw1 := step_stripLog_wallet K pool minError s op hw
    simp only [List.map_cons, runE, stripLog_mState]
    have hrec := ih (step K pool minError (stripLog s) op).2 (fun o ho => hm o (List.mem_cons_of_mem _ ho)) hw1
    have hstate : stripLog (step K' (mPool pool) minError (mState (stripLog s)) (mOp op)).2 =
        stripLog (mState (step K pool minError (stripLog s) op).2) := hstep.2
    have hrun : ∀ (a b : State) (l : List Op), stripLog a = stripLog b →
        runE K' (mPool pool) minError a l = runE K' (mPool pool) minError b l := by
      intro a b l hab
      cases l with
      | nil => simp only [runE, hab]
      | cons o os => simp only [runE, hab]
    rw [hrun _ _ _ hstate]
    refine ⟨?_, ?_⟩
    · simp only [mOutcomes]
      rw [hstep.1, hrec.1]
    · exact hrec.2

/-- what the repaired defect looked like in the model: a sentinel test `tick ≠ -1` makes the explicit tick `-1` fall back
    to the market price while its mirror image `+1` is used — the two execution prices are no longer mirror images.
    (`sqrtOrTickSentinel` is the pre-40ebfb6 rule; kept to state what was wrong.) -/
def Uni.sqrtOrTickSentinel (K : Kern) : Option Nat → Int → Except Err (Option Nat)
  | some x, _ => .ok (some x)
  | none, t => if t = -1 then .ok none else match K.tickToSqrt t with
    | .ok x => .ok (some x)
    | .error e => .error e

theorem C09_sentinel_rule_breaks_mirror (K : Kern) (x : Nat) (h : K.tickToSqrt 1 = .ok x) :
    Uni.sqrtOrTickSentinel K none 1 = .ok (some x) ∧ Uni.sqrtOrTickSentinel K none (-1) = .ok none := by
  constructor
  · simp [Uni.sqrtOrTickSentinel, h]
  · simp [Uni.sqrtOrTickSentinel]

/-- non-vacuity: the explicit ticks `1` and `-1` are distinct arguments that the model treats as ticks -/
example (K : Kern) : sqrtOrTick K none (some (-1)) = (match K.tickToSqrt (-1) with | .ok x => .ok (some x) | .error e => .error e) ∧
    sqrtOrTick K none none = .ok none := ⟨rfl, rfl⟩

end Demeter
