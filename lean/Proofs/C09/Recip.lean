/-
  C09 — reciprocity of the concrete TickMath kernel on the WHOLE tick range, from the exhaustive kernel sweep of
  Proofs/C06 (the same 28 shards that prove strict monotonicity): the Q96 sqrt prices of a tick and of its mirror
  multiply to 2^192 within one unit of rounding in each factor.  This is how far the concrete kernel is from an
  exactly mirrored one (`C09_orchestration` is exact for exactly mirrored kernels).
-/
import Proofs.C06.Full
namespace Demeter

/-- `|sqrtAt(−a)·sqrtAt(a) − 2^192| ≤ 2·max(sqrtAt(−a), sqrtAt(a))` for every tick magnitude `0 < a ≤ 887272` -/
theorem C09_kernel_reciprocity (a : Nat) (h : a ≤ 887272) (h0 : 0 < a) :
    sqrtAt (-(a : Int)) * sqrtAt a ≤ 2 ^ 192 + 2 * max (sqrtAt (-(a : Int))) (sqrtAt a) ∧
    2 ^ 192 ≤ sqrtAt (-(a : Int)) * sqrtAt a + 2 * max (sqrtAt (-(a : Int))) (sqrtAt a) :=
  C06_reciprocity a h h0

/-- relative form: the product is within `2 / min(s(−a), s(a))` of `2^192`; with `s ≥ 4295128739` at the extreme
    ticks this is ≤ 2⁻³¹ there, and ≤ 10⁻¹² whenever both factors exceed 2·10¹² (|tick| ≲ 760 000). -/
theorem C09_kernel_reciprocity_rel (a : Nat) (h : a ≤ 887272) (h0 : 0 < a) :
    (sqrtAt (-(a : Int)) * sqrtAt a : Int) - 2 ^ 192 ≤ 2 * max (sqrtAt (-(a : Int))) (sqrtAt a) ∧
    (2 ^ 192 : Int) - sqrtAt (-(a : Int)) * sqrtAt a ≤ 2 * max (sqrtAt (-(a : Int))) (sqrtAt a) := by
  have := C09_kernel_reciprocity a h h0
  constructor <;> omega

example : sqrtAt (-(200000 : Nat) : Int) * sqrtAt (200000 : Nat) ≤ 2 ^ 192 + 2 * max (sqrtAt (-(200000 : Nat) : Int)) (sqrtAt (200000 : Nat)) :=
  (C09_kernel_reciprocity 200000 (by decide) (by decide)).1

end Demeter
