/-
  C09, kernel part — how far the concrete TickMath kernel is from an exactly mirrored one.
-/
import Demeter.TickMath
/-! ### how far the concrete kernel is from an exactly mirrored one -/
namespace Demeter.Uni
open Demeter

/-- `sqrtAt t · sqrtAt (−t)` is `2^192` up to one unit of Q96 rounding in each factor -/
def recipOk (t : Nat) : Bool :=
  let a := sqrtAt (t : Int)
  let b := sqrtAt (-(t : Int))
  let p := a * b
  let q := 2 ^ 192
  let m := if a ≥ b then a else b
  (if p ≥ q then p - q else q - p) ≤ 2 * m

def recipAllBelow : Nat → Bool
  | 0 => recipOk 0
  | n + 1 => recipOk (n + 1) && recipAllBelow n

theorem recipAllBelow_sound : ∀ (n : Nat), recipAllBelow n = true → ∀ t, t ≤ n → recipOk t = true
  | 0, h, t, ht => by
    have : t = 0 := by omega
    subst this; exact h
  | n + 1, h, t, ht => by
    simp only [recipAllBelow, Bool.and_eq_true] at h
    by_cases e : t = n + 1
    · subst e; exact h.1
    · exact recipAllBelow_sound n h.2 t (by omega)

end Demeter.Uni

namespace Demeter
open Demeter.Uni

/-- **Kernel reciprocity (partial: |tick| ≤ 1024, checked exhaustively in the kernel; the full tick range is the
    same computation over 887 273 ticks and is left to a thorough sweep).** The sqrt prices of a tick and of its
    negation multiply to `2^192` within `2·max` — i.e. the concrete kernel satisfies the mirror law
    `ms s = 2^192 / s` up to a relative error of `2 / min(sqrtAt t, sqrtAt(−t))`, far below `1e-12` in this band. -/
theorem C09_kernel_reciprocity_partial (t : Nat) (h : t ≤ 1024) : recipOk t = true :=
  recipAllBelow_sound 1024 (by decide +kernel) t h

end Demeter
