/-
  C09 — operations with a caller-chosen pool price (`sqrt_price_x96=` of `_add_liquidity_by_tick`,
  `add_liquidity_by_tick`, `remove_liquidity`; `tick=` of `add_liquidity_by_tick`) under the token-order mirror.
  `C09_orchestration` excludes them (`Op.mirrorable`); here they are covered: an explicit sqrt price is mirrored through the
  kernel's own sqrt-price map `ms` of the mirror law, an explicit execution tick is negated.  Everything else as in
  `C09_orchestration` (which is the special case without such arguments).
-/
import Proofs.C09
import Proofs.Lemmas.UniMirrorSq
import Proofs.C09.Witness
namespace Demeter.Uni
open Demeter

/-- the mirrored form of an operation, explicit sqrt prices mapped by `ms` and explicit ticks negated -/
def mOpS (ms : Nat → Nat) : Op → Op
  | .addRaw a0 a1 lo up sq => .addRaw a1 a0 (-up) (-lo) (sq.map ms)
  | .addByTick lo up b q sq t trim => .addByTick (-up) (-lo) b q (sq.map ms) (t.map (fun x => -x)) trim
  | .remove lo up l c sq rd => .remove (-up) (-lo) l c (sq.map ms) rd
  | op => mOp op

theorem mOpS_eq_mOp (ms : Nat → Nat) (op : Op) (h : op.mirrorable = true) : mOpS ms op = mOp op := by
  cases op <;> simp only [mOpS, mOp]
  · have : ‹Option Nat› = none := by simpa [Op.mirrorable] using h
    subst this; rfl
  · have h2 : ‹Option Nat› = none ∧ ‹Option Int› = none := by simpa [Op.mirrorable] using h
    obtain ⟨rfl, rfl⟩ := h2; rfl
  · have : ‹Option Nat› = none := by simpa [Op.mirrorable] using h
    subst this; rfl

/-- everything but `add_liquidity_by_value` (see `Proofs/C09/ByValue.lean` for that helper) -/
def Op.mirrorableS : Op → Bool
  | .addByValue .. => false
  | _ => true

theorem step_mirror_sq {K K' : Kern} {pool : Pool} {ms : Nat → Nat} (hk : KernMirror K K' pool ms) (ht : TickErr K pool)
    (hne : pool.tok0 ≠ pool.tok1) (me : Rat) (s : State) (op : Op) (hm : op.mirrorableS = true)
    (hw : WalletHas pool s.wallet) :
    MirrorStep op (step K pool me s op) (step K' (mPool pool) me (mState s) (mOpS ms op)) := by
  cases op with
  | addRaw a0 a1 lo up sq =>
    simp only [step, mOpS]
    rw [addRaw_mirror_sq hk ht s a0 a1 lo up sq hw hne]
    cases hr : addRaw K pool s a0 a1 lo up sq with
    | mk out s1 =>
      cases out with
      | error e => exact ⟨rfl, rfl⟩
      | ok v =>
        obtain ⟨l, u, u0, u1, liq⟩ := v
        refine ⟨?_, rfl⟩
        simp [Except.map, mResult]
  | addByTick lo up b q sq t trim =>
    simp only [step, mOpS]
    exact addByTick_mirror_sq hk ht s lo up b q sq t trim hw hne
  | remove lo up l c sq rd =>
    simp only [step, mOpS]
    exact MirrorStep.ofEq (remove_mirror_sq hk s lo up l c rd sq hw hne) (fun _ _ => rfl)
  | addByValue lo up v trim o => simp [Op.mirrorableS] at hm
  | addByPrice lp up lt ut q b => exact step_mirror hk ht hne me s _ rfl hw
  | collect lo up m0 m1 rd tu => exact step_mirror hk ht hne me s _ rfl hw
  | removeAll => exact step_mirror hk ht hne me s _ rfl hw
  | swap a f t p log => exact step_mirror hk ht hne me s _ rfl hw
  | buy a p => exact step_mirror hk ht hne me s _ rfl hw
  | sell a p => exact step_mirror hk ht hne me s _ rfl hw
  | evenRebalance p => exact step_mirror hk ht hne me s _ rfl hw
  | transferOut lo up => exact step_mirror hk ht hne me s _ rfl hw
  | transferIn lo up => exact step_mirror hk ht hne me s _ rfl hw

end Demeter.Uni

namespace Demeter
open Demeter.Uni

/-- **Orchestration commutes with the token-order mirror, caller-chosen pool prices included.**  As
    `C09_orchestration`, for every operation except `add_liquidity_by_value`: an explicit `sqrt_price_x96` argument is
    handed to the mirror as `ms sqrt` (the mirror law's own sqrt-price correspondence), an explicit `tick` as `−tick`. -/
theorem C09_orchestration_explicit_price {K K' : Kern} {pool : Pool} {ms : Nat → Nat} (hk : KernMirror K K' pool ms)
    (ht : TickErr K pool) (hne : pool.tok0 ≠ pool.tok1) (minError : Rat) :
    ∀ (ops : List Op) (s : State), (∀ op ∈ ops, op.mirrorableS = true) → WalletHas pool s.wallet →
      (runE K' (mPool pool) minError (mState s) (ops.map (mOpS ms))).1 = mOutcomes ops (runE K pool minError s ops).1 ∧
      (runE K' (mPool pool) minError (mState s) (ops.map (mOpS ms))).2 = mState (runE K pool minError s ops).2 := by
  intro ops
  induction ops with
  | nil => intro s _ _; exact ⟨rfl, rfl⟩
  | cons op ops ih =>
    intro s hm hw
    have hop := hm op (List.mem_cons_self ..)
    have hstep := step_mirror_sq hk ht hne minError (stripLog s) op hop hw
    have hw1 := step_stripLog_wallet K pool minError s op hw
    simp only [List.map_cons, runE, stripLog_mState]
    have hrec := ih (step K pool minError (stripLog s) op).2 (fun o ho => hm o (List.mem_cons_of_mem _ ho)) hw1
    have hstate : stripLog (step K' (mPool pool) minError (mState (stripLog s)) (mOpS ms op)).2 =
        stripLog (mState (step K pool minError (stripLog s) op).2) := hstep.2
    have hrun : ∀ (a b : State) (l : List Op), stripLog a = stripLog b →
        runE K' (mPool pool) minError a l = runE K' (mPool pool) minError b l := by
      intro a b l hab
      cases l with
      | nil => simp only [runE, hab]
      | cons o os => simp only [runE, hab]
    rw [hrun _ _ _ hstate]
    refine ⟨?_, ?_⟩
    · simp only [mOutcomes]
      rw [hstep.1, hrec.1]
    · exact hrec.2

/-- `C09_orchestration` is the special case without caller-chosen prices -/
theorem C09_orchestration_explicit_price_extends (ms : Nat → Nat) (op : Op) (h : op.mirrorable = true) :
    mOpS ms op = mOp op ∧ op.mirrorableS = true := by
  refine ⟨mOpS_eq_mOp ms op h, ?_⟩
  cases op <;> first | rfl | simp [Op.mirrorable] at h

/-- an add at an explicit sqrt price (4: above the range, only token1), an add at an explicit execution tick, a removal
    valued at an explicit sqrt price (1: below the range, everything comes back as token0) -/
def gridOpsExplicit : List Op :=
  [.addRaw 5 7 0 10 (some 4), .addByTick (-10) 10 (some 3) (some 3) none (some 5) true, .remove 0 10 none true (some 1) true]

/-- non-vacuity of `C09_orchestration_explicit_price`: the grid kernel of `Proofs/C09/Witness.lean`, an accepted run with
    all three kinds of caller-chosen price, evaluated on the pool and (mirrored through `Grid.inv`) on its mirror -/
example :
    (∀ op ∈ gridOpsExplicit, op.mirrorableS = true) ∧ (∃ op ∈ gridOpsExplicit, op.mirrorable = false) ∧
    (runE Grid.gridKern toyPool 0 gridState gridOpsExplicit).1 =
      [.ok [0, 10, 0, 7, 7], .ok [-10, 10, 3, 0, 2], .ok [0, 7 / 2]] ∧
    (runE Grid.gridKern (mPool toyPool) 0 (mState gridState) (gridOpsExplicit.map (mOpS Grid.inv))).1 =
      [.ok [-10, 0, 7, 0, 7], .ok [-10, 10, 3, 0, 2], .ok [0, 7 / 2]] := by
  refine ⟨by decide, ⟨_, List.mem_cons_self .., rfl⟩, ?_, ?_⟩ <;> decide +kernel

end Demeter
