/-
  C09 — the fee accrual step (`V3CoreLib.update_fee`) under the token-order mirror.

  `update_fee` classifies a tick with the half-open range `[lower, upper)` (`tick >= upper` is "above",
  `tick < lower` is "below").  Negating ticks turns `[lower, upper)` into `(-upper, -lower]`, so a tick that sits
  exactly on a bound changes class in the mirror.  For a *moving* tick this does not matter: the crossing weight is
  the overlap of the closed tick path with the closed range, which is symmetric.  For a *stationary* tick on a bound
  it does: on the lower bound the pool accrues the whole bar and its mirror (tick on the upper bound) accrues nothing,
  and vice versa (`C09_fails_fee_mirror_on_lower_bound`, known finding `mirror.fee.stationary-on-bound`; this is
  Uniswap's own half-open convention).  Everywhere else the step commutes with the mirror exactly (`C09_fee_mirror`).
-/
import Demeter.Uni.Mirror
import Proofs.Lemmas.UniFee
import Proofs.Lemmas.Exact
namespace Demeter.Uni
open Demeter

/-- what `updateFee` does once the case is decided -/
def applyFeeCase (cx : NumCtx) (pool : Pool) (row : Row) (p : Pos) : FeeCase → Except Err Pos
  | .skip => .ok p
  | .full => calcAmounts cx pool row p 1
  | .nanError => .error .value
  | .part n d =>
    let w := cx.div (n : Rat) (d : Rat)
    if w > Gen.uniWeightAlarm then .error .runtime else calcAmounts cx pool row p w

theorem updateFee_eq_apply (cx : NumCtx) (pool : Pool) (last : Option Int) (row : Row) (p : Pos) :
    updateFee cx pool last row p = applyFeeCase cx pool row p (feeCase last row.closeTick p.lower p.upper) := by
  unfold updateFee applyFeeCase
  cases feeCase last row.closeTick p.lower p.upper <;> rfl

/-- `calc_amounts` commutes with the mirror: decimals, volumes and pending amounts are exchanged together -/
theorem calcAmounts_mirror (cx : NumCtx) (pool : Pool) (row : Row) (p : Pos) (w : Rat) :
    calcAmounts cx (mPool pool) (mRow row) (mPos p) w = (calcAmounts cx pool row p w).map mPos := by
  unfold calcAmounts
  by_cases hc : row.curLiq = 0
  · have hc' : (mRow row).curLiq = 0 := hc
    rw [if_pos hc, if_pos hc']
    rfl
  · have hc' : ¬ (mRow row).curLiq = 0 := hc
    rw [if_neg hc, if_neg hc']
    rfl

theorem applyFeeCase_mirror (cx : NumCtx) (pool : Pool) (row : Row) (p : Pos) (c : FeeCase) :
    applyFeeCase cx (mPool pool) (mRow row) (mPos p) c = (applyFeeCase cx pool row p c).map mPos := by
  cases c with
  | skip => rfl
  | full => exact calcAmounts_mirror cx pool row p 1
  | nanError => rfl
  | part n d =>
    simp only [applyFeeCase]
    split
    · rfl
    · exact calcAmounts_mirror cx pool row p _

/-- a crossing whose whole path is in range (`part n n`) accrues what "both closes inside" accrues, in every context
    that represents 1 exactly -/
theorem applyFeeCase_part_self (cx : NumCtx) (h1 : cx.rnd 1 = 1) (pool : Pool) (row : Row) (p : Pos) (n : Int) (hn : 0 < n) :
    applyFeeCase cx pool row p (.part n n) = applyFeeCase cx pool row p .full := by
  have hq : ((n : Int) : Rat) ≠ 0 := by exact_mod_cast (ne_of_gt hn)
  have hw : cx.div (n : Rat) (n : Rat) = 1 := by
    unfold NumCtx.div
    rw [div_self hq, h1]
  simp only [applyFeeCase, hw]
  rw [if_neg (by decide)]

/-- the decision of `update_fee` on the mirror (interval form): the same, except that a path with exactly one end on a
    bound and the rest inside is "both inside" in one orientation and "crossing with weight n/n" in the other.  A
    stationary tick on a bound is excluded (`hb`). -/
theorem feeSpec_mirror (prev close lower upper : Int) (h : lower < upper)
    (hb : ¬ (prev = close ∧ (close = lower ∨ close = upper))) :
    feeSpec (-prev) (-close) (-upper) (-lower) = feeSpec prev close lower upper ∨
    (feeSpec prev close lower upper = .full ∧ ∃ n, 0 < n ∧ feeSpec (-prev) (-close) (-upper) (-lower) = .part n n) ∨
    (feeSpec (-prev) (-close) (-upper) (-lower) = .full ∧ ∃ n, 0 < n ∧ feeSpec prev close lower upper = .part n n) := by
  have hov : overlap (-prev) (-close) (-upper) (-lower) = overlap prev close lower upper := by
    unfold overlap; omega
  have hab : intAbs (-prev - -close) = intAbs (prev - close) := by
    unfold intAbs; split <;> split <;> omega
  unfold feeSpec
  rw [hov, hab]
  by_cases hin : inside lower upper prev ∧ inside lower upper close
  · rw [if_pos hin]
    by_cases hin' : inside (-upper) (-lower) (-prev) ∧ inside (-upper) (-lower) (-close)
    · rw [if_pos hin']; exact Or.inl rfl
    · rw [if_neg hin']
      refine Or.inr (Or.inl ⟨rfl, overlap prev close lower upper, ?_, ?_⟩)
      · unfold inside at hin hin'; unfold overlap; omega
      · have h1 : ¬ overlap prev close lower upper ≤ 0 := by unfold inside at hin hin'; unfold overlap; omega
        have h2 : intAbs (prev - close) = overlap prev close lower upper := by
          unfold inside at hin hin'; unfold overlap intAbs; split <;> omega
        rw [if_neg h1, h2]
  · rw [if_neg hin]
    by_cases hin' : inside (-upper) (-lower) (-prev) ∧ inside (-upper) (-lower) (-close)
    · rw [if_pos hin']
      refine Or.inr (Or.inr ⟨rfl, overlap prev close lower upper, ?_, ?_⟩)
      · unfold inside at hin hin'; unfold overlap; omega
      · have h1 : ¬ overlap prev close lower upper ≤ 0 := by unfold inside at hin hin'; unfold overlap; omega
        have h2 : intAbs (prev - close) = overlap prev close lower upper := by
          unfold inside at hin hin'; unfold overlap intAbs; split <;> omega
        rw [if_neg h1, h2]
    · rw [if_neg hin']; exact Or.inl rfl

/-- with neither close on a bound the decision itself is the same -/
theorem feeCase_mirror_off_bounds (prev close lower upper : Int) (h : lower < upper)
    (hp : prev ≠ lower ∧ prev ≠ upper) (hc : close ≠ lower ∧ close ≠ upper) :
    feeCase (some (-prev)) (-close) (-upper) (-lower) = feeCase (some prev) close lower upper := by
  rw [feeCase_eq_spec _ _ _ _ h, feeCase_eq_spec _ _ _ _ (by omega : -upper < -lower)]
  have hov : overlap (-prev) (-close) (-upper) (-lower) = overlap prev close lower upper := by
    unfold overlap; omega
  have hab : intAbs (-prev - -close) = intAbs (prev - close) := by
    unfold intAbs; split <;> split <;> omega
  have hi : (inside (-upper) (-lower) (-prev) ∧ inside (-upper) (-lower) (-close)) ↔
      (inside lower upper prev ∧ inside lower upper close) := by unfold inside; omega
  unfold feeSpec
  rw [hov, hab]
  by_cases hin : inside lower upper prev ∧ inside lower upper close
  · rw [if_pos hin, if_pos (hi.mpr hin)]
  · rw [if_neg hin, if_neg (fun x => hin (hi.mp x))]

/-- a fresh market (`last_tick` is nan): same decision unless the close sits on a bound -/
theorem feeCase_mirror_fresh (close lower upper : Int) (hc : close ≠ lower ∧ close ≠ upper) :
    feeCase none (-close) (-upper) (-lower) = feeCase none close lower upper := by
  unfold feeCase inRange
  simp only []
  split_ifs <;> first | rfl | omega

end Demeter.Uni

namespace Demeter
open Demeter.Uni

/-- **The fee accrual step commutes with the token-order mirror** unless the tick is *stationary on a range bound*
    (`prev = close` and that tick is `lower` or `upper`).  Any pool, data row, position with a non-empty range, any
    arithmetic context that represents 1 exactly (`NumCtx.exact`, CPython's 35 digits): the mirrored pool's
    `update_fee` on the mirrored row / position / previous tick yields the mirror of the original's result — the same
    accrual with token0/token1 exchanged, or the same exception. -/
theorem C09_fee_mirror (cx : NumCtx) (h1 : cx.rnd 1 = 1) (pool : Pool) (prev : Int) (row : Row) (p : Pos)
    (hlu : p.lower < p.upper)
    (hb : ¬ (prev = row.closeTick ∧ (row.closeTick = p.lower ∨ row.closeTick = p.upper))) :
    updateFee cx (mPool pool) (some (-prev)) (mRow row) (mPos p) = (updateFee cx pool (some prev) row p).map mPos := by
  rw [updateFee_eq_apply, updateFee_eq_apply]
  have hm : feeCase (some (-prev)) (mRow row).closeTick (mPos p).lower (mPos p).upper =
      feeSpec (-prev) (-row.closeTick) (-p.upper) (-p.lower) :=
    feeCase_eq_spec _ _ _ _ (by show -p.upper < -p.lower; omega)
  rw [hm, feeCase_eq_spec _ _ _ _ hlu]
  rcases feeSpec_mirror prev row.closeTick p.lower p.upper hlu hb with he | ⟨hf, n, hn, hp⟩ | ⟨hf, n, hn, hp⟩
  · rw [he]; exact applyFeeCase_mirror cx pool row p _
  · rw [hf, hp, applyFeeCase_part_self cx h1 _ _ _ n hn]; exact applyFeeCase_mirror cx pool row p _
  · rw [hf, hp, applyFeeCase_part_self cx h1 _ _ _ n hn]; exact applyFeeCase_mirror cx pool row p _

/-- the same for every arithmetic context when neither close sits on a bound (the decision itself is then identical) -/
theorem C09_fee_mirror_off_bounds (cx : NumCtx) (pool : Pool) (prev : Int) (row : Row) (p : Pos) (hlu : p.lower < p.upper)
    (hp : prev ≠ p.lower ∧ prev ≠ p.upper) (hc : row.closeTick ≠ p.lower ∧ row.closeTick ≠ p.upper) :
    updateFee cx (mPool pool) (some (-prev)) (mRow row) (mPos p) = (updateFee cx pool (some prev) row p).map mPos := by
  rw [updateFee_eq_apply, updateFee_eq_apply]
  have hm : feeCase (some (-prev)) (mRow row).closeTick (mPos p).lower (mPos p).upper =
      feeCase (some prev) row.closeTick p.lower p.upper := feeCase_mirror_off_bounds _ _ _ _ hlu hp hc
  rw [hm]; exact applyFeeCase_mirror cx pool row p _

/-- first bar of a fresh market (`last_tick` = nan): the step commutes with the mirror unless the close is on a bound
    (there one orientation accrues and the other raises `ValueError` from `int(nan)`) -/
theorem C09_fee_mirror_fresh (cx : NumCtx) (pool : Pool) (row : Row) (p : Pos)
    (hc : row.closeTick ≠ p.lower ∧ row.closeTick ≠ p.upper) :
    updateFee cx (mPool pool) none (mRow row) (mPos p) = (updateFee cx pool none row p).map mPos := by
  rw [updateFee_eq_apply, updateFee_eq_apply]
  have hm : feeCase none (mRow row).closeTick (mPos p).lower (mPos p).upper = feeCase none row.closeTick p.lower p.upper :=
    feeCase_mirror_fresh _ _ _ hc
  rw [hm]; exact applyFeeCase_mirror cx pool row p _

/-- the whole `update()` loop over the positions -/
theorem C09_fee_mirror_loop (cx : NumCtx) (h1 : cx.rnd 1 = 1) (pool : Pool) (prev : Int) (row : Row) :
    ∀ (ps : List Pos), (∀ p ∈ ps, p.lower < p.upper ∧
        ¬ (prev = row.closeTick ∧ (row.closeTick = p.lower ∨ row.closeTick = p.upper))) →
      updateLoop cx (mPool pool) (some (-prev)) (mRow row) (ps.map mPos) =
        ((updateLoop cx pool (some prev) row ps).1.map mPos, (updateLoop cx pool (some prev) row ps).2)
  | [], _ => rfl
  | p :: ps, h => by
    have hp := h p (List.mem_cons_self ..)
    have ih := C09_fee_mirror_loop cx h1 pool prev row ps (fun q hq => h q (List.mem_cons_of_mem _ hq))
    simp only [List.map_cons, updateLoop]
    rw [C09_fee_mirror cx h1 pool prev row p hp.1 hp.2]
    cases hu : updateFee cx pool (some prev) row p with
    | error e => rfl
    | ok p' => simp only [Except.map, ih, List.map_cons]

/-- both contexts of interest represent 1 exactly -/
theorem C09_fee_mirror_contexts : NumCtx.exact.rnd 1 = 1 ∧ NumCtx.py.rnd 1 = 1 := by
  refine ⟨rfl, ?_⟩
  decide +kernel

/-! ### the half-open range convention is not mirror-symmetric -/

def feeWitnessPool : Pool :=
  { tok0 := "a", tok1 := "b", d0 := 0, d1 := 0, feeRate := 1 / 100, spacing := 10, q0 := true, decFac := 1 }
def feeWitnessRow : Row := { closeTick := 1000, curLiq := 100, in0 := 500, in1 := 700, price := 1 }
def feeWitnessPos : Pos :=
  { lower := 1000, upper := 2000, pending0 := 0, pending1 := 0, liq := 50, lowerPrice := 1, upperPrice := 2, initPrice := 1,
    transferred := false }

/-- **Known finding `mirror.fee.stationary-on-bound`** (by design: Uniswap's half-open range `[lower, upper)`).
    A tick that stays exactly on the lower bound for a bar: the pool counts the bar as in range, its token-order mirror
    (same tick, now on the *upper* bound of the mirrored range) counts it as above.  So the statement of
    `C09_fee_mirror` without `hb` is false: pool A accrues 2.5 / 3.5, its exact mirror accrues 0. -/
theorem C09_fails_fee_mirror_on_lower_bound :
    feeCase (some 1000) 1000 1000 2000 = .full ∧ feeCase (some (-1000)) (-1000) (-2000) (-1000) = .skip ∧
    updateFee NumCtx.exact feeWitnessPool (some 1000) feeWitnessRow feeWitnessPos =
      .ok { feeWitnessPos with pending0 := 5 / 2, pending1 := 7 / 2 } ∧
    updateFee NumCtx.exact (mPool feeWitnessPool) (some (-1000)) (mRow feeWitnessRow) (mPos feeWitnessPos) =
      .ok (mPos feeWitnessPos) ∧
    ¬ (updateFee NumCtx.exact (mPool feeWitnessPool) (some (-1000)) (mRow feeWitnessRow) (mPos feeWitnessPos) =
        (updateFee NumCtx.exact feeWitnessPool (some 1000) feeWitnessRow feeWitnessPos).map mPos) := by
  decide +kernel

/-- the mirror image: stationary on the upper bound, the pool accrues nothing and its mirror accrues the whole bar -/
theorem C09_fails_fee_mirror_on_upper_bound :
    feeCase (some 2000) 2000 1000 2000 = .skip ∧ feeCase (some (-2000)) (-2000) (-2000) (-1000) = .full := by
  decide +kernel

/-- non-vacuity of `C09_fee_mirror`: a crossing that ends on the lower bound (one end on a bound is covered), with a
    non-zero accrual on both sides -/
example : ¬ ((1500 : Int) = feeWitnessRow.closeTick ∧ (feeWitnessRow.closeTick = feeWitnessPos.lower ∨ feeWitnessRow.closeTick = feeWitnessPos.upper)) ∧
    feeWitnessPos.lower < feeWitnessPos.upper ∧
    updateFee NumCtx.exact feeWitnessPool (some 1500) feeWitnessRow feeWitnessPos =
      .ok { feeWitnessPos with pending0 := 5 / 2, pending1 := 7 / 2 } ∧
    updateFee NumCtx.exact (mPool feeWitnessPool) (some (-1500)) (mRow feeWitnessRow) (mPos feeWitnessPos) =
      .ok (mPos { feeWitnessPos with pending0 := 5 / 2, pending1 := 7 / 2 }) := by
  decide +kernel

end Demeter
