/-
  C09 — `add_liquidity_by_value` under the token-order mirror: what *does* hold (the known findings
  `mirror.add_by_value.*` are about what does not).

  The helper derives a tick from the market price (`price_to_tick`: floor of the real-valued tick in the pool's own
  orientation, rounded to the tick spacing) and uses it (a) to decide whether the price is below / inside / above the range
  and (b), inside, to look up the token ratio.  Floor does not commute with negation (`C09_fails_add_by_value_tick`), so
  the two token orders may see ticks one spacing apart — that is the finding.  **Whenever the two orientations' rounded
  ticks are mirror images** (`t' = -t`: always the case when the real-valued tick is not within half a tick of the midpoint
  of a spacing cell, in particular when the price sits on an aligned tick, up to the float estimate) **and the price is
  outside the range, the helper commutes with the mirror exactly**, in every arithmetic context
  (`C09_add_by_value_one_sided_partial`).  Inside the range the commutation additionally needs the mirrored ratio
  (`ratio' = 1 / ratio`) and holds up to the rounding of `value / (r + 1)` vs `value − value / (1/r + 1)`: stated below as
  what is missing, measured by the harness at 0.1 %.
-/
import Proofs.C09.Tick
namespace Demeter.Uni
open Demeter

/-- outcome and economic state of an add on the mirror vs. on the original (the result carries the position key) -/
def MirrorAdd (r r' : Res) : Prop := r'.1 = r.1.map mKeyResult ∧ stripLog r'.2 = stripLog (mState r.2)

theorem optSwapFee_mirror {K K' : Kern} (hcx : K'.cx = K.cx) (pool : Pool) (s : State) (c : Bool) (a : Rat) (f t : String) :
    optSwapFee K' (mPool pool) (mState s) c a f t = ((optSwapFee K pool s c a f t).1, mState (optSwapFee K pool s c a f t).2) := by
  unfold optSwapFee
  cases c with
  | false => rfl
  | true =>
    simp only [if_true]
    rw [swap_mirror hcx]
    cases hs : swap K pool s a f t none true with
    | mk out s1 =>
      cases out with
      | error e => rfl
      | ok v => rfl

theorem optSwapFee_walletHas (K : Kern) (pool : Pool) (s : State) (c : Bool) (a : Rat) (f t : String)
    (hw : WalletHas pool s.wallet) : WalletHas pool (optSwapFee K pool s c a f t).2.wallet := by
  unfold optSwapFee
  cases c with
  | false => exact hw
  | true =>
    simp only [if_true]
    have h := swap_wrel K pool s a f t none true
    cases hs : swap K pool s a f t none true with
    | mk out s1 =>
      rw [hs] at h
      cases out with
      | error e => exact ⟨h.1 _ hw.1, h.1 _ hw.2⟩
      | ok v => exact ⟨h.1 _ hw.1, h.1 _ hw.2⟩

theorem addByTick_mirrorAdd {K K' : Kern} {pool : Pool} {ms : Nat → Nat} (hk : KernMirror K K' pool ms) (ht : TickErr K pool)
    (s : State) (lo up : Int) (b q : Option Rat) (trim : Bool) (hw : WalletHas pool s.wallet) (hne : pool.tok0 ≠ pool.tok1) :
    MirrorAdd (addByTick K pool s lo up b q none none trim)
      (addByTick K' (mPool pool) (mState s) (-up) (-lo) b q none none trim) :=
  addByTick_mirror hk ht s lo up b q trim hw hne

end Demeter.Uni

namespace Demeter
open Demeter.Uni

/-- **`add_liquidity_by_value` commutes with the mirror when the price is outside the range and the two orientations'
    rounded price ticks are mirror images** (`ho`).  Same outcome (exception class, or used amounts / liquidity with the
    position key mirrored), mirrored economic state; any kernels related by the mirror law, any arithmetic context.
    `hout`: the rounded tick is strictly outside the (trimmed) range — the branches "all base" / "all quote". -/
theorem C09_add_by_value_one_sided_partial {K K' : Kern} {pool : Pool} {ms : Nat → Nat} (hk : KernMirror K K' pool ms)
    (ht : TickErr K pool) (hne : pool.tok0 ≠ pool.tok1) (me : Rat) (s : State) (lo up : Int) (v : Option Rat) (trim : Bool)
    (o o' : ByValueOracle) (hw : WalletHas pool s.wallet)
    (ho : nearestUsable o'.tickEst pool.spacing = -nearestUsable o.tickEst pool.spacing)
    (hout : nearestUsable o.tickEst pool.spacing < (if trim then nearestUsable lo pool.spacing else lo) ∨
            (if trim then nearestUsable up pool.spacing else up) < nearestUsable o.tickEst pool.spacing) :
    MirrorAdd (addByValue K pool me s lo up v trim o) (addByValue K' (mPool pool) me (mState s) (-up) (-lo) v trim o') := by
  unfold addByValue
  have hl : (if trim then nearestUsable (-up) pool.spacing else -up) = -(if trim then nearestUsable up pool.spacing else up) := by
    cases trim <;> simp [nearestUsable_neg]
  have hu : (if trim then nearestUsable (-lo) pool.spacing else -lo) = -(if trim then nearestUsable lo pool.spacing else lo) := by
    cases trim <;> simp [nearestUsable_neg]
  simp only [mPool_spacing, priceOf_mirror, mState_wallet, mPool_quoteTok, mPool_baseTok, hk.cx, ho, hl, hu]
  generalize (if trim then nearestUsable lo pool.spacing else lo) = L at hout ⊢
  generalize (if trim then nearestUsable up pool.spacing else up) = U at hout ⊢
  generalize nearestUsable o.tickEst pool.spacing = T at hout ⊢
  cases hp : priceOf s with
  | error e => exact ⟨rfl, rfl⟩
  | ok price =>
    simp only []
    cases hq : balanceOf s.wallet pool.quoteTok with
    | error e => exact ⟨rfl, rfl⟩
    | ok qBal =>
      cases hb : balanceOf s.wallet pool.baseTok with
      | error e => exact ⟨rfl, rfl⟩
      | ok bBal =>
        have hge : (-U ≥ -L) ↔ (L ≥ U) := by constructor <;> intro h <;> omega
        -- the two one-sided conditions on the mirror are the original's
        have c1 : (((mPool pool).q0 && decide (-T > -L)) || (!(mPool pool).q0 && decide (-T < -U))) =
            ((pool.q0 && decide (T > U)) || (!pool.q0 && decide (T < L))) := by
          unfold mPool
          cases pool.q0 <;> simp
        have c2 : (((mPool pool).q0 && decide (-T < -U)) || (!(mPool pool).q0 && decide (-T > -L))) =
            ((pool.q0 && decide (T < L)) || (!pool.q0 && decide (T > U))) := by
          unfold mPool
          cases pool.q0 <;> simp
        simp only [hge, c1, c2]
        cases v
        all_goals (
          dsimp only
          split
          · exact ⟨rfl, rfl⟩
          · split
            · exact ⟨rfl, rfl⟩
            · split
              · -- all base
                split
                · exact ⟨rfl, rfl⟩
                · rw [optSwapFee_mirror hk.cx]
                  generalize h : optSwapFee K pool s _ _ _ _ = r
                  have hw1 : WalletHas pool r.2.wallet := by rw [← h]; exact optSwapFee_walletHas K pool s _ _ _ _ hw
                  obtain ⟨out, s1⟩ := r
                  cases out with
                  | error e => exact ⟨rfl, rfl⟩
                  | ok fee => exact addByTick_mirrorAdd hk ht s1 L U _ _ true hw1 hne
              · split
                · -- all quote
                  split
                  · exact ⟨rfl, rfl⟩
                  · rw [optSwapFee_mirror hk.cx]
                    generalize h : optSwapFee K pool s _ _ _ _ = r
                    have hw1 : WalletHas pool r.2.wallet := by rw [← h]; exact optSwapFee_walletHas K pool s _ _ _ _ hw
                    obtain ⟨out, s1⟩ := r
                    cases out with
                    | error e => exact ⟨rfl, rfl⟩
                    | ok fee => exact addByTick_mirrorAdd hk ht s1 L U _ _ true hw1 hne
                · -- inside the range: excluded by `hout`
                  rename_i hLU hn1 hn2
                  exfalso
                  cases hq0 : pool.q0 <;> simp [hq0] at hn1 hn2 <;> omega)

/-- the hypothesis on the ticks holds whenever the two orientations' *raw* tick estimates are mirror images — e.g. the
    price sits exactly on a tick `t` and both float estimates return it (`t` and `-t`): rounding to the spacing is
    symmetric (`nearestUsable_neg`, round-half-even).  It fails when the floors differ (`t` vs `-t - 1`, a price strictly
    between two ticks) **and** `t` is half-way in its spacing cell — the known finding. -/
theorem C09_add_by_value_aligned_tick (pool : Pool) (o o' : ByValueOracle) (h : o'.tickEst = -o.tickEst) :
    nearestUsable o'.tickEst pool.spacing = -nearestUsable o.tickEst pool.spacing := by
  rw [h, nearestUsable_neg]

/-- a price strictly between two ticks (floors `t` and `-t - 1`) still gives mirrored rounded ticks unless `t + 1` rounds
    differently from `t`: spacing 10, floor tick 3 ↔ -4 both round to 0; floor tick 5 ↔ -6 round to 0 (half-even) and -10 -/
example : nearestUsable (-4) 10 = -nearestUsable 3 10 ∧ nearestUsable (-6) 10 ≠ -nearestUsable 5 10 := by decide +kernel

/-- non-vacuity of `C09_add_by_value_one_sided_partial`: a tick strictly below a trimmed range -/
example : nearestUsable 103 10 < (if true then nearestUsable 204 10 else 204) := by decide +kernel

end Demeter
