/-
  C09 — `add_liquidity_by_value` with the price INSIDE the range, under the token-order mirror.

  `Proofs/C09/ByValue.lean` covers the one-sided branches for every context.  Inside the range the helper splits `value`
  as `v1 = value / (r + 1)`, `v0 = value − v1` (`r` = token ratio in value terms) and, when the wallet is short of one token,
  computes a rebalancing swap (`get_swap_value_with_part_balance_used`).  On the mirror the ratio is `1 / r` and the roles of
  token0 / token1 are exchanged: the same numbers in exact arithmetic only.  So the theorem below is for kernels with the
  exact context, mirrored oracles (`tick' = −tick` after rounding to the spacing, `ratio' = 1 / ratio`), a non-zero price and
  ratio.  With `C09_add_by_value_one_sided_partial` this gives the whole helper (`C09_add_by_value_mirror_exact`).
  In the 35-digit context the two splits differ in the last digits: measured by the harness at 0.1 %.
-/
import Proofs.C09.ByValue
import Proofs.C09.Witness
import Proofs.Lemmas.Exact
import Mathlib.Tactic.FieldSimp
import Mathlib.Tactic.Ring
import Mathlib.Tactic.Linarith
namespace Demeter.Uni
open Demeter

theorem MirrorAdd.fail (e : Err) (s : State) : MirrorAdd (fail e s) (fail e (mState s)) := ⟨rfl, rfl⟩

theorem addValues_mirror {K K' : Kern} {pool : Pool} {ms : Nat → Nat} (hk : KernMirror K K' pool ms) (ht : TickErr K pool)
    (hne : pool.tok0 ≠ pool.tok1) (s : State) (L U : Int) (price t0v t1v : Rat) (hw : WalletHas pool s.wallet) :
    MirrorAdd (addValues K pool s L U price t0v t1v) (addValues K' (mPool pool) (mState s) (-U) (-L) price t1v t0v) := by
  unfold addValues
  by_cases hp : price = 0
  · rw [if_pos hp, if_pos hp]; first | done | exact MirrorAdd.fail _ _
  · rw [if_neg hp, if_neg hp]
    simp only [mPool_conv, hk.cx]
    exact addByTick_mirrorAdd hk ht s L U _ _ true hw hne

theorem swapValue_mirror {K K' : Kern} (hcx : K'.cx = K.cx) (pool : Pool) (s : State) (b : Bool) (v price : Rat) :
    swapValue K' (mPool pool) (mState s) b v price =
      ((swapValue K pool s b v price).1, mState (swapValue K pool s b v price).2) := by
  unfold swapValue
  cases b with
  | true => simp only [if_true, mPool_quoteTok, mPool_baseTok]; exact swap_mirror hcx pool s _ _ _ _ _
  | false =>
    simp only [Bool.false_eq_true, if_false]
    by_cases hp : price = 0
    · simp only [hp, if_true]
    · simp only [hp, if_false, mPool_quoteTok, mPool_baseTok, hcx]; exact swap_mirror hcx pool s _ _ _ _ _

theorem swapValue_walletHas (K : Kern) (pool : Pool) (s : State) (b : Bool) (v price : Rat) (hw : WalletHas pool s.wallet) :
    WalletHas pool (swapValue K pool s b v price).2.wallet := by
  unfold swapValue
  cases b with
  | true =>
    simp only [if_true]
    have h := swap_wrel K pool s v pool.quoteTok pool.baseTok none true
    exact ⟨h.1 _ hw.1, h.1 _ hw.2⟩
  | false =>
    simp only [Bool.false_eq_true, if_false]
    by_cases hp : price = 0
    · simp only [hp, if_true]; exact hw
    · simp only [hp, if_false]
      have h := swap_wrel K pool s (K.cx.div v price) pool.baseTok pool.quoteTok none true
      exact ⟨h.1 _ hw.1, h.1 _ hw.2⟩

/-- the swap-then-add tail of the two "short of one token" branches -/
theorem swapThenAdd_mirror {K K' : Kern} {pool : Pool} {ms : Nat → Nat} (hk : KernMirror K K' pool ms) (ht : TickErr K pool)
    (hne : pool.tok0 ≠ pool.tok1) (s : State) (L U : Int) (price : Rat) (b : Bool) (sv a0 a1 : Rat)
    (hw : WalletHas pool s.wallet) :
    MirrorAdd
      (match swapValue K pool s b sv price with
        | (.error e, s') => (.error e, s')
        | (.ok _, s') => addValues K pool s' L U price a0 a1)
      (match swapValue K' (mPool pool) (mState s) b sv price with
        | (.error e, s') => (.error e, s')
        | (.ok _, s') => addValues K' (mPool pool) s' (-U) (-L) price a1 a0) := by
  rw [swapValue_mirror hk.cx]
  have hw1 := swapValue_walletHas K pool s b sv price hw
  cases hsv : swapValue K pool s b sv price with
  | mk out s1 =>
    rw [hsv] at hw1
    cases out with
    | error e => exact ⟨rfl, rfl⟩
    | ok r => exact addValues_mirror hk ht hne s1 L U price a0 a1 hw1

/-- **the in-range branch of `add_liquidity_by_value` commutes with the mirror** (exact context, mirrored oracles) -/
theorem addByValueInRange_mirror {K K' : Kern} {pool : Pool} {ms : Nat → Nat} (hk : KernMirror K K' pool ms)
    (ht : TickErr K pool) (hne : pool.tok0 ≠ pool.tok1) (hcx : K.cx = NumCtx.exact) (s : State) (L U T : Int)
    (price value ratio : Rat) (hr : ratio ≠ 0) (hp : price ≠ 0) (hw : WalletHas pool s.wallet) :
    MirrorAdd (addByValueInRange K pool s L U T price value ratio)
      (addByValueInRange K' (mPool pool) (mState s) (-U) (-L) (-T) price value (1 / ratio)) := by
  have hcx' : K'.cx = NumCtx.exact := by rw [hk.cx, hcx]
  obtain ⟨b0, hb0⟩ := balanceOf_of_has hw.1
  obtain ⟨b1, hb1⟩ := balanceOf_of_has hw.2
  unfold addByValueInRange
  have hc : (decide (-U < -T) && decide (-T < -L)) = (decide (L < T) && decide (T < U)) := by
    rw [Bool.and_comm]
    congr 1 <;> (apply decide_eq_decide.mpr; constructor <;> intro h <;> omega)
  simp only [hcx, hcx', NumCtx.exact_add, NumCtx.exact_sub, NumCtx.exact_mul, NumCtx.exact_div, hc, mState_wallet,
    mPool_tok0, mPool_tok1, hb0, hb1, hp, Bool.and_false, decide_false, Bool.false_eq_true, if_false, mPool_feeRate]
  by_cases hin : (decide (L < T) && decide (T < U)) = true
  swap
  · have hin' : (decide (L < T) && decide (T < U)) = false := by simpa using hin
    simp only [hin', Bool.not_false, if_true]
    exact MirrorAdd.fail _ _
  simp only [hin, Bool.not_true, Bool.false_eq_true, if_false]
  -- the five-way decision on (v0 vs the wallet's token0 value, v1 vs token1 value); on the mirror the same numbers, roles exchanged
  have core : ∀ (rv bv0 bv1 : Rat), rv ≠ 0 → ¬ (rv + 1 = 0) → ∀ (B : Bool),
      MirrorAdd
        (if decide (value - value / (rv + 1) ≤ bv0) && decide (value / (rv + 1) ≤ bv1) then
            addValues K pool s L U price (value - value / (rv + 1)) (value / (rv + 1))
         else if decide (value - value / (rv + 1) > bv0) && decide (value / (rv + 1) > bv1) then fail .demeter s
         else if decide (value - value / (rv + 1) < bv0) && decide (value / (rv + 1) > bv1) then
            match swapValuePart NumCtx.exact bv0 bv1 value pool.feeRate rv with
            | .error e => fail e s
            | .ok (a0, a1, sv) =>
              match swapValue K pool s B sv price with
              | (.error e, s') => (.error e, s')
              | (.ok _, s') => addValues K pool s' L U price a0 a1
         else if decide (value - value / (rv + 1) > bv0) && decide (value / (rv + 1) < bv1) then
            if rv = 0 then fail .divByZero s else
            match swapValuePart NumCtx.exact bv1 bv0 value pool.feeRate (1 / rv) with
            | .error e => fail e s
            | .ok (a1, a0, sv) =>
              match swapValue K pool s (!B) sv price with
              | (.error e, s') => (.error e, s')
              | (.ok _, s') => addValues K pool s' L U price a0 a1
         else fail .notImpl s)
        (if decide (value - value / (1 / rv + 1) ≤ bv1) && decide (value / (1 / rv + 1) ≤ bv0) then
            addValues K' (mPool pool) (mState s) (-U) (-L) price (value - value / (1 / rv + 1)) (value / (1 / rv + 1))
         else if decide (value - value / (1 / rv + 1) > bv1) && decide (value / (1 / rv + 1) > bv0) then fail .demeter (mState s)
         else if decide (value - value / (1 / rv + 1) < bv1) && decide (value / (1 / rv + 1) > bv0) then
            match swapValuePart NumCtx.exact bv1 bv0 value pool.feeRate (1 / rv) with
            | .error e => fail e (mState s)
            | .ok (a0, a1, sv) =>
              match swapValue K' (mPool pool) (mState s) (!B) sv price with
              | (.error e, s') => (.error e, s')
              | (.ok _, s') => addValues K' (mPool pool) s' (-U) (-L) price a0 a1
         else if decide (value - value / (1 / rv + 1) > bv1) && decide (value / (1 / rv + 1) < bv0) then
            if 1 / rv = 0 then fail .divByZero (mState s) else
            match swapValuePart NumCtx.exact bv0 bv1 value pool.feeRate (1 / (1 / rv)) with
            | .error e => fail e (mState s)
            | .ok (a1, a0, sv) =>
              match swapValue K' (mPool pool) (mState s) (!!B) sv price with
              | (.error e, s') => (.error e, s')
              | (.ok _, s') => addValues K' (mPool pool) s' (-U) (-L) price a0 a1
         else fail .notImpl (mState s)) := by
    intro rv bv0 bv1 hrv0 hz B
    have hz2 : (1 : Rat) + rv ≠ 0 := by rwa [add_comm]
    have hz3 : rv + 1 ≠ 0 := hz
    have e1 : value / (1 / rv + 1) = value - value / (rv + 1) := by field_simp; ring
    have e0 : value - value / (1 / rv + 1) = value / (rv + 1) := by rw [e1]; ring
    have e2 : (1 : Rat) / (1 / rv) = rv := by field_simp
    have hrv' : ¬ (1 / rv = 0) := by simp [hrv0]
    rw [e0, e1, e2, Bool.not_not]
    generalize value / (rv + 1) = v1
    generalize value - v1 = v0
    simp only [gt_iff_lt, hrv0, hrv', if_false]
    by_cases A : v0 ≤ bv0 <;> by_cases Bc : v1 ≤ bv1
    · simp only [A, Bc, decide_true, Bool.and_self, if_true]
      exact addValues_mirror hk ht hne s L U price v0 v1 hw
    · by_cases A' : v0 < bv0
      · have f1 : ¬ bv0 < v0 := by linarith
        have f2 : bv1 < v1 := by linarith
        have f3 : ¬ v1 < bv1 := by linarith
        simp only [A, Bc, A', f1, f2, f3, decide_true, decide_false, Bool.and_self, Bool.and_false, Bool.false_and, Bool.and_true,
          Bool.true_and, Bool.false_eq_true, if_true, if_false]
        cases hsp : swapValuePart NumCtx.exact bv0 bv1 value pool.feeRate rv with
        | error e => exact MirrorAdd.fail _ _
        | ok r =>
          obtain ⟨x0, x1, sv⟩ := r
          exact swapThenAdd_mirror hk ht hne s L U price B sv x0 x1 hw
      · have f1 : ¬ bv0 < v0 := by linarith
        have f2 : bv1 < v1 := by linarith
        have f3 : ¬ v1 < bv1 := by linarith
        simp only [A, Bc, A', f1, f2, f3, decide_true, decide_false, Bool.and_self, Bool.and_false, Bool.false_and, Bool.and_true,
          Bool.true_and, Bool.false_eq_true, if_true, if_false]
        exact MirrorAdd.fail _ _
    · by_cases B' : v1 < bv1
      · have f1 : ¬ bv1 < v1 := by linarith
        have f2 : bv0 < v0 := by linarith
        have f3 : ¬ v0 < bv0 := by linarith
        simp only [A, Bc, B', f1, f2, f3, decide_true, decide_false, Bool.and_self, Bool.and_false, Bool.false_and, Bool.and_true,
          Bool.true_and, Bool.false_eq_true, if_true, if_false]
        cases hsp : swapValuePart NumCtx.exact bv1 bv0 value pool.feeRate (1 / rv) with
        | error e => exact MirrorAdd.fail _ _
        | ok r =>
          obtain ⟨x1, x0, sv⟩ := r
          exact swapThenAdd_mirror hk ht hne s L U price (!B) sv x0 x1 hw
      · have f1 : ¬ bv1 < v1 := by linarith
        have f2 : bv0 < v0 := by linarith
        have f3 : ¬ v0 < bv0 := by linarith
        simp only [A, Bc, B', f1, f2, f3, decide_true, decide_false, Bool.and_self, Bool.and_false, Bool.false_and, Bool.and_true,
          Bool.true_and, Bool.false_eq_true, if_true, if_false]
        exact MirrorAdd.fail _ _
    · have f1 : bv0 < v0 := by linarith
      have f2 : bv1 < v1 := by linarith
      simp only [A, Bc, f1, f2, decide_true, decide_false, Bool.and_self, Bool.and_false, Bool.false_and, Bool.and_true,
        Bool.true_and, Bool.false_eq_true, if_true, if_false]
      exact MirrorAdd.fail _ _
  have inv_neg1 : ∀ x : Rat, x ≠ 0 → 1 / x + 1 = 0 → x + 1 = 0 := by
    intro x hx h
    have h2 : 1 / x = -1 := by linarith
    rw [div_eq_iff hx] at h2
    linarith
  cases hq : pool.q0 with
  | false =>
    have hq' : (mPool pool).q0 = true := by simp [mPool, hq]
    have hc1 : (mPool pool).conv price 1 = (1, price) := by simp [Pool.conv, hq']
    have hc0 : pool.conv price 1 = (price, 1) := by simp [Pool.conv, hq]
    simp only [hq', hc1, hc0, if_true, Bool.false_eq_true, if_false, Bool.not_true, Bool.not_false]
    have hrv0 : ratio * price ≠ 0 := mul_ne_zero hr hp
    have hrv : 1 / ratio / price = 1 / (ratio * price) := by field_simp
    rw [hrv]
    by_cases hz : ratio * price + 1 = 0
    · have hz' : 1 / (ratio * price) + 1 = 0 := by
        have : ratio * price = -1 := by linarith
        rw [this]; norm_num
      simp only [hz, hz', if_true]; exact MirrorAdd.fail _ _
    have hz' : ¬ (1 / (ratio * price) + 1 = 0) := fun h => hz (inv_neg1 _ hrv0 h)
    simp only [hz, hz', if_false]
    exact core (ratio * price) (b0 * price) (b1 * 1) hrv0 hz false
  | true =>
    have hq' : (mPool pool).q0 = false := by simp [mPool, hq]
    have hc1 : (mPool pool).conv price 1 = (price, 1) := by simp [Pool.conv, hq']
    have hc0 : pool.conv price 1 = (1, price) := by simp [Pool.conv, hq]
    simp only [hq', hc1, hc0, if_true, Bool.false_eq_true, if_false, Bool.not_true, Bool.not_false]
    have hrv0 : ratio / price ≠ 0 := div_ne_zero hr hp
    have hrv : 1 / ratio * price = 1 / (ratio / price) := by field_simp
    rw [hrv]
    by_cases hz : ratio / price + 1 = 0
    · have hz' : 1 / (ratio / price) + 1 = 0 := by
        have : ratio / price = -1 := by linarith
        rw [this]; norm_num
      simp only [hz, hz', if_true]; exact MirrorAdd.fail _ _
    have hz' : ¬ (1 / (ratio / price) + 1 = 0) := fun h => hz (inv_neg1 _ hrv0 h)
    simp only [hz, hz', if_false]
    exact core (ratio / price) (b0 * 1) (b1 * price) hrv0 hz true

end Demeter.Uni

namespace Demeter
open Demeter.Uni

/-- **`add_liquidity_by_value` commutes with the token-order mirror — all three regimes** — for kernels related by the
    mirror law whose context is exact, when the two orientations' oracles are mirror images: rounded price ticks
    `t' = −t` (`ho`; see `C09_add_by_value_aligned_tick` and the known finding for when they are not) and token ratios
    `ratio' = 1 / ratio ≠ 0` (`hor`, `hr`), at a non-zero price.  Same outcome (exception class, or used amounts and
    liquidity with the position key mirrored) and mirrored economic state, including the rebalancing swap of the in-range
    branch.  Extends `C09_add_by_value_one_sided_partial` (which needs no exactness) to the in-range branch. -/
theorem C09_add_by_value_mirror_exact {K K' : Kern} {pool : Pool} {ms : Nat → Nat} (hk : KernMirror K K' pool ms)
    (ht : TickErr K pool) (hne : pool.tok0 ≠ pool.tok1) (hcx : K.cx = NumCtx.exact) (me : Rat) (s : State) (lo up : Int)
    (v : Option Rat) (trim : Bool) (o o' : ByValueOracle) (hw : WalletHas pool s.wallet)
    (ho : nearestUsable o'.tickEst pool.spacing = -nearestUsable o.tickEst pool.spacing)
    (hor : o'.ratioAmt = 1 / o.ratioAmt) (hr : o.ratioAmt ≠ 0) (hprice : ∀ x, priceOf s = .ok x → x ≠ 0) :
    MirrorAdd (addByValue K pool me s lo up v trim o) (addByValue K' (mPool pool) me (mState s) (-up) (-lo) v trim o') := by
  unfold addByValue
  have hl : (if trim then nearestUsable (-up) pool.spacing else -up) = -(if trim then nearestUsable up pool.spacing else up) := by
    cases trim <;> simp [nearestUsable_neg]
  have hu : (if trim then nearestUsable (-lo) pool.spacing else -lo) = -(if trim then nearestUsable lo pool.spacing else lo) := by
    cases trim <;> simp [nearestUsable_neg]
  simp only [mPool_spacing, priceOf_mirror, mState_wallet, mPool_quoteTok, mPool_baseTok, hk.cx, ho, hl, hu, hor]
  generalize (if trim then nearestUsable lo pool.spacing else lo) = L
  generalize (if trim then nearestUsable up pool.spacing else up) = U
  generalize nearestUsable o.tickEst pool.spacing = T
  cases hp : priceOf s with
  | error e => exact ⟨rfl, rfl⟩
  | ok price =>
    simp only []
    cases hq : balanceOf s.wallet pool.quoteTok with
    | error e => exact ⟨rfl, rfl⟩
    | ok qBal =>
      cases hb : balanceOf s.wallet pool.baseTok with
      | error e => exact ⟨rfl, rfl⟩
      | ok bBal =>
        have hge : (-U ≥ -L) ↔ (L ≥ U) := by constructor <;> intro h <;> omega
        have c1 : (((mPool pool).q0 && decide (-T > -L)) || (!(mPool pool).q0 && decide (-T < -U))) =
            ((pool.q0 && decide (T > U)) || (!pool.q0 && decide (T < L))) := by
          unfold mPool
          cases pool.q0 <;> simp
        have c2 : (((mPool pool).q0 && decide (-T < -U)) || (!(mPool pool).q0 && decide (-T > -L))) =
            ((pool.q0 && decide (T < L)) || (!pool.q0 && decide (T > U))) := by
          unfold mPool
          cases pool.q0 <;> simp
        simp only [hge, c1, c2]
        cases v
        all_goals (
          dsimp only
          split
          · exact ⟨rfl, rfl⟩
          · split
            · exact ⟨rfl, rfl⟩
            · split
              · split
                · exact ⟨rfl, rfl⟩
                · rw [optSwapFee_mirror hk.cx]
                  generalize h : optSwapFee K pool s _ _ _ _ = r
                  have hw1 : WalletHas pool r.2.wallet := by rw [← h]; exact optSwapFee_walletHas K pool s _ _ _ _ hw
                  obtain ⟨out, s1⟩ := r
                  cases out with
                  | error e => exact ⟨rfl, rfl⟩
                  | ok fee => exact addByTick_mirrorAdd hk ht s1 L U _ _ true hw1 hne
              · split
                · split
                  · exact ⟨rfl, rfl⟩
                  · rw [optSwapFee_mirror hk.cx]
                    generalize h : optSwapFee K pool s _ _ _ _ = r
                    have hw1 : WalletHas pool r.2.wallet := by rw [← h]; exact optSwapFee_walletHas K pool s _ _ _ _ hw
                    obtain ⟨out, s1⟩ := r
                    cases out with
                    | error e => exact ⟨rfl, rfl⟩
                    | ok fee => exact addByTick_mirrorAdd hk ht s1 L U _ _ true hw1 hne
                · exact addByValueInRange_mirror hk ht hne hcx s L U T price _ o.ratioAmt hr (hprice price hp) hw)

/-- a wallet short of the base token: the in-range branch has to swap before it adds -/
def gridStateShort : State := { gridState with wallet := [("a", 100), ("b", 10)] }

/-- non-vacuity of `C09_add_by_value_mirror_exact`, in-range branch with the rebalancing swap: the grid kernel of
    `Proofs/C09/Witness.lean` (exact context, mirror law proved), price tick 0 inside `[-10, 10]`, token ratio 2 resp. 1/2:
    accepted on both sides with the same used amounts, liquidity and final wallet (the swap fee shows in the /998) -/
example :
    Grid.gridKern.cx = NumCtx.exact ∧ ((1 : Rat) / 2 = 1 / (2 : Rat)) ∧
    (addByValue Grid.gridKern toyPool 0 gridStateShort (-10) 10 (some 60) true { tickEst := 0, ratioAmt := 2 }).1 =
      .ok [-10, 10, 39 / 2, 39 / 2, 39] ∧
    (addByValue Grid.gridKern (mPool toyPool) 0 (mState gridStateShort) (-10) 10 (some 60) true { tickEst := 0, ratioAmt := 1 / 2 }).1 =
      .ok [-10, 10, 39 / 2, 39 / 2, 39] ∧
    (addByValue Grid.gridKern toyPool 0 gridStateShort (-10) 10 (some 60) true { tickEst := 0, ratioAmt := 2 }).2.wallet =
      [("a", 70339 / 998), ("b", 489 / 998)] ∧
    (addByValue Grid.gridKern (mPool toyPool) 0 (mState gridStateShort) (-10) 10 (some 60) true { tickEst := 0, ratioAmt := 1 / 2 }).2.wallet =
      [("a", 70339 / 998), ("b", 489 / 998)] := by
  refine ⟨rfl, rfl, ?_, ?_, ?_, ?_⟩ <;> decide +kernel

end Demeter
