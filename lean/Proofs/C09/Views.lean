/-
  C09 — the read-only views and the estimate helpers under the token-order mirror:
  `get_market_balance`, `get_position_amount`, `get_position_status`, `estimate_amount`, `estimate_liquidity`
  (`Demeter/Uni/Views.lean`).

  The three views commute with the mirror exactly for every pair of kernels related by the mirror law and every
  arithmetic context.  `estimate_amount` splits `value` as `v1 = value / (r + 1)`, `v0 = value − v1`; on the mirror the
  ratio is `1 / r` and the split is `value / (1/r + 1)`, `value −` that: the same two numbers in exact arithmetic only,
  so its theorem is for a kernel whose context is exact, and needs the two orientations' oracles to be mirror images
  (`tickReal' = −tickReal`, `ratio' = 1 / ratio` — libm oracles in the code).  `estimate_liquidity` in range follows
  from it and the kernel law; its one-sided branches do integer arithmetic on the two bounds' sqrt prices directly
  (`mulDiv sa sb Q96`), which the abstract law does not cover — see `C09_estimate_liquidity_in_range_mirror_partial`.
-/
import Proofs.Lemmas.UniMirror
import Proofs.Lemmas.Exact
import Mathlib.Tactic.FieldSimp
import Mathlib.Tactic.Ring
namespace Demeter.Uni
open Demeter

theorem getValue_mirror (cx : NumCtx) (pool : Pool) (a0 a1 price : Rat) :
    getValue cx (mPool pool) a1 a0 price = getValue cx pool a0 a1 price := by
  unfold getValue
  rw [mPool_conv]

/-- the accumulation loop of `get_market_balance`: fees are accumulated in base/quote terms (identical), deposits per
    token (exchanged) -/
theorem balanceLoop_mirror {K K' : Kern} {pool : Pool} {ms : Nat → Nat} (hk : KernMirror K K' pool ms) (sqrt : Nat) :
    ∀ (ps : List Pos) (bf qf d0 d1 : Rat),
      balanceLoop K' (mPool pool) (ms sqrt) (ps.map mPos) (bf, qf, d1, d0) =
        (balanceLoop K pool sqrt ps (bf, qf, d0, d1)).map (fun r => (r.1, r.2.1, r.2.2.2, r.2.2.1))
  | [], _, _, _, _ => rfl
  | p :: ps, bf, qf, d0, d1 => by
    simp only [List.map_cons, balanceLoop, mPos_transferred]
    by_cases ht : p.transferred = true
    · simp only [ht, if_true]
      exact balanceLoop_mirror hk sqrt ps bf qf d0 d1
    · simp only [ht, Bool.false_eq_true, if_false]
      have ha := hk.amounts sqrt p.lower p.upper p.liq p.liqDec
      have hlo : (mPos p).lower = -p.upper := rfl
      have hup : (mPos p).upper = -p.lower := rfl
      rw [hlo, hup, mPos_liq, mPos_liqDec, ha, mPos_pending0, mPos_pending1, mPool_conv, hk.cx]
      cases hr : K.amounts pool sqrt p.lower p.upper p.liq p.liqDec with
      | error e => rfl
      | ok a =>
        obtain ⟨a0, a1⟩ := a
        simp only [Except.map]
        exact balanceLoop_mirror hk sqrt ps _ _ _ _

theorem filter_length_mirror (ps : List Pos) :
    ((ps.map mPos).filter (fun p => !p.transferred)).length = (ps.filter (fun p => !p.transferred)).length := by
  induction ps with
  | nil => rfl
  | cons p ps ih =>
    simp only [List.map_cons, List.filter_cons, mPos_transferred]
    by_cases h : p.transferred = true
    · simp [h, ih]
    · have h' : p.transferred = false := by simpa using h
      simp [h', ih]

end Demeter.Uni

namespace Demeter
open Demeter.Uni

/-- **`get_market_balance()` is the same on a market and on its token-order mirror**: net value, liquidity value,
    uncollected base / quote fees, base / quote held in positions, position count — for any kernels related by the mirror
    law and any arithmetic context; also the same exception when it raises. -/
theorem C09_getMarketBalance_mirror {K K' : Kern} {pool : Pool} {ms : Nat → Nat} (hk : KernMirror K K' pool ms) (s : State) :
    getMarketBalance K' (mPool pool) (mState s) = getMarketBalance K pool s := by
  unfold getMarketBalance
  rw [priceOf_mirror]
  cases hp : priceOf s with
  | error e => rfl
  | ok price =>
    simp only []
    rw [hk.priceToSqrt]
    cases hs : K.priceToSqrt pool price with
    | error e => rfl
    | ok sqrt =>
      simp only [Except.map, mState_positions]
      rw [balanceLoop_mirror hk sqrt s.positions 0 0 0 0]
      cases hb : balanceLoop K pool sqrt s.positions (0, 0, 0, 0) with
      | error e => rfl
      | ok r =>
        obtain ⟨bf, qf, d0, d1⟩ := r
        simp only [Except.map, mPool_conv, hk.cx, filter_length_mirror]

/-- **`get_position_amount(key)`**: the amounts of the mirrored position on the mirrored market are the original's,
    token0 and token1 exchanged -/
theorem C09_getPositionAmount_mirror {K K' : Kern} {pool : Pool} {ms : Nat → Nat} (hk : KernMirror K K' pool ms) (s : State)
    (lo up : Int) :
    getPositionAmount K' (mPool pool) (mState s) (-up) (-lo) =
      (getPositionAmount K pool s lo up).map (fun r => (r.2, r.1)) := by
  unfold getPositionAmount
  rw [mState_positions, findPos_mirror, priceOf_mirror]
  cases hf : findPos s.positions lo up with
  | none => rfl
  | some p =>
    simp only [Option.map]
    cases hp : priceOf s with
    | error e => rfl
    | ok price =>
      simp only []
      rw [hk.priceToSqrt]
      cases hs : K.priceToSqrt pool price with
      | error e => rfl
      | ok sqrt =>
        simp only [Except.map, mPos_liq, mPos_liqDec]
        exact hk.amounts sqrt lo up p.liq p.liqDec

/-- the list `get_position_status` returns, with the per-token entries exchanged:
    liquidity, liq amounts (0,1), liq value, pending (0,1), pending value, totals (0,1), total value, H, L, P -/
def mStatus : List Rat → List Rat
  | [l, l0, l1, lv, p0, p1, pv, a0, a1, av, h, lw, p] => [l, l1, l0, lv, p1, p0, pv, a1, a0, av, h, lw, p]
  | v => v

/-- **`get_position_status(key)`**: liquidity, values (liquidity / pending / total), H, L, P identical; per-token
    amounts exchanged; same exception when it raises -/
theorem C09_getPositionStatus_mirror {K K' : Kern} {pool : Pool} {ms : Nat → Nat} (hk : KernMirror K K' pool ms) (s : State)
    (lo up : Int) :
    getPositionStatus K' (mPool pool) (mState s) (-up) (-lo) = (getPositionStatus K pool s lo up).map mStatus := by
  unfold getPositionStatus
  rw [C09_getPositionAmount_mirror hk, mState_positions, findPos_mirror, priceOf_mirror]
  cases hf : findPos s.positions lo up with
  | none => rfl
  | some p =>
    simp only [Option.map]
    cases hp : priceOf s with
    | error e => rfl
    | ok price =>
      simp only []
      cases ha : getPositionAmount K pool s lo up with
      | error e => rfl
      | ok a =>
        obtain ⟨l0, l1⟩ := a
        simp only [Except.map, mPos_pending0, mPos_pending1, mPos_liq, hk.cx, getValue_mirror]
        have h1 : (mPos p).initPrice = p.initPrice := rfl
        have h2 : (mPos p).upperPrice = p.upperPrice := rfl
        have h3 : (mPos p).lowerPrice = p.lowerPrice := rfl
        rw [h1, h2, h3]
        split
        · rfl
        · rfl

/-- **`estimate_amount(value, lower, upper)`** for a kernel with the exact context: with mirrored oracles
    (`tickReal' = −tickReal`, `ratio' = 1 / ratio`), a non-zero price and a non-zero ratio (a price strictly inside the
    range), the split of `value` over the two tokens on the mirror is the original's, exchanged; same rejection
    otherwise.  (In the 35-digit context the two splits `value / (r + 1)` and `value − value / (1/r + 1)` differ by
    rounding: measured by the harness at 0.1 %.) -/
theorem C09_estimateAmount_mirror_exact {K K' : Kern} (pool : Pool) (hcx : K.cx = NumCtx.exact) (hcx' : K'.cx = NumCtx.exact)
    (s : State) (value : Rat) (lo up : Int) (tickReal ratio : Rat) (hr : ratio ≠ 0)
    (hprice : ∀ x, priceOf s = .ok x → x ≠ 0) :
    estimateAmount K' (mPool pool) (mState s) value (-up) (-lo) (-tickReal) (1 / ratio) =
      (estimateAmount K pool s value lo up tickReal ratio).map (fun r => (r.2, r.1)) := by
  unfold estimateAmount
  rw [priceOf_mirror]
  cases hp : priceOf s with
  | error e => rfl
  | ok price =>
    have hp0 : price ≠ 0 := hprice price hp
    simp only [hcx, hcx', NumCtx.exact_add, NumCtx.exact_sub, NumCtx.exact_mul, NumCtx.exact_div]
    have hin : (decide ((((-up : Int)) : Rat) < -tickReal) && decide (-tickReal < (((-lo : Int)) : Rat))) =
        (decide ((lo : Rat) < tickReal) && decide (tickReal < (up : Rat))) := by
      push_cast
      rw [Bool.and_comm]
      congr 1 <;> (apply decide_eq_decide.mpr; constructor <;> intro h <;> linarith)
    rw [hin]
    by_cases hrange : (decide ((lo : Rat) < tickReal) && decide (tickReal < (up : Rat))) = true
    · simp only [hrange, Bool.not_true, Bool.false_eq_true, if_false, hp0, Bool.and_false, decide_false]
      cases hq : pool.q0 with
      | false =>
        have hq' : (mPool pool).q0 = true := by simp [mPool, hq]
        simp only [hq', hq, if_true, Bool.not_true, Bool.not_false, Bool.false_eq_true, if_false]
        have hrv : 1 / ratio / price + 1 = (ratio * price + 1) / (ratio * price) := by field_simp; ring
        by_cases hz : ratio * price + 1 = 0
        · have hz' : 1 / ratio / price + 1 = 0 := by rw [hrv, hz, zero_div]
          simp only [hz, hz', if_true]
          rfl
        · have hz' : ¬ (1 / ratio / price + 1 = 0) := by
            rw [hrv]; exact div_ne_zero hz (mul_ne_zero hr hp0)
          simp only [hz, hz', if_false, Except.map]
          congr 1
          refine Prod.ext ?_ ?_
          · show value - value / (1 / ratio / price + 1) = value / (ratio * price + 1)
            rw [hrv]; field_simp; ring
          · show value / (1 / ratio / price + 1) / price = (value - value / (ratio * price + 1)) / price
            rw [hrv]; field_simp; ring
      | true =>
        have hq' : (mPool pool).q0 = false := by simp [mPool, hq]
        simp only [hq', hq, if_true, Bool.not_true, Bool.not_false, Bool.false_eq_true, if_false]
        have hrv : 1 / ratio * price + 1 = (ratio / price + 1) / (ratio / price) := by field_simp; ring
        by_cases hz : ratio / price + 1 = 0
        · have hz' : 1 / ratio * price + 1 = 0 := by rw [hrv, hz, zero_div]
          simp only [hz, hz', if_true]
          rfl
        · have hz' : ¬ (1 / ratio * price + 1 = 0) := by
            rw [hrv]; exact div_ne_zero hz (div_ne_zero hr hp0)
          have hsum : ratio + price ≠ 0 := by
            intro h; apply hz; field_simp; linarith
          simp only [hz, hz', if_false, Except.map]
          congr 1
          refine Prod.ext ?_ ?_
          · show (value - value / (1 / ratio * price + 1)) / price = value / (ratio / price + 1) / price
            rw [hrv]; field_simp; ring
          · show value / (1 / ratio * price + 1) = value - value / (ratio / price + 1)
            rw [hrv]; field_simp; ring
    · have hrange' : (decide ((lo : Rat) < tickReal) && decide (tickReal < (up : Rat))) = false := by
        simpa using hrange
      simp only [hrange', Bool.not_false, if_true]
      rfl

/-- **`estimate_liquidity(value, position)`, price inside the range (partial).**  With mirrored oracles, an exact
    context, both bound ticks valid and both orientations' current ticks strictly inside the range, the helper returns
    the same liquidity and the exchanged amounts on the mirror.
    Missing for the full statement: the two one-sided branches compute `value·10^d·⌊sa·sb/2^96⌋ // (sb − sa)` and
    `value·10^d·2^96 // (sb − sa)` from the bounds' sqrt prices by integer arithmetic of their own; they are mirror images
    only up to the reciprocity error of the concrete kernel (`C09_std_amounts_mirror_eps` quantifies the same slack for
    the amounts) and up to the floor-tick asymmetry of `cur` for a price within one tick of a bound (measured). -/
theorem C09_estimate_liquidity_in_range_mirror_partial {K K' : Kern} {pool : Pool} {ms : Nat → Nat}
    (hk : KernMirror K K' pool ms) (hcx : K.cx = NumCtx.exact) (s : State) (value : Rat) (lo up : Int)
    (est est' : Int) (tickReal ratio : Rat) (hr : ratio ≠ 0) (hprice : ∀ x, priceOf s = .ok x → x ≠ 0)
    (ls us : Nat) (hls : K.tickToSqrt lo = .ok ls) (hus : K.tickToSqrt up = .ok us)
    (hin : ∀ x sqrt, priceOf s = .ok x → K.priceToSqrt pool x = .ok sqrt →
      (lo < tickOfSqrt 64 est sqrt ∧ tickOfSqrt 64 est sqrt < up) ∧
      (-up < tickOfSqrt 64 est' (ms sqrt) ∧ tickOfSqrt 64 est' (ms sqrt) < -lo)) :
    estimateLiquidity K' (mPool pool) (mState s) value (-up) (-lo) est' (-tickReal) (1 / ratio) =
      (estimateLiquidity K pool s value lo up est tickReal ratio).map (fun r => (r.1, r.2.2, r.2.1)) := by
  have hcx' : K'.cx = NumCtx.exact := by rw [hk.cx, hcx]
  unfold estimateLiquidity
  rw [priceOf_mirror]
  cases hp : priceOf s with
  | error e => rfl
  | ok price =>
    simp only []
    rw [hk.priceToSqrt]
    cases hs : K.priceToSqrt pool price with
    | error e => rfl
    | ok sqrt =>
      obtain ⟨⟨h1, h2⟩, h3, h4⟩ := hin price sqrt hp hs
      simp only [Except.map, hk.tickToSqrt, hls, hus]
      rw [if_neg (by omega), if_neg (by omega), if_neg (by omega), if_neg (by omega)]
      rw [C09_estimateAmount_mirror_exact pool hcx hcx' s value lo up tickReal ratio hr hprice]
      cases he : estimateAmount K pool s value lo up tickReal ratio with
      | error e => rfl
      | ok a =>
        obtain ⟨a0, a1⟩ := a
        simp only [Except.map]
        rw [hk.newPos]
        cases hn : K.newPos pool sqrt lo up a0 a1 with
        | error e => rfl
        | ok r => rfl

end Demeter
