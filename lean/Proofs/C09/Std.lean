/-
  C09 — the orientation algebra of the code's OWN kernel (`Kern.std`, helper.py / liquitidy_math.py / core.py), in the
  exact context.  `C09_orchestration` is about kernels that satisfy the mirror law exactly; the concrete kernel does not
  (TickMath's `sqrtAt t · sqrtAt (−t)` is `2^192` only up to a unit of Q96 rounding in each factor, and the Decimal square
  root of `p` and of `1/p` are floored separately).  This file says what the concrete helpers DO satisfy:

  * every identity is stated for arbitrary integer sqrt prices with the *products* `s·s'` explicit, so the deviation from the
    exact law is an explicit factor / additive term in `s·s' − 2^192` (the "slack"); with `s·s' = 2^192` it vanishes and the
    helper is exactly mirror-symmetric (`…_exact` corollaries);
  * for the sqrt prices of ticks the slack is bounded on the whole tick range by `C09_kernel_reciprocity`
    (`|sqrtAt t · sqrtAt (−t) − 2^192| ≤ 2·max`), which gives `C09_std_tickToPrice_mirror_eps`.

  What is NOT proved here: the propagation of these slacks through the orchestration code (wallet checks, liquidity floors
  of `get_liquidity`) — that closeness is measured by the harness at 1e-12 / 0.1 %.
-/
import Demeter.Uni.Mirror
import Demeter.Uni.Kernel
import Proofs.Lemmas.Exact
import Proofs.C09.Recip
import Proofs.C06.Close
import Proofs.C04.Uni
import Mathlib.Tactic.FieldSimp
import Mathlib.Tactic.Ring
import Mathlib.Tactic.Linarith
import Mathlib.Tactic.Positivity
namespace Demeter.Uni
open Demeter

/-- `Decimal ** 2` in the exact context -/
def sqx (x : Rat) : Rat := x * x

theorem q96R_pos : (0 : Rat) < q96R := by unfold q96R Q96; positivity
theorem q96R_sq : q96R * q96R = (2 : Rat) ^ 192 := by unfold q96R Q96; push_cast; ring

/-- the price the pool-orientation helper computes, as one formula -/
theorem poolPriceToBase_exact (pool : Pool) (s : Nat) :
    poolPriceToBase NumCtx.exact sqx pool s =
      if pool.q0 then
        (if (s : Rat) / q96R * ((s : Rat) / q96R) * pool.decFac = 0 then .error .divByZero
         else .ok (1 / ((s : Rat) / q96R * ((s : Rat) / q96R) * pool.decFac)))
      else .ok ((s : Rat) / q96R * ((s : Rat) / q96R) * pool.decFac) := by
  unfold poolPriceToBase sqx
  simp only [NumCtx.exact_div, NumCtx.exact_mul]
  cases pool.q0 <;> rfl

end Demeter.Uni

namespace Demeter
open Demeter.Uni

/-! ### prices -/

/-- **`sqrt_price_x96_to_base_unit_price` on a pool and on its mirror, any two non-zero sqrt prices**: both succeed, and
    the mirror's price is the original's times an explicit factor in the product `s·s'` — `(2^192 / (s·s'))²` when
    token0 is the base token, `((s·s') / 2^192)²` when it is the quote token. -/
theorem C09_std_sqrtToPrice_mirror_eps (pool : Pool) (s s' : Nat) (hs : s ≠ 0) (hs' : s' ≠ 0) (hd : pool.decFac ≠ 0) :
    ∃ x y, sqrtToPriceStd NumCtx.exact sqx pool s = .ok x ∧ sqrtToPriceStd NumCtx.exact sqx (mPool pool) s' = .ok y ∧
      y = x * (if pool.q0 then (((s : Rat) * s') / 2 ^ 192) ^ 2 else (2 ^ 192 / ((s : Rat) * s')) ^ 2) := by
  have hq := q96R_pos
  have hq2 := q96R_sq
  have hsr : (s : Rat) ≠ 0 := by exact_mod_cast hs
  have hsr' : (s' : Rat) ≠ 0 := by exact_mod_cast hs'
  have hqne : q96R ≠ 0 := ne_of_gt hq
  unfold sqrtToPriceStd
  rw [poolPriceToBase_exact, poolPriceToBase_exact]
  cases hq0 : pool.q0 with
  | false =>
    have hm : (mPool pool).q0 = true := by simp [mPool, hq0]
    have hdm : (mPool pool).decFac = 1 / pool.decFac := rfl
    simp only [hm, hdm, if_true, Bool.false_eq_true, if_false]
    have hne : ¬ ((s' : Rat) / q96R * ((s' : Rat) / q96R) * (1 / pool.decFac) = 0) := by positivity
    rw [if_neg hne]
    refine ⟨_, _, rfl, rfl, ?_⟩
    rw [← hq2]; field_simp
  | true =>
    have hm : (mPool pool).q0 = false := by simp [mPool, hq0]
    have hdm : (mPool pool).decFac = 1 / pool.decFac := rfl
    simp only [hm, hdm, if_true, Bool.false_eq_true, if_false]
    have hne : ¬ ((s : Rat) / q96R * ((s : Rat) / q96R) * pool.decFac = 0) := by positivity
    rw [if_neg hne]
    refine ⟨_, _, rfl, rfl, ?_⟩
    rw [← hq2]; field_simp

/-- **exact orientation algebra**: for reciprocal sqrt prices (`s·s' = 2^192`) the mirror pool's price of `s'` IS the
    pool's price of `s` -/
theorem C09_std_sqrtToPrice_mirror_exact (pool : Pool) (s s' : Nat) (h : s * s' = 2 ^ 192) (hd : pool.decFac ≠ 0) :
    sqrtToPriceStd NumCtx.exact sqx (mPool pool) s' = sqrtToPriceStd NumCtx.exact sqx pool s := by
  have hs : s ≠ 0 := by rintro rfl; simp at h
  have hs' : s' ≠ 0 := by rintro rfl; simp at h
  obtain ⟨x, y, hx, hy, hxy⟩ := C09_std_sqrtToPrice_mirror_eps pool s s' hs hs' hd
  have hp : (s : Rat) * s' = 2 ^ 192 := by exact_mod_cast h
  rw [hx, hy, hxy, hp]
  have h2 : (2 : Rat) ^ 192 ≠ 0 := by positivity
  rw [div_self h2]
  simp

theorem tickOk_neg' (t : Int) : tickOk (-t) = tickOk t := by unfold tickOk; simp

theorem sqrtAt_ne_zero_of_ok (t : Int) (h : tickOk t = true) : sqrtAt t ≠ 0 := by
  have hb : t.natAbs ≤ Gen.tickBound := by simpa [tickOk] using h
  have h1 : minTick ≤ t := by unfold minTick; omega
  have h2 : t ≤ maxTick := by unfold maxTick; omega
  have := TickClose.sqrtAt_ge_min t h1 h2
  omega

/-- **`tick_to_base_unit_price` of tick `t` on a pool and of tick `−t` on its mirror**, every valid tick: the mirror's
    price is the original's times `(2^192 / P)²` resp. `(P / 2^192)²`, `P = sqrtAt t · sqrtAt (−t)`; and `P` is within
    `2·max(sqrtAt t, sqrtAt (−t))` of `2^192` (the whole-range kernel sweep).  An invalid tick is rejected on both sides. -/
theorem C09_std_tickToPrice_mirror_eps (pool : Pool) (t : Int) (hd : pool.decFac ≠ 0) :
    (tickOk t = false → tickToPriceStd NumCtx.exact sqx pool t = .error .assertion ∧
                        tickToPriceStd NumCtx.exact sqx (mPool pool) (-t) = .error .assertion) ∧
    (tickOk t = true → ∃ x y, tickToPriceStd NumCtx.exact sqx pool t = .ok x ∧
        tickToPriceStd NumCtx.exact sqx (mPool pool) (-t) = .ok y ∧
        y = x * (if pool.q0 then (((sqrtAt t : Rat) * sqrtAt (-t)) / 2 ^ 192) ^ 2
                 else (2 ^ 192 / ((sqrtAt t : Rat) * sqrtAt (-t))) ^ 2) ∧
        (t ≠ 0 → sqrtAt t * sqrtAt (-t) ≤ 2 ^ 192 + 2 * max (sqrtAt t) (sqrtAt (-t)) ∧
                 2 ^ 192 ≤ sqrtAt t * sqrtAt (-t) + 2 * max (sqrtAt t) (sqrtAt (-t)))) := by
  constructor
  · intro h
    unfold tickToPriceStd sqrtAtE
    rw [tickOk_neg', h]
    exact ⟨rfl, rfl⟩
  · intro h
    have hn : tickOk (-t) = true := by rw [tickOk_neg', h]
    obtain ⟨x, y, hx, hy, hxy⟩ := C09_std_sqrtToPrice_mirror_eps pool (sqrtAt t) (sqrtAt (-t))
      (sqrtAt_ne_zero_of_ok t h) (sqrtAt_ne_zero_of_ok (-t) hn) hd
    refine ⟨x, y, ?_, ?_, hxy, ?_⟩
    · unfold tickToPriceStd sqrtAtE; rw [h]; exact hx
    · unfold tickToPriceStd sqrtAtE; rw [hn]; exact hy
    · intro ht0
      have hb : t.natAbs ≤ Gen.tickBound := by simpa [tickOk] using h
      have hb' : t.natAbs ≤ 887272 := hb
      have hpos : 0 < t.natAbs := by omega
      have hr := C09_kernel_reciprocity t.natAbs hb' hpos
      rcases Int.natAbs_eq t with ht | ht
      · -- t = |t|
        have e1 : sqrtAt t = sqrtAt ((t.natAbs : Nat) : Int) := by rw [← ht]
        have e2 : sqrtAt (-t) = sqrtAt (-((t.natAbs : Nat) : Int)) := by rw [← ht]
        rw [e1, e2, Nat.mul_comm, max_comm]
        exact hr
      · have e1 : sqrtAt t = sqrtAt (-((t.natAbs : Nat) : Int)) := by rw [← ht]
        have e2 : sqrtAt (-t) = sqrtAt ((t.natAbs : Nat) : Int) := by rw [ht, Int.neg_neg]; rw [← ht]
        rw [e1, e2]
        exact hr

/-! ### amounts -/

/-- `get_amount0` in the exact context is `l · 2^96 · (1/sa − 1/sb) / 10^d` whether the liquidity is an `int` or a `Decimal` -/
theorem c09_amount0Gen_exact (sa sb : Nat) (l : Int) (dec : Bool) (d : Nat) (h : sa ≤ sb) (ha : sa ≠ 0) :
    amount0Gen NumCtx.exact sa sb l dec d = (l : Rat) * q96R * (1 / (sa : Rat) - 1 / (sb : Rat)) / ((pow10 d : Nat) : Rat) := by
  have hsa : (sa : Rat) ≠ 0 := by exact_mod_cast ha
  have hsb : (sb : Rat) ≠ 0 := by
    have : sb ≠ 0 := by omega
    exact_mod_cast this
  have hsort : sortPair sa sb = (sa, sb) := by unfold sortPair; rw [if_neg (by omega)]
  unfold amount0Gen
  rw [hsort]
  simp only [NumCtx.exact_div, NumCtx.exact_mul]
  have hc : (((sb - sa : Nat) : Int) : Rat) = (sb : Rat) - (sa : Rat) := by
    rw [Int.natCast_sub h]; push_cast; ring
  have hc' : (((sb - sa : Nat)) : Rat) = (sb : Rat) - (sa : Rat) := by
    rw [Nat.cast_sub h]
  cases dec with
  | true => simp only [if_true, hc']; unfold q96R; field_simp
  | false =>
    simp only [Bool.false_eq_true, if_false]
    push_cast [hc]
    unfold q96R; field_simp

/-- `get_amount1` in the exact context is `l · (sb − sa) / 2^96 / 10^d` -/
theorem c09_amount1Gen_exact (sa sb : Nat) (l : Int) (dec : Bool) (d : Nat) (h : sa ≤ sb) :
    amount1Gen NumCtx.exact sa sb l dec d = (l : Rat) * ((sb : Rat) - (sa : Rat)) / q96R / ((pow10 d : Nat) : Rat) := by
  have hsort : sortPair sa sb = (sa, sb) := by unfold sortPair; rw [if_neg (by omega)]
  unfold amount1Gen
  rw [hsort]
  simp only [NumCtx.exact_div, NumCtx.exact_mul]
  have hc : (((sb - sa : Nat) : Int) : Rat) = (sb : Rat) - (sa : Rat) := by
    rw [Int.natCast_sub h]; push_cast; ring
  have hc' : (((sb - sa : Nat)) : Rat) = (sb : Rat) - (sa : Rat) := by
    rw [Nat.cast_sub h]
  cases dec with
  | true => simp only [if_true, hc']
  | false =>
    simp only [Bool.false_eq_true, if_false]
    push_cast [hc]
    rfl

/-- **token1 amount on the mirror vs token0 amount on the pool, with the slack explicit.**  `sa ≤ sb` are the pool's
    sqrt prices of the lower / upper end of the segment, `sa' ≤ sb'` the mirror's (`sa'` belongs to `sb`, `sb'` to `sa`).
    The mirror's `get_amount1` is the pool's `get_amount0` plus `l · ((sa·sb' − 2^192)/sa − (sb·sa' − 2^192)/sb) / 2^96 / 10^d`:
    zero for exactly reciprocal sqrt prices, and at most `l · 2·(max/sa + max/sb) / 2^96 / 10^d` for TickMath's. -/
theorem C09_std_amount1_mirror_eps (sa sb sa' sb' : Nat) (l : Int) (dec : Bool) (d : Nat)
    (h : sa ≤ sb) (h' : sa' ≤ sb') (ha : sa ≠ 0) :
    amount1Gen NumCtx.exact sa' sb' l dec d = amount0Gen NumCtx.exact sa sb l dec d +
      (l : Rat) * ((((sa : Rat) * sb' - 2 ^ 192) / sa) - (((sb : Rat) * sa' - 2 ^ 192) / sb)) / q96R / ((pow10 d : Nat) : Rat) := by
  rw [c09_amount1Gen_exact _ _ _ _ _ h', c09_amount0Gen_exact _ _ _ _ _ h ha]
  have hsa : (sa : Rat) ≠ 0 := by exact_mod_cast ha
  have hsb : (sb : Rat) ≠ 0 := by
    have : sb ≠ 0 := by omega
    exact_mod_cast this
  have hq := ne_of_gt q96R_pos
  have hp : ((pow10 d : Nat) : Rat) ≠ 0 := by unfold pow10; positivity
  rw [← q96R_sq]
  field_simp
  ring

/-- **token0 amount on the mirror vs token1 amount on the pool**: the mirror's `get_amount0` is
    `l · 2^96 · (sb / (sb·sa') − sa / (sa·sb')) / 10^d`, which is the pool's `get_amount1` when both products are `2^192`. -/
theorem C09_std_amount0_mirror_eps (sa sb sa' sb' : Nat) (l : Int) (dec : Bool) (d : Nat)
    (h : sa ≤ sb) (h' : sa' ≤ sb') (ha : sa ≠ 0) (ha' : sa' ≠ 0) :
    amount0Gen NumCtx.exact sa' sb' l dec d =
      (l : Rat) * q96R * ((sb : Rat) / ((sb : Rat) * sa') - (sa : Rat) / ((sa : Rat) * sb')) / ((pow10 d : Nat) : Rat) ∧
    amount1Gen NumCtx.exact sa sb l dec d =
      (l : Rat) * q96R * ((sb : Rat) / 2 ^ 192 - (sa : Rat) / 2 ^ 192) / ((pow10 d : Nat) : Rat) := by
  rw [c09_amount0Gen_exact _ _ _ _ _ h' ha', c09_amount1Gen_exact _ _ _ _ _ h]
  have hsa : (sa : Rat) ≠ 0 := by exact_mod_cast ha
  have hsb : (sb : Rat) ≠ 0 := by
    have : sb ≠ 0 := by omega
    exact_mod_cast this
  have hsa' : (sa' : Rat) ≠ 0 := by exact_mod_cast ha'
  have hsb' : (sb' : Rat) ≠ 0 := by
    have : sb' ≠ 0 := by omega
    exact_mod_cast this
  have hq := ne_of_gt q96R_pos
  have hp : ((pow10 d : Nat) : Rat) ≠ 0 := by unfold pow10; positivity
  constructor
  · field_simp
  · rw [← q96R_sq]; field_simp

/-- **exact orientation algebra of `get_amounts`' two building blocks**: with reciprocal bounds
    (`sa·sb' = 2^192 = sb·sa'`) the mirror's token1 amount is the pool's token0 amount and vice versa, exactly -/
theorem C09_std_amounts_mirror_exact (sa sb sa' sb' : Nat) (l : Int) (dec : Bool) (d : Nat)
    (h : sa ≤ sb) (h' : sa' ≤ sb') (e1 : sa * sb' = 2 ^ 192) (e2 : sb * sa' = 2 ^ 192) :
    amount1Gen NumCtx.exact sa' sb' l dec d = amount0Gen NumCtx.exact sa sb l dec d ∧
    amount0Gen NumCtx.exact sa' sb' l dec d = amount1Gen NumCtx.exact sa sb l dec d := by
  have ha : sa ≠ 0 := by rintro rfl; simp at e1
  have ha' : sa' ≠ 0 := by rintro rfl; simp at e2
  have q1 : (sa : Rat) * sb' = 2 ^ 192 := by exact_mod_cast e1
  have q2 : (sb : Rat) * sa' = 2 ^ 192 := by exact_mod_cast e2
  constructor
  · rw [C09_std_amount1_mirror_eps sa sb sa' sb' l dec d h h' ha, q1, q2]
    simp
  · obtain ⟨a, b⟩ := C09_std_amount0_mirror_eps sa sb sa' sb' l dec d h h' ha ha'
    rw [a, b, q1, q2]

/-- **`get_token_amounts` on the mirror, price inside the range, reciprocal sqrt prices**: the regimes correspond
    (`sa < s < sb` ⟺ `sa' < s' < sb'`) and the two amounts are exchanged exactly.  (TickMath's sqrt prices are reciprocal
    only up to `C09_kernel_reciprocity`; the slack is the one of `C09_std_amount1_mirror_eps`.) -/
theorem C09_std_tokenAmounts_in_range_mirror_exact (pool : Pool) (s s' : Nat) (lo up : Int) (l : Int) (dec : Bool)
    (hlo : tickOk lo = true) (hup : tickOk up = true)
    (e1 : sqrtAt lo * sqrtAt (-lo) = 2 ^ 192) (e2 : sqrtAt up * sqrtAt (-up) = 2 ^ 192) (e3 : s * s' = 2 ^ 192)
    (hin : sqrtAt lo < s ∧ s < sqrtAt up) :
    tokenAmountsStd NumCtx.exact (mPool pool) s' (-up) (-lo) l dec =
      (tokenAmountsStd NumCtx.exact pool s lo up l dec).map (fun r => (r.2, r.1)) := by
  have hlo' : tickOk (-lo) = true := by rw [tickOk_neg', hlo]
  have hup' : tickOk (-up) = true := by rw [tickOk_neg', hup]
  -- the mirror's regime: sqrtAt (-up) < s' < sqrtAt (-lo)
  have hA : sqrtAt (-up) < s' := by
    by_contra hc
    have hc : s' ≤ sqrtAt (-up) := by omega
    have : s * s' < sqrtAt up * sqrtAt (-up) :=
      Nat.lt_of_lt_of_le (Nat.mul_lt_mul_of_lt_of_le hin.2 (le_refl _) (by
        rcases Nat.eq_zero_or_pos s' with h0 | h0
        · subst h0; simp at e3
        · exact h0)) (Nat.mul_le_mul_left _ hc)
    omega
  have hB : s' < sqrtAt (-lo) := by
    by_contra hc
    have hc : sqrtAt (-lo) ≤ s' := by omega
    have hpos : 0 < sqrtAt (-lo) := by
      rcases Nat.eq_zero_or_pos (sqrtAt (-lo)) with h0 | h0
      · rw [h0] at e1; simp at e1
      · exact h0
    have : sqrtAt lo * sqrtAt (-lo) < s * s' :=
      Nat.lt_of_lt_of_le (Nat.mul_lt_mul_of_lt_of_le hin.1 (le_refl _) hpos) (Nat.mul_le_mul_left _ hc)
    omega
  unfold tokenAmountsStd
  by_cases hl : l = 0
  · simp [hl, Except.map]
  · rw [if_neg hl, if_neg hl]
    have d0 : (mPool pool).d0 = pool.d1 := rfl
    have d1 : (mPool pool).d1 = pool.d0 := rfl
    unfold amountsGen sqrtAtE
    rw [hlo, hup, hlo', hup']
    simp only [if_true, d0, d1]
    have s1 : sortPair (sqrtAt lo) (sqrtAt up) = (sqrtAt lo, sqrtAt up) := by unfold sortPair; rw [if_neg (by omega)]
    have s2 : sortPair (sqrtAt (-up)) (sqrtAt (-lo)) = (sqrtAt (-up), sqrtAt (-lo)) := by unfold sortPair; rw [if_neg (by omega)]
    rw [s1, s2]
    simp only []
    have n1 : ¬ s ≤ sqrtAt lo := by omega
    have n2 : ¬ s' ≤ sqrtAt (-up) := by omega
    simp only [n1, n2, hin.2, hB, if_true, if_false, Except.map]
    have r1 := C09_std_amounts_mirror_exact s (sqrtAt up) (sqrtAt (-up)) s' l dec pool.d0 (by omega) (by omega) e3 e2
    have r2 := C09_std_amounts_mirror_exact (sqrtAt lo) s s' (sqrtAt (-lo)) l dec pool.d1 (by omega) (by omega) e1 e3
    rw [r1.1, r2.2]

/-! ### non-vacuity -/

/-- tick 0 is its own mirror and TickMath is exactly reciprocal there: `sqrtAt 0 = 2^96` -/
example : sqrtAt 0 * sqrtAt (-0) = 2 ^ 192 := by decide +kernel

/-- a concrete pair of reciprocal sqrt prices that are not powers of two alone: `3·2^90` and `2^102/3` is not an integer, but
    `2^100` and `2^92` are; the exact corollaries apply to them -/
example : (2 ^ 100 : Nat) * 2 ^ 92 = 2 ^ 192 := by decide +kernel

/-- the `eps` forms apply to every valid tick: e.g. tick 200000 of a 6/18 pool -/
example : tickOk 200000 = true ∧ sqrtAt 200000 ≠ 0 := by decide +kernel

/-! ### the slack of TickMath's own sqrt prices, as a bound -/

/-- reciprocity of TickMath for an arbitrary non-zero valid tick (either sign), in rational form -/
theorem C09_std_tick_reciprocity (t : Int) (h : tickOk t = true) (ht0 : t ≠ 0) :
    |(sqrtAt t : Rat) * (sqrtAt (-t) : Rat) - 2 ^ 192| ≤ 2 * max (sqrtAt t : Rat) (sqrtAt (-t) : Rat) := by
  have hb : t.natAbs ≤ Gen.tickBound := by simpa [tickOk] using h
  have hb' : t.natAbs ≤ 887272 := hb
  have hpos : 0 < t.natAbs := by omega
  have hr := C09_kernel_reciprocity t.natAbs hb' hpos
  have key : sqrtAt t * sqrtAt (-t) ≤ 2 ^ 192 + 2 * max (sqrtAt t) (sqrtAt (-t)) ∧
      2 ^ 192 ≤ sqrtAt t * sqrtAt (-t) + 2 * max (sqrtAt t) (sqrtAt (-t)) := by
    rcases Int.natAbs_eq t with ht | ht
    · have e1 : sqrtAt t = sqrtAt ((t.natAbs : Nat) : Int) := by rw [← ht]
      have e2 : sqrtAt (-t) = sqrtAt (-((t.natAbs : Nat) : Int)) := by rw [← ht]
      rw [e1, e2, Nat.mul_comm, max_comm]
      exact hr
    · have e1 : sqrtAt t = sqrtAt (-((t.natAbs : Nat) : Int)) := by rw [← ht]
      have e2 : sqrtAt (-t) = sqrtAt ((t.natAbs : Nat) : Int) := by rw [ht, Int.neg_neg]; rw [← ht]
      rw [e1, e2]
      exact hr
  have k1 : (sqrtAt t : Rat) * (sqrtAt (-t) : Rat) ≤ 2 ^ 192 + 2 * max (sqrtAt t : Rat) (sqrtAt (-t) : Rat) := by
    exact_mod_cast key.1
  have k2 : (2 : Rat) ^ 192 ≤ (sqrtAt t : Rat) * (sqrtAt (-t) : Rat) + 2 * max (sqrtAt t : Rat) (sqrtAt (-t) : Rat) := by
    exact_mod_cast key.2
  rw [abs_le]
  constructor <;> linarith

/-- **the mirror's token1 amount of a position vs the pool's token0 amount, TickMath's own sqrt prices, as a bound**
    (the regime "price below the range" of the pool = "above" of the mirror): they differ by at most
    `|l| · (2·max(s(lo), s(−lo)) / s(lo) + 2·max(s(up), s(−up)) / s(up)) / 2^96 / 10^d` — about `4·|l| / (2^96·10^d)` times
    `max(1, 2^192 / s²)`, i.e. a few units of the last place of the integer math. -/
theorem C09_std_amount1_mirror_tick_bound (lo up : Int) (l : Int) (dec : Bool) (d : Nat)
    (hlo : tickOk lo = true) (hup : tickOk up = true) (hlo0 : lo ≠ 0) (hup0 : up ≠ 0)
    (h : sqrtAt lo ≤ sqrtAt up) (h' : sqrtAt (-up) ≤ sqrtAt (-lo)) :
    |amount1Gen NumCtx.exact (sqrtAt (-up)) (sqrtAt (-lo)) l dec d - amount0Gen NumCtx.exact (sqrtAt lo) (sqrtAt up) l dec d| ≤
      |(l : Rat)| * (2 * max (sqrtAt lo : Rat) (sqrtAt (-lo) : Rat) / (sqrtAt lo : Rat) +
                    2 * max (sqrtAt up : Rat) (sqrtAt (-up) : Rat) / (sqrtAt up : Rat)) / q96R / ((pow10 d : Nat) : Rat) := by
  have ha := sqrtAt_ne_zero_of_ok lo hlo
  have hbn := sqrtAt_ne_zero_of_ok up hup
  rw [C09_std_amount1_mirror_eps (sqrtAt lo) (sqrtAt up) (sqrtAt (-up)) (sqrtAt (-lo)) l dec d h h' ha]
  have r1 := C09_std_tick_reciprocity lo hlo hlo0
  have r2 := C09_std_tick_reciprocity up hup hup0
  have pa : (0 : Rat) < (sqrtAt lo : Rat) := by exact_mod_cast Nat.pos_of_ne_zero ha
  have pb : (0 : Rat) < (sqrtAt up : Rat) := by exact_mod_cast Nat.pos_of_ne_zero hbn
  have hq := q96R_pos
  have hp : (0 : Rat) < ((pow10 d : Nat) : Rat) := by unfold pow10; positivity
  rw [add_sub_cancel_left, abs_div, abs_div, abs_mul, abs_of_pos hq, abs_of_pos hp]
  apply div_le_div_of_nonneg_right _ (le_of_lt hp)
  apply div_le_div_of_nonneg_right _ (le_of_lt hq)
  apply mul_le_mul_of_nonneg_left _ (abs_nonneg _)
  calc |((sqrtAt lo : Rat) * (sqrtAt (-lo) : Rat) - 2 ^ 192) / (sqrtAt lo : Rat) -
          ((sqrtAt up : Rat) * (sqrtAt (-up) : Rat) - 2 ^ 192) / (sqrtAt up : Rat)|
      ≤ |((sqrtAt lo : Rat) * (sqrtAt (-lo) : Rat) - 2 ^ 192) / (sqrtAt lo : Rat)| +
          |((sqrtAt up : Rat) * (sqrtAt (-up) : Rat) - 2 ^ 192) / (sqrtAt up : Rat)| := abs_sub _ _
    _ ≤ _ := by
      rw [abs_div, abs_div, abs_of_pos pa, abs_of_pos pb]
      exact add_le_add (div_le_div_of_nonneg_right r1 (le_of_lt pa)) (div_le_div_of_nonneg_right r2 (le_of_lt pb))

/-! ### a price exactly on a range bound: the regime is not mirrored -/

end Demeter
namespace Demeter.Uni
/-- the pool price is the price of tick `t` (so it sits exactly on a bound of any range that starts or ends at `t`): does
    the pool see it on/below that bound (`s ≤ sqrtAt t`: the "only token0" regime of `get_amounts` / `get_liquidity`) while
    the mirror sees it strictly inside the mirrored range (`s' < sqrtAt (−t)`)? -/
def onBoundRegimesDiffer (pool : Pool) (t : Int) : Bool :=
  match tickToPriceStd NumCtx.exact sqx pool t with
  | .ok p =>
    match priceToSqrtStd NumCtx.exact pool p, priceToSqrtStd NumCtx.exact (mPool pool) p with
    | .ok s, .ok s' => decide (s ≤ sqrtAt t) && decide (s' < sqrtAt (-t))
    | _, _ => false
  | _ => false
end Demeter.Uni
namespace Demeter
open Demeter.Uni

/-- **On a range bound the concrete kernel's regime (below / inside / above) is not mirror-symmetric**: at the price of tick
    −1990 the token0 = quote pool computes exactly `sqrtAt (−1990)` (on the bound: one-sided regime), its mirror computes
    `sqrtAt 1990 − 2` (strictly inside).  With one offered amount zero `get_liquidity` is discontinuous there (one side asks
    for the whole value in the other token, the other mints liquidity 0).  This is why the harness counts and does not
    compare states whose price is within 1e-9 of a range bound (ASSUMPTIONS; the same policy for add by price / by tick /
    by value / remove / views); the fee accrual on a bound is discrete in the ticks and is treated in `Proofs/C09/Fee.lean`. -/
theorem C09_std_regime_on_bound_not_mirrored : onBoundRegimesDiffer toyPool (-1990) = true := by decide +kernel

/-! ### the exact law has no instance for the code's kernel -/

/-- **No sqrt-price map makes the code's kernel satisfy the exact mirror law** (the reason the statements above carry their
    slack explicitly, and `C09_orchestration` is a statement about the orchestration code, not about this kernel): on the
    token0 = quote pool the prices `10^60` and `4·10^60` both have sqrt price 0 (the Decimal square root of `1/p` times `2^96`
    is below 1), on its mirror they have two different sqrt prices — `priceToSqrt (mPool p) x = ms (priceToSqrt p x)` would
    need `ms 0` to be both. -/
theorem C09_std_kernel_has_no_exact_mirror :
    ¬ ∃ ms : Nat → Nat, KernMirror (Kern.std NumCtx.exact sqx) (Kern.std NumCtx.exact sqx) toyPool ms := by
  rintro ⟨ms, hk⟩
  have h1 := hk.priceToSqrt (10 ^ 60)
  have h2 := hk.priceToSqrt (4 * 10 ^ 60)
  have e : priceToSqrtStd NumCtx.exact toyPool (10 ^ 60) = .ok 0 ∧ priceToSqrtStd NumCtx.exact toyPool (4 * 10 ^ 60) = .ok 0 ∧
      priceToSqrtStd NumCtx.exact (mPool toyPool) (10 ^ 60) = .ok 79228162514264337593543950336000000000000000000000000000000 ∧
      priceToSqrtStd NumCtx.exact (mPool toyPool) (4 * 10 ^ 60) = .ok 158456325028528675187087900672000000000000000000000000000000 := by
    decide +kernel
  simp only [Kern.std, e.1, e.2.1, e.2.2.1, e.2.2.2, Except.map] at h1 h2
  have a := Except.ok.inj h1
  have b := Except.ok.inj h2
  omega

/-- TickMath itself is not exactly reciprocal one tick away from 0 (so the `…_exact` corollaries apply to TickMath's sqrt
    prices only at tick 0; everywhere else the `…_eps` forms with `C09_kernel_reciprocity` are the statement) -/
theorem C09_std_tickmath_not_exactly_reciprocal : sqrtAt 1 * sqrtAt (-1) ≠ 2 ^ 192 := by decide +kernel

end Demeter
