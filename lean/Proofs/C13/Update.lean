/-
  C13 (continued) — the raise that used to be excluded from the coherence theorem, `DemeterError("variable_delt <
  actual_debt_to_liquidate")` inside `_do_liquidate`, is unreachable: `update()` of the cache-carrying state machine never raises
  a `DemeterError` on an open market, in a coherent state without negative debt entries, under every arithmetic context whose
  rounding is monotone, idempotent and fixes 0 — transferred from the risk model (`C12_update_never_raises_demeter_error`)
  along the whole-loop simulation `C12_sm_update_refines`.  The hypothesis is decidable (`AaveRisk.DebtsNonneg` of the projected
  portfolio; implied by the computable check `Aave.updWF`, which the driver evaluates for the harness on every `update`).
-/
import Proofs.C12.RefineLoop
import Proofs.C12.DebtCheck
import Proofs.Lemmas.AaveWF
namespace Demeter
open Aave

variable {cx : ACtx} {env : Env}

/-- **the debt check of `_do_liquidate` never fires**: `update()` on an open market never raises a `DemeterError` — in
    particular not `liqDebtExceeds` ("variable_delt < actual_debt_to_liquidate"), the only raise of `_do_liquidate` that is not
    an `AssertionError`, a `KeyError`, an `AttributeError` or an arithmetic error. -/
theorem C13_liquidate_never_raises_debt_exceeds (hR : AaveRisk.RndMono cx.toNumCtx) (hE : EnvOK env) (hP : EnvPos env)
    {s : St} (hs : Good cx env s) (hopen : env.isOpen = true) (hd : AaveRisk.DebtsNonneg (proj env s)) (e : Err)
    (h : (liquidate cx env s).1 = .error e) : e.cls ≠ "DemeterError" ∧ e ≠ .liqDebtExceeds := by
  have key : e.cls ≠ "DemeterError" := by
    intro hcls
    obtain ⟨s', _, _, _, _, _, hm⟩ := C12_sm_update_refines hE hP hs hopen
    have hno := (C12_update_never_raises_demeter_error hR (proj env s) hd).1
    cases herr : (AaveRisk.liquidate cx.toNumCtx (proj env s)).err with
    | none =>
      rw [herr] at hm
      rw [hm.1] at h; cases h
    | some x =>
      rw [herr] at hm
      obtain ⟨e', he', hc⟩ := hm
      rw [he'] at h
      cases h
      rw [hcls] at hc
      cases x <;> first | (exact absurd herr hno) | (simp [AaveRisk.Exc.name] at hc)
  exact ⟨key, fun he => key (by rw [he]; rfl)⟩

/-- the computable well-formedness check gives the hypothesis on the debts -/
theorem Aave.debtsNonneg_of_updWF {s : St} (h : updWF env s = true) (hs : Good cx env s) :
    AaveRisk.DebtsNonneg (proj env s) := by
  obtain ⟨_, _, hwf⟩ := updWF_sound (cx := cx) h hs
  intro d hd
  obtain ⟨hb, hr⟩ := hwf.deb d hd
  exact ⟨hb, le_of_lt hr.bi_pos⟩

/-- … stated with the computable check: in a coherent state that passes `updWF`, whatever `update()` raises is not a
    `DemeterError` -/
theorem C13_liquidate_never_raises_debt_exceeds_wf (hR : AaveRisk.RndMono cx.toNumCtx) {s : St} (hs : Good cx env s)
    (hwf : updWF env s = true) (hopen : env.isOpen = true) (e : Err) (h : (step cx env s .update).1 = .error e) :
    e ≠ .liqDebtExceeds := by
  obtain ⟨hE, hP, _⟩ := updWF_sound (cx := cx) hwf hs
  have h' : (liquidate cx env s).1 = .error e := by
    unfold step unitM mapM' at h
    rcases hm : liquidate cx env s with ⟨r, s1⟩
    rw [hm] at h
    cases r with
    | ok a => cases h
    | error e' => dsimp only at h ⊢; cases h; rfl
  exact (C13_liquidate_never_raises_debt_exceeds hR hE hP hs hopen (debtsNonneg_of_updWF hwf hs) e h').2

/-! ### non-vacuity: the unhealthy account of `C12.Refine` passes the check -/

example : updWF c11rEnv c12rSt = true := by decide +kernel
example : AaveRisk.RndMono aaveExact.toNumCtx := AaveRisk.rndMono_exact

end Demeter
