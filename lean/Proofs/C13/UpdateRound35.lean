/-
  C13 (continued) — `C13_liquidate_never_raises_debt_exceeds` (Proofs/C13/Update.lean) under the weaker hypothesis on the
  rounding, `AaveRisk.RndShrink` (Proofs/C12/Round35.lean), and its instance for the guarded 35-digit Decimal context:
  `update()` of the cache-carrying state machine never raises a `DemeterError` on an open market, in a coherent state without
  negative debt entries, when every `+ − × ÷` is rounded half-even to 35 significant digits (`NumCtx.pyG`; the power function
  of the context is irrelevant here and left arbitrary).
-/
import Proofs.C13.Update
import Proofs.C12.Round35
namespace Demeter
open Aave

variable {cx : ACtx} {env : Env}

/-- `C13_liquidate_never_raises_debt_exceeds` with `RndShrink` (sign-preserving, idempotent, `rnd (rnd x / 2) ≤ rnd x`)
    in place of `RndMono` -/
theorem C13_liquidate_never_raises_debt_exceeds_shrink (hR : AaveRisk.RndShrink cx.toNumCtx) (hE : EnvOK env) (hP : EnvPos env)
    {s : St} (hs : Good cx env s) (hopen : env.isOpen = true) (hd : AaveRisk.DebtsNonneg (proj env s)) (e : Err)
    (h : (liquidate cx env s).1 = .error e) : e.cls ≠ "DemeterError" ∧ e ≠ .liqDebtExceeds := by
  have key : e.cls ≠ "DemeterError" := by
    intro hcls
    obtain ⟨s', _, _, _, _, _, hm⟩ := C12_sm_update_refines hE hP hs hopen
    have hno := (C12_update_never_raises_demeter_error_shrink hR (proj env s) hd).1
    cases herr : (AaveRisk.liquidate cx.toNumCtx (proj env s)).err with
    | none =>
      rw [herr] at hm
      rw [hm.1] at h; cases h
    | some x =>
      rw [herr] at hm
      obtain ⟨e', he', hc⟩ := hm
      rw [he'] at h
      cases h
      rw [hcls] at hc
      cases x <;> first | (exact absurd herr hno) | (simp [AaveRisk.Exc.name] at hc)
  exact ⟨key, fun he => key (by rw [he]; rfl)⟩

/-- the Aave context with the guarded 35-digit rounding; `dpow` (used by the interest accrual only) is a parameter -/
def aavePyGWith (dpow : Rat → Nat → Rat) : ACtx := { NumCtx.pyG with dpow := dpow }

/-- **35-digit rounding**: with every arithmetic operation rounded to 35 significant digits (`NumCtx.pyG`), `update()` on an
    open market, in a coherent state without negative debt entries, raises no `DemeterError` — the debt check of `_do_liquidate`
    never fires. -/
theorem C13_liquidate_never_raises_debt_exceeds_round35 (dpow : Rat → Nat → Rat) (hE : EnvOK env) (hP : EnvPos env)
    {s : St} (hs : Good (aavePyGWith dpow) env s) (hopen : env.isOpen = true) (hd : AaveRisk.DebtsNonneg (proj env s)) (e : Err)
    (h : (liquidate (aavePyGWith dpow) env s).1 = .error e) : e.cls ≠ "DemeterError" ∧ e ≠ .liqDebtExceeds :=
  C13_liquidate_never_raises_debt_exceeds_shrink (cx := aavePyGWith dpow) AaveRisk.rndShrink_pyG hE hP hs hopen hd e h

/-! ### non-vacuity -/
example (dpow : Rat → Nat → Rat) : AaveRisk.RndShrink (aavePyGWith dpow).toNumCtx := AaveRisk.rndShrink_pyG

end Demeter
