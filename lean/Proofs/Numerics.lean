/-
  Numerics — the concrete arithmetic of `NumCtx.py` (`round35`, `dsqrt35` of Demeter/Num.lean) meets the ε-hypotheses
  that the robust theorems assume (`Approx.rnd`, `Approx.sqrt` of Proofs/Lemmas/TickInv.lean and the like), with
        ε = EPS35 = 5·10⁻³⁵   (half a unit in the 35th significant digit).

  MAGNITUDE BOUND (stated honestly).  Every theorem about `round35` / `dsqrt35` that depends on the *exponent* chosen by
  the model carries the hypothesis
        `InRange x`  :=  (x.num.natAbs).log2 < 150000  ∧  (x.den).log2 < 150000 ,
  i.e. numerator and denominator of the exact rational (in lowest terms) are below `2^150000 ≈ 10^45154.5`
  (`InRange_of_lt`: `< 10^45000` suffices; `InRange_iff`: `< 2^150000`).  The hypothesis is necessary, not a proof
  convenience: `Num.ilog10` estimates `⌊log10 n⌋` by `n.log2·1233/4096` plus one correction step, the estimate drifts by
  `log10 2 − 1233/4096 ≈ 4.6·10⁻⁶` per bit and is short by two from `n.log2 ≈ 151 838` on; `Num_ilog10_fails_beyond`
  exhibits `ilog10 (10^45827) = 45826`.  Beyond the bound the model's `round35` can keep one digit too few when the
  denominator's digit count is under-estimated (relative error up to `5·10⁻³⁴`): `Num_round35_rel_err_fails_beyond`
  proves `|round35 x − x| > 5·10⁻³⁵·|x|` for `x = 1/(1.24·10^60000)`, so an unconditional `∀ x` statement is false for
  the model (CPython itself rounds such numbers correctly: there the model and the implementation differ).

  WHY THE BOUND COVERS WHAT THE CODE CAN REPRESENT IN PRACTICE, AND WHERE IT DOES NOT.  A `Decimal` under `prec = 35` is
  `±c·10^e` with `c < 10^35`; CPython allows `|e|` up to `Emax = 999 999`.  The exact results the model rounds are
     a·b   : numerator/denominator ≤ 10^70 · 10^|ea+eb|
     a/b   : ≤ 10^35 · 10^|ea−eb|  (before reduction; reduction only shrinks, `num_den_le`)
     a±b   : ≤ 2·10^35 · 10^(|ea|+|eb|)
  so every operand/result with adjusted exponent in about `[−22 500, +22 500]` keeps all exact intermediates below
  `10^45154`.  demeter's quantities (prices, liquidities `≤ 2^128`, sqrt prices `2^±64`, token amounts with ≤ 18–36
  decimals, indices `1e27`) live within `10^±80`.  Decimals with exponents between `±22 500` and CPython's own limit
  `±999 999` are representable by the implementation but are *outside* the range on which the model's rounding is proved
  (and on which the compiled driver agrees with CPython); `Decimal` arithmetic there is not covered.

  Sign preservation, oddness and `round35 0 = 0` need no magnitude hypothesis.

  `NumCtx.pyG` (Proofs/Lemmas/Round35Ctx.lean) is `NumCtx.py` guarded by `InRange`: it coincides with the drivers'
  context on the whole range and satisfies the ε-hypotheses for *all* rationals (`Num_pyG_rnd`, `Num_pyG_dsqrt`).
-/
import Proofs.Lemmas.Round35Ctx
import Proofs.Lemmas.Round35Beyond
import Proofs.Lemmas.Round35Pow
namespace Demeter
open Demeter.Numerics
set_option exponentiation.threshold 200000

/-! ### items 1–2: digit counting and the normalising exponent -/

/-- `ilog10 n = ⌊log10 n⌋` for `0 < n < 2^150000` -/
theorem Num_ilog10_spec (n : ℕ) (hn : 0 < n) (hb : n.log2 < 150000) :
    10 ^ ilog10 n ≤ n ∧ n < 10 ^ (ilog10 n + 1) := ilog10_spec n hn hb

/-- … and not beyond: the magnitude bound cannot be dropped (`10^45827 ≈ 2^152233.01`) -/
theorem Num_ilog10_fails_beyond : ilog10 (10 ^ 45827) = 45826 := by
  have hne : (10:ℕ) ^ 45827 ≠ 0 := Nat.pos_iff_ne_zero.1 (Nat.pow_pos (by decide))
  have h1 : (2:ℕ) ^ 152233 ≤ 10 ^ 45827 := by decide +kernel
  have h2 : (10:ℕ) ^ 45827 < 2 ^ (152233 + 1) := by decide +kernel
  have hL : ((10:ℕ) ^ 45827).log2 = 152233 := (Nat.log2_eq_iff hne).2 ⟨h1, h2⟩
  have h3 : (10:ℕ) ^ (152233 * 1233 / 4096 + 1) ≤ 10 ^ 45827 :=
    Nat.pow_le_pow_right (by decide) (by decide)
  rw [ilog10_eval _ _ hne hL, if_pos h3]

/-- `e = sigExp p n d` normalises `n/d` to `p` digits: `10^(p−1) ≤ (n/d)/10^e < 10^p`, on the pair from `scale10` -/
theorem Num_sigExp_spec (p n d : ℕ) (hp : 0 < p) (hn : 0 < n) (hd : 0 < d)
    (hbn : n.log2 < 150000) (hbd : d.log2 < 150000) :
    let s := scale10 n d (sigExp p n d)
    0 < s.2 ∧ s.2 * 10 ^ (p - 1) ≤ s.1 ∧ s.1 < s.2 * 10 ^ p := sigExp_spec p n d hp hn hd hbn hbd

/-! ### item 3: `round35` -/

/-- **relative error of CPython's 35-digit rounding**: `|round35 x − x| ≤ 5·10⁻³⁵·|x|` -/
theorem Num_round35_rel_err (x : ℚ) (hr : InRange x) :
    |round35 x - x| ≤ 5 / 10 ^ 35 * |x| := round35_rel_err x hr

/-- … and the hypothesis `InRange x` is necessary: outside the range the *model's* rounding (not CPython's) keeps one digit
    too few — `x = 1/(1.24·10^60000)`, relative error `6.0·10⁻³⁵` -/
theorem Num_round35_rel_err_fails_beyond :
    ¬ InRange (1 / (bigD : ℚ)) ∧
    ¬ |round35 (1 / (bigD : ℚ)) - 1 / (bigD : ℚ)| ≤ 5 / 10 ^ 35 * |1 / (bigD : ℚ)| :=
  ⟨bigD_not_InRange, round35_rel_err_fails_beyond⟩

/-- general precision: `|roundSig p x − x| ≤ (1/2)·10^(1−p)·|x|` -/
theorem Num_roundSig_rel_err (p : ℕ) (x : ℚ) (hr : InRange x) :
    |roundSig p x - x| ≤ 1 / 2 * (10:ℚ) ^ (1 - (p : ℤ)) * |x| := roundSig_rel_err p x hr

/-- the two-sided form used by `Approx.rnd` -/
theorem Num_round35_bounds (x : ℚ) (hx : 0 ≤ x) (hr : InRange x) :
    x * (1 - 5 / 10 ^ 35) ≤ NumCtx.py.rnd x ∧ NumCtx.py.rnd x ≤ x * (1 + 5 / 10 ^ 35) := round35_bounds hx hr

theorem Num_round35_zero : round35 0 = 0 := round35_zero

/-- sign preservation — no magnitude hypothesis -/
theorem Num_round35_nonneg (x : ℚ) (hx : 0 ≤ x) : 0 ≤ round35 x := round35_nonneg hx
theorem Num_round35_nonpos (x : ℚ) (hx : x ≤ 0) : round35 x ≤ 0 := round35_nonpos hx
theorem Num_round35_pos (x : ℚ) (hx : 0 < x) (hr : InRange x) : 0 < round35 x := round35_pos hx hr
theorem Num_round35_odd (x : ℚ) : round35 (-x) = - round35 x := round35_neg x

/-- monotone -/
theorem Num_round35_mono (x y : ℚ) (hxy : x ≤ y) (hrx : InRange x) (hry : InRange y) :
    round35 x ≤ round35 y := round35_mono hxy hrx hry

/-- idempotent -/
theorem Num_round35_idem (x : ℚ) (h1 : x.num.natAbs < 10 ^ 45000) (h2 : x.den < 10 ^ 45000) :
    round35 (round35 x) = round35 x := round35_idem' x h1 h2

/-- a `Decimal` with at most 35 significant digits is not changed -/
theorem Num_round35_fix (c e : ℤ) (hc : c.natAbs < 10 ^ 35) (hr : InRange ((c:ℚ) * (10:ℚ) ^ e)) :
    round35 ((c:ℚ) * (10:ℚ) ^ e) = (c:ℚ) * (10:ℚ) ^ e := round35_fix c e hc hr

/-! ### item 4: `dsqrt35` is the correctly rounded square root -/

/-- `y = dsqrt35 x` satisfies `0 ≤ y` and `x·(1−ε)² ≤ y² ≤ x·(1+ε)²` with the same `ε = 5·10⁻³⁵`
    (i.e. `|y − √x| ≤ ε·√x`, stated without irrationals) -/
theorem Num_dsqrt35_rel_err (x : ℚ) (hx : 0 ≤ x) (hr : InRange x) :
    0 ≤ NumCtx.py.dsqrt x ∧ x * (1 - 5 / 10 ^ 35) ^ 2 ≤ NumCtx.py.dsqrt x ^ 2 ∧
      NumCtx.py.dsqrt x ^ 2 ≤ x * (1 + 5 / 10 ^ 35) ^ 2 := dsqrt35_spec hx hr

/-- general precision `1 ≤ p ≤ 22000` -/
theorem Num_sqrtSig_spec (p : ℕ) (hp : 1 ≤ p) (hp' : p ≤ 22000) (x : ℚ) (hx : 0 < x) (hr : InRange x) :
    0 ≤ sqrtSig p x ∧ x * (1 - 1 / 2 * (10:ℚ) ^ (1 - (p : ℤ))) ^ 2 ≤ sqrtSig p x ^ 2 ∧
      sqrtSig p x ^ 2 ≤ x * (1 + 1 / 2 * (10:ℚ) ^ (1 - (p : ℤ))) ^ 2 := sqrtSig_spec' p hp hp' hx hr

theorem Num_dsqrt35_nonpos (x : ℚ) (hx : x ≤ 0) : dsqrt35 x = 0 := dsqrt35_nonpos hx

/-! ### `Decimal ** 2` -/

/-- exactly the shape of `Approx.sq` (for `x²` in range) -/
theorem Num_dpow35_sq_bounds (x : ℚ) (h1 : (x * x).num.natAbs < 10 ^ 45000) (h2 : (x * x).den < 10 ^ 45000) :
    x * x * (1 - 5 / 10 ^ 35) ^ 2 ≤ dpowNat 35 x 2 ∧ dpowNat 35 x 2 ≤ x * x * (1 + 5 / 10 ^ 35) ^ 2 :=
  dpowNat35_two_bounds x h1 h2

/-! ### the guarded context: ε-hypotheses for all rationals -/

theorem Num_pyG_agrees (x : ℚ) (hr : InRange x) :
    NumCtx.pyG.rnd x = NumCtx.py.rnd x ∧ NumCtx.pyG.dsqrt x = NumCtx.py.dsqrt x :=
  ⟨NumCtx.pyG_rnd_eq hr, NumCtx.pyG_dsqrt_eq hr⟩

/-- exactly the shape of `Approx.rnd` -/
theorem Num_pyG_rnd : ∀ x : ℚ, 0 ≤ x →
    x * (1 - EPS35) ≤ NumCtx.pyG.rnd x ∧ NumCtx.pyG.rnd x ≤ x * (1 + EPS35) := by
  intro x hx
  show x * (1 - EPS35) ≤ (if InRange x then round35 x else x) ∧ (if InRange x then round35 x else x) ≤ x * (1 + EPS35)
  have hε := EPS35_pos
  split_ifs with h
  · exact round35_bounds hx h
  · constructor <;> nlinarith

/-- exactly the shape of `Approx.sqrt` -/
theorem Num_pyG_dsqrt : ∀ y : ℚ, 0 ≤ y → 0 ≤ NumCtx.pyG.dsqrt y ∧
    y * (1 - EPS35) ^ 2 ≤ NumCtx.pyG.dsqrt y ^ 2 ∧ NumCtx.pyG.dsqrt y ^ 2 ≤ y * (1 + EPS35) ^ 2 := by
  intro y hy
  show 0 ≤ (if InRange y then dsqrt35 y else sqrtFallback y) ∧
    y * (1 - EPS35) ^ 2 ≤ (if InRange y then dsqrt35 y else sqrtFallback y) ^ 2 ∧
    (if InRange y then dsqrt35 y else sqrtFallback y) ^ 2 ≤ y * (1 + EPS35) ^ 2
  split_ifs with h
  · exact dsqrt35_spec hy h
  · have : y ≠ 0 := fun h0 => h (h0 ▸ InRange_zero)
    exact sqrtFallback_spec (lt_of_le_of_ne hy (Ne.symm this))

theorem Num_pyG_rnd_nonneg (x : ℚ) (hx : 0 ≤ x) : 0 ≤ NumCtx.pyG.rnd x := by
  show 0 ≤ (if InRange x then round35 x else x)
  split_ifs
  · exact round35_nonneg hx
  · exact hx

theorem Num_EPS35 : EPS35 = 5 / 10 ^ 35 ∧ 0 < EPS35 ∧ EPS35 ≤ 1 / 1000000000 :=
  ⟨rfl, EPS35_pos, EPS35_small⟩

/-! ### non-vacuity: the hypotheses hold on concrete values, and the conclusions are what CPython prints -/

example : InRange (1 / 3) := by decide +kernel
example : InRange (2 / 3 * 10 ^ 40) := by decide +kernel
example : InRange (-(1234567 / 1000) * 10 ^ 300) := by decide +kernel
-- Decimal(1)/Decimal(3) = 0.33333333333333333333333333333333333
example : round35 (1 / 3) = 33333333333333333333333333333333333 / 10 ^ 35 := by decide +kernel
-- Decimal(2)/Decimal(3)*10**40 = 6.6666666666666666666666666666666667E+39
example : round35 (2 / 3 * 10 ^ 40) = 66666666666666666666666666666666667 * 10 ^ 5 := by decide +kernel
-- a tie goes to the even neighbour
example : round35 ((10 ^ 35 + 1) / 2) = 5 * 10 ^ 34 := by decide +kernel
example : round35 ((10 ^ 35 + 3) / 2) = 5 * 10 ^ 34 + 2 := by decide +kernel
-- the theorem applied
example : |round35 (1 / 3) - 1 / 3| ≤ 5 / 10 ^ 35 * |(1 / 3 : ℚ)| :=
  Num_round35_rel_err (1 / 3) (by decide +kernel)
example : |round35 (2 / 3 * 10 ^ 40) - 2 / 3 * 10 ^ 40| ≤ 5 / 10 ^ 35 * |(2 / 3 * 10 ^ 40 : ℚ)| :=
  Num_round35_rel_err _ (by decide +kernel)
-- the bound is attained up to a factor `1 − 10⁻³⁴`: `x = 10^34 + 1/2` is rounded to `10^34`
example : |round35 (10 ^ 34 + 1 / 2) - (10 ^ 34 + 1 / 2)| > (5 / 10 ^ 35) * (1 - 1 / 10 ^ 34) * |(10 ^ 34 + 1 / 2 : ℚ)| := by
  decide +kernel
example : round35 (1 / 3) ≤ round35 (2 / 3) :=
  Num_round35_mono _ _ (by norm_num) (by decide +kernel) (by decide +kernel)
example : 0 ≤ NumCtx.py.dsqrt 2 ∧ 2 * (1 - 5 / 10 ^ 35) ^ 2 ≤ NumCtx.py.dsqrt 2 ^ 2 ∧
    NumCtx.py.dsqrt 2 ^ 2 ≤ 2 * (1 + 5 / 10 ^ 35) ^ 2 :=
  Num_dsqrt35_rel_err 2 (by norm_num) (by decide +kernel)
example : (2 : ℕ).log2 < 150000 ∧ 0 < (35 : ℕ) := by decide

end Demeter
