/-
  C11 — Aave borrow / withdraw / change_collateral limits and the risk figures: theorems about
  `Demeter.AaveRisk.{borrow, withdraw, changeCollateral, healthFactor, maxLtv, liqThreshold, ltv}` (exact context).
  The max helpers are in `Proofs/C11/Max.lean`.
-/
import Proofs.Lemmas.AaveRiskOps
import Mathlib.Tactic.LinearCombination
namespace Demeter
open AaveRisk

namespace AaveRisk

theorem borrow_exact_eq (p : Portfolio) (tok : String) (row : Row) (a : Rat) :
    borrow NumCtx.exact p tok row (some a) =
      if ¬ (0 < a) then .error .invalidAmount else
      if row.canBorrow = false then .error .borrowDisabled else
      if totalCollateral NumCtx.exact p = 0 then .error .noCollateral else
      if weightedLtv NumCtx.exact p / totalCollateral NumCtx.exact p = 0 then .error .ltvZero else
      if (healthFactor NumCtx.exact p).gtB Gen.arHfLiqThreshold = false then .error .hfLow else
      if ¬ ((totalDebt NumCtx.exact p + a * row.price) / (weightedLtv NumCtx.exact p / totalCollateral NumCtx.exact p)
            ≤ totalCollateral NumCtx.exact p) then .error .notCovered else
      if row.borIndex = 0 then .error .arith else
      .ok ({ p with debts := addDebt NumCtx.exact p.debts tok row (a / row.borIndex) }, a) := rfl

theorem withdraw_exact_eq (p : Portfolio) (tok : String) (a : Rat) :
    withdraw NumCtx.exact p tok (some a) =
      match findSupply? p.supplies tok with
      | none => .error .notSupplied
      | some s =>
        if ¬ (0 < a) then .error .invalidAmount else
        if ¬ (a ≤ s.base * s.row.liqIndex) then .error .overBalance else
        if s.row.liqIndex = 0 then .error .arith else
        if s.coll = true ∧ (healthFactor NumCtx.exact (withdrawTrial NumCtx.exact p s a)).ltB Gen.arHfLiqThreshold = true then
          .error .hfLowAfter else
        .ok ({ p with supplies := putSupplyBase p.supplies tok (subBase NumCtx.exact s.base (a / s.row.liqIndex)) }, a) := rfl

theorem mem_of_findSupply {ss : List Supply} {t : String} {s : Supply} (h : findSupply? ss t = some s) :
    s ∈ ss ∧ s.tok = t := by
  unfold findSupply? at h
  exact ⟨List.mem_of_find?_eq_some h, by simpa using List.find?_some h⟩

theorem mem_of_findDebt {ds : List Debt} {t : String} {d : Debt} (h : findDebt? ds t = some d) :
    d ∈ ds ∧ d.tok = t := by
  unfold findDebt? at h
  exact ⟨List.mem_of_find?_eq_some h, by simpa using List.find?_some h⟩

theorem findDebt_none {ds : List Debt} {t : String} (h : findDebt? ds t = none) : t ∉ ds.map (·.tok) := by
  unfold findDebt? at h
  rw [List.find?_eq_none] at h
  intro hm
  obtain ⟨d, hd, rfl⟩ := List.mem_map.mp hm
  exact (h d hd) (by simp)

/-- what an accepted borrow does to the total debt: it grows by the borrowed value -/
theorem totalDebt_addDebt {p : Portfolio} (hwf : p.WF) (tok : String) (row : Row) (hbi : row.borIndex ≠ 0)
    (hrow : ∀ d ∈ p.debts, d.tok = tok → d.row = row) (a : Rat) :
    totalDebt NumCtx.exact { p with debts := addDebt NumCtx.exact p.debts tok row (a / row.borIndex) }
      = totalDebt NumCtx.exact p + a * row.price := by
  rw [totalDebt_sum, totalDebt_sum]
  unfold addDebt
  cases hf : findDebt? p.debts tok with
  | none =>
    simp only [List.map_append, List.sum_append, List.map_cons, List.map_nil, List.sum_cons, List.sum_nil,
      Debt.value_exact, NumCtx.exact_add]
    field_simp
    ring
  | some d =>
    obtain ⟨hd, ht⟩ := mem_of_findDebt hf
    simp only []
    subst ht
    unfold setDebtBase
    rw [sum_updFirst Debt.tok (fun x => x.value NumCtx.exact) _ hwf.debKeys hd]
    have := hrow d hd rfl
    simp only [Debt.value_exact, NumCtx.exact_add, this]
    field_simp
    ring

end AaveRisk

/-! ## the figures -/

/-- **Health factor, weighted max-LTV, weighted liquidation threshold, LTV are the Aave v3 definitions**:
    `HF = Σ_coll valueᵢ·LTᵢ / Σ debt valueⱼ` (infinite without debt), `maxLTV = Σ_coll valueᵢ·LTVᵢ / Σ_coll valueᵢ`,
    `LT = Σ_coll valueᵢ·LTᵢ / Σ_coll valueᵢ` (infinite without collateral value), `LTV = Σ debt / Σ supply`,
    with `value = scaled balance × index × price`. -/
theorem C11_figures_are_v3_definitions (p : Portfolio) :
    let coll := p.supplies.filter (·.coll)
    let val (s : Supply) : Rat := s.base * s.row.liqIndex * s.row.price
    let dval (d : Debt) : Rat := d.base * d.row.borIndex * d.row.price
    healthFactor NumCtx.exact p
        = (if (p.debts.map dval).sum = 0 then none else some ((coll.map (fun s => val s * s.row.lt)).sum / (p.debts.map dval).sum))
    ∧ maxLtv NumCtx.exact p
        = (if (coll.map val).sum = 0 then none else some ((coll.map (fun s => val s * s.row.ltv)).sum / (coll.map val).sum))
    ∧ liqThreshold NumCtx.exact p
        = (if (coll.map val).sum = 0 then none else some ((coll.map (fun s => val s * s.row.lt)).sum / (coll.map val).sum))
    ∧ ltv NumCtx.exact p
        = (if (p.supplies.map val).sum = 0 then none else some ((p.debts.map dval).sum / (p.supplies.map val).sum)) := by
  simp only [healthFactor, maxLtv, liqThreshold, ltv, safeDiv, weightedLt, weightedLtv, totalCollateral, totalDebt,
    totalSupply, collaterals, dsum_exact, NumCtx.exact_div, NumCtx.exact_mul, Supply.value, Supply.amount, Debt.value,
    Debt.amount]
  exact ⟨trivial, trivial, trivial, trivial⟩

/-! ## borrow -/

/-- **Borrow: accepted iff …** (the `require`s of `AaveV3Market.borrow`, in order; `max_ltv` is the weighted max-LTV,
    the liquidation threshold constant is 1). -/
theorem C11_borrow_accept_iff (p : Portfolio) (tok : String) (row : Row) (a : Rat) :
    (∃ r, borrow NumCtx.exact p tok row (some a) = .ok r) ↔
      0 < a ∧ row.canBorrow = true ∧ totalCollateral NumCtx.exact p ≠ 0
      ∧ weightedLtv NumCtx.exact p / totalCollateral NumCtx.exact p ≠ 0
      ∧ (healthFactor NumCtx.exact p).gtB 1 = true
      ∧ (totalDebt NumCtx.exact p + a * row.price) / (weightedLtv NumCtx.exact p / totalCollateral NumCtx.exact p)
          ≤ totalCollateral NumCtx.exact p
      ∧ row.borIndex ≠ 0 := by
  rw [borrow_exact_eq]
  have hT : Gen.arHfLiqThreshold = 1 := rfl
  rw [hT]
  constructor
  · rintro ⟨r, h⟩
    split at h; · cases h
    split at h; · cases h
    split at h; · cases h
    split at h; · cases h
    split at h; · cases h
    split at h; · cases h
    split at h; · cases h
    rename_i h1 h2 h3 h4 h5 h6 h7
    refine ⟨not_not.mp h1, by simpa using h2, h3, h4, by simpa using h5, not_not.mp h6, h7⟩
  · rintro ⟨h1, h2, h3, h4, h5, h6, h7⟩
    rw [if_neg (not_not.mpr h1), if_neg (by simp [h2]), if_neg h3, if_neg h4, if_neg (by simp [h5]),
      if_neg (not_not.mpr h6), if_neg h7]
    exact ⟨_, rfl⟩

/-- **Borrow only if covered**: an accepted borrow keeps all debt, including the new one, within
    collateral × weighted max-LTV (`= Σ_coll valueᵢ·LTVᵢ`). -/
theorem C11_borrow_only_if_covered {p : Portfolio} (hwf : p.WF) {tok : String} {row : Row} {a : Rat}
    {r : Portfolio × Rat} (h : borrow NumCtx.exact p tok row (some a) = .ok r) :
    totalDebt NumCtx.exact p + a * row.price ≤ weightedLtv NumCtx.exact p
    ∧ ∃ m, maxLtv NumCtx.exact p = some m ∧ weightedLtv NumCtx.exact p = totalCollateral NumCtx.exact p * m := by
  obtain ⟨_, _, h3, h4, _, h6, _⟩ := (C11_borrow_accept_iff p tok row a).mp ⟨r, h⟩
  have hc : 0 < totalCollateral NumCtx.exact p := lt_of_le_of_ne hwf.totalCollateral_nonneg (Ne.symm h3)
  have hm0 : 0 ≤ weightedLtv NumCtx.exact p / totalCollateral NumCtx.exact p := div_nonneg hwf.weightedLtv_nonneg (le_of_lt hc)
  have hm : 0 < weightedLtv NumCtx.exact p / totalCollateral NumCtx.exact p := lt_of_le_of_ne hm0 (Ne.symm h4)
  constructor
  · rw [div_le_iff₀ hm] at h6
    calc totalDebt NumCtx.exact p + a * row.price
        ≤ totalCollateral NumCtx.exact p * (weightedLtv NumCtx.exact p / totalCollateral NumCtx.exact p) := h6
      _ = weightedLtv NumCtx.exact p := by field_simp
  · refine ⟨weightedLtv NumCtx.exact p / totalCollateral NumCtx.exact p, ?_, by field_simp⟩
    unfold maxLtv safeDiv; rw [if_neg h3]; rfl

/-- **HF ≥ 1 after an accepted borrow**: with sane risk parameters (LTV ≤ LT) the account — which now has debt — has
    a finite health factor ≥ 1.  `row` is the borrowed token's row of the bar (the same as the one attached to an
    existing debt entry of that token). -/
theorem C11_borrow_hf {p : Portfolio} (hwf : p.WF) (hs : p.Sane) {tok : String} {row : Row} (hr : row.WF)
    (hrow : ∀ d ∈ p.debts, d.tok = tok → d.row = row) {a : Rat}
    {p' : Portfolio} {x : Rat} (h : borrow NumCtx.exact p tok row (some a) = .ok (p', x)) :
    x = a ∧ p'.supplies = p.supplies
    ∧ totalDebt NumCtx.exact p' = totalDebt NumCtx.exact p + a * row.price
    ∧ ∃ hf, healthFactor NumCtx.exact p' = some hf ∧ 1 ≤ hf := by
  have hcov := (C11_borrow_only_if_covered hwf h).1
  obtain ⟨h1, h2, h3, h4, h5, h6, h7⟩ := (C11_borrow_accept_iff p tok row a).mp ⟨_, h⟩
  have hT : Gen.arHfLiqThreshold = 1 := rfl
  rw [borrow_exact_eq, if_neg (not_not.mpr h1), if_neg (by simp [h2]), if_neg h3, if_neg h4,
    if_neg (by rw [hT]; simp [h5]), if_neg (not_not.mpr h6), if_neg h7] at h
  simp only [Except.ok.injEq, Prod.mk.injEq] at h
  obtain ⟨hp, hx⟩ := h
  subst hp
  have htd := totalDebt_addDebt hwf tok row h7 hrow a
  refine ⟨hx.symm, rfl, htd, ?_⟩
  apply hf_ge_one_of_le
  · rw [htd]
    have := hwf.totalDebt_nonneg; have := hr.price_pos
    have : 0 < a * row.price := by positivity
    linarith
  · rw [htd]
    have : weightedLt NumCtx.exact { p with debts := addDebt NumCtx.exact p.debts tok row (a / row.borIndex) }
        = weightedLt NumCtx.exact p := rfl
    rw [this]
    exact le_trans hcov (hwf.weightedLtv_le_weightedLt hs)

/-- **Borrow beyond the limit is rejected**: if the debt including the new one exceeds
    collateral × weighted max-LTV, the call is refused. -/
theorem C11_borrow_beyond_limit_rejected {p : Portfolio} (hwf : p.WF) (tok : String) (row : Row) (a : Rat)
    (hb : weightedLtv NumCtx.exact p < totalDebt NumCtx.exact p + a * row.price) :
    ∃ c, borrow NumCtx.exact p tok row (some a) = .error c := by
  cases h : borrow NumCtx.exact p tok row (some a) with
  | error c => exact ⟨c, rfl⟩
  | ok r => have := (C11_borrow_only_if_covered hwf h).1; linarith

/-! ## withdraw -/

/-- **Withdraw: accepted iff** the token is supplied, `0 < amount ≤ balance`, and — for a supply used as collateral —
    the health factor *after* the deduction is not below 1. -/
theorem C11_withdraw_accept_iff (p : Portfolio) (tok : String) (a : Rat) :
    (∃ r, withdraw NumCtx.exact p tok (some a) = .ok r) ↔
      ∃ s, findSupply? p.supplies tok = some s ∧ 0 < a ∧ a ≤ s.amount NumCtx.exact ∧ s.row.liqIndex ≠ 0
        ∧ (s.coll = true → (healthFactor NumCtx.exact (withdrawTrial NumCtx.exact p s a)).ltB 1 = false) := by
  rw [withdraw_exact_eq]
  have hT : Gen.arHfLiqThreshold = 1 := rfl
  rw [hT]
  cases hf : findSupply? p.supplies tok with
  | none => simp
  | some s =>
    simp only [Option.some.injEq, exists_eq_left']
    constructor
    · rintro ⟨r, h⟩
      split at h; · cases h
      split at h; · cases h
      split at h; · cases h
      split at h; · cases h
      rename_i h1 h2 h3 h4
      refine ⟨not_not.mp h1, not_not.mp h2, h3, ?_⟩
      intro hc
      rw [not_and] at h4
      simpa using h4 hc
    · rintro ⟨h1, h2, h3, h4⟩
      rw [Supply.amount_exact] at h2
      rw [if_neg (not_not.mpr h1), if_neg (not_not.mpr h2), if_neg h3, if_neg]
      · exact ⟨_, rfl⟩
      · rintro ⟨hc, hlt⟩
        rw [h4 hc] at hlt; cases hlt

/-- **HF ≥ 1 after an accepted collateral withdrawal.**  The debts are untouched and
    `Σ debt value ≤ Σ_coll valueᵢ·LTᵢ` afterwards, up to the dust that `sub_base_amount` snaps away
    (`snapDust` < MIN_TOKEN_VALUE scaled units of the withdrawn token, 0 unless the remaining scaled balance is below
    MIN_TOKEN_VALUE) — so with debt the health factor afterwards is ≥ 1 whenever nothing is snapped. -/
theorem C11_withdraw_hf {p : Portfolio} (hwf : p.WF) {tok : String} {a : Rat} {s : Supply}
    (hfind : findSupply? p.supplies tok = some s) (hcoll : s.coll = true)
    {p' : Portfolio} {x : Rat} (h : withdraw NumCtx.exact p tok (some a) = .ok (p', x)) :
    x = a ∧ p'.debts = p.debts
    ∧ (totalDebt NumCtx.exact p' = 0 ∨
        totalDebt NumCtx.exact p' ≤ weightedLt NumCtx.exact p'
          + snapDust s.base (a / s.row.liqIndex) * s.row.liqIndex * s.row.price * s.row.lt)
    ∧ (snapDust s.base (a / s.row.liqIndex) = 0 → 0 < totalDebt NumCtx.exact p' →
        ∃ hf, healthFactor NumCtx.exact p' = some hf ∧ 1 ≤ hf) := by
  obtain ⟨s', hs', h1, h2, h3, h4⟩ := (C11_withdraw_accept_iff p tok a).mp ⟨_, h⟩
  rw [hfind] at hs'; cases hs'
  obtain ⟨hsm, hst⟩ := mem_of_findSupply hfind
  have hT : Gen.arHfLiqThreshold = 1 := rfl
  rw [Supply.amount_exact] at h2
  rw [withdraw_exact_eq, hfind] at h
  simp only [] at h
  rw [if_neg (not_not.mpr h1), if_neg (not_not.mpr h2), if_neg h3,
    if_neg (by rw [hT, h4 hcoll]; simp)] at h
  simp only [Except.ok.injEq, Prod.mk.injEq] at h
  obtain ⟨hp, hx⟩ := h
  subst hp; subst hst
  have hkey : totalDebt NumCtx.exact p = 0 ∨ totalDebt NumCtx.exact p ≤
      weightedLt NumCtx.exact { p with supplies := putSupplyBase p.supplies s.tok (subBase NumCtx.exact s.base (a / s.row.liqIndex)) }
        + snapDust s.base (a / s.row.liqIndex) * s.row.liqIndex * s.row.price * s.row.lt := by
    have htrial := le_of_hf_not_lt_one (p := withdrawTrial NumCtx.exact p s a) hwf.totalDebt_nonneg (h4 hcoll)
    rcases htrial with h0 | hle
    · exact Or.inl h0
    · right
      have hd : totalDebt NumCtx.exact (withdrawTrial NumCtx.exact p s a) = totalDebt NumCtx.exact p := rfl
      rw [hd] at hle
      have e1 : weightedLt NumCtx.exact (withdrawTrial NumCtx.exact p s a)
          = weightedLt NumCtx.exact p - gLt s + gLt { s with base := s.base - a / s.row.liqIndex } := by
        rw [weightedLt_sum, weightedLt_sum]
        unfold withdrawTrial setSupplyBase
        exact sum_updFirst Supply.tok gLt _ hwf.supKeys hsm
      have e2 : weightedLt NumCtx.exact { p with supplies := putSupplyBase p.supplies s.tok (subBase NumCtx.exact s.base (a / s.row.liqIndex)) }
          = weightedLt NumCtx.exact p - gLt s + gLt { s with base := subBase NumCtx.exact s.base (a / s.row.liqIndex) } := by
        rw [weightedLt_sum, weightedLt_sum]
        exact sum_putSupplyBase gLt (fun x => by unfold gLt; simp [Supply.value_exact]) hwf.supKeys hsm _
      rw [e2]; rw [e1] at hle
      have e3 : gLt { s with base := subBase NumCtx.exact s.base (a / s.row.liqIndex) }
          = gLt { s with base := s.base - a / s.row.liqIndex }
            - snapDust s.base (a / s.row.liqIndex) * s.row.liqIndex * s.row.price * s.row.lt := by
        unfold gLt
        simp only [hcoll, if_true, Supply.value_exact, subBase_exact]
        ring
      rw [e3]; linarith
  refine ⟨hx.symm, rfl, hkey, ?_⟩
  intro hz hpos
  apply hf_ge_one_of_le hpos
  rcases hkey with h0 | hle
  · have : totalDebt NumCtx.exact { p with supplies := putSupplyBase p.supplies s.tok (subBase NumCtx.exact s.base (a / s.row.liqIndex)) }
        = totalDebt NumCtx.exact p := rfl
    rw [this, h0] at hpos; exact absurd hpos (lt_irrefl _)
  · rw [hz] at hle
    have hd : totalDebt NumCtx.exact { p with supplies := putSupplyBase p.supplies s.tok (subBase NumCtx.exact s.base (a / s.row.liqIndex)) }
        = totalDebt NumCtx.exact p := rfl
    rw [hd]; simpa using hle

namespace AaveRisk
/-- 1 + 5·10⁻¹⁹ WETH (price 1000, LT 0.825) as collateral against a debt worth exactly 5·10⁻¹⁹ × 1000 × 0.825 -/
def c11DustP : Portfolio :=
  { supplies := [{ tok := "WETH", base := 1 + 5 / 10 ^ 19, coll := true,
                   row := { liqIndex := 1, borIndex := 1, price := 1000, ltv := 8/10, lt := 825/1000, bonus := 5/100, canColl := true, canBorrow := true } }],
    debts := [{ tok := "USDC", base := 4125 / 10 ^ 19,
                row := { liqIndex := 1, borIndex := 1, price := 1, ltv := 8/10, lt := 85/100, bonus := 4/100, canColl := true, canBorrow := true } }] }

def c11DustCheck : Bool :=
  match withdraw NumCtx.exact c11DustP "WETH" (some 1) with
  | .ok (p', _) => p'.supplies.isEmpty && decide (0 < totalDebt NumCtx.exact p') && (healthFactor NumCtx.exact p').ltB 1
      && decide (snapDust (1 + 5 / 10 ^ 19) (1 / 1) = 5 / 10 ^ 19)
  | _ => false
end AaveRisk

/-- **The dust term of `C11_withdraw_hf` is needed**: withdrawing 1 WETH of 1 + 5·10⁻¹⁹ is accepted (the health factor
    on the trial state is exactly 1), then `sub_base_amount` snaps the 5·10⁻¹⁹ remainder to 0 and deletes the supply:
    the account keeps a (dust) debt with health factor 0.  `helper.sub_base_amount` documents remainders below 1e-18 as
    "considered 0"; the statements of C11/C12 are therefore up to `MIN_TOKEN_VALUE` scaled units. -/
theorem C11_withdraw_hf_dust_term_needed : c11DustCheck = true := by decide +kernel

/-! ## change_collateral -/

/-- **change_collateral: accepted iff** the token is supplied and the flag is already as asked, or it is switched *on* and
    the risk table admits the token as collateral (`usageAsCollateralEnabled`, the rule of `supply`; repair 500c37d), or it
    is switched *off* and the health factor afterwards is not below 1.  The accepted call changes nothing but the flag, an
    account with debt has HF ≥ 1 after switching a collateral off, and a flag that was switched on belongs to an admitted
    token. -/
theorem C11_change_collateral (p : Portfolio) (tok : String) (flag : Bool) :
    ((∃ p', changeCollateral NumCtx.exact p tok flag = .ok p') ↔
      ∃ s, findSupply? p.supplies tok = some s ∧
        (s.coll = flag ∨ (flag = true ∧ s.row.canColl = true)
          ∨ (flag = false ∧
              (healthFactor NumCtx.exact { p with supplies := setSupplyColl p.supplies tok flag }).ltB 1 = false)))
    ∧ (∀ p', changeCollateral NumCtx.exact p tok flag = .ok p' →
        (p' = p ∨ p' = { p with supplies := setSupplyColl p.supplies tok flag })
        ∧ (∀ s, findSupply? p.supplies tok = some s → s.coll = true → flag = false →
            (healthFactor NumCtx.exact p').ltB 1 = false)
        ∧ (∀ s, findSupply? p.supplies tok = some s → s.coll = false → flag = true → s.row.canColl = true)) := by
  have hT : Gen.arHfLiqThreshold = 1 := rfl
  unfold changeCollateral
  rw [hT]
  cases hf : findSupply? p.supplies tok with
  | none => simp
  | some s =>
    simp only [Option.some.injEq, exists_eq_left']
    by_cases hc : s.coll = flag
    · simp only [if_pos hc]
      refine ⟨⟨fun _ => Or.inl hc, fun _ => ⟨_, rfl⟩⟩, ?_⟩
      intro p' h
      simp only [Except.ok.injEq] at h
      subst h
      refine ⟨Or.inl rfl, ?_, ?_⟩
      · intro s' hs' hcoll hflag; cases hs'; rw [hcoll, hflag] at hc; cases hc
      · intro s' hs' hcoll hflag; cases hs'; rw [hcoll, hflag] at hc; cases hc
    · rw [if_neg hc]
      by_cases h1 : (flag = true ∧ s.row.canColl = false)
      · rw [if_pos h1]
        refine ⟨⟨(fun ⟨_, h⟩ => by cases h), ?_⟩, fun p' h => by cases h⟩
        rintro (h | ⟨_, h⟩ | ⟨h, _⟩)
        · exact absurd h hc
        · rw [h1.2] at h; cases h
        · rw [h1.1] at h; cases h
      · rw [if_neg h1]
        by_cases h2 : (flag = false ∧
            (healthFactor NumCtx.exact { p with supplies := setSupplyColl p.supplies tok flag }).ltB 1 = true)
        · rw [if_pos h2]
          refine ⟨⟨(fun ⟨_, h⟩ => by cases h), ?_⟩, fun p' h => by cases h⟩
          rintro (h | ⟨h, _⟩ | ⟨_, h⟩)
          · exact absurd h hc
          · rw [h2.1] at h; cases h
          · rw [h2.2] at h; cases h
        · rw [if_neg h2]
          have hcan : flag = true → s.row.canColl = true := by
            intro hfl
            cases hcc : s.row.canColl with
            | true => rfl
            | false => exact absurd ⟨hfl, hcc⟩ h1
          have hhf : flag = false →
              (healthFactor NumCtx.exact { p with supplies := setSupplyColl p.supplies tok flag }).ltB 1 = false := by
            intro hfl
            cases hl : (healthFactor NumCtx.exact { p with supplies := setSupplyColl p.supplies tok flag }).ltB 1 with
            | false => rfl
            | true => exact absurd ⟨hfl, hl⟩ h2
          refine ⟨⟨fun _ => ?_, fun _ => ⟨_, rfl⟩⟩, ?_⟩
          · rcases Bool.eq_false_or_eq_true flag with hfl | hfl
            · exact Or.inr (Or.inl ⟨hfl, hcan hfl⟩)
            · exact Or.inr (Or.inr ⟨hfl, hhf hfl⟩)
          · intro p' h
            simp only [Except.ok.injEq] at h
            subst h
            refine ⟨Or.inr rfl, ?_, ?_⟩
            · intro _ _ _ hfl; exact hhf hfl
            · intro s' hs' _ hfl; cases hs'; exact hcan hfl

/-! ### non-vacuity -/
namespace AaveRisk
def c11RowW : Row := { liqIndex := 1, borIndex := 1, price := 1000, ltv := 8/10, lt := 825/1000, bonus := 5/100, canColl := true, canBorrow := true }
def c11RowU : Row := { liqIndex := 1, borIndex := 1, price := 1, ltv := 8/10, lt := 85/100, bonus := 4/100, canColl := true, canBorrow := true }
/-- 10 WETH at 1000 USD as collateral, 1000 USDC borrowed -/
def c11P : Portfolio := { supplies := [{ tok := "WETH", base := 10, coll := true, row := c11RowW }],
                          debts := [{ tok := "USDC", base := 1000, row := c11RowU }] }

def c11Check : Bool :=
  (match borrow NumCtx.exact c11P "USDC" c11RowU (some 7000) with | .ok (p', _) => (healthFactor NumCtx.exact p').gtB 1 | _ => false)
  && (match borrow NumCtx.exact c11P "USDC" c11RowU (some 7001) with | .error .notCovered => true | _ => false)
  && (match withdraw NumCtx.exact c11P "WETH" (some 8) with | .ok (p', _) => (healthFactor NumCtx.exact p').gtB 1 | _ => false)
  && (match withdraw NumCtx.exact c11P "WETH" (some 9) with | .error .hfLowAfter => true | _ => false)
  && (match changeCollateral NumCtx.exact c11P "WETH" false with | .error .hfLowAfter => true | _ => false)

example : c11Check = true := by decide +kernel
end AaveRisk

end Demeter
