/-
  C16 — options settle once, at the first open bar at or after expiry, with the intrinsic payoff net of the
  delivery fee; nothing before expiry; trades only on open bars.

  Model: Demeter/Deribit.lean (`update`, `exercise`, `paidOf`) and Demeter/Deribit/Run.lean (the slice of
  `Actuator.run` an hourly Deribit market sees next to a minutely market).  "Open bar" for settlement is the
  code's `_is_open()`: the bar's timestamp is on the hourly grid (`DState.onGrid`); the trade gate is the
  separate per-bar flag `Market.is_open` (`DState.flagOpen`, timestamp present in the option data).
-/
import Proofs.Lemmas.DeribitExpiry
namespace Demeter
open Demeter.Deribit

/-- the constants the property names, as extracted from the source -/
theorem C16_constants :
    ethCfg.deliveryFee = 15 / 100000 ∧ btcCfg.deliveryFee = 15 / 100000 ∧ maxFeeRate = 125 / 1000 ∧
    ethCfg.feeExp = -6 ∧ Gen.deribitFreqMinutes = 60 := by
  refine ⟨?_, ?_, ?_, rfl, rfl⟩ <;>
    simp only [ethCfg, btcCfg, maxFeeRate, Gen.deribitEthDeliveryFeeRate, Gen.deribitBtcDeliveryFeeRate,
      Gen.deribitMaxFeeRate] <;> norm_num

/-- unique dict keys (what `market.positions` being a dict gives) -/
def Deribit.KeysNodup (s : DState) : Prop := (s.positions.map Prod.fst).Nodup

/-- off the hourly grid `update()` does nothing at all (every context) -/
theorem C16_update_off_grid_noop (cx : DCtx) (c : TokenCfg) (s : DState) (h : s.onGrid = false) : update cx c s = s := by
  simp [update, h]

/-- `update()` touches nothing but cash, positions and the action log -/
theorem C16_update_frame (cx : DCtx) (c : TokenCfg) (s : DState) :
    (update cx c s).book = s.book ∧ (update cx c s).wallet = s.wallet ∧ (update cx c s).cache = s.cache ∧
    (update cx c s).now = s.now ∧ (update cx c s).flagOpen = s.flagOpen := by
  unfold update; split <;> simp [exercise]

/-- **removed exactly the due positions**: on an open (on-grid) bar the positions left are exactly those whose
    expiry is still ahead, in the same order (every context) -/
theorem C16_settles_exactly_the_due_positions (cx : DCtx) (c : TokenCfg) (s : DState) (hg : s.onGrid = true)
    (hn : Deribit.KeysNodup s) :
    (update cx c s).positions = s.positions.filter (fun kp => decide (s.now < kp.2.expiry)) := by
  simp only [update, hg, if_true, exercise_positions]
  apply List.filter_congr
  intro kp hkp
  rw [decide_eq_decide]
  simp only [dueKeys, List.mem_map, List.mem_filter, due, decide_eq_true_eq, not_exists, not_and, and_imp]
  constructor
  · intro h
    by_contra hd
    exact h kp hkp (by omega) rfl
  · intro hd a ha hdue heq
    have := List.inj_on_of_nodup_map hn ha hkp heq
    subst this
    omega

/-- **nothing is settled before expiry**: a position whose expiry is still ahead survives `update()` on
    every bar, unchanged -/
theorem C16_nothing_before_expiry (cx : DCtx) (c : TokenCfg) (s : DState) (hn : Deribit.KeysNodup s)
    (k : String) (p : Position) (hmem : (k, p) ∈ s.positions) (h : s.now < p.expiry) :
    (k, p) ∈ (update cx c s).positions := by
  by_cases hg : s.onGrid = true
  · rw [C16_settles_exactly_the_due_positions cx c s hg hn]
    exact List.mem_filter.mpr ⟨hmem, by simpa using h⟩
  · rw [C16_update_off_grid_noop cx c s (by simpa using hg)]; exact hmem

/-- **settled at the first open bar at or after expiry**: no position that is due survives an on-grid bar
    (every context; no assumption on the keys) -/
theorem C16_no_due_position_survives (cx : DCtx) (c : TokenCfg) (s : DState) (hg : s.onGrid = true) :
    ∀ kp ∈ (update cx c s).positions, s.now < kp.2.expiry := by
  intro kp hkp
  simp only [update, hg, if_true, exercise_positions] at hkp
  obtain ⟨hmem, hnot⟩ := List.mem_filter.mp hkp
  by_contra hge
  have : kp.1 ∈ dueKeys s s.positions := by
    simp only [dueKeys, List.mem_map, List.mem_filter, due, decide_eq_true_eq]
    exact ⟨kp, ⟨hmem, by omega⟩, rfl⟩
  simp [this] at hnot

/-- when nothing is due, `update()` changes nothing, not even the action log -/
theorem C16_nothing_due_nothing_happens (cx : DCtx) (c : TokenCfg) (s : DState) (hn : Deribit.KeysNodup s)
    (h : ∀ kp ∈ s.positions, s.now < kp.2.expiry) :
    (update cx c s).positions = s.positions ∧ (update cx c s).actions = s.actions := by
  by_cases hg : s.onGrid = true
  · have hf : s.positions.filter (fun kp => due s kp.2) = [] := by
      apply List.filter_eq_nil_iff.mpr
      intro kp hkp; have := h kp hkp; simp [due]; omega
    constructor
    · rw [C16_settles_exactly_the_due_positions cx c s hg hn]
      apply List.filter_eq_self.mpr
      intro kp hkp; simpa using h kp hkp
    · simp only [update, hg, if_true]
      rw [exercise_actions cx c s hn]
      simp [deliverRecs, hf]
  · rw [C16_update_off_grid_noop cx c s (by simpa using hg)]; exact ⟨rfl, rfl⟩

/-- **exactly one Expired record per settled position, at most one Deliver record**: on an open bar the
    log grows by the Deliver records of the due positions that are paid (in dict order) followed by one
    Expired record for each due position (in dict order) -/
theorem C16_records (cx : DCtx) (c : TokenCfg) (s : DState) (hg : s.onGrid = true) (hn : Deribit.KeysNodup s) :
    (update cx c s).actions =
      s.actions ++
      (s.positions.filter (fun kp => due s kp.2)).filterMap
        (fun kp => (paidOf cx c s kp.2).map (deliverRec cx c s kp.1 kp.2)) ++
      (s.positions.filter (fun kp => due s kp.2)).map (fun kp => expiredRec cx c s kp.1 kp.2) := by
  simp only [update, hg, if_true]
  exact exercise_actions cx c s hn

-- the payoff formula of the property text (`C16_payoff_formula`, any configuration, ETH and BTC literals) is in Proofs/C16/Guard.lean: it
-- divides by the underlying price and is stated under the guard the code's division has.

/-- cash after the NON-RAISING path of `check_option_exercise` (`update`, whose payoff division is `Rat`'s total one): the old cash
    plus the net payoff of every due position; off the grid it does not move.  The statement about the code's `update()`, which
    raises when a due in-the-money position has underlying price 0, is `C16_cash_moves_by_payoffs` in Proofs/C16/Guard.lean. -/
theorem Deribit.update_cash_eq (c : TokenCfg) (s : DState) :
    (update DCtx.exact c s).cash =
      if s.onGrid then s.cash + ((s.positions.filter (fun kp => due s kp.2)).map (fun kp => netPayoff c s kp.2)).sum
      else s.cash := by
  unfold update
  split
  · exact exercise_cash c s
  · rfl

/-- payoffs are never negative: settlement never takes cash away -/
theorem C16_payoff_nonneg (c : TokenCfg) (s : DState) (p : Position) : 0 ≤ netPayoff c s p := by
  unfold netPayoff
  split
  · rename_i gf h
    simp only [paidOf] at h
    split at h
    · simp at h
    · unfold deliverOption at h
      simp only [] at h
      split at h
      · simp at h
      · rename_i hle
        simp only [Option.some.injEq] at h
        rw [← h]; simp only []; linarith [not_le.mp hle]
  · exact le_refl _

/-- **the hourly market accepts trades only on bars where it is open** (every context) -/
theorem C16_trades_only_on_open_bars (cx : DCtx) (c : TokenCfg) (s : DState) (r : Req) (h : s.flagOpen = false) :
    step cx c s (.buy r) = (.error (.demeter "market-closed"), s) ∧
    step cx c s (.sell r) = (.error (.demeter "market-closed"), s) := by
  constructor <;> simp [step, buy, sell, h]

-- where the flag comes from (`timestamp in _data.index`) is modelled in Demeter/Deribit/Frame.lean: `C16_flag_follows_data`, Proofs/C16/Frame.lean

/-! ### non-vacuity: a call and a put, both due at minute 120, one in the money -/

namespace Deribit
def c16aBook : List Instr :=
  [ { name := "ETH-1650-C", stateOpen := true, kind := .call, strike := 1650, expiry := 75, mark := 479 / 10000,
      underlying := 1716, delta := 1 / 2, gamma := 1 / 1000, asks := [], bids := [] } ]
def c16aState : DState :=
  { cash := 1, positions :=
      [ ("ETH-1650-C", { name := "ETH-1650-C", expiry := 75, strike := 1650, kind := .call, amount := 2, avgBuy := 1 / 20,
                         buyAmt := 2, avgSell := 0, sellAmt := 0 }),
        ("ETH-1600-P", { name := "ETH-1600-P", expiry := 120, strike := 1600, kind := .put, amount := 5, avgBuy := 1 / 50,
                         buyAmt := 5, avgSell := 0, sellAmt := 0 }),
        ("ETH-1800-C", { name := "ETH-1800-C", expiry := 121, strike := 1800, kind := .call, amount := 1, avgBuy := 1 / 50,
                         buyAmt := 1, avgSell := 0, sellAmt := 0 }) ],
    book := c16aBook, wallet := [], allowNeg := false, actions := [], cache := none, flagOpen := true, now := 120,
    price := 1716, priceDec := true }
end Deribit

section
open Deribit
example : c16aState.onGrid = true := by decide +kernel
example : KeysNodup c16aState := by unfold KeysNodup; decide
-- the call (row in the book, float path) and the put (row gone: Decimal token price) are removed, the later call stays
example : ((update DCtx.exact ethCfg c16aState).positions.map Prod.fst) = ["ETH-1800-C"] := by decide +kernel
-- call: round(2 × 66 / 1716) − round(min(0.0003, 0.125 × 2 × 0.0479)) = 0.076923 − 0.0003; put: out of the money
example : (update DCtx.exact ethCfg c16aState).cash = 1 + (76923 / 1000000 - 3 / 10000) := by decide +kernel
example : (update DCtx.exact ethCfg c16aState).actions.length = 3 := by decide +kernel
example : update DCtx.exact ethCfg { c16aState with now := 119 } = { c16aState with now := 119 } := by decide +kernel
end

end Demeter
