/-
  C10 — Aave balances accrue exactly with the indices; operations move exactly the stated amounts.

  Model: `Demeter.Aave` (scaled balances `base = amount / index`, `amount = base × index`; `sub_base_amount`
  turns a scaled remainder below `MIN_TOKEN_VALUE = 1e-18 − 1e-27` (a float: its exact binary value) into 0 and
  the entry is then deleted).  All theorems are for **exact rational arithmetic** (`aaveExact`, `rnd = id`); the
  35-digit rounding CPython adds is reproduced bit-exactly by the driver and measured by the harness on every
  step (≤ 1e-18 inside the envelope balances ≤ 1e12, ≤ 1e4 operations).
  Accepted calls are characterised by inversion (`Proofs/Lemmas/AaveInv.lean`); withdraw / repay are stated for
  coherent states (`Good`, i.e. every reachable state by C13).
-/
import Proofs.Lemmas.AaveInv
import Proofs.Lemmas.Exact
import Mathlib.Tactic.Ring
import Mathlib.Tactic.FieldSimp
import Mathlib.Tactic.Linarith
import Mathlib.Tactic.NormNum
import Mathlib.Algebra.Order.Field.Rat
namespace Demeter
open Aave

/-- exact arithmetic: every `+ − × ÷` is the rational operation, `**` the rational power -/
def aaveExact : ACtx := { NumCtx.exact with dpow := fun x n => x ^ n }

@[simp] theorem aaveExact_add (a b : Rat) : aaveExact.add a b = a + b := rfl
@[simp] theorem aaveExact_sub (a b : Rat) : aaveExact.sub a b = a - b := rfl
@[simp] theorem aaveExact_mul (a b : Rat) : aaveExact.mul a b = a * b := rfl
@[simp] theorem aaveExact_div (a b : Rat) : aaveExact.div a b = a / b := rfl

variable {env : Env}

theorem aave_minToken_pos : (0 : Rat) < Gen.aaveMinTokenValue := by unfold Gen.aaveMinTokenValue; norm_num

/-- the clamp threshold is (just below) 1e-18 -/
theorem C10_min_token_value : Gen.aaveMinTokenValue < 1 / 10 ^ 18 ∧ 1 / 10 ^ 18 - 1 / 10 ^ 26 < Gen.aaveMinTokenValue := by
  unfold Gen.aaveMinTokenValue; constructor <;> norm_num

/-- what `Asset.sub` leaves: the difference, or 0 when the difference is within the 1e-5 dust of the balance -/
def WalletTook (w w' : Wallet) (tok : String) (amount : Rat) : Prop :=
  ∃ b b', AList.get? w tok = some b ∧ AList.get? w' tok = some b' ∧
    ((b' = b - amount ∧ 0 ≤ b - amount) ∨ (b' = 0 ∧ ratAbs ((b - amount) / (if b ≠ 0 then b else amount)) < assetDust)) ∧
    ∀ k, k ≠ tok → AList.get? w' k = AList.get? w k

theorem aave_debit_took {w w' : Wallet} {tok : String} {amount : Rat}
    (h : Wallet.debit aaveExact.toNumCtx w tok amount false = .ok w') (hpos : amount > 0) : WalletTook w w' tok amount := by
  unfold Wallet.debit at h
  cases hb : AList.get? w tok with
  | none => rw [hb] at h; simp at h
  | some b =>
    rw [hb] at h
    dsimp only at h
    cases ha : assetSub aaveExact.toNumCtx b amount false with
    | none => rw [ha] at h; cases h
    | some b' =>
      rw [ha] at h
      cases h
      refine ⟨b, b', hb, aget_set_self _ _ _, ?_, fun k hk => aget_set_ne _ (Ne.symm hk) _⟩
      unfold assetSub at ha
      have hbase : (if b ≠ 0 then b else amount) ≠ 0 := by
        split
        · assumption
        · exact ne_of_gt hpos
      simp only [hbase, if_false, Bool.false_eq_true] at ha
      by_cases hd : ratAbs (aaveExact.div (aaveExact.sub b amount) (if b ≠ 0 then b else amount)) < assetDust
      · simp only [hd, if_true] at ha
        cases ha
        exact Or.inr ⟨rfl, hd⟩
      · simp only [hd, if_false] at ha
        by_cases hn : aaveExact.sub b amount < 0
        · simp only [hn, if_true] at ha; cases ha
        · simp only [hn, if_false] at ha
          cases ha
          exact Or.inl ⟨rfl, not_lt.mp hn⟩

/-- `add_to_balance`: exactly `amount` more (a new wallet entry starts from 0) -/
theorem aave_credit_gave (w : Wallet) (tok : String) (amount : Rat) :
    AList.get? (Wallet.credit aaveExact.toNumCtx w tok amount) tok = some ((AList.get? w tok).getD 0 + amount) ∧
    ∀ k, k ≠ tok → AList.get? (Wallet.credit aaveExact.toNumCtx w tok amount) k = AList.get? w k := by
  unfold Wallet.credit
  cases hb : AList.get? w tok with
  | none =>
    refine ⟨?_, fun k hk => aget_set_ne _ (Ne.symm hk) _⟩
    rw [aget_set_self]; rfl
  | some b =>
    refine ⟨?_, fun k hk => aget_set_ne _ (Ne.symm hk) _⟩
    rw [aget_set_self]; rfl

theorem aave_subBase_cases (b d : Rat) :
    (b - d < Gen.aaveMinTokenValue ∧ subBase aaveExact b d = 0) ∨
    (Gen.aaveMinTokenValue ≤ b - d ∧ subBase aaveExact b d = b - d ∧ subBase aaveExact b d ≠ 0) := by
  have e : subBase aaveExact b d = if b - d < Gen.aaveMinTokenValue then 0 else b - d := rfl
  by_cases h : b - d < Gen.aaveMinTokenValue
  · left; exact ⟨h, by rw [e]; simp [h]⟩
  · right
    have h' := not_lt.mp h
    refine ⟨h', by rw [e]; simp [h], ?_⟩
    rw [e]; simp only [h, if_false]
    exact ne_of_gt (lt_of_lt_of_le aave_minToken_pos h')

/-- the bar's indices are positive (the property quantifies over positive indices) -/
def AavePosIdx (env : Env) : Prop := ∀ k st, env.statusOf k = .ok st → 0 < st.liqIdx ∧ 0 < st.varIdx

/-! ### supply -/

/-- **supply moves exactly the stated amount**: the supply's amount (`base × index`) grows by exactly `amount`
    (a new entry starts from 0), no other position changes, and the wallet gives exactly `amount` (or its last
    1e-5 dust). -/
theorem C10_supply_exact {s s' : St} {tok : String} {amount : Rat} {coll : Bool}
    (h : supply aaveExact env tok amount coll s = (.ok (), s')) :
    ∃ st e, env.statusOf tok = .ok st ∧ AList.get? s'.supplies tok = some e ∧
      e.base * st.liqIdx = ((AList.get? s.supplies tok).map (·.base)).getD 0 * st.liqIdx + amount ∧
      (∀ k, k ≠ tok → AList.get? s'.supplies k = AList.get? s.supplies k) ∧
      s'.borrows = s.borrows ∧ WalletTook s.wallet s'.wallet tok amount := by
  obtain ⟨st, w', _, hpos, hst, hnz, _, hw, hc⟩ := supply_inv h
  have h1 : s'.supplies = _ := congrArg Core.supplies hc
  have h2 : s'.borrows = s.borrows := congrArg Core.borrows hc
  have h3 : s'.wallet = w' := congrArg Core.wallet hc
  refine ⟨st, _, hst, by rw [h1]; exact aget_set_self _ _ _, ?_, fun k hk => by rw [h1]; exact aget_set_ne _ (Ne.symm hk) _,
          h2, by rw [h3]; exact aave_debit_took hw hpos⟩
  unfold supplyEntry
  cases AList.get? s.supplies tok with
  | none => simp; field_simp
  | some i => simp; field_simp

/-! ### borrow -/

/-- **borrow moves exactly the stated amount**: the debt's amount grows by exactly `amount`, the wallet receives
    exactly `amount`, nothing else changes. -/
theorem C10_borrow_exact {s s' : St} {tok : String} {amount? : Option Rat}
    (h : borrow aaveExact env tok amount? s = (.ok (), s')) :
    ∃ st e amount, env.statusOf tok = .ok st ∧ (∀ a, amount? = some a → amount = a) ∧ 0 < amount ∧
      AList.get? s'.borrows tok = some e ∧
      e.base * st.varIdx = ((AList.get? s.borrows tok).map (·.base)).getD 0 * st.varIdx + amount ∧
      (∀ k, k ≠ tok → AList.get? s'.borrows k = AList.get? s.borrows k) ∧ s'.supplies = s.supplies ∧
      AList.get? s'.wallet tok = some ((AList.get? s.wallet tok).getD 0 + amount) ∧
      (∀ k, k ≠ tok → AList.get? s'.wallet k = AList.get? s.wallet k) := by
  obtain ⟨amount, st, _, hpos, ha, hst, hnz, hc⟩ := borrow_inv h
  have h1 : s'.supplies = s.supplies := congrArg Core.supplies hc
  have h2 : s'.borrows = _ := congrArg Core.borrows hc
  have h3 : s'.wallet = _ := congrArg Core.wallet hc
  obtain ⟨w1, w2⟩ := aave_credit_gave s.wallet tok amount
  refine ⟨st, _, amount, hst, ha, hpos, by rw [h2]; exact aget_set_self _ _ _, ?_,
          fun k hk => by rw [h2]; exact aget_set_ne _ (Ne.symm hk) _, h1, by rw [h3]; exact w1, fun k hk => by rw [h3]; exact w2 k hk⟩
  unfold borrowEntry
  cases AList.get? s.borrows tok with
  | none => simp; field_simp
  | some i => simp; field_simp

/-! ### withdraw -/

theorem aget_erase_self' {ν : Type} (m : AList String ν) (k : String) : AList.get? (AList.erase m k) k = none := by
  apply aget_none_of_not_mem
  intro hk
  unfold keys AList.erase at hk
  obtain ⟨p, hp, hpk⟩ := List.mem_map.mp hk
  have := (List.mem_filter.mp hp).2
  simp [hpk] at this

theorem aget_erase_ne' {ν : Type} (m : AList String ν) {k k' : String} (h : k' ≠ k) :
    AList.get? (AList.erase m k) k' = AList.get? m k' := by
  induction m with
  | nil => rfl
  | cons p m ih =>
    obtain ⟨k0, v0⟩ := p
    rw [erase_cons]
    by_cases hk : k0 = k
    · subst hk
      simp only [if_true]
      rw [ih, aget_cons_ne (fun e => h e.symm)]
    · simp only [hk, if_false]
      rw [aget_cons, aget_cons, ih]

/-- **withdraw moves exactly the stated amount** (`None` = the whole balance): the wallet receives exactly `amount`;
    the supply's amount goes down by exactly `amount`, unless the scaled remainder is below `MIN_TOKEN_VALUE`,
    in which case the entry disappears; no other position changes. -/
theorem C10_withdraw_exact {s s' : St} (hs : Good aaveExact env s) {tok : String} {amount? : Option Rat}
    (h : withdraw aaveExact env tok amount? s = (.ok (), s')) :
    ∃ st info amount, env.statusOf tok = .ok st ∧ AList.get? s.supplies tok = some info ∧
      amount = amount?.getD (info.base * st.liqIdx) ∧ 0 < amount ∧ amount ≤ info.base * st.liqIdx ∧
      ((info.base - amount / st.liqIdx < Gen.aaveMinTokenValue ∧ AList.get? s'.supplies tok = none) ∨
       (Gen.aaveMinTokenValue ≤ info.base - amount / st.liqIdx ∧
        ∃ e, AList.get? s'.supplies tok = some e ∧ e.base * st.liqIdx = info.base * st.liqIdx - amount)) ∧
      (∀ k, k ≠ tok → AList.get? s'.supplies k = AList.get? s.supplies k) ∧ s'.borrows = s.borrows ∧
      AList.get? s'.wallet tok = some ((AList.get? s.wallet tok).getD 0 + amount) ∧
      (∀ k, k ≠ tok → AList.get? s'.wallet k = AList.get? s.wallet k) := by
  obtain ⟨st, info, amount, nb, _, hst, hnz, hg, ha, hpos, hle, hnb, hc⟩ := withdraw_inv hs h
  have h1 : s'.supplies = supAfterSub s.supplies tok info nb := congrArg Core.supplies hc
  have h2 : s'.borrows = s.borrows := congrArg Core.borrows hc
  have h3 : s'.wallet = _ := congrArg Core.wallet hc
  obtain ⟨w1, w2⟩ := aave_credit_gave s.wallet tok amount
  simp only [aaveExact_mul, aaveExact_div] at ha hle hnb
  refine ⟨st, info, amount, hst, hg, ha, hpos, hle, ?_, ?_, h2, by rw [h3]; exact w1, fun k hk => by rw [h3]; exact w2 k hk⟩
  · rcases aave_subBase_cases info.base (amount / st.liqIdx) with ⟨hlt, h0⟩ | ⟨hge, heq, hne⟩
    · left
      refine ⟨hlt, ?_⟩
      rw [h1, hnb, h0]; unfold supAfterSub; simp only [if_true]
      exact aget_erase_self' _ _
    · right
      refine ⟨hge, { info with base := nb }, ?_, ?_⟩
      · rw [h1]; unfold supAfterSub
        have : nb ≠ 0 := by rw [hnb]; exact hne
        simp only [this, if_false]; exact aget_set_self _ _ _
      · show nb * st.liqIdx = _
        rw [hnb, heq]; field_simp
  · intro k hk
    rw [h1]; unfold supAfterSub
    split
    · exact aget_erase_ne' _ hk
    · exact aget_set_ne _ (Ne.symm hk) _

/-- **a fully withdrawn supply disappears** (`amount=None`, or exactly the balance). -/
theorem C10_full_withdraw_removes {s s' : St} (hs : Good aaveExact env s) {tok : String} {amount? : Option Rat}
    (h : withdraw aaveExact env tok amount? s = (.ok (), s'))
    (hfull : ∀ a, amount? = some a → ∀ info st, AList.get? s.supplies tok = some info → env.statusOf tok = .ok st →
      a = info.base * st.liqIdx) :
    AList.get? s'.supplies tok = none := by
  obtain ⟨st, info, amount, nb, _, hst, hnz, hg, ha, _, _, hnb, hc⟩ := withdraw_inv hs h
  have h1 : s'.supplies = supAfterSub s.supplies tok info nb := congrArg Core.supplies hc
  simp only [aaveExact_mul, aaveExact_div] at ha hnb
  have hamt : amount = info.base * st.liqIdx := by
    cases amount? with
    | none => exact ha
    | some a => rw [ha]; exact hfull a rfl info st hg hst
  have : nb = 0 := by
    rcases aave_subBase_cases info.base (amount / st.liqIdx) with ⟨_, h0⟩ | ⟨hge, _, _⟩
    · rw [hnb, h0]
    · exfalso
      have : info.base - amount / st.liqIdx = 0 := by rw [hamt]; field_simp; ring
      rw [this] at hge
      exact absurd aave_minToken_pos (not_lt.mpr hge)
  rw [h1, this]; unfold supAfterSub; simp only [if_true]
  exact aget_erase_self' _ _

/-! ### repay -/

/-- **repay with cash moves exactly the stated amount** (`None` = the whole debt): the wallet gives exactly
    `payback` (or its last 1e-5 dust), the debt's amount goes down by exactly `payback` or — scaled remainder
    below `MIN_TOKEN_VALUE` — the entry disappears; supplies are untouched. -/
theorem C10_repay_exact (hI : AavePosIdx env) {s s' : St} (hs : Good aaveExact env s) {tok : String}
    {amount? : Option Rat} {collTok? : Option String}
    (h : repay aaveExact env tok amount? false collTok? s = (.ok (), s')) :
    ∃ st info payback, env.statusOf tok = .ok st ∧ AList.get? s.borrows tok = some info ∧
      payback = amount?.getD (info.base * st.varIdx) ∧ 0 < payback ∧
      ((info.base - payback / st.varIdx < Gen.aaveMinTokenValue ∧ AList.get? s'.borrows tok = none) ∨
       (Gen.aaveMinTokenValue ≤ info.base - payback / st.varIdx ∧
        ∃ e, AList.get? s'.borrows tok = some e ∧ e.base * st.varIdx = info.base * st.varIdx - payback)) ∧
      (∀ k, k ≠ tok → AList.get? s'.borrows k = AList.get? s.borrows k) ∧ s'.supplies = s.supplies ∧
      WalletTook s.wallet s'.wallet tok payback := by
  obtain ⟨st, info, payback, nb, _, hst, hnz, hg, hpay, hpos, hnb, hcash, _⟩ := repay_inv hs h
  obtain ⟨w', hw, hc⟩ := hcash rfl
  have hp := hpay rfl
  have h1 : s'.supplies = s.supplies := congrArg Core.supplies hc
  have h2 : s'.borrows = borAfterSub s.borrows tok info nb := congrArg Core.borrows hc
  have h3 : s'.wallet = w' := congrArg Core.wallet hc
  simp only [aaveExact_mul, aaveExact_div] at hp hpos hnb
  have hidx : 0 < st.varIdx := (hI tok st hst).2
  have hpb : 0 < payback := by
    have := mul_pos hpos hidx
    rwa [div_mul_cancel₀ _ hnz] at this
  refine ⟨st, info, payback, hst, hg, hp, hpb, ?_, ?_, h1, by rw [h3]; exact aave_debit_took hw hpb⟩
  · rcases aave_subBase_cases info.base (payback / st.varIdx) with ⟨hlt, h0⟩ | ⟨hge, heq, hne⟩
    · left
      refine ⟨hlt, ?_⟩
      rw [h2, hnb, h0]; unfold borAfterSub; simp only [if_true]
      exact aget_erase_self' _ _
    · right
      refine ⟨hge, { info with base := nb }, ?_, ?_⟩
      · rw [h2]; unfold borAfterSub
        have : nb ≠ 0 := by rw [hnb]; exact hne
        simp only [this, if_false]; exact aget_set_self _ _ _
      · show nb * st.varIdx = _
        rw [hnb, heq]; field_simp
  · intro k hk
    rw [h2]; unfold borAfterSub
    split
    · exact aget_erase_ne' _ hk
    · exact aget_set_ne _ (Ne.symm hk) _

/-- **a fully repaid debt disappears** (`payback_amount=None`). -/
theorem C10_full_repay_removes {s s' : St} (hs : Good aaveExact env s) {tok : String} {collTok? : Option String}
    (h : repay aaveExact env tok none false collTok? s = (.ok (), s')) : AList.get? s'.borrows tok = none := by
  obtain ⟨st, info, payback, nb, _, hst, hnz, hg, hpay, hpos, hnb, hcash, _⟩ := repay_inv hs h
  obtain ⟨w', hw, hc⟩ := hcash rfl
  have hp := hpay rfl
  have h2 : s'.borrows = borAfterSub s.borrows tok info nb := congrArg Core.borrows hc
  simp only [aaveExact_mul, aaveExact_div, Option.getD_none] at hp hnb
  have : nb = 0 := by
    rcases aave_subBase_cases info.base (payback / st.varIdx) with ⟨_, h0⟩ | ⟨hge, _, _⟩
    · rw [hnb, h0]
    · exfalso
      have : info.base - payback / st.varIdx = 0 := by rw [hp]; field_simp; ring
      rw [this] at hge
      exact absurd aave_minToken_pos (not_lt.mpr hge)
  rw [h2, this]; unfold borAfterSub; simp only [if_true]
  exact aget_erase_self' _ _

/-- **repay with collateral**: the wallet is not touched; the debt goes down by `payback`, the collateral supply
    by the same value at the bar's prices (`payback × price(debt) / price(collateral)`). -/
theorem C10_repay_collateral_exact {s s' : St} (hs : Good aaveExact env s) {tok : String} {amount? : Option Rat}
    {collTok? : Option String} (h : repay aaveExact env tok amount? true collTok? s = (.ok (), s')) :
    ∃ st cst info cinfo payback pb pc, env.statusOf tok = .ok st ∧ env.statusOf (collTok?.getD tok) = .ok cst ∧
      env.priceOf tok = .ok pb ∧ env.priceOf (collTok?.getD tok) = .ok pc ∧
      AList.get? s.borrows tok = some info ∧ AList.get? s.supplies (collTok?.getD tok) = some cinfo ∧
      s'.wallet = s.wallet ∧
      s'.borrows = borAfterSub s.borrows tok info (subBase aaveExact info.base (payback / st.varIdx)) ∧
      s'.supplies = supAfterSub s.supplies (collTok?.getD tok) cinfo
        (subBase aaveExact cinfo.base (payback * pb / pc / cst.liqIdx)) := by
  obtain ⟨st, info, payback, nb, _, hst, hnz, hg, _, _, hnb, _, hcoll⟩ := repay_inv hs h
  obtain ⟨cinfo, cst, inColl, cnb, hci, hcst, hcnz, hsw, hcnb, hc⟩ := hcoll rfl
  unfold swapAmount at hsw
  cases hpb : env.priceOf tok with
  | error e => rw [hpb] at hsw; cases hsw
  | ok pb =>
    cases hpc : env.priceOf (collTok?.getD tok) with
    | error e => rw [hpb, hpc] at hsw; cases hsw
    | ok pc =>
      rw [hpb, hpc] at hsw
      have hin : divE aaveExact (aaveExact.mul (aaveExact.mul payback 1) pb) pc = .ok inColl := hsw
      obtain ⟨_, hin'⟩ := divE_ok_eq hin
      simp only [aaveExact_mul, aaveExact_div, mul_one] at hin' hnb hcnb
      refine ⟨st, cst, info, cinfo, payback, pb, pc, hst, hcst, rfl, rfl, hg, hci, congrArg Core.wallet hc, ?_, ?_⟩
      · rw [← hnb]; exact congrArg Core.borrows hc
      · rw [← hin', ← hcnb]; exact congrArg Core.supplies hc

end Demeter
