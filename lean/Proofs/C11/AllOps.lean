/-
  C11 — "after every accepted user operation an account with debt has HF ≥ 1", for ALL the user operations and stated precisely.

  `C11_hf_invariant` covers the three calls that can lower the health factor (borrow, withdraw, change_collateral).  Here the
  remaining ones are added — `supply` (a new position or a top-up), `repay` from the wallet, `repay` with collateral — as the state
  changes the calls make (the post-states of `Aave.supply_inv` / `Aave.repay_inv` for the cache-carrying state machine: a scaled
  balance added; `sub_base_amount` on the debt; `sub_base_amount` on the collateral and on the debt with `collateral value = repaid
  value` at the bar's prices and zero swap fee).  `UserStepAll.preserves`: each of them keeps "no debt or HF ≥ 1".

  What the statement does NOT say — and the code does not guarantee — is HF ≥ 1 after an accepted operation in a bar whose prices moved:
  `supply`, `repay`, `repay` with collateral and `change_collateral(…, True)` are accepted while HF < 1 (they only improve it), and the
  account is still below 1 afterwards: `C11_unhealthy_after_price_move_accepted`.  The invariant is therefore "HF ≥ 1 is *kept*",
  within a bar, from a healthy state; between bars `update()` (C12) is what restores it.
-/
import Proofs.C11.Invariant
import Proofs.C12.Loop
namespace Demeter
open AaveRisk

namespace AaveRisk

/-- `supply`: `_supplies[t].base_amount += x` on an existing entry, or a new entry at the end of the dict -/
def addSupply (ss : List Supply) (tok : String) (row : Row) (coll : Bool) (x : Rat) : List Supply :=
  match findSupply? ss tok with
  | some s => setSupplyBase ss tok (s.base + x)
  | none => ss ++ [{ tok := tok, base := 0 + x, coll := coll, row := row }]

theorem subBase_le {old x : Rat} (hx : 0 ≤ x) (ho : 0 ≤ old) : subBase NumCtx.exact old x ≤ old := by
  unfold subBase
  simp only [NumCtx.exact_sub]
  by_cases h : old - x < Gen.arMinTokenValue
  · simp [h]; exact ho
  · simp [h]; exact hx

theorem subBase_le_sub {old x : Rat} (hx : x ≤ old) : subBase NumCtx.exact old x ≤ old - x := by
  rw [subBase_exact]
  have := (snapDust_bounds hx).1
  linarith

theorem wf_putDebtBase {p : Portfolio} (hwf : p.WF) (tok : String) {b : Rat} (hb : 0 ≤ b) :
    ({ p with debts := putDebtBase p.debts tok b } : Portfolio).WF := by
  refine ⟨hwf.sup, ?_, hwf.supKeys, ?_⟩
  · intro d hd
    rcases mem_putDebtBase hd with h1 | ⟨d0, hd0, _, rfl⟩
    · exact hwf.deb d h1
    · exact ⟨hb, (hwf.deb d0 hd0).2⟩
  · exact (keys_putDebtBase_sublist _ _ _).nodup hwf.debKeys

/-- the remaining user operations, as the state changes they make when accepted -/
inductive UserStepAll : Portfolio → Portfolio → Prop
  /-- borrow / withdraw / change_collateral (`UserStep`) -/
  | risk {p q : Portfolio} : UserStep p q → UserStepAll p q
  /-- `supply(token, amount, collateral)` on top of an existing position: `x = amount / liquidity_index > 0` -/
  | supplyMore (p : Portfolio) (tok : String) (s : Supply) (x : Rat) : findSupply? p.supplies tok = some s → 0 < x →
      UserStepAll p { p with supplies := setSupplyBase p.supplies tok (s.base + x) }
  /-- `supply` of a token not yet supplied: a new entry; `collateral=True` needs `usageAsCollateralEnabled`, which the risk table
      pairs with a positive threshold -/
  | supplyNew (p : Portfolio) (tok : String) (row : Row) (coll : Bool) (x : Rat) : findSupply? p.supplies tok = none → 0 < x →
      row.WF → row.ltv ≤ row.lt → (coll = true → row.canColl = true) → (row.canColl = true → 0 < row.lt) →
      UserStepAll p { p with supplies := p.supplies ++ [{ tok := tok, base := 0 + x, coll := coll, row := row }] }
  /-- `repay(token, amount)` from the wallet: `x = payback / variable_borrow_index ≥ 0` -/
  | repay (p : Portfolio) (tok : String) (d : Debt) (x : Rat) : findDebt? p.debts tok = some d → 0 ≤ x →
      UserStepAll p { p with debts := putDebtBase p.debts tok (subBase NumCtx.exact d.base x) }
  /-- `repay(token, amount, repay_with_collateral=True, collateral_token)`: the collateral gives up `y` scaled units worth exactly
      the `x` scaled units of debt repaid (`_get_swap_amount`, fee 0); no dust is snapped off the collateral -/
  | repayCollateral (p : Portfolio) (tok ctok : String) (d : Debt) (c : Supply) (x y : Rat) :
      findDebt? p.debts tok = some d → findSupply? p.supplies ctok = some c → c.coll = true →
      0 ≤ x → x ≤ d.base → 0 ≤ y → y ≤ c.base →
      y * c.row.liqIndex * c.row.price = x * d.row.borIndex * d.row.price →
      snapDust c.base y = 0 → c.row.lt ≤ 1 →
      UserStepAll p { supplies := putSupplyBase p.supplies ctok (subBase NumCtx.exact c.base y),
                      debts := putDebtBase p.debts tok (subBase NumCtx.exact d.base x) }

inductive UserStepsAll : Portfolio → Portfolio → Prop
  | refl (p : Portfolio) : UserStepsAll p p
  | tail {p q r : Portfolio} : UserStepsAll p q → UserStepAll q r → UserStepsAll p r

theorem healthy_of_le {p q : Portfolio} (hq : q.WF) (hh : Healthy p)
    (hD : totalDebt NumCtx.exact q ≤ totalDebt NumCtx.exact p)
    (hW : totalDebt NumCtx.exact p ≤ weightedLt NumCtx.exact p → totalDebt NumCtx.exact q ≤ weightedLt NumCtx.exact q) :
    Healthy q := by
  unfold Healthy at hh ⊢
  rcases hh with h0 | hle
  · left
    have := hq.totalDebt_nonneg
    linarith
  · exact Or.inr (hW hle)

theorem totalDebt_putDebtBase {p : Portfolio} (hwf : p.WF) {d : Debt} (hd : d ∈ p.debts) (b : Rat) (ss : List Supply) :
    totalDebt NumCtx.exact ({ supplies := ss, debts := putDebtBase p.debts d.tok b } : Portfolio)
      = totalDebt NumCtx.exact p - d.base * d.row.borIndex * d.row.price + b * d.row.borIndex * d.row.price := by
  rw [totalDebt_exact, totalDebt_exact]
  simp only []
  rw [sum_putDebtBase (fun d => d.value NumCtx.exact) (fun d => by simp [Debt.value_exact]) hwf.debKeys hd]
  simp only [Debt.value_exact]

theorem UserStepAll.preserves {p q : Portfolio} (h : UserStepAll p q) (hwf : p.WF) (hs : p.Sane) (hh : Healthy p) :
    q.WF ∧ q.Sane ∧ Healthy q := by
  cases h with
  | risk hu => exact hu.preserves hwf hs hh
  | supplyMore tok s x hf hx =>
    obtain ⟨hsm, hst⟩ := mem_of_findSupply hf
    obtain ⟨hb, hr, hl⟩ := hwf.sup s hsm
    have hwf' : ({ p with supplies := setSupplyBase p.supplies tok (s.base + x) } : Portfolio).WF := by
      refine ⟨?_, hwf.deb, ?_, hwf.debKeys⟩
      · intro y hy
        simp only [] at hy
        unfold setSupplyBase at hy
        rcases mem_updFirst _ _ hy with h1 | ⟨s0, hs0, _, rfl⟩
        · exact hwf.sup y h1
        · obtain ⟨hb0, hr0, hl0⟩ := hwf.sup s0 hs0
          have e : s0 = s := eq_of_mem_of_key_eq Supply.tok hwf.supKeys hs0 hsm (by
            have : s0.tok = tok := by rename_i hq0; simpa using hq0
            rw [this, hst])
          subst e
          exact ⟨by show 0 ≤ s0.base + x; linarith, hr0, hl0⟩
      · simp only []
        unfold setSupplyBase
        have e := map_key_updFirst Supply.tok (fun y : Supply => { y with base := s.base + x }) (fun _ => rfl) tok p.supplies
        show ((updFirst (fun y : Supply => decide (y.tok = tok)) (fun y : Supply => { y with base := s.base + x }) p.supplies).map Supply.tok).Nodup
        rw [e]; exact hwf.supKeys
    refine ⟨hwf', ?_, ?_⟩
    · intro y hy
      simp only [] at hy
      unfold setSupplyBase at hy
      rcases mem_updFirst _ _ hy with h1 | ⟨s0, hs0, _, rfl⟩
      · exact hs y h1
      · exact hs s0 hs0
    · refine healthy_of_le hwf' hh (le_of_eq rfl) (fun hle => ?_)
      have hD : totalDebt NumCtx.exact ({ p with supplies := setSupplyBase p.supplies tok (s.base + x) } : Portfolio)
          = totalDebt NumCtx.exact p := rfl
      rw [hD]
      refine le_trans hle ?_
      rw [weightedLt_sum, weightedLt_sum]
      subst hst
      simp only []
      unfold setSupplyBase
      rw [sum_updFirst Supply.tok gLt _ hwf.supKeys hsm]
      have : gLt s ≤ gLt { s with base := s.base + x } := by
        unfold gLt
        simp only [Supply.value_exact]
        split
        · have h1 := hr.li_pos; have h2 := hr.price_pos; have h3 := hr.lt_nonneg
          have : 0 ≤ x * s.row.liqIndex * s.row.price * s.row.lt := by positivity
          nlinarith
        · exact le_refl _
      linarith
  | supplyNew tok row coll x hf hx hr hltv hcan htab =>
    have hwf' : ({ p with supplies := p.supplies ++ [{ tok := tok, base := 0 + x, coll := coll, row := row }] } : Portfolio).WF := by
      refine ⟨?_, hwf.deb, ?_, hwf.debKeys⟩
      · intro y hy
        simp only [List.mem_append, List.mem_singleton] at hy
        rcases hy with h1 | rfl
        · exact hwf.sup y h1
        · exact ⟨by show (0 : Rat) ≤ 0 + x; linarith, hr, fun hc => htab (hcan hc)⟩
      · simp only [List.map_append, List.map_cons, List.map_nil]
        rw [List.nodup_append]
        refine ⟨hwf.supKeys, by simp, ?_⟩
        intro a ha b hb e
        simp only [List.mem_singleton] at hb
        subst hb; subst e
        unfold findSupply? at hf
        rw [List.find?_eq_none] at hf
        obtain ⟨s0, hs0, rfl⟩ := List.mem_map.mp ha
        exact absurd (by simp) (hf s0 hs0)
    refine ⟨hwf', ?_, ?_⟩
    · intro y hy
      simp only [List.mem_append, List.mem_singleton] at hy
      rcases hy with h1 | rfl
      · exact hs y h1
      · exact hltv
    · refine healthy_of_le hwf' hh (le_of_eq rfl) (fun hle => ?_)
      have hD : totalDebt NumCtx.exact ({ p with supplies := p.supplies ++ [{ tok := tok, base := 0 + x, coll := coll, row := row }] } : Portfolio)
          = totalDebt NumCtx.exact p := rfl
      rw [hD]
      refine le_trans hle ?_
      rw [weightedLt_sum, weightedLt_sum]
      simp only [List.map_append, List.map_cons, List.map_nil, List.sum_append, List.sum_cons, List.sum_nil, add_zero]
      have : 0 ≤ gLt { tok := tok, base := 0 + x, coll := coll, row := row } := by
        unfold gLt
        simp only [Supply.value_exact]
        split
        · have h1 := hr.li_pos; have h2 := hr.price_pos; have h3 := hr.lt_nonneg
          positivity
        · exact le_refl _
      linarith
  | repay tok d x hf hx =>
    obtain ⟨hdm, hdt⟩ := mem_of_findDebt hf
    obtain ⟨hb, hr⟩ := hwf.deb d hdm
    have hwf' := wf_putDebtBase hwf tok (subBase_nonneg d.base x)
    refine ⟨hwf', hs, ?_⟩
    have hle := subBase_le hx hb
    have hD : totalDebt NumCtx.exact ({ p with debts := putDebtBase p.debts tok (subBase NumCtx.exact d.base x) } : Portfolio)
        ≤ totalDebt NumCtx.exact p := by
      subst hdt
      rw [totalDebt_putDebtBase hwf hdm]
      have h1 := hr.bi_pos; have h2 := hr.price_pos
      have : subBase NumCtx.exact d.base x * d.row.borIndex * d.row.price ≤ d.base * d.row.borIndex * d.row.price := by
        apply mul_le_mul_of_nonneg_right _ (le_of_lt h2)
        exact mul_le_mul_of_nonneg_right hle (le_of_lt h1)
      linarith
    refine healthy_of_le hwf' hh hD (fun h => le_trans hD (le_trans h (le_of_eq rfl)))
  | repayCollateral tok ctok d c x y hfd hfc hcc hx hxd hy hyc hval hdust hlt1 =>
    obtain ⟨hdm, hdt⟩ := mem_of_findDebt hfd
    obtain ⟨hcm, hct⟩ := mem_of_findSupply hfc
    obtain ⟨hdb, hdr⟩ := hwf.deb d hdm
    obtain ⟨hcb, hcr, hcl⟩ := hwf.sup c hcm
    have hwf1 := wf_putSupplyBase hwf ctok (subBase_nonneg c.base y)
    have hwf' := wf_putDebtBase hwf1 tok (subBase_nonneg d.base x)
    have hsane : ({ p with supplies := putSupplyBase p.supplies ctok (subBase NumCtx.exact c.base y) } : Portfolio).Sane :=
      sane_putSupplyBase hs ctok _
    refine ⟨hwf', hsane, ?_⟩
    have hbi := hdr.bi_pos; have hpd := hdr.price_pos; have hli := hcr.li_pos; have hpc := hcr.price_pos
    have hV : 0 ≤ x * d.row.borIndex * d.row.price := by positivity
    -- the debt falls by at least the repaid value
    have hD : totalDebt NumCtx.exact (⟨putSupplyBase p.supplies ctok (subBase NumCtx.exact c.base y), putDebtBase p.debts tok (subBase NumCtx.exact d.base x)⟩ : Portfolio)
        ≤ totalDebt NumCtx.exact p - x * d.row.borIndex * d.row.price := by
      subst hdt
      rw [totalDebt_putDebtBase hwf hdm]
      have h0 := subBase_le_sub hxd
      have : subBase NumCtx.exact d.base x * d.row.borIndex * d.row.price ≤ (d.base - x) * d.row.borIndex * d.row.price := by
        apply mul_le_mul_of_nonneg_right _ (le_of_lt hpd)
        exact mul_le_mul_of_nonneg_right h0 (le_of_lt hbi)
      nlinarith
    -- the weighted threshold falls by exactly value × LT
    have hW : weightedLt NumCtx.exact (⟨putSupplyBase p.supplies ctok (subBase NumCtx.exact c.base y), putDebtBase p.debts tok (subBase NumCtx.exact d.base x)⟩ : Portfolio)
        = weightedLt NumCtx.exact p - y * c.row.liqIndex * c.row.price * c.row.lt := by
      rw [weightedLt_sum, weightedLt_sum]
      subst hct
      simp only []
      rw [sum_putSupplyBase gLt (fun s => by unfold gLt; simp [Supply.value_exact]) hwf.supKeys hcm]
      rw [subBase_exact, hdust]
      unfold gLt
      simp only [hcc, if_true, Supply.value_exact]
      ring
    refine healthy_of_le hwf' hh (by linarith) (fun hle => ?_)
    rw [hW, hval]
    have hl0 := hcr.lt_nonneg
    nlinarith

end AaveRisk

/-- **HF ≥ 1 is kept by every accepted user operation** — borrow, withdraw, change_collateral, supply (new or top-up), repay,
    repay with collateral — in any number and order within a bar, from a well-formed healthy account. -/
theorem C11_hf_invariant_all_ops {p q : Portfolio} (hwf : p.WF) (hs : p.Sane) (hh : Healthy p) (h : UserStepsAll p q) :
    q.WF ∧ q.Sane ∧ (healthFactor NumCtx.exact q = none ∨ ∃ x, healthFactor NumCtx.exact q = some x ∧ 1 ≤ x) := by
  have key : q.WF ∧ q.Sane ∧ Healthy q := by
    induction h with
    | refl => exact ⟨hwf, hs, hh⟩
    | tail _ hstep ih => exact hstep.preserves ih.1 ih.2.1 ih.2.2
  exact ⟨key.1, key.2.1, (healthy_iff_hf key.1).mp key.2.2⟩

/-! ### the precise reading: operations are accepted while HF < 1 (prices moved at the bar start) and leave HF < 1 -/
namespace AaveRisk
/-- `c11P` after WETH fell from 1000 to 100: 10 WETH (1000 USD) against 1000 USDC, HF = 0.825 -/
def c11RowWLow : Row := { c11RowW with price := 100 }
def c11PLow : Portfolio := { supplies := [{ tok := "WETH", base := 10, coll := true, row := c11RowWLow }],
                             debts := [{ tok := "USDC", base := 1000, row := c11RowU }] }
/-- after `supply(WETH, 1)`: 11 WETH -/
def c11PLowSupplied : Portfolio := { c11PLow with supplies := setSupplyBase c11PLow.supplies "WETH" (10 + 1) }
/-- after `repay(USDC, 50)` -/
def c11PLowRepaid : Portfolio := { c11PLow with debts := putDebtBase c11PLow.debts "USDC" (subBase NumCtx.exact 1000 50) }
end AaveRisk

/-- **witness**: with HF = 0.825 at the start of a bar, `supply(WETH, 1)` and `repay(USDC, 50)` are steps the code accepts (no
    health-factor check on either path) and the health factor afterwards is still below 1 (0.9075 and 0.868…): "HF ≥ 1 after every
    accepted user operation" holds only as an invariant kept from a healthy state. -/
theorem C11_unhealthy_after_price_move_accepted :
    UserStepAll c11PLow c11PLowSupplied ∧ UserStepAll c11PLow c11PLowRepaid ∧
    (healthFactor NumCtx.exact c11PLow).ltB 1 = true ∧
    (healthFactor NumCtx.exact c11PLowSupplied).ltB 1 = true ∧ (healthFactor NumCtx.exact c11PLowRepaid).ltB 1 = true := by
  refine ⟨?_, ?_, by decide +kernel, by decide +kernel, by decide +kernel⟩
  · exact UserStepAll.supplyMore c11PLow "WETH" { tok := "WETH", base := 10, coll := true, row := c11RowWLow } 1
      (by decide +kernel) (by norm_num)
  · exact UserStepAll.repay c11PLow "USDC" { tok := "USDC", base := 1000, row := c11RowU } 50 (by decide +kernel) (by norm_num)

/-! ### non-vacuity: a healthy account, a supply, a repayment with collateral -/
example : ∃ q, UserStepsAll c11P q ∧ q ≠ c11P := by
  refine ⟨_, UserStepsAll.tail (UserStepsAll.refl _)
    (UserStepAll.supplyMore c11P "WETH" { tok := "WETH", base := 10, coll := true, row := c11RowW } 1 (by decide +kernel) (by norm_num)), ?_⟩
  decide +kernel

end Demeter
