/-
  C11 — the health factor as an invariant of operation sequences within one bar: starting from a well-formed, healthy
  account (no debt, or Σ debt ≤ Σ_coll valueᵢ·LTᵢ, i.e. HF ≥ 1), every sequence of accepted `borrow` / `withdraw` /
  `change_collateral` calls keeps it well formed and healthy.
  Side conditions of a step (all explicit in `UserStep`): the borrowed token's row is the one attached to its existing
  debt entry; a withdrawal does not leave a remainder below MIN_TOKEN_VALUE (see `C11_withdraw_hf_dust_term_needed`);
  the risk table gives a token it admits as collateral (`usageAsCollateralEnabled`) a positive liquidation threshold — a
  property of the CSV alone, re-checked by the harness on every file; `change_collateral(…, True)` itself refuses a token
  that is not admitted (repair 500c37d), so a flag that is switched on has a positive threshold *by the code's own check*.
-/
import Proofs.C11
namespace Demeter
open AaveRisk

namespace AaveRisk

/-- no debt, or `Σ debt value ≤ Σ_coll valueᵢ·LTᵢ` (health factor ≥ 1) -/
def Healthy (p : Portfolio) : Prop :=
  totalDebt NumCtx.exact p = 0 ∨ totalDebt NumCtx.exact p ≤ weightedLt NumCtx.exact p

theorem healthy_iff_hf {p : Portfolio} (hwf : p.WF) :
    Healthy p ↔ (healthFactor NumCtx.exact p = none ∨ ∃ x, healthFactor NumCtx.exact p = some x ∧ 1 ≤ x) := by
  unfold Healthy
  rw [healthFactor_exact]
  constructor
  · rintro (h | h)
    · left; rw [if_pos h]
    · by_cases h0 : totalDebt NumCtx.exact p = 0
      · left; rw [if_pos h0]
      · right
        have hpos : 0 < totalDebt NumCtx.exact p := lt_of_le_of_ne hwf.totalDebt_nonneg (Ne.symm h0)
        rw [if_neg h0]
        exact ⟨_, rfl, by rw [le_div_iff₀ hpos]; linarith⟩
  · rintro (h | ⟨x, h, hx⟩)
    · left; by_contra h0; rw [if_neg h0] at h; cases h
    · by_cases h0 : totalDebt NumCtx.exact p = 0
      · exact Or.inl h0
      · right
        have hpos : 0 < totalDebt NumCtx.exact p := lt_of_le_of_ne hwf.totalDebt_nonneg (Ne.symm h0)
        rw [if_neg h0] at h
        simp only [Option.some.injEq] at h
        rw [← h, le_div_iff₀ hpos] at hx; linarith

/-- one accepted user operation within a bar -/
inductive UserStep : Portfolio → Portfolio → Prop
  | borrow (p : Portfolio) (tok : String) (row : Row) (a : Rat) (p' : Portfolio) (x : Rat) :
      row.WF → (∀ d ∈ p.debts, d.tok = tok → d.row = row) →
      AaveRisk.borrow NumCtx.exact p tok row (some a) = .ok (p', x) → UserStep p p'
  | withdraw (p : Portfolio) (tok : String) (a : Rat) (p' : Portfolio) (x : Rat) :
      AaveRisk.withdraw NumCtx.exact p tok (some a) = .ok (p', x) →
      (∀ s, findSupply? p.supplies tok = some s → snapDust s.base (a / s.row.liqIndex) = 0) → UserStep p p'
  | changeCollateral (p : Portfolio) (tok : String) (flag : Bool) (p' : Portfolio) :
      AaveRisk.changeCollateral NumCtx.exact p tok flag = .ok p' →
      (∀ s, findSupply? p.supplies tok = some s → s.row.canColl = true → 0 < s.row.lt) → UserStep p p'

/-- any number of accepted user operations -/
inductive UserSteps : Portfolio → Portfolio → Prop
  | refl (p : Portfolio) : UserSteps p p
  | tail {p q r : Portfolio} : UserSteps p q → UserStep q r → UserSteps p r

theorem wf_addDebt {p : Portfolio} (hwf : p.WF) {tok : String} {row : Row} (hr : row.WF) {x : Rat} (hx : 0 ≤ x) :
    ({ p with debts := addDebt NumCtx.exact p.debts tok row x } : Portfolio).WF := by
  refine ⟨hwf.sup, ?_, hwf.supKeys, ?_⟩
  · intro d hd
    unfold addDebt at hd
    cases hf : findDebt? p.debts tok with
    | none =>
      rw [hf] at hd
      simp only [List.mem_append, List.mem_singleton] at hd
      rcases hd with h | rfl
      · exact hwf.deb d h
      · exact ⟨by simp only [NumCtx.exact_add]; linarith, hr⟩
    | some d0 =>
      rw [hf] at hd
      simp only [] at hd
      unfold setDebtBase at hd
      rcases mem_updFirst _ _ hd with h | ⟨d1, hd1, _, rfl⟩
      · exact hwf.deb d h
      · have hd0 := (hwf.deb d0 (mem_of_findDebt hf).1).1
        exact ⟨by simp only [NumCtx.exact_add]; linarith, (hwf.deb d1 hd1).2⟩
  · unfold addDebt
    cases hf : findDebt? p.debts tok with
    | none =>
      simp only [List.map_append, List.map_cons, List.map_nil]
      rw [List.nodup_append]
      refine ⟨hwf.debKeys, by simp, ?_⟩
      intro a ha b hb e
      simp only [List.mem_singleton] at hb
      subst hb; subst e
      exact findDebt_none hf ha
    | some d0 =>
      simp only []
      unfold setDebtBase
      have e := map_key_updFirst Debt.tok (fun d : Debt => { d with base := NumCtx.exact.add d0.base x }) (fun _ => rfl) tok p.debts
      show ((updFirst (fun d : Debt => decide (d.tok = tok)) (fun d : Debt => { d with base := NumCtx.exact.add d0.base x }) p.debts).map Debt.tok).Nodup
      rw [e]; exact hwf.debKeys

theorem wf_putSupplyBase {p : Portfolio} (hwf : p.WF) (tok : String) {b : Rat} (hb : 0 ≤ b) :
    ({ p with supplies := putSupplyBase p.supplies tok b } : Portfolio).WF := by
  refine ⟨?_, hwf.deb, ?_, hwf.debKeys⟩
  · intro s hs
    rcases mem_putSupplyBase hs with h1 | ⟨s0, hs0, _, rfl⟩
    · exact hwf.sup s h1
    · obtain ⟨_, hr, hl⟩ := hwf.sup s0 hs0
      exact ⟨hb, hr, hl⟩
  · exact (keys_putSupplyBase_sublist _ _ _).nodup hwf.supKeys

theorem sane_putSupplyBase {p : Portfolio} (hs : p.Sane) (tok : String) (b : Rat) :
    ({ p with supplies := putSupplyBase p.supplies tok b } : Portfolio).Sane := by
  intro s hsm
  rcases mem_putSupplyBase hsm with h1 | ⟨s0, hs0, _, rfl⟩
  · exact hs s h1
  · exact hs s0 hs0

theorem UserStep.preserves {p q : Portfolio} (h : UserStep p q) (hwf : p.WF) (hs : p.Sane) (hh : Healthy p) :
    q.WF ∧ q.Sane ∧ Healthy q := by
  cases h with
  | borrow tok row a _ x hr hrow hb =>
    obtain ⟨h1, _, _, _, _, _, h7⟩ := (C11_borrow_accept_iff p tok row a).mp ⟨_, hb⟩
    obtain ⟨_, hsup, htd, hf, hhf, hge⟩ := C11_borrow_hf hwf hs hr hrow hb
    have hq : q = { p with debts := addDebt NumCtx.exact p.debts tok row (a / row.borIndex) } := by
      have hT : Gen.arHfLiqThreshold = 1 := rfl
      obtain ⟨_, h2, h3, h4, h5, h6, _⟩ := (C11_borrow_accept_iff p tok row a).mp ⟨_, hb⟩
      rw [borrow_exact_eq, if_neg (not_not.mpr h1), if_neg (by simp [h2]), if_neg h3, if_neg h4,
        if_neg (by rw [hT]; simp [h5]), if_neg (not_not.mpr h6), if_neg h7] at hb
      simp only [Except.ok.injEq, Prod.mk.injEq] at hb
      exact hb.1.symm
    have hwf' : q.WF := by
      rw [hq]; exact wf_addDebt hwf hr (div_nonneg (le_of_lt h1) (le_of_lt hr.bi_pos))
    refine ⟨hwf', ?_, ?_⟩
    · intro s hsm; rw [hsup] at hsm; exact hs s hsm
    · exact (healthy_iff_hf hwf').mpr (Or.inr ⟨hf, hhf, hge⟩)
  | withdraw tok a _ x hw hnosnap =>
    obtain ⟨s, hf, h1, h2, h3, h4⟩ := (C11_withdraw_accept_iff p tok a).mp ⟨_, hw⟩
    obtain ⟨hsm, hst⟩ := mem_of_findSupply hf
    have hq : q = { p with supplies := putSupplyBase p.supplies tok (subBase NumCtx.exact s.base (a / s.row.liqIndex)) } := by
      have hT : Gen.arHfLiqThreshold = 1 := rfl
      have hw' := hw
      rw [Supply.amount_exact] at h2
      rw [withdraw_exact_eq, hf] at hw'
      simp only [] at hw'
      rw [if_neg (not_not.mpr h1), if_neg (not_not.mpr h2), if_neg h3] at hw'
      split at hw'
      · cases hw'
      · simp only [Except.ok.injEq, Prod.mk.injEq] at hw'; exact hw'.1.symm
    have hwf' : q.WF := by rw [hq]; exact wf_putSupplyBase hwf tok (subBase_nonneg _ _)
    refine ⟨hwf', by rw [hq]; exact sane_putSupplyBase hs tok _, ?_⟩
    by_cases hcoll : s.coll = true
    · obtain ⟨_, _, hkey, _⟩ := C11_withdraw_hf hwf hf hcoll hw
      rw [hnosnap s hf] at hkey
      unfold Healthy
      rcases hkey with h0 | hle
      · exact Or.inl h0
      · right; simpa using hle
    · -- a supply that is not collateral does not enter the figures
      have hc : s.coll = false := by simpa using hcoll
      have hW : weightedLt NumCtx.exact q = weightedLt NumCtx.exact p := by
        rw [hq, weightedLt_sum, weightedLt_sum]
        subst hst
        rw [sum_putSupplyBase gLt (fun x => by unfold gLt; simp [Supply.value_exact]) hwf.supKeys hsm]
        unfold gLt; simp [hc]
      have hD : totalDebt NumCtx.exact q = totalDebt NumCtx.exact p := by rw [hq]; rfl
      unfold Healthy; rw [hW, hD]; exact hh
  | changeCollateral tok flag _ hc hlt =>
    obtain ⟨hcases, hpost⟩ := (C11_change_collateral p tok flag).2 q hc
    rcases hcases with rfl | hq
    · exact ⟨hwf, hs, hh⟩
    · have hex : ∃ s, findSupply? p.supplies tok = some s := by
        obtain ⟨s, hs', _⟩ := ((C11_change_collateral p tok flag).1).mp ⟨q, hc⟩
        exact ⟨s, hs'⟩
      obtain ⟨s, hf⟩ := hex
      obtain ⟨hsm, hst⟩ := mem_of_findSupply hf
      have hwf' : q.WF := by
        rw [hq]
        refine ⟨?_, hwf.deb, ?_, hwf.debKeys⟩
        · intro y hy
          simp only [] at hy
          unfold setSupplyColl at hy
          rcases mem_updFirst _ _ hy with h1 | ⟨s0, hs0, hq0, rfl⟩
          · exact hwf.sup y h1
          · obtain ⟨hb0, hr0, _⟩ := hwf.sup s0 hs0
            refine ⟨hb0, hr0, ?_⟩
            intro hfl
            have hk : s0.tok = tok := by simpa using hq0
            have : s0 = s := eq_of_mem_of_key_eq Supply.tok hwf.supKeys hs0 hsm (by rw [hk, hst])
            rw [this]
            have hfl' : flag = true := hfl
            cases hcs : s.coll with
            | true => exact (hwf.sup s hsm).2.2 hcs
            | false => exact hlt s hf (hpost.2 s hf hcs hfl')
        · simp only []
          unfold setSupplyColl
          have e := map_key_updFirst Supply.tok (fun s : Supply => { s with coll := flag }) (fun _ => rfl) tok p.supplies
          show ((updFirst (fun s : Supply => decide (s.tok = tok)) (fun s : Supply => { s with coll := flag }) p.supplies).map Supply.tok).Nodup
          rw [e]; exact hwf.supKeys
      have hsane : q.Sane := by
        rw [hq]
        intro y hy
        simp only [] at hy
        unfold setSupplyColl at hy
        rcases mem_updFirst _ _ hy with h1 | ⟨s0, hs0, _, rfl⟩
        · exact hs y h1
        · exact hs s0 hs0
      refine ⟨hwf', hsane, ?_⟩
      cases hflag : flag with
      | false =>
        by_cases hcoll : s.coll = true
        · have := hpost.1 s hf hcoll hflag
          have hT : Gen.arHfLiqThreshold = 1 := rfl
          exact le_of_hf_not_lt_one hwf'.totalDebt_nonneg (by rw [hT]; exact this)
        · -- switching off a supply that is not collateral: same flag, handled above (p' = p); here the list is unchanged in value
          have hcf : s.coll = false := by simpa using hcoll
          have hW : weightedLt NumCtx.exact q = weightedLt NumCtx.exact p := by
            rw [hq, weightedLt_sum, weightedLt_sum]
            subst hst
            simp only []
            unfold setSupplyColl
            rw [sum_updFirst Supply.tok gLt _ hwf.supKeys hsm]
            unfold gLt; simp [hcf, hflag]
          have hD : totalDebt NumCtx.exact q = totalDebt NumCtx.exact p := by rw [hq]; rfl
          unfold Healthy; rw [hW, hD]; exact hh
      | true =>
        -- switching on: the weighted threshold can only grow
        have hW : weightedLt NumCtx.exact p ≤ weightedLt NumCtx.exact q := by
          rw [hq, weightedLt_sum, weightedLt_sum]
          subst hst
          simp only []
          unfold setSupplyColl
          rw [sum_updFirst Supply.tok gLt _ hwf.supKeys hsm]
          have h1 : gLt s ≤ gLt { s with coll := flag } := by
            unfold gLt
            rw [hflag]
            simp only [if_true]
            have hv := hwf.supply_value_nonneg hsm
            have hl := (hwf.sup s hsm).2.1.lt_nonneg
            split
            · exact le_refl _
            · exact mul_nonneg hv hl
          linarith
        have hD : totalDebt NumCtx.exact q = totalDebt NumCtx.exact p := by rw [hq]; rfl
        unfold Healthy at hh ⊢
        rw [hD]
        rcases hh with h0 | hle
        · exact Or.inl h0
        · exact Or.inr (le_trans hle hW)

end AaveRisk

/-- **HF ≥ 1 is an invariant of accepted user operations**: from a well-formed account with sane risk parameters that
    has no debt or a health factor ≥ 1, every sequence of accepted `borrow` / `withdraw` / `change_collateral` calls
    (within a bar, side conditions in `UserStep`) leads to a well-formed account that has no debt or a health factor ≥ 1. -/
theorem C11_hf_invariant {p q : Portfolio} (hwf : p.WF) (hs : p.Sane) (hh : Healthy p) (h : UserSteps p q) :
    q.WF ∧ q.Sane ∧ (healthFactor NumCtx.exact q = none ∨ ∃ x, healthFactor NumCtx.exact q = some x ∧ 1 ≤ x) := by
  have key : q.WF ∧ q.Sane ∧ Healthy q := by
    induction h with
    | refl => exact ⟨hwf, hs, hh⟩
    | tail _ hstep ih => exact hstep.preserves ih.1 ih.2.1 ih.2.2
  exact ⟨key.1, key.2.1, (healthy_iff_hf key.1).mp key.2.2⟩

/-! ### non-vacuity: borrow 5000, then withdraw 2 WETH, from `c11P` -/
namespace AaveRisk
example : c11P.WF ∧ Healthy c11P := by
  refine ⟨?_, Or.inr (by decide +kernel)⟩
  refine ⟨?_, ?_, by decide, by decide⟩
  · intro s hs
    simp only [c11P, List.mem_singleton] at hs
    subst hs
    refine ⟨by decide +kernel, ⟨?_, ?_, ?_, ?_, ?_, ?_⟩, fun _ => ?_⟩ <;> decide +kernel
  · intro s hs
    simp only [c11P, List.mem_singleton] at hs
    subst hs
    refine ⟨by decide +kernel, ⟨?_, ?_, ?_, ?_, ?_, ?_⟩⟩ <;> decide +kernel

example : ∃ q, UserSteps c11P q ∧ q.debts ≠ c11P.debts := by
  have hchk : (match AaveRisk.borrow NumCtx.exact c11P "USDC" c11RowU (some 5000) with
      | .ok r => decide (r.1.debts ≠ c11P.debts) | _ => false) = true := by decide +kernel
  cases h : AaveRisk.borrow NumCtx.exact c11P "USDC" c11RowU (some 5000) with
  | error c => rw [h] at hchk; cases hchk
  | ok r =>
    rw [h] at hchk
    refine ⟨r.1, UserSteps.tail (UserSteps.refl _) (UserStep.borrow c11P "USDC" c11RowU 5000 r.1 r.2 ?_ ?_ h), by simpa using hchk⟩
    · refine ⟨?_, ?_, ?_, ?_, ?_, ?_⟩ <;> decide +kernel
    · intro d hd _
      simp only [c11P, List.mem_singleton] at hd
      subst hd; rfl
end AaveRisk

end Demeter
