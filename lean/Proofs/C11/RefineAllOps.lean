/-
  C11 — the tie of `UserStepAll.repay` to the cache-carrying state machine (which is compared bit-exactly with the code): an accepted
  cash `repay` of the state machine, in a coherent state, is a `UserStepAll.repay` step of the projected portfolio — so
  `UserStepAll.preserves` applies to it: an account with HF ≥ 1 (or no debt) still has it after the repayment, as its own
  `health_factor` view shows (`C11_sm_figures_refine`).  The corresponding transfer for `supply` and `repay` with collateral is not
  proved here (their post-states are `Aave.supply_inv` / `Aave.repay_inv`).
-/
import Proofs.C11.AllOps
import Proofs.C11.RefineInvariant
namespace Demeter
open Aave M

variable {env : Env}

/-- **an accepted cash repayment on the state machine is a `repay` step of the risk model** -/
theorem C11_sm_repay_is_user_step {s s' : St} (hs : Good aaveExact env s) {tok : String} {amount? : Option Rat}
    (h : repay aaveExact env tok amount? false none s = (.ok (), s')) :
    AaveRisk.UserStepAll (proj env s) (proj env s') := by
  obtain ⟨st, info, payback, nb, _, hst, _, hg, _, hpos, hnb, hcash, _⟩ := repay_inv hs h
  obtain ⟨w', _, hcore⟩ := hcash rfl
  have hsup : s'.supplies = s.supplies := congrArg Core.supplies hcore
  have hbor : s'.borrows = borAfterSub s.borrows tok info nb := congrArg Core.borrows hcore
  have hp : proj env s' = (⟨(proj env s).supplies, AaveRisk.putDebtBase (proj env s).debts tok
      (AaveRisk.subBase NumCtx.exact info.base (aaveExact.div payback st.varIdx))⟩ : AaveRisk.Portfolio) := by
    unfold proj projPos
    rw [hsup, hbor]
    unfold borAfterSub
    rw [put_proj_debt s.borrows tok info nb hg hs.2.nd, hnb, subBase_eq]
    rfl
  rw [hp]
  refine AaveRisk.UserStepAll.repay (proj env s) tok (projBor env (tok, info)) (aaveExact.div payback st.varIdx) ?_ (le_of_lt hpos)
  rw [show (proj env s).debts = s.borrows.map (projBor env) from rfl, findDebt_proj, hg]
  rfl

/-- … hence it keeps "no debt or HF ≥ 1" -/
theorem C11_sm_repay_keeps_healthy {s s' : St} (hs : Good aaveExact env s) (hwf : (proj env s).WF) (hsane : (proj env s).Sane)
    (hh : AaveRisk.Healthy (proj env s)) {tok : String} {amount? : Option Rat}
    (h : repay aaveExact env tok amount? false none s = (.ok (), s')) :
    (proj env s').WF ∧ AaveRisk.Healthy (proj env s') := by
  have := (C11_sm_repay_is_user_step hs h).preserves hwf hsane hh
  exact ⟨this.1, this.2.2⟩

/-- **an accepted `supply` on top of an existing position is a `supplyMore` step of the risk model** (positive liquidity index) -/
theorem C11_sm_supply_more_is_user_step {s s' : St} {tok : String} {amount : Rat} {coll : Bool} {info : SupplyInfo}
    (hg : AList.get? s.supplies tok = some info) (hli : ∀ st, env.statusOf tok = .ok st → 0 < st.liqIdx)
    (h : supply aaveExact env tok amount coll s = (.ok (), s')) :
    AaveRisk.UserStepAll (proj env s) (proj env s') := by
  obtain ⟨st, w', _, hpos, hst, _, _, _, hcore⟩ := supply_inv h
  have hsup : s'.supplies = AList.set s.supplies tok { info with base := info.base + amount / st.liqIdx } := by
    have := congrArg Core.supplies hcore
    rw [hg] at this
    exact this
  have hbor : s'.borrows = s.borrows := congrArg Core.borrows hcore
  have hp : proj env s' = (⟨AaveRisk.setSupplyBase (proj env s).supplies tok ((projSup env (tok, info)).base + amount / st.liqIdx),
      (proj env s).debts⟩ : AaveRisk.Portfolio) := by
    unfold proj projPos
    rw [hsup, hbor, set_proj_supply_base s.supplies tok info _ hg]
    rfl
  rw [hp]
  refine AaveRisk.UserStepAll.supplyMore (proj env s) tok (projSup env (tok, info)) (amount / st.liqIdx) ?_
    (div_pos hpos (hli st hst))
  rw [show (proj env s).supplies = s.supplies.map (projSup env) from rfl, findSupply_proj, hg]
  rfl

/-! ### non-vacuity: on the bar and account of `C11.Refine` (coherent: shown there) with 50 USDC / 1 WETH in the wallet, a cash repayment
    of 50 USDC and a supply of 1 more WETH are accepted -/
def c11rStFunded : St := { c11rSt with wallet := [("USDC", 50), ("WETH", 1)] }

example : (match repay aaveExact c11rEnv "USDC" (some 50) false none c11rStFunded with
    | (.ok (), s') => decide (s'.borrows = [("USDC", ⟨50, 1⟩)]) | _ => false) = true := by decide +kernel
example : (match supply aaveExact c11rEnv "WETH" 1 true c11rStFunded with
    | (.ok (), s') => decide (s'.supplies = [("WETH", ⟨10 + 1 / (11/10), true, 1⟩)]) | _ => false) = true := by decide +kernel

end Demeter
