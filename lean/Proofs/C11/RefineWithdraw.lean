/-
  C11 — refinement, continued: `withdraw` of the cache-carrying state machine simulates `withdraw` of the risk model.
  The interesting part is the trial deduction: while `health_factor` is evaluated, `_supplies` holds the reduced balance
  and `_supplies_cache` is stale (the state is *not* coherent at that moment); the figure is nevertheless the risk
  model's health factor of `withdrawTrial`, because `health_factor` reads only the three value caches, two of which were
  just reset and the third of which belongs to the untouched borrow side.
-/
import Proofs.C11.Refine
namespace Demeter
open Aave M

variable {cx : ACtx} {env : Env}

namespace Aave

/-- `health_factor` needs less than full coherence: the listing caches (`_supplies_cache`, `_borrows_cache`) may be stale -/
theorem healthFactor_runW {s : St} (nd : (keys s.supplies).Nodup) (cv : Covers env s.supplies)
    (sa : CohC s.supAmtC (specSupAmt cx env s.supplies)) (co : CohC s.collC (specColl cx env s.supplies))
    (gb : GoodB cx env s) :
    (healthFactor cx env s).1 = .ok (toX (AaveRisk.healthFactor cx.toNumCtx (projPos env s.supplies s.borrows))) := by
  obtain ⟨cs, c', hcs, _, hrun⟩ := collateralValue_run nd cv sa co
  unfold healthFactor
  rw [run_bind_ok hrun]
  obtain ⟨vs, hvs, hrun2⟩ := borrowsValue_run (cx := cx) (env := env)
    (s := { s with supAmtC := c', collC := cacheOf cs }) gb.nd gb.cv gb.ba
  rw [run_bind_ok hrun2]
  show hfOf cx env cs vs = _
  rw [specColl_proj cv] at hcs
  cases hcs
  have hvs' : specBorAmt cx env s.borrows = .ok vs := hvs
  rw [specBorAmt_proj gb.cv] at hvs'
  cases hvs'
  exact hfOf_proj s.borrows cv

/-- `AaveRisk.withdraw` with an explicit amount, as the chain of its refusals -/
theorem risk_withdraw_eq (nc : NumCtx) (p : AaveRisk.Portfolio) (tok : String) (a : Rat) :
    AaveRisk.withdraw nc p tok (some a) =
      match AaveRisk.findSupply? p.supplies tok with
      | none => .error .notSupplied
      | some s =>
        if ¬ (0 < a) then .error .invalidAmount else
        if ¬ (a ≤ s.amount nc) then .error .overBalance else
        if s.row.liqIndex = 0 then .error .arith else
        if s.coll = true ∧ (AaveRisk.healthFactor nc (AaveRisk.withdrawTrial nc p s a)).ltB Gen.arHfLiqThreshold = true then
          .error .hfLowAfter else
        .ok ({ p with supplies := AaveRisk.putSupplyBase p.supplies tok (AaveRisk.subBase nc s.base (nc.div a s.row.liqIndex)) }, a) := rfl

theorem run_bind_assoc {α β γ : Type} (m : M α) (g : α → M β) (f : β → M γ) (s : St) :
    ((m >>= g) >>= f) s = (m >>= fun a => g a >>= f) s := by
  rw [run_bind, run_bind, run_bind]
  rcases m s with ⟨r, s'⟩
  cases r <;> rfl

theorem subSupplyAmount_ok {t : St} {tok : String} {info : SupplyInfo} {st : TokStatus}
    (hg : AList.get? t.supplies tok = some info) (h1 : env.statusOf tok = .ok st) (hli : st.liqIdx ≠ 0) (a : Rat) :
    subSupplyAmount cx env tok a t = (.ok (subBase cx info.base (cx.div a st.liqIdx)),
      (commitSubSupply tok info (subBase cx info.base (cx.div a st.liqIdx)) t).2) := by
  unfold subSupplyAmount
  rw [run_bind_queryPos_ok (a := some info) (by rw [hg])]
  simp only [h1]
  rw [run_bind_ofRes_ok]
  simp only [divE, if_neg hli]
  rw [run_bind_ofRes_ok]
  rfl

theorem subSupplyAmount_divZero {t : St} {tok : String} {info : SupplyInfo} {st : TokStatus}
    (hg : AList.get? t.supplies tok = some info) (h1 : env.statusOf tok = .ok st) (hli : st.liqIdx = 0) (a : Rat) :
    subSupplyAmount cx env tok a t = (.error .divZero, t) := by
  unfold subSupplyAmount
  rw [run_bind_queryPos_ok (a := some info) (by rw [hg])]
  simp only [h1]
  rw [run_bind_ofRes_ok]
  simp only [divE, if_pos hli]
  rfl

theorem getSupply_missing {s : St} {tok : String} (hg : AList.get? s.supplies tok = none) :
    getSupply cx env tok s = (.error .keySupply, s) := by
  unfold getSupply
  rw [run_bind_queryPos_err (e := .keySupply) (by simp [hg, optRes])]

/-- the part of `withdraw` after the health-factor check: `__sub_supply_amount`, wallet credit, record, `has_update` -/
theorem withdraw_tail {t : St} {tok : String} {info : SupplyInfo} {st : TokStatus}
    (hg : AList.get? t.supplies tok = some info) (h1 : env.statusOf tok = .ok st) (hli : st.liqIdx ≠ 0) (a : Rat) :
    ∃ t', (do
        let fin ← subSupplyAmount cx env tok a
        walletCredit cx tok a
        record (.withdraw tok a (cx.mul fin st.liqIdx))
        setUpdated) t = (.ok (), t') ∧
      t'.supplies = (if subBase cx info.base (cx.div a st.liqIdx) = 0 then AList.erase t.supplies tok
        else AList.set t.supplies tok { info with base := subBase cx info.base (cx.div a st.liqIdx) }) ∧
      t'.borrows = t.borrows ∧ t'.wallet = Wallet.credit cx.toNumCtx t.wallet tok a := by
  rw [run_bind_ok (subSupplyAmount_ok hg h1 hli a)]
  exact ⟨_, rfl, rfl, rfl, rfl⟩

end Aave

/-- **`withdraw` of the state machine simulates `withdraw` of the risk model** (explicit amount, open market, a token the
    bar has data for): accepted iff the risk model accepts on the projected portfolio — then the new positions project to
    the risk model's new portfolio, the debts are untouched and the wallet is credited with the amount —, otherwise
    refused with the corresponding exception, positions/wallet/log intact (the trial deduction is undone). -/
theorem C11_sm_withdraw_refines {s : St} (hs : Good cx env s) (hopen : env.isOpen = true) {tok : String}
    (hd : HasData env tok) (a : Rat) :
    match AaveRisk.withdraw cx.toNumCtx (proj env s) tok (some a) with
    | .ok (p', x) => ∃ s', withdraw cx env tok (some a) s = (.ok (), s') ∧ proj env s' = p' ∧ x = a ∧
        s'.borrows = s.borrows ∧ s'.wallet = Wallet.credit cx.toNumCtx s.wallet tok a
    | .error c => ∃ s', withdraw cx env tok (some a) s = (.error (errOfCause c), s') ∧ s'.frame = s.frame := by
  obtain ⟨⟨st, h1⟩, ⟨pr, h2⟩, ⟨r, h3⟩⟩ := hd
  have hrow := rowOf_eq h1 h2 h3
  have hat : At cx env s.frame s := ⟨hs, rfl⟩
  rw [risk_withdraw_eq, show (proj env s).supplies = s.supplies.map (projSup env) from rfl, findSupply_proj]
  unfold withdraw guardOpen
  rw [run_bind_require_true hopen, h1, run_bind_ofRes_ok]
  cases hg : AList.get? s.supplies tok with
  | none =>
    simp only [Option.map_none]
    exact ⟨s, by rw [run_bind_err (getSupply_missing hg)]; rfl, rfl⟩
  | some info =>
    simp only [Option.map_some]
    obtain ⟨sa, ea, hata⟩ := run_getSupply hat (show AList.get? s.frame.supplies tok = some info from hg)
    rw [run_bind_ok ea]
    have hsa : sa.supplies = s.supplies := hata.sup
    have hba : sa.borrows = s.borrows := hata.bor
    have hwa : sa.wallet = s.wallet := congrArg Frame.wallet hata.2
    have hamt : (supViewOf cx env (tok, info)).amount = (projSup env (tok, info)).amount cx.toNumCtx := rfl
    have hli' : (projSup env (tok, info)).row.liqIndex = st.liqIdx := by simp only [projSup, hrow]
    have hcl : (projSup env (tok, info)).coll = info.coll := rfl
    have hbs : (projSup env (tok, info)).base = info.base := rfl
    simp only [Option.getD_some, hamt, hli', hcl, hbs]
    by_cases ha : 0 < a
    swap
    · rw [if_pos ha]
      exact ⟨sa, by rw [run_bind_require_false (by simpa using ha)]; rfl, hata.2⟩
    rw [if_neg (not_not.mpr ha), run_bind_require_true (by simpa using ha)]
    by_cases hle : a ≤ (projSup env (tok, info)).amount cx.toNumCtx
    swap
    · rw [if_pos hle]
      exact ⟨sa, by rw [run_bind_require_false (by simpa using hle)]; rfl, hata.2⟩
    rw [if_neg (not_not.mpr hle), run_bind_require_true (by simpa using hle)]
    unfold lookupSupply
    rw [run_bind_queryPos_ok (a := info) (by rw [hsa]; simp [hg, optRes])]
    have hga : AList.get? sa.supplies tok = some info := by rw [hsa]; exact hg
    unfold checkWithdrawHf
    by_cases hli : st.liqIdx = 0
    · -- a zero liquidity index: the division raises, before the trial (collateral) or inside `__sub_supply_amount`
      rw [if_pos hli]
      refine ⟨sa, ?_, hata.2⟩
      cases hcoll : info.coll
      · simp only [Bool.false_eq_true, if_false]
        rw [run_bind_pure, run_bind_err (subSupplyAmount_divZero hga h1 hli a)]
        rfl
      · simp only [if_true, divE, if_pos hli]
        rfl
    rw [if_neg hli]
    cases hcoll : info.coll
    · -- not a collateral: no health-factor check
      simp only [Bool.false_eq_true, false_and, if_false]
      rw [run_bind_pure]
      obtain ⟨t', et, ts, tb, tw⟩ := withdraw_tail (cx := cx) hga h1 hli a
      refine ⟨t', et, ?_, trivial, by rw [tb, hba], by rw [tw, hwa]⟩
      show projPos env t'.supplies t'.borrows = _
      unfold projPos proj projPos
      rw [ts, tb, hsa, hba, put_proj_supply _ _ _ _ hg hs.1.nd, subBase_eq]
    · -- a collateral: the trial deduction
      simp only [if_true, true_and, divE, if_neg hli]
      rw [run_bind_assoc, run_bind_ofRes_ok, run_bind_assoc]
      -- the state during the trial
      have gS : GoodS cx env sa := hata.1.1
      have gB : GoodB cx env sa := hata.1.2
      have hdt : HasData env tok := ⟨⟨st, h1⟩, ⟨pr, h2⟩, ⟨r, h3⟩⟩
      have hf1 := healthFactor_runW (cx := cx) (env := env)
        (s := trialSet tok { info with base := cx.sub info.base (cx.div a st.liqIdx) } sa)
        (nodup_set gS.nd _ _) (covers_set gS.cv hdt _) (CohC.fresh _) (CohC.fresh _) (gB.congr rfl rfl rfl)
      have hkeep := healthFactor_keeps (cx := cx) (env := env)
        (trialSet tok { info with base := cx.sub info.base (cx.div a st.liqIdx) } sa)
      have hpin := inv_trial (cx := cx) (env := env) hga (cx.sub info.base (cx.div a st.liqIdx)) sa ⟨hata.1, rfl, rfl⟩
      have hptrial : projPos env (trialSet tok { info with base := cx.sub info.base (cx.div a st.liqIdx) } sa).supplies
          (trialSet tok { info with base := cx.sub info.base (cx.div a st.liqIdx) } sa).borrows =
          AaveRisk.withdrawTrial cx.toNumCtx (proj env s) (projSup env (tok, info)) a := by
        show projPos env (AList.set sa.supplies tok _) sa.borrows = _
        unfold projPos AaveRisk.withdrawTrial proj projPos
        rw [hsa, hba, set_proj_supply_base _ _ _ _ hg, hli']
        rfl
      rw [hptrial] at hf1
      -- run the trial
      have htr : trialHealthFactor cx env tok info (cx.sub info.base (cx.div a st.liqIdx)) sa =
          (.ok (toX (AaveRisk.healthFactor cx.toNumCtx (AaveRisk.withdrawTrial cx.toNumCtx (proj env s) (projSup env (tok, info)) a))),
            (trialHealthFactor cx env tok info (cx.sub info.base (cx.div a st.liqIdx)) sa).2) := by
        have : (trialHealthFactor cx env tok info (cx.sub info.base (cx.div a st.liqIdx)) sa).1 =
            (healthFactor cx env (trialSet tok { info with base := cx.sub info.base (cx.div a st.liqIdx) } sa)).1 := by
          unfold trialHealthFactor
          rw [run_bind_modify]
          unfold finally'
          rfl
        rw [← hf1, ← this]
      have hs3sup : (trialHealthFactor cx env tok info (cx.sub info.base (cx.div a st.liqIdx)) sa).2.supplies = sa.supplies := hpin.2.1
      have hs3bor : (trialHealthFactor cx env tok info (cx.sub info.base (cx.div a st.liqIdx)) sa).2.borrows = sa.borrows := hpin.2.2
      have hs3fr : (trialHealthFactor cx env tok info (cx.sub info.base (cx.div a st.liqIdx)) sa).2.frame = sa.frame := by
        have e : (trialHealthFactor cx env tok info (cx.sub info.base (cx.div a st.liqIdx)) sa).2 =
            trialSet tok info (healthFactor cx env (trialSet tok { info with base := cx.sub info.base (cx.div a st.liqIdx) } sa)).2 := by
          unfold trialHealthFactor
          rw [run_bind_modify]
          exact finally'_snd _ _ _
        have k := hkeep.1
        show Frame.mk _ _ _ _ _ = Frame.mk _ _ _ _ _
        rw [hs3sup, hs3bor, e]
        have kw := congrArg Frame.wallet k
        have ka := congrArg Frame.actions k
        have ku := congrArg Frame.hasUpdate k
        simp only [St.frame] at kw ka ku
        show Frame.mk sa.supplies sa.borrows
          (healthFactor cx env (trialSet tok { info with base := cx.sub info.base (cx.div a st.liqIdx) } sa)).2.wallet
          (healthFactor cx env (trialSet tok { info with base := cx.sub info.base (cx.div a st.liqIdx) } sa)).2.actions
          (healthFactor cx env (trialSet tok { info with base := cx.sub info.base (cx.div a st.liqIdx) } sa)).2.hasUpdate = _
        rw [kw, ka, ku]
        rfl
      generalize (trialHealthFactor cx env tok info (cx.sub info.base (cx.div a st.liqIdx)) sa).2 = s3 at htr hs3sup hs3bor hs3fr
      rw [run_bind_ok htr, toX_ltR, consts_agree.1]
      cases hlt : (AaveRisk.healthFactor cx.toNumCtx
          (AaveRisk.withdrawTrial cx.toNumCtx (proj env s) (projSup env (tok, info)) a)).ltB Gen.arHfLiqThreshold
      · simp only [Bool.false_eq_true, if_false, Bool.not_false]
        rw [run_bind_require_true rfl]
        have hg3 : AList.get? s3.supplies tok = some info := by rw [hs3sup]; exact hga
        obtain ⟨t', et, ts, tb, tw⟩ := withdraw_tail (cx := cx) hg3 h1 hli a
        refine ⟨t', et, ?_, trivial, by rw [tb, hs3bor, hba], ?_⟩
        · show projPos env t'.supplies t'.borrows = _
          unfold projPos proj projPos
          rw [ts, tb, hs3sup, hs3bor, hsa, hba, put_proj_supply _ _ _ _ hg hs.1.nd, subBase_eq]
        · rw [tw, show s3.wallet = sa.wallet from congrArg Frame.wallet hs3fr, hwa]
      · simp only [if_true, Bool.not_true]
        exact ⟨s3, by rw [run_bind_require_false rfl]; rfl, hs3fr.trans hata.2⟩

/-- **HF ≥ 1 after a collateral withdrawal accepted by the state machine** (exact arithmetic, whatever caches were warm):
    the debts are untouched and, unless `sub_base_amount` snapped dust away, an account with debt ends with health
    factor ≥ 1 — `C11_withdraw_hf` transferred along the simulation. -/
theorem C11_sm_withdraw_hf {env : Env} {s s' : St} (hs : Good aaveExact env s) (hopen : env.isOpen = true)
    {tok : String} (hd : HasData env tok) (hwf : (proj env s).WF) {info : SupplyInfo}
    (hg : AList.get? s.supplies tok = some info) (hcoll : info.coll = true) {a : Rat}
    (h : withdraw aaveExact env tok (some a) s = (.ok (), s')) :
    (proj env s').debts = (proj env s).debts ∧
    (AaveRisk.snapDust info.base (a / (rowOf env tok).liqIndex) = 0 → 0 < AaveRisk.totalDebt NumCtx.exact (proj env s') →
      ∃ hf, AaveRisk.healthFactor NumCtx.exact (proj env s') = some hf ∧ 1 ≤ hf) := by
  have key := C11_sm_withdraw_refines hs hopen hd a
  have hfind : AaveRisk.findSupply? (proj env s).supplies tok = some (projSup env (tok, info)) := by
    rw [show (proj env s).supplies = s.supplies.map (projSup env) from rfl, findSupply_proj, hg]; rfl
  cases hr : AaveRisk.withdraw aaveExact.toNumCtx (proj env s) tok (some a) with
  | error c =>
    rw [hr] at key
    obtain ⟨s'', e, _⟩ := key
    rw [h] at e
    cases e
  | ok r =>
    obtain ⟨p', x⟩ := r
    rw [hr] at key
    obtain ⟨s'', e, hp, _, _, _⟩ := key
    rw [h] at e
    cases e
    obtain ⟨_, hdebts, _, hhf⟩ := C11_withdraw_hf hwf hfind hcoll hr
    rw [hp]
    exact ⟨hdebts, hhf⟩

end Demeter
