/-
  C11 — the helpers `get_max_borrow_amount` / `get_max_withdraw_amount`: their amounts are accepted, bounded by the
  supply, and amounts beyond the limit are rejected (exact context); the finding that under the 35-digit Decimal
  rounding the max-withdraw amount can be refused is kept as a machine-checked witness.
-/
import Proofs.C11
namespace Demeter
open AaveRisk

namespace AaveRisk

theorem maxBorrowAmount_exact_eq (p : Portfolio) (row : Row) :
    maxBorrowAmount NumCtx.exact p row =
      if totalCollateral NumCtx.exact p = 0 then .error .arith else
      if row.price = 0 then .error .arith else
      .ok ((totalCollateral NumCtx.exact p * (weightedLtv NumCtx.exact p / totalCollateral NumCtx.exact p)
              - totalDebt NumCtx.exact p) * Gen.arMaxBorrowMargin / row.price) := rfl

theorem borrow_none_eq {p : Portfolio} (tok : String) {row : Row} {a : Rat} (h : maxBorrowAmount NumCtx.exact p row = .ok a) :
    borrow NumCtx.exact p tok row none = borrow NumCtx.exact p tok row (some a) := by
  unfold borrow; rw [h]; rfl

theorem minWithdrawKept_exact_eq (p : Portfolio) (s : Supply) :
    minWithdrawKept NumCtx.exact p s =
      if s.coll = false then .ok 0 else
      if s.row.lt = 0 then .error .arith else
      if s.row.price = 0 then .error .arith else
      .ok ((Gen.arHfLiqThreshold * totalDebt NumCtx.exact p - othersLt NumCtx.exact p s.tok) / s.row.lt / s.row.price) := rfl

theorem maxWithdrawAmount_exact_eq (p : Portfolio) (tok : String) :
    maxWithdrawAmount NumCtx.exact p tok =
      match findSupply? p.supplies tok with
      | none => .error .notSupplied
      | some s =>
        match minWithdrawKept NumCtx.exact p s with
        | .error c => .error c
        | .ok kept => .ok (s.base * s.row.liqIndex - (if kept > 0 then kept else 0)) := by
  unfold maxWithdrawAmount
  cases findSupply? p.supplies tok with
  | none => rfl
  | some s =>
    simp only []
    cases minWithdrawKept NumCtx.exact p s <;> rfl

/-- the weighted threshold on the portfolio `withdraw` evaluates -/
theorem weightedLt_withdrawTrial {p : Portfolio} (hwf : p.WF) {s : Supply} (hs : s ∈ p.supplies) (a : Rat) :
    weightedLt NumCtx.exact (withdrawTrial NumCtx.exact p s a)
      = weightedLt NumCtx.exact p - gLt s + gLt { s with base := s.base - a / s.row.liqIndex } := by
  rw [weightedLt_sum, weightedLt_sum]
  unfold withdrawTrial setSupplyBase
  exact sum_updFirst Supply.tok gLt _ hwf.supKeys hs

theorem gLt_le_weightedLt {p : Portfolio} (hwf : p.WF) {s : Supply} (hs : s ∈ p.supplies) :
    gLt s ≤ weightedLt NumCtx.exact p := by
  rw [weightedLt_sum]; exact le_sum_map_of_mem gLt _ (fun x hx => hwf.gLt_nonneg hx) hs

end AaveRisk

/-! ## max borrow -/

/-- **The helper's value**: `get_max_borrow_amount = (collateral × weighted max-LTV − debt) × 0.99 / price`. -/
theorem C11_max_borrow_value {p : Portfolio} {row : Row} {a : Rat} (h : maxBorrowAmount NumCtx.exact p row = .ok a) :
    Gen.arMaxBorrowMargin = 99 / 100 ∧ totalCollateral NumCtx.exact p ≠ 0 ∧ row.price ≠ 0
    ∧ a = (weightedLtv NumCtx.exact p - totalDebt NumCtx.exact p) * (99 / 100) / row.price := by
  rw [maxBorrowAmount_exact_eq] at h
  split at h; · cases h
  split at h; · cases h
  rename_i h1 h2
  simp only [Except.ok.injEq] at h
  refine ⟨by unfold Gen.arMaxBorrowMargin; norm_num, h1, h2, ?_⟩
  rw [← h]
  have : totalCollateral NumCtx.exact p * (weightedLtv NumCtx.exact p / totalCollateral NumCtx.exact p)
      = weightedLtv NumCtx.exact p := by field_simp
  rw [this]; unfold Gen.arMaxBorrowMargin; norm_num

/-- **The max-borrow amount is accepted** (when it is positive and the token can be borrowed), both when passed
    explicitly and as `borrow(token, None)`. -/
theorem C11_max_borrow_accepted {p : Portfolio} (hwf : p.WF) (hs : p.Sane) (tok : String) {row : Row} (hr : row.WF)
    (hcb : row.canBorrow = true) {a : Rat} (hmax : maxBorrowAmount NumCtx.exact p row = .ok a) (ha : 0 < a) :
    ∃ p', borrow NumCtx.exact p tok row (some a) = .ok (p', a) ∧ borrow NumCtx.exact p tok row none = .ok (p', a) := by
  obtain ⟨_, htc, _, hval⟩ := C11_max_borrow_value hmax
  have hp := hr.price_pos
  have htc0 : 0 < totalCollateral NumCtx.exact p := lt_of_le_of_ne hwf.totalCollateral_nonneg (Ne.symm htc)
  have hB := hwf.totalDebt_nonneg
  -- a × price = 0.99 × (Wltv − B)
  have hav : a * row.price = (weightedLtv NumCtx.exact p - totalDebt NumCtx.exact p) * (99 / 100) := by
    rw [hval]; field_simp
  have hgap : 0 < weightedLtv NumCtx.exact p - totalDebt NumCtx.exact p := by
    have : 0 < a * row.price := by positivity
    rw [hav] at this; linarith
  have hW : 0 < weightedLtv NumCtx.exact p := by linarith
  have hm : 0 < weightedLtv NumCtx.exact p / totalCollateral NumCtx.exact p := div_pos hW htc0
  have hle := hwf.weightedLtv_le_weightedLt hs
  have hT : Gen.arHfLiqThreshold = 1 := rfl
  have hhf : (healthFactor NumCtx.exact p).gtB Gen.arHfLiqThreshold = true := by
    rw [healthFactor_exact]
    split
    · rfl
    · rename_i hne
      have hBpos : 0 < totalDebt NumCtx.exact p := lt_of_le_of_ne hB (Ne.symm hne)
      simp only [XRat.gtB, decide_eq_true_eq]
      rw [hT, lt_div_iff₀ hBpos]; linarith
  have hcov : (totalDebt NumCtx.exact p + a * row.price) / (weightedLtv NumCtx.exact p / totalCollateral NumCtx.exact p)
      ≤ totalCollateral NumCtx.exact p := by
    rw [div_le_iff₀ hm, hav]
    have : totalCollateral NumCtx.exact p * (weightedLtv NumCtx.exact p / totalCollateral NumCtx.exact p)
        = weightedLtv NumCtx.exact p := by field_simp
    rw [this]; linarith
  refine ⟨{ p with debts := addDebt NumCtx.exact p.debts tok row (a / row.borIndex) }, ?_, ?_⟩
  · rw [borrow_exact_eq, if_neg (not_not.mpr ha), if_neg (by simp [hcb]), if_neg htc, if_neg (ne_of_gt hm),
      if_neg (by simp [hhf]), if_neg (not_not.mpr hcov), if_neg (ne_of_gt hr.bi_pos)]
  · rw [borrow_none_eq tok hmax, borrow_exact_eq, if_neg (not_not.mpr ha), if_neg (by simp [hcb]), if_neg htc,
      if_neg (ne_of_gt hm), if_neg (by simp [hhf]), if_neg (not_not.mpr hcov), if_neg (ne_of_gt hr.bi_pos)]

/-! ## max withdraw -/

/-- **The max-withdraw amount never exceeds what is supplied** (repaired: the kept amount is floored at 0). -/
theorem C11_max_withdraw_le_supplied {p : Portfolio} {tok : String} {a : Rat}
    (h : maxWithdrawAmount NumCtx.exact p tok = .ok a) :
    ∃ s, findSupply? p.supplies tok = some s ∧ a ≤ s.amount NumCtx.exact ∧ a ≤ supplyAmountOf NumCtx.exact p tok := by
  rw [maxWithdrawAmount_exact_eq] at h
  cases hf : findSupply? p.supplies tok with
  | none => rw [hf] at h; cases h
  | some s =>
    rw [hf] at h
    simp only [] at h
    cases hk : minWithdrawKept NumCtx.exact p s with
    | error c => rw [hk] at h; cases h
    | ok kept =>
      rw [hk] at h
      simp only [Except.ok.injEq] at h
      have hle : a ≤ s.amount NumCtx.exact := by
        rw [Supply.amount_exact, ← h]
        split
        · rename_i hpos; linarith
        · linarith
      refine ⟨s, rfl, hle, ?_⟩
      unfold supplyAmountOf; rw [hf]; exact hle

/-- **The max-withdraw amount is accepted** in exact arithmetic.  (`_partial`: under the 35-digit Decimal rounding the
    implementation can refuse it, `C11_fails_max_withdraw_rounded`; known finding `max_withdraw.rejected-by-rounding`.)
    Full statement that fails on the code: `∀ p tok a, maxWithdrawAmount NumCtx.py p tok = .ok a → 0 < a →
    ∃ r, withdraw NumCtx.py p tok (some a) = .ok r`. -/
theorem C11_max_withdraw_accepted_partial {p : Portfolio} (hwf : p.WF) {tok : String} {a : Rat}
    (hmax : maxWithdrawAmount NumCtx.exact p tok = .ok a) (ha : 0 < a) :
    ∃ p', withdraw NumCtx.exact p tok (some a) = .ok (p', a) := by
  obtain ⟨s, hf, hle, _⟩ := C11_max_withdraw_le_supplied hmax
  obtain ⟨hsm, hst⟩ := mem_of_findSupply hf
  obtain ⟨hb, hr, hlt⟩ := hwf.sup s hsm
  have hli := hr.li_pos
  have hacc : ∃ r, withdraw NumCtx.exact p tok (some a) = .ok r := by
    rw [C11_withdraw_accept_iff]
    refine ⟨s, hf, ha, hle, ne_of_gt hli, ?_⟩
    intro hcoll
    have hT : Gen.arHfLiqThreshold = 1 := rfl
    rw [← hT]
    apply hf_not_lt_one_of_le
    · exact hwf.totalDebt_nonneg
    · have hd : totalDebt NumCtx.exact (withdrawTrial NumCtx.exact p s a) = totalDebt NumCtx.exact p := rfl
      rw [hd, weightedLt_withdrawTrial hwf hsm]
      -- the helper's value
      rw [maxWithdrawAmount_exact_eq, hf] at hmax
      simp only [] at hmax
      rw [minWithdrawKept_exact_eq, if_neg (by simp [hcoll]), if_neg (ne_of_gt (hlt hcoll)), if_neg (ne_of_gt hr.price_pos)] at hmax
      simp only [Except.ok.injEq] at hmax
      have hoth := othersLt_exact hwf.supKeys hsm
      have hltpos := hlt hcoll
      have hpr := hr.price_pos
      set kept := (Gen.arHfLiqThreshold * totalDebt NumCtx.exact p - othersLt NumCtx.exact p s.tok) / s.row.lt / s.row.price with hkept
      have hk : kept * s.row.price * s.row.lt = totalDebt NumCtx.exact p - othersLt NumCtx.exact p s.tok := by
        rw [hkept, hT]; field_simp
      have hg : gLt { s with base := s.base - a / s.row.liqIndex }
          = (s.base * s.row.liqIndex - a) * s.row.price * s.row.lt := by
        unfold gLt; simp only [hcoll, if_true, Supply.value_exact]; field_simp
      rw [hg, ← hoth]
      have hK : kept ≤ s.base * s.row.liqIndex - a := by
        rw [← hmax]; split
        · linarith
        · rename_i hn; linarith [not_lt.mp hn]
      have : kept * s.row.price * s.row.lt ≤ (s.base * s.row.liqIndex - a) * s.row.price * s.row.lt := by
        apply mul_le_mul_of_nonneg_right _ (le_of_lt hltpos)
        exact mul_le_mul_of_nonneg_right hK (le_of_lt hpr)
      linarith
  obtain ⟨r, hr'⟩ := hacc
  refine ⟨r.1, ?_⟩
  have := hr'
  rw [withdraw_exact_eq, hf] at this
  simp only [] at this
  split at this; · cases this
  split at this; · cases this
  split at this; · cases this
  split at this; · cases this
  simp only [Except.ok.injEq] at this
  rw [hr', ← this]

/-- **Beyond the max-withdraw amount the withdrawal is rejected.** -/
theorem C11_withdraw_beyond_max_rejected {p : Portfolio} (hwf : p.WF) {tok : String} {m a : Rat}
    (hmax : maxWithdrawAmount NumCtx.exact p tok = .ok m) (hgt : m < a) :
    ∃ c, withdraw NumCtx.exact p tok (some a) = .error c := by
  cases hw : withdraw NumCtx.exact p tok (some a) with
  | error c => exact ⟨c, rfl⟩
  | ok r =>
    exfalso
    obtain ⟨s, hf, ha, hle, hli0, h4⟩ := (C11_withdraw_accept_iff p tok a).mp ⟨r, hw⟩
    obtain ⟨hsm, hst⟩ := mem_of_findSupply hf
    obtain ⟨hb, hr, hlt⟩ := hwf.sup s hsm
    rw [Supply.amount_exact] at hle
    rw [maxWithdrawAmount_exact_eq, hf] at hmax
    simp only [] at hmax
    rw [minWithdrawKept_exact_eq] at hmax
    by_cases hcoll : s.coll = true
    · rw [if_neg (by simp [hcoll]), if_neg (ne_of_gt (hlt hcoll)), if_neg (ne_of_gt hr.price_pos)] at hmax
      simp only [Except.ok.injEq] at hmax
      have hT : Gen.arHfLiqThreshold = 1 := rfl
      have hltpos := hlt hcoll
      have hpr := hr.price_pos
      have hli := hr.li_pos
      set kept := (Gen.arHfLiqThreshold * totalDebt NumCtx.exact p - othersLt NumCtx.exact p s.tok) / s.row.lt / s.row.price with hkept
      have hk : kept * s.row.price * s.row.lt = totalDebt NumCtx.exact p - othersLt NumCtx.exact p s.tok := by
        rw [hkept, hT]; field_simp
      by_cases hkp : kept > 0
      · rw [if_pos hkp] at hmax
        -- trial: B ≤ Wlt(trial) or B = 0
        have hoth := othersLt_exact hwf.supKeys hsm
        have hoth0 : 0 ≤ othersLt NumCtx.exact p s.tok := by
          rw [hoth]; have := gLt_le_weightedLt hwf hsm; linarith
        have hBpos : 0 < totalDebt NumCtx.exact p := by
          have : 0 < kept * s.row.price * s.row.lt := by positivity
          rw [hk] at this; linarith
        have htr := le_of_hf_not_lt_one (p := withdrawTrial NumCtx.exact p s a) hwf.totalDebt_nonneg (by rw [hT]; exact h4 hcoll)
        have hd : totalDebt NumCtx.exact (withdrawTrial NumCtx.exact p s a) = totalDebt NumCtx.exact p := rfl
        rw [hd, weightedLt_withdrawTrial hwf hsm] at htr
        have hg : gLt { s with base := s.base - a / s.row.liqIndex }
            = (s.base * s.row.liqIndex - a) * s.row.price * s.row.lt := by
          unfold gLt; simp only [hcoll, if_true, Supply.value_exact]; field_simp
        rw [hg, ← hoth] at htr
        rcases htr with h0 | hle2
        · linarith
        · have hlt2 : (s.base * s.row.liqIndex - a) * s.row.price * s.row.lt < kept * s.row.price * s.row.lt := by
            apply mul_lt_mul_of_pos_right _ hltpos
            apply mul_lt_mul_of_pos_right _ hpr
            linarith
          linarith
      · rw [if_neg hkp] at hmax; linarith
    · have hc : s.coll = false := by simpa using hcoll
      rw [if_pos hc] at hmax
      simp only [Except.ok.injEq, gt_iff_lt, lt_self_iff_false, if_false, sub_zero] at hmax
      linarith

/-! ## the rounding finding, machine-checked -/
namespace AaveRisk
/-- `get_max_withdraw_amount(WETH)` of `c11P` (10 WETH at 1000 USD, LT 0.825, debt 1000 USDC) under CPython's rounding -/
def c11MaxW : Rat := 87878787878787878787878787878787879 / 10000000000000000000000000000000000

theorem c11P_wf : c11P.WF := by
  refine ⟨?_, ?_, by decide, by decide⟩
  · intro s hs
    simp only [c11P, List.mem_singleton] at hs
    subst hs
    refine ⟨by decide +kernel, ⟨?_, ?_, ?_, ?_, ?_, ?_⟩, fun _ => ?_⟩ <;> decide +kernel
  · intro s hs
    simp only [c11P, List.mem_singleton] at hs
    subst hs
    refine ⟨by decide +kernel, ⟨?_, ?_, ?_, ?_, ?_, ?_⟩⟩ <;> decide +kernel
end AaveRisk

/-- **Finding (known: `max_withdraw.rejected-by-rounding`)**: under the 35-digit half-even rounding of CPython's Decimal
    the property "the max-withdraw amount is itself accepted" is false: for 10 WETH at 1000 USD (LT 0.825) against
    1000 USDC the helper returns 8.7878…79 and withdrawing exactly that is refused (HF after = 1 − 4·10⁻³⁵). -/
theorem C11_fails_max_withdraw_rounded :
    ¬ (∀ (p : Portfolio) (tok : String) (a : Rat), p.WF → maxWithdrawAmount NumCtx.py p tok = .ok a → 0 < a →
        ∃ r, withdraw NumCtx.py p tok (some a) = .ok r) := by
  intro h
  have h1 : maxWithdrawAmount NumCtx.py c11P "WETH" = .ok c11MaxW := by decide +kernel
  have h2 : withdraw NumCtx.py c11P "WETH" (some c11MaxW) = .error .hfLowAfter := by decide +kernel
  obtain ⟨r, hr⟩ := h c11P "WETH" c11MaxW c11P_wf h1 (by decide +kernel)
  rw [h2] at hr; cases hr

/-! ### non-vacuity -/
namespace AaveRisk
example : maxBorrowAmount NumCtx.exact c11P c11RowU = .ok 6930 := by decide +kernel
example : maxWithdrawAmount NumCtx.exact c11P "WETH" = .ok (290 / 33) := by decide +kernel
example : c11P.Sane := by
  intro s hs
  simp only [c11P, List.mem_singleton] at hs
  subst hs; decide +kernel
end AaveRisk

end Demeter
