/-
  C11 — "after every accepted user operation an account with debt has health factor ≥ 1", on the cache-carrying state
  machine: `C11_hf_invariant` (risk model) transferred along the simulation theorems `C11_sm_borrow_refines`,
  `C11_sm_withdraw_refines`, `C11_sm_change_collateral_refines`, for histories inside one bar that interleave accepted
  `borrow` / `withdraw` / `change_collateral` calls with arbitrary reads of the derived views (which warm caches in any
  pattern) — the class of histories in which a stale cache could let an operation through.
-/
import Proofs.C11.RefineWithdraw
import Proofs.C11.Invariant
import Proofs.C13
namespace Demeter
open Aave M

/-- the bar's data is well formed for every token it lists: positive indices and price, non-negative risk parameters -/
def Aave.EnvWF (env : Env) : Prop := ∀ k, HasData env k → (rowOf env k).WF

/-- one step of a user's history inside a bar, on the state machine (exact arithmetic): an accepted risk-increasing call
    (with the side conditions of `AaveRisk.UserStep`), or a read of any derived view -/
inductive Aave.SmUserStep (env : Env) : St → St → Prop
  | borrow {s s' : St} (tok : String) (a : Rat) : HasData env tok →
      borrow aaveExact env tok (some a) s = (.ok (), s') → SmUserStep env s s'
  | withdraw {s s' : St} (tok : String) (a : Rat) : HasData env tok →
      withdraw aaveExact env tok (some a) s = (.ok (), s') →
      (∀ info, AList.get? s.supplies tok = some info → AaveRisk.snapDust info.base (a / (rowOf env tok).liqIndex) = 0) →
      SmUserStep env s s'
  | changeCollateral {s s' : St} (tok : String) (flag : Bool) :
      changeCollateral aaveExact env tok flag s = (.ok (), s') →
      ((rowOf env tok).canColl = true → 0 < (rowOf env tok).lt) → SmUserStep env s s'
  | read (s : St) (v : View) : SmUserStep env s (step aaveExact env s (.read v)).2

inductive Aave.SmUserSteps (env : Env) : St → St → Prop
  | refl (s : St) : SmUserSteps env s s
  | tail {s t u : St} : SmUserSteps env s t → SmUserStep env t u → SmUserSteps env s u

variable {env : Env}

/-- a step of the state machine is a step of the risk model on the projected portfolio (or leaves it unchanged), and
    keeps the state coherent -/
theorem Aave.smUserStep_sim (hE : EnvOK env) (hopen : env.isOpen = true) (hW : EnvWF env) {t u : St}
    (ht : Good aaveExact env t) (h : SmUserStep env t u) :
    Good aaveExact env u ∧ (proj env u = proj env t ∨ AaveRisk.UserStep (proj env t) (proj env u)) := by
  cases h with
  | borrow tok a hd hb =>
    have hg : Good aaveExact env (borrow aaveExact env tok (some a) t).2 := inv_borrow hE tok (some a) t ht
    rw [hb] at hg
    refine ⟨hg, Or.inr ?_⟩
    have key := C11_sm_borrow_refines ht hopen hd a
    cases hr : AaveRisk.borrow aaveExact.toNumCtx (proj env t) tok (rowOf env tok) (some a) with
    | error c =>
      rw [hr] at key
      obtain ⟨s'', e, _⟩ := key
      rw [hb] at e; cases e
    | ok r =>
      obtain ⟨p', x⟩ := r
      rw [hr] at key
      obtain ⟨s'', e, hp, _⟩ := key
      rw [hb] at e; cases e
      rw [hp]
      refine AaveRisk.UserStep.borrow _ tok (rowOf env tok) a p' x (hW tok hd) ?_ hr
      intro d hdm hdt
      obtain ⟨⟨k, i⟩, _, rfl⟩ := List.mem_map.mp (show d ∈ t.borrows.map (projBor env) from hdm)
      show rowOf env k = rowOf env tok
      rw [show k = tok from hdt]
  | withdraw tok a hd hwd hdust =>
    have hg : Good aaveExact env (withdraw aaveExact env tok (some a) t).2 := inv_withdraw tok (some a) t ht
    rw [hwd] at hg
    refine ⟨hg, Or.inr ?_⟩
    have key := C11_sm_withdraw_refines ht hopen hd a
    cases hr : AaveRisk.withdraw aaveExact.toNumCtx (proj env t) tok (some a) with
    | error c =>
      rw [hr] at key
      obtain ⟨s'', e, _⟩ := key
      rw [hwd] at e; cases e
    | ok r =>
      obtain ⟨p', x⟩ := r
      rw [hr] at key
      obtain ⟨s'', e, hp, _⟩ := key
      rw [hwd] at e; cases e
      rw [hp]
      refine AaveRisk.UserStep.withdraw _ tok a p' x hr ?_
      intro sp hsp
      rw [show (proj env t).supplies = t.supplies.map (projSup env) from rfl, findSupply_proj] at hsp
      cases hg' : AList.get? t.supplies tok with
      | none => rw [hg'] at hsp; cases hsp
      | some info =>
        rw [hg'] at hsp
        simp only [Option.map_some, Option.some.injEq] at hsp
        subst hsp
        exact hdust info hg'
  | changeCollateral tok flag hcc hlt =>
    have hg : Good aaveExact env (changeCollateral aaveExact env tok flag t).2 := inv_changeCollateral tok flag t ht
    rw [hcc] at hg
    refine ⟨hg, Or.inr ?_⟩
    have key := C11_sm_change_collateral_refines ht hopen tok flag
    cases hr : AaveRisk.changeCollateral aaveExact.toNumCtx (proj env t) tok flag with
    | error c =>
      rw [hr] at key
      obtain ⟨s'', e, _⟩ := key
      rw [hcc] at e; cases e
    | ok p' =>
      rw [hr] at key
      obtain ⟨s'', e, hp, _⟩ := key
      rw [hcc] at e; cases e
      rw [hp]
      refine AaveRisk.UserStep.changeCollateral _ tok flag p' hr ?_
      intro sp hsp hcan
      rw [show (proj env t).supplies = t.supplies.map (projSup env) from rfl, findSupply_proj] at hsp
      cases hg' : AList.get? t.supplies tok with
      | none => rw [hg'] at hsp; cases hsp
      | some info =>
        rw [hg'] at hsp
        simp only [Option.map_some, Option.some.injEq] at hsp
        subst hsp
        exact hlt hcan
  | read v =>
    obtain ⟨_, h2, h3⟩ := C13_read_eq_scratch t ht v
    refine ⟨readInv_good.readView v t ht, Or.inl ?_⟩
    unfold proj
    rw [h2, h3]

/-- **HF ≥ 1 after every accepted user operation, on the state machine**: from a coherent state of a well-formed bar whose
    account is well formed, has sane risk parameters and no debt or health factor ≥ 1, every history of accepted
    `borrow` / `withdraw` / `change_collateral` calls interleaved with arbitrary reads (any caches warm at any time) ends
    in a coherent state whose account has no debt or health factor ≥ 1 — and that is what its `health_factor` view shows
    (`C11_sm_figures_refine`). -/
theorem C11_sm_hf_invariant (hE : EnvOK env) (hopen : env.isOpen = true) (hW : EnvWF env) {s s' : St}
    (hs : Good aaveExact env s) (hwf : (proj env s).WF) (hsane : (proj env s).Sane) (hh : AaveRisk.Healthy (proj env s))
    (h : SmUserSteps env s s') :
    Good aaveExact env s' ∧ (proj env s').WF ∧
      (AaveRisk.healthFactor NumCtx.exact (proj env s') = none ∨
        ∃ x, AaveRisk.healthFactor NumCtx.exact (proj env s') = some x ∧ 1 ≤ x) := by
  have key : Good aaveExact env s' ∧ AaveRisk.UserSteps (proj env s) (proj env s') := by
    induction h with
    | refl => exact ⟨hs, AaveRisk.UserSteps.refl _⟩
    | tail _ hstep ih =>
      obtain ⟨hg, hu⟩ := ih
      obtain ⟨hg', hstep'⟩ := smUserStep_sim hE hopen hW hg hstep
      refine ⟨hg', ?_⟩
      rcases hstep' with he | hst
      · rw [he]; exact hu
      · exact AaveRisk.UserSteps.tail hu hst
  obtain ⟨q1, _, q3⟩ := C11_hf_invariant hwf hsane hh key.2
  exact ⟨key.1, q1, q3⟩

/-! ### non-vacuity: the hypotheses hold for the bar and the account of `C11.Refine` (coherence: shown there) -/

example : EnvWF c11rEnv := by
  intro k hk
  obtain ⟨⟨st, h⟩, _, _⟩ := hk
  unfold Env.statusOf c11rEnv at h
  by_cases h1 : k = "WETH"
  · subst h1; constructor <;> (simp [rowOf, c11rEnv, AList.get?]) <;> norm_num
  · by_cases h2 : k = "USDC"
    · subst h2; constructor <;> (simp [rowOf, c11rEnv, AList.get?]) <;> norm_num
    · exfalso; simp [aget_cons, optRes, Ne.symm h1, Ne.symm h2] at h

example : AaveRisk.Healthy (proj c11rEnv c11rSt) := Or.inr (by decide +kernel)

example : (proj c11rEnv c11rSt).Sane := by
  intro sp hsp
  simp only [proj, projPos, c11rSt, St.init, List.map_cons, List.map_nil, List.mem_singleton] at hsp
  subst hsp
  simp [projSup, rowOf, c11rEnv, AList.get?]
  norm_num

/-- a history exists: any read is a step -/
example : SmUserSteps c11rEnv c11rSt (step aaveExact c11rEnv c11rSt (.read .healthFactor)).2 :=
  .tail (.refl _) (.read _ _)

end Demeter
