/-
  C11 — refinement: the cache-carrying state machine `Demeter.Aave` (the model C10/C13/C04 are stated for, tied to
  `AaveV3Market` step by step by `driver_aave`) *simulates* the pure risk model `Demeter.AaveRisk` (the model the C11
  limit theorems are stated for) under the abstraction map

        proj env s  =  { supplies := s.supplies.map (entry ↦ entry + its token's row of the bar),
                         debts    := s.borrows.map  (…) }                      (`Proofs/Lemmas/AaveRefine.lean`)

  In every coherent state (`Good`: what `C13_coherent` proves of every reachable state), for every arithmetic context:

    * the figures read from the state machine — whatever mixture of warm and cold caches they meet — are the risk
      model's figures of the projected portfolio                                           (`C11_sm_figures_refine`);
    * `borrow` / `change_collateral` / `withdraw` of the state machine are accepted exactly when the risk model accepts
      them on the projected portfolio, refuse with the corresponding exception otherwise, and the projection of the state
      they leave is the risk model's new portfolio (`C11_sm_borrow_refines`, `C11_sm_change_collateral_refines`,
      `C11_sm_withdraw_refines`).

  Consequently the C11 theorems (stated over `AaveRisk`) speak about the state machine as well; two of them are
  transferred explicitly at the end (`C11_sm_borrow_only_if_covered`, `C11_sm_borrow_beyond_limit_rejected`).
-/
import Proofs.Lemmas.AaveRefineOps
import Proofs.C11
import Proofs.C10
namespace Demeter
open Aave M

variable {cx : ACtx} {env : Env}

namespace Aave

theorem run_bind_require_true {β : Type} {c : Bool} (hc : c = true) (e : Err) (f : Unit → M β) (s : St) :
    (M.require c e >>= f) s = f () s := by subst hc; rfl

theorem run_bind_require_false {β : Type} {c : Bool} (hc : c = false) (e : Err) (f : Unit → M β) (s : St) :
    (M.require c e >>= f) s = (.error e, s) := by subst hc; rfl

theorem run_bind_ofRes_ok {α β : Type} (a : α) (f : α → M β) (s : St) : (M.ofRes (.ok a) >>= f) s = f a s := rfl
theorem run_bind_pure {α β : Type} (a : α) (f : α → M β) (s : St) : ((pure a : M α) >>= f) s = f a s := rfl
theorem run_bind_modify {β : Type} (g : St → St) (f : Unit → M β) (s : St) : (M.modify g >>= f) s = f () (g s) := rfl
theorem run_bind_queryPos_ok {α β : Type} {q : AList String SupplyInfo → AList String BorrowInfo → Res α}
    {a : α} {s : St} (h : q s.supplies s.borrows = .ok a) (f : α → M β) : (M.queryPos q >>= f) s = f a s := by
  show (match M.queryPos q s with | (.ok a, s') => f a s' | (.error e, s') => (.error e, s')) = _
  rw [run_queryPos, h]

/-- `AaveRisk.borrow` with an explicit amount, as the chain of its refusals -/
theorem risk_borrow_eq (nc : NumCtx) (p : AaveRisk.Portfolio) (tok : String) (row : AaveRisk.Row) (a : Rat) :
    AaveRisk.borrow nc p tok row (some a) =
      if ¬ (0 < a) then .error .invalidAmount else
      if row.canBorrow = false then .error .borrowDisabled else
      if AaveRisk.totalCollateral nc p = 0 then .error .noCollateral else
      if nc.div (AaveRisk.weightedLtv nc p) (AaveRisk.totalCollateral nc p) = 0 then .error .ltvZero else
      if (AaveRisk.healthFactor nc p).gtB Gen.arHfLiqThreshold = false then .error .hfLow else
      if ¬ (nc.div (nc.add (AaveRisk.totalDebt nc p) (nc.mul a row.price))
              (nc.div (AaveRisk.weightedLtv nc p) (AaveRisk.totalCollateral nc p)) ≤ AaveRisk.totalCollateral nc p) then
        .error .notCovered else
      if row.borIndex = 0 then .error .arith else
      .ok ({ p with debts := AaveRisk.addDebt nc p.debts tok row (nc.div a row.borIndex) }, a) := rfl

theorem sum_borViews (bor : AList String BorrowInfo) (sup : AList String SupplyInfo) :
    dsum cx ((vals (bor.map (fun p => (p.1, borViewOf cx env p)))).map (·.value)) =
      AaveRisk.totalDebt cx.toNumCtx (projPos env sup bor) := by
  unfold vals AaveRisk.totalDebt projPos
  simp only [List.map_map, Function.comp_def, borViewOf]
  rfl

end Aave

/-- **the figures of the state machine are the risk model's figures of the projected portfolio**, in every coherent
    state and for every arithmetic context; reading them changes nothing but caches. -/
theorem C11_sm_figures_refine (s : St) (hs : Good cx env s) :
    (∃ s', healthFactor cx env s = (.ok (toX (AaveRisk.healthFactor cx.toNumCtx (proj env s))), s') ∧
        Good cx env s' ∧ s'.frame = s.frame) ∧
    (∃ s', maxLtv cx env s = (.ok (toX (AaveRisk.maxLtv cx.toNumCtx (proj env s))), s') ∧
        Good cx env s' ∧ s'.frame = s.frame) := by
  have hat : At cx env s.frame s := ⟨hs, rfl⟩
  obtain ⟨s1, e1, h1⟩ := run_healthFactor hat
  obtain ⟨s2, e2, h2⟩ := run_maxLtv hat
  exact ⟨⟨s1, e1, h1.1, h1.2⟩, ⟨s2, e2, h2.1, h2.2⟩⟩

/-- **`borrow` of the state machine simulates `borrow` of the risk model** (explicit amount, open market, a token the
    bar has data for): accepted iff the risk model accepts on the projected portfolio — then the new positions project
    to the risk model's new portfolio, the supplies are untouched and the wallet is credited with the amount —,
    otherwise refused with the exception that corresponds to the risk model's cause, positions/wallet/log intact. -/
theorem C11_sm_borrow_refines {s : St} (hs : Good cx env s) (hopen : env.isOpen = true) {tok : String}
    (hd : HasData env tok) (a : Rat) :
    match AaveRisk.borrow cx.toNumCtx (proj env s) tok (rowOf env tok) (some a) with
    | .ok (p', x) => ∃ s', borrow cx env tok (some a) s = (.ok (), s') ∧ proj env s' = p' ∧ x = a ∧
        s'.supplies = s.supplies ∧ s'.wallet = Wallet.credit cx.toNumCtx s.wallet tok a
    | .error c => ∃ s', borrow cx env tok (some a) s = (.error (errOfCause c), s') ∧ s'.frame = s.frame := by
  obtain ⟨⟨st, h1⟩, ⟨pr, h2⟩, ⟨r, h3⟩⟩ := hd
  have hrow := rowOf_eq h1 h2 h3
  have hat : At cx env s.frame s := ⟨hs, rfl⟩
  obtain ⟨s1, e1, hat1⟩ := run_collateralValue hat
  obtain ⟨s2, e2, hat2⟩ := run_maxLtv hat1
  obtain ⟨s3, e3, hat3⟩ := run_healthFactor hat2
  obtain ⟨s4, e4, hat4⟩ := run_borrowsView hat3
  have hP : projPos env s.frame.supplies s.frame.borrows = proj env s := rfl
  rw [hP] at e2 e3
  have htc : dsum cx (vals (collVals cx env s.frame.supplies)) = AaveRisk.totalCollateral cx.toNumCtx (proj env s) :=
    totalColl_proj s.supplies s.borrows
  have htd := sum_borViews (cx := cx) (env := env) s.frame.borrows s.frame.supplies
  rw [hP] at htd
  rw [risk_borrow_eq]
  unfold borrow guardOpen borrowAmountOf
  rw [run_bind_require_true hopen, run_bind_pure]
  by_cases ha : 0 < a
  swap
  · rw [if_pos ha]
    exact ⟨s, by rw [run_bind_require_false (by simpa using ha)]; rfl, rfl⟩
  rw [if_neg (not_not.mpr ha), run_bind_require_true (by simpa using ha), h1, run_bind_ofRes_ok, h3, run_bind_ofRes_ok]
  have hcb : (rowOf env tok).canBorrow = r.canBorrow := by rw [hrow]
  rw [hcb]
  cases hb : r.canBorrow
  · rw [if_pos rfl]
    exact ⟨s, by rw [run_bind_require_false rfl]; rfl, rfl⟩
  rw [if_neg (by simp), run_bind_require_true rfl, run_bind_ok e1, htc]
  by_cases hc0 : AaveRisk.totalCollateral cx.toNumCtx (proj env s) = 0
  · rw [if_pos hc0]
    exact ⟨s1, by rw [run_bind_require_false (by simp [hc0])]; rfl, hat1.2⟩
  rw [if_neg hc0, run_bind_require_true (by simp [hc0]), run_bind_ok e2]
  have hml : AaveRisk.maxLtv cx.toNumCtx (proj env s) =
      some (cx.div (AaveRisk.weightedLtv cx.toNumCtx (proj env s)) (AaveRisk.totalCollateral cx.toNumCtx (proj env s))) := by
    unfold AaveRisk.maxLtv AaveRisk.safeDiv; rw [if_neg hc0]
  rw [hml]
  by_cases hm0 : cx.div (AaveRisk.weightedLtv cx.toNumCtx (proj env s)) (AaveRisk.totalCollateral cx.toNumCtx (proj env s)) = 0
  · rw [if_pos hm0]
    exact ⟨s2, by rw [run_bind_require_false (by simp [toX, XRat.ne0, hm0])]; rfl, hat2.2⟩
  rw [if_neg hm0, run_bind_require_true (by simp [toX, XRat.ne0, hm0]), run_bind_ok e3, toX_gtR, consts_agree.1]
  cases hh : (AaveRisk.healthFactor cx.toNumCtx (proj env s)).gtB Gen.arHfLiqThreshold
  · rw [if_pos rfl]
    exact ⟨s3, by rw [run_bind_require_false rfl]; rfl, hat3.2⟩
  rw [if_neg (by simp), run_bind_require_true rfl, h2, run_bind_ofRes_ok, run_bind_ok e4, htd]
  have hpr : (rowOf env tok).price = pr := by rw [hrow]
  have hbi : (rowOf env tok).borIndex = st.varIdx := by rw [hrow]
  rw [hpr, hbi]
  have hdivX : divX cx (cx.add (AaveRisk.totalDebt cx.toNumCtx (proj env s)) (cx.mul a pr))
      (toX (some (cx.div (AaveRisk.weightedLtv cx.toNumCtx (proj env s)) (AaveRisk.totalCollateral cx.toNumCtx (proj env s))))) =
      .ok (cx.div (cx.add (AaveRisk.totalDebt cx.toNumCtx (proj env s)) (cx.mul a pr))
        (cx.div (AaveRisk.weightedLtv cx.toNumCtx (proj env s)) (AaveRisk.totalCollateral cx.toNumCtx (proj env s)))) := by
    simp only [toX, divX, divE, if_neg hm0]
  rw [hdivX, run_bind_ofRes_ok]
  by_cases hcov : cx.div (cx.add (AaveRisk.totalDebt cx.toNumCtx (proj env s)) (cx.mul a pr))
        (cx.div (AaveRisk.weightedLtv cx.toNumCtx (proj env s)) (AaveRisk.totalCollateral cx.toNumCtx (proj env s))) ≤
        AaveRisk.totalCollateral cx.toNumCtx (proj env s)
  swap
  · rw [if_pos hcov]
    exact ⟨s4, by rw [run_bind_require_false (by simpa using hcov)]; rfl, hat4.2⟩
  rw [if_neg (not_not.mpr hcov), run_bind_require_true (by simpa using hcov)]
  by_cases hi0 : st.varIdx = 0
  · rw [if_pos hi0]
    refine ⟨s4, ?_, hat4.2⟩
    simp only [divE, if_pos hi0]
    rfl
  rw [if_neg hi0]
  simp only [divE, if_neg hi0]
  rw [run_bind_ofRes_ok, run_bind_queryPos_ok (a := AList.get? s4.borrows tok) rfl]
  refine ⟨_, rfl, ?_, trivial, ?_, ?_⟩
  · show projPos env s4.supplies (AList.set s4.borrows tok _) = _
    unfold projPos proj
    rw [hat4.sup, hat4.bor]
    congr 1
    rw [borrowEntry_proj]
    rfl
  · show s4.supplies = s.supplies
    exact hat4.sup
  · show Wallet.credit cx.toNumCtx s4.wallet tok a = _
    rw [show s4.wallet = s.wallet from congrArg Frame.wallet hat4.2]

namespace Aave

theorem run_bind_queryPos_err {α β : Type} {q : AList String SupplyInfo → AList String BorrowInfo → Res α}
    {e : Err} {s : St} (h : q s.supplies s.borrows = .error e) (f : α → M β) : (M.queryPos q >>= f) s = (.error e, s) := by
  show (match M.queryPos q s with | (.ok a, s') => f a s' | (.error e, s') => (.error e, s')) = _
  rw [run_queryPos, h]

theorem aset_set {ν : Type} (m : AList String ν) (k : String) (v' v : ν) :
    AList.set (AList.set m k v') k v = AList.set m k v := by
  induction m with
  | nil => simp [AList.set]
  | cons p rest ih =>
    obtain ⟨k', w⟩ := p
    by_cases h : k' = k <;> simp [AList.set, h, ih]

end Aave

/-- **`change_collateral` of the state machine simulates the risk model's**: same acceptance, the new positions project
    to the risk model's new portfolio; a refusal (unknown supply: `KeyError`; token not admitted as collateral by the risk table when switching
    the flag on, health factor below 1 after switching the flag off: `AssertionError`) leaves positions, wallet and log as they were (the flag is written back). -/
theorem C11_sm_change_collateral_refines {s : St} (hs : Good cx env s) (hopen : env.isOpen = true) (tok : String)
    (flag : Bool) :
    match AaveRisk.changeCollateral cx.toNumCtx (proj env s) tok flag with
    | .ok p' => ∃ s', changeCollateral cx env tok flag s = (.ok (), s') ∧ proj env s' = p' ∧
        s'.borrows = s.borrows ∧ s'.wallet = s.wallet ∧ s'.actions = s.actions
    | .error c => ∃ s', changeCollateral cx env tok flag s = (.error (errOfCause c), s') ∧ s'.frame = s.frame := by
  unfold AaveRisk.changeCollateral
  rw [show (proj env s).supplies = s.supplies.map (projSup env) from rfl, findSupply_proj]
  unfold changeCollateral guardOpen lookupSupply
  rw [run_bind_require_true hopen]
  cases hg : AList.get? s.supplies tok with
  | none =>
    simp only [Option.map_none]
    exact ⟨s, by rw [run_bind_queryPos_err (e := .keySupply) (by simp [hg, optRes])]; rfl, rfl⟩
  | some info =>
    simp only [Option.map_some]
    rw [run_bind_queryPos_ok (a := info) (by simp [hg, optRes])]
    have hpc : (projSup env (tok, info)).coll = info.coll := rfl
    rw [hpc]
    by_cases hc : info.coll = flag
    · rw [if_pos hc, if_pos (by simp [hc])]
      exact ⟨_, rfl, rfl, rfl, rfl, rfl⟩
    · have hbeq : (info.coll == flag) = false := by simp [hc]
      rw [if_neg hc]
      simp only [hbeq, Bool.false_eq_true, if_false]
      -- the risk row of a held token exists (coherence), so `rowOf` shows the table's `usageAsCollateralEnabled`
      obtain ⟨⟨st, h1⟩, ⟨pr, h2⟩, ⟨r, h3⟩⟩ := hs.1.cv tok (aget_mem_keys hg)
      have hcan : (projSup env (tok, info)).row.canColl = r.canColl := by
        show (rowOf env tok).canColl = _
        rw [rowOf_eq h1 h2 h3]
      rw [hcan]
      have hcf : ∀ (i : SupplyInfo) (f : Unit → M Unit), (commitFlag tok i >>= f) s = f () (commitFlag tok i s).2 :=
        fun _ _ => rfl
      have hpin := good_commitFlag (⟨hs, rfl, rfl⟩ : Pin cx env s.supplies s.borrows s) hg flag
      have hproj : projPos env (AList.set s.supplies tok { info with coll := flag }) s.borrows =
          { proj env s with supplies := AaveRisk.setSupplyColl (s.supplies.map (projSup env)) tok flag } := by
        unfold projPos proj projPos
        rw [set_proj_supply_coll _ _ _ _ hg]
      cases flag with
      | true =>
        have hchk : checkCanCollateral env tok true s = (if r.canColl then (.ok (), s) else (.error .cannotCollateral, s)) := by
          unfold checkCanCollateral
          simp only [if_true]
          rw [run_bind, run_ofRes, h3]
          simp only [run_require]
        cases hrc : r.canColl with
        | false =>
          rw [hrc] at hchk
          simp only [Bool.false_eq_true, if_false] at hchk
          rw [run_bind_err hchk]
          simp only [and_self, if_true]
          exact ⟨s, rfl, rfl⟩
        | true =>
          rw [hrc] at hchk
          simp only [if_true] at hchk
          rw [run_bind_ok hchk, hcf]
          simp only [Bool.not_true, Bool.false_eq_true, if_false, false_and, and_false, true_and]
          exact ⟨_, rfl, hproj, rfl, rfl, rfl⟩
      | false =>
        have hchk : checkCanCollateral env tok false s = (.ok (), s) := rfl
        rw [run_bind_ok hchk, hcf]
        simp only [Bool.not_false, if_true, true_and, Bool.false_eq_true, false_and, if_false]
        obtain ⟨s2, e2, hat2⟩ := run_healthFactor (⟨hpin.1, rfl⟩ : At cx env _ _)
        have hp2 : projPos env (commitFlag tok { info with coll := false } s).2.frame.supplies
            (commitFlag tok { info with coll := false } s).2.frame.borrows = _ := hproj
        rw [hp2] at e2
        rw [run_bind_ok (run_onError_ok e2), toX_ltR, consts_agree.1]
        cases hlt : (AaveRisk.healthFactor cx.toNumCtx { proj env s with
            supplies := AaveRisk.setSupplyColl (s.supplies.map (projSup env)) tok false }).ltB Gen.arHfLiqThreshold
        · simp only [Bool.false_eq_true, if_false]
          refine ⟨_, rfl, ?_, ?_, ?_, ?_⟩
          · show projPos env s2.supplies s2.borrows = _
            rw [hat2.sup, hat2.bor]; exact hproj
          · exact hat2.bor
          · exact congrArg Frame.wallet hat2.2
          · exact congrArg Frame.actions hat2.2
        · simp only [if_true]
          refine ⟨_, rfl, ?_⟩
          show Frame.mk (AList.set s2.supplies tok info) s2.borrows s2.wallet s2.actions s2.hasUpdate = s.frame
          have e1 : s2.supplies = AList.set s.supplies tok { info with coll := false } := hat2.sup
          rw [e1, aset_set, aset_of_get hg, hat2.bor, show s2.wallet = s.wallet from congrArg Frame.wallet hat2.2,
            show s2.actions = s.actions from congrArg Frame.actions hat2.2,
            show s2.hasUpdate = s.hasUpdate from congrArg Frame.hasUpdate hat2.2]
          rfl

/-! ### the C11 limit theorems, transferred to the state machine (exact arithmetic) -/

/-- **borrow only if covered, on the state machine**: whatever caches were warm, a borrow the state machine accepts keeps
    all debt including the new one within `Σ_coll valueᵢ·LTVᵢ` of the positions it started from. -/
theorem C11_sm_borrow_only_if_covered {env : Env} {s s' : St} (hs : Good aaveExact env s) (hopen : env.isOpen = true)
    {tok : String} (hd : HasData env tok) (hwf : (proj env s).WF) {a : Rat}
    (h : borrow aaveExact env tok (some a) s = (.ok (), s')) :
    AaveRisk.totalDebt NumCtx.exact (proj env s) + a * (rowOf env tok).price ≤ AaveRisk.weightedLtv NumCtx.exact (proj env s)
    ∧ (proj env s').supplies = (proj env s).supplies
    ∧ (proj env s').debts =
        AaveRisk.addDebt NumCtx.exact (proj env s).debts tok (rowOf env tok) (a / (rowOf env tok).borIndex) := by
  have key := C11_sm_borrow_refines hs hopen hd a
  cases hr : AaveRisk.borrow aaveExact.toNumCtx (proj env s) tok (rowOf env tok) (some a) with
  | error c =>
    rw [hr] at key
    obtain ⟨s'', e, _⟩ := key
    rw [h] at e
    cases e
  | ok r =>
    obtain ⟨p', x⟩ := r
    rw [hr] at key
    obtain ⟨s'', e, hp, _, _, _⟩ := key
    rw [h] at e
    cases e
    have hr' := hr
    rw [risk_borrow_eq] at hr'
    repeat (split at hr'; · cases hr')
    cases hr'
    rw [hp]
    exact ⟨(C11_borrow_only_if_covered hwf hr).1, rfl, rfl⟩

/-- **a borrow beyond the limit is refused by the state machine**, positions, wallet and log intact. -/
theorem C11_sm_borrow_beyond_limit_rejected {env : Env} {s : St} (hs : Good aaveExact env s) (hopen : env.isOpen = true)
    {tok : String} (hd : HasData env tok) (hwf : (proj env s).WF) (a : Rat)
    (hb : AaveRisk.weightedLtv NumCtx.exact (proj env s) <
      AaveRisk.totalDebt NumCtx.exact (proj env s) + a * (rowOf env tok).price) :
    ∃ e s', borrow aaveExact env tok (some a) s = (.error e, s') ∧ s'.frame = s.frame := by
  have key := C11_sm_borrow_refines hs hopen hd a
  obtain ⟨c, hc⟩ := C11_borrow_beyond_limit_rejected hwf tok (rowOf env tok) a hb
  rw [show aaveExact.toNumCtx = NumCtx.exact from rfl, hc] at key
  obtain ⟨s', e, hf⟩ := key
  exact ⟨_, s', e, hf⟩

/-! ### non-vacuity: a warm-cache state in which the simulation is exercised -/

/-- one bar, two tokens -/
def c11rEnv : Env :=
  { status := [("WETH", ⟨1/100, 3/100, 11/10, 12/10⟩), ("USDC", ⟨1/100, 3/100, 1, 1⟩)],
    price := [("WETH", 1000), ("USDC", 1)],
    risk := [("WETH", ⟨true, 8/10, 825/1000, 5/100, true⟩), ("USDC", ⟨true, 8/10, 85/100, 4/100, true⟩)],
    isOpen := true }

/-- 10 WETH of collateral (11 000 USD at index 1.1), 100 USDC of debt -/
def c11rSt : St := { St.init with supplies := [("WETH", ⟨10, true, 1⟩)], borrows := [("USDC", ⟨100, 1⟩)] }

example : HasData c11rEnv "USDC" := ⟨⟨_, rfl⟩, ⟨_, rfl⟩, ⟨_, rfl⟩⟩
example : Good aaveExact c11rEnv c11rSt := by
  have hd : ∀ k, k = "WETH" ∨ k = "USDC" → HasData c11rEnv k := by
    intro k hk
    rcases hk with h | h <;> subst h <;> exact ⟨⟨_, rfl⟩, ⟨_, rfl⟩, ⟨_, rfl⟩⟩
  refine ⟨⟨by simp [keys, c11rSt], ?_, CohC.fresh _, CohC.fresh _, CohC.fresh _⟩,
    ⟨by simp [keys, c11rSt], ?_, CohC.fresh _, CohC.fresh _⟩⟩
  · intro k hk; simp [keys, c11rSt] at hk; exact hd k (Or.inl hk)
  · intro k hk; simp [keys, c11rSt] at hk; exact hd k (Or.inr hk)
/-- the risk model accepts 8000 USDC more (limit 8800 − 100) and refuses 9000 -/
example : (AaveRisk.borrow NumCtx.exact (proj c11rEnv c11rSt) "USDC" (rowOf c11rEnv "USDC") (some 8000)).toOption.isSome = true := by
  decide +kernel
example : AaveRisk.borrow NumCtx.exact (proj c11rEnv c11rSt) "USDC" (rowOf c11rEnv "USDC") (some 9000) = .error .notCovered := by
  decide +kernel

end Demeter
