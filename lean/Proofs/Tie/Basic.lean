/-
  Tie.Basic — bridge lemmas between the Python-operation prelude (`Demeter.Py`, over `Int`) and the `Nat`
  arithmetic of the hand-written models.
-/
import Demeter.PyPrelude
namespace Demeter.Py

theorem floordiv_ok (a b : Int) (h : b ≠ 0) : floordiv a b = .ok (Int.fdiv a b) := by
  simp [floordiv, h]

theorem floordiv_zero (a : Int) : floordiv a 0 = .error .ZeroDivisionError := by
  simp [floordiv]

theorem fdiv_pos (a : Int) {b : Int} (h : 0 ≤ b) : Int.fdiv a b = a / b :=
  Int.fdiv_eq_ediv_of_nonneg a h

/-- floor division of naturals -/
theorem floordiv_nat (a b : Nat) (h : b ≠ 0) : floordiv (a : Int) (b : Int) = .ok (((a / b : Nat)) : Int) := by
  have hb : (b : Int) ≠ 0 := by omega
  rw [floordiv_ok _ _ hb, fdiv_pos _ (by omega)]
  simp

theorem fmod_nat (a b : Nat) : Int.fmod (a : Int) (b : Int) = ((a % b : Nat) : Int) := by
  rw [Int.fmod_eq_emod_of_nonneg _ (by omega)]
  simp

theorem band_nat (a b : Nat) : band (a : Int) (b : Int) = ((a &&& b : Nat) : Int) := rfl

theorem shr_nat (a n : Nat) : ((a : Int) >>> n) = ((a >>> n : Nat) : Int) := rfl

theorem ipow_nat (a : Int) (n : Nat) : ipow a (n : Int) = .ok (a ^ n) := by
  have : ¬ ((n : Int) < 0) := by omega
  simp [ipow, this]

theorem ddiv_ok (cx : NumCtx) (a b : Rat) (h : b ≠ 0) : ddiv cx a b = .ok (cx.div a b) := by
  simp [ddiv, h]

end Demeter.Py
