/-
  Tie.TickMath — `get_sqrt_ratio_at_tick` as GENERATED from demeter/uniswap/liquitidy_math.py
  (Demeter/Gen/PyLiquitidyMath.lean: the chain of twenty `if abs_tick & mask != 0: ratio = (ratio * C) >> 128` on `Int`,
  the assertion, the `uint256.max // ratio` inversion that could raise, the final round-up) equals the hand-written model
  `sqrtAt` (Demeter/TickMath.lean: a fold over the generated table on `Nat`), for every tick; outside `|tick| ≤ bound` the
  code raises `AssertionError`.  `py_tick_eq` (the generated straight-line code is the fold over the generated table) is `rfl`.
  The inversion never divides by zero: `tickFold_pos` (the fold is bounded below by the "all bits set" product).
-/
import Demeter.Gen.PyLiquitidyMath
import Demeter.TickMath
import Proofs.Tie.Basic
set_option linter.unusedSimpArgs false
namespace Demeter
namespace Tie end Tie
open Tie Gen Py

/-- the chain `if abs_tick & mask != 0: ratio = (ratio * c) >> shift` over a table, on `Int` as the code computes it -/
def Tie.foldI (a : Int) (sh : Nat) : List (Nat × Nat) → Int → Int
  | [], r => r
  | (m, c) :: rest, r => foldI a sh rest (if Py.band a (m : Int) ≠ 0 then (r * (c : Int)) >>> sh else r)

def Tie.finishI (r : Int) : Int :=
  (r >>> tickFinalShift) + (if Int.fmod r (tickFinalMod : Int) = 0 then 0 else 1)

/-- the generated definition, folded back over the generated table -/
def Tie.pyTick (tick : Int) : M Int :=
  let a := if tick ≥ 0 then tick else -tick
  if ¬ a ≤ (tickBound : Int) then .error .AssertionError else
  let r := foldI a tickShift tickTable (if Py.band a 1 ≠ 0 then (tickStartOdd : Int) else (tickStartEven : Int))
  if tick > 0 then
    Except.bind (floordiv (tickUintMax : Int) r) (fun v => .ok (finishI v))
  else .ok (finishI r)

theorem Tie.py_tick_eq (tick : Int) : Py.get_sqrt_ratio_at_tick tick = pyTick tick := by
  unfold Py.get_sqrt_ratio_at_tick pyTick
  rfl

theorem Tie.foldI_cast (a : Nat) (tbl : List (Nat × Nat)) (r : Nat) :
    foldI (a : Int) tickShift tbl (r : Int) = ((tickFold a tbl r : Nat) : Int) := by
  induction tbl generalizing r with
  | nil => rfl
  | cons p rest ih =>
    obtain ⟨m, c⟩ := p
    unfold foldI tickFold
    rw [← ih]
    congr 1
    rw [band_nat, ← Int.natCast_mul, shr_nat]
    by_cases h : a &&& m = 0
    · simp [h]
    · have h' : ((a &&& m : Nat) : Int) ≠ 0 := by omega
      simp [h, h']

theorem Tie.finishI_cast (r : Nat) :
    finishI (r : Int) = (((r >>> tickFinalShift) + (if r % tickFinalMod = 0 then 0 else 1) : Nat) : Int) := by
  unfold finishI
  rw [fmod_nat, shr_nat]
  by_cases h : r % tickFinalMod = 0
  · simp [h]
  · have h' : ((r : Int) % (tickFinalMod : Int)) ≠ 0 := by omega
    simp [h, h']

/-- every step taken: a lower bound of the fold whatever the tick -/
def Tie.foldAll : List (Nat × Nat) → Nat → Nat
  | [], r => r
  | (_, c) :: rest, r => foldAll rest ((r * c) >>> tickShift)

theorem Tie.foldAll_le (a : Nat) (tbl : List (Nat × Nat)) (hc : ∀ p ∈ tbl, p.2 ≤ 2 ^ tickShift) (r r' : Nat) (h : r ≤ r') :
    foldAll tbl r ≤ tickFold a tbl r' := by
  induction tbl generalizing r r' with
  | nil => exact h
  | cons p rest ih =>
    obtain ⟨m, c⟩ := p
    unfold foldAll tickFold
    apply ih (fun q hq => hc q (List.mem_cons_of_mem _ hq))
    have hc' : c ≤ 2 ^ tickShift := hc (m, c) List.mem_cons_self
    have h1 : (r * c) >>> tickShift ≤ (r' * c) >>> tickShift := by
      rw [Nat.shiftRight_eq_div_pow, Nat.shiftRight_eq_div_pow]
      exact Nat.div_le_div_right (Nat.mul_le_mul_right c h)
    have h2 : (r * c) >>> tickShift ≤ r' := by
      rw [Nat.shiftRight_eq_div_pow]
      apply Nat.div_le_of_le_mul
      calc r * c ≤ r' * 2 ^ tickShift := Nat.mul_le_mul h hc'
        _ = 2 ^ tickShift * r' := Nat.mul_comm _ _
    split
    · exact h1
    · exact h2

theorem Tie.table_le : ∀ p ∈ tickTable, p.2 ≤ 2 ^ tickShift := by decide

theorem Tie.foldAll_pos : 0 < foldAll tickTable (min tickStartOdd tickStartEven) := by decide

theorem Tie.tickFold_pos (a : Nat) : 0 < tickFold a tickTable (if a &&& 1 != 0 then tickStartOdd else tickStartEven) := by
  apply Nat.lt_of_lt_of_le foldAll_pos
  apply foldAll_le a tickTable table_le
  split
  · exact Nat.min_le_left _ _
  · exact Nat.min_le_right _ _

theorem Tie_tickmath_get_sqrt_ratio_at_tick (tick : Int) :
    Py.get_sqrt_ratio_at_tick tick
      = if tickOk tick then .ok ((sqrtAt tick : Nat) : Int) else .error .AssertionError := by
  rw [py_tick_eq]
  unfold pyTick tickOk sqrtAt tickRatio
  have habs : (if tick ≥ 0 then tick else -tick) = ((tick.natAbs : Nat) : Int) := by split <;> omega
  simp only [habs]
  generalize hA : tick.natAbs = a
  by_cases hb : a ≤ tickBound
  · have hb' : ((a : Nat) : Int) ≤ (tickBound : Int) := by omega
    simp only [hb, hb', not_true_eq_false, if_false, decide_true, if_true]
    have h1 : Py.band (a : Int) 1 = ((a &&& 1 : Nat) : Int) := band_nat a 1
    have hstart : (if Py.band (a : Int) 1 ≠ 0 then (tickStartOdd : Int) else (tickStartEven : Int))
        = ((if a &&& 1 != 0 then tickStartOdd else tickStartEven : Nat) : Int) := by
      rw [h1]
      by_cases h : a &&& 1 = 0
      · have e1 : ¬ (((a &&& 1 : Nat) : Int) ≠ 0) := by omega
        have e2 : ¬ ((a &&& 1 != 0) = true) := by rw [h]; decide
        rw [if_neg e1, if_neg e2]
      · have e1 : (((a &&& 1 : Nat) : Int) ≠ 0) := by omega
        have e2 : ((a &&& 1 != 0) = true) := bne_iff_ne.mpr h
        rw [if_pos e1, if_pos e2]
    rw [hstart, foldI_cast]
    have hpos := tickFold_pos a
    by_cases ht : tick > 0
    · rw [if_pos ht, floordiv_nat _ _ (by omega)]
      simp only [ht, if_true, Except.bind, finishI_cast]
    · rw [if_neg ht]
      simp only [ht, if_false, finishI_cast]
  · have hb' : ¬ ((a : Nat) : Int) ≤ (tickBound : Int) := by omega
    simp [hb, hb']
