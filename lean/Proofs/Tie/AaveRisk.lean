/-
  Tie.AaveRisk — the definitions GENERATED from demeter/aave/core.py (Demeter/Gen/PyAaveCore.lean) coincide with the
  portfolio-shaped model of C11/C12 (Demeter/AaveRisk/Basic.lean, Ops.lean), for every rounding context.

  The code receives two dicts (token ↦ USD value) and the risk-parameter frame; the model keeps `Supply`/`Debt` records
  that carry their row.  `collDict`/`debtDict`/`rowFrame` are the dict views of a portfolio.  `KeysOk p` says that a
  token names one supply entry (the supplies are the items of a Python dict).
-/
import Demeter.Gen.PyAaveCore
import Demeter.AaveRisk
import Proofs.Tie.Basic
set_option linter.unusedSimpArgs false
namespace Demeter
namespace Tie end Tie
open Tie Py AaveRisk

/-- `{token: value}` of the collaterals, in dict order -/
def Tie.collDict (cx : NumCtx) (p : Portfolio) : List (String × Rat) := (collaterals p).map (fun s => (s.tok, s.value cx))
/-- `{token: value}` of the debts -/
def Tie.debtDict (cx : NumCtx) (p : Portfolio) : List (String × Rat) := p.debts.map (fun d => (d.tok, d.value cx))
/-- `risk_parameters.loc[name].column` for the rows carried by the supplies -/
def Tie.rowFrame (p : Portfolio) : String → String → Py.M Rat := fun k col =>
  match findSupply? p.supplies k with
  | none => .error .KeyError
  | some s =>
    if col = "reserveLiquidationThreshold" then .ok s.row.lt
    else if col = "baseLTVasCollateral" then .ok s.row.ltv
    else if col = "reserveLiquidationBonus" then .ok s.row.bonus
    else .error (.Raised "AttributeError")

/-- the supplies are the items of a dict: looking a supply's token up finds that supply -/
def Tie.KeysOk (p : Portfolio) : Prop := ∀ s ∈ p.supplies, findSupply? p.supplies s.tok = some s

def Tie.xopt : AaveRisk.XRat → Py.XDec
  | some r => .fin r
  | none => .inf

theorem Tie_aaverisk_safe_div (cx : NumCtx) (a b : Rat) :
    Py.aave_safe_div cx a b = .ok (xopt (AaveRisk.safeDiv cx a b)) := by
  unfold Py.aave_safe_div AaveRisk.safeDiv
  by_cases h : b = 0
  · simp [h, xopt, bind, Except.bind, pure, Except.pure]
  · simp [h, xopt, ddiv_ok _ _ _ h, bind, Except.bind, pure, Except.pure]

theorem Tie.dsum_eq' (cx : NumCtx) (xs : List Rat) : Py.dsum cx xs = AaveRisk.dsum cx xs := rfl

theorem Tie.mem_coll {p : Portfolio} {s : Supply} (h : s ∈ collaterals p) : s ∈ p.supplies :=
  (List.mem_filter.mp h).1

theorem Tie.rowFrame_lt (p : Portfolio) (hk : KeysOk p) (s : Supply) (hs : s ∈ p.supplies) :
    rowFrame p s.tok "reserveLiquidationThreshold" = .ok s.row.lt := by
  unfold rowFrame; rw [hk s hs]; simp

theorem Tie.rowFrame_ltv (p : Portfolio) (hk : KeysOk p) (s : Supply) (hs : s ∈ p.supplies) :
    rowFrame p s.tok "baseLTVasCollateral" = .ok s.row.ltv := by
  unfold rowFrame; rw [hk s hs]; simp

/-- the list comprehension of `health_factor` over the collateral dict -/
theorem Tie.hf_terms' (cx : NumCtx) (p : Portfolio) (hk : KeysOk p) (l : List Supply) (hl : ∀ s ∈ l, s ∈ p.supplies) :
    (l.map (fun s => (s.tok, s.value cx))).mapM (fun (x : String × Rat) => match x with
        | (key, s) => do
          let t2 ← rowFrame p key "reserveLiquidationThreshold"
          (pure (cx.mul s t2) : Py.M Rat))
      = .ok (l.map (fun s => cx.mul (s.value cx) s.row.lt)) := by
  induction l with
  | nil => rfl
  | cons s rest ih =>
    rw [List.map_cons, List.mapM_cons, ih (fun x hx => hl x (List.mem_cons_of_mem _ hx))]
    dsimp only
    rw [rowFrame_lt p hk s (hl s List.mem_cons_self)]
    rfl

theorem Tie_aaverisk_health_factor (cx : NumCtx) (p : Portfolio) (hk : KeysOk p) :
    Py.aave_health_factor cx (collDict cx p) (debtDict cx p) (rowFrame p) = .ok (xopt (AaveRisk.healthFactor cx p)) := by
  unfold Py.aave_health_factor AaveRisk.healthFactor weightedLt totalDebt collDict debtDict
  rw [hf_terms' cx p hk (collaterals p) (fun s hs => mem_coll hs)]
  simp only [bind, Except.bind, Tie_aaverisk_safe_div, dsum_eq', List.map_map, pure, Except.pure]
  rfl

/-- the accumulation loop of `max_ltv` -/
theorem Tie.ltv_loop' (cx : NumCtx) (p : Portfolio) (hk : KeysOk p) (l : List Supply) (hl : ∀ s ∈ l, s ∈ p.supplies) (acc : Rat) :
    (forIn (l.map (fun s => (s.tok, s.value cx))) acc (fun (x : String × Rat) (r : Rat) => match x with
        | (t, s) => do
          let t1 ← rowFrame p t "baseLTVasCollateral"
          (pure (ForInStep.yield (cx.add r (cx.mul s t1))) : Py.M (ForInStep Rat))))
      = .ok ((l.map (fun s => cx.mul (s.value cx) s.row.ltv)).foldl (fun a x => cx.add a x) acc) := by
  induction l generalizing acc with
  | nil => rfl
  | cons s rest ih =>
    rw [List.map_cons, List.forIn_cons]
    dsimp only
    rw [rowFrame_ltv p hk s (hl s List.mem_cons_self)]
    exact ih (fun x hx => hl x (List.mem_cons_of_mem _ hx)) _

theorem Tie_aaverisk_max_ltv (cx : NumCtx) (p : Portfolio) (hk : KeysOk p) :
    Py.aave_max_ltv cx (collDict cx p) (rowFrame p) = .ok (xopt (AaveRisk.maxLtv cx p)) := by
  unfold Py.aave_max_ltv AaveRisk.maxLtv weightedLtv totalCollateral collDict
  have hl := ltv_loop' cx p hk (collaterals p) (fun s hs => mem_coll hs)
  simp only [hl]
  simp only [bind, Except.bind, Tie_aaverisk_safe_div, dsum_eq', List.map_map, pure, Except.pure]
  rfl

/-- the accumulation loop of `total_liquidation_threshold` (two running sums) -/
theorem Tie.lt_loop' (cx : NumCtx) (p : Portfolio) (hk : KeysOk p) (l : List Supply) (hl : ∀ s ∈ l, s ∈ p.supplies) (acc : Rat × Rat) :
    (forIn (l.map (fun s => (s.tok, s.value cx))) acc (fun (x : String × Rat) (r : Rat × Rat) => match x with
        | (t, s) => do
          let t1 ← rowFrame p t "reserveLiquidationThreshold"
          (pure (ForInStep.yield (cx.add r.1 s, cx.add r.2 (cx.mul s t1))) : Py.M (ForInStep (Rat × Rat)))))
      = .ok ((l.map (fun s => s.value cx)).foldl (fun a x => cx.add a x) acc.1,
             (l.map (fun s => cx.mul (s.value cx) s.row.lt)).foldl (fun a x => cx.add a x) acc.2) := by
  induction l generalizing acc with
  | nil => rfl
  | cons s rest ih =>
    rw [List.map_cons, List.forIn_cons]
    dsimp only
    rw [rowFrame_lt p hk s (hl s List.mem_cons_self)]
    exact ih (fun x hx => hl x (List.mem_cons_of_mem _ hx)) _

theorem Tie_aaverisk_total_liquidation_threshold (cx : NumCtx) (p : Portfolio) (hk : KeysOk p) :
    Py.aave_total_liquidation_threshold cx (collDict cx p) (rowFrame p) = .ok (xopt (AaveRisk.liqThreshold cx p)) := by
  unfold Py.aave_total_liquidation_threshold AaveRisk.liqThreshold weightedLt totalCollateral collDict
  have hl := lt_loop' cx p hk (collaterals p) (fun s hs => mem_coll hs)
  simp only [hl]
  simp only [bind, Except.bind, Tie_aaverisk_safe_div, pure, Except.pure]
  rfl

/-- the loop of `get_min_withdraw_kept_amount` (skips the token itself) -/
theorem Tie.others_loop (cx : NumCtx) (p : Portfolio) (hk : KeysOk p) (tok : String) (l : List Supply)
    (hl : ∀ s ∈ l, s ∈ p.supplies) (acc : Rat) :
    (forIn (l.map (fun s => (s.tok, s.value cx))) acc (fun (x : String × Rat) (r : Rat) => match x with
        | (s, v) =>
          if s ≠ tok then do
            let t1 ← rowFrame p s "reserveLiquidationThreshold"
            (pure (ForInStep.yield (cx.add r (cx.mul t1 v))) : Py.M (ForInStep Rat))
          else pure (ForInStep.yield r)))
      = .ok (((l.filter (fun s => decide (s.tok ≠ tok))).map (fun s => cx.mul s.row.lt (s.value cx))).foldl
              (fun a x => cx.add a x) acc) := by
  induction l generalizing acc with
  | nil => rfl
  | cons s rest ih =>
    rw [List.map_cons, List.forIn_cons]
    dsimp only
    by_cases h : s.tok = tok
    · have h' : ¬ (s.tok ≠ tok) := fun c => c h
      rw [if_neg h', List.filter_cons_of_neg (by simp [h])]
      exact ih (fun x hx => hl x (List.mem_cons_of_mem _ hx)) _
    · have h' : s.tok ≠ tok := h
      rw [if_pos h', rowFrame_lt p hk s (hl s List.mem_cons_self), List.filter_cons_of_pos (by simp [h])]
      exact ih (fun x hx => hl x (List.mem_cons_of_mem _ hx)) _

/-- `token in collaterals.keys()` is the supply's collateral flag -/
theorem Tie.hasKey_coll (cx : NumCtx) (p : Portfolio) (hk : KeysOk p) (s : Supply) (hs : s ∈ p.supplies) :
    Py.hasKey (collDict cx p) s.tok = s.coll := by
  unfold Py.hasKey collDict collaterals
  rw [List.any_map]
  cases hc : s.coll with
  | true =>
    rw [List.any_eq_true]
    exact ⟨s, List.mem_filter.mpr ⟨hs, hc⟩, by simp⟩
  | false =>
    rw [List.any_eq_false]
    intro x hx
    have hx' := List.mem_filter.mp hx
    intro heq
    have hxt : x.tok = s.tok := by simpa using heq
    have e1 := hk x hx'.1
    have e2 := hk s hs
    rw [hxt, e2] at e1
    have : s = x := Option.some.inj e1
    rw [this] at hc
    rw [hc] at hx'
    exact absurd hx'.2 (by decide)

/-- a model result and a result of the translated code agree; the model has one `arith` error for the two decimal signals -/
def Tie.arithLike (r : Py.M Rat) : Except Cause Rat → Prop
  | .ok v => r = .ok v
  | .error _ => r = .error .DivisionByZero ∨ r = .error .InvalidOperation

theorem Tie_aaverisk_get_min_withdraw_kept_amount (cx : NumCtx) (p : Portfolio) (hk : KeysOk p) (s : Supply) (hs : s ∈ p.supplies) :
    arithLike (Py.aave_get_min_withdraw_kept_amount cx s.tok (collDict cx p) (debtDict cx p) (rowFrame p) s.row.price)
      (minWithdrawKept cx p s) := by
  unfold Py.aave_get_min_withdraw_kept_amount minWithdrawKept
  rw [hasKey_coll cx p hk s hs]
  cases hc : s.coll with
  | false => simp [arithLike, pure, Except.pure]
  | true =>
    have hl := others_loop cx p hk s.tok (collaterals p) (fun x hx => mem_coll hx)
    unfold collDict
    simp only [hl]
    simp only [rowFrame_lt p hk s hs, bind, Except.bind, not_true_eq_false, if_false, Bool.true_eq_false]
    unfold Py.ddiv
    by_cases h1 : s.row.lt = 0
    · simp only [h1, if_true, arithLike]
      generalize cx.sub _ _ = n
      by_cases hn : n = 0 <;> simp [hn]
    · simp only [h1, if_false]
      by_cases h2 : s.row.price = 0
      · simp only [h2, if_true, arithLike]
        split <;> simp
      · simp only [h2, if_false, arithLike]
        unfold othersLt totalDebt debtDict
        simp only [dsum_eq', List.map_map, Gen.arHfLiqThreshold]
        rfl

/-- `KeysOk` holds whenever the supplies have pairwise different tokens (they are the items of a dict) -/
theorem Tie.keysOk_of_pairwise (p : Portfolio) (h : p.supplies.Pairwise (fun a b => a.tok ≠ b.tok)) : KeysOk p := by
  unfold KeysOk findSupply?
  generalize p.supplies = l at h
  induction l with
  | nil => intro s hs; cases hs
  | cons a rest ih =>
    intro s hs
    rw [List.pairwise_cons] at h
    rw [List.find?_cons]
    rcases List.mem_cons.mp hs with rfl | hmem
    · simp
    · have hne : a.tok ≠ s.tok := h.1 s hmem
      simp only [hne, decide_false]
      exact ih h.2 s hmem

/-! non-vacuity: a two-token portfolio satisfies `KeysOk`, and the generated code computes on its dict view -/
example : KeysOk { supplies := [⟨"WETH", 2, true, ⟨1, 1, 1500, 4/5, 17/20, 1/20, true, true⟩⟩,
                                ⟨"USDC", 100, false, ⟨1, 1, 1, 4/5, 17/20, 1/20, true, true⟩⟩], debts := [] } :=
  keysOk_of_pairwise _ (by decide)

end Demeter
