/-
  Tie.LiqMath — the definitions GENERATED from demeter/uniswap/liquitidy_math.py by tools/py2lean.py
  (Demeter/Gen/PyLiquitidyMath.lean) coincide with the hand-written model Demeter/LiqMath.lean, for every
  rounding context.  A change of the Python source changes the generated side and breaks these theorems.
-/
import Demeter.Gen.PyLiquitidyMath
import Demeter.LiqMath
import Proofs.Tie.Basic
import Proofs.Tie.TickMath
import Mathlib.Tactic.Ring
import Mathlib.Data.Rat.Cast.Order
set_option linter.unusedSimpArgs false
namespace Demeter
namespace Tie end Tie
open Tie Py

/-- `mul_div` on the model's domain (naturals, non-zero denominator) -/
theorem Tie_liqmath_mul_div (a b d : Nat) (hd : d ≠ 0) :
    Py.mul_div a b d = .ok ((mulDiv a b d : Nat) : Int) := by
  unfold Py.mul_div mulDiv
  have := floordiv_nat (a * b) d hd
  simp only [Int.natCast_mul] at this
  simp [this, bind, Except.bind, pure, Except.pure]

/-- … and the exception the code raises for a zero denominator -/
theorem Tie_liqmath_mul_div_zero (a b : Int) : Py.mul_div a b 0 = .error .ZeroDivisionError := by
  simp [Py.mul_div, floordiv_zero, bind, Except.bind]

/-- `mul_div` with a possibly negative first factor (what `get_liquidity` feeds it when an amount is negative) -/
theorem Tie.mul_div_int (w : Int) (b d : Nat) (hd : d ≠ 0) :
    Py.mul_div w b d = .ok ((w * (b : Int)) / (d : Int)) := by
  unfold Py.mul_div
  have hb : (d : Int) ≠ 0 := by omega
  simp [floordiv_ok _ _ hb, fdiv_pos _ (Int.natCast_nonneg d), bind, Except.bind, pure, Except.pure]

theorem Tie.sortPair_cast (sa sb : Nat) :
    (if ((sa : Int) > (sb : Int)) then ((sb : Int), (sa : Int)) else ((sa : Int), (sb : Int)))
      = (((sortPair sa sb).1 : Int), ((sortPair sa sb).2 : Int)) := by
  unfold sortPair
  by_cases h : sa > sb
  · have : (sa : Int) > (sb : Int) := by omega
    simp [h, this]
  · have : ¬ (sa : Int) > (sb : Int) := by omega
    simp [h, this]

theorem Tie.sortPair_le (sa sb : Nat) : (sortPair sa sb).1 ≤ (sortPair sa sb).2 := by
  unfold sortPair; split <;> simp <;> omega

theorem Tie.sortPair_ne (sa sb : Nat) (h : sa ≠ sb) : (sortPair sa sb).1 ≠ (sortPair sa sb).2 := by
  unfold sortPair; split <;> simp <;> omega

theorem Tie.Q96_cast : ((2 : Int) ^ (96 : Nat)) = ((Q96 : Nat) : Int) := by decide
/-- the same constant written as a literal (a harmless rewrite of `2**96` in the source) -/
theorem Tie.Q96_lit : (79228162514264337593543950336 : Int) = ((Q96 : Nat) : Int) := by decide

/-- `get_liquidity_for_amount0` with an integer amount -/
theorem Tie.get_liquidity_for_amount0_int (sa sb : Nat) (w : Int) (h : sa ≠ sb) :
    Py.get_liquidity_for_amount0 sa sb w
      = .ok ((w * ((mulDiv (sortPair sa sb).1 (sortPair sa sb).2 Q96 : Nat) : Int))
              / (((sortPair sa sb).2 - (sortPair sa sb).1 : Nat) : Int)) := by
  unfold Py.get_liquidity_for_amount0
  simp only [sortPair_cast]
  have hle := sortPair_le sa sb
  have hne := sortPair_ne sa sb h
  generalize (sortPair sa sb).1 = x at *
  generalize (sortPair sa sb).2 = y at *
  have hq : Q96 ≠ 0 := by decide
  have hs : ((y : Int) - (x : Int)) = ((y - x : Nat) : Int) := by omega
  have hd : (y - x : Nat) ≠ 0 := by omega
  simp only [Q96_cast, Q96_lit, hs, Tie_liqmath_mul_div x y Q96 hq, mul_div_int w _ _ hd, bind, Except.bind, pure, Except.pure]

theorem Tie_liqmath_get_liquidity_for_amount0 (sa sb amount : Nat) (h : sa ≠ sb) :
    Py.get_liquidity_for_amount0 sa sb amount = .ok ((liqForAmount0 sa sb amount : Nat) : Int) := by
  rw [get_liquidity_for_amount0_int sa sb amount h]
  unfold liqForAmount0 mulDiv
  simp

theorem Tie_liqmath_get_liquidity_for_amount0_zero (sa : Nat) (amount : Int) :
    Py.get_liquidity_for_amount0 sa sa amount = .error .ZeroDivisionError := by
  unfold Py.get_liquidity_for_amount0
  have hq : Q96 ≠ 0 := by decide
  simp [Q96_cast, Q96_lit, Tie_liqmath_mul_div sa sa Q96 hq, Tie_liqmath_mul_div_zero, bind, Except.bind, pure, Except.pure]

/-- `get_liquidity_for_amount1` with an integer amount -/
theorem Tie.get_liquidity_for_amount1_int (sa sb : Nat) (w : Int) (h : sa ≠ sb) :
    Py.get_liquidity_for_amount1 sa sb w
      = .ok ((w * ((Q96 : Nat) : Int)) / (((sortPair sa sb).2 - (sortPair sa sb).1 : Nat) : Int)) := by
  unfold Py.get_liquidity_for_amount1
  simp only [sortPair_cast]
  have hle := sortPair_le sa sb
  have hne := sortPair_ne sa sb h
  generalize (sortPair sa sb).1 = x at *
  generalize (sortPair sa sb).2 = y at *
  have hs : ((y : Int) - (x : Int)) = ((y - x : Nat) : Int) := by omega
  have hd : (y - x : Nat) ≠ 0 := by omega
  simp only [Q96_cast, Q96_lit, hs, mul_div_int w _ _ hd, bind, Except.bind, pure, Except.pure]

theorem Tie_liqmath_get_liquidity_for_amount1 (sa sb amount : Nat) (h : sa ≠ sb) :
    Py.get_liquidity_for_amount1 sa sb amount = .ok ((liqForAmount1 sa sb amount : Nat) : Int) := by
  rw [get_liquidity_for_amount1_int sa sb amount h]
  unfold liqForAmount1 mulDiv
  simp

theorem Tie_liqmath_get_liquidity_for_amount1_zero (sa : Nat) (amount : Int) :
    Py.get_liquidity_for_amount1 sa sa amount = .error .ZeroDivisionError := by
  unfold Py.get_liquidity_for_amount1
  simp [Tie_liqmath_mul_div_zero, bind, Except.bind, pure, Except.pure]

/-- `to_wei`, every rounding context -/
theorem Tie_liqmath_to_wei (cx : NumCtx) (amount : Rat) (decimals : Nat) :
    Py.to_wei cx amount decimals = .ok (toWei cx amount decimals) := by
  unfold Py.to_wei toWei pow10
  simp [ipow_nat, bind, Except.bind, pure, Except.pure]

theorem Tie.pow10_cast (d : Nat) : (((10 : Int) ^ d : Int) : Rat) = ((pow10 d : Nat) : Rat) := by
  unfold pow10; push_cast; rfl

theorem Tie.pow10_ne (d : Nat) : ((pow10 d : Nat) : Rat) ≠ 0 := by
  unfold pow10; exact_mod_cast (Nat.pow_pos (by decide : 0 < 10)).ne'

theorem Tie_liqmath_get_amount0 (cx : NumCtx) (sa sb l d : Nat) (ha : 0 < sa) (hb : 0 < sb) :
    Py.get_amount0 cx sa sb l d = .ok (getAmount0 cx sa sb l d) := by
  unfold Py.get_amount0 getAmount0
  simp only [sortPair_cast]
  have hle := sortPair_le sa sb
  have hx : 0 < (sortPair sa sb).1 := by unfold sortPair; split <;> simpa
  generalize (sortPair sa sb).1 = x at *
  generalize (sortPair sa sb).2 = y at *
  have hs : ((y : Int) - (x : Int)) = ((y - x : Nat) : Int) := by omega
  have hx' : ((x : Int) : Rat) ≠ 0 := by
    have : (0 : Rat) < ((x : Int) : Rat) := by exact_mod_cast hx
    exact ne_of_gt this
  have hy' : ((y : Int) : Rat) ≠ 0 := by
    have : (0 : Rat) < ((y : Int) : Rat) := by exact_mod_cast (by omega : 0 < y)
    exact ne_of_gt this
  have hp : ((((10 : Int) ^ d : Int)) : Rat) ≠ 0 := by rw [pow10_cast]; exact pow10_ne d
  simp only [Q96_cast, Q96_lit, hs, ipow_nat, ddiv_ok _ _ _ hx', ddiv_ok _ _ _ hy', ddiv_ok _ _ _ hp, bind, Except.bind, pure, Except.pure]
  simp only [pow10_cast]
  congr 3

theorem Tie_liqmath_get_amount1 (cx : NumCtx) (sa sb l d : Nat) :
    Py.get_amount1 cx sa sb l d = .ok (getAmount1 cx sa sb l d) := by
  unfold Py.get_amount1 getAmount1
  simp only [sortPair_cast]
  have hle := sortPair_le sa sb
  generalize (sortPair sa sb).1 = x at *
  generalize (sortPair sa sb).2 = y at *
  have hs : ((y : Int) - (x : Int)) = ((y - x : Nat) : Int) := by omega
  have hp : ((((10 : Int) ^ d : Int)) : Rat) ≠ 0 := by rw [pow10_cast]; exact pow10_ne d
  simp only [Q96_cast, Q96_lit, hs, ipow_nat, ddiv_ok _ _ _ hp, bind, Except.bind, pure, Except.pure]
  simp only [pow10_cast]
  congr 3

/-! ### the two top-level functions: they call `get_sqrt_ratio_at_tick` (tie: Proofs/Tie/TickMath.lean) -/

theorem Tie.tickFold_le (a : Nat) (tbl : List (Nat × Nat)) (hc : ∀ p ∈ tbl, p.2 ≤ 2 ^ Gen.tickShift) (r : Nat) :
    tickFold a tbl r ≤ r := by
  induction tbl generalizing r with
  | nil => exact Nat.le_refl _
  | cons p rest ih =>
    obtain ⟨m, c⟩ := p
    unfold tickFold
    refine Nat.le_trans (ih (fun q hq => hc q (List.mem_cons_of_mem _ hq)) _) ?_
    split
    · rw [Nat.shiftRight_eq_div_pow]
      apply Nat.div_le_of_le_mul
      have hc' : c ≤ 2 ^ Gen.tickShift := hc (m, c) List.mem_cons_self
      calc r * c ≤ r * 2 ^ Gen.tickShift := Nat.mul_le_mul_left r hc'
        _ = 2 ^ Gen.tickShift * r := Nat.mul_comm _ _
    · exact Nat.le_refl _

theorem Tie.tickRatio_pos (t : Int) : 0 < tickRatio t := by
  have hpos := tickFold_pos t.natAbs
  have hle := tickFold_le t.natAbs Gen.tickTable table_le
    (if t.natAbs &&& 1 != 0 then Gen.tickStartOdd else Gen.tickStartEven)
  have hstart : (if t.natAbs &&& 1 != 0 then Gen.tickStartOdd else Gen.tickStartEven) ≤ Gen.tickUintMax := by
    split <;> decide
  show 0 < (if t > 0 then Gen.tickUintMax / (tickFold t.natAbs Gen.tickTable
      (if t.natAbs &&& 1 != 0 then Gen.tickStartOdd else Gen.tickStartEven)) else _)
  split
  · exact Nat.div_pos (Nat.le_trans hle hstart) hpos
  · exact hpos

theorem Tie.tickRound_pos (q : Nat) (hq : 0 < q) :
    0 < (q >>> Gen.tickFinalShift) + (if q % Gen.tickFinalMod = 0 then 0 else 1) := by
  have hm : Gen.tickFinalMod = 2 ^ Gen.tickFinalShift := by decide
  rw [Nat.shiftRight_eq_div_pow, hm]
  by_cases h0 : q % 2 ^ Gen.tickFinalShift = 0
  · simp only [h0, if_true, Nat.add_zero]
    apply Nat.div_pos _ (Nat.two_pow_pos _)
    exact Nat.le_of_dvd hq (Nat.dvd_of_mod_eq_zero h0)
  · simp only [h0, if_false]; exact Nat.succ_pos _

/-- the model's sqrt price is never zero (so the divisions of `get_amount0` are defined) -/
theorem Tie.sqrtAt_pos_all (t : Int) : 0 < sqrtAt t := tickRound_pos _ (tickRatio_pos t)

theorem Tie_liqmath_get_amounts (cx : NumCtx) (s : Nat) (ta tb : Int) (l d0 d1 : Nat)
    (ha : tickOk ta = true) (hb : tickOk tb = true) :
    Py.get_amounts cx s ta tb l d0 d1 = .ok (getAmounts cx s ta tb l d0 d1) := by
  unfold Py.get_amounts getAmounts getAmountsS
  rw [Tie_tickmath_get_sqrt_ratio_at_tick, Tie_tickmath_get_sqrt_ratio_at_tick]
  simp only [ha, hb, if_true, bind, Except.bind, sortPair_cast]
  have hle := sortPair_le (sqrtAt ta) (sqrtAt tb)
  have hx : 0 < (sortPair (sqrtAt ta) (sqrtAt tb)).1 := by
    unfold sortPair; split
    · exact sqrtAt_pos_all tb
    · exact sqrtAt_pos_all ta
  generalize (sortPair (sqrtAt ta) (sqrtAt tb)).1 = x at *
  generalize (sortPair (sqrtAt ta) (sqrtAt tb)).2 = y at *
  by_cases h1 : s ≤ x
  · have h1' : (s : Int) ≤ (x : Int) := by omega
    simp only [h1, h1', if_true, Tie_liqmath_get_amount0 cx x y l d0 hx (by omega), pure, Except.pure]
    try congr 2
  · have h1' : ¬ (s : Int) ≤ (x : Int) := by omega
    simp only [h1, h1', if_false]
    by_cases h2 : s < y
    · have h2' : ((y : Int) > (s : Int) ∧ (s : Int) > (x : Int)) := by omega
      simp only [h2, h2', if_true, Tie_liqmath_get_amount0 cx s y l d0 (by omega) (by omega),
        Tie_liqmath_get_amount1, pure, Except.pure, and_self]
    · have h2' : ¬ ((y : Int) > (s : Int) ∧ (s : Int) > (x : Int)) := by omega
      simp only [h2, h2', if_false, Tie_liqmath_get_amount1, pure, Except.pure]
      try congr 2

theorem Tie.sortPair_of_le (x y : Nat) (h : x ≤ y) : sortPair x y = (x, y) := by
  unfold sortPair
  have : ¬ x > y := by omega
  simp [this]

/-- `get_liquidity`: the model's `none` is exactly the code's `ZeroDivisionError` (both ticks give the same sqrt price) -/
theorem Tie_liqmath_get_liquidity (cx : NumCtx) (s : Nat) (ta tb : Int) (a0 a1 : Rat) (d0 d1 : Nat)
    (ha : tickOk ta = true) (hb : tickOk tb = true) :
    Py.get_liquidity cx s ta tb a0 a1 d0 d1
      = (match getLiquidity cx s ta tb a0 a1 d0 d1 with
         | some l => .ok l
         | none => .error .ZeroDivisionError) := by
  unfold Py.get_liquidity getLiquidity
  rw [Tie_tickmath_get_sqrt_ratio_at_tick, Tie_tickmath_get_sqrt_ratio_at_tick]
  simp only [ha, hb, if_true, bind, Except.bind, sortPair_cast, Tie_liqmath_to_wei]
  have hle := sortPair_le (sqrtAt ta) (sqrtAt tb)
  generalize (sortPair (sqrtAt ta) (sqrtAt tb)).1 = x at *
  generalize (sortPair (sqrtAt ta) (sqrtAt tb)).2 = y at *
  generalize toWei cx a0 d0 = w0
  generalize toWei cx a1 d1 = w1
  by_cases hxy : x = y
  · subst hxy
    simp only [if_true]
    by_cases h1 : s ≤ x
    · have h1' : (s : Int) ≤ (x : Int) := by omega
      simp only [h1', if_true, Tie_liqmath_get_liquidity_for_amount0_zero]
    · have h1' : ¬ (s : Int) ≤ (x : Int) := by omega
      have h2' : ¬ ((x : Int) > (s : Int) ∧ (s : Int) > (x : Int)) := by omega
      simp only [h1', h2', if_false, Tie_liqmath_get_liquidity_for_amount1_zero]
  · simp only [hxy, if_false]
    by_cases h1 : s ≤ x
    · have h1' : (s : Int) ≤ (x : Int) := by omega
      simp only [h1, h1', if_true, get_liquidity_for_amount0_int x y w0 hxy, sortPair_of_le x y hle, pure, Except.pure]
    · have h1' : ¬ (s : Int) ≤ (x : Int) := by omega
      simp only [h1, h1', if_false]
      by_cases h2 : s < y
      · have h2' : ((y : Int) > (s : Int) ∧ (s : Int) > (x : Int)) := by omega
        have e1 : s ≠ y := by omega
        have e2 : x ≠ s := by omega
        simp only [h2, h2', if_true, get_liquidity_for_amount0_int s y w0 e1, get_liquidity_for_amount1_int x s w1 e2,
          sortPair_of_le s y (by omega), sortPair_of_le x s (by omega), pure, Except.pure, and_self]
      · have h2' : ¬ ((y : Int) > (s : Int) ∧ (s : Int) > (x : Int)) := by omega
        simp only [h2, h2', if_false, get_liquidity_for_amount1_int x y w1 hxy, sortPair_of_le x y hle, pure, Except.pure]

end Demeter

/-! non-vacuity: the generated definitions compute, and the hypotheses are satisfiable -/
namespace Demeter
example : Py.get_sqrt_ratio_at_tick 0 = .ok 79228162514264337593543950336 := by decide
example : Py.get_sqrt_ratio_at_tick 887273 = .error .AssertionError := by decide
example : Py.get_liquidity_for_amount1 (2 ^ 96) (2 ^ 97) 1000 = .ok 1000 := by decide
example : Py.get_liquidity_for_amount1 5 5 1000 = .error .ZeroDivisionError := by decide
example : tickOk 887272 = true ∧ tickOk (-887272) = true := by decide
end Demeter
