/-
  Tie.AaveCore — the definitions GENERATED from demeter/aave/core.py (`AaveV3CoreLib`, Demeter/Gen/PyAaveCore.lean)
  coincide with the hand-written model (Demeter/Aave/Basic.lean, Demeter/Aave/Views.lean), for every rounding context.
  The pandas risk-parameter frame is read by the translated code as `risk_parameters.loc[name].column`;
  `Tie.riskFrame env` is that reader for the model's `Env.risk` table.
-/
import Demeter.Gen.PyAaveCore
import Demeter.Aave
import Proofs.Tie.Basic
set_option linter.unusedSimpArgs false
namespace Demeter
namespace Tie end Tie
open Tie Py Aave

/-- the risk-parameter frame of a model environment, as the translated code reads it (`.loc[name].column`) -/
def Tie.riskFrame (env : Aave.Env) : String → String → Py.M Rat := fun k col =>
  match env.riskOf k with
  | .error _ => .error .KeyError
  | .ok r =>
    if col = "reserveLiquidationThreshold" then .ok r.lt
    else if col = "baseLTVasCollateral" then .ok r.ltv
    else if col = "reserveLiquidationBonus" then .ok r.bonus
    else .error (.Raised "AttributeError")

def Tie.xdec : Aave.XRat → Py.XDec
  | .fin r => .fin r
  | .inf => .inf

/-- a model result as a result of the translated code (the only exception these functions raise is the `KeyError`
    of a missing risk-parameter row) -/
def Tie.ofRes {α β : Type} (f : α → β) : Aave.Res α → Py.M β
  | .ok a => .ok (f a)
  | .error _ => .error .KeyError

theorem Tie_aave_safe_div (cx : ACtx) (a b : Rat) :
    Py.aave_safe_div cx.toNumCtx a b = .ok (xdec (safeDiv cx a b)) := by
  unfold Py.aave_safe_div safeDiv
  by_cases h : b = 0
  · simp [h, xdec, bind, Except.bind, pure, Except.pure]
  · simp [h, xdec, ddiv_ok _ _ _ h, bind, Except.bind, pure, Except.pure]

theorem Tie_aave_rate_to_apy (cx : ACtx) (rate : Rat) :
    Py.aave_rate_to_apy cx.toNumCtx cx.dpow rate = .ok (rateToApy cx rate) := by
  unfold Py.aave_rate_to_apy rateToApy
  simp [Gen.aaveSecondsInYear, pure, Except.pure]

/-- `get_amount`: the model multiplies inline (`cx.mul base index`) -/
theorem Tie_aave_get_amount (cx : ACtx) (base idx : Rat) :
    Py.aave_get_amount cx.toNumCtx base idx = .ok (cx.mul base idx) := by
  simp [Py.aave_get_amount, pure, Except.pure]

/-- `get_base_amount`: the model's `divE` (a zero index raises) -/
theorem Tie_aave_get_base_amount (cx : ACtx) (amount idx : Rat) :
    Py.aave_get_base_amount cx.toNumCtx amount idx
      = (match divE cx amount idx with
         | .ok v => .ok v
         | .error _ => .error (if amount = 0 then .InvalidOperation else .DivisionByZero)) := by
  unfold Py.aave_get_base_amount divE Py.ddiv
  by_cases h : idx = 0
  · by_cases h2 : amount = 0 <;> simp [h, h2, bind, Except.bind]
  · simp [h, bind, Except.bind, pure, Except.pure]

theorem Tie.riskFrame_lt (env : Aave.Env) (k : String) :
    riskFrame env k "reserveLiquidationThreshold" = ofRes (·.lt) (env.riskOf k) := by
  unfold riskFrame ofRes
  cases env.riskOf k <;> simp

theorem Tie.riskFrame_ltv (env : Aave.Env) (k : String) :
    riskFrame env k "baseLTVasCollateral" = ofRes (·.ltv) (env.riskOf k) := by
  unfold riskFrame ofRes
  cases env.riskOf k <;> simp

theorem Tie.dsum_eq (cx : ACtx) (xs : List Rat) : Py.dsum cx.toNumCtx xs = Aave.dsum cx xs := rfl

/-- the list comprehension of `health_factor` -/
theorem Tie.hf_terms (cx : ACtx) (env : Aave.Env) (colls : List (String × Rat)) :
    colls.mapM (fun (x : String × Rat) => match x with
        | (key, s) => do
          let t2 ← riskFrame env key "reserveLiquidationThreshold"
          (pure (cx.toNumCtx.mul s t2) : Py.M Rat))
      = ofRes id (colls.mapM (fun p => do let r ← env.riskOf p.1; pure (cx.mul p.2 r.lt))) := by
  induction colls with
  | nil => rfl
  | cons p rest ih =>
    obtain ⟨k, s⟩ := p
    rw [List.mapM_cons, List.mapM_cons, ih]
    dsimp only
    rw [riskFrame_lt]
    cases h : env.riskOf k with
    | error e => simp [ofRes, bind, Except.bind]
    | ok r =>
      cases h2 : List.mapM (fun p => do let r ← env.riskOf p.1; pure (cx.mul p.2 r.lt)) rest with
      | error e => simp [ofRes, bind, Except.bind, pure, Except.pure]
      | ok v => simp [ofRes, bind, Except.bind, pure, Except.pure]

theorem Tie_aave_health_factor (cx : ACtx) (env : Aave.Env) (colls bors : List (String × Rat)) :
    Py.aave_health_factor cx.toNumCtx colls bors (riskFrame env) = ofRes xdec (hfOf cx env colls bors) := by
  unfold Py.aave_health_factor hfOf
  simp only [hf_terms, dsum_eq, Tie_aave_safe_div]
  cases List.mapM (fun p => do let r ← env.riskOf p.1; pure (cx.mul p.2 r.lt)) colls with
  | error e => simp [ofRes, bind, Except.bind]
  | ok v => simp [ofRes, vals, bind, Except.bind, pure, Except.pure]

/-- the accumulation loop of `max_ltv` -/
theorem Tie.ltv_loop (cx : ACtx) (env : Aave.Env) (colls : List (String × Rat)) (acc : Rat) :
    (forIn colls acc (fun (x : String × Rat) (r : Rat) => match x with
        | (t, s) => do
          let t1 ← riskFrame env t "baseLTVasCollateral"
          (pure (ForInStep.yield (cx.toNumCtx.add r (cx.toNumCtx.mul s t1))) : Py.M (ForInStep Rat))))
      = ofRes id (colls.foldlM (fun acc p => do let r ← env.riskOf p.1; pure (cx.add acc (cx.mul p.2 r.ltv))) acc) := by
  induction colls generalizing acc with
  | nil => rfl
  | cons p rest ih =>
    obtain ⟨k, s⟩ := p
    rw [List.forIn_cons, List.foldlM_cons]
    dsimp only
    rw [riskFrame_ltv]
    cases h : env.riskOf k with
    | error e => simp [ofRes, bind, Except.bind]
    | ok r => exact ih _

theorem Tie_aave_max_ltv (cx : ACtx) (env : Aave.Env) (colls : List (String × Rat)) :
    Py.aave_max_ltv cx.toNumCtx colls (riskFrame env) = ofRes xdec (maxLtvOf cx env colls) := by
  unfold Py.aave_max_ltv maxLtvOf
  simp only [ltv_loop, dsum_eq, Tie_aave_safe_div]
  cases List.foldlM (fun acc p => do let r ← env.riskOf p.1; pure (cx.add acc (cx.mul p.2 r.ltv))) (0 : Rat) colls with
  | error e => simp [ofRes, bind, Except.bind]
  | ok v => simp [ofRes, vals, bind, Except.bind, pure, Except.pure]

/-- the accumulation loop of `total_liquidation_threshold` (two running sums) -/
theorem Tie.lt_loop (cx : ACtx) (env : Aave.Env) (colls : List (String × Rat)) (acc : Rat × Rat) :
    (forIn colls acc (fun (x : String × Rat) (r : Rat × Rat) => match x with
        | (t, s) => do
          let t1 ← riskFrame env t "reserveLiquidationThreshold"
          (pure (ForInStep.yield (cx.toNumCtx.add r.1 s, cx.toNumCtx.add r.2 (cx.toNumCtx.mul s t1))) : Py.M (ForInStep (Rat × Rat)))))
      = ofRes id (colls.foldlM (fun (acc : Rat × Rat) p => do
          let r ← env.riskOf p.1
          pure (cx.add acc.1 p.2, cx.add acc.2 (cx.mul p.2 r.lt))) acc) := by
  induction colls generalizing acc with
  | nil => rfl
  | cons p rest ih =>
    obtain ⟨k, s⟩ := p
    rw [List.forIn_cons, List.foldlM_cons]
    dsimp only
    rw [riskFrame_lt]
    cases h : env.riskOf k with
    | error e => simp [ofRes, bind, Except.bind]
    | ok r => exact ih _

theorem Tie_aave_total_liquidation_threshold (cx : ACtx) (env : Aave.Env) (colls : List (String × Rat)) :
    Py.aave_total_liquidation_threshold cx.toNumCtx colls (riskFrame env) = ofRes xdec (liqThresholdOf cx env colls) := by
  unfold Py.aave_total_liquidation_threshold liqThresholdOf
  simp only [lt_loop, Tie_aave_safe_div]
  cases List.foldlM (fun (acc : Rat × Rat) p => do
          let r ← env.riskOf p.1
          pure (cx.add acc.1 p.2, cx.add acc.2 (cx.mul p.2 r.lt))) ((0 : Rat), (0 : Rat)) colls with
  | error e => simp [ofRes, bind, Except.bind]
  | ok v => simp [ofRes, bind, Except.bind, pure, Except.pure]

end Demeter
