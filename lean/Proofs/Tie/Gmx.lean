/-
  Tie.Gmx — `GmxMarket.get_fee_basis_points` and `_collect_swap_fee` as GENERATED from demeter/gmx/market.py
  (Demeter/Gen/PyGmxMarket.lean) coincide with the hand-written model Demeter/GmxV1.lean (`feeBpsCore`, `afterFee`),
  for every rounding context.  The method's reads of `self` (the token's usdg amount in the data row, the target amount,
  the two basis-point settings) are parameters of the generated definition.
-/
import Demeter.Gen.PyGmxMarket
import Demeter.GmxV1
import Proofs.Tie.Basic
import Mathlib.Tactic.Ring
import Mathlib.Tactic.SplitIfs
import Mathlib.Data.Rat.Cast.Order
set_option linter.unusedSimpArgs false
namespace Demeter
namespace Tie end Tie
open Tie Py GmxV1

theorem Tie_gmx_collect_swap_fee (cx : NumCtx) (tok : String) (amount fee : Rat) :
    Py.gmx__collect_swap_fee cx tok amount fee = .ok (afterFee cx amount fee) := by
  unfold Py.gmx__collect_swap_fee afterFee
  -- the divisor may be written as a literal (`/ 10000`: emitted as `cx.div`) or as a named constant (emitted as the raising `Py.ddiv`)
  simp [Gen.gmxBpsDivisor, pure, Except.pure, bind, Except.bind, ddiv_ok _ _ _ (by norm_num : (10000 : Rat) ≠ 0)]

theorem Tie_gmx_get_fee_basis_points (cx : NumCtx) (tok : String) (initial usdgAmount target : Rat) (increase : Bool) :
    Py.gmx_get_fee_basis_points cx initial target (Gen.gmxMintBurnFeeBps : Int) (Gen.gmxTaxBps : Int) tok usdgAmount increase
      = .ok (feeBpsCore cx initial usdgAmount target increase).1 := by
  unfold Py.gmx_get_fee_basis_points feeBpsCore
  by_cases ht : target = 0
  · simp [ht, pure, Except.pure]
  · simp only [ht, if_false, ddiv_ok _ _ _ ht, bind, Except.bind, pure, Except.pure]
    unfold feeFromDiffs nextAmount absDiff
    cases increase <;> simp <;> split_ifs <;> rfl

end Demeter
