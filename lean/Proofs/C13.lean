/-
  C13 — every derived Aave view always equals a from-scratch recomputation.

  Model: `Demeter.Aave` (the five `DictCache`s are part of the state, every public read is an operation that may
  fill caches, every write resets what the code resets — `/repo/demeter/aave/market.py` after the repairs
  304deb1 `change_collateral` resets `_supplies_cache`, 07ef1e2 `withdraw` undoes its trial deduction,
  c25cbec a cache is filled only after every entry could be computed).
  Spec: `specView` (`Demeter/Aave/Spec.lean`) — pure functions of `_supplies`, `_borrows`, the bar's indices,
  rates, prices and the risk table; no cache involved.

  All theorems hold for **every arithmetic context** `cx` (rounding is irrelevant to coherence).
  Hypotheses: `EnvOK` (a token listed in the bar's data has a price and a risk row), `EnvPos` (non-zero indices),
  and on a bar change the new bar's data covers the tokens held.  No raise is excluded any more: the
  `DemeterError("variable_delt < actual_debt_to_liquidate")` of `_do_liquidate` used to sit after the seizure of the
  collateral and before the cache resets (and was reachable at exact collateral/debt ties under the 35-digit
  rounding); since the repair it is checked before anything is changed, so whatever `update()` raises, it leaves a
  coherent state.
-/
import Proofs.Lemmas.AaveLiqCoh
import Mathlib.Tactic.NormNum
namespace Demeter
open Aave

variable {cx : ACtx} {env : Env}

/-- **one step keeps coherence** — every operation (public read, supply, withdraw, borrow, repay with cash or
    collateral, change_collateral, end-of-bar liquidation), accepted or rejected, maps a coherent state to a
    coherent state. -/
theorem C13_step_coherent (hE : EnvOK env) (hP : EnvPos env) (s : St) (hs : Good cx env s) (op : Op)
    (hop : op ≠ .newBar) :
    Good cx env (step cx env s op).2 := by
  have lift : ∀ (m : M Unit), Good cx env (m s).2 → Good cx env (unitM m s).2 := by
    intro m h
    unfold unitM mapM'
    rcases hm : m s with ⟨r, s1⟩
    rw [hm] at h
    cases r <;> exact h
  cases op with
  | supply t a c => exact lift _ (inv_supply hE t a c s hs)
  | withdraw t a => exact lift _ (inv_withdraw t a s hs)
  | borrow t a => exact lift _ (inv_borrow hE t a s hs)
  | repay t a w c => exact lift _ (inv_repay t a w c s hs)
  | changeCollateral t c => exact lift _ (inv_changeCollateral t c s hs)
  | update => exact lift _ (inv_liquidate hE hP s hs)
  | read v => exact readInv_good.readView v s hs
  | newBar => exact absurd rfl hop

/-- **a new bar**: `set_market_status` resets all five caches, so the state is coherent for the new bar's data
    as soon as that data covers the tokens held. -/
theorem C13_newBar_coherent {env' : Env} (s : St) (hs : Good cx env s)
    (c1 : Covers env' s.supplies) (c2 : Covers env' s.borrows) : Good cx env' (step cx env' s .newBar).2 := by
  show Good cx env' (unitM newBar s).2
  exact inv_newBar hs.1.nd hs.2.nd c1 c2

/-- **every public read = recomputation from scratch** in a coherent state, whatever mixture of cold and
    filled caches it meets; the read itself changes neither the positions nor coherence. -/
theorem C13_read_eq_scratch (s : St) (hs : Good cx env s) (v : View) :
    (step cx env s (.read v)).1 = specView cx env s.supplies s.borrows v ∧
    (step cx env s (.read v)).2.supplies = s.supplies ∧ (step cx env s (.read v)).2.borrows = s.borrows := by
  obtain ⟨h1, _, h3, h4⟩ := reads_readView (cx := cx) (env := env) v s hs
  exact ⟨h1, h3, h4⟩

/-- the states a market object can be in: start empty, then any interleaving of operations within a bar and
    of bar changes (the bar's data always lists the tokens held) -/
inductive AaveReachable (cx : ACtx) : Env → St → Prop
  | init {env : Env} : EnvOK env → EnvPos env → AaveReachable cx env St.init
  | step {env : Env} {s : St} (op : Op) : AaveReachable cx env s → op ≠ .newBar →
      AaveReachable cx env (step cx env s op).2
  | newBar {env env' : Env} {s : St} : AaveReachable cx env s → EnvOK env' → EnvPos env' →
      Covers env' s.supplies → Covers env' s.borrows → AaveReachable cx env' (step cx env' s .newBar).2

theorem good_init : Good cx env St.init :=
  ⟨⟨List.nodup_nil, fun _ h => absurd h (by simp [St.init]), CohC.fresh _, CohC.fresh _, CohC.fresh _⟩,
   ⟨List.nodup_nil, fun _ h => absurd h (by simp [St.init]), CohC.fresh _, CohC.fresh _⟩⟩

/-- **coherence is an invariant of every history**: reads, writes, rejected calls, liquidations and bar changes
    in any order. -/
theorem C13_coherent (s : St) (h : AaveReachable cx env s) : EnvOK env ∧ EnvPos env ∧ Good cx env s := by
  induction h with
  | init hE hP => exact ⟨hE, hP, good_init⟩
  | step op _ hop ih => exact ⟨ih.1, ih.2.1, C13_step_coherent ih.1 ih.2.1 _ ih.2.2 op hop⟩
  | newBar _ hE hP c1 c2 ih => exact ⟨hE, hP, C13_newBar_coherent _ ih.2.2 c1 c2⟩

/-- **the property**: after any such history, every derived view read from the market equals what is recomputed
    from scratch from the current positions, indices and prices. -/
theorem C13_view_eq_scratch (s : St) (h : AaveReachable cx env s) (v : View) :
    (step cx env s (.read v)).1 = specView cx env s.supplies s.borrows v :=
  (C13_read_eq_scratch s (C13_coherent s h).2.2 v).1

/-- a whole sequence of operations inside one bar -/
def runOps (cx : ACtx) (env : Env) : St → List Op → St
  | s, [] => s
  | s, op :: ops => runOps cx env (step cx env s op).2 ops

/-- **read–write–read interleavings inside one bar**: from a coherent state, after any list of operations
    (accepted, rejected or raising), any view read equals the recomputation on the positions reached. -/
theorem C13_interleaving (hE : EnvOK env) (hP : EnvPos env) (ops : List Op) : ∀ (s : St), Good cx env s →
    (∀ op ∈ ops, op ≠ .newBar) →
    ∀ v, (step cx env (runOps cx env s ops) (.read v)).1 =
      specView cx env (runOps cx env s ops).supplies (runOps cx env s ops).borrows v := by
  induction ops with
  | nil => intro s hs _ v; exact (C13_read_eq_scratch s hs v).1
  | cons op ops ih =>
    intro s hs hnb v
    have h1 : Good cx env (step cx env s op).2 :=
      C13_step_coherent hE hP s hs op (hnb op (List.mem_cons_self ..))
    exact ih _ h1 (fun o ho => hnb o (List.mem_cons_of_mem _ ho)) v

/-- the recomputed per-token supply value is `base × liquidity_index × price` (each product rounded by `cx`) -/
theorem C13_supplies_value_formula (sup : AList String SupplyInfo) (vs : AList String Rat)
    (h : specSupAmt cx env sup = .ok vs) (hnd : (keys sup).Nodup) (k : String) (info : SupplyInfo)
    (hk : AList.get? sup k = some info) :
    ∃ st p, env.statusOf k = .ok st ∧ env.priceOf k = .ok p ∧
      AList.get? vs k = some (cx.mul (cx.mul info.base st.liqIdx) p) := by
  obtain ⟨x, hx1, hx2⟩ := scratchMap_get h hnd (mem_of_aget hk)
  unfold supValOf at hx1
  cases hst : env.statusOf k with
  | error e => rw [hst] at hx1; cases hx1
  | ok st =>
    cases hp : env.priceOf k with
    | error e => rw [hst, hp] at hx1; cases hx1
    | ok p =>
      rw [hst, hp] at hx1
      refine ⟨st, p, rfl, rfl, ?_⟩
      rw [hx2]
      cases hx1; rfl

/-- the listed supplies carry the collateral flag stored in `_supplies` (the view that was stale before 304deb1) -/
theorem C13_supplies_flag (sup : AList String SupplyInfo) (svs : AList String SupplyV)
    (h : specSupplies cx env sup = .ok svs) (hnd : (keys sup).Nodup) (k : String) (info : SupplyInfo)
    (hk : AList.get? sup k = some info) : ∃ sv, AList.get? svs k = some sv ∧ sv.coll = info.coll ∧ sv.base = info.base := by
  obtain ⟨x, hx1, hx2⟩ := scratchMap_get h hnd (mem_of_aget hk)
  refine ⟨x, hx2, ?_⟩
  unfold specSupplyOf at hx1
  cases hst : env.statusOf k with
  | error e => rw [hst] at hx1; cases hx1
  | ok st =>
    cases hv : supValOf cx env k info with
    | error e => rw [hst, hv] at hx1; cases hx1
    | ok val => rw [hst, hv] at hx1; cases hx1; exact ⟨rfl, rfl⟩

/-! ### non-vacuity -/

/-- a bar with two tokens -/
def c13Env : Env :=
  { status := [("WETH", ⟨1/100, 3/100, 11/10, 12/10⟩), ("USDC", ⟨1/100, 3/100, 1, 1⟩)],
    price := [("WETH", 1000), ("USDC", 1)],
    risk := [("WETH", ⟨true, 8/10, 825/1000, 5/100, true⟩), ("USDC", ⟨true, 8/10, 85/100, 4/100, true⟩)],
    isOpen := true }

example : EnvOK c13Env := by
  intro k st h
  unfold Env.statusOf c13Env at h
  unfold HasData Env.statusOf Env.priceOf Env.riskOf c13Env
  by_cases h1 : k = "WETH"
  · subst h1; exact ⟨⟨_, rfl⟩, ⟨_, rfl⟩, ⟨_, rfl⟩⟩
  · by_cases h2 : k = "USDC"
    · subst h2; exact ⟨⟨_, rfl⟩, ⟨_, rfl⟩, ⟨_, rfl⟩⟩
    · exfalso
      simp [aget_cons, optRes, Ne.symm h1, Ne.symm h2] at h

/-- a non-trivial coherent state: a collateral supply, a debt, one warm cache holding the recomputed value
    (10 × 1.1 × 1000 = 11000) and the others cold -/
example : ∃ s : St, s.supplies ≠ [] ∧ s.borrows ≠ [] ∧ s.supAmtC.empty = false ∧
    (∀ cx : ACtx, cx.rnd = id → Good cx c13Env s) := by
  refine ⟨{ St.init with supplies := [("WETH", ⟨10, true, 1⟩)], borrows := [("USDC", ⟨100, 1⟩)],
                          supAmtC := ⟨false, [("WETH", 11000)]⟩ }, by simp, by simp, rfl, ?_⟩
  intro cx hcx
  have hd : ∀ k, k = "WETH" ∨ k = "USDC" → HasData c13Env k := by
    intro k hk
    rcases hk with h | h <;> subst h <;> exact ⟨⟨_, rfl⟩, ⟨_, rfl⟩, ⟨_, rfl⟩⟩
  refine ⟨⟨by simp [keys], ?_, ?_, CohC.fresh _, CohC.fresh _⟩, ⟨by simp [keys], ?_, CohC.fresh _, CohC.fresh _⟩⟩
  · intro k hk; simp [keys] at hk; exact hd k (Or.inl hk)
  · refine Or.inr ⟨[("WETH", 11000)], ?_, rfl⟩
    simp [specSupAmt, scratchMap, supValOf, Env.statusOf, Env.priceOf, c13Env, optRes, NumCtx.mul, hcx,
      bind, Except.bind, pure, Except.pure]
    norm_num
  · intro k hk; simp [keys] at hk; exact hd k (Or.inr hk)

end Demeter
