/-
  C19, failing backtests — a strategy whose backtest ends in an exception takes nobody else's result away.

  `Manager.managerRunF` is `BacktestManager.run()` over strategies that may fail (`FStrat`: whether a backtest ends in
  an exception is an arbitrary function of the objects it is handed; what it leaves in them until then is arbitrary as
  before).  How `run()` treats a failure is read from the source on every run (`FailMode.current`): the in-process
  loop catches it per strategy, the pooled branches wait for every task.

  `C19_manager_failure_isolated` is the full statement for the current source: every list of strategies, every set of
  failing ones, every order, thread count, cpu count, platform (both pooled branches) and scheduling — the per-strategy
  results are exactly the solo results: `none` for the strategies that fail alone, the solo observation for all the
  others; and `run()` itself never re-raises (`C19_manager_never_reraises_a_backtest_failure`).
  `C19_manager_failure_isolated_of_safe` states which treatment of failures (and which copies) that rests on.
  `C19_fails_when_inprocess_failure_propagates` is the witness for the code before the repair (the strategies after
  a failing one never start), `C19_fails_when_pool_tasks_are_fetched_with_get` for the pooled variant.
-/
import Proofs.C19
namespace Demeter
open Manager

variable {M C V N P O : Type}

/-- the strategies of a list, forgetting whether they fail -/
abbrev Manager.plain (strats : List (FStrat M C V N P O)) : List (Strat M C V N P O) := strats.map (·.toStrat)

section steps
variable {env : Env M P} {md : Mode} {d : Data C V N P} {cfg : M} {s : FStrat M C V N P O} {rest : List (FStrat M C V N P O)}

/-- a backtest that may fail leaves the shared data as it found it -/
theorem Manager.startF_data (h : DataSafe env md d (plain (s :: rest))) (cfg : M) : (startF env md s cfg d).2.1 = d :=
  start_data (s := s.toStrat) (rest := plain rest) h cfg

/-- … and the configured markets -/
theorem Manager.startF_markets (h : MarketsSafe env md cfg (plain (s :: rest))) (d : Data C V N P) :
    (startF env md s cfg d).1 = cfg :=
  start_markets (s := s.toStrat) (rest := plain rest) h d

/-- its result — whether there is one, and which — is the one of a plain run on the configured markets -/
theorem Manager.startF_res (h : AttachSafe env md cfg) (d : Data C V N P) :
    (startF env md s cfg d).2.2 = if s.fails cfg d then none else some (s.run cfg d).2.2 := by
  simp only [startF, attached_eq h, start_obs h]

end steps

/-- what the source says on this run: the in-process loop of `run()` calls `_start_with_param_data` inside a `try` whose
    handler catches `Exception` and does not re-raise; both pooled branches collect their tasks with `.wait()` (one flag each) -/
theorem C19_failure_handling_pinned :
    FailMode.current = ⟨true, true, true⟩ ∧ Gen.managerCatchesInProcessFailure = true ∧
    Gen.managerForkPoolWaitsForTasks = true ∧ Gen.managerArgsPoolWaitsForTasks = true := by
  decide

/-- **sequential path with the handler**: every strategy's result is the solo one — none if it fails alone, its solo
    observation otherwise — whatever the strategies before it did, failing or not -/
theorem C19_sequential_failure_isolated (env : Env M P) (md : Mode) (cfg : M) (d : Data C V N P)
    (strats : List (FStrat M C V N P O)) (hm : MarketsSafe env md cfg (plain strats)) (hd : DataSafe env md d (plain strats)) :
    runSeqF env md true cfg d strats = specF cfg d strats := by
  induction strats with
  | nil => rfl
  | cons s rest ih =>
    have hm' : MarketsSafe env md cfg (plain (s :: rest)) := hm
    have hd' : DataSafe env md d (plain (s :: rest)) := hd
    simp only [runSeqF, specF, List.map_cons, Bool.not_true, Bool.and_false, Bool.false_eq_true, if_false,
      startF_data hd' cfg, startF_markets hm' d, startF_res (MarketsSafe.attach (rest := plain rest) hm) d]
    congr 1
    exact ih (MarketsSafe.tail (s := s.toStrat) hm) (DataSafe.tail (s := s.toStrat) hd)

/-- **pooled path (fork)**: for every assignment of tasks to worker processes, every result is the solo one; a worker
    that executed a failing task serves its next task as a fresh one would -/
theorem C19_pooled_failure_isolated (env : Env M P) (md : Mode) (cfg : M) (d : Data C V N P) (assign : Nat → Nat)
    (strats : List (FStrat M C V N P O)) (hm : AttachSafe env md cfg) (hd : DataSafe env md d (plain strats))
    (i0 : Nat) (w : Nat → Data C V N P) (hw : ∀ k, w k = d) :
    runPoolF env md cfg assign w i0 strats = specF cfg d strats := by
  induction strats generalizing w i0 with
  | nil => rfl
  | cons s rest ih =>
    have hd' : DataSafe env md d (plain (s :: rest)) := hd
    simp only [runPoolF, specF, List.map_cons, hw, startF_res hm d]
    congr 1
    apply ih (DataSafe.tail (s := s.toStrat) hd)
    intro k
    split
    · exact startF_data hd' cfg
    · rfl

/-- **pooled path with the data pickled per task** (Windows branch) -/
theorem C19_windows_pool_failure_isolated (env : Env M P) (md : Mode) (cfg : M) (d : Data C V N P)
    (strats : List (FStrat M C V N P O)) (hm : AttachSafe env md cfg) :
    runPoolArgsF env md cfg d strats = specF cfg d strats := by
  simp only [runPoolArgsF, specF, startF_res hm d]

/-- with the handler in the loop and `.wait()` in the pooled branches, `run()` never re-raises a backtest's exception -/
theorem Manager.managerRunF_not_aborted {env : Env M P} {md : Mode} {threads cpu : Nat} {windows ctxSet : Bool}
    {assign : Nat → Nat} {finished : Nat → Bool} {cfg : Option M} {d : Option (Data C V N P)}
    {strats : List (FStrat M C V N P O)} (res : List (Option O)) :
    managerRunF env md ⟨true, true, true⟩ threads cpu windows ctxSet assign finished cfg d strats ≠ .aborted res := by
  unfold managerRunF
  cases cfg <;> cases d <;> simp only [seqOutcome, poolOutcome, Bool.not_true, Bool.false_and, Bool.true_or,
    Bool.false_eq_true, if_false, if_true] <;> (try simp) <;> (repeat' split) <;> simp

/-- the branches of `run()` that return, with the handler and `.wait()` -/
theorem Manager.managerRunF_done {env : Env M P} {md : Mode} {threads cpu : Nat} {windows ctxSet : Bool} {assign : Nat → Nat}
    {finished : Nat → Bool} {cfg : M} {d : Data C V N P} {strats : List (FStrat M C V N P O)} {res : List (Option O)}
    (h : managerRunF env md ⟨true, true, true⟩ threads cpu windows ctxSet assign finished (some cfg) (some d) strats = .done res) :
    (strats = [] ∧ res = []) ∨ res = runSeqF env md true cfg d strats ∨ res = runPoolArgsF env md cfg d strats ∨
    res = runPoolF env md cfg assign (fun _ => d) 0 strats := by
  unfold managerRunF at h
  simp only [seqOutcome, poolOutcome, Bool.not_true, Bool.false_and, Bool.true_or, Bool.false_eq_true, if_false, if_true] at h
  split at h
  · rename_i hlen
    have : strats = [] := List.length_eq_zero_iff.mp (by omega)
    simp only [FOutcome.done.injEq] at h
    exact Or.inl ⟨this, h.symm⟩
  · split at h
    · simp only [FOutcome.done.injEq] at h
      exact Or.inr (Or.inl h.symm)
    · split at h
      · exact absurd h (by simp)
      · split at h
        · split at h
          · exact absurd h (by simp)
          · simp only [FOutcome.done.injEq] at h
            exact Or.inr (Or.inr (Or.inl h.symm))
        · split at h
          · exact absurd h (by simp)
          · split at h
            · exact absurd h (by simp)
            · simp only [FOutcome.done.injEq] at h
              exact Or.inr (Or.inr (Or.inr h.symm))

/-- **`BacktestManager.run()` over strategies that may fail, for any combination of copies**: if the in-process loop
    catches a backtest's exception and the pooled branches wait for their tasks, then — under the hypotheses of
    `C19_manager_isolated_of_safe`: per layer a private copy or strategies that do not write into it, failing
    strategies included — the results are the solo results, for every thread count, cpu count, platform and scheduling -/
theorem C19_manager_failure_isolated_of_safe (env : Env M P) (md : Mode) (threads cpu : Nat) (windows ctxSet : Bool)
    (assign : Nat → Nat) (finished : Nat → Bool) (cfg : M) (d : Data C V N P) (strats : List (FStrat M C V N P O))
    (hm : MarketsSafe env md cfg (plain strats)) (hd : DataSafe env md d (plain strats)) (res : List (Option O))
    (h : managerRunF env md ⟨true, true, true⟩ threads cpu windows ctxSet assign finished (some cfg) (some d) strats = .done res) :
    res = specF cfg d strats := by
  have ha : strats ≠ [] → AttachSafe env md cfg := by
    intro hne
    cases strats with
    | nil => exact absurd rfl hne
    | cons s rest => exact MarketsSafe.attach (s := s.toStrat) (rest := plain rest) hm
  rcases managerRunF_done h with ⟨h1, h2⟩ | h1 | h1 | h1
  · subst h1; subst h2; rfl
  · rw [h1]; exact C19_sequential_failure_isolated env md cfg d strats hm hd
  · rw [h1]
    cases strats with
    | nil => rfl
    | cons s rest => exact C19_windows_pool_failure_isolated env md cfg d _ (ha (by simp))
  · rw [h1]
    cases strats with
    | nil => rfl
    | cons s rest => exact C19_pooled_failure_isolated env md cfg d assign _ (ha (by simp)) hd 0 _ (fun _ => rfl)

/-- **`BacktestManager.run()`, full statement for backtests that may fail** (current source flags, pandas
    copy-on-write): whatever the strategies do to what they are handed, whichever of them fail — alone, or because of what
    they were handed — in whatever order they are listed, with whatever number of threads and cpus, on either pooled
    branch, under every scheduling: if `run()` returns, then per strategy, in the order of `strategies`, the result is
    that strategy's solo result — none exactly for the strategies whose solo backtest fails -/
theorem C19_manager_failure_isolated (env : Env M P) (threads cpu : Nat) (windows ctxSet : Bool) (assign : Nat → Nat)
    (finished : Nat → Bool) (cfg : M) (d : Data C V N P) (strats : List (FStrat M C V N P O)) (res : List (Option O))
    (h : managerRunF env (Mode.current true) FailMode.current threads cpu windows ctxSet assign finished (some cfg) (some d) strats
      = .done res) :
    res = specF cfg d strats := by
  rw [C19_current_code_pinned.1, C19_failure_handling_pinned.1] at h
  exact C19_manager_failure_isolated_of_safe env _ threads cpu windows ctxSet assign finished cfg d strats (Or.inl rfl)
    ⟨Or.inl rfl, Or.inl ⟨rfl, rfl⟩, Or.inl rfl, Or.inl rfl⟩ res h

/-- with the current source flags `run()` never re-raises the exception of a backtest, on any path -/
theorem C19_manager_never_reraises_a_backtest_failure (env : Env M P) (md : Mode) (threads cpu : Nat) (windows ctxSet : Bool)
    (assign : Nat → Nat) (finished : Nat → Bool) (cfg : Option M) (d : Option (Data C V N P))
    (strats : List (FStrat M C V N P O)) (res : List (Option O)) :
    managerRunF env md FailMode.current threads cpu windows ctxSet assign finished cfg d strats ≠ .aborted res := by
  rw [C19_failure_handling_pinned.1]
  exact managerRunF_not_aborted res

/-- in the supported configurations (at least one thread, not more threads than cpus, no start method fixed earlier)
    `run()` does return, however many backtests fail: the outcome is exactly the list of solo results -/
theorem C19_manager_with_failures_completes (env : Env M P) (threads cpu : Nat) (windows : Bool) (assign : Nat → Nat)
    (finished : Nat → Bool) (cfg : M) (d : Data C V N P) (strats : List (FStrat M C V N P O))
    (ht : 1 ≤ threads) (hc : threads ≤ cpu) :
    managerRunF env (Mode.current true) FailMode.current threads cpu windows false assign finished (some cfg) (some d) strats
      = .done (specF cfg d strats) := by
  have hex : ∃ res, managerRunF env (Mode.current true) FailMode.current threads cpu windows false assign finished
      (some cfg) (some d) strats = .done res := by
    rw [C19_failure_handling_pinned.1]
    unfold managerRunF
    simp only [seqOutcome, poolOutcome, Bool.not_true, Bool.false_and, Bool.true_or, Bool.false_eq_true, if_false, if_true]
    split
    · exact ⟨_, rfl⟩
    · split
      · exact ⟨_, rfl⟩
      · rw [if_neg (by omega)]
        split
        · rw [if_neg (by omega)]; exact ⟨_, rfl⟩
        · rw [if_neg (by omega)]
          exact ⟨_, rfl⟩
  obtain ⟨res, hres⟩ := hex
  rw [hres, C19_manager_failure_isolated env threads cpu windows false assign finished cfg d strats res hres]

/-- **failure isolation, each strategy separately**: a strategy whose solo backtest does not fail has exactly its solo
    result — whatever the other strategies are, wherever they stand in the list and whichever of them fail … -/
theorem C19_non_failing_strategy_as_alone (env : Env M P) (threads cpu : Nat) (windows ctxSet : Bool) (assign : Nat → Nat)
    (finished : Nat → Bool) (cfg : M) (d : Data C V N P) (strats : List (FStrat M C V N P O)) (res : List (Option O))
    (h : managerRunF env (Mode.current true) FailMode.current threads cpu windows ctxSet assign finished (some cfg) (some d) strats
      = .done res)
    (i : Nat) (hi : i < strats.length) (hok : strats[i].fails cfg d = false) :
    res[i]? = some (some ((strats[i].run cfg d).2.2)) := by
  rw [C19_manager_failure_isolated env threads cpu windows ctxSet assign finished cfg d strats res h]
  simp [specF, hi, hok]

/-- … and a strategy whose solo backtest fails has none (and nothing else happens to the call: the list of results has
    an entry for every strategy) -/
theorem C19_failing_strategy_has_no_result (env : Env M P) (threads cpu : Nat) (windows ctxSet : Bool) (assign : Nat → Nat)
    (finished : Nat → Bool) (cfg : M) (d : Data C V N P) (strats : List (FStrat M C V N P O)) (res : List (Option O))
    (h : managerRunF env (Mode.current true) FailMode.current threads cpu windows ctxSet assign finished (some cfg) (some d) strats
      = .done res)
    (i : Nat) (hi : i < strats.length) (hbad : strats[i].fails cfg d = true) :
    res[i]? = some none ∧ res.length = strats.length := by
  rw [C19_manager_failure_isolated env threads cpu windows ctxSet assign finished cfg d strats res h]
  simp [specF, hi, hbad]

/-- **order, thread count and the set of failing strategies are immaterial**: two runs of the same strategies in
    different orders, with different thread counts, platforms and schedules report the same results up to that reordering -/
theorem C19_failures_order_and_threads_immaterial (env : Env M P) (t1 t2 cpu1 cpu2 : Nat) (w1 w2 c1 c2 : Bool)
    (as1 as2 : Nat → Nat) (f1 f2 : Nat → Bool) (cfg : M) (d : Data C V N P) (s1 s2 : List (FStrat M C V N P O))
    (hperm : s1.Perm s2) (r1 r2 : List (Option O))
    (h1 : managerRunF env (Mode.current true) FailMode.current t1 cpu1 w1 c1 as1 f1 (some cfg) (some d) s1 = .done r1)
    (h2 : managerRunF env (Mode.current true) FailMode.current t2 cpu2 w2 c2 as2 f2 (some cfg) (some d) s2 = .done r2) :
    r1.Perm r2 := by
  rw [C19_manager_failure_isolated env t1 cpu1 w1 c1 as1 f1 cfg d s1 r1 h1,
    C19_manager_failure_isolated env t2 cpu2 w2 c2 as2 f2 cfg d s2 r2 h2]
  exact hperm.map _

/-- **the other strategies' failures are immaterial**: replace every other strategy by any other one (failing or not):
    the `i`-th result stays -/
theorem C19_result_independent_of_other_strategies (env : Env M P) (t1 t2 cpu1 cpu2 : Nat) (w1 w2 c1 c2 : Bool)
    (as1 as2 : Nat → Nat) (f1 f2 : Nat → Bool) (cfg : M) (d : Data C V N P) (s1 s2 : List (FStrat M C V N P O))
    (r1 r2 : List (Option O))
    (h1 : managerRunF env (Mode.current true) FailMode.current t1 cpu1 w1 c1 as1 f1 (some cfg) (some d) s1 = .done r1)
    (h2 : managerRunF env (Mode.current true) FailMode.current t2 cpu2 w2 c2 as2 f2 (some cfg) (some d) s2 = .done r2)
    (i j : Nat) (hi : i < s1.length) (hj : j < s2.length) (same : s1[i] = s2[j]) :
    r1[i]? = r2[j]? := by
  rw [C19_manager_failure_isolated env t1 cpu1 w1 c1 as1 f1 cfg d s1 r1 h1,
    C19_manager_failure_isolated env t2 cpu2 w2 c2 as2 f2 cfg d s2 r2 h2]
  simp [specF, hi, hj, same]

/-! ### consistency with the model without failures -/

theorem Manager.runSeqF_neverFails (env : Env M P) (md : Mode) (catches : Bool) (cfg : M) (d : Data C V N P)
    (strats : List (Strat M C V N P O)) :
    runSeqF env md catches cfg d (strats.map Strat.neverFails) = (runSeq env md cfg d strats).map some := by
  induction strats generalizing cfg d with
  | nil => rfl
  | cons s rest ih => simp [runSeqF, runSeq, startF, Strat.neverFails, ih]

theorem Manager.runPoolF_neverFails (env : Env M P) (md : Mode) (cfg : M) (assign : Nat → Nat) (w : Nat → Data C V N P) (i0 : Nat)
    (strats : List (Strat M C V N P O)) :
    runPoolF env md cfg assign w i0 (strats.map Strat.neverFails) = (runPool env md cfg assign w i0 strats).map some := by
  induction strats generalizing w i0 with
  | nil => rfl
  | cons s rest ih => simp [runPoolF, runPool, startF, Strat.neverFails, ih]

theorem Manager.runPoolArgsF_neverFails (env : Env M P) (md : Mode) (cfg : M) (d : Data C V N P)
    (strats : List (Strat M C V N P O)) :
    runPoolArgsF env md cfg d (strats.map Strat.neverFails) = (runPoolArgs env md cfg d strats).map some := by
  simp [runPoolArgsF, runPoolArgs, startF, Strat.neverFails]

/-- how an outcome of the model without failures reads in the model with failures -/
def Manager.Outcome.lift : Outcome O → FOutcome O
  | .done obs => .done (obs.map some)
  | .raised cls => .raised cls

/-- when no backtest fails, `managerRunF` is `managerRun` (same dispatch, same data flow), whatever the treatment of
    failures: the theorems about `managerRun` are the special case "nobody fails" of the ones above -/
theorem C19_without_failures_same_as_plain_manager (env : Env M P) (md : Mode) (fm : FailMode) (threads cpu : Nat)
    (windows ctxSet : Bool) (assign : Nat → Nat) (finished : Nat → Bool) (cfg : Option M) (d : Option (Data C V N P))
    (strats : List (Strat M C V N P O)) :
    managerRunF env md fm threads cpu windows ctxSet assign finished cfg d (strats.map Strat.neverFails)
      = (managerRun env md threads cpu windows ctxSet assign cfg d strats).lift := by
  have hany : ∀ l : List O, (l.map some).any Option.isNone = false := by
    intro l; induction l <;> simp_all
  unfold managerRunF managerRun
  cases cfg <;> cases d <;> simp only [Outcome.lift, List.length_map, runSeqF_neverFails, runPoolF_neverFails,
    runPoolArgsF_neverFails, seqOutcome, poolOutcome, hany, Bool.and_false, Bool.not_false, Bool.or_true,
    Bool.false_eq_true, if_false, if_true]
  repeat' split
  all_goals first | rfl | simp_all

/-! ### the defect that was repaired, and the pooled variant of it, on their witnesses

Projection as in `Proofs.C19`: a strategy observes what it *found*.  `raiser` fails always (an exception from `on_bar`);
`adder` opens a position; `idle` does nothing. -/

abbrev Manager.PFStrat := FStrat PM Nat Nat Nat (Nat × Bool) (PM × PData)
/-- (instance search gives up on the nested products below `Option (List (Option _))` without a shortcut) -/
instance Manager.instDecidableEqProbeObs : DecidableEq (PM × PData) := inferInstance
def Manager.raiser : PFStrat := probeFStrat eff0 true
def Manager.adder : PFStrat := probeFStrat { eff0 with posA := 1 } false
def Manager.idle : PFStrat := probeFStrat eff0 false
/-- what a strategy finds in untouched objects -/
def Manager.fresh : PM × PData := ((0, 0, true), pd0)

/-- without the handler in the in-process loop (the code before the repair: `actuator = _start_with_param_data(…)`,
    `e_callback(actuator)`): the exception of the second strategy leaves `run()`, and the third strategy — which alone
    produces a result — never starts.  Every copy of the current code is in place; only the treatment of the failure
    differs.  With the handler the same call gives everybody the solo result. -/
theorem C19_fails_when_inprocess_failure_propagates :
    (¬ (∀ (strats : List PFStrat),
        (managerRunF (probeEnv false false) (Mode.current true) ⟨false, true, true⟩ 1 1 false false id (fun _ => true)
          (some (0, 0, true)) (some pd0) strats).results = some (specF (0, 0, true) pd0 strats))) ∧
    managerRunF (probeEnv false false) (Mode.current true) ⟨false, true, true⟩ 1 1 false false id (fun _ => true)
      (some (0, 0, true)) (some pd0) [adder, raiser, idle] = .aborted [some fresh, none, none] ∧
    specF (0, 0, true) pd0 [adder, raiser, idle] = [some fresh, none, some fresh] ∧
    managerRunF (probeEnv false false) (Mode.current true) ⟨true, true, true⟩ 1 1 false false id (fun _ => true)
      (some (0, 0, true)) (some pd0) [adder, raiser, idle] = .done [some fresh, none, some fresh] := by
  refine ⟨?_, by decide, by decide, by decide⟩
  intro h
  have := h [adder, raiser, idle]
  revert this
  decide

/-- the pooled variant: were the tasks of a pooled branch fetched with `.get()` instead of `.wait()`, the first failing
    task would re-raise inside the `with Pool` block and the workers would be terminated: a task that is not finished by
    then (here: none of the later ones) has no result although its backtest succeeds alone — on the forked branch, and
    on the Windows branch; the handler in the in-process loop does not help there.  Each branch has its own flag, which
    matters on that branch only. -/
theorem C19_fails_when_pool_tasks_are_fetched_with_get :
    (¬ (∀ (finished : Nat → Bool) (strats : List PFStrat),
        (managerRunF (probeEnv false false) (Mode.current true) ⟨true, false, true⟩ 2 2 false false (fun i => i % 2) finished
          (some (0, 0, true)) (some pd0) strats).results = some (specF (0, 0, true) pd0 strats))) ∧
    (¬ (∀ (finished : Nat → Bool) (strats : List PFStrat),
        (managerRunF (probeEnv false false) (Mode.current true) ⟨true, true, false⟩ 2 2 true false (fun i => i % 2) finished
          (some (0, 0, true)) (some pd0) strats).results = some (specF (0, 0, true) pd0 strats))) ∧
    managerRunF (probeEnv false false) (Mode.current true) ⟨true, false, true⟩ 2 2 false false (fun i => i % 2) (fun _ => false)
      (some (0, 0, true)) (some pd0) [adder, raiser, idle] = .aborted [some fresh, none, none] ∧
    managerRunF (probeEnv false false) (Mode.current true) ⟨true, true, false⟩ 2 2 true false (fun i => i % 2) (fun _ => false)
      (some (0, 0, true)) (some pd0) [adder, raiser, idle] = .aborted [some fresh, none, none] ∧
    managerRunF (probeEnv false false) (Mode.current true) ⟨true, false, true⟩ 2 2 true false (fun i => i % 2) (fun _ => false)
      (some (0, 0, true)) (some pd0) [adder, raiser, idle] = .done [some fresh, none, some fresh] ∧
    (∀ windows, managerRunF (probeEnv false false) (Mode.current true) ⟨true, true, true⟩ 2 2 windows false (fun i => i % 2) (fun _ => false)
      (some (0, 0, true)) (some pd0) [adder, raiser, idle] = .done [some fresh, none, some fresh]) := by
  refine ⟨?_, ?_, by decide, by decide, by decide, by decide⟩
  · intro h
    have := h (fun _ => false) [adder, raiser, idle]
    revert this
    decide
  · intro h
    have := h (fun _ => false) [adder, raiser, idle]
    revert this
    decide

/-- failure isolation needs the copies as well: with the configured markets attached directly (the original `_start`),
    a strategy that fails only when it finds somebody else's position — alone it succeeds — fails under the manager
    after a strategy that opens one, handler or not -/
theorem C19_fails_when_a_leak_makes_a_strategy_fail :
    specF (0, 0, true) pd0 [adder, probeFStrat eff0 false true] = [some fresh, some fresh] ∧
    managerRunF (probeEnv false false) (Mode.original true) ⟨true, true, true⟩ 1 1 false false id (fun _ => true)
      (some (0, 0, true)) (some pd0) [adder, probeFStrat eff0 false true] = .done [some fresh, none] ∧
    managerRunF (probeEnv false false) (Mode.current true) ⟨true, true, true⟩ 1 1 false false id (fun _ => true)
      (some (0, 0, true)) (some pd0) [adder, probeFStrat eff0 false true] = .done [some fresh, some fresh] := by
  decide

/-! ### non-vacuity -/
/-- the hypotheses of `C19_manager_failure_isolated_of_safe` hold for the current code on a list with failing strategies
    that write into every layer before they fail -/
example : MarketsSafe (probeEnv true true) (Mode.current true) ((0, 0, true) : PM)
    (plain [probeFStrat ⟨1, 0, 1, 1, 2, 5, 1⟩ true, idle]) := Or.inl (by decide)
example : DataSafe (probeEnv true true) (Mode.current true) pd0 (plain [probeFStrat ⟨1, 0, 1, 1, 2, 5, 1⟩ true, idle]) :=
  ⟨Or.inl (by decide), Or.inl (by decide), Or.inl (by decide), Or.inl (by decide)⟩
/-- the hypothesis of `C19_manager_failure_isolated` is satisfiable — sequential, forked pool, Windows pool — by strategies
    of which the first and the third fail after writing into everything they were handed: the others find pristine objects -/
example : managerRunF (probeEnv true true) (Mode.current true) FailMode.current 1 8 false false id (fun _ => false)
    (some (0, 0, true)) (some pd0) [probeFStrat ⟨1, 0, 1, 1, 2, 5, 1⟩ true, adder, raiser, probeFStrat ⟨0, 1, 0, 0, 0, 3, 0⟩ false true]
    = .done [none, some fresh, none, some fresh] := by decide
example : managerRunF (probeEnv true true) (Mode.current true) FailMode.current 2 8 false false (fun i => i % 2) (fun _ => false)
    (some (0, 0, true)) (some pd0) [probeFStrat ⟨1, 0, 1, 1, 2, 5, 1⟩ true, adder, raiser, probeFStrat ⟨0, 1, 0, 0, 0, 3, 0⟩ false true]
    = .done [none, some fresh, none, some fresh] := by decide
example : managerRunF (probeEnv true true) (Mode.current true) FailMode.current 4 8 true false (fun _ => 0) (fun _ => false)
    (some (0, 0, true)) (some pd0) [probeFStrat ⟨1, 0, 1, 1, 2, 5, 1⟩ true, adder, raiser, probeFStrat ⟨0, 1, 0, 0, 0, 3, 0⟩ false true]
    = .done [none, some fresh, none, some fresh] := by decide
/-- `hok` / `hbad` of the per-strategy theorems: both kinds of strategy exist in one list -/
example : adder.fails (0, 0, true) pd0 = false ∧ raiser.fails (0, 0, true) pd0 = true := by decide
/-- the code before the repair on the failing input of the repair commit: strategies [raiser, add liquidity, buy], threads = 1 -/
example : managerRunF (probeEnv false false) (Mode.current true) FailMode.beforeRepair 1 8 false false id (fun _ => false)
    (some (0, 0, true)) (some pd0) [raiser, adder, probeFStrat { eff0 with posB := 1 } false]
    = .aborted [none, none, none] := by decide
/-- … and with threads = 2 (the pooled path was never affected) -/
example : managerRunF (probeEnv false false) (Mode.current true) FailMode.beforeRepair 2 8 false false (fun i => i % 2) (fun _ => false)
    (some (0, 0, true)) (some pd0) [raiser, adder, probeFStrat { eff0 with posB := 1 } false]
    = .done [none, some fresh, some fresh] := by decide

end Demeter
