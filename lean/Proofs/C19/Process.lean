/-
  C19, process-wide state — what outlives a backtest inside an interpreter process.

  `Manager.GStrat` is a backtest that may read and write the state `G` of the process it runs in (decimal context,
  class-level attributes such as the former `Snapshot.market_status`, module globals); `runSeqG` threads `G` through
  the in-process loop, `runPoolG` / `runPoolArgsG` keep one `G` per worker process across the tasks that worker
  executes, for every assignment of tasks to workers.

  `C19_manager_isolated` is the statement of the property with the explicit hypothesis `GIntact`: every backtest of
  the list ignores the process state, or every backtest leaves it as it found it (and a spawned worker starts from the
  caller's state).  Without it the statement is false: `C19_fails_when_process_state_is_written` (a backtest that
  writes `G` changes the result of a later one in the same process / on the same worker, and not on another worker).
  `C19_process_state_reduces` is the reduction behind it: under `GIntact` a run with process state is the run of
  `Proofs/C19/Failure.lean` on the backtests taken at the caller's state, so every theorem there carries over.

  What `GIntact` means for the code: the harness measures it on every backtest (decimal context and the class-level
  attributes of `Snapshot` before and after, in the caller's process and inside pool workers) — a change is reported as
  a violation by itself; strategies that change the decimal context themselves are outside the hypothesis.
-/
import Proofs.C19.Failure
namespace Demeter
open Manager

variable {G M C V N P O : Type}

/-- no backtest of the list depends on the process state it finds -/
def Manager.GIgnores (strats : List (GStrat G M C V N P O)) : Prop := ∀ s ∈ strats, ∀ g g', s.strat g = s.strat g'
/-- every backtest of the list leaves the process state as it found it (also when it fails) -/
def Manager.GRestores (strats : List (GStrat G M C V N P O)) : Prop := ∀ s ∈ strats, ∀ g m d, s.leaves g m d = g
/-- the hypothesis of the property on process-wide state: nobody reads it, or nobody leaves it changed and spawned
    workers start from the state of the caller's process -/
def Manager.GIntact (g gSpawn : G) (strats : List (GStrat G M C V N P O)) : Prop :=
  GIgnores strats ∨ (GRestores strats ∧ gSpawn = g)

/-- the backtests of a list, each taken at process state `g` -/
abbrev Manager.atState (g : G) (strats : List (GStrat G M C V N P O)) : List (FStrat M C V N P O) := strats.map (fun s => s.strat g)

/-- a set `K` of process states in which every backtest behaves as at `g` and which no backtest leaves -/
structure Manager.GClosed (g : G) (K : G → Prop) (strats : List (GStrat G M C V N P O)) : Prop where
  same : ∀ s ∈ strats, ∀ g', K g' → s.strat g' = s.strat g
  stays : ∀ s ∈ strats, ∀ g' m d, K g' → K (s.leaves g' m d)

theorem Manager.GClosed.tail {g : G} {K : G → Prop} {s : GStrat G M C V N P O} {rest : List (GStrat G M C V N P O)}
    (h : GClosed g K (s :: rest)) : GClosed g K rest :=
  ⟨fun t ht => h.same t (List.mem_cons_of_mem _ ht), fun t ht => h.stays t (List.mem_cons_of_mem _ ht)⟩

theorem Manager.GClosed.of_ignores {g : G} {strats : List (GStrat G M C V N P O)} (h : GIgnores strats) :
    GClosed g (fun _ => True) strats :=
  ⟨fun s hs g' _ => h s hs g' g, fun _ _ _ _ _ _ => trivial⟩

theorem Manager.GClosed.of_restores {g : G} {strats : List (GStrat G M C V N P O)} (h : GRestores strats) :
    GClosed g (fun g' => g' = g) strats :=
  ⟨fun _ _ g' hg => by rw [hg], fun s hs g' m d hg => by rw [h s hs g' m d]; exact hg⟩

/-- in-process loop: inside a closed set of process states the loop is the one without process state -/
theorem Manager.runSeqG_closed (env : Env M P) (md : Mode) (catches : Bool) (g : G) (K : G → Prop)
    (strats : List (GStrat G M C V N P O)) (h : GClosed g K strats) (g' : G) (hg : K g') (cfg : M) (d : Data C V N P) :
    runSeqG env md catches g' cfg d strats = runSeqF env md catches cfg d (atState g strats) := by
  induction strats generalizing g' cfg d with
  | nil => rfl
  | cons s rest ih =>
    have e := h.same s List.mem_cons_self g' hg
    simp only [runSeqG, runSeqF, atState, List.map_cons, startG, e, List.map_map]
    split
    · simp
    · congr 1
      exact ih h.tail _ (h.stays s List.mem_cons_self g' _ _ hg) _ _

/-- forked pool: the same per worker, for every assignment -/
theorem Manager.runPoolG_closed (env : Env M P) (md : Mode) (cfg : M) (assign : Nat → Nat) (g : G) (K : G → Prop)
    (strats : List (GStrat G M C V N P O)) (h : GClosed g K strats) (w : Nat → G × Data C V N P) (hw : ∀ k, K (w k).1) (i : Nat) :
    runPoolG env md cfg assign w i strats = runPoolF env md cfg assign (fun k => (w k).2) i (atState g strats) := by
  induction strats generalizing w i with
  | nil => rfl
  | cons s rest ih =>
    have e := h.same s List.mem_cons_self _ (hw (assign i))
    simp only [runPoolG, runPoolF, atState, List.map_cons, startG, e]
    congr 1
    rw [ih h.tail]
    · congr 1
      funext j
      split <;> rfl
    · intro k
      split
      · exact h.stays s List.mem_cons_self _ _ _ (hw (assign i))
      · exact hw k

/-- pool with the data pickled per task: the workers' process states are the only thing tasks could share -/
theorem Manager.runPoolArgsG_closed (env : Env M P) (md : Mode) (cfg : M) (d : Data C V N P) (assign : Nat → Nat) (g : G)
    (K : G → Prop) (strats : List (GStrat G M C V N P O)) (h : GClosed g K strats) (wg : Nat → G) (hw : ∀ k, K (wg k)) (i : Nat) :
    runPoolArgsG env md cfg d assign wg i strats = runPoolArgsF env md cfg d (atState g strats) := by
  induction strats generalizing wg i with
  | nil => rfl
  | cons s rest ih =>
    have e := h.same s List.mem_cons_self _ (hw (assign i))
    simp only [runPoolArgsG, runPoolArgsF, atState, List.map_cons, startG, e, List.map_map]
    congr 1
    rw [ih h.tail]
    · simp [runPoolArgsF, atState]
    · intro k
      split
      · exact h.stays s List.mem_cons_self _ _ _ (hw (assign i))
      · exact hw k

/-- **reduction**: under `GIntact`, `run()` inside a process with state `g` is `managerRunF` on the backtests taken at
    `g` — whatever the copies (`md`), the treatment of failures (`fm`), threads, platform, scheduling -/
theorem C19_process_state_reduces (env : Env M P) (md : Mode) (fm : FailMode) (threads cpu : Nat) (windows ctxSet : Bool)
    (assign : Nat → Nat) (finished : Nat → Bool) (g gSpawn : G) (cfg : Option M) (d : Option (Data C V N P))
    (strats : List (GStrat G M C V N P O)) (hg : GIntact g gSpawn strats) :
    managerRunG env md fm threads cpu windows ctxSet assign finished g gSpawn cfg d strats
      = managerRunF env md fm threads cpu windows ctxSet assign finished cfg d (atState g strats) := by
  cases cfg with
  | none => rfl
  | some cfg =>
    cases d with
    | none => rfl
    | some d =>
      simp only [managerRunG, managerRunF, atState, List.length_map]
      rcases hg with hi | ⟨hr, hsp⟩
      · have hc : GClosed g (fun _ => True) strats := GClosed.of_ignores hi
        rw [runSeqG_closed env md _ g _ strats hc g trivial cfg d,
          runPoolG_closed env md cfg assign g _ strats hc _ (fun _ => trivial) 0,
          runPoolArgsG_closed env md cfg d assign g _ strats hc _ (fun _ => trivial) 0]
      · have hc : GClosed g (fun g' => g' = g) strats := GClosed.of_restores hr
        rw [runSeqG_closed env md _ g _ strats hc g rfl cfg d,
          runPoolG_closed env md cfg assign g _ strats hc _ (fun _ => rfl) 0,
          runPoolArgsG_closed env md cfg d assign g _ strats hc _ (fun _ => hsp) 0]

/-- **`BacktestManager.run()`, full statement** (current source flags, pandas copy-on-write): the backtests run inside
    interpreter processes — the caller's, or pool workers for any assignment of tasks to workers — whose state `G` they
    may read and write.  If every backtest ignores that state, or every backtest leaves it as it found it (`GIntact`), then
    whatever the strategies do to the objects they are handed, whichever of them fail, in whatever order, with whatever
    number of threads and cpus, on either pooled branch, under every scheduling: if `run()` returns, then per strategy,
    in the order of `strategies`, the result is the one of that strategy run alone in a process of its own with state `g` -/
theorem C19_manager_isolated (env : Env M P) (threads cpu : Nat) (windows ctxSet : Bool) (assign : Nat → Nat)
    (finished : Nat → Bool) (g gSpawn : G) (cfg : M) (d : Data C V N P) (strats : List (GStrat G M C V N P O))
    (hg : GIntact g gSpawn strats) (res : List (Option O))
    (h : managerRunG env (Mode.current true) FailMode.current threads cpu windows ctxSet assign finished g gSpawn (some cfg) (some d) strats
      = .done res) :
    res = specG g cfg d strats := by
  rw [C19_process_state_reduces _ _ _ _ _ _ _ _ _ g gSpawn _ _ strats hg] at h
  exact C19_manager_failure_isolated env threads cpu windows ctxSet assign finished cfg d _ res h

/-- … and `run()` does not re-raise a backtest's exception either -/
theorem C19_manager_with_process_state_never_reraises (env : Env M P) (md : Mode) (threads cpu : Nat) (windows ctxSet : Bool)
    (assign : Nat → Nat) (finished : Nat → Bool) (g gSpawn : G) (cfg : Option M) (d : Option (Data C V N P))
    (strats : List (GStrat G M C V N P O)) (hg : GIntact g gSpawn strats) (res : List (Option O)) :
    managerRunG env md FailMode.current threads cpu windows ctxSet assign finished g gSpawn cfg d strats ≠ .aborted res := by
  rw [C19_process_state_reduces _ _ _ _ _ _ _ _ _ g gSpawn _ _ strats hg]
  exact C19_manager_never_reraises_a_backtest_failure env md threads cpu windows ctxSet assign finished cfg d _ res

/-- the old statement as a corollary: backtests without process-wide state are `GIntact` in every process, so their run
    is the one of `C19_manager_failure_isolated` whatever the process states are -/
theorem C19_stateless_backtests_isolated (env : Env M P) (threads cpu : Nat) (windows ctxSet : Bool) (assign : Nat → Nat)
    (finished : Nat → Bool) (g gSpawn : G) (cfg : M) (d : Data C V N P) (strats : List (FStrat M C V N P O)) (res : List (Option O))
    (h : managerRunG env (Mode.current true) FailMode.current threads cpu windows ctxSet assign finished g gSpawn (some cfg) (some d)
      (strats.map FStrat.stateless) = .done res) :
    res = specF cfg d strats := by
  have hg : GIntact g gSpawn (strats.map (FStrat.stateless (G := G))) := by
    left
    intro s hs g1 g2
    obtain ⟨t, _, rfl⟩ := List.mem_map.mp hs
    rfl
  have := C19_manager_isolated env threads cpu windows ctxSet assign finished g gSpawn cfg d _ hg res h
  simpa [specG, FStrat.stateless, List.map_map, Function.comp_def] using this

/-- **the process the caller gets back**: if every backtest restores the process state, the in-process loop leaves the
    caller's process as it found it — a later `run()` or a later plain `Actuator.run()` in that process starts from `g` too -/
theorem C19_process_state_left_as_found (env : Env M P) (md : Mode) (g : G) (cfg : M) (d : Data C V N P)
    (strats : List (GStrat G M C V N P O)) (hr : GRestores strats) :
    seqLeaves env md g cfg d strats = g := by
  induction strats generalizing cfg d with
  | nil => rfl
  | cons s rest ih =>
    simp only [seqLeaves, startG, hr s List.mem_cons_self]
    exact ih _ _ (fun t ht => hr t (List.mem_cons_of_mem _ ht))

/-! ### what the framework itself leaves in the process -/

abbrev Manager.PGStrat := GStrat Nat PM Nat Nat Nat (Nat × Bool) ((PM × PData) × Nat)
/-- changes the process state (sets the decimal precision and does not set it back; publishes into a class-level dict) -/
def Manager.gWriter : PGStrat := probeGStrat eff0 false 1
/-- reads the process state and changes nothing -/
def Manager.gReader : PGStrat := probeGStrat eff0 false 0

/-- what the source says on this run: the `Snapshot` class holds no object shared by its instances (`market_status` is
    `field(default_factory=MarketDict)`), so publishing the statuses of a bar writes into that snapshot only -/
theorem C19_process_state_flags_pinned : Gen.snapshotHoldsNoSharedObject = true := by decide

/-- the Actuator, as the source is now, adds no write of its own: strategies that restore the process state make backtests
    that restore it, whatever a bar publishes -/
theorem C19_actuator_leaves_process_state (publish : G → M → Data C V N P → G) (strats : List (GStrat G M C V N P O))
    (hr : GRestores strats) : GRestores (strats.map (GStrat.underActuator Gen.snapshotHoldsNoSharedObject publish)) := by
  intro s hs g m d
  obtain ⟨t, ht, rfl⟩ := List.mem_map.mp hs
  simp only [GStrat.underActuator, C19_process_state_flags_pinned, if_true]
  exact hr t ht g m d

/-- **the property for strategies that leave the process state alone, run by the Actuator as it is**: the hypothesis is
    on the strategies only -/
theorem C19_manager_isolated_for_restoring_strategies (env : Env M P) (threads cpu : Nat) (windows ctxSet : Bool) (assign : Nat → Nat)
    (finished : Nat → Bool) (g : G) (publish : G → M → Data C V N P → G) (cfg : M) (d : Data C V N P)
    (strats : List (GStrat G M C V N P O)) (hr : GRestores strats) (res : List (Option O))
    (h : managerRunG env (Mode.current true) FailMode.current threads cpu windows ctxSet assign finished g g (some cfg) (some d)
      (strats.map (GStrat.underActuator Gen.snapshotHoldsNoSharedObject publish)) = .done res) :
    res = specG g cfg d strats := by
  have := C19_manager_isolated env threads cpu windows ctxSet assign finished g g cfg d _
    (Or.inr ⟨C19_actuator_leaves_process_state publish strats hr, rfl⟩) res h
  simpa [specG, GStrat.underActuator, List.map_map, Function.comp_def] using this

/-- with a class-level `Snapshot.market_status` (the code before the repair a78c4ba) the Actuator itself writes the
    process state on every bar: two strategies that touch nothing — the second one looks at what the `Snapshot` class holds
    when it starts and finds the statuses the first backtest published last -/
theorem C19_fails_when_snapshot_status_is_class_level :
    GRestores [gReader, gReader] ∧
    managerRunG (probeEnv false false) (Mode.current true) FailMode.current 1 8 false false id (fun _ => true) 0 0
        (some (0, 0, true)) (some pd0) ([gReader, gReader].map (GStrat.underActuator false (fun g _ _ => g + 1)))
      ≠ .done (specG 0 (0, 0, true) pd0 [gReader, gReader]) := by
  constructor
  · intro s hs g m d
    simp only [List.mem_cons, List.not_mem_nil, or_false, or_self] at hs
    subst hs
    simp [gReader, probeGStrat]
  · decide

/-! ### the hypothesis is needed -/

/-- **a backtest that writes process-wide state changes a later one in the same process** — with every copy the code
    makes today: on the in-process path the reader run after the writer finds the changed state; on the forked path when
    the scheduler gives both tasks to the same worker, and likewise with the data pickled per task; on different workers
    it does not -/
theorem C19_fails_when_process_state_is_written :
    (¬ (∀ (strats : List PGStrat) (res : List (Option ((PM × PData) × Nat))),
          managerRunG (probeEnv false false) (Mode.current true) FailMode.current 1 8 false false id (fun _ => true) 0 0
            (some (0, 0, true)) (some pd0) strats = .done res → res = specG 0 (0, 0, true) pd0 strats)) ∧
    (¬ (∀ (assign : Nat → Nat) (strats : List PGStrat) (res : List (Option ((PM × PData) × Nat))),
          managerRunG (probeEnv false false) (Mode.current true) FailMode.current 2 8 false false assign (fun _ => true) 0 0
            (some (0, 0, true)) (some pd0) strats = .done res → res = specG 0 (0, 0, true) pd0 strats)) ∧
    (¬ (∀ (assign : Nat → Nat) (strats : List PGStrat) (res : List (Option ((PM × PData) × Nat))),
          managerRunG (probeEnv false false) (Mode.current true) FailMode.current 2 8 true false assign (fun _ => true) 0 0
            (some (0, 0, true)) (some pd0) strats = .done res → res = specG 0 (0, 0, true) pd0 strats)) ∧
    managerRunG (probeEnv false false) (Mode.current true) FailMode.current 2 8 false false id (fun _ => true) 0 0
        (some (0, 0, true)) (some pd0) [gWriter, gReader] = .done (specG 0 (0, 0, true) pd0 [gWriter, gReader]) := by
  refine ⟨?_, ?_, ?_, by decide⟩
  · intro h
    have := h [gWriter, gReader] _ rfl
    revert this
    decide
  · intro h
    have := h (fun _ => 0) [gWriter, gReader] _ rfl
    revert this
    decide
  · intro h
    have := h (fun _ => 0) [gWriter, gReader] _ rfl
    revert this
    decide

/-- a spawned worker starts from a fresh interpreter: a caller that changed the process state before `run()` (say
    `getcontext().prec = 50`) gets other results from the spawned pool than in-process, although every backtest restores
    the state — the clause `gSpawn = g` of `GIntact` is needed -/
theorem C19_fails_when_spawned_workers_start_from_another_state :
    GRestores [gReader, gReader] ∧
    managerRunG (probeEnv false false) (Mode.current true) FailMode.current 2 8 true false id (fun _ => true) 5 0
        (some (0, 0, true)) (some pd0) [gReader, gReader] ≠ .done (specG 5 (0, 0, true) pd0 [gReader, gReader]) := by
  constructor
  · intro s hs g m d
    simp only [List.mem_cons, List.not_mem_nil, or_false, or_self] at hs
    subst hs
    simp [gReader, probeGStrat]
  · decide

/-! ### non-vacuity -/
/-- a reader and a backtest that writes nothing satisfy the "restores" half and not the "ignores" half -/
example : GIntact (0 : Nat) 0 [gReader, gReader] ∧ ¬ GIgnores [gReader] := by
  refine ⟨Or.inr ⟨?_, rfl⟩, ?_⟩
  · intro s hs g m d
    simp only [List.mem_cons, List.not_mem_nil, or_false, or_self] at hs
    subst hs
    simp [gReader, probeGStrat]
  · intro h
    have := congrArg (fun (t : FStrat PM Nat Nat Nat (Nat × Bool) ((PM × PData) × Nat)) => (t.run (0, 0, true) pd0).2.2.2)
      (h gReader List.mem_cons_self 0 1)
    revert this
    decide
/-- a writer that nobody reads: the "ignores" half (lifted stateless backtests) -/
example : GIntact (3 : Nat) 7 [FStrat.stateless (G := Nat) adder, FStrat.stateless raiser] := by
  left
  intro s hs g g'
  simp only [List.mem_cons, List.not_mem_nil, or_false] at hs
  rcases hs with rfl | rfl <;> rfl
/-- the writer does not satisfy it together with a reader -/
example : ¬ GRestores [gWriter, gReader] := by
  intro h
  have := h gWriter List.mem_cons_self 0 (0, 0, true) pd0
  revert this
  decide
/-- readers only, three of them on two workers, one of them failing: everybody finds the caller's state -/
example : managerRunG (probeEnv true true) (Mode.current true) FailMode.current 2 8 false false (fun i => i % 2) (fun _ => false) 4 4
    (some (0, 0, true)) (some pd0) [gReader, probeGStrat eff0 true 0, gReader]
    = .done [some (fresh, 4), none, some (fresh, 4)] := by decide
/-- a writer first: in-process both later backtests find its write, on two workers (round robin) only the third -/
example : managerRunG (probeEnv true true) (Mode.current true) FailMode.current 1 8 false false id (fun _ => false) 0 0
    (some (0, 0, true)) (some pd0) [gWriter, gReader, gReader]
    = .done [some (fresh, 0), some (fresh, 1), some (fresh, 1)] := by decide
example : managerRunG (probeEnv true true) (Mode.current true) FailMode.current 2 8 false false (fun i => i % 2) (fun _ => false) 0 0
    (some (0, 0, true)) (some pd0) [gWriter, gReader, gReader]
    = .done [some (fresh, 0), some (fresh, 0), some (fresh, 1)] := by decide

end Demeter
