/-
  C17 — the v1 fee against the Vault's integer rule (`VaultUtils.getFeeBasisPoints`, model `vaultFeeBps`).
-/
import Proofs.Lemmas.GmxV1Spec
namespace Demeter
open Demeter.GmxV1 Demeter.Gmx

/-- **witness: at the rule's discontinuity the code and the Vault disagree by the whole fee range.**  The Vault's rule
    jumps from "rebate" to "tax" where the pool's distance from the target stops shrinking (`|next − T| = |initial − T|`).
    The code uses the fractional target `w·S/W`, the contract the rounded-down one; with `initial = 0`, `Δ = 2·⌊T⌋` and
    `T = 1000.5` the code sees an improvement (fee 0) and the contract does not (fee 25 + 60).  Finding
    `v1.fee.vault_rule.branch_edge`. -/
theorem C17_fails_v1_fee_within_1bp_at_mirror :
    ∃ (i u w S W : Nat) (inc : Bool), 0 < W ∧ 200 ≤ vaultTarget w S W ∧
      (feeBpsCore NumCtx.exact i u ((w : Rat) * S / W) inc).1 = 0 ∧
      vaultFeeBps i u (vaultTarget w S W) Gen.gmxMintBurnFeeBps Gen.gmxTaxBps inc = 85 :=
  ⟨0, 2000, 1, 2001, 2, true, by decide, by decide, by decide +kernel, by decide⟩

end Demeter
