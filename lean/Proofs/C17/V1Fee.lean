/-
  C17 — the v1 fee against the Vault's integer rule (`VaultUtils.getFeeBasisPoints` / `Vault.getTargetUsdgAmount`,
  reference model `vaultFeeBps` / `vaultTarget` in Demeter/GmxV1.lean).  The code computes target, average distance
  and rebate as fractions; the contract rounds each down.  Away from the rule's own discontinuity the two agree within
  one basis point (plus the target's rounding, `200 / target`); at the discontinuity they can differ by the whole range.
-/
import Proofs.Lemmas.GmxV1Fee
namespace Demeter
open Demeter.GmxV1 Demeter.Gmx

/-- the Vault's rule, given both integer distances from the (non-zero) target -/
def Gmx.vaultFromDiffs (idiff ndiff v f tx : Nat) : Nat :=
  if ndiff < idiff then
    (if tx * idiff / v > f then 0 else f - tx * idiff / v)
  else
    f + tx * (if (idiff + ndiff) / 2 > v then v else (idiff + ndiff) / 2) / v

theorem Gmx.vaultFeeBps_eq (i u v f tx : Nat) (inc : Bool) (hv : v ≠ 0) :
    vaultFeeBps i u v f tx inc = Gmx.vaultFromDiffs (natAbsDiff i v) (natAbsDiff (natNext i u inc) v) v f tx := by
  unfold vaultFeeBps Gmx.vaultFromDiffs natAbsDiff natNext
  simp only [hv, if_false]

theorem C17_v1_fee_vault_within_1bp (i u w S W : Nat) (inc : Bool) (hW : 0 < W)
    (hT : 200 ≤ vaultTarget w S W)
    (hmirror : ((natNext i u inc : Nat) : Int) + i - 2 * (vaultTarget w S W : Nat) ≤ -1 ∨
               2 ≤ ((natNext i u inc : Nat) : Int) + i - 2 * (vaultTarget w S W : Nat)) :
    |(feeBpsCore NumCtx.exact i u ((w : Rat) * S / W) inc).1
        - ((vaultFeeBps i u (vaultTarget w S W) Gen.gmxMintBurnFeeBps Gen.gmxTaxBps inc : Nat) : Rat)|
      ≤ 1 + 200 / ((w : Rat) * S / W) := by
  have hS : S ≠ 0 := by
    intro h; unfold vaultTarget at hT; simp [h] at hT
  have hvdef : vaultTarget w S W = w * S / W := by unfold vaultTarget; simp [hS]
  set v := vaultTarget w S W with hv
  set n := natNext i u inc with hn
  set t : Rat := (w : Rat) * S / W with ht
  obtain ⟨hvt, htv⟩ := natdiv_bounds (w * S) W hW
  rw [← hvdef] at hvt htv
  have hcast : (((w * S : Nat)) : Rat) / W = t := by rw [ht]; push_cast; ring
  rw [hcast] at hvt htv
  have hv200 : (200 : Rat) ≤ v := by exact_mod_cast hT
  have ht0 : t ≠ 0 := by linarith
  have hv0 : v ≠ 0 := by omega
  have hvpos : 0 < v := by omega
  -- the code's side
  unfold feeBpsCore
  simp only [ht0, if_false]
  rw [nextAmount_cast, absDiff_eq_abs, absDiff_eq_abs, ← hn]
  -- the Vault's side
  rw [Gmx.vaultFeeBps_eq _ _ _ _ _ _ hv0, ← hn]
  unfold Gmx.vaultFromDiffs feeFromDiffs
  simp only [NumCtx.exact_add, NumCtx.exact_sub, NumCtx.exact_mul, NumCtx.exact_div, bps25, bps60]
  have hb25 : Gen.gmxMintBurnFeeBps = 25 := rfl
  have hb60 : Gen.gmxTaxBps = 60 := rfl
  rw [hb25, hb60]
  -- branch decisions agree
  have hk : ((n : Rat)) + i - 2 * v ≤ -1 ∨ 2 ≤ ((n : Rat)) + i - 2 * v := by
    rcases hmirror with h | h
    · left; exact_mod_cast h
    · right; exact_mod_cast h
  have hbr := branch_agree (n := (n : Rat)) (i := (i : Rat)) hvt htv hk
  have hcastlt : (natAbsDiff n v < natAbsDiff i v) ↔ (|(n : Rat) - v| < |(i : Rat) - v|) := by
    rw [← natAbsDiff_cast, ← natAbsDiff_cast]; exact_mod_cast Iff.rfl
  have ht200 : 0 ≤ 200 / t := by
    have : 0 < t := by linarith
    positivity
  have hfst : ∀ (c : Prop) [Decidable c] (a b : Rat) (x y : FeeBranch), (if c then (a, x) else (b, y)).1 = if c then a else b := by
    intros; split <;> rfl
  by_cases hlt : natAbsDiff n v < natAbsDiff i v
  · -- both take the rebate branch
    have hlt' : |(n : Rat) - t| < |(i : Rat) - t| := hbr.mpr (hcastlt.mp hlt)
    simp only [hlt, hlt', if_true]
    have hrb := natdiv_bounds (60 * natAbsDiff i v) v hvpos
    have hc : (((60 * natAbsDiff i v : Nat)) : Rat) = 60 * |(i : Rat) - v| := by push_cast; rw [natAbsDiff_cast]
    rw [hc] at hrb
    have hd : abs (abs ((i : Rat) - t) - abs ((i : Rat) - v)) ≤ t - v := by
      calc abs (abs ((i : Rat) - t) - abs ((i : Rat) - v)) ≤ abs (((i : Rat) - t) - ((i : Rat) - v)) := abs_abs_sub_abs_le_abs_sub _ _
        _ = t - v := by rw [show ((i : Rat) - t) - ((i : Rat) - v) = -(t - v) by ring, abs_neg, abs_of_nonneg (by linarith)]
    have key := fee_rebate_close hv200 hvt htv (abs_nonneg _) (abs_nonneg _) hd hrb.1 hrb.2
    -- cast the Vault's conditional
    have hvc : (((if 60 * natAbsDiff i v / v > 25 then 0 else 25 - 60 * natAbsDiff i v / v : Nat)) : Rat)
        = (if ((60 * natAbsDiff i v / v : Nat) : Rat) > 25 then (0 : Rat) else 25 - ((60 * natAbsDiff i v / v : Nat) : Rat)) := by
      by_cases h25 : 60 * natAbsDiff i v / v > 25
      · have : ((60 * natAbsDiff i v / v : Nat) : Rat) > 25 := by exact_mod_cast h25
        simp [h25, this]
      · have h25' : 60 * natAbsDiff i v / v ≤ 25 := not_lt.mp h25
        have : ¬ (((60 * natAbsDiff i v / v : Nat) : Rat) > 25) := by
          have : ((60 * natAbsDiff i v / v : Nat) : Rat) ≤ 25 := by exact_mod_cast h25'
          linarith
        simp [h25, this, Nat.cast_sub h25']
    rw [hvc, hfst]
    exact key
  · -- both take the tax branch
    have hlt' : ¬ |(n : Rat) - t| < |(i : Rat) - t| := fun h => hlt (hcastlt.mpr (hbr.mp h))
    simp only [hlt, hlt', if_false]
    have htpos : 0 < t := by linarith
    set D := |(i : Rat) - t| with hD
    set N := |(n : Rat) - t| with hN
    set m := (D + N) / 2 with hm
    have hm0 : 0 ≤ m := by rw [hm]; positivity
    -- the code's side as a floor
    have hpy : (if m > t then ((25 : Rat) + (truncInt (60 * t / t) : Rat), FeeBranch.taxCapped)
                else ((25 : Rat) + (truncInt (60 * m / t) : Rat), FeeBranch.tax)).1
        = 25 + ((⌊60 * (if m > t then t else m) / t⌋ : Int) : Rat) := by
      by_cases hc : m > t
      · simp only [hc, if_true]; rw [truncInt_eq_floor (by positivity)]
      · simp only [hc, if_false]; rw [truncInt_eq_floor (by positivity)]
    rw [hpy]
    -- the Vault's side as a floor
    set avgv : Nat := (natAbsDiff i v + natAbsDiff n v) / 2 with havgv
    have hav : (((if avgv > v then v else avgv : Nat)) : Rat) = (if (avgv : Rat) > v then (v : Rat) else avgv) := by
      by_cases hc : avgv > v
      · have : (avgv : Rat) > v := by exact_mod_cast hc
        simp [hc, this]
      · have : ¬ ((avgv : Rat) > v) := by
          have : (avgv : Rat) ≤ v := by exact_mod_cast (not_lt.mp hc)
          linarith
        simp [hc, this]
    have hvf : (((25 + 60 * (if avgv > v then v else avgv) / v : Nat)) : Rat)
        = 25 + ((⌊60 * (if (avgv : Rat) > v then (v : Rat) else avgv) / v⌋ : Int) : Rat) := by
      rw [Nat.cast_add, natdiv_cast_floor _ _ hvpos]
      push_cast
      simp only [gt_iff_lt, Nat.cast_lt]
    rw [hvf]
    -- the averages are within 2 of each other
    have hb2 := natdiv_bounds (natAbsDiff i v + natAbsDiff n v) 2 (by norm_num)
    have hsum : (((natAbsDiff i v + natAbsDiff n v : Nat)) : Rat) = |(i : Rat) - v| + |(n : Rat) - v| := by
      push_cast; rw [natAbsDiff_cast, natAbsDiff_cast]
    rw [hsum] at hb2
    have hdD : abs (D - |(i : Rat) - v|) ≤ t - v := by
      calc abs (abs ((i : Rat) - t) - abs ((i : Rat) - v)) ≤ abs (((i : Rat) - t) - ((i : Rat) - v)) := abs_abs_sub_abs_le_abs_sub _ _
        _ = t - v := by rw [show ((i : Rat) - t) - ((i : Rat) - v) = -(t - v) by ring, abs_neg, abs_of_nonneg (by linarith)]
    have hdN : abs (N - |(n : Rat) - v|) ≤ t - v := by
      calc abs (abs ((n : Rat) - t) - abs ((n : Rat) - v)) ≤ abs (((n : Rat) - t) - ((n : Rat) - v)) := abs_abs_sub_abs_le_abs_sub _ _
        _ = t - v := by rw [show ((n : Rat) - t) - ((n : Rat) - v) = -(t - v) by ring, abs_neg, abs_of_nonneg (by linarith)]
    have hma : |m - (avgv : Rat)| ≤ 2 := by
      have h1 := abs_le.mp hdD
      have h2 := abs_le.mp hdN
      have hcast2 : ((2 : Nat) : Rat) = 2 := by norm_num
      rw [hcast2] at hb2
      rw [abs_le, hm]
      constructor <;> linarith [hb2.1, hb2.2]
    have hclose := fee_tax_close hv200 hvt htv hm0 (by positivity : (0 : Rat) ≤ avgv) hma
    have hfl := floor_close hclose
    have : (25 : Rat) + ((⌊60 * (if m > t then t else m) / t⌋ : Int) : Rat)
        - (25 + ((⌊60 * (if (avgv : Rat) > v then (v : Rat) else avgv) / v⌋ : Int) : Rat))
        = ((⌊60 * (if m > t then t else m) / t⌋ : Int) : Rat) - ((⌊60 * (if (avgv : Rat) > v then (v : Rat) else avgv) / v⌋ : Int) : Rat) := by ring
    rw [this]
    linarith

/-- the same on a data row: `get_fee_basis_points(token, Δ, increase)` for a row whose USDG amount, weight, USDG supply and
    total weight are the naturals `i`, `w`, `S`, `W` -/
theorem C17_v1_fee_vault_within_1bp_row {env : Env} {tok : String} {r : TokenRow} (i u w S W : Nat) (inc : Bool) (hW : 0 < W)
    (hrow : env.row? tok = some r) (hi : r.usdg = i)
    (htarget : targetAmount NumCtx.exact env tok = .ok ((w : Rat) * S / W))
    (hT : 200 ≤ vaultTarget w S W)
    (hmirror : ((natNext i u inc : Nat) : Int) + i - 2 * (vaultTarget w S W : Nat) ≤ -1 ∨
               2 ≤ ((natNext i u inc : Nat) : Int) + i - 2 * (vaultTarget w S W : Nat)) :
    ∃ f br, feeBps NumCtx.exact env tok u inc = .ok (f, br) ∧
      |f - ((vaultFeeBps i u (vaultTarget w S W) Gen.gmxMintBurnFeeBps Gen.gmxTaxBps inc : Nat) : Rat)| ≤ 1 + 200 / ((w : Rat) * S / W) := by
  refine ⟨(feeBpsCore NumCtx.exact i u ((w : Rat) * S / W) inc).1, (feeBpsCore NumCtx.exact i u ((w : Rat) * S / W) inc).2, ?_,
    C17_v1_fee_vault_within_1bp i u w S W inc hW hT hmirror⟩
  unfold feeBps
  simp only [hrow, htarget, hi, bind, Except.bind, pure, Except.pure]

/-- **the two rules take the same branch (rebate / tax) unless `next + initial − 2·⌊T⌋ ∈ {0, 1}`** — the mirror image of the
    initial amount about the target, where the Vault's own rule jumps. -/
theorem C17_v1_fee_branch_agrees_off_mirror (i n v : Nat) (t : Rat) (hvt : (v : Rat) ≤ t) (htv : t < v + 1)
    (hk : (n : Int) + i - 2 * v ≤ -1 ∨ 2 ≤ (n : Int) + i - 2 * v) :
    (absDiff NumCtx.exact n t < absDiff NumCtx.exact i t) ↔ (natAbsDiff n v < natAbsDiff i v) := by
  rw [absDiff_eq_abs, absDiff_eq_abs]
  have hk' : ((n : Rat)) + i - 2 * v ≤ -1 ∨ 2 ≤ ((n : Rat)) + i - 2 * v := by
    rcases hk with h | h
    · left; exact_mod_cast h
    · right; exact_mod_cast h
  rw [branch_agree hvt htv hk', ← natAbsDiff_cast, ← natAbsDiff_cast]
  exact_mod_cast Iff.rfl

/-- **witness: at the rule's discontinuity the code and the Vault disagree by the whole fee range.**  With `initial = 0`,
    `Δ = 2·⌊T⌋` and `T = 1000.5` (weights 1 of 2, USDG supply 2001) the code sees an improvement (fee 0) and the contract
    does not (fee 25 + 60).  Finding `v1.fee.vault_rule.branch_edge`. -/
theorem C17_fails_v1_fee_within_1bp_at_mirror :
    ∃ (i u w S W : Nat) (inc : Bool), 0 < W ∧ 200 ≤ vaultTarget w S W ∧
      ((natNext i u inc : Nat) : Int) + i - 2 * (vaultTarget w S W : Nat) = 0 ∧
      (feeBpsCore NumCtx.exact i u ((w : Rat) * S / W) inc).1 = 0 ∧
      vaultFeeBps i u (vaultTarget w S W) Gen.gmxMintBurnFeeBps Gen.gmxTaxBps inc = 85 :=
  ⟨0, 2000, 1, 2001, 2, true, by decide, by decide, by decide, by decide +kernel, by decide⟩

/-! ### non-vacuity: the hypotheses of the 1-bp theorem hold on concrete pools, and both branches occur -/

/-- rebate branch: target 1000.5, initial 900, +50: code 25 − 60·100.5/1000.5 ≈ 18.97, Vault 25 − ⌊60·100/1000⌋ = 19 -/
example : 200 ≤ vaultTarget 1 2001 2 ∧ ((natNext 900 50 true : Nat) : Int) + 900 - 2 * (vaultTarget 1 2001 2 : Nat) ≤ -1 ∧
    vaultFeeBps 900 50 (vaultTarget 1 2001 2) 25 60 true = 19 ∧
    (feeBpsCore NumCtx.exact 900 50 ((1 : Rat) * 2001 / 2) true) = (12655 / 667, .rebate) := by
  refine ⟨by decide, by decide, by decide, by decide +kernel⟩

/-- tax branch: initial 1200, +300: code 25 + ⌊60·349.5/1000.5⌋ = 45, Vault 25 + ⌊60·350/1000⌋ = 46 -/
example : 2 ≤ ((natNext 1200 300 true : Nat) : Int) + 1200 - 2 * (vaultTarget 1 2001 2 : Nat) ∧
    vaultFeeBps 1200 300 (vaultTarget 1 2001 2) 25 60 true = 46 ∧
    (feeBpsCore NumCtx.exact 1200 300 ((1 : Rat) * 2001 / 2) true) = (45, .tax) := by
  refine ⟨by decide, by decide, by decide +kernel⟩

end Demeter
