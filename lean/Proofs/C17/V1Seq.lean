/-
  C17 — GMX v1: "every buy/sell sequence".  On a frozen row, ANY list of `buy_glp(tok, ·)`, `sell_glp(tok, ·)` (including
  `sell_glp(tok, 0)` = sell the whole holding) and `update()` calls, accepted or rejected, in any order and starting from any
  holding: whenever the GLP holding at the end is at least the holding at the start, the tokens received in total do not
  exceed the tokens paid in total.  (`C17_v1_roundtrip_no_profit` and `…_in_pieces…` are the instances "one buy, then sales".)
-/
import Proofs.C17
namespace Demeter
open Demeter.GmxV1 Demeter.Gmx

/-- what selling pays per share, for every accepted `sell_glp` — `glp_amount = 0` (sell everything held) included -/
theorem Gmx.sell_le_value_any {env : Env} (he : EnvPos env) {s s' : State} {tok : String} {dec : Nat} {ga out : Rat}
    (h : sellGlp NumCtx.exact env s tok dec ga = (.ok out, s')) :
    ∃ r, env.row? tok = some r ∧
      out * (r.price / 10 ^ 30) ≤ (if ga = 0 then s.glp else ga) * (aumU env / env.glpSupply) ∧
      s'.glp = s.glp - (if ga = 0 then s.glp else ga) ∧ 0 ≤ (if ga = 0 then s.glp else ga) := by
  have h1 := C17_v1_redeem_value_per_share he h
  obtain ⟨hg0, _, _, _, _, hs'⟩ := Gmx.sellGlp_ok (g := if ga = 0 then s.glp else ga) rfl h
  simp only [] at h1
  generalize (if ga = 0 then s.glp else ga) = g at h1 hg0 hs' ⊢
  obtain ⟨r, fee, br, U, hr, _, hf0, hf1, hU, _, hout⟩ := h1
  refine ⟨r, hr, ?_, by rw [hs'], hg0⟩
  have hP : 0 < r.price := he.price r (row_mem hr)
  have hp : 0 < r.price / 10 ^ 30 := by positivity
  have hV : 0 ≤ aumU env / env.glpSupply := div_nonneg (Gmx.aumU_nonneg he) (le_of_lt he.glpSupply)
  have hk0 : 0 ≤ 1 - fee / 10000 := by linarith
  have hk1 : 1 - fee / 10000 ≤ 1 := by linarith
  have e : out * (r.price / 10 ^ 30) = U / 10 ^ 18 * (1 - fee / 10000) := by
    rw [hout]; field_simp
  rw [e]
  by_cases hU0 : 0 ≤ U
  · calc U / 10 ^ 18 * (1 - fee / 10000) ≤ U / 10 ^ 18 * 1 := mul_le_mul_of_nonneg_left hk1 (by positivity)
      _ = U / 10 ^ 18 := mul_one _
      _ ≤ g * 10 ^ 18 * (aumU env / env.glpSupply) / 10 ^ 18 := div_le_div_of_nonneg_right hU (by positivity)
      _ = g * (aumU env / env.glpSupply) := by field_simp
  · have : U / 10 ^ 18 * (1 - fee / 10000) ≤ 0 := by
      apply mul_nonpos_of_nonpos_of_nonneg _ hk0
      apply div_nonpos_of_nonpos_of_nonneg (le_of_lt (not_le.mp hU0)) (by positivity)
    have : 0 ≤ g * (aumU env / env.glpSupply) := by positivity
    linarith

/-- the calls a strategy can make on one token of the GLP market within a bar -/
inductive Gmx.TokOp
  | buy (amount : Rat)        -- `buy_glp(tok, amount)`
  | sell (glpAmount : Rat)    -- `sell_glp(tok, glp_amount)`; 0 = everything held
  | update                    -- `update()`
deriving Repr

/-- the ledger of a run: state of the market, tokens paid into accepted buys, tokens received from accepted sales -/
structure Gmx.Ledger where
  st : State
  tokensIn : Rat
  tokensOut : Rat

/-- one call on the real step function; a rejected call moves no tokens (and, by `C04`, changes nothing) -/
def Gmx.Ledger.apply (env : Env) (tok : String) (dec : Nat) (l : Gmx.Ledger) : Gmx.TokOp → Gmx.Ledger
  | .buy a =>
    match step NumCtx.exact env l.st (.buy tok dec a) with
    | (.ok _, s') => { st := s', tokensIn := l.tokensIn + a, tokensOut := l.tokensOut }
    | (.error _, s') => { l with st := s' }
  | .sell g =>
    match step NumCtx.exact env l.st (.sell tok dec g) with
    | (.ok out, s') => { st := s', tokensIn := l.tokensIn, tokensOut := l.tokensOut + out }
    | (.error _, s') => { l with st := s' }
  | .update => { l with st := (step NumCtx.exact env l.st .update).2 }

/-- the invariant: tokens out − tokens in, at the token's price, never exceeds the value (per share) of the GLP given up -/
theorem Gmx.ledger_step {env : Env} (he : EnvPos env) (tok : String) (dec : Nat) (g0 : Rat) (l : Gmx.Ledger) (op : Gmx.TokOp)
    (hinv : (∀ r, env.row? tok = some r →
        (l.tokensOut - l.tokensIn) * (r.price / 10 ^ 30) ≤ (g0 - l.st.glp) * (aumU env / env.glpSupply)) ∧
      (env.row? tok = none → l.tokensOut = 0 ∧ l.tokensIn = 0)) :
    (∀ r, env.row? tok = some r →
        ((l.apply env tok dec op).tokensOut - (l.apply env tok dec op).tokensIn) * (r.price / 10 ^ 30)
          ≤ (g0 - (l.apply env tok dec op).st.glp) * (aumU env / env.glpSupply)) ∧
      (env.row? tok = none → (l.apply env tok dec op).tokensOut = 0 ∧ (l.apply env tok dec op).tokensIn = 0) := by
  obtain ⟨h1, h2⟩ := hinv
  cases op with
  | buy a =>
    unfold Gmx.Ledger.apply
    simp only [step]
    cases hb : buyGlp NumCtx.exact env l.st tok dec a with
    | mk res s' =>
      cases res with
      | error e =>
        have : s' = l.st := buyGlp_reject hb
        subst this
        exact ⟨h1, h2⟩
      | ok g =>
        obtain ⟨r, hr, hv⟩ := Gmx.buy_ge_value he hb
        obtain ⟨_, mint, fee, br, w, _, _, _, hs'⟩ := Gmx.buyGlp_ok hb
        refine ⟨fun r' hr' => ?_, fun hn => by rw [hn] at hr; cases hr⟩
        rw [hr] at hr'; cases hr'
        have := h1 r hr
        simp only []
        rw [hs']; simp only []
        nlinarith
  | sell ga =>
    unfold Gmx.Ledger.apply
    simp only [step]
    cases hb : sellGlp NumCtx.exact env l.st tok dec ga with
    | mk res s' =>
      cases res with
      | error e =>
        have : s' = l.st := sellGlp_reject hb
        subst this
        exact ⟨h1, h2⟩
      | ok out =>
        obtain ⟨r, hr, hv, hs', _⟩ := Gmx.sell_le_value_any he hb
        refine ⟨fun r' hr' => ?_, fun hn => by rw [hn] at hr; cases hr⟩
        rw [hr] at hr'; cases hr'
        have := h1 r hr
        simp only []
        rw [hs']
        nlinarith
  | update =>
    unfold Gmx.Ledger.apply
    have : (step NumCtx.exact env l.st .update).2.glp = l.st.glp := by
      show (update NumCtx.exact env l.st).2.glp = _
      unfold update; simp only []; split <;> rfl
    simp only []
    rw [this]
    exact ⟨h1, h2⟩

/-- **every buy/sell sequence on a frozen row**: for ANY list of `buy_glp` / `sell_glp` (0 = sell all) / `update` calls on one
    token — accepted or rejected, any amounts, any order, any starting state —, if the GLP holding at the end is at least the
    holding at the start, the tokens received from all the sales together do not exceed the tokens paid into all the buys. -/
theorem C17_v1_sequence_no_profit {env : Env} (he : EnvPos env) (tok : String) (dec : Nat) (ops : List Gmx.TokOp) (s : State) :
    let l := ops.foldl (Gmx.Ledger.apply env tok dec) { st := s, tokensIn := 0, tokensOut := 0 }
    s.glp ≤ l.st.glp → l.tokensOut ≤ l.tokensIn := by
  intro l hfin
  have key : ∀ (ops : List Gmx.TokOp) (l0 : Gmx.Ledger),
      ((∀ r, env.row? tok = some r →
        (l0.tokensOut - l0.tokensIn) * (r.price / 10 ^ 30) ≤ (s.glp - l0.st.glp) * (aumU env / env.glpSupply)) ∧
       (env.row? tok = none → l0.tokensOut = 0 ∧ l0.tokensIn = 0)) →
      ((∀ r, env.row? tok = some r →
        ((ops.foldl (Gmx.Ledger.apply env tok dec) l0).tokensOut - (ops.foldl (Gmx.Ledger.apply env tok dec) l0).tokensIn) * (r.price / 10 ^ 30)
          ≤ (s.glp - (ops.foldl (Gmx.Ledger.apply env tok dec) l0).st.glp) * (aumU env / env.glpSupply)) ∧
       (env.row? tok = none → (ops.foldl (Gmx.Ledger.apply env tok dec) l0).tokensOut = 0 ∧ (ops.foldl (Gmx.Ledger.apply env tok dec) l0).tokensIn = 0)) := by
    intro ops
    induction ops with
    | nil => intro l0 h; exact h
    | cons op ops ih => intro l0 h; exact ih _ (Gmx.ledger_step he tok dec s.glp l0 op h)
  obtain ⟨k1, k2⟩ := key ops { st := s, tokensIn := 0, tokensOut := 0 } ⟨fun r _ => by simp, fun _ => ⟨rfl, rfl⟩⟩
  cases hrow : env.row? tok with
  | none => obtain ⟨a, b⟩ := k2 hrow; show l.tokensOut ≤ l.tokensIn; rw [show l.tokensOut = 0 from a, show l.tokensIn = 0 from b]
  | some r =>
    have h := k1 r hrow
    have hP : 0 < r.price := he.price r (row_mem hrow)
    have hp : 0 < r.price / 10 ^ 30 := by positivity
    have hV : 0 ≤ aumU env / env.glpSupply := div_nonneg (Gmx.aumU_nonneg he) (le_of_lt he.glpSupply)
    have h0 : (s.glp - l.st.glp) * (aumU env / env.glpSupply) ≤ 0 :=
      mul_nonpos_of_nonpos_of_nonneg (by linarith) hV
    have : (l.tokensOut - l.tokensIn) * (r.price / 10 ^ 30) ≤ 0 := le_trans h h0
    by_contra hc
    rw [not_le] at hc
    have : 0 < (l.tokensOut - l.tokensIn) * (r.price / 10 ^ 30) := mul_pos (by linarith) hp
    linarith

/-- the ledger is the wallet: an accepted buy debits exactly `amount`, an accepted sale credits exactly the returned amount,
    nothing else touches the token's balance -/
theorem C17_v1_sequence_ledger_is_wallet_step {env : Env} (tok : String) (dec : Nat) (l : Gmx.Ledger) (op : Gmx.TokOp) :
    match op with
    | .buy a => (∀ g s', buyGlp NumCtx.exact env l.st tok dec a = (.ok g, s') →
        Wallet.debit NumCtx.exact l.st.wallet (walletKey tok) a false = .ok (l.apply env tok dec op).st.wallet ∧
        (l.apply env tok dec op).tokensIn = l.tokensIn + a)
    | .sell ga => (∀ out s', sellGlp NumCtx.exact env l.st tok dec ga = (.ok out, s') →
        (l.apply env tok dec op).st.wallet = Wallet.credit NumCtx.exact l.st.wallet (walletKey tok) out ∧
        (l.apply env tok dec op).tokensOut = l.tokensOut + out)
    | .update => (l.apply env tok dec op).st.wallet = l.st.wallet := by
  cases op with
  | buy a =>
    intro g s' hb
    obtain ⟨_, mint, fee, br, w, _, hw, _, hs'⟩ := Gmx.buyGlp_ok hb
    unfold Gmx.Ledger.apply
    simp only [step, hb]
    rw [hs']; exact ⟨hw, trivial⟩
  | sell ga =>
    intro out s' hb
    obtain ⟨_, _, _, _, _, hs'⟩ := Gmx.sellGlp_ok (g := if ga = 0 then l.st.glp else ga) rfl hb
    unfold Gmx.Ledger.apply
    simp only [step, hb]
    rw [hs']; exact ⟨rfl, trivial⟩
  | update =>
    show (l.apply env tok dec .update).st.wallet = l.st.wallet
    unfold Gmx.Ledger.apply
    show (update NumCtx.exact env l.st).2.wallet = _
    unfold update; simp only []; split <;> rfl

/-! ### non-vacuity: a sequence with two buys, a partial sale, a rejected sale, an update and a final sell-all -/

/-- buy 1 WETH, buy 0.5 WETH, sell 1000 GLP, try to sell 10⁹ GLP (rejected), update, sell everything (`sell_glp(weth, 0)`):
    all but the fourth call are accepted, the holding returns to 0, 1.5 WETH went in and less (but more than 1.49) came out -/
def Gmx.demoLedger : Gmx.Ledger :=
  [Gmx.TokOp.buy 1, .buy (1 / 2), .sell 1000, .sell (10 ^ 9), .update, .sell 0].foldl
    (Gmx.Ledger.apply Gmx.demoEnv "weth" 18) { st := Gmx.demoState, tokensIn := 0, tokensOut := 0 }

example : Gmx.demoLedger.st.glp = 0 ∧ Gmx.demoLedger.tokensIn = 3 / 2 ∧ 0 < Gmx.demoLedger.tokensOut ∧
    Gmx.demoLedger.tokensOut < 3 / 2 ∧ 149 / 100 < Gmx.demoLedger.tokensOut := by
  decide +kernel


/-! ### any tokens: the same statement in USD at the row's prices -/

/-- USD price of a token in the row (`{tok}_price / 10³⁰`; 0 when the row has no such column — every call on it is rejected) -/
def Gmx.priceOf (env : Env) (tok : String) : Rat :=
  match env.row? tok with
  | some r => r.price / 10 ^ 30
  | none => 0

/-- ledger in USD: value (at the row's prices) of the tokens paid into accepted buys / received from accepted sales -/
structure Gmx.UsdLedger where
  st : State
  usdIn : Rat
  usdOut : Rat

/-- one call of the real `step`, on any token -/
def Gmx.UsdLedger.apply (env : Env) (l : Gmx.UsdLedger) (op : Op) : Gmx.UsdLedger :=
  match op, step NumCtx.exact env l.st op with
  | .buy t _ a, (.ok _, s') => { st := s', usdIn := l.usdIn + a * Gmx.priceOf env t, usdOut := l.usdOut }
  | .sell t _ _, (.ok out, s') => { st := s', usdIn := l.usdIn, usdOut := l.usdOut + out * Gmx.priceOf env t }
  | _, (_, s') => { l with st := s' }

theorem Gmx.usdLedger_step {env : Env} (he : EnvPos env) (g0 : Rat) (l : Gmx.UsdLedger) (op : Op)
    (hinv : l.usdOut - l.usdIn ≤ (g0 - l.st.glp) * (aumU env / env.glpSupply)) :
    (l.apply env op).usdOut - (l.apply env op).usdIn ≤ (g0 - (l.apply env op).st.glp) * (aumU env / env.glpSupply) := by
  cases op with
  | buy tok dec a =>
    unfold Gmx.UsdLedger.apply
    simp only [step]
    cases hb : buyGlp NumCtx.exact env l.st tok dec a with
    | mk res s' =>
      cases res with
      | error e =>
        have : s' = l.st := buyGlp_reject hb
        subst this
        exact hinv
      | ok g =>
        obtain ⟨r, hr, hv⟩ := Gmx.buy_ge_value he hb
        obtain ⟨_, mint, fee, br, w, _, _, _, hs'⟩ := Gmx.buyGlp_ok hb
        have hp : Gmx.priceOf env tok = r.price / 10 ^ 30 := by unfold Gmx.priceOf; rw [hr]
        simp only []
        rw [hs', hp]; simp only []
        nlinarith
  | sell tok dec ga =>
    unfold Gmx.UsdLedger.apply
    simp only [step]
    cases hb : sellGlp NumCtx.exact env l.st tok dec ga with
    | mk res s' =>
      cases res with
      | error e =>
        have : s' = l.st := sellGlp_reject hb
        subst this
        exact hinv
      | ok out =>
        obtain ⟨r, hr, hv, hs', _⟩ := Gmx.sell_le_value_any he hb
        have hp : Gmx.priceOf env tok = r.price / 10 ^ 30 := by unfold Gmx.priceOf; rw [hr]
        simp only []
        rw [hs', hp]
        nlinarith
  | update =>
    unfold Gmx.UsdLedger.apply
    have : (step NumCtx.exact env l.st .update).2.glp = l.st.glp := by
      show (update NumCtx.exact env l.st).2.glp = _
      unfold update; simp only []; split <;> rfl
    simp only []
    rw [this]
    exact hinv

/-- **every buy/sell sequence on a frozen row, any tokens**: for ANY list of `buy_glp` / `sell_glp` / `update` calls — different
    tokens, accepted or rejected, any amounts and order, any starting state —, if the GLP holding at the end is at least the
    holding at the start, the USD value (at the row's prices) of all tokens received does not exceed that of all tokens paid. -/
theorem C17_v1_sequence_no_profit_any_token {env : Env} (he : EnvPos env) (ops : List Op) (s : State) :
    let l := ops.foldl (Gmx.UsdLedger.apply env) { st := s, usdIn := 0, usdOut := 0 }
    s.glp ≤ l.st.glp → l.usdOut ≤ l.usdIn := by
  intro l hfin
  have key : ∀ (ops : List Op) (l0 : Gmx.UsdLedger),
      l0.usdOut - l0.usdIn ≤ (s.glp - l0.st.glp) * (aumU env / env.glpSupply) →
      (ops.foldl (Gmx.UsdLedger.apply env) l0).usdOut - (ops.foldl (Gmx.UsdLedger.apply env) l0).usdIn
        ≤ (s.glp - (ops.foldl (Gmx.UsdLedger.apply env) l0).st.glp) * (aumU env / env.glpSupply) := by
    intro ops
    induction ops with
    | nil => intro l0 h; exact h
    | cons op ops ih => intro l0 h; exact ih _ (Gmx.usdLedger_step he s.glp l0 op h)
  have h := key ops { st := s, usdIn := 0, usdOut := 0 } (by simp)
  have hV : 0 ≤ aumU env / env.glpSupply := div_nonneg (Gmx.aumU_nonneg he) (le_of_lt he.glpSupply)
  have h0 : (s.glp - l.st.glp) * (aumU env / env.glpSupply) ≤ 0 := mul_nonpos_of_nonpos_of_nonneg (by linarith) hV
  have : l.usdOut - l.usdIn ≤ 0 := le_trans h h0
  linarith

/-- buy with 1 WETH, sell everything for USDC (`sell_glp(usdc, 0)`): 2000 USD in, less out -/
def Gmx.demoUsdLedger : Gmx.UsdLedger :=
  [Op.buy "weth" 18 1, Op.sell "usdc" 6 0].foldl (Gmx.UsdLedger.apply Gmx.demoEnv) { st := Gmx.demoState, usdIn := 0, usdOut := 0 }

example : Gmx.demoUsdLedger.st.glp = 0 ∧ Gmx.demoUsdLedger.usdIn = 2000 ∧ 1980 < Gmx.demoUsdLedger.usdOut ∧
    Gmx.demoUsdLedger.usdOut < 2000 := by decide +kernel

end Demeter
