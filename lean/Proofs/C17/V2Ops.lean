/-
  C17 — GMX v2, operation-level statements:
   * an accepted `withdraw` credits finite amounts only (the guard of 2f5f4ac), for EVERY number type — in particular for the
     IEEE instantiation, whose `toRat` is total only by a default that is therefore never used;
   * for an accepted deposit with a positive price impact, what is credited beyond the fee-reduced deposit is paid out of the
     impact pool: the token amounts taken on both sides together never exceed the pool;
   * every deposit/withdraw sequence on a frozen row whose deposits carry no positive impact: if the GM holding at the end is
     at least the holding at the start, the value withdrawn does not exceed the value deposited.
-/
import Proofs.C17.V2
namespace Demeter
open Demeter.GmxV2 Demeter.Gmx Demeter.Gmx2

/-! ### accepted withdrawals credit finite amounts -/
section
variable {α : Type} [Add α] [Sub α] [Mul α] [Div α] [Neg α] [LT α] [LE α] [OfNat α 0] [DecidableLT α] [DecidableLE α]

/-- **an accepted `withdraw` has a finite argument and finite output amounts**, and the wallet is credited exactly the exact
    values of those two finite numbers — whatever the number type (`Float`: `inf`/`nan` never reach `Decimal(…)`). -/
theorem C17_v2_withdraw_accepted_finite {o : Ops α} {cx : NumCtx} {cfg : Config α} {ps : Pool α} {lk sk : String}
    {s s' : State α} {amt : Option α} {r : LPResult α}
    (h : withdraw o cx cfg ps lk sk s amt = (.ok r, s')) :
    o.isFinite (amt.getD s.amount) = true ∧ o.isFinite r.longAmount = true ∧ o.isFinite r.shortAmount = true ∧
      outputAmount o cfg ps (amt.getD s.amount) = .ok r ∧
      s'.wallet = Wallet.credit cx (Wallet.credit cx s.wallet lk (o.toRat r.longAmount)) sk (o.toRat r.shortAmount) ∧
      s'.amount = s.amount - r.gmAmount := by
  unfold withdraw at h
  simp only [] at h
  split at h
  · cases h
  · rename_i hfin
    split at h
    · cases h
    · split at h
      · cases h
      · split at h
        · cases h
        · rename_i r' hr
          split at h
          · cases h
          · rename_i hout
            simp only [Prod.mk.injEq, Except.ok.injEq] at h
            obtain ⟨rfl, rfl⟩ := h
            have h1 : o.isFinite (amt.getD s.amount) = true := by
              cases hc : o.isFinite (amt.getD s.amount) with
              | true => rfl
              | false => simp [hc] at hfin
            have h2 : o.isFinite r'.longAmount = true ∧ o.isFinite r'.shortAmount = true := by
              cases hc : o.isFinite r'.longAmount <;> cases hd : o.isFinite r'.shortAmount <;> simp [hc, hd] at hout ⊢
            exact ⟨h1, h2.1, h2.2, hr, rfl, rfl⟩

/-- **a withdrawal whose output amounts are not finite is rejected and changes nothing** (2f5f4ac): row `poolValue = 1e308`,
    holding `5e7`, `withdraw(4.5e7)` prices to `(nan, nan)` and used to leave NaN wallet balances -/
theorem C17_v2_withdraw_nonfinite_output_rejected (o : Ops α) (cx : NumCtx) (cfg : Config α) (ps : Pool α) (lk sk : String)
    (s : State α) (amt : Option α) (r : LPResult α)
    (hfin : o.isFinite (amt.getD s.amount) = true) (hneg : ¬ amt.getD s.amount < 0) (hheld : ¬ amt.getD s.amount > s.amount)
    (hout : outputAmount o cfg ps (amt.getD s.amount) = .ok r)
    (hr : o.isFinite r.longAmount = false ∨ o.isFinite r.shortAmount = false) :
    withdraw o cx cfg ps lk sk s amt = (.error .demeter, s) := by
  unfold withdraw
  have : (!(o.isFinite r.longAmount && o.isFinite r.shortAmount)) = true := by
    rcases hr with h | h <;> simp [h]
  simp only [hfin, Bool.not_true, Bool.false_eq_true, if_false, hneg, hheld, hout, this, if_true]
end

/-- the IEEE instantiation converts with `floatToRat?`, which answers for every double whose exponent field is not all ones
    (i.e. every finite double): the `getD 0` of `floatOps.toRat` can only be reached by `inf`/`nan` -/
theorem Gmx2.floatToRat_isSome_of_finite_exponent (f : Float) (h : (f.toBits.toNat >>> 52) % 2048 ≠ 2047) :
    (floatToRat? f).isSome = true := by
  unfold floatToRat?
  simp only [h, if_false, Option.isSome_some]

/-! ### positive impact is paid out of the impact pool -/

variable {pw : Rat → Rat → Rat}

/-- **operation-level cap**: an accepted deposit with a positive price impact mints GM worth
    `Σ amount·(1 − positive-impact fee factor)·price + paidL·shortPrice + paidS·longPrice`, where `paidL` short tokens and
    `paidS` long tokens are what the two sides draw from the row's ONE impact pool figure: both non-negative and
    **together at most the impact pool**; in USD the bonus is at most the price impact itself. -/
theorem C17_v2_deposit_bonus_le_impact_pool {cx : NumCtx} {cfg : Config Rat} {ps : Pool Rat} (hp : PoolPos ps) {lk sk : String}
    {s s' : State Rat} {la sa : Rat} {r : LPResult Rat} {tag : String}
    (h : deposit (ratOps pw) cx cfg ps lk sk s la sa = (.ok (r, tag), s'))
    (himp : 0 < r.priceImpactUsd) :
    ∃ paidL paidS : Rat, 0 ≤ paidL ∧ 0 ≤ paidS ∧ paidL + paidS ≤ ps.impactPool ∧
      r.gmAmount * (ps.poolValue / ps.supply)
        = la * (1 - cfg.depositFeePos) * ps.longPrice + sa * (1 - cfg.depositFeePos) * ps.shortPrice
          + (paidL * ps.shortPrice + paidS * ps.longPrice) ∧
      paidL * ps.shortPrice + paidS * ps.longPrice ≤ r.priceImpactUsd := by
  obtain ⟨hla, hsa, hm, _, _, _⟩ := Gmx2.deposit_ok h
  obtain ⟨_, _, _, _, _, hv, _, hne⟩ := mintAmount_ok hp hm
  set total := la * ps.longPrice + sa * ps.shortPrice with htot
  set shareL := r.priceImpactUsd * (la * ps.longPrice) / total with hsl
  set shareS := r.priceImpactUsd * (sa * ps.shortPrice) / total with hss
  obtain ⟨hL0, hS0, hsum, hleft, hcl, hcs⟩ := C17_v2_positive_impact_capped_total hp la sa shareL shareS
  have hpL := hp.longPrice
  have hpS := hp.shortPrice
  have hlu : 0 ≤ la * ps.longPrice := by positivity
  have hsu : 0 ≤ sa * ps.shortPrice := by positivity
  have htot0 : 0 ≤ total := by rw [htot]; linarith
  refine ⟨if la > 0 then paidOf shareL ps.shortPrice ps.impactPool else 0,
    if sa > 0 then paidOf shareS ps.longPrice (sideLeft ps.impactPool la ps.shortPrice shareL) else 0, hL0, hS0, hsum, ?_, ?_⟩
  · rw [hv]
    -- each side: a present side has a positive share
    have sideL : sideValue cfg ps.impactPool la ps.longPrice ps.shortPrice shareL
        = la * (1 - cfg.depositFeePos) * ps.longPrice + (if la > 0 then paidOf shareL ps.shortPrice ps.impactPool else 0) * ps.shortPrice := by
      unfold sideValue
      by_cases ha : la > 0
      · have htp : 0 < total := lt_of_le_of_ne htot0 (Ne.symm (hne (Or.inl ha)))
        have hsh : 0 < shareL := by rw [hsl]; exact div_pos (mul_pos himp (mul_pos ha hpL)) htp
        rw [if_pos ha, if_pos hsh, if_pos ha, hcl ha hsh, if_pos ha]; ring
      · have : la = 0 := le_antisymm (not_lt.mp ha) hla
        rw [if_neg ha, if_neg ha, this]; ring
    have sideS : sideValue cfg (sideLeft ps.impactPool la ps.shortPrice shareL) sa ps.shortPrice ps.longPrice shareS
        = sa * (1 - cfg.depositFeePos) * ps.shortPrice
          + (if sa > 0 then paidOf shareS ps.longPrice (sideLeft ps.impactPool la ps.shortPrice shareL) else 0) * ps.longPrice := by
      unfold sideValue
      by_cases ha : sa > 0
      · have htp : 0 < total := lt_of_le_of_ne htot0 (Ne.symm (hne (Or.inr ha)))
        have hsh : 0 < shareS := by rw [hss]; exact div_pos (mul_pos himp (mul_pos ha hpS)) htp
        rw [if_pos ha, if_pos hsh, if_pos ha, hcs ha hsh, if_pos ha]; ring
      · have : sa = 0 := le_antisymm (not_lt.mp ha) hsa
        rw [if_neg ha, if_neg ha, this]; ring
    rw [sideL, sideS]; ring
  · -- in USD: each credit is at most the side's share, the shares add up to the impact
    have bL : (if la > 0 then paidOf shareL ps.shortPrice ps.impactPool else 0) * ps.shortPrice ≤ shareL := by
      by_cases ha : la > 0
      · have htp : 0 < total := lt_of_le_of_ne htot0 (Ne.symm (hne (Or.inl ha)))
        have hsh : 0 < shareL := by rw [hsl]; exact div_pos (mul_pos himp (mul_pos ha hpL)) htp
        have := hcl ha hsh
        rw [if_pos ha] at this
        rw [if_pos ha, ← this]; exact creditOf_le_impact _ _
      · have : la = 0 := le_antisymm (not_lt.mp ha) hla
        rw [if_neg ha, hsl, this]; simp
    have bS : (if sa > 0 then paidOf shareS ps.longPrice (sideLeft ps.impactPool la ps.shortPrice shareL) else 0) * ps.longPrice ≤ shareS := by
      by_cases ha : sa > 0
      · have htp : 0 < total := lt_of_le_of_ne htot0 (Ne.symm (hne (Or.inr ha)))
        have hsh : 0 < shareS := by rw [hss]; exact div_pos (mul_pos himp (mul_pos ha hpS)) htp
        have := hcs ha hsh
        rw [if_pos ha] at this
        rw [if_pos ha, ← this]; exact creditOf_le_impact _ _
      · have : sa = 0 := le_antisymm (not_lt.mp ha) hsa
        rw [if_neg ha, hss, this]; simp
    have hshares : shareL + shareS ≤ r.priceImpactUsd := by
      rcases htot0.lt_or_eq with htp | hz
      · have : shareL + shareS = r.priceImpactUsd := by
          rw [hsl, hss, ← add_div, ← mul_add, ← htot, mul_div_assoc, div_self (ne_of_gt htp), mul_one]
        rw [this]
      · rw [hsl, hss, ← hz]; simp; exact le_of_lt himp
    linarith

/-! ### every deposit/withdraw sequence on a frozen row -/

/-- the ledger of a run: market state, USD value (at the row's prices) of the tokens paid into accepted deposits and of the
    tokens received from accepted withdrawals -/
structure Gmx2.Ledger where
  st : State Rat
  paidUsd : Rat
  backUsd : Rat

def Gmx2.Ledger.apply (pw : Rat → Rat → Rat) (cx : NumCtx) (cfg : Config Rat) (ps : Pool Rat) (lk sk : String) (l : Gmx2.Ledger) :
    Gmx2.Op → Gmx2.Ledger
  | .deposit la sa =>
    match deposit (ratOps pw) cx cfg ps lk sk l.st la sa with
    | (.ok _, s') => { st := s', paidUsd := l.paidUsd + (la * ps.longPrice + sa * ps.shortPrice), backUsd := l.backUsd }
    | (.error _, s') => { l with st := s' }
  | .withdraw amt =>
    match withdraw (ratOps pw) cx cfg ps lk sk l.st amt with
    | (.ok r, s') => { st := s', paidUsd := l.paidUsd, backUsd := l.backUsd + (r.longAmount * ps.longPrice + r.shortAmount * ps.shortPrice) }
    | (.error _, s') => { l with st := s' }

/-- no deposit of the list is priced with a positive impact on this row (the impact depends on the row and the two amounts only) -/
def Gmx2.NoPositiveImpact (pw : Rat → Rat → Rat) (cfg : Config Rat) (ps : Pool Rat) (ops : List Gmx2.Op) : Prop :=
  ∀ la sa, Gmx2.Op.deposit la sa ∈ ops → ∀ r tag, mintAmount (ratOps pw) cfg ps la sa = .ok (r, tag) → r.priceImpactUsd ≤ 0

/-- an accepted deposit without positive impact mints GM worth at most what was paid -/
theorem Gmx2.deposit_value_le_paid {cx : NumCtx} {cfg : Config Rat} (hc : CfgOK cfg) {ps : Pool Rat} (hp : PoolPos ps)
    {lk sk : String} {s s' : State Rat} {la sa : Rat} {r : LPResult Rat} {tag : String}
    (hdep : deposit (ratOps pw) cx cfg ps lk sk s la sa = (.ok (r, tag), s')) (himp : r.priceImpactUsd ≤ 0) :
    r.gmAmount * (ps.poolValue / ps.supply) ≤ la * ps.longPrice + sa * ps.shortPrice ∧ s'.amount = s.amount + r.gmAmount := by
  obtain ⟨hla, hsa, hm, hamt, _, _⟩ := Gmx2.deposit_ok hdep
  obtain ⟨_, _, _, _, _, hv, _, hne⟩ := mintAmount_ok hp hm
  have hpL := hp.longPrice
  have hpS := hp.shortPrice
  have hlu : 0 ≤ la * ps.longPrice := by positivity
  have hsu : 0 ≤ sa * ps.shortPrice := by positivity
  have hsh1 : r.priceImpactUsd * (la * ps.longPrice) / (la * ps.longPrice + sa * ps.shortPrice) ≤ 0 :=
    div_nonpos_of_nonpos_of_nonneg (mul_nonpos_of_nonpos_of_nonneg himp hlu) (by linarith)
  have hsh2 : r.priceImpactUsd * (sa * ps.shortPrice) / (la * ps.longPrice + sa * ps.shortPrice) ≤ 0 :=
    div_nonpos_of_nonpos_of_nonneg (mul_nonpos_of_nonpos_of_nonneg himp hsu) (by linarith)
  have h1 := Gmx2.sideValue_le_paid hc ps.impactPool (amount := la) (pout := ps.shortPrice) hpL hsh1
  have h2 := Gmx2.sideValue_le_paid hc (sideLeft ps.impactPool la ps.shortPrice
    (r.priceImpactUsd * (la * ps.longPrice) / (la * ps.longPrice + sa * ps.shortPrice))) (amount := sa) (pout := ps.longPrice) hpS hsh2
  rw [max_eq_left hla] at h1
  rw [max_eq_left hsa] at h2
  exact ⟨by rw [hv]; linarith, hamt⟩

/-- an accepted withdrawal (of a part, or `None` = everything) pays at most the pool value of the GM given up -/
theorem Gmx2.withdraw_value_le_shares {cx : NumCtx} {cfg : Config Rat} (hc : CfgOK cfg) {ps : Pool Rat} (hp : PoolPos ps)
    {lk sk : String} {s s' : State Rat} {amt : Option Rat} {r : LPResult Rat}
    (hwd : withdraw (ratOps pw) cx cfg ps lk sk s amt = (.ok r, s')) :
    r.longAmount * ps.longPrice + r.shortAmount * ps.shortPrice ≤ r.gmAmount * (ps.poolValue / ps.supply) ∧
      s'.amount = s.amount - r.gmAmount ∧ 0 ≤ r.gmAmount := by
  obtain ⟨h0, _, ho, hamt, _, _⟩ := Gmx2.withdraw_ok hwd
  obtain ⟨_, _, _, _, hg, _, _, hout⟩ := outputAmount_ok ho
  have hk : 0 < ps.poolValue / ps.supply := div_pos hp.poolValue hp.supply
  refine ⟨?_, hamt, by rw [hg]; exact h0⟩
  rw [hout, hg]
  have e : ps.poolValue * amt.getD s.amount / ps.supply = amt.getD s.amount * (ps.poolValue / ps.supply) := by ring
  rw [e]
  have h1 : 0 ≤ amt.getD s.amount * (ps.poolValue / ps.supply) := mul_nonneg h0 (le_of_lt hk)
  have := hc.wn0
  nlinarith

/-- **every deposit/withdraw sequence on a frozen row, deposits without positive impact**: for ANY list of `deposit` and
    `withdraw` calls (`withdraw(None)` = everything; accepted or rejected, any amounts and order, any starting holding), if no
    deposit of the list earns a positive price impact and the GM holding at the end is at least the holding at the start, the
    USD value (at the row's prices) of all tokens withdrawn does not exceed that of all tokens deposited.  (With a positive
    impact the statement is false already for one deposit and one withdrawal: `C17_fails_v2_roundtrip_positive_impact`.) -/
theorem C17_v2_sequence_no_profit {cx : NumCtx} {cfg : Config Rat} (hc : CfgOK cfg) {ps : Pool Rat} (hp : PoolPos ps) (lk sk : String)
    (ops : List Gmx2.Op) (hops : Gmx2.NoPositiveImpact pw cfg ps ops) (s : State Rat) :
    let l := ops.foldl (Gmx2.Ledger.apply pw cx cfg ps lk sk) { st := s, paidUsd := 0, backUsd := 0 }
    s.amount ≤ l.st.amount → l.backUsd ≤ l.paidUsd := by
  intro l hfin
  have hk : 0 < ps.poolValue / ps.supply := div_pos hp.poolValue hp.supply
  have key : ∀ (ops : List Gmx2.Op), Gmx2.NoPositiveImpact pw cfg ps ops → ∀ (l0 : Gmx2.Ledger),
      l0.backUsd - l0.paidUsd ≤ (s.amount - l0.st.amount) * (ps.poolValue / ps.supply) →
      (ops.foldl (Gmx2.Ledger.apply pw cx cfg ps lk sk) l0).backUsd - (ops.foldl (Gmx2.Ledger.apply pw cx cfg ps lk sk) l0).paidUsd
        ≤ (s.amount - (ops.foldl (Gmx2.Ledger.apply pw cx cfg ps lk sk) l0).st.amount) * (ps.poolValue / ps.supply) := by
    intro ops
    induction ops with
    | nil => intro _ l0 h; exact h
    | cons op ops ih =>
      intro hno l0 h
      apply ih (fun la sa hm => hno la sa (List.mem_cons_of_mem _ hm))
      cases op with
      | deposit la sa =>
        unfold Gmx2.Ledger.apply
        cases hd : deposit (ratOps pw) cx cfg ps lk sk l0.st la sa with
        | mk res s' =>
          cases res with
          | error e => simp only [hd]; rw [deposit_reject hd]; exact h
          | ok rt =>
            obtain ⟨r, tag⟩ := rt
            obtain ⟨_, _, hm, _, _, _⟩ := Gmx2.deposit_ok hd
            obtain ⟨hv, hamt⟩ := Gmx2.deposit_value_le_paid hc hp hd (hno la sa (List.mem_cons_self ..) r tag hm)
            simp only [hd]
            rw [hamt]; nlinarith
      | withdraw amt =>
        unfold Gmx2.Ledger.apply
        cases hw : withdraw (ratOps pw) cx cfg ps lk sk l0.st amt with
        | mk res s' =>
          cases res with
          | error e => simp only [hw]; rw [withdraw_reject hw]; exact h
          | ok r =>
            obtain ⟨hv, hamt, _⟩ := Gmx2.withdraw_value_le_shares hc hp hw
            simp only [hw]
            rw [hamt]; nlinarith
  have h := key ops hops { st := s, paidUsd := 0, backUsd := 0 } (by simp)
  have h0 : (s.amount - l.st.amount) * (ps.poolValue / ps.supply) ≤ 0 :=
    mul_nonpos_of_nonpos_of_nonneg (by linarith) (le_of_lt hk)
  have : l.backUsd - l.paidUsd ≤ 0 := le_trans h h0
  linarith

/-! ### non-vacuity -/

/-- two deposits on the heavy (short) side of the demo pool — negative impact —, a partial withdrawal, an over-sized one
    (rejected), and `withdraw(None)`: the holding returns to 0 and less value comes back than went in -/
def Gmx2.demoLedger : Gmx2.Ledger :=
  [Gmx2.Op.deposit 0 40000, .deposit 0 1000, .withdraw (some 100), .withdraw (some (10 ^ 9)), .withdraw none].foldl
    (Gmx2.Ledger.apply Gmx2.sq NumCtx.exact Gmx2.defaultCfg Gmx2.demoPool "WETH" "USDC") { st := Gmx2.demoState, paidUsd := 0, backUsd := 0 }

example : Gmx2.demoLedger.st.amount = 0 ∧ Gmx2.demoLedger.paidUsd = 41000 ∧ 0 < Gmx2.demoLedger.backUsd ∧
    Gmx2.demoLedger.backUsd < 41000 := by decide +kernel

/-- the deposits of that list are indeed priced with a negative impact -/
example : (mintAmount (ratOps Gmx2.sq) Gmx2.defaultCfg Gmx2.demoPool 0 40000).toOption.any (fun x => decide (x.1.priceImpactUsd < 0)) = true ∧
    (mintAmount (ratOps Gmx2.sq) Gmx2.defaultCfg Gmx2.demoPool 0 1000).toOption.any (fun x => decide (x.1.priceImpactUsd < 0)) = true := by
  decide +kernel

/-- a deposit with a positive impact on a row whose impact pool holds 1 unit is accepted: the hypotheses of
    `C17_v2_deposit_bonus_le_impact_pool` are satisfiable, and the bonus is the whole unit (1 short token = 1 USD) -/
example : ∃ r tag s', deposit (ratOps Gmx2.sq) NumCtx.exact Gmx2.defaultCfg { Gmx2.demoPool with impactPool := 1 } "WETH" "USDC"
      { Gmx2.demoState with wallet := [("WETH", 3000), ("USDC", 2000000)] } 2500 1000000 = (.ok (r, tag), s') ∧ 0 < r.priceImpactUsd :=
  by
    cases hd : deposit (ratOps Gmx2.sq) NumCtx.exact Gmx2.defaultCfg { Gmx2.demoPool with impactPool := 1 } "WETH" "USDC"
      { Gmx2.demoState with wallet := [("WETH", 3000), ("USDC", 2000000)] } 2500 1000000 with
    | mk res s' =>
      have hok : (deposit (ratOps Gmx2.sq) NumCtx.exact Gmx2.defaultCfg { Gmx2.demoPool with impactPool := 1 } "WETH" "USDC"
        { Gmx2.demoState with wallet := [("WETH", 3000), ("USDC", 2000000)] } 2500 1000000).1.toOption.any
          (fun x => decide (0 < x.1.priceImpactUsd)) = true := by decide +kernel
      rw [hd] at hok
      cases res with
      | error e => simp [Except.toOption] at hok
      | ok rt => exact ⟨rt.1, rt.2, s', rfl, by simpa [Except.toOption] using hok⟩

end Demeter
