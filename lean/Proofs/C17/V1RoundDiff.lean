/-
  C17 — GMX v1: the fee under rounded arithmetic is within 1 bp of the exact-arithmetic fee (every branch), and the instance
  for CPython's 35-digit context.
-/
import Proofs.C17.V1RoundAny
import Proofs.C17.V1RoundPy
namespace Demeter
open Demeter.GmxV1 Demeter.Gmx Demeter.Numerics

/-! ### distance from the exact-arithmetic fee -/

/-- two roundings in a row with `ε ≤ 1/1000`, with numeric constants -/
theorem Gmx.two_step {cx : NumCtx} {ε : Rat} (hε0 : 0 ≤ ε) (hε : ε ≤ 1 / 1000) (hr : Gmx.RndErr cx ε) {a T : Rat} (ha : 0 ≤ a) (hT : 0 < T) :
    a / T * (1 - 2 / 1000) ≤ cx.rnd (cx.rnd a / T) ∧ cx.rnd (cx.rnd a / T) ≤ a / T * (1 + 21 / 10000) := by
  obtain ⟨h1, h2⟩ := Gmx.rnd_div_rnd hε0 (by linarith) hr ha hT
  have h0 : 0 ≤ a / T := div_nonneg ha hT.le
  have k1 : 1 - 2 / 1000 ≤ (1 - ε) * (1 - ε) := by nlinarith
  have k2 : (1 + ε) * (1 + ε) ≤ 1 + 21 / 10000 := by nlinarith
  exact ⟨le_trans (mul_le_mul_of_nonneg_left k1 h0) h1, le_trans h2 (mul_le_mul_of_nonneg_left k2 h0)⟩

theorem Gmx.floor_close_rat {x y : Rat} (h1 : x < y + 1) (h2 : y < x + 1) : |((⌊x⌋ : Int) : Rat) - ((⌊y⌋ : Int) : Rat)| ≤ 1 := by
  have a : ⌊x⌋ ≤ ⌊y⌋ + 1 := by
    have : ⌊x⌋ < ⌊y⌋ + 2 := by
      rw [Int.floor_lt]; push_cast
      have := Int.lt_floor_add_one y
      linarith
    omega
  have b : ⌊y⌋ ≤ ⌊x⌋ + 1 := by
    have : ⌊y⌋ < ⌊x⌋ + 2 := by
      rw [Int.floor_lt]; push_cast
      have := Int.lt_floor_add_one x
      linarith
    omega
  have a' : ((⌊x⌋ : Int) : Rat) ≤ ⌊y⌋ + 1 := by exact_mod_cast a
  have b' : ((⌊y⌋ : Int) : Rat) ≤ ⌊x⌋ + 1 := by exact_mod_cast b
  rw [abs_le]; constructor <;> linarith

/-- `int(x)` for `59 < x < 61`, as a rational -/
theorem Gmx.trunc_59_61_cases {q : Rat} (h1 : 59 < q) (h2 : q < 61) : (truncInt q : Rat) = 59 ∨ (truncInt q : Rat) = 60 := by
  obtain ⟨a, b⟩ := Gmx.truncInt_59_61 h1 h2
  by_cases h : q < 60
  · left; rw [a h]; norm_num
  · right; rw [b (not_lt.mp h)]; norm_num

/-- **under any rounding with relative error ≤ 1/1000 the fee is within 1 bp of the exact-arithmetic fee of the same inputs**,
    in every branch — also where the two arithmetics decide the rebate-to-zero test or the cap differently. -/
theorem C17_v1_fee_rounded_within_1bp_of_exact {cx : NumCtx} {ε : Rat} (hε0 : 0 ≤ ε) (hε : ε ≤ 1 / 1000) (hr : Gmx.RndErr cx ε)
    {iD nD T : Rat} (hi : 0 ≤ iD) (hn : 0 ≤ nD) (hT : 0 < T) :
    |(feeFromDiffs cx iD nD T).1 - (feeFromDiffs NumCtx.exact iD nD T).1| ≤ 1 := by
  have hε1 : ε ≤ 1 := by linarith
  have R0 : ∀ x, 0 ≤ x → 0 ≤ cx.rnd x := fun x hx => Gmx.rnd_nonneg hε1 hr hx
  unfold feeFromDiffs
  simp only [NumCtx.exact_add, NumCtx.exact_sub, NumCtx.exact_mul, NumCtx.exact_div, bps25, bps60]
  by_cases hlt : nD < iD
  · simp only [hlt, if_true]
    have ha : 0 ≤ 60 * iD := by positivity
    obtain ⟨c1, c2⟩ := Gmx.two_step hε0 hε hr ha hT
    have e : cx.div (cx.mul 60 iD) T = cx.rnd (cx.rnd (60 * iD) / T) := rfl
    rw [e]
    have hr0 : 0 ≤ 60 * iD / T := by positivity
    generalize cx.rnd (cx.rnd (60 * iD) / T) = rc at c1 c2
    generalize 60 * iD / T = r at c1 c2 hr0
    by_cases h1 : rc > 25 <;> by_cases h2 : r > 25
    · simp only [h1, h2, if_true]; norm_num
    · simp only [h1, h2, if_true, if_false]
      rw [abs_le]; constructor <;> nlinarith
    · simp only [h1, h2, if_true, if_false]
      have hz0 : 0 ≤ 25 - rc := by linarith
      obtain ⟨z1, z2⟩ := hr _ hz0
      have e2 : cx.sub 25 rc = cx.rnd (25 - rc) := rfl
      rw [e2, abs_le]
      have := R0 _ hz0
      constructor <;> nlinarith
    · simp only [h1, h2, if_false]
      have hz0 : 0 ≤ 25 - rc := by linarith
      obtain ⟨z1, z2⟩ := hr _ hz0
      have e2 : cx.sub 25 rc = cx.rnd (25 - rc) := rfl
      rw [e2, abs_le]
      have hzε : (25 - rc) * ε ≤ 1 / 40 := by nlinarith
      have hrc0 : 0 ≤ rc := by nlinarith
      constructor <;> nlinarith
  · simp only [hlt, if_false]
    have hs : 0 ≤ iD + nD := by linarith
    obtain ⟨a1, a2⟩ := Gmx.two_step hε0 hε hr hs (show (0 : Rat) < 2 by norm_num)
    have e : cx.div (cx.add iD nD) 2 = cx.rnd (cx.rnd (iD + nD) / 2) := rfl
    rw [e]
    have hae0 : 0 ≤ (iD + nD) / 2 := by positivity
    have hac0 : 0 ≤ cx.rnd (cx.rnd (iD + nD) / 2) := R0 _ (div_nonneg (R0 _ hs) (by norm_num))
    generalize cx.rnd (cx.rnd (iD + nD) / 2) = ac at a1 a2 hac0
    generalize (iD + nD) / 2 = ae at a1 a2 hae0
    -- the capped quotient of the rounded arithmetic, and the exact one
    obtain ⟨h59, h61⟩ := Gmx.capped_quotient_bounds hε0 (by linarith) hr hT
    have hcap := Gmx.trunc_59_61_cases h59 h61
    have e60 : (60 : Rat) * T / T = 60 := by field_simp
    have t60 : ((truncInt (60 : Rat) : Int) : Rat) = 60 := by
      have : truncInt (60 : Rat) = 60 := by decide +kernel
      rw [this]; norm_num
    -- the uncapped quotients
    have hc0 : 0 ≤ 60 * ac := by positivity
    obtain ⟨x1, x2⟩ := Gmx.two_step hε0 hε hr hc0 hT
    have ex : cx.div (cx.mul 60 ac) T = cx.rnd (cx.rnd (60 * ac) / T) := rfl
    have hxc0 : 0 ≤ cx.rnd (cx.rnd (60 * ac) / T) := R0 _ (div_nonneg (R0 _ hc0) hT.le)
    rw [ex]
    generalize cx.rnd (cx.rnd (60 * ac) / T) = xc at x1 x2 hxc0
    have hdc : 60 * ac / T = 60 * (ac / T) := by ring
    have hde : 60 * ae / T = 60 * (ae / T) := by ring
    rw [hdc] at x1 x2
    have hue0 : 0 ≤ ae / T := div_nonneg hae0 hT.le
    have huc0 : 0 ≤ ac / T := div_nonneg hac0 hT.le
    have u1 : ae / T * (1 - 2 / 1000) ≤ ac / T := by
      rw [div_mul_eq_mul_div]; exact div_le_div_of_nonneg_right a1 hT.le
    have u2 : ac / T ≤ ae / T * (1 + 21 / 10000) := by
      rw [div_mul_eq_mul_div]; exact div_le_div_of_nonneg_right a2 hT.le
    have cmpc : ac > T ↔ ac / T > 1 := by rw [gt_iff_lt, gt_iff_lt, lt_div_iff₀ hT, one_mul]
    have cmpe : ae > T ↔ ae / T > 1 := by rw [gt_iff_lt, gt_iff_lt, lt_div_iff₀ hT, one_mul]
    rw [hde]
    generalize ac / T = uc at *
    generalize ae / T = ue at *
    by_cases hc : ac > T <;> by_cases he : ae > T
    · simp only [hc, he, if_true, e60, t60]
      rcases hcap with h | h <;> rw [h] <;> norm_num
    · simp only [hc, he, if_true, if_false]
      have hue1 : ue ≤ 1 := not_lt.mp (fun h => he (cmpe.mpr h))
      have huc1 : 1 < uc := cmpc.mp hc
      have hx0 : 0 ≤ 60 * ue := by positivity
      rw [truncInt_eq_floor hx0]
      have f1 : (59 : Int) ≤ ⌊60 * ue⌋ := by
        rw [Int.le_floor]; push_cast; nlinarith
      have f2 : ⌊60 * ue⌋ ≤ 60 := by
        have : ⌊60 * ue⌋ < 61 := by rw [Int.floor_lt]; push_cast; linarith
        omega
      have f1' : (59 : Rat) ≤ ((⌊60 * ue⌋ : Int) : Rat) := by exact_mod_cast f1
      have f2' : ((⌊60 * ue⌋ : Int) : Rat) ≤ 60 := by exact_mod_cast f2
      rw [abs_le]
      rcases hcap with h | h <;> rw [h] <;> constructor <;> linarith
    · simp only [hc, he, if_true, if_false, e60, t60]
      have hue1 : 1 < ue := cmpe.mp he
      have huc1 : uc ≤ 1 := not_lt.mp (fun h => hc (cmpc.mpr h))
      have hx59 : 59 < xc := by nlinarith
      have hx61 : xc < 61 := by nlinarith
      rcases Gmx.trunc_59_61_cases hx59 hx61 with h | h <;> rw [h] <;> norm_num
    · simp only [hc, he, if_false]
      have hue1 : ue ≤ 1 := not_lt.mp (fun h => he (cmpe.mpr h))
      have huc1 : uc ≤ 1 := not_lt.mp (fun h => hc (cmpc.mpr h))
      have hx0 : 0 ≤ 60 * ue := by positivity
      rw [truncInt_eq_floor hxc0, truncInt_eq_floor hx0]
      have := Gmx.floor_close_rat (x := xc) (y := 60 * ue) (by nlinarith) (by nlinarith)
      rw [abs_le] at this ⊢
      constructor <;> linarith [this.1, this.2]

/-- **CPython's 35-digit arithmetic** (`NumCtx.pyG` = `NumCtx.py` on every number a GMX row can produce, rounding error
    `5·10⁻³⁵`): the fee is in `[0, 85]` and within 1 bp of the exact-arithmetic fee, in every branch -/
theorem C17_v1_fee_round35_range_and_distance {iD nD T : Rat} (hi : 0 ≤ iD) (hn : 0 ≤ nD) (hT : 0 < T) :
    0 ≤ (feeFromDiffs NumCtx.pyG iD nD T).1 ∧ (feeFromDiffs NumCtx.pyG iD nD T).1 ≤ 85 ∧
      |(feeFromDiffs NumCtx.pyG iD nD T).1 - (feeFromDiffs NumCtx.exact iD nD T).1| ≤ 1 := by
  have h0 := le_of_lt EPS35_pos
  have h1 : EPS35 ≤ 1 / 1000 := le_trans EPS35_small (by norm_num)
  obtain ⟨a, b, _, _⟩ := C17_v1_fee_range_any_rounding h0 (le_trans h1 (by norm_num)) Gmx.rndErr_pyG hi hn hT
  exact ⟨a, b, C17_v1_fee_rounded_within_1bp_of_exact h0 h1 Gmx.rndErr_pyG hi hn hT⟩

/-- the distance 1 is attained: the instance at the head of Proofs/C17/V1RoundAny.lean (54 vs 55 bp) has non-negative
    differences and a positive target -/
example : (0 : Rat) ≤ 0 ∧ (0 : Rat) ≤ 33333333333333333333333333333333334 ∧ (0 : Rat) < 33333333333333333333333333333333334 := by norm_num

end Demeter
