/-
  C17 — GMX v1 same-bar round trip under ROUNDED arithmetic.  `C17_v1_roundtrip_no_profit` is for `NumCtx.exact`; the code
  rounds every `+ − × ÷` to 35 digits.  Here: for every arithmetic context with relative rounding error `ε ≤ 1/1000`
  (`Gmx.RndErr`; CPython's context: `ε = 5·10⁻³⁵`), buying with `a` tokens and selling any part of the minted GLP in the same bar
  returns at most `a·(1+ε)¹⁷/(1−ε)` — seventeen roundings upwards and one (the price) downwards on the way; every
  `quantize(ROUND_DOWN)` and every fee (in [0, 85] bp in every branch, `C17_v1_fee_range_any_rounding`) only lowers the result.
-/
import Proofs.C17.V1RoundDiff
import Proofs.C17
namespace Demeter
open Demeter.GmxV1 Demeter.Gmx

namespace Gmx
variable {cx : NumCtx} {ε : Rat}

/-- the rounding hypotheses, bundled -/
structure Rnd (cx : NumCtx) (ε : Rat) : Prop where
  e0 : 0 ≤ ε
  e1 : ε ≤ 1 / 1000
  err : RndErr cx ε

theorem Rnd.nonneg (H : Rnd cx ε) {x : Rat} (hx : 0 ≤ x) : 0 ≤ cx.rnd x :=
  rnd_nonneg (by linarith [H.e1]) H.err hx

/-- one rounding of a non-negative number below a bound -/
theorem Rnd.up (H : Rnd cx ε) {x B : Rat} (hx : 0 ≤ x) (h : x ≤ B) : cx.rnd x ≤ B * (1 + ε) :=
  le_trans (H.err x hx).2 (mul_le_mul_of_nonneg_right h (by linarith [H.e0]))

theorem ddiv_ok_cx {a b q : Rat} (h : ddiv cx a b = .ok q) : b ≠ 0 ∧ q = cx.rnd (a / b) := by
  unfold ddiv at h
  split at h
  · split at h <;> cases h
  · cases h; exact ⟨by assumption, rfl⟩

theorem absDiff_nonneg_cx (H : Rnd cx ε) (a b : Rat) : 0 ≤ absDiff cx a b := by
  unfold absDiff
  split
  · exact H.nonneg (by linarith)
  · rename_i h; exact H.nonneg (by linarith [not_lt.mp h])

/-- the fee of a row is in [0, 85] bp under rounded arithmetic as well -/
theorem feeBps_bounds_cx (H : Rnd cx ε) {env : Env} (he : EnvNonneg env) {tok : String} {u f : Rat} {inc : Bool} {br : FeeBranch}
    (h : feeBps cx env tok u inc = .ok (f, br)) : 0 ≤ f ∧ f ≤ 85 := by
  unfold feeBps at h
  cases hr : env.row? tok with
  | none => simp [hr] at h
  | some r =>
    simp only [hr, bind_ok] at h
    obtain ⟨t, ht, hp⟩ := h
    simp only [pure, Except.pure, Except.ok.injEq] at hp
    -- the target is non-negative
    have ht0 : 0 ≤ t := by
      unfold targetAmount at ht
      rw [bind_ok] at ht
      obtain ⟨total, htot, ht⟩ := ht
      have hT := total_nonneg env he.weight _ _ _ (le_refl 0) htot
      simp only [hr] at ht
      obtain ⟨_, rfl⟩ := ddiv_ok_cx ht
      have hw := he.weight r (row_mem hr)
      have hS := he.usdgSupply
      exact H.nonneg (div_nonneg (H.nonneg (mul_nonneg hw hS)) hT)
    have : (feeBpsCore cx r.usdg u t inc).1 = f := by rw [hp]
    rw [← this]
    unfold feeBpsCore
    by_cases h0 : t = 0
    · simp only [h0, if_true, bps25]; norm_num
    · simp only [h0, if_false]
      obtain ⟨a, b, _, _⟩ := C17_v1_fee_range_any_rounding H.e0 (le_trans H.e1 (by norm_num)) H.err
        (absDiff_nonneg_cx H r.usdg t) (absDiff_nonneg_cx H (nextAmount cx r.usdg u inc) t) (lt_of_le_of_ne ht0 (Ne.symm h0))
      exact ⟨a, b⟩

/-- `_collect_swap_fee` under rounding: between 0 and `a(1+ε)` -/
theorem afterFee_up (H : Rnd cx ε) {a f : Rat} (ha : 0 ≤ a) (h0 : 0 ≤ f) (h1 : f ≤ 85) :
    0 ≤ afterFee cx a f ∧ afterFee cx a f ≤ a * (1 + ε) := by
  have e : afterFee cx a f = cx.rnd (a - cx.rnd (cx.rnd (a * f) / 10000)) := by
    unfold afterFee; simp only [Gen.gmxBpsDivisor]; norm_num; rfl
  rw [e]
  have haf : 0 ≤ a * f := mul_nonneg ha h0
  obtain ⟨_, t2⟩ := two_step H.e0 H.e1 H.err haf (show (0 : Rat) < 10000 by norm_num)
  have t0 : 0 ≤ cx.rnd (cx.rnd (a * f) / 10000) := H.nonneg (div_nonneg (H.nonneg haf) (by norm_num))
  have hle : cx.rnd (cx.rnd (a * f) / 10000) ≤ a := by
    have : a * f / 10000 ≤ a * (85 / 10000) := by
      rw [div_le_iff₀ (by norm_num)]; nlinarith
    nlinarith
  exact ⟨H.nonneg (by linarith), H.up (by linarith) (by linarith)⟩

/-- `toUsdg` under rounding: five roundings up, two round-downs -/
theorem toUsdg_up (H : Rnd cx ε) {x P q : Rat} {dec : Nat} (hx : 0 ≤ x) (hP : 0 ≤ P) (h : toUsdg cx x dec P = .ok q) :
    0 ≤ q ∧ q ≤ x * (P / 10 ^ 30) * 10 ^ 18 * ((1 + ε) * (1 + ε) * (1 + ε) * (1 + ε) * (1 + ε)) := by
  unfold toUsdg at h
  rw [bind_ok] at h
  obtain ⟨u, hu, hq⟩ := h
  rw [qdown_ok hu] at hq
  rw [qdown_ok hq]
  have hK : 0 ≤ 1 + ε := by linarith [H.e0]
  have hd : (0 : Rat) < 10 ^ dec := by positivity
  -- x·10^dec, ·P, /10³⁰
  have e1 : cx.div (cx.mul (cx.mul x ((10 : Rat) ^ dec)) P) (Gen.gmxBuyUsdgDivisor : Rat)
      = cx.rnd (cx.rnd (cx.rnd (x * 10 ^ dec) * P) / 10 ^ 30) := by
    simp only [Gen.gmxBuyUsdgDivisor]; norm_num; rfl
  rw [e1]
  have a0 : 0 ≤ x * 10 ^ dec := by positivity
  have r1 := H.nonneg a0
  have u1 := H.up a0 (le_refl _)
  have a1 : 0 ≤ cx.rnd (x * 10 ^ dec) * P := mul_nonneg r1 hP
  have r2 := H.nonneg a1
  have u2 := H.up a1 (mul_le_mul_of_nonneg_right u1 hP)
  have a2 : 0 ≤ cx.rnd (cx.rnd (x * 10 ^ dec) * P) / 10 ^ 30 := div_nonneg r2 (by positivity)
  have r3 := H.nonneg a2
  have u3 := H.up a2 (div_le_div_of_nonneg_right u2 (by positivity : (0 : Rat) ≤ 10 ^ 30))
  set x3 := cx.rnd (cx.rnd (cx.rnd (x * 10 ^ dec) * P) / 10 ^ 30)
  have f1 := quantDown0_le r3
  have f0 := quantDown0_nonneg r3
  set w := quantDown 0 x3
  -- adjust decimals: ·10¹⁸, /10^dec
  have e2 : adjustDecimals cx w dec Gen.gmxUsdgDecimals = cx.rnd (cx.rnd (w * 10 ^ 18) / 10 ^ dec) := by
    unfold adjustDecimals; simp only [Gen.gmxUsdgDecimals]; rfl
  rw [e2]
  have a3 : 0 ≤ w * 10 ^ 18 := by positivity
  have r4 := H.nonneg a3
  have u4 := H.up a3 (mul_le_mul_of_nonneg_right (le_trans f1 u3) (by positivity : (0 : Rat) ≤ 10 ^ 18))
  have a4 : 0 ≤ cx.rnd (w * 10 ^ 18) / 10 ^ dec := div_nonneg r4 hd.le
  have r5 := H.nonneg a4
  have u5 := H.up a4 (div_le_div_of_nonneg_right u4 hd.le)
  refine ⟨quantDown0_nonneg r5, le_trans (quantDown0_le r5) (le_trans u5 (le_of_eq ?_))⟩
  field_simp


/-- `buy_usdg` under rounding: the USDG minted is at most the tokens' value, six roundings up -/
theorem buyUsdg_up (H : Rnd cx ε) {env : Env} (he : EnvPos env) {tok : String} {dec : Nat} {a m fee : Rat} {br : FeeBranch} (ha : 0 ≤ a)
    (h : buyUsdg cx env tok dec a = .ok (m, fee, br)) :
    ∃ r, env.row? tok = some r ∧ 0 ≤ m ∧ m ≤ a * (r.price / 10 ^ 30) * 10 ^ 18 * (1 + ε) ^ 6 := by
  unfold buyUsdg at h
  cases hr : env.row? tok with
  | none => simp [hr] at h
  | some r =>
    simp only [hr, bind_ok] at h
    obtain ⟨u0, _, ⟨f, b⟩, hf, m', hm, hp⟩ := h
    simp only [pure, Except.pure, Except.ok.injEq, Prod.mk.injEq] at hp
    obtain ⟨rfl, rfl, rfl⟩ := hp
    obtain ⟨f0, f1⟩ := feeBps_bounds_cx H he.toEnvNonneg hf
    obtain ⟨a0, a1⟩ := afterFee_up H ha f0 f1
    have hP : 0 < r.price := he.price r (row_mem hr)
    obtain ⟨m0, m1⟩ := toUsdg_up H a0 hP.le hm
    refine ⟨r, rfl, m0, le_trans m1 ?_⟩
    have hK : 0 ≤ 1 + ε := by linarith [H.e0]
    have hc : 0 ≤ (r.price / 10 ^ 30) * 10 ^ 18 * ((1 + ε) * (1 + ε) * (1 + ε) * (1 + ε) * (1 + ε)) := by positivity
    calc afterFee cx a f * (r.price / 10 ^ 30) * 10 ^ 18 * ((1 + ε) * (1 + ε) * (1 + ε) * (1 + ε) * (1 + ε))
        = afterFee cx a f * ((r.price / 10 ^ 30) * 10 ^ 18 * ((1 + ε) * (1 + ε) * (1 + ε) * (1 + ε) * (1 + ε))) := by ring
      _ ≤ a * (1 + ε) * ((r.price / 10 ^ 30) * 10 ^ 18 * ((1 + ε) * (1 + ε) * (1 + ε) * (1 + ε) * (1 + ε))) :=
          mul_le_mul_of_nonneg_right a1 hc
      _ = a * (r.price / 10 ^ 30) * 10 ^ 18 * (1 + ε) ^ 6 := by ring

/-- the pool value in USDG wei as the code holds it: `(aum / 10¹²)` rounded, then rounded down -/
def aumC (cx : NumCtx) (env : Env) : Rat := quantDown 0 (cx.div env.aum ((Gen.gmxAumDivisorAdd : Nat) : Rat))

theorem aumC_nonneg (H : Rnd cx ε) {env : Env} (he : EnvPos env) : 0 ≤ aumC cx env := by
  unfold aumC
  exact quantDown0_nonneg (H.nonneg (div_nonneg he.aum (by simp [Gen.gmxAumDivisorAdd])))

/-- `_add_liquidity` under rounding -/
theorem addLiquidity_up (H : Rnd cx ε) {env : Env} (he : EnvPos env) {tok : String} {dec : Nat} {a mint fee : Rat} {br : FeeBranch}
    (ha : 0 ≤ a) (h : addLiquidity cx env tok dec a = .ok (mint, fee, br)) :
    ∃ r, env.row? tok = some r ∧ 0 < aumC cx env ∧ 0 ≤ mint ∧
      mint ≤ a * (r.price / 10 ^ 30) * 10 ^ 18 * env.glpSupply / aumC cx env * (1 + ε) ^ 8 := by
  unfold addLiquidity at h
  simp only [bind_ok] at h
  obtain ⟨au, hau, ⟨u, f, b⟩, hb, m0, hm0, m, hm, hp⟩ := h
  simp only [pure, Except.pure, Except.ok.injEq, Prod.mk.injEq] at hp
  obtain ⟨rfl, rfl, rfl⟩ := hp
  have hau' : au = aumC cx env := by unfold aumInUsdg at hau; rw [qdown_ok hau]; rfl
  subst hau'
  obtain ⟨r, hr, u0, u1⟩ := buyUsdg_up H he ha hb
  obtain ⟨hne, rfl⟩ := ddiv_ok_cx hm0
  have hA : 0 < aumC cx env := lt_of_le_of_ne (aumC_nonneg H he) (Ne.symm hne)
  have hS := he.glpSupply
  have hK : 0 ≤ 1 + ε := by linarith [H.e0]
  have hP : 0 < r.price := he.price r (row_mem hr)
  rw [qdown_ok hm]
  have e : cx.mul u env.glpSupply = cx.rnd (u * env.glpSupply) := rfl
  rw [e]
  have b0 : 0 ≤ u * env.glpSupply := mul_nonneg u0 hS.le
  have r1 := H.nonneg b0
  have v1 := H.up b0 (mul_le_mul_of_nonneg_right u1 hS.le)
  have b1 : 0 ≤ cx.rnd (u * env.glpSupply) / aumC cx env := div_nonneg r1 hA.le
  have r2 := H.nonneg b1
  have v2 := H.up b1 (div_le_div_of_nonneg_right v1 hA.le)
  refine ⟨r, hr, hA, quantDown0_nonneg r2, le_trans (quantDown0_le r2) (le_trans v2 (le_of_eq ?_))⟩
  ring

/-- `_remove_liquidity` under rounding: eight roundings up, the price rounded down -/
theorem removeLiquidity_up (H : Rnd cx ε) {env : Env} (he : EnvPos env) {tok : String} {dec : Nat} {g out fee : Rat} {br : FeeBranch}
    (hg : 0 ≤ g) (h : removeLiquidity cx env tok dec g = .ok (out, fee, br)) :
    ∃ r, env.row? tok = some r ∧
      out ≤ g * aumC cx env / env.glpSupply / ((r.price / 10 ^ 30) * (1 - ε)) * (1 + ε) ^ 8 := by
  unfold removeLiquidity at h
  simp only [bind_ok] at h
  obtain ⟨au, hau, ps, hps, u, hu, ⟨o, f, b⟩, hs, hp⟩ := h
  simp only [pure, Except.pure, Except.ok.injEq, Prod.mk.injEq] at hp
  obtain ⟨rfl, rfl, rfl⟩ := hp
  have hau' : au = aumC cx env := by unfold aumInUsdg at hau; rw [qdown_ok hau]; rfl
  subst hau'
  have hA := aumC_nonneg H he
  have hS := he.glpSupply
  have hK : 0 ≤ 1 + ε := by linarith [H.e0]
  have h1e : 0 < 1 - ε := by linarith [H.e1]
  obtain ⟨_, rfl⟩ := ddiv_ok_cx hps
  have e1 : cx.mul g ((10 : Rat) ^ Gen.gmxGlpDecimals) = cx.rnd (g * 10 ^ 18) := by simp only [Gen.gmxGlpDecimals]; rfl
  rw [e1] at hu
  -- per-supply share and USDG redeemed
  have c0 : 0 ≤ g * 10 ^ 18 := by positivity
  have r1 := H.nonneg c0
  have v1 := H.up c0 (le_refl _)
  have c1 : 0 ≤ cx.rnd (g * 10 ^ 18) / env.glpSupply := div_nonneg r1 hS.le
  have r2 := H.nonneg c1
  have v2 := H.up c1 (div_le_div_of_nonneg_right v1 hS.le)
  set ps := cx.rnd (cx.rnd (g * 10 ^ 18) / env.glpSupply)
  have e2 : cx.mul ps (aumC cx env) = cx.rnd (ps * aumC cx env) := rfl
  rw [e2, ] at hu
  have c2 : 0 ≤ ps * aumC cx env := mul_nonneg r2 hA
  have r3 := H.nonneg c2
  have v3 := H.up c2 (mul_le_mul_of_nonneg_right v2 hA)
  have hu' := qdown_ok hu
  have u0 : 0 ≤ u := by rw [hu']; exact quantDown0_nonneg r3
  have u1 : u ≤ g * 10 ^ 18 * (1 + ε) / env.glpSupply * (1 + ε) * aumC cx env * (1 + ε) := by
    rw [hu']; exact le_trans (quantDown0_le r3) v3
  -- tokens
  unfold sellUsdg at hs
  cases hr : env.row? tok with
  | none => simp [hr] at hs
  | some r =>
    simp only [hr, bind_ok] at hs
    obtain ⟨red0, hred0, ⟨f', b'⟩, hf, hp⟩ := hs
    simp only [pure, Except.pure, Except.ok.injEq, Prod.mk.injEq] at hp
    obtain ⟨rfl, rfl, rfl⟩ := hp
    obtain ⟨f0, f1⟩ := feeBps_bounds_cx H he.toEnvNonneg hf
    have hP : 0 < r.price := he.price r (row_mem hr)
    have hp0 : 0 < r.price / 10 ^ 30 := by positivity
    have e3 : cx.div r.price (Gen.gmxPricePrecision : Rat) = cx.rnd (r.price / 10 ^ 30) := by
      simp only [Gen.gmxPricePrecision]; norm_num; rfl
    rw [e3] at hred0
    obtain ⟨_, rfl⟩ := ddiv_ok_cx hred0
    have plo : r.price / 10 ^ 30 * (1 - ε) ≤ cx.rnd (r.price / 10 ^ 30) := (H.err _ hp0.le).1
    have ppos : 0 < r.price / 10 ^ 30 * (1 - ε) := mul_pos hp0 h1e
    have pc : 0 < cx.rnd (r.price / 10 ^ 30) := lt_of_lt_of_le ppos plo
    set B := g * 10 ^ 18 * (1 + ε) / env.glpSupply * (1 + ε) * aumC cx env * (1 + ε) with hB
    have B0 : 0 ≤ B := le_trans u0 u1
    have d0 : 0 ≤ u / cx.rnd (r.price / 10 ^ 30) := div_nonneg u0 pc.le
    have dle : u / cx.rnd (r.price / 10 ^ 30) ≤ B / (r.price / 10 ^ 30 * (1 - ε)) :=
      div_le_div₀ B0 u1 ppos plo
    have r4 := H.nonneg d0
    have v4 := H.up d0 dle
    set red0 := cx.rnd (u / cx.rnd (r.price / 10 ^ 30))
    have e4 : adjustDecimals cx red0 Gen.gmxUsdgDecimals dec = cx.rnd (cx.rnd (red0 * 10 ^ dec) / 10 ^ 18) := by
      unfold adjustDecimals; simp only [Gen.gmxUsdgDecimals]; rfl
    rw [e4]
    have hd : (0 : Rat) < 10 ^ dec := by positivity
    have c5 : 0 ≤ red0 * 10 ^ dec := mul_nonneg r4 hd.le
    have r5 := H.nonneg c5
    have v5 := H.up c5 (mul_le_mul_of_nonneg_right v4 hd.le)
    have c6 : 0 ≤ cx.rnd (red0 * 10 ^ dec) / 10 ^ 18 := div_nonneg r5 (by positivity)
    have r6 := H.nonneg c6
    have v6 := H.up c6 (div_le_div_of_nonneg_right v5 (by positivity : (0 : Rat) ≤ 10 ^ 18))
    obtain ⟨o0, o1⟩ := afterFee_up H r6 f0 f1
    have c7 : 0 ≤ afterFee cx (cx.rnd (cx.rnd (red0 * 10 ^ dec) / 10 ^ 18)) f' / 10 ^ dec := div_nonneg o0 hd.le
    have v7 := H.up c7 (div_le_div_of_nonneg_right (le_trans o1 (mul_le_mul_of_nonneg_right v6 hK)) hd.le)
    refine ⟨r, rfl, le_trans v7 (le_of_eq ?_)⟩
    rw [hB]
    have hSne : env.glpSupply ≠ 0 := ne_of_gt hS
    have h1ne : (1 - ε) ≠ 0 := ne_of_gt h1e
    have hPne : r.price ≠ 0 := ne_of_gt hP
    field_simp

end Gmx

/-- **same-bar round trip under any rounding with relative error `ε ≤ 1/1000`**: buying GLP with `a` tokens and selling any part
    `0 < g' ≤ g` of the minted GLP for the same token in the same bar returns at most `a·(1+ε)¹⁷/(1−ε)` — for CPython's 35-digit
    context at most `a·(1 + 10⁻³³)`.  (`C17_v1_roundtrip_no_profit` is the case `ε = 0`.) -/
theorem C17_v1_roundtrip_margin_any_rounding {cx : NumCtx} {ε : Rat} (hε0 : 0 ≤ ε) (hε : ε ≤ 1 / 1000) (hr : Gmx.RndErr cx ε)
    {env : Env} (he : EnvPos env) {s s1 s2 : State} {tok : String} {dec : Nat} {a g g' out : Rat}
    (hbuy : buyGlp cx env s tok dec a = (.ok g, s1))
    (hg' : 0 < g') (hle : g' ≤ g)
    (hsell : sellGlp cx env s1 tok dec g' = (.ok out, s2)) :
    out ≤ a * ((1 + ε) ^ 17 / (1 - ε)) := by
  have H : Gmx.Rnd cx ε := ⟨hε0, hε, hr⟩
  have hK : 0 ≤ 1 + ε := by linarith
  have h1e : 0 < 1 - ε := by linarith
  -- the buy
  unfold buyGlp at hbuy
  split at hbuy
  · cases hbuy
  rename_i hneg
  have ha : 0 ≤ a := not_lt.mp hneg
  split at hbuy
  · cases hbuy
  rename_i mint fee br hadd
  split at hbuy
  · cases hbuy
  · cases hbuy
  rename_i w hw
  simp only [Prod.mk.injEq, Except.ok.injEq] at hbuy
  obtain ⟨hg, _⟩ := hbuy
  obtain ⟨r, hrow, hA, m0, m1⟩ := Gmx.addLiquidity_up H he ha hadd
  have eg : cx.div mint ((10 : Rat) ^ Gen.gmxGlpDecimals) = cx.rnd (mint / 10 ^ 18) := by simp only [Gen.gmxGlpDecimals]; rfl
  rw [eg] at hg
  have g1 : g ≤ a * (r.price / 10 ^ 30) * 10 ^ 18 * env.glpSupply / Gmx.aumC cx env * (1 + ε) ^ 8 / 10 ^ 18 * (1 + ε) := by
    rw [← hg]
    exact H.up (div_nonneg m0 (by positivity)) (div_le_div_of_nonneg_right m1 (by positivity : (0 : Rat) ≤ 10 ^ 18))
  -- the sale
  unfold sellGlp at hsell
  simp only [ne_of_gt hg', if_false] at hsell
  split at hsell
  · cases hsell
  split at hsell
  · cases hsell
  split at hsell
  · cases hsell
  rename_i o fee' br' hrem
  simp only [Prod.mk.injEq, Except.ok.injEq] at hsell
  obtain ⟨rfl, _⟩ := hsell
  obtain ⟨r', hrow', o1⟩ := Gmx.removeLiquidity_up H he hg'.le hrem
  rw [hrow] at hrow'; cases hrow'
  have hP : 0 < r.price := he.price r (row_mem hrow)
  have hp0 : 0 < r.price / 10 ^ 30 := by positivity
  have hS := he.glpSupply
  -- monotone in g'
  have hcoef : 0 ≤ Gmx.aumC cx env / env.glpSupply / ((r.price / 10 ^ 30) * (1 - ε)) * (1 + ε) ^ 8 := by
    have := mul_pos hp0 h1e
    positivity
  calc o ≤ g' * Gmx.aumC cx env / env.glpSupply / ((r.price / 10 ^ 30) * (1 - ε)) * (1 + ε) ^ 8 := o1
    _ = g' * (Gmx.aumC cx env / env.glpSupply / ((r.price / 10 ^ 30) * (1 - ε)) * (1 + ε) ^ 8) := by ring
    _ ≤ g * (Gmx.aumC cx env / env.glpSupply / ((r.price / 10 ^ 30) * (1 - ε)) * (1 + ε) ^ 8) := mul_le_mul_of_nonneg_right hle hcoef
    _ ≤ (a * (r.price / 10 ^ 30) * 10 ^ 18 * env.glpSupply / Gmx.aumC cx env * (1 + ε) ^ 8 / 10 ^ 18 * (1 + ε))
          * (Gmx.aumC cx env / env.glpSupply / ((r.price / 10 ^ 30) * (1 - ε)) * (1 + ε) ^ 8) := mul_le_mul_of_nonneg_right g1 hcoef
    _ = a * ((1 + ε) ^ 17 / (1 - ε)) := by
        have hSne : env.glpSupply ≠ 0 := ne_of_gt hS
        have hAne : Gmx.aumC cx env ≠ 0 := ne_of_gt hA
        have h1ne : (1 - ε) ≠ 0 := ne_of_gt h1e
        have hPne : r.price ≠ 0 := ne_of_gt hP
        field_simp

/-- for CPython's 35-digit context the margin is below `10⁻³³` relative -/
theorem C17_v1_roundtrip_margin_round35_bound {ε : Rat} (hε0 : 0 ≤ ε) (hε : ε ≤ 5 / 10 ^ 35) :
    (1 + ε) ^ 17 / (1 - ε) ≤ 1 + 1 / 10 ^ 33 := by
  have h1e : 0 < 1 - ε := by
    have : (5 : Rat) / 10 ^ 35 < 1 := by norm_num
    linarith
  rw [div_le_iff₀ h1e]
  have hmono : (1 + ε) ^ 17 ≤ (1 + 5 / 10 ^ 35) ^ 17 := pow_le_pow_left₀ (by linarith) (by linarith) 17
  have hnum : ((1 : Rat) + 5 / 10 ^ 35) ^ 17 ≤ (1 + 1 / 10 ^ 33) * (1 - 5 / 10 ^ 35) := by norm_num
  have : (1 + 1 / 10 ^ 33) * (1 - 5 / 10 ^ 35) ≤ (1 + 1 / (10 : Rat) ^ 33) * (1 - ε) :=
    mul_le_mul_of_nonneg_left (by linarith) (by norm_num)
  linarith

/-- **CPython's 35-digit arithmetic** (`NumCtx.pyG` = `NumCtx.py` on every number a GMX row can produce): the same-bar round trip
    returns at most `a·(1 + 10⁻³³)` -/
theorem C17_v1_roundtrip_margin_round35 {env : Env} (he : EnvPos env) {s s1 s2 : State} {tok : String} {dec : Nat} {a g g' out : Rat}
    (hbuy : buyGlp NumCtx.pyG env s tok dec a = (.ok g, s1)) (hg' : 0 < g') (hle : g' ≤ g)
    (hsell : sellGlp NumCtx.pyG env s1 tok dec g' = (.ok out, s2)) :
    out ≤ a * (1 + 1 / 10 ^ 33) := by
  have h0 := le_of_lt Numerics.EPS35_pos
  have h1 : Numerics.EPS35 ≤ 5 / 10 ^ 35 := by unfold Numerics.EPS35; norm_num
  have hm := C17_v1_roundtrip_margin_any_rounding h0 (le_trans h1 (by norm_num)) Gmx.rndErr_pyG he hbuy hg' hle hsell
  have hb := C17_v1_roundtrip_margin_round35_bound h0 h1
  have ha : 0 ≤ a := by
    unfold buyGlp at hbuy
    split at hbuy
    · cases hbuy
    · rename_i hneg; exact not_lt.mp hneg
  exact le_trans hm (mul_le_mul_of_nonneg_left hb ha)

/-- non-vacuity: the demo round trip of Proofs/C17.lean meets the hypotheses (context with rounding error 0) -/
example : (99500481 / 100000000 : Rat) ≤ 1 * ((1 + 0) ^ 17 / (1 - 0)) := by
  have hb : buyGlp NumCtx.exact Gmx.demoEnv Gmx.demoState "weth" 18 1
      = (.ok (39948 / 25), (buyGlp NumCtx.exact Gmx.demoEnv Gmx.demoState "weth" 18 1).2) := Prod.ext (by decide +kernel) rfl
  have hs : sellGlp NumCtx.exact Gmx.demoEnv (buyGlp NumCtx.exact Gmx.demoEnv Gmx.demoState "weth" 18 1).2 "weth" 18 (39948 / 25)
      = (.ok (99500481 / 100000000), (sellGlp NumCtx.exact Gmx.demoEnv (buyGlp NumCtx.exact Gmx.demoEnv Gmx.demoState "weth" 18 1).2 "weth" 18 (39948 / 25)).2) :=
    Prod.ext (by decide +kernel) rfl
  exact C17_v1_roundtrip_margin_any_rounding (le_refl 0) (by norm_num) (by intro x _; simp) Gmx.demoEnv_pos hb (by norm_num) (le_refl _) hs

end Demeter
