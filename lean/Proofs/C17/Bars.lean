/-
  C17 — GMX markets across bars: the live objects remember nothing but their holdings and the current row.

  `Demeter.GmxBars` models a market object under arbitrary histories of `set_market_status`, operations and fee reads.  The
  theorems say that whatever happened before — any history, any earlier rows, any number of earlier calls — the answer
  of a call is the single-row function (`feeBps`, `step`, `deposit`, `withdraw`) of the CURRENT row, the holding and the
  arguments.  They hold for every arithmetic context (v2: every number type), so they cover the rounded Decimal and the
  IEEE runs of the driver.  The model has no other per-object state; the harness checks that the real objects have none
  either (`vars(market)` = `objectFields`, multi-bar runs through `set_market_status` and `Actuator.run`).
-/
import Demeter.GmxBars
import Proofs.C17
namespace Demeter

namespace GmxV1

/-- events that do not move the object to another row -/
def Event.inBar : Event → Bool
  | .setStatus _ => false
  | _ => true

theorem Obj.run_append (cx : NumCtx) (o : Obj) (a b : List Event) : o.run cx (a ++ b) = (o.run cx a).run cx b := by
  simp [Obj.run, List.foldl_append]

theorem Obj.apply_tokenSet (cx : NumCtx) (o : Obj) (e : Event) : (o.apply cx e).2.row.tokenSet = o.row.tokenSet := by
  cases e <;> simp [Obj.apply, Obj.setStatus]

/-- `_tokens` never changes -/
theorem Obj.run_tokenSet (cx : NumCtx) (o : Obj) (evs : List Event) : (o.run cx evs).row.tokenSet = o.row.tokenSet := by
  induction evs generalizing o with
  | nil => rfl
  | cons e es ih =>
    show (Obj.run cx (o.apply cx e).2 es).row.tokenSet = _
    rw [ih, Obj.apply_tokenSet]

/-- `broker.allow_negative_balance` never changes -/
theorem Obj.run_allowNeg (cx : NumCtx) (o : Obj) (evs : List Event) : (o.run cx evs).allowNeg = o.allowNeg := by
  induction evs generalizing o with
  | nil => rfl
  | cons e es ih =>
    show (Obj.run cx (o.apply cx e).2 es).allowNeg = _
    rw [ih]
    cases e <;> simp [Obj.apply, Obj.setStatus]

/-- calls inside a bar leave the row alone -/
theorem Obj.run_inBar_row (cx : NumCtx) (o : Obj) (evs : List Event) (h : ∀ e ∈ evs, e.inBar = true) :
    (o.run cx evs).row = o.row := by
  induction evs generalizing o with
  | nil => rfl
  | cons e es ih =>
    have he : e.inBar = true := h e (List.mem_cons_self ..)
    have hes : ∀ e' ∈ es, e'.inBar = true := fun e' m => h e' (List.mem_cons_of_mem _ m)
    show (Obj.run cx (o.apply cx e).2 es).row = _
    rw [ih _ hes]
    cases e with
    | setStatus r => simp [Event.inBar] at he
    | op p => simp [Obj.apply]
    | fee t u i => simp [Obj.apply]

/-- the row the object is on after `history`, then `set_market_status(row)`, then calls inside that bar -/
theorem Obj.row_after (cx : NumCtx) (o : Obj) (history : List Event) (row : Env) (calls : List Event)
    (h : ∀ e ∈ calls, e.inBar = true) :
    (o.run cx (history ++ [.setStatus row] ++ calls)).row = { row with tokenSet := o.row.tokenSet } := by
  rw [Obj.run_append, Obj.run_inBar_row _ _ _ h, Obj.run_append]
  show ((o.run cx history).setStatus row).row = _
  simp [Obj.setStatus, Obj.run_tokenSet]

end GmxV1

open GmxV1 in
/-- **the v1 fee depends only on the current row and the arguments.**  Take any live `GmxMarket` object, any history of
    bars, operations and fee reads, then `set_market_status(row)` and any calls inside that bar: `get_fee_basis_points(tok,
    usdg, increase)` answers `feeBps` of that row (with the object's token set) — nothing computed from an earlier row, and
    not even the holding, enters.  Every arithmetic context. -/
theorem C17_v1_fee_depends_only_on_row_and_args (cx : NumCtx) (o : Obj) (history : List Event) (row : Env) (calls : List Event)
    (h : ∀ e ∈ calls, e.inBar = true) (tok : String) (usdg : Rat) (inc : Bool) :
    ((o.run cx (history ++ [.setStatus row] ++ calls)).apply cx (.fee tok usdg inc)).1
      = .feeBps (feeBps cx { row with tokenSet := o.row.tokenSet } tok usdg inc) := by
  show Answer.feeBps (feeBps cx (o.run cx (history ++ [.setStatus row] ++ calls)).row tok usdg inc) = _
  rw [Obj.row_after cx o history row calls h]

open GmxV1 in
/-- two objects with the same token set on the same row charge the same fee, whatever their pasts and holdings -/
theorem C17_v1_fee_history_independent (cx : NumCtx) (o₁ o₂ : Obj) (h₁ h₂ c₁ c₂ : List Event) (row : Env)
    (hc₁ : ∀ e ∈ c₁, e.inBar = true) (hc₂ : ∀ e ∈ c₂, e.inBar = true) (ht : o₁.row.tokenSet = o₂.row.tokenSet)
    (tok : String) (usdg : Rat) (inc : Bool) :
    ((o₁.run cx (h₁ ++ [.setStatus row] ++ c₁)).apply cx (.fee tok usdg inc)).1
      = ((o₂.run cx (h₂ ++ [.setStatus row] ++ c₂)).apply cx (.fee tok usdg inc)).1 := by
  rw [C17_v1_fee_depends_only_on_row_and_args cx o₁ h₁ row c₁ hc₁, C17_v1_fee_depends_only_on_row_and_args cx o₂ h₂ row c₂ hc₂, ht]

open GmxV1 in
/-- **a v1 operation depends only on the current row, the holding (GLP, reward, wallet) and the arguments**: after any
    history, `buy_glp` / `sell_glp` / `update` in the bar of `row` is the single-row `step` on that row from the holding
    the object has at that moment. -/
theorem C17_v1_op_depends_only_on_row_holding_args (cx : NumCtx) (o : Obj) (history : List Event) (row : Env) (calls : List Event)
    (h : ∀ e ∈ calls, e.inBar = true) (p : Op) :
    let before := o.run cx (history ++ [.setStatus row] ++ calls)
    let r := step cx { row with tokenSet := o.row.tokenSet } before.st p o.allowNeg
    (before.apply cx (.op p)).1 = .value r.1 ∧ (before.apply cx (.op p)).2.st = r.2 ∧
      (before.apply cx (.op p)).2.row = { row with tokenSet := o.row.tokenSet } := by
  intro before r
  have hrow : before.row = { row with tokenSet := o.row.tokenSet } := Obj.row_after cx o history row calls h
  have hneg : before.allowNeg = o.allowNeg := Obj.run_allowNeg cx o _
  refine ⟨?_, ?_, ?_⟩
  · show Answer.value (step cx before.row before.st p before.allowNeg).1 = _
    rw [hrow, hneg]
  · show (step cx before.row before.st p before.allowNeg).2 = _
    rw [hrow, hneg]
  · show before.row = _
    exact hrow

namespace GmxV2
section
variable {α : Type} [Add α] [Sub α] [Mul α] [Div α] [Neg α] [LT α] [LE α] [OfNat α 0] [DecidableLT α] [DecidableLE α]

def Event.inBar : Event α → Bool
  | .setStatus _ => false
  | _ => true

theorem Obj.run_append (ops : Ops α) (cx : NumCtx) (o : Obj α) (a b : List (Event α)) :
    o.run ops cx (a ++ b) = (o.run ops cx a).run ops cx b := by
  simp [Obj.run, List.foldl_append]

/-- configuration and token keys never change -/
theorem Obj.run_static (ops : Ops α) (cx : NumCtx) (o : Obj α) (evs : List (Event α)) :
    (o.run ops cx evs).cfg = o.cfg ∧ (o.run ops cx evs).longKey = o.longKey ∧ (o.run ops cx evs).shortKey = o.shortKey ∧
      (o.run ops cx evs).allowNeg = o.allowNeg := by
  induction evs generalizing o with
  | nil => exact ⟨rfl, rfl, rfl, rfl⟩
  | cons e es ih =>
    have := ih (o.apply ops cx e).2
    show (Obj.run ops cx (o.apply ops cx e).2 es).cfg = _ ∧ (Obj.run ops cx (o.apply ops cx e).2 es).longKey = _ ∧
      (Obj.run ops cx (o.apply ops cx e).2 es).shortKey = _ ∧ (Obj.run ops cx (o.apply ops cx e).2 es).allowNeg = _
    rw [this.1, this.2.1, this.2.2.1, this.2.2.2]
    cases e <;> simp [Obj.apply]

theorem Obj.run_inBar_row (ops : Ops α) (cx : NumCtx) (o : Obj α) (evs : List (Event α)) (h : ∀ e ∈ evs, e.inBar = true) :
    (o.run ops cx evs).row = o.row := by
  induction evs generalizing o with
  | nil => rfl
  | cons e es ih =>
    have he : e.inBar = true := h e (List.mem_cons_self ..)
    have hes : ∀ e' ∈ es, e'.inBar = true := fun e' m => h e' (List.mem_cons_of_mem _ m)
    show (Obj.run ops cx (o.apply ops cx e).2 es).row = _
    rw [ih _ hes]
    cases e with
    | setStatus r => simp [Event.inBar] at he
    | deposit l s => simp [Obj.apply]
    | withdraw a => simp [Obj.apply]

theorem Obj.row_after (ops : Ops α) (cx : NumCtx) (o : Obj α) (history : List (Event α)) (row : Pool α) (calls : List (Event α))
    (h : ∀ e ∈ calls, e.inBar = true) : (o.run ops cx (history ++ [.setStatus row] ++ calls)).row = row := by
  rw [Obj.run_append, Obj.run_inBar_row _ _ _ _ h, Obj.run_append]
  rfl

end
end GmxV2

section
variable {α : Type} [Add α] [Sub α] [Mul α] [Div α] [Neg α] [LT α] [LE α] [OfNat α 0] [DecidableLT α] [DecidableLE α]
open GmxV2

/-- **a v2 deposit depends only on the current row, the holding and the arguments** (and the object's fixed configuration):
    after any history of bars, deposits and withdrawals, `deposit(long, short)` in the bar of `row` is the single-row
    `deposit` on that row from the holding (GM amount, wallet) the object has at that moment — for every number type
    (`Rat` in the theorems, IEEE `Float` in the driver), every power function and every Decimal context of the wallet. -/
theorem C17_v2_mint_depends_only_on_row_holding_args (ops : Ops α) (cx : NumCtx) (o : Obj α) (history : List (Event α))
    (row : Pool α) (calls : List (Event α)) (h : ∀ e ∈ calls, e.inBar = true) (long short : α) :
    let before := o.run ops cx (history ++ [.setStatus row] ++ calls)
    let r := deposit ops cx o.cfg row o.longKey o.shortKey before.st long short o.allowNeg
    (before.apply ops cx (.deposit long short)).1 = .deposit r.1 ∧ (before.apply ops cx (.deposit long short)).2.st = r.2 := by
  intro before r
  have hrow : before.row = row := Obj.row_after ops cx o history row calls h
  obtain ⟨hc, hl, hs, hn⟩ := Obj.run_static ops cx o (history ++ [.setStatus row] ++ calls)
  refine ⟨?_, ?_⟩
  · show Answer.deposit (deposit ops cx before.cfg before.row before.longKey before.shortKey before.st long short before.allowNeg).1 = _
    rw [hrow, hc, hl, hs, hn]
  · show (deposit ops cx before.cfg before.row before.longKey before.shortKey before.st long short before.allowNeg).2 = _
    rw [hrow, hc, hl, hs, hn]

/-- the same for a withdrawal -/
theorem C17_v2_redeem_depends_only_on_row_holding_args (ops : Ops α) (cx : NumCtx) (o : Obj α) (history : List (Event α))
    (row : Pool α) (calls : List (Event α)) (h : ∀ e ∈ calls, e.inBar = true) (amount : Option α) :
    let before := o.run ops cx (history ++ [.setStatus row] ++ calls)
    let r := withdraw ops cx o.cfg row o.longKey o.shortKey before.st amount
    (before.apply ops cx (.withdraw amount)).1 = .withdraw r.1 ∧ (before.apply ops cx (.withdraw amount)).2.st = r.2 := by
  intro before r
  have hrow : before.row = row := Obj.row_after ops cx o history row calls h
  obtain ⟨hc, hl, hs, _⟩ := Obj.run_static ops cx o (history ++ [.setStatus row] ++ calls)
  refine ⟨?_, ?_⟩
  · show Answer.withdraw (withdraw ops cx before.cfg before.row before.longKey before.shortKey before.st amount).1 = _
    rw [hrow, hc, hl, hs]
  · show (withdraw ops cx before.cfg before.row before.longKey before.shortKey before.st amount).2 = _
    rw [hrow, hc, hl, hs]
end

/-! ### rewards over whole runs: pro rata to the share of supply, bar after bar, for arbitrary histories -/

namespace GmxV1

/-- the property's accrual rule read off a history: an `update()` on a row with GLP outstanding adds
    `interval × 60 × held / supply` — with the row and the holding the object has AT THAT MOMENT —, every other event adds
    nothing.  (`update()` on a row without supply raises and adds nothing.) -/
def accrued (cx : NumCtx) : Obj → List Event → Rat
  | _, [] => 0
  | o, e :: es =>
    (match e with
     | .op .update => if o.row.glpSupply = 0 then 0 else o.row.interval * 60 * (o.st.glp / o.row.glpSupply)
     | _ => 0) + accrued cx (o.apply cx e).2 es

theorem accrued_cons (cx : NumCtx) (o : Obj) (e : Event) (es : List Event) :
    accrued cx o (e :: es)
      = (match e with
         | .op .update => if o.row.glpSupply = 0 then 0 else o.row.interval * 60 * (o.st.glp / o.row.glpSupply)
         | _ => 0) + accrued cx (o.apply cx e).2 es := rfl

theorem buyGlp_reward {cx : NumCtx} {env : Env} {s : State} {t : String} {d : Nat} {a : Rat} {an : Bool} :
    (buyGlp cx env s t d a an).2.reward = s.reward := by
  unfold buyGlp
  split
  · rfl
  · split
    · rfl
    · split <;> rfl

theorem sellGlp_reward {cx : NumCtx} {env : Env} {s : State} {t : String} {d : Nat} {g : Rat} :
    (sellGlp cx env s t d g).2.reward = s.reward := by
  unfold sellGlp
  simp only []
  generalize (if g = 0 then s.glp else g) = g'
  split
  · rfl
  · split
    · rfl
    · split <;> rfl

theorem update_ok_supply {env : Env} {s s' : State} {r : Rat} (h : update NumCtx.exact env s = (.ok r, s')) :
    env.glpSupply ≠ 0 := by
  unfold update at h
  simp only [] at h
  split at h
  · cases h
  · rename_i q hq; exact (Gmx.ddiv_ok hq).1

theorem update_error_state {cx : NumCtx} {env : Env} {s s' : State} {e : Err} (h : update cx env s = (.error e, s')) : s' = s := by
  unfold update at h
  simp only [] at h
  split at h
  · cases h; rfl
  · cases h

theorem update_error_supply {env : Env} {s s' : State} {e : Err} (h : update NumCtx.exact env s = (.error e, s')) :
    env.glpSupply = 0 := by
  by_contra hne
  unfold update at h
  simp only [ddiv, if_neg hne] at h
  cases h

theorem update_glp {cx : NumCtx} (env : Env) (s : State) : (update cx env s).2.glp = s.glp := by
  unfold update
  simp only []
  split <;> rfl

theorem update_reward_exact (env : Env) (s : State) :
    (update NumCtx.exact env s).2.reward
      = s.reward + (if env.glpSupply = 0 then 0 else env.interval * 60 * (s.glp / env.glpSupply)) := by
  cases h : update NumCtx.exact env s with
  | mk res s' =>
    cases res with
    | ok r =>
      obtain ⟨hr, hs, -⟩ := C17_v1_reward_pro_rata h
      simp only [hs, hr, if_neg (update_ok_supply h)]
    | error e =>
      simp only [update_error_state h, update_error_supply h, if_true, add_zero]

end GmxV1

open GmxV1 in
/-- **whole-run accrual (v1)**: for EVERY history of bars (`set_market_status`), buys, sells, fee reads and bar-end
    `update()` calls on one live market object — any rows, any order, any number of bars —, the pending reward at the end is
    the reward at the start plus, for each `update()`, `interval × 60 × held / supply` taken with the row and the holding of
    that moment: pro rata to the holder's share of the GLP supply in every bar, and nothing else (no buy, sell, fee read,
    row change or rejected call) ever touches it.  Exact arithmetic; the literal 60 is the generated `gmxRewardSeconds`. -/
theorem C17_v1_reward_accrues_pro_rata_over_runs (o : Obj) (evs : List Event) :
    (o.run NumCtx.exact evs).st.reward = o.st.reward + accrued NumCtx.exact o evs ∧ Gen.gmxRewardSeconds = 60 := by
  refine ⟨?_, rfl⟩
  induction evs generalizing o with
  | nil => simp [Obj.run, accrued]
  | cons e es ih =>
    show (Obj.run NumCtx.exact (o.apply NumCtx.exact e).2 es).st.reward = _
    rw [ih (o.apply NumCtx.exact e).2, accrued_cons]
    have hstep : (o.apply NumCtx.exact e).2.st.reward
        = o.st.reward + (match e with
            | .op .update => if o.row.glpSupply = 0 then 0 else o.row.interval * 60 * (o.st.glp / o.row.glpSupply)
            | _ => 0) := by
      cases e with
      | setStatus r => simp [Obj.apply, Obj.setStatus]
      | fee t u i => simp [Obj.apply]
      | op p =>
        cases p with
        | buy t d a => simp only [Obj.apply, step]; rw [buyGlp_reward]; simp
        | sell t d g => simp only [Obj.apply, step]; rw [sellGlp_reward]; simp
        | update => simp only [Obj.apply, step]; exact update_reward_exact o.row o.st
    rw [hstep, add_assoc]

open GmxV1 in
/-- a holder that never trades: with a constant holding `g` over bars whose rows have GLP outstanding, `n` bar-end updates
    add `g × Σ interval_k × 60 / supply_k` — the reward is linear in the share held. -/
theorem C17_v1_reward_constant_holding (o : Obj) (rows : List Env) (hs : ∀ r ∈ rows, r.glpSupply ≠ 0) :
    (o.run NumCtx.exact (rows.flatMap (fun r => [.setStatus r, .op .update]))).st.reward
      = o.st.reward + o.st.glp * (rows.map (fun r => r.interval * 60 / r.glpSupply)).sum := by
  induction rows generalizing o with
  | nil => simp [Obj.run]
  | cons r rs ih =>
    have hr : r.glpSupply ≠ 0 := hs r (List.mem_cons_self ..)
    simp only [List.flatMap_cons, List.map_cons, List.sum_cons]
    rw [Obj.run_append, ih _ (fun r' m => hs r' (List.mem_cons_of_mem _ m))]
    have h1 : (o.run NumCtx.exact [.setStatus r, .op .update]).st.reward
        = o.st.reward + r.interval * 60 * (o.st.glp / r.glpSupply) := by
      have := (C17_v1_reward_accrues_pro_rata_over_runs o [.setStatus r, .op .update]).1
      rw [this]
      simp [accrued, Obj.apply, Obj.setStatus, hr]
    have h2 : (o.run NumCtx.exact [.setStatus r, .op .update]).st.glp = o.st.glp := by
      show (update NumCtx.exact _ o.st).2.glp = _
      exact update_glp _ _
    rw [h1, h2]; field_simp; ring

/-! ### non-vacuity: a history in which the row really changes and the answers change with it -/

/-- the next bar of `Gmx.demoEnv`: WETH's weight 1 → 3 (total weight 2 → 4), price, USDG supply and AUM moved as well -/
def Gmx.demoEnv2 : GmxV1.Env :=
  { Gmx.demoEnv with rows := [{ name := "weth", price := 2100 * 10 ^ 30, usdg := 4 * 10 ^ 24, weight := 3 },
                              { name := "usdc", price := 10 ^ 30, usdg := 5 * 10 ^ 24, weight := 1 }],
                     usdgSupply := 12 * 10 ^ 24, aum := 11 * 10 ^ 36 }

def Gmx.demoObj : GmxV1.Obj := { row := Gmx.demoEnv, st := Gmx.demoState }

/-- bar 1: a buy and a fee read (13 bp on that row); bar 2 has other weights: the same fee read now answers 0 bp -/
example : (((Gmx.demoObj.run NumCtx.exact [.op (.buy "weth" 18 1), .fee "weth" (10 ^ 21) true, .setStatus Gmx.demoEnv2]).apply NumCtx.exact
      (.fee "weth" (10 ^ 21) true)).1 = .feeBps (.ok (0, .rebateZero)))
    ∧ GmxV1.feeBps NumCtx.exact Gmx.demoEnv "weth" (10 ^ 21) true = .ok (13, .rebate) := by
  refine ⟨?_, by decide +kernel⟩
  rw [show [GmxV1.Event.op (.buy "weth" 18 1), .fee "weth" (10 ^ 21) true, .setStatus Gmx.demoEnv2]
        = [GmxV1.Event.op (.buy "weth" 18 1), .fee "weth" (10 ^ 21) true] ++ [.setStatus Gmx.demoEnv2] ++ [] from rfl,
      C17_v1_fee_depends_only_on_row_and_args _ _ _ _ _ (by simp)]
  congr 1
  decide +kernel

/-- and the GLP bought in bar 1 is sold in bar 2 at bar 2's row -/
example : ((Gmx.demoObj.run NumCtx.exact [.op (.buy "weth" 18 1), .setStatus Gmx.demoEnv2]).apply NumCtx.exact (.op (.sell "weth" 18 0))).2.st.wallet
    = [("WETH", 532033049 / 175000000)] := by decide +kernel

/-- non-vacuity: two bars with different rows, a buy in the first: the accrual of each bar uses that bar's row and the
    holding of that moment (0 before the buy would have been wrong: the buy precedes the update) -/
example : ((Gmx.demoObj.run NumCtx.exact [.op (.buy "weth" 18 1), .op .update, .setStatus Gmx.demoEnv2, .op .update]).st.reward
    = 0 + (10 ^ 15 * 60 * ((39948 / 25) / (8 * 10 ^ 24)) + 10 ^ 15 * 60 * ((39948 / 25) / (8 * 10 ^ 24)))) := by
  decide +kernel

end Demeter
