/-
  C17 — GMX v2 (GM market).  Theorems about Demeter.GmxV2 instantiated at `Rat`: the exact rational semantics of the
  float formulas, for every power function `pw` (`diffUsd ** exponent` is an oracle).
-/
import Proofs.Lemmas.GmxV2Spec
import Proofs.Lemmas.GmxV2Reject
import Demeter.Gen.ConstsGmx
namespace Demeter
open Demeter.GmxV2 Demeter.Gmx Demeter.Gmx2

variable {pw : Rat → Rat → Rat}

/-- in rational arithmetic `**` never raises `OverflowError`: the overflow branch of the model concerns doubles only -/
theorem C17_v2_exact_pow_never_raises (cfg : Config Rat) (p : PoolParams Rat) : impactPowRaises (ratOps pw) cfg p = false := rfl

/-- inversion of an accepted `deposit` -/
theorem Gmx2.deposit_ok {cx : NumCtx} {cfg : Config Rat} {ps : Pool Rat} {lk sk : String} {s s' : State Rat} {la sa : Rat}
    {r : LPResult Rat} {tag : String}
    (h : deposit (ratOps pw) cx cfg ps lk sk s la sa = (.ok (r, tag), s')) :
    0 ≤ la ∧ 0 ≤ sa ∧ mintAmount (ratOps pw) cfg ps la sa = .ok (r, tag) ∧ s'.amount = s.amount + r.gmAmount ∧
      s'.actions = s.actions ++ [(true, r)] ∧
      ∃ w1, Wallet.debit cx s.wallet lk r.longAmount false = .ok w1 ∧ Wallet.debit cx w1 sk r.shortAmount false = .ok s'.wallet := by
  unfold deposit at h
  rw [show (!((ratOps pw).isFinite la && (ratOps pw).isFinite sa)) = false from rfl] at h
  simp only [Bool.false_eq_true, if_false] at h
  split at h
  · cases h
  · rename_i hneg
    rw [not_or, not_lt, not_lt] at hneg
    split at h
    · cases h
    · rename_i r' tag' hm
      rw [show (!(ratOps pw).isFinite r'.gmAmount) = false from rfl] at h
      simp only [Bool.false_eq_true, if_false] at h
      split at h
      · cases h
      · cases h
      · rename_i w1 hw1
        split at h
        · cases h
        · rename_i w2 hw2
          simp only [Prod.mk.injEq, Except.ok.injEq] at h
          obtain ⟨⟨rfl, rfl⟩, rfl⟩ := h
          exact ⟨hneg.1, hneg.2, hm, rfl, rfl, w1, hw1, hw2⟩

/-- inversion of an accepted `withdraw` -/
theorem Gmx2.withdraw_ok {cx : NumCtx} {cfg : Config Rat} {ps : Pool Rat} {lk sk : String} {s s' : State Rat} {amt : Option Rat}
    {r : LPResult Rat} (h : withdraw (ratOps pw) cx cfg ps lk sk s amt = (.ok r, s')) :
    0 ≤ amt.getD s.amount ∧ amt.getD s.amount ≤ s.amount ∧ outputAmount (ratOps pw) cfg ps (amt.getD s.amount) = .ok r ∧
      s'.amount = s.amount - r.gmAmount ∧ s'.actions = s.actions ++ [(false, r)] ∧
      s'.wallet = Wallet.credit cx (Wallet.credit cx s.wallet lk r.longAmount) sk r.shortAmount := by
  unfold withdraw at h
  simp only [] at h
  rw [show (!(ratOps pw).isFinite (amt.getD s.amount)) = false from rfl] at h
  simp only [Bool.false_eq_true, if_false] at h
  split at h
  · cases h
  · rename_i h1
    split at h
    · cases h
    · rename_i h2
      split at h
      · cases h
      · rename_i r' hr
        rw [show (!((ratOps pw).isFinite r'.longAmount && (ratOps pw).isFinite r'.shortAmount)) = false from rfl] at h
        simp only [Bool.false_eq_true, if_false, Prod.mk.injEq, Except.ok.injEq] at h
        obtain ⟨rfl, rfl⟩ := h
        exact ⟨not_lt.mp h1, not_lt.mp h2, hr, rfl, rfl, rfl⟩

/-! ### minted amount: pool value per share, deposit fee factors, price impact capped by the impact pool -/

/-- **GM minted × pool value per share = Σ over the deposited tokens of (amount × (1 − deposit fee factor) × price
    + that token's share of the price impact)**, where the fee factor is the positive-impact one iff the share is
    positive, a negative share is charged in full and a positive share is capped by the impact pool (`creditOf`): the long
    side by the row's impact pool, the short side by what the long side left of it (`sideLeft`). -/
theorem C17_v2_mint_value_per_share {cx : NumCtx} {cfg : Config Rat} {ps : Pool Rat} (hp : PoolPos ps) {lk sk : String}
    {s s' : State Rat} {la sa : Rat} {r : LPResult Rat} {tag : String}
    (h : deposit (ratOps pw) cx cfg ps lk sk s la sa = (.ok (r, tag), s')) :
    let total := la * ps.longPrice + sa * ps.shortPrice
    let shareL := r.priceImpactUsd * (la * ps.longPrice) / total
    let shareS := r.priceImpactUsd * (sa * ps.shortPrice) / total
    r.gmAmount * (ps.poolValue / ps.supply)
        = sideValue cfg ps.impactPool la ps.longPrice ps.shortPrice shareL
        + sideValue cfg (sideLeft ps.impactPool la ps.shortPrice shareL) sa ps.shortPrice ps.longPrice shareS ∧
      s'.amount = s.amount + r.gmAmount ∧ r.longAmount = la ∧ r.shortAmount = sa := by
  obtain ⟨_, _, hm, hs, _, _⟩ := Gmx2.deposit_ok h
  obtain ⟨_, _, hl, hsh, _, hv, _, _⟩ := mintAmount_ok hp hm
  exact ⟨hv, hs, hl, hsh⟩

/-- **the credited price impact of one side never exceeds what is left of the impact pool** (amount × price of the token
    it is paid in), nor the impact itself; the default fee factors are 5 bp (positive impact) and 7 bp (negative impact). -/
theorem C17_v2_positive_impact_capped (cfg : Config Rat) (pool amount pin pout share : Rat) (hs : 0 < share)
    (ha : 0 < amount) :
    sideValue cfg pool amount pin pout share ≤ amount * (1 - cfg.depositFeePos) * pin + pool * pout ∧
    sideValue cfg pool amount pin pout share ≤ amount * (1 - cfg.depositFeePos) * pin + share ∧
    Gen.gmx2DepositFeePos = 1152921504606847 / 2305843009213693952 ∧
    Gen.gmx2DepositFeeNeg = 6456360425798343 / 9223372036854775808 := by
  unfold sideValue
  rw [if_pos ha, if_pos hs]
  refine ⟨?_, ?_, by norm_num [Gen.gmx2DepositFeePos], by norm_num [Gen.gmx2DepositFeeNeg]⟩
  · have := creditOf_le_cap (cap := pool * pout) hs; linarith
  · have := creditOf_le_impact share (pool * pout); linarith

/-- **the positive price impact of a whole deposit is capped by the impact pool**: the long side draws `paidL` units (of the
    short token) and the short side `paidS` units (of the long token) from the one impact pool of the row; both are
    non-negative, **together they never exceed the pool**, and they are exactly what `C17_v2_mint_value_per_share` credits
    (`creditOf = paid × price of the token paid`) whenever a side's share is positive. -/
theorem C17_v2_positive_impact_capped_total {ps : Pool Rat} (hp : PoolPos ps) (la sa shareL shareS : Rat) :
    let paidL := if la > 0 then paidOf shareL ps.shortPrice ps.impactPool else 0
    let left := sideLeft ps.impactPool la ps.shortPrice shareL
    let paidS := if sa > 0 then paidOf shareS ps.longPrice left else 0
    0 ≤ paidL ∧ 0 ≤ paidS ∧ paidL + paidS ≤ ps.impactPool ∧ left = ps.impactPool - paidL ∧
      (la > 0 → 0 < shareL → creditOf shareL (ps.impactPool * ps.shortPrice) = paidL * ps.shortPrice) ∧
      (sa > 0 → 0 < shareS → creditOf shareS (left * ps.longPrice) = paidS * ps.longPrice) := by
  intro paidL left paidS
  have h0 := hp.impactPool
  have hL0 : 0 ≤ paidL := by
    show 0 ≤ (if la > 0 then paidOf shareL ps.shortPrice ps.impactPool else 0)
    split
    · exact paidOf_nonneg hp.shortPrice h0
    · exact le_refl _
  have hLle : paidL ≤ ps.impactPool := by
    show (if la > 0 then paidOf shareL ps.shortPrice ps.impactPool else 0) ≤ _
    split
    · exact paidOf_le_pool h0
    · exact h0
  have hleft : left = ps.impactPool - paidL := by
    show sideLeft ps.impactPool la ps.shortPrice shareL = ps.impactPool - (if la > 0 then paidOf shareL ps.shortPrice ps.impactPool else 0)
    unfold sideLeft; split <;> simp
  have hleft0 : 0 ≤ left := by rw [hleft]; linarith
  have hS0 : 0 ≤ paidS := by
    show 0 ≤ (if sa > 0 then paidOf shareS ps.longPrice left else 0)
    split
    · exact paidOf_nonneg hp.longPrice hleft0
    · exact le_refl _
  have hSle : paidS ≤ left := by
    show (if sa > 0 then paidOf shareS ps.longPrice left else 0) ≤ _
    split
    · exact paidOf_le_pool hleft0
    · exact hleft0
  refine ⟨hL0, hS0, by rw [hleft] at hSle; linarith, hleft, ?_, ?_⟩
  · intro ha hs
    show _ = (if la > 0 then paidOf shareL ps.shortPrice ps.impactPool else 0) * _
    rw [if_pos ha]; exact creditOf_eq_paid hp.shortPrice hs
  · intro ha hs
    show _ = (if sa > 0 then paidOf shareS ps.longPrice left else 0) * _
    rw [if_pos ha]; exact creditOf_eq_paid hp.longPrice hs

/-! ### redeemed amounts -/

/-- **redeemed value = shares × pool value per share × (1 − withdraw fee factor)**, split between long and short
    token in the proportions of the pool's holdings; the holding shrinks by exactly the shares redeemed. -/
theorem C17_v2_withdraw_value_per_share {cx : NumCtx} {cfg : Config Rat} {ps : Pool Rat} {lk sk : String}
    {s s' : State Rat} {amt : Option Rat} {r : LPResult Rat}
    (h : withdraw (ratOps pw) cx cfg ps lk sk s amt = (.ok r, s')) :
    let g := amt.getD s.amount
    let total := ps.longAmount * ps.longPrice + ps.shortAmount * ps.shortPrice
    let usd := ps.poolValue * g / ps.supply
    r.longAmount * ps.longPrice + r.shortAmount * ps.shortPrice = (1 - cfg.withdrawFeeNeg) * usd ∧
      r.longAmount = (1 - cfg.withdrawFeeNeg) * (usd * (ps.longAmount * ps.longPrice) / total / ps.longPrice) ∧
      r.shortAmount = (1 - cfg.withdrawFeeNeg) * (usd * (ps.shortAmount * ps.shortPrice) / total / ps.shortPrice) ∧
      s'.amount = s.amount - g ∧ 0 ≤ g ∧ g ≤ s.amount ∧
      Gen.gmx2WithdrawForPositive = false ∧ Gen.gmx2WithdrawFeeNeg = 6456360425798343 / 9223372036854775808 := by
  intro g total usd
  obtain ⟨h0, h1, ho, hs, _, _⟩ := Gmx2.withdraw_ok h
  obtain ⟨_, _, _, _, hg, hl, hsh, hv⟩ := outputAmount_ok ho
  refine ⟨hv, hl, hsh, by rw [hs, hg], h0, h1, rfl, by norm_num [Gen.gmx2WithdrawFeeNeg]⟩

/-! ### same-bar round trip -/

/-- value credited for one side is at most what was paid for it when its impact share is not positive -/
theorem Gmx2.sideValue_le_paid {cfg : Config Rat} (hc : CfgOK cfg) (pool : Rat) {amount pin pout share : Rat}
    (hpin : 0 < pin) (hs : share ≤ 0) : sideValue cfg pool amount pin pout share ≤ max amount 0 * pin := by
  unfold sideValue
  by_cases ha : amount > 0
  · rw [if_pos ha, if_neg (not_lt.mpr hs), max_eq_left (le_of_lt ha)]
    have h1 := creditOf_nonpos (cap := pool * pout) hs
    have h2 : 0 ≤ cfg.depositFeeNeg * amount * pin := by
      have := hc.dn0; positivity
    nlinarith
  · rw [if_neg ha, max_eq_right (not_lt.mp ha)]; simp

/-- **round trip, non-positive price impact**: depositing and immediately withdrawing any part `g' ≤` of the minted GM
    in the same bar returns tokens worth at most what was paid.  (With a positive impact the statement is false, see
    `C17_fails_v2_roundtrip_positive_impact`.) -/
theorem C17_v2_roundtrip_partial {cx : NumCtx} {cfg : Config Rat} (hc : CfgOK cfg) {ps : Pool Rat} (hp : PoolPos ps)
    {lk sk : String} {s s1 s2 : State Rat} {la sa g' : Rat} {r r2 : LPResult Rat} {tag : String}
    (hdep : deposit (ratOps pw) cx cfg ps lk sk s la sa = (.ok (r, tag), s1))
    (himp : r.priceImpactUsd ≤ 0)
    (hg' : g' ≤ r.gmAmount)
    (hwd : withdraw (ratOps pw) cx cfg ps lk sk s1 (some g') = (.ok r2, s2)) :
    r2.longAmount * ps.longPrice + r2.shortAmount * ps.shortPrice ≤ la * ps.longPrice + sa * ps.shortPrice := by
  obtain ⟨hla, hsa, hm, _, _, _⟩ := Gmx2.deposit_ok hdep
  obtain ⟨_, _, _, _, _, hv, _, hne⟩ := mintAmount_ok hp hm
  obtain ⟨h0, _, ho, _, _, _⟩ := Gmx2.withdraw_ok hwd
  obtain ⟨_, _, _, _, _, _, _, hout⟩ := outputAmount_ok ho
  simp only [Option.getD_some] at h0 hout
  rw [hout]
  have hpL := hp.longPrice
  have hpS := hp.shortPrice
  have hpv := hp.poolValue
  have hsup := hp.supply
  have hlu : 0 ≤ la * ps.longPrice := by positivity
  have hsu : 0 ≤ sa * ps.shortPrice := by positivity
  -- shares of a non-positive impact are non-positive
  have hsh1 : r.priceImpactUsd * (la * ps.longPrice) / (la * ps.longPrice + sa * ps.shortPrice) ≤ 0 := by
    apply div_nonpos_of_nonpos_of_nonneg (mul_nonpos_of_nonpos_of_nonneg himp hlu) (by linarith)
  have hsh2 : r.priceImpactUsd * (sa * ps.shortPrice) / (la * ps.longPrice + sa * ps.shortPrice) ≤ 0 := by
    apply div_nonpos_of_nonpos_of_nonneg (mul_nonpos_of_nonpos_of_nonneg himp hsu) (by linarith)
  have h1 := Gmx2.sideValue_le_paid hc ps.impactPool (amount := la) (pout := ps.shortPrice) hpL hsh1
  have h2 := Gmx2.sideValue_le_paid hc (sideLeft ps.impactPool la ps.shortPrice
    (r.priceImpactUsd * (la * ps.longPrice) / (la * ps.longPrice + sa * ps.shortPrice))) (amount := sa) (pout := ps.longPrice) hpS hsh2
  rw [max_eq_left hla] at h1
  rw [max_eq_left hsa] at h2
  -- value of the redeemed shares ≤ value of the minted shares ≤ paid
  have hval : ps.poolValue * g' / ps.supply ≤ r.gmAmount * (ps.poolValue / ps.supply) := by
    have : ps.poolValue * g' / ps.supply = g' * (ps.poolValue / ps.supply) := by ring
    rw [this]
    exact mul_le_mul_of_nonneg_right hg' (by positivity)
  have husd0 : 0 ≤ ps.poolValue * g' / ps.supply := by positivity
  have hw0 := hc.wn0
  have hw1 := hc.wn1
  calc (1 - cfg.withdrawFeeNeg) * (ps.poolValue * g' / ps.supply)
      ≤ 1 * (ps.poolValue * g' / ps.supply) := mul_le_mul_of_nonneg_right (by linarith) husd0
    _ = ps.poolValue * g' / ps.supply := one_mul _
    _ ≤ r.gmAmount * (ps.poolValue / ps.supply) := hval
    _ ≤ la * ps.longPrice + sa * ps.shortPrice := by rw [hv]; linarith

/-- **round trip in closed form** (any sign of the impact): withdrawing exactly the GM just minted returns
    `(1 − withdraw fee factor) × (Σ amount·(1 − deposit fee factor)·price + credited impact)` — so the round trip profits
    exactly when the credited positive impact outweighs the three fee factors. -/
theorem C17_v2_roundtrip_closed_form {cx : NumCtx} {cfg : Config Rat} {ps : Pool Rat} (hp : PoolPos ps)
    {lk sk : String} {s s1 s2 : State Rat} {la sa : Rat} {r r2 : LPResult Rat} {tag : String}
    (hdep : deposit (ratOps pw) cx cfg ps lk sk s la sa = (.ok (r, tag), s1))
    (hwd : withdraw (ratOps pw) cx cfg ps lk sk s1 (some r.gmAmount) = (.ok r2, s2)) :
    let total := la * ps.longPrice + sa * ps.shortPrice
    let shareL := r.priceImpactUsd * (la * ps.longPrice) / total
    r2.longAmount * ps.longPrice + r2.shortAmount * ps.shortPrice
      = (1 - cfg.withdrawFeeNeg) *
        (sideValue cfg ps.impactPool la ps.longPrice ps.shortPrice shareL
         + sideValue cfg (sideLeft ps.impactPool la ps.shortPrice shareL) sa ps.shortPrice ps.longPrice
             (r.priceImpactUsd * (sa * ps.shortPrice) / total)) := by
  intro total shareL
  obtain ⟨_, _, hm, _, _, _⟩ := Gmx2.deposit_ok hdep
  obtain ⟨_, _, _, _, _, hv, _, _⟩ := mintAmount_ok hp hm
  obtain ⟨_, _, ho, _, _, _⟩ := Gmx2.withdraw_ok hwd
  obtain ⟨_, _, _, _, _, _, _, hout⟩ := outputAmount_ok ho
  simp only [Option.getD_some] at hout
  rw [hout, ← hv]
  ring

/-! ### no more shares can be redeemed than are held; the holding never becomes negative -/

/-- **over-redemption is rejected and changes nothing** — every arithmetic context and power function. -/
theorem C17_v2_no_over_redeem (cx : NumCtx) (cfg : Config Rat) (ps : Pool Rat) (lk sk : String) (s : State Rat) (g : Rat)
    (hg : s.amount < g) : withdraw (ratOps pw) cx cfg ps lk sk s (some g) = (.error .demeter, s) := by
  unfold withdraw
  simp only [Option.getD_some]
  rw [show (!(ratOps pw).isFinite g) = false from rfl]
  simp only [Bool.false_eq_true, if_false]
  by_cases hn : g < 0
  · rw [if_pos hn]
  · rw [if_neg hn, if_pos hg]

/-- minted GM is never negative on a well-formed pool (a negative impact larger than the deposit is rejected) -/
theorem Gmx2.gm_nonneg {cfg : Config Rat} (hc : CfgOK cfg) {ps : Pool Rat} (hp : PoolPos ps) {la sa : Rat} (hla : 0 ≤ la) (hsa : 0 ≤ sa)
    {r : LPResult Rat} {tag : String} (hm : mintAmount (ratOps pw) cfg ps la sa = .ok (r, tag)) : 0 ≤ r.gmAmount := by
  unfold mintAmount at hm
  simp only [bind_ok] at hm
  obtain ⟨⟨impact, tag0⟩, _, ⟨lp, left⟩, hlp, ⟨sp, left2⟩, hsp, gp, hgp, hpure⟩ := hm
  obtain ⟨hl, hleft, _, _, hln⟩ := sidePart_ok hp hp.longPrice hp.shortPrice hlp
  obtain ⟨hs, _, _, _, hsn⟩ := sidePart_ok hp hp.shortPrice hp.longPrice hsp
  simp only [pure, Except.pure, Except.ok.injEq, Prod.mk.injEq] at hpure
  obtain ⟨rfl, _⟩ := hpure
  have hk : 0 < ps.poolValue / ps.supply := div_pos hp.poolValue hp.supply
  -- each side's value is non-negative
  have side_nonneg : ∀ (pool amount pin pout share : Rat), 0 ≤ pool → 0 < pin → 0 < pout → 0 ≤ amount →
      (amount > 0 → share < 0 → 0 ≤ (amount - (if share > 0 then cfg.depositFeePos else cfg.depositFeeNeg) * amount) * pin + share) →
      0 ≤ sideValue cfg pool amount pin pout share := by
    intro pool amount pin pout share hpool hpin hpout ha0 hneg
    unfold sideValue
    by_cases ha : amount > 0
    · rw [if_pos ha]
      by_cases hsh : share > 0
      · have := creditOf_nonneg (cap := pool * pout) hsh (mul_nonneg hpool (le_of_lt hpout))
        rw [if_pos hsh]
        have h1 : 0 ≤ (amount - cfg.depositFeePos * amount) * pin := by
          have : 0 ≤ amount - cfg.depositFeePos * amount := by nlinarith [hc.dp0, hc.dp1]
          positivity
        linarith
      · by_cases hz : share < 0
        · have := hneg ha hz
          unfold creditOf; simp only [hsh, if_false] at this ⊢; exact this
        · have h0 : share = 0 := le_antisymm (not_lt.mp hsh) (not_lt.mp hz)
          subst h0
          unfold creditOf
          simp only [lt_irrefl, if_false, add_zero]
          have : 0 ≤ amount - cfg.depositFeeNeg * amount := by nlinarith [hc.dn0, hc.dn1]
          positivity
    · rw [if_neg ha]
  have hleft0 : 0 ≤ left := by
    rw [hleft]; unfold sideLeft; split
    · have := paidOf_le_pool (share := impact * (la * ps.longPrice) / (la * ps.longPrice + sa * ps.shortPrice))
        (priceOut := ps.shortPrice) hp.impactPool
      linarith
    · exact hp.impactPool
  have v1 := side_nonneg ps.impactPool la ps.longPrice ps.shortPrice _ hp.impactPool hp.longPrice hp.shortPrice hla hln
  have v2 := side_nonneg left sa ps.shortPrice ps.longPrice _ hleft0 hp.shortPrice hp.longPrice hsa hsn
  rw [← hl] at v1
  rw [← hs] at v2
  have m1 : 0 ≤ optMint lp := by
    by_contra hneg; rw [not_le] at hneg
    have := mul_neg_of_neg_of_pos hneg hk; linarith
  have m2 : 0 ≤ optMint sp := by
    by_contra hneg; rw [not_le] at hneg
    have := mul_neg_of_neg_of_pos hneg hk; linarith
  simp only []
  cases lp with
  | none => cases sp with
    | none => simp
    | some q => obtain ⟨m, f, c⟩ := q; simp at m2 ⊢; exact m2
  | some p =>
    obtain ⟨m, f, c⟩ := p
    cases sp with
    | none => simp at m1 ⊢; exact m1
    | some q => obtain ⟨m', f', c'⟩ := q; simp at m1 m2 ⊢; linarith

inductive Gmx2.Op
  | deposit (la sa : Rat)
  | withdraw (amt : Option Rat)

def Gmx2.step (pw : Rat → Rat → Rat) (cx : NumCtx) (cfg : Config Rat) (ps : Pool Rat) (lk sk : String) (s : State Rat) :
    Gmx2.Op → State Rat
  | .deposit la sa => (deposit (ratOps pw) cx cfg ps lk sk s la sa).2
  | .withdraw amt => (withdraw (ratOps pw) cx cfg ps lk sk s amt).2

/-- **the GM holding never becomes negative**, whatever operation is applied, accepted or rejected, in every arithmetic context -/
theorem C17_v2_shares_nonneg {cx : NumCtx} {cfg : Config Rat} (hc : CfgOK cfg) {ps : Pool Rat} (hp : PoolPos ps) (lk sk : String)
    (s : State Rat) (op : Gmx2.Op) (hs : 0 ≤ s.amount) : 0 ≤ (Gmx2.step pw cx cfg ps lk sk s op).amount := by
  cases op with
  | deposit la sa =>
    show 0 ≤ (deposit (ratOps pw) cx cfg ps lk sk s la sa).2.amount
    cases hd : deposit (ratOps pw) cx cfg ps lk sk s la sa with
    | mk res s' =>
      cases res with
      | error e => rw [deposit_reject hd]; exact hs
      | ok rt =>
        obtain ⟨r, tag⟩ := rt
        obtain ⟨hla, hsa, hm, hamt, _, _⟩ := Gmx2.deposit_ok hd
        have := Gmx2.gm_nonneg hc hp hla hsa hm
        simp only []; rw [hamt]; linarith
  | withdraw amt =>
    show 0 ≤ (withdraw (ratOps pw) cx cfg ps lk sk s amt).2.amount
    cases hw : withdraw (ratOps pw) cx cfg ps lk sk s amt with
    | mk res s' =>
      cases res with
      | error e => rw [withdraw_reject hw]; exact hs
      | ok r =>
        obtain ⟨_, h1, ho, hamt, _, _⟩ := Gmx2.withdraw_ok hw
        obtain ⟨_, _, _, _, hg, _, _, _⟩ := outputAmount_ok ho
        simp only []; rw [hamt, hg]; linarith

theorem C17_v2_shares_nonneg_seq {cx : NumCtx} {cfg : Config Rat} (hc : CfgOK cfg) {ps : Pool Rat} (hp : PoolPos ps) (lk sk : String)
    (ops : List Gmx2.Op) (s : State Rat) (hs : 0 ≤ s.amount) :
    0 ≤ (ops.foldl (Gmx2.step pw cx cfg ps lk sk) s).amount := by
  induction ops generalizing s with
  | nil => exact hs
  | cons op ops ih => exact ih _ (C17_v2_shares_nonneg hc hp lk sk s op hs)

/-! ### the full round-trip statement is false for a positive price impact: witness -/

/-- (paid, returned, price impact) of `deposit(la, sa)` followed by `withdraw` of the minted GM on the same row -/
def Gmx2.roundtripValue (pw : Rat → Rat → Rat) (cx : NumCtx) (cfg : Config Rat) (ps : Pool Rat) (lk sk : String) (s : State Rat)
    (la sa : Rat) : Option (Rat × Rat × Rat) :=
  match deposit (ratOps pw) cx cfg ps lk sk s la sa with
  | (.ok (r, _), s1) =>
    match withdraw (ratOps pw) cx cfg ps lk sk s1 (some r.gmAmount) with
    | (.ok r2, _) => some (la * ps.longPrice + sa * ps.shortPrice,
                           r2.longAmount * ps.longPrice + r2.shortAmount * ps.shortPrice, r.priceImpactUsd)
    | _ => none
  | _ => none

/-- `PoolConfig()` with the defaults found in the source (exact binary values of the float literals) -/
def Gmx2.defaultCfg : Config Rat :=
  { impactExponent := Gen.gmx2ImpactExponent, impactFactorPos := Gen.gmx2ImpactFactorPos, impactFactorNeg := Gen.gmx2ImpactFactorNeg,
    depositFeePos := Gen.gmx2DepositFeePos, depositFeeNeg := Gen.gmx2DepositFeeNeg, withdrawFeePos := Gen.gmx2WithdrawFeePos,
    withdrawFeeNeg := Gen.gmx2WithdrawFeeNeg }

/-- 10 M USD of the long token against 30 M USD of the short token, 1 M tokens in the impact pool -/
def Gmx2.demoPool : Pool Rat :=
  { longAmount := 5000, shortAmount := 30000000, virtualLong := none, virtualShort := none, poolValue := 40000000, supply := 40000000,
    impactPool := 1000000, longPrice := 2000, shortPrice := 1 }

def Gmx2.demoState : State Rat := { amount := 0, wallet := [("WETH", 1000), ("USDC", 50000)], actions := [] }

/-- `x ** 2` -/
def Gmx2.sq (x _ : Rat) : Rat := x * x

theorem Gmx2.defaultCfg_ok : CfgOK Gmx2.defaultCfg := by
  constructor <;> norm_num [Gmx2.defaultCfg, Gen.gmx2DepositFeePos, Gen.gmx2DepositFeeNeg, Gen.gmx2WithdrawFeeNeg]

theorem Gmx2.demoPool_pos : PoolPos Gmx2.demoPool := by
  constructor <;> norm_num [Gmx2.demoPool]

/-- **witness**: with the default configuration, depositing 500 long tokens (1 M USD) on the light side of the demo pool
    earns a positive price impact of ≈ 7 800 USD, and the immediate withdrawal returns ≈ 1 006 595 USD > 1 000 000 USD paid.
    "A same-bar round trip never returns more than was paid" is therefore false for GM (`v2.roundtrip.profit.positive_impact`). -/
theorem C17_fails_v2_roundtrip_positive_impact :
    ∃ paid back impact,
      Gmx2.roundtripValue Gmx2.sq NumCtx.exact Gmx2.defaultCfg Gmx2.demoPool "WETH" "USDC" Gmx2.demoState 500 0 = some (paid, back, impact) ∧
      0 < impact ∧ paid < back ∧ paid = 1000000 ∧ 1006594 < back :=
  ⟨1000000, 87686781875128753004086759849904367566701953125 / 87112285931760246646623899502532662132736,
   73668917132766468017578125 / 9444732965739290427392, by decide +kernel, by norm_num, by norm_num, rfl, by norm_num⟩

/-! ### non-vacuity of the positive theorems -/

/-- a deposit on the heavy side has a negative impact, is accepted, and its round trip loses (hypotheses of
    `C17_v2_roundtrip_partial`, `C17_v2_mint_value_per_share`, `C17_v2_withdraw_value_per_share` are satisfiable) -/
example : ∃ paid back impact,
    Gmx2.roundtripValue Gmx2.sq NumCtx.exact Gmx2.defaultCfg Gmx2.demoPool "WETH" "USDC" Gmx2.demoState 0 40000 = some (paid, back, impact) ∧
    impact < 0 ∧ back < paid :=
  ⟨40000, 1711923153565057097089168951787339681652453125 / 43556142965880123323311949751266331066368,
   -3025336863585609619921875 / 4722366482869645213696, by decide +kernel, by norm_num, by norm_num⟩

/-- withdrawing more than held is rejected -/
example : withdraw (ratOps Gmx2.sq) NumCtx.exact Gmx2.defaultCfg Gmx2.demoPool "WETH" "USDC" { Gmx2.demoState with amount := 5 } (some 6)
    = (.error .demeter, { Gmx2.demoState with amount := 5 }) :=
  C17_v2_no_over_redeem _ _ _ _ _ _ 6 (by norm_num)

/-! ### one impact pool for both tokens of a deposit (repaired code) -/

/-- value credited beyond the fee-reduced deposit -/
def Gmx2.bonusOf (cfg : Config Rat) (ps : Pool Rat) (la sa : Rat) : Option Rat :=
  match mintAmount (ratOps Gmx2.sq) cfg ps la sa with
  | .ok (r, _) => some (r.gmAmount * (ps.poolValue / ps.supply) - (la * (1 - cfg.depositFeePos) * ps.longPrice + sa * (1 - cfg.depositFeePos) * ps.shortPrice))
  | .error _ => none

/-- a two-token deposit with a large positive impact on a row whose impact pool holds 1 unit: the long side takes the whole
    unit (1 short token = 1 USD), nothing is left for the short side — the total credit is 1 USD, not 1 + 2000 -/
example : Gmx2.bonusOf Gmx2.defaultCfg { Gmx2.demoPool with impactPool := 1 } 2500 1000000 = some 1 := by decide +kernel

/-- with 24 001 units the long side is paid its full share (≈ 24 000 short tokens), the short side's ≈ 2.4 long tokens are capped
    by the ≈ 1 unit that is left: the total credit stays below 24 001 + 1 × 2000 USD (it was ≈ 24 000 + 4 800 before the repair) -/
example : (Gmx2.bonusOf Gmx2.defaultCfg { Gmx2.demoPool with impactPool := 24001 } 2500 1000000).any
    (fun b => decide (24001 < b ∧ b < 24001 + 2000 ∧ b < 24000 + 4800 - 100)) = true := by decide +kernel
end Demeter
