/-
  C17 — what "tokens paid" means on the wallet.  The sequence / round-trip theorems count an accepted `buy_glp(tok, a)` /
  `deposit(la, sa)` as `a` (`la`, `sa`) tokens paid.  The broker debits exactly that — except inside its documented dust
  sweep (`Asset.sub`: a debit within 0.001 % of the balance takes the whole balance, leaving 0), where the wallet pays the
  balance instead of the amount: at most 0.001 % of the balance more or less.  This file states that alternative
  exactly; the harness oracle (`wallet_delta_oracle` in harness/c17.py) checks it on every call of the real objects.
-/
import Proofs.C17.V1Seq
namespace Demeter
open Demeter.GmxV1 Demeter.Gmx

/-- **an accepted strict debit**: the balance becomes `balance − amount`, which is then non-negative, **or** the dust sweep
    applies (relative difference below the float literal `0.00001`) and the balance becomes 0, **or** balance and amount
    are both 0 and the balance is written back as it was. -/
theorem C17_wallet_debit_exact_or_sweep {cx : NumCtx} {w w1 : Wallet} {k : String} {a : Rat}
    (h : Wallet.debit cx w k a false = .ok w1) :
    ∃ b, AList.get? w k = some b ∧
      ((w1 = AList.set w k (cx.sub b a) ∧ 0 ≤ cx.sub b a) ∨
       (w1 = AList.set w k 0 ∧ ratAbs (cx.div (cx.sub b a) (if b ≠ 0 then b else a)) < assetDust) ∨
       (w1 = AList.set w k b ∧ b = 0 ∧ a = 0)) := by
  unfold Wallet.debit at h
  cases hg : AList.get? w k with
  | none => simp [hg] at h
  | some b =>
    refine ⟨b, rfl, ?_⟩
    simp only [hg] at h
    cases hs : assetSub cx b a false with
    | none => simp [hs] at h
    | some b' =>
      simp only [hs, Except.ok.injEq] at h
      unfold assetSub at hs
      simp only [Bool.false_eq_true, if_false] at hs
      have fin : ∀ base : Rat, (if base = 0 then some b
          else if ratAbs (cx.div (cx.sub b a) base) < assetDust then some 0
          else if cx.sub b a < 0 then none else some (cx.sub b a)) = some b' →
          (base = 0 ∧ b' = b) ∨ (ratAbs (cx.div (cx.sub b a) base) < assetDust ∧ b' = 0) ∨ (0 ≤ cx.sub b a ∧ b' = cx.sub b a) := by
        intro base hbase
        by_cases h0 : base = 0
        · rw [if_pos h0] at hbase; cases hbase; exact Or.inl ⟨h0, rfl⟩
        · rw [if_neg h0] at hbase
          by_cases hd : ratAbs (cx.div (cx.sub b a) base) < assetDust
          · rw [if_pos hd] at hbase; cases hbase; exact Or.inr (Or.inl ⟨hd, rfl⟩)
          · rw [if_neg hd] at hbase
            by_cases hn : cx.sub b a < 0
            · rw [if_pos hn] at hbase; cases hbase
            · rw [if_neg hn] at hbase; cases hbase; exact Or.inr (Or.inr ⟨not_lt.mp hn, rfl⟩)
      rcases fin _ hs with ⟨hb0, e⟩ | ⟨hd, e⟩ | ⟨hn, e⟩ <;> rw [e] at h
      · right; right
        have hb : b = 0 := by
          by_contra hne
          rw [if_pos hne] at hb0; exact hne hb0
        have ha : a = 0 := by rw [if_neg (by simpa using hb)] at hb0; exact hb0
        exact ⟨h.symm, hb, ha⟩
      · right; left; exact ⟨h.symm, hd⟩
      · left; exact ⟨h.symm, hn⟩

/-- the sweep window in exact arithmetic: the wallet pays the balance `b` instead of `a`, and `|b − a| < 0.00001·|b|` -/
theorem C17_wallet_debit_sweep_window {b a : Rat} (hb : b ≠ 0)
    (h : ratAbs (NumCtx.exact.div (NumCtx.exact.sub b a) (if b ≠ 0 then b else a)) < assetDust) :
    |b - a| < assetDust * |b| ∧ assetDust = Gen.assetSubDust ∧ (Gen.assetSubDust : Rat) < 1 / 99999 := by
  simp only [ne_eq, hb, not_false_eq_true, if_true, NumCtx.exact_div, NumCtx.exact_sub] at h
  have habs : ratAbs ((b - a) / b) = |(b - a) / b| := by
    unfold ratAbs; split
    · rename_i hneg; rw [abs_of_neg hneg]
    · rename_i hnn; rw [abs_of_nonneg (not_lt.mp hnn)]
  rw [habs, abs_div, div_lt_iff₀ (abs_pos.mpr hb)] at h
  exact ⟨h, rfl, by norm_num [Gen.assetSubDust]⟩

/-- non-vacuity: a debit of 100 from 100.0005 sweeps the balance (pays 0.0005 more than the amount); a debit of 40 does not -/
example : Wallet.debit NumCtx.exact [("WETH", 1000005 / 10000)] "WETH" 100 false = .ok [("WETH", 0)] := by decide +kernel
example : Wallet.debit NumCtx.exact [("WETH", 1000005 / 10000)] "WETH" 40 false = .ok [("WETH", 600005 / 10000)] := by decide +kernel

end Demeter
