/-
  C17 — the 1-bp agreement with the Vault's rule stated on a data row, with the target DERIVED from the row
  (`get_target_amount` = weight × USDG supply / Σ weights of the market's token set) instead of assumed, and an instance on
  the demo row of Proofs/C17.lean.
-/
import Proofs.C17
import Proofs.C17.V1Fee
namespace Demeter
open Demeter.GmxV1 Demeter.Gmx

/-- `total_token_weights` of `get_target_amount`: the fold over the market's token set (KeyError when a column is missing) -/
def Gmx.totalWeights (env : Env) : Except Err Rat :=
  env.tokenSet.foldlM (fun acc t => match env.row? t with
    | some r => .ok (acc + r.weight)
    | none => .error Err.key) (0 : Rat)

/-- `get_target_amount` on a row whose weight, USDG supply and total weight are the naturals `w`, `S`, `W > 0` -/
theorem Gmx.targetAmount_of_row {env : Env} {tok : String} {r : TokenRow} {w S W : Nat} (hW : 0 < W)
    (hrow : env.row? tok = some r) (hw : r.weight = w) (hS : env.usdgSupply = S) (htot : Gmx.totalWeights env = .ok (W : Rat)) :
    targetAmount NumCtx.exact env tok = .ok ((w : Rat) * S / W) := by
  have e : targetAmount NumCtx.exact env tok = (Gmx.totalWeights env >>= fun total =>
      match env.row? tok with
      | none => .error .key
      | some r => ddiv NumCtx.exact (NumCtx.exact.mul r.weight env.usdgSupply) total) := rfl
  rw [e, htot]
  have hW0 : (W : Rat) ≠ 0 := by exact_mod_cast (Nat.pos_iff_ne_zero.mp hW)
  simp only [bind, Except.bind, hrow, ddiv, hW0, if_false, hw, hS, NumCtx.exact_mul, NumCtx.exact_div]

/-- **the fee of a data row is within 1 bp (+ 200/target) of the Vault's integer rule** — everything read off the row: the
    token's USDG amount `i`, its weight `w`, the USDG supply `S`, the total weight `W` of the market's tokens (all integers, as
    in the recorded data); target ≥ 200 wei of USDG; off the mirror point of the rule. -/
theorem C17_v1_fee_vault_within_1bp_env {env : Env} {tok : String} {r : TokenRow} (i u w S W : Nat) (inc : Bool) (hW : 0 < W)
    (hrow : env.row? tok = some r) (hi : r.usdg = i) (hw : r.weight = w) (hS : env.usdgSupply = S)
    (htot : Gmx.totalWeights env = .ok (W : Rat))
    (hT : 200 ≤ vaultTarget w S W)
    (hmirror : ((natNext i u inc : Nat) : Int) + i - 2 * (vaultTarget w S W : Nat) ≤ -1 ∨
               2 ≤ ((natNext i u inc : Nat) : Int) + i - 2 * (vaultTarget w S W : Nat)) :
    ∃ f br, feeBps NumCtx.exact env tok u inc = .ok (f, br) ∧
      |f - ((vaultFeeBps i u (vaultTarget w S W) Gen.gmxMintBurnFeeBps Gen.gmxTaxBps inc : Nat) : Rat)| ≤ 1 + 200 / ((w : Rat) * S / W) ∧
      1 + 200 / ((w : Rat) * S / W) ≤ 2 :=
  by
    obtain ⟨f, br, h1, h2⟩ := C17_v1_fee_vault_within_1bp_row i u w S W inc hW hrow hi
      (Gmx.targetAmount_of_row hW hrow hw hS htot) hT hmirror
    refine ⟨f, br, h1, h2, ?_⟩
    -- the target is at least its floor, which is at least 200
    have hS0 : S ≠ 0 := by intro h; unfold vaultTarget at hT; simp [h] at hT
    have hv : vaultTarget w S W = w * S / W := by unfold vaultTarget; simp [hS0]
    have hle : ((w * S / W : Nat) : Rat) ≤ (w : Rat) * S / W := by
      have := (natdiv_bounds (w * S) W hW).1
      push_cast at this ⊢
      exact this
    have h200 : (200 : Rat) ≤ (w : Rat) * S / W := by
      have : (200 : Rat) ≤ ((w * S / W : Nat) : Rat) := by rw [← hv]; exact_mod_cast hT
      linarith
    have : 200 / ((w : Rat) * S / W) ≤ 1 := by rw [div_le_one (by linarith)]; exact h200
    linarith

/-! ### instance on the demo row (`Gmx.demoEnv`: WETH 4·10²⁴ of 10²⁵ USDG, weight 1 of 2 → target 5·10²⁴) -/

example : Gmx.totalWeights Gmx.demoEnv = .ok ((2 : Nat) : Rat) := by decide +kernel

/-- buying 10²¹ USDG worth of WETH: the code charges 13 bp (rebate branch), the Vault's rule 13 bp as well; every hypothesis of
    `C17_v1_fee_vault_within_1bp_env` holds on the row -/
example : ∃ f br, feeBps NumCtx.exact Gmx.demoEnv "weth" ((10 ^ 21 : Nat) : Rat) true = .ok (f, br) ∧
    |f - ((vaultFeeBps (4 * 10 ^ 24) (10 ^ 21) (vaultTarget 1 (10 ^ 25) 2) Gen.gmxMintBurnFeeBps Gen.gmxTaxBps true : Nat) : Rat)|
      ≤ 1 + 200 / (((1 : Nat) : Rat) * ((10 ^ 25 : Nat) : Rat) / ((2 : Nat) : Rat)) := by
  obtain ⟨f, br, h1, h2, _⟩ := C17_v1_fee_vault_within_1bp_env (env := Gmx.demoEnv) (tok := "weth")
    (r := { name := "weth", price := 2000 * 10 ^ 30, usdg := 4 * 10 ^ 24, weight := 1 })
    (4 * 10 ^ 24) (10 ^ 21) 1 (10 ^ 25) 2 true (by norm_num) (by decide +kernel) (by norm_num) (by norm_num)
    (by norm_num [Gmx.demoEnv]) (by decide +kernel) (by decide +kernel) (Or.inl (by decide +kernel))
  exact ⟨f, br, h1, h2⟩

example : vaultFeeBps (4 * 10 ^ 24) (10 ^ 21) (vaultTarget 1 (10 ^ 25) 2) 25 60 true = 13 := by decide +kernel

end Demeter
