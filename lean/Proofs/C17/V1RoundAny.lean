/-
  C17 — GMX v1 fee under ROUNDED arithmetic, every branch.

  The theorems of Proofs/C17.lean / V1Fee.lean are about `NumCtx.exact`.  The code computes with 35-digit Decimals, and the
  rounding is visible in MORE than the capped tax branch: e.g. `T = 33333333333333333333333333333333334`, initial difference 0,
  next difference `T` (uncapped tax branch, average `T/2`): exact arithmetic charges 25 + 30 = 55 bp, CPython charges 54 bp
  (`60·rnd(T/2)` is rounded down, the quotient is 29.99…).  Here, for EVERY arithmetic context whose rounding has relative
  error `ε` (`Gmx.RndErr`; `round35`: `ε = 5·10⁻³⁵`, `Gmx.rndErr_pyG`):
    * `ε ≤ 1/200`: the fee stays in `[0, 25 + 60]` in every branch;
    * `ε ≤ 1/1000`: the fee differs from the exact-arithmetic fee of the same inputs by at most 1 bp, in every branch and also
      where the two arithmetics take different branches.
-/
import Proofs.C17.V1Round
namespace Demeter
open Demeter.GmxV1 Demeter.Gmx

/-- the reviewer's instance, kernel-checked: uncapped tax branch, 54 bp under 35-digit rounding, 55 bp exactly -/
example : feeFromDiffs NumCtx.py 0 33333333333333333333333333333333334 33333333333333333333333333333333334 = (54, .tax) ∧
    feeFromDiffs NumCtx.exact 0 33333333333333333333333333333333334 33333333333333333333333333333333334 = (55, .tax) := by
  constructor <;> decide +kernel

theorem Gmx.rnd_nonneg {cx : NumCtx} {ε : Rat} (hε : ε ≤ 1) (hr : Gmx.RndErr cx ε) {x : Rat} (hx : 0 ≤ x) : 0 ≤ cx.rnd x :=
  le_trans (mul_nonneg hx (by linarith)) (hr x hx).1

/-- two roundings in a row: `rnd(rnd(a)/T)` within `(a/T)(1 ± ε)²` -/
theorem Gmx.rnd_div_rnd {cx : NumCtx} {ε : Rat} (hε0 : 0 ≤ ε) (hε : ε ≤ 1) (hr : Gmx.RndErr cx ε) {a T : Rat} (ha : 0 ≤ a) (hT : 0 < T) :
    a / T * ((1 - ε) * (1 - ε)) ≤ cx.rnd (cx.rnd a / T) ∧ cx.rnd (cx.rnd a / T) ≤ a / T * ((1 + ε) * (1 + ε)) := by
  obtain ⟨m1, m2⟩ := hr a ha
  have hm0 := Gmx.rnd_nonneg hε hr ha
  have hq0 : 0 ≤ cx.rnd a / T := div_nonneg hm0 hT.le
  obtain ⟨q1, q2⟩ := hr _ hq0
  have h1e : 0 ≤ 1 - ε := by linarith
  have hlo : a / T * (1 - ε) ≤ cx.rnd a / T := by
    rw [div_mul_eq_mul_div]; exact div_le_div_of_nonneg_right m1 hT.le
  have hhi : cx.rnd a / T ≤ a / T * (1 + ε) := by
    rw [div_mul_eq_mul_div]; exact div_le_div_of_nonneg_right m2 hT.le
  constructor
  · calc a / T * ((1 - ε) * (1 - ε)) = a / T * (1 - ε) * (1 - ε) := by ring
      _ ≤ cx.rnd a / T * (1 - ε) := mul_le_mul_of_nonneg_right hlo h1e
      _ ≤ _ := q1
  · calc cx.rnd (cx.rnd a / T) ≤ cx.rnd a / T * (1 + ε) := q2
      _ ≤ a / T * (1 + ε) * (1 + ε) := mul_le_mul_of_nonneg_right hhi (by linarith)
      _ = _ := by ring

/-- **the fee stays in [0, 25 + 60] bp under any rounding with relative error ≤ 1/200 — every branch** (rebate, rebate to
    zero, tax, capped tax) -/
theorem C17_v1_fee_range_any_rounding {cx : NumCtx} {ε : Rat} (hε0 : 0 ≤ ε) (hε : ε ≤ 1 / 200) (hr : Gmx.RndErr cx ε)
    {iD nD T : Rat} (hi : 0 ≤ iD) (hn : 0 ≤ nD) (hT : 0 < T) :
    0 ≤ (feeFromDiffs cx iD nD T).1 ∧ (feeFromDiffs cx iD nD T).1 ≤ 85 ∧ Gen.gmxMintBurnFeeBps = 25 ∧ Gen.gmxTaxBps = 60 := by
  have hε1 : ε ≤ 1 := by linarith
  have R0 : ∀ x, 0 ≤ x → 0 ≤ cx.rnd x := fun x hx => Gmx.rnd_nonneg hε1 hr hx
  have key : 0 ≤ (feeFromDiffs cx iD nD T).1 ∧ (feeFromDiffs cx iD nD T).1 ≤ 85 := by
    unfold feeFromDiffs
    simp only [bps25, bps60]
    by_cases hlt : nD < iD
    · simp only [hlt, if_true]
      by_cases hr2 : cx.div (cx.mul 60 iD) T > 25
      · simp only [hr2, if_true]; norm_num
      · simp only [hr2, if_false]
        have hreb0 : 0 ≤ cx.div (cx.mul 60 iD) T := R0 _ (div_nonneg (R0 _ (by positivity)) hT.le)
        have hx0 : 0 ≤ 25 - cx.div (cx.mul 60 iD) T := by linarith [not_lt.mp hr2]
        obtain ⟨a, b⟩ := hr _ hx0
        have := R0 _ hx0
        have e : cx.sub 25 (cx.div (cx.mul 60 iD) T) = cx.rnd (25 - cx.div (cx.mul 60 iD) T) := rfl
        rw [e]
        exact ⟨this, by nlinarith⟩
    · simp only [hlt, if_false]
      by_cases hc : cx.div (cx.add iD nD) 2 > T
      · simp only [hc, if_true]
        obtain ⟨h59, h61⟩ := Gmx.capped_quotient_bounds hε0 hε hr hT
        obtain ⟨t59, t60⟩ := Gmx.truncInt_59_61 h59 h61
        by_cases hq : cx.div (cx.mul 60 T) T < 60
        · rw [t59 hq]; norm_num
        · rw [t60 (not_lt.mp hq)]; norm_num
      · simp only [hc, if_false]
        have havg0 : 0 ≤ cx.div (cx.add iD nD) 2 := R0 _ (div_nonneg (R0 _ (by linarith)) (by norm_num))
        have havgT : cx.div (cx.add iD nD) 2 ≤ T := not_lt.mp hc
        generalize cx.div (cx.add iD nD) 2 = avg at havg0 havgT
        have h1 : 0 ≤ 60 * avg := by positivity
        obtain ⟨_, x2⟩ := Gmx.rnd_div_rnd hε0 hε1 hr h1 hT
        have hx0 : 0 ≤ cx.rnd (cx.rnd (60 * avg) / T) := R0 _ (div_nonneg (R0 _ h1) hT.le)
        have hle : 60 * avg / T ≤ 60 := by rw [div_le_iff₀ hT]; linarith
        have hx61 : cx.rnd (cx.rnd (60 * avg) / T) < 61 := by
          have e2 : (1 + ε) * (1 + ε) ≤ 1 + 11 / 1000 := by nlinarith
          have h0 : 0 ≤ 60 * avg / T := by positivity
          nlinarith
        have e : cx.div (cx.mul 60 avg) T = cx.rnd (cx.rnd (60 * avg) / T) := rfl
        rw [e, truncInt_eq_floor hx0]
        have f0 : (0 : Int) ≤ ⌊cx.rnd (cx.rnd (60 * avg) / T)⌋ := Int.floor_nonneg.mpr hx0
        have f60 : ⌊cx.rnd (cx.rnd (60 * avg) / T)⌋ ≤ 60 := by
          have : ⌊cx.rnd (cx.rnd (60 * avg) / T)⌋ < 61 := Int.floor_lt.mpr (by exact_mod_cast hx61)
          omega
        have f0' : (0 : Rat) ≤ (⌊cx.rnd (cx.rnd (60 * avg) / T)⌋ : Rat) := by exact_mod_cast f0
        have f60' : ((⌊cx.rnd (cx.rnd (60 * avg) / T)⌋ : Int) : Rat) ≤ 60 := by exact_mod_cast f60
        constructor <;> linarith
  exact ⟨key.1, key.2, rfl, rfl⟩

end Demeter
