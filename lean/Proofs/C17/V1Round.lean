/-
  C17 — GMX v1, the capped tax branch under the 35-digit Decimal arithmetic of the code.  (It is NOT the only place where
  rounding changes a fee: the uncapped tax branch and the rebate branch floor / subtract rounded quotients too — e.g. 54 bp
  instead of 55 bp for initial difference 0, next difference = target = 33333333333333333333333333333333334; every branch is
  covered, for any rounding error ≤ 1/1000, by Proofs/C17/V1RoundAny.lean (range) and V1RoundDiff.lean (≤ 1 bp from exact).)

  `get_fee_basis_points` computes, when the average deviation exceeds the target, `int(60 * target / target)` on
  Decimals: the product `60·T` is rounded to 35 digits, divided by `T`, rounded again, truncated.  In exact arithmetic the
  quotient is 60 and the fee `25 + 60 = 85 bp` (the Vault's capped fee).  Under rounding the quotient `q` lies within
  `60·(1 ± ε)²`, so it is either `≥ 60` (fee 85) or in `(59, 60)` (fee 84): the fee of the implementation is **exactly one
  basis point** below the exact / Vault fee precisely when the rounded quotient is below 60, which can happen only if the
  product `60·T` was rounded *down* (if `60·T` is representable — `T` of at most 33 significant digits — the fee is 85).
  This is the `exact_vs_impl` deviation 1/85 … 1e-4 the evidence file reports; it is inside the property's 1-bp tolerance.

  Stated for every arithmetic context whose rounding has relative error `ε ≤ 1/200` (`round35`: `ε = 5·10⁻³⁵`,
  `Num_round35_bounds`), with kernel-checked instances of both outcomes under the driver's own context `NumCtx.py`.
-/
import Proofs.Lemmas.GmxV1Spec
import Proofs.Lemmas.Exact
import Mathlib.Tactic.Linarith
import Mathlib.Tactic.NormNum
import Mathlib.Tactic.Positivity
import Mathlib.Tactic.FieldSimp
namespace Demeter
open Demeter.GmxV1 Demeter.Gmx

/-- relative rounding error of a context on non-negative numbers -/
def Gmx.RndErr (cx : NumCtx) (ε : Rat) : Prop := ∀ x : Rat, 0 ≤ x → x * (1 - ε) ≤ cx.rnd x ∧ cx.rnd x ≤ x * (1 + ε)

/-- the rounded quotient `q = rnd(rnd(60·T)/T)` of the capped branch stays strictly between 59 and 61 -/
theorem Gmx.capped_quotient_bounds {cx : NumCtx} {ε : Rat} (hε0 : 0 ≤ ε) (hε : ε ≤ 1 / 200) (hr : Gmx.RndErr cx ε)
    {T : Rat} (hT : 0 < T) :
    59 < cx.div (cx.mul 60 T) T ∧ cx.div (cx.mul 60 T) T < 61 := by
  have h60T : (0 : Rat) ≤ 60 * T := by positivity
  obtain ⟨m1, m2⟩ := hr (60 * T) h60T
  have hm0 : 0 ≤ cx.rnd (60 * T) := le_trans (by nlinarith) m1
  have hq0 : 0 ≤ cx.rnd (60 * T) / T := div_nonneg hm0 (le_of_lt hT)
  obtain ⟨q1, q2⟩ := hr _ hq0
  have hlo : 60 * (1 - ε) ≤ cx.rnd (60 * T) / T := by
    rw [le_div_iff₀ hT]; nlinarith
  have hhi : cx.rnd (60 * T) / T ≤ 60 * (1 + ε) := by
    rw [div_le_iff₀ hT]; nlinarith
  show 59 < cx.rnd (cx.rnd (60 * T) / T) ∧ cx.rnd (cx.rnd (60 * T) / T) < 61
  constructor
  · have : 60 * (1 - ε) * (1 - ε) ≤ cx.rnd (cx.rnd (60 * T) / T) := by
      have h1e : 0 ≤ 1 - ε := by linarith
      calc 60 * (1 - ε) * (1 - ε) ≤ cx.rnd (60 * T) / T * (1 - ε) := mul_le_mul_of_nonneg_right hlo h1e
        _ ≤ _ := q1
    nlinarith
  · have : cx.rnd (cx.rnd (60 * T) / T) ≤ 60 * (1 + ε) * (1 + ε) := by
      have h1e : 0 ≤ 1 + ε := by linarith
      calc cx.rnd (cx.rnd (60 * T) / T) ≤ cx.rnd (60 * T) / T * (1 + ε) := q2
        _ ≤ 60 * (1 + ε) * (1 + ε) := mul_le_mul_of_nonneg_right hhi h1e
    nlinarith

/-- `int(q)` for `59 < q < 61` -/
theorem Gmx.truncInt_59_61 {q : Rat} (h1 : 59 < q) (h2 : q < 61) :
    (q < 60 → truncInt q = 59) ∧ (60 ≤ q → truncInt q = 60) := by
  have hq0 : 0 ≤ q := by linarith
  rw [truncInt_eq_floor hq0]
  constructor
  · intro h; rw [Int.floor_eq_iff]; constructor <;> push_cast <;> linarith
  · intro h; rw [Int.floor_eq_iff]; constructor <;> push_cast <;> linarith

/-- **the capped tax branch under rounded arithmetic: the fee is 85 bp or 84 bp, and 84 exactly when the rounded
    quotient `rnd(rnd(60·T)/T)` is below 60** — one basis point under the exact-arithmetic fee and the Vault's capped fee
    (both 25 + 60 = 85).  `T` is the target amount as the code holds it, `initialDiff`/`nextDiff` any values that send the
    code into the branch (`next_diff ≥ initial_diff`, average above the target). -/
theorem C17_v1_capped_tax_rounding_exactly_1bp {cx : NumCtx} {ε : Rat} (hε0 : 0 ≤ ε) (hε : ε ≤ 1 / 200) (hr : Gmx.RndErr cx ε)
    {T initialDiff nextDiff : Rat} (hT : 0 < T) (hb : ¬ nextDiff < initialDiff)
    (hcap : cx.div (cx.add initialDiff nextDiff) 2 > T) :
    let q := cx.div (cx.mul 60 T) T
    let fee := (feeFromDiffs cx initialDiff nextDiff T).1
    (feeFromDiffs cx initialDiff nextDiff T).2 = .taxCapped ∧
      (q < 60 → fee = 84) ∧ (60 ≤ q → fee = 85) ∧ (fee = 84 ∨ fee = 85) ∧
      (25 : Rat) + (truncInt (NumCtx.exact.div (NumCtx.exact.mul 60 T) T) : Rat) = 85 ∧
      (Gen.gmxMintBurnFeeBps = 25 ∧ Gen.gmxTaxBps = 60) := by
  intro q fee
  obtain ⟨h59, h61⟩ := Gmx.capped_quotient_bounds hε0 hε hr hT
  obtain ⟨t59, t60⟩ := Gmx.truncInt_59_61 h59 h61
  have hfee : feeFromDiffs cx initialDiff nextDiff T = ((25 : Rat) + (truncInt q : Rat), .taxCapped) := by
    unfold feeFromDiffs
    simp only [hb, if_false, hcap, if_true, Gen.gmxMintBurnFeeBps, Gen.gmxTaxBps]
    norm_num
    rfl
  have hexact : (25 : Rat) + (truncInt (NumCtx.exact.div (NumCtx.exact.mul 60 T) T) : Rat) = 85 := by
    simp only [NumCtx.exact_div, NumCtx.exact_mul]
    have : (60 : Rat) * T / T = 60 := by field_simp
    rw [this]
    have : truncInt (60 : Rat) = 60 := by decide +kernel
    rw [this]; norm_num
  refine ⟨by rw [hfee], ?_, ?_, ?_, hexact, rfl, rfl⟩
  · intro h; show (feeFromDiffs cx initialDiff nextDiff T).1 = 84
    rw [hfee]; simp only []; rw [t59 h]; norm_num
  · intro h; show (feeFromDiffs cx initialDiff nextDiff T).1 = 85
    rw [hfee]; simp only []; rw [t60 h]; norm_num
  · by_cases h : q < 60
    · left; show (feeFromDiffs cx initialDiff nextDiff T).1 = 84
      rw [hfee]; simp only []; rw [t59 h]; norm_num
    · right; show (feeFromDiffs cx initialDiff nextDiff T).1 = 85
      rw [hfee]; simp only []; rw [t60 (not_lt.mp h)]; norm_num

/-- **when can the quotient floor to 59?**  Only if the product `60·T` was rounded *down*: for a monotone rounding that
    leaves 60 alone (`round35` is both), a product that is representable or rounded up gives `q ≥ 60`, hence 85 bp. -/
theorem C17_v1_capped_tax_84_needs_product_rounded_down {cx : NumCtx}
    (hmono : ∀ x y : Rat, x ≤ y → cx.rnd x ≤ cx.rnd y) (h60 : cx.rnd 60 = 60) {T : Rat} (hT : 0 < T)
    (hq : cx.div (cx.mul 60 T) T < 60) : cx.mul 60 T < 60 * T := by
  by_contra hge
  rw [not_lt] at hge
  have : (60 : Rat) ≤ cx.mul 60 T / T := by rw [le_div_iff₀ hT]; exact hge
  have := hmono _ _ this
  rw [h60] at this
  exact absurd hq (not_lt.mpr this)

/-- the Vault's own capped fee is 85 bp as well (`feeBps + taxBps·target/target`, integer division) -/
theorem C17_v1_vault_capped_fee (initial delta target : Nat) (inc : Bool) (ht : 0 < target)
    (hb : ¬ (let next := if inc then initial + delta else (if delta > initial then 0 else initial - delta)
             (if next > target then next - target else target - next) < (if initial > target then initial - target else target - initial)))
    (hcap : (let next := if inc then initial + delta else (if delta > initial then 0 else initial - delta)
             ((if initial > target then initial - target else target - initial) + (if next > target then next - target else target - next)) / 2 > target)) :
    vaultFeeBps initial delta target 25 60 inc = 85 := by
  unfold vaultFeeBps
  simp only [] at hb hcap ⊢
  rw [if_neg (Nat.pos_iff_ne_zero.mp ht), if_neg hb, if_pos hcap]
  rw [Nat.mul_div_cancel _ ht]

/-! ### both outcomes occur under the driver's own context (`NumCtx.py` = round-half-even to 35 digits) -/

/-- `T = 16666666666666666666666666666666667` (35 digits): `60·T = 1.00…002·10³⁶` needs 37 digits and is rounded down to
    `10³⁶`; the quotient is `59.99…9` (33 nines) and the code charges 84 bp where exact arithmetic and the Vault charge 85 -/
example : (feeFromDiffs NumCtx.py 0 50000000000000000000000000000000001 16666666666666666666666666666666667)
    = (84, .taxCapped) := by decide +kernel

/-- … the product was indeed rounded down, and the quotient is one unit in the 35th digit below 60 -/
example : NumCtx.py.mul 60 16666666666666666666666666666666667 = 1000000000000000000000000000000000000 ∧
    NumCtx.py.div (NumCtx.py.mul 60 16666666666666666666666666666666667) 16666666666666666666666666666666667
      = 60 - 1 / 1000000000000000000000000000000000 := by decide +kernel

/-- `T = 33333333333333333333333333333333333`: the product is rounded *up*, the quotient is `60.00…01`, the fee 85 bp -/
example : (feeFromDiffs NumCtx.py 0 99999999999999999999999999999999999 33333333333333333333333333333333333)
    = (85, .taxCapped) := by decide +kernel

/-- `T = 10²⁴`: the product is representable, the quotient is exactly 60, the fee 85 bp -/
example : (feeFromDiffs NumCtx.py 0 3000000000000000000000000 1000000000000000000000000) = (85, .taxCapped) := by decide +kernel

/-- the exact context is a context with rounding error 0 -/
example : Gmx.RndErr NumCtx.exact 0 := by
  intro x _; simp

end Demeter
