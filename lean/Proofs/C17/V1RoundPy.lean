/-
  C17 — the capped-tax rounding lemma instantiated at the concrete 35-digit rounding of the drivers.

  `NumCtx.pyG` (Proofs/Lemmas/Round35Ctx.lean, builder `numerics`) is `NumCtx.py` on every rational whose numerator and
  denominator have fewer than 45 154 digits — all numbers a GMX row can produce — and its rounding error is proved to be at
  most `EPS35 = 5·10⁻³⁵`.  So for the arithmetic the implementation really performs, the capped tax branch charges 84 or
  85 bp and nothing else.
-/
import Proofs.C17.V1Round
import Proofs.Lemmas.Round35Ctx
namespace Demeter
open Demeter.GmxV1 Demeter.Gmx Demeter.Numerics

theorem Gmx.rndErr_pyG : Gmx.RndErr NumCtx.pyG EPS35 := by
  intro x hx
  show x * (1 - EPS35) ≤ (if InRange x then round35 x else x) ∧ (if InRange x then round35 x else x) ≤ x * (1 + EPS35)
  have hε := EPS35_pos
  split_ifs with h
  · exact round35_bounds hx h
  · constructor <;> nlinarith

/-- **under CPython's 35-digit rounding the capped tax branch charges 85 bp, or 84 bp when the rounded quotient
    `round35(round35(60·T)/T)` is below 60 — never anything else** (exact arithmetic and the Vault: 85) -/
theorem C17_v1_capped_tax_round35_exactly_1bp {T initialDiff nextDiff : Rat} (hT : 0 < T) (hb : ¬ nextDiff < initialDiff)
    (hcap : NumCtx.pyG.div (NumCtx.pyG.add initialDiff nextDiff) 2 > T) :
    let q := NumCtx.pyG.div (NumCtx.pyG.mul 60 T) T
    let fee := (feeFromDiffs NumCtx.pyG initialDiff nextDiff T).1
    (q < 60 → fee = 84) ∧ (60 ≤ q → fee = 85) ∧ (fee = 84 ∨ fee = 85) := by
  have h := C17_v1_capped_tax_rounding_exactly_1bp (le_of_lt EPS35_pos) (le_trans EPS35_small (by norm_num)) Gmx.rndErr_pyG hT hb hcap
  exact ⟨h.2.1, h.2.2.1, h.2.2.2.1⟩

/-- on the witness of `Proofs/C17/V1Round.lean` the guarded context is the driver's context -/
example : NumCtx.pyG.rnd (60 * 16666666666666666666666666666666667) = NumCtx.py.rnd (60 * 16666666666666666666666666666666667) :=
  NumCtx.pyG_rnd_eq (by decide +kernel)

end Demeter
