/-
  C15, "fills shrink the visible book for the orders that follow" — the second order of a bar is checked against the
  book the first one wrote back: what is left for a following market order on the same instrument is the displayed total
  of the (normalised) side minus what the first order filled, and a following market order for more than that is rejected
  with "insufficient-depth" (nothing changes), although it might have fitted the book as it was before the first order.
  Buy side and sell side.  Exact arithmetic.
-/
import Proofs.C15.Sell
namespace Demeter
open Demeter.Deribit

namespace Deribit

theorem findInstr_setAsks_same (book : List Instr) (n : String) (ls : List Level) :
    findInstr (setAsks book n ls) n = (findInstr book n).map (fun i => { i with asks := ls }) := by
  unfold findInstr setAsks
  induction book with
  | nil => rfl
  | cons i is ih =>
    by_cases hi : i.name = n
    · simp [hi]
    · simp only [List.map_cons, hi, if_false, List.find?_cons, decide_false]
      exact ih

theorem findInstr_setBids_same (book : List Instr) (n : String) (ls : List Level) :
    findInstr (setBids book n ls) n = (findInstr book n).map (fun i => { i with bids := ls }) := by
  unfold findInstr setBids
  induction book with
  | nil => rfl
  | cons i is ih =>
    by_cases hi : i.name = n
    · simp [hi]
    · simp only [List.map_cons, hi, if_false, List.find?_cons, decide_false]
      exact ih

/-- a side with the prices of a strictly best-first side is strictly best-first -/
theorem sortedLt_of_prices {asc : Bool} {a b : List Level} (hp : a.map (·.price) = b.map (·.price)) (h : SortedLt asc b) :
    SortedLt asc a := by
  have hb : (b.map (·.price)).Pairwise (fun x y => better asc x y = true) := List.pairwise_map.mpr h
  rw [← hp] at hb
  exact List.pairwise_map.mp hb

/-- the side written back after an order is matched as it stands by the next order -/
theorem normSide_newOrderList (cx : DCtx) (asc : Bool) (ls : List Level) (fs : List Fill) :
    normSide cx asc (newOrderList cx (normSide cx asc ls) fs) = newOrderList cx (normSide cx asc ls) fs :=
  normSide_fixed (sortedLt_of_prices (newOrderList_prices cx _ fs) (normSide_sortedLt cx asc ls))

theorem sum_ite_price (ls : List Level) (p a : Rat) (hn : PricesNodup ls) (hp : p ∈ ls.map (·.price)) :
    (ls.map (fun l => if p = l.price then a else 0)).sum = a := by
  induction ls with
  | nil => simp at hp
  | cons l ls ih =>
    simp only [PricesNodup, List.map_cons, List.nodup_cons] at hn
    simp only [List.map_cons, List.sum_cons]
    by_cases h : p = l.price
    · subst h
      have hz : (ls.map (fun l' => if l.price = l'.price then a else 0)).sum = 0 := by
        apply List.sum_eq_zero
        intro x hx
        obtain ⟨l', hl', rfl⟩ := List.mem_map.mp hx
        have : ¬ l.price = l'.price := fun e => hn.1 (by rw [e]; exact List.mem_map_of_mem (f := (·.price)) hl')
        simp [this]
      simp [hz]
    · have hp' : p ∈ ls.map (·.price) := by
        simp only [List.map_cons, List.mem_cons] at hp
        rcases hp with e | e
        · exact absurd e h
        · exact e
      simp only [h, if_false, zero_add]
      exact ih hn.2 hp'

/-- what the fills take, summed over the levels of a side with distinct prices that has all the fill prices -/
theorem sum_taken (ls : List Level) (fs : List Fill) (hn : PricesNodup ls) (hp : ∀ f ∈ fs, f.price ∈ ls.map (·.price)) :
    (ls.map (fun l => taken fs l.price)).sum = fillSum fs := by
  induction fs with
  | nil => simp [taken, fillSum]
  | cons f fs ih =>
    have h1 : (fun l : Level => taken (f :: fs) l.price) =
        fun l => (if f.price = l.price then f.amount else 0) + taken fs l.price := by
      funext l; exact taken_cons f fs l.price
    rw [h1, List.sum_map_add, sum_ite_price ls f.price f.amount hn (hp f List.mem_cons_self),
      ih (fun g hg => hp g (List.mem_cons_of_mem _ hg))]
    simp [fillSum]

/-- displayed total of a side after fills at its own prices: the old total minus the filled amount -/
theorem sizeSum_newOrderList (ls : List Level) (fs : List Fill) (hn : PricesNodup ls)
    (hp : ∀ f ∈ fs, f.price ∈ ls.map (·.price)) :
    sizeSum (newOrderList DCtx.exact ls fs) = sizeSum ls - fillSum fs := by
  unfold sizeSum
  rw [newOrderList_sizes ls fs hn]
  have : (fun l : Level => l.size - taken fs l.price) = fun l => l.size + (-(taken fs l.price)) := by
    funext l; ring
  rw [this, List.sum_map_add]
  have hneg : ∀ xs : List Level, (xs.map (fun l => -(taken fs l.price))).sum = -(xs.map (fun l => taken fs l.price)).sum := by
    intro xs
    induction xs with
    | nil => simp
    | cons x xs ih => simp only [List.map_cons, List.sum_cons, ih]; ring
  rw [hneg ls, sum_taken ls fs hn hp]; ring

end Deribit

/-- **a market buy for more than the allowed asks display is rejected** with "insufficient-depth", state unchanged
    (any state; `avail` = the normalised asks under the mark-price cap) -/
theorem C15_market_buy_beyond_depth_rejected (c : TokenCfg) (s : DState) (r : Req) (ins : Instr)
    (hopen : s.flagOpen = true) (hfind : findInstr s.book r.name = some ins) (hso : ins.stateOpen = true)
    (hmin : c.minAmount ≤ r.amount) (hm : r.priceTok = none ∧ r.priceUsd = none)
    (hdepth : sizeSum (availAsks DCtx.exact (normInstr DCtx.exact ins) r.mult) < roundDec c.tradeExp r.amount) :
    buy DCtx.exact c s r = (.error (.demeter "insufficient-depth"), s) := by
  have hck : checkTx DCtx.exact c s.book r true = .error (.demeter "insufficient-depth") := by
    unfold checkTx
    simp only [hfind]
    have h1 : (normInstr DCtx.exact ins).stateOpen = true := hso
    have h2 : ¬ r.amount < c.minAmount := not_lt.mpr hmin
    have h3 : tradeAmount c r.amount = roundDec c.tradeExp r.amount := by unfold tradeAmount; rw [if_neg h2]
    simp only [h1, Bool.not_true, Bool.false_eq_true, if_false, h2, reqPrice, hm.1, hm.2, availSide, if_true, h3,
      sumSizes_exact, gt_iff_lt, hdepth]
  unfold buy
  simp [hopen, hck]

/-- **a market sell for more than the allowed bids display is rejected** with "insufficient-depth", state unchanged -/
theorem C15_market_sell_beyond_depth_rejected (c : TokenCfg) (s : DState) (r : Req) (ins : Instr) (bids : List Level)
    (hopen : s.flagOpen = true) (hfind : findInstr s.book r.name = some ins) (hso : ins.stateOpen = true)
    (hmin : c.minAmount ≤ r.amount) (hm : r.priceTok = none ∧ r.priceUsd = none)
    (hb : availBids DCtx.exact (normInstr DCtx.exact ins) r.mult = .ok bids)
    (hdepth : sizeSum bids < roundDec c.tradeExp r.amount) :
    sell DCtx.exact c s r = (.error (.demeter "insufficient-depth"), s) := by
  have hck : checkTx DCtx.exact c s.book r false = .error (.demeter "insufficient-depth") := by
    unfold checkTx
    simp only [hfind]
    have h1 : (normInstr DCtx.exact ins).stateOpen = true := hso
    have h2 : ¬ r.amount < c.minAmount := not_lt.mpr hmin
    have h3 : tradeAmount c r.amount = roundDec c.tradeExp r.amount := by unfold tradeAmount; rw [if_neg h2]
    simp only [h1, Bool.not_true, Bool.false_eq_true, if_false, h2, reqPrice, hm.1, hm.2, availSide, hb, h3,
      sumSizes_exact, gt_iff_lt, hdepth, if_true]
  unfold sell
  simp [hopen, hck]

/-- … and a market order within the displayed total passes `check_transaction` (any state, either side): the only thing
    that can still stop a buy is the cash check, a sell the holding check -/
theorem C15_market_order_within_depth_checked (c : TokenCfg) (book : List Instr) (r : Req) (ins : Instr) (isBuy : Bool)
    (avail : List Level)
    (hfind : findInstr book r.name = some ins) (hso : ins.stateOpen = true)
    (hmin : c.minAmount ≤ r.amount) (hm : r.priceTok = none ∧ r.priceUsd = none)
    (hav : availSide DCtx.exact (normInstr DCtx.exact ins) r.mult isBuy = .ok avail)
    (hdepth : roundDec c.tradeExp r.amount ≤ sizeSum avail) :
    checkTx DCtx.exact c book r isBuy =
      .ok { amount := roundDec c.tradeExp r.amount, ins := normInstr DCtx.exact ins, price := none } := by
  unfold checkTx
  simp only [hfind]
  have h1 : (normInstr DCtx.exact ins).stateOpen = true := hso
  have h2 : ¬ r.amount < c.minAmount := not_lt.mpr hmin
  have h3 : tradeAmount c r.amount = roundDec c.tradeExp r.amount := by unfold tradeAmount; rw [if_neg h2]
  have h4 : ¬ roundDec c.tradeExp r.amount > sizeSum avail := not_lt.mpr hdepth
  simp only [h1, Bool.not_true, Bool.false_eq_true, if_false, h2, reqPrice, hm.1, hm.2, hav, h3,
    sumSizes_exact, h4]

/-- **fills shrink the visible book for the following orders (buy side)**: after an accepted buy, a following market
    buy of the same instrument is checked against the asks the first one left — the normalised asks minus the fills,
    whose displayed total is the old total minus the filled amount — and is rejected with "insufficient-depth", changing
    nothing, as soon as its rounded amount exceeds that remainder (even if it fits the book as it was). -/
theorem C15_following_order_sees_shrunken_book (c : TokenCfg) (s s' : DState) (r r2 : Req) (fills : List Fill) (fee : Rat)
    (h : buy DCtx.exact c s r = (.ok (.trade fills fee), s'))
    (hn : r2.name = r.name) (hm : r2.priceTok = none ∧ r2.priceUsd = none) (hmult : r2.mult = none)
    (hmin : c.minAmount ≤ r2.amount) :
    ∃ ins, findInstr s.book r.name = some ins ∧
      (∃ ins', findInstr s'.book r.name = some ins' ∧
        sizeSum (normSide DCtx.exact true ins'.asks) = sizeSum (normSide DCtx.exact true ins.asks) - fillSum fills) ∧
      (sizeSum (normSide DCtx.exact true ins.asks) - fillSum fills < roundDec c.tradeExp r2.amount →
        buy DCtx.exact c s' r2 = (.error (.demeter "insufficient-depth"), s')) ∧
      (roundDec c.tradeExp r2.amount ≤ sizeSum (normSide DCtx.exact true ins.asks) - fillSum fills →
        ∃ ck, checkTx DCtx.exact c s'.book r2 true = .ok ck ∧ ck.amount = roundDec c.tradeExp r2.amount ∧ ck.price = none) := by
  obtain ⟨ins, hfind, hbook⟩ := C15_buy_book DCtx.exact c s s' r fills fee h
  obtain ⟨hopen, ck, hck, fills', _, _, hfills, _, _, hres, _, _, hs'⟩ := buy_ok h
  simp only [Res.trade.injEq] at hres
  obtain ⟨rfl, _⟩ := hres
  obtain ⟨⟨ins0, hfind0, hnorm⟩, hso, _⟩ := checkTx_ok hck
  rw [hfind] at hfind0
  simp only [Option.some.injEq] at hfind0
  subst hfind0
  -- the fills sit at prices of the normalised asks
  have hprices : ∀ f ∈ fills, f.price ∈ (normSide DCtx.exact true ins.asks).map (·.price) := by
    intro f hf
    rw [hfills] at hf
    obtain ⟨l, hl, hp⟩ := fills_from_avail hck (by simp [availSide]) hf
    obtain ⟨g, hg⟩ := availAsks_filter ck.ins r.mult
    rw [hg, hnorm] at hl
    exact List.mem_map.mpr ⟨l, (List.mem_filter.mp hl).1, hp.symm⟩
  have hnd : PricesNodup (normSide DCtx.exact true ins.asks) := sortedLt_nodup (normSide_sortedLt _ true ins.asks)
  have hsum := sizeSum_newOrderList _ fills hnd hprices
  have hfind' : findInstr s'.book r.name =
      some { ins with asks := newOrderList DCtx.exact (normSide DCtx.exact true ins.asks) fills } := by
    rw [hbook, findInstr_setAsks_same, hfind]; rfl
  have hso' : ins.stateOpen = true := by rw [hnorm] at hso; exact hso
  refine ⟨ins, hfind, ⟨_, hfind', ?_⟩, ?_, ?_⟩
  · simp only [normSide_newOrderList]; exact hsum
  rotate_left
  · intro hle
    refine ⟨_, C15_market_order_within_depth_checked c s'.book r2
      { ins with asks := newOrderList DCtx.exact (normSide DCtx.exact true ins.asks) fills } true
      (newOrderList DCtx.exact (normSide DCtx.exact true ins.asks) fills)
      (by rw [hn]; exact hfind') hso' hmin hm
      (by simp only [availSide, availAsks, hmult, normInstr_asks, normSide_newOrderList, if_true])
      (by rw [hsum]; exact hle), rfl, rfl⟩
  · intro hlt
    have hflag : s'.flagOpen = true := by rw [hs']; exact hopen
    apply C15_market_buy_beyond_depth_rejected c s' r2
      { ins with asks := newOrderList DCtx.exact (normSide DCtx.exact true ins.asks) fills }
      hflag (by rw [hn]; exact hfind') hso' hmin hm
    simp only [availAsks, hmult, normInstr_asks, normSide_newOrderList]
    rw [hsum]; exact hlt

/-- **fills shrink the visible book for the following orders (sell side)**: after an accepted sell, a following market
    sell of the same instrument for more than the bids that are left is rejected with "insufficient-depth" -/
theorem C15_following_sell_sees_shrunken_book (c : TokenCfg) (s s' : DState) (r r2 : Req) (fills : List Fill) (fee : Rat)
    (h : sell DCtx.exact c s r = (.ok (.trade fills fee), s'))
    (hn : r2.name = r.name) (hm : r2.priceTok = none ∧ r2.priceUsd = none) (hmult : r2.mult = none)
    (hmin : c.minAmount ≤ r2.amount) :
    ∃ ins, findInstr s.book r.name = some ins ∧
      (∃ ins', findInstr s'.book r.name = some ins' ∧
        sizeSum (normSide DCtx.exact false ins'.bids) = sizeSum (normSide DCtx.exact false ins.bids) - fillSum fills) ∧
      (sizeSum (normSide DCtx.exact false ins.bids) - fillSum fills < roundDec c.tradeExp r2.amount →
        sell DCtx.exact c s' r2 = (.error (.demeter "insufficient-depth"), s')) ∧
      (roundDec c.tradeExp r2.amount ≤ sizeSum (normSide DCtx.exact false ins.bids) - fillSum fills →
        ∃ ck, checkTx DCtx.exact c s'.book r2 false = .ok ck ∧ ck.amount = roundDec c.tradeExp r2.amount ∧ ck.price = none) := by
  obtain ⟨ins, hfind, hbook, _⟩ := C15_sell_book DCtx.exact c s s' r fills fee h
  obtain ⟨hopen, ck, _, bids, hck, _, _, hbids, fills', _, _, hfills, _, _, hres, hs'⟩ := sell_ok h
  simp only [Res.trade.injEq] at hres
  obtain ⟨rfl, _⟩ := hres
  obtain ⟨⟨ins0, hfind0, hnorm⟩, hso, _⟩ := checkTx_ok hck
  rw [hfind] at hfind0
  simp only [Option.some.injEq] at hfind0
  subst hfind0
  have hprices : ∀ f ∈ fills, f.price ∈ (normSide DCtx.exact false ins.bids).map (·.price) := by
    intro f hf
    rw [hfills] at hf
    obtain ⟨l, hl, hp⟩ := fills_from_avail hck (by simp [availSide, hbids]) hf
    obtain ⟨g, hg⟩ := availBids_filter hbids
    rw [hg, hnorm] at hl
    exact List.mem_map.mpr ⟨l, (List.mem_filter.mp hl).1, hp.symm⟩
  have hnd : PricesNodup (normSide DCtx.exact false ins.bids) := sortedLt_nodup (normSide_sortedLt _ false ins.bids)
  have hsum := sizeSum_newOrderList _ fills hnd hprices
  have hfind' : findInstr s'.book r.name =
      some { ins with bids := newOrderList DCtx.exact (normSide DCtx.exact false ins.bids) fills } := by
    rw [hbook, findInstr_setBids_same, hfind]; rfl
  have hso' : ins.stateOpen = true := by rw [hnorm] at hso; exact hso
  refine ⟨ins, hfind, ⟨_, hfind', ?_⟩, ?_, ?_⟩
  · simp only [normSide_newOrderList]; exact hsum
  rotate_left
  · intro hle
    refine ⟨_, C15_market_order_within_depth_checked c s'.book r2
      { ins with bids := newOrderList DCtx.exact (normSide DCtx.exact false ins.bids) fills } false
      (newOrderList DCtx.exact (normSide DCtx.exact false ins.bids) fills)
      (by rw [hn]; exact hfind') hso' hmin hm
      (by simp only [availSide, availBids, hmult, normInstr_bids, normSide_newOrderList, Bool.false_eq_true, if_false])
      (by rw [hsum]; exact hle), rfl, rfl⟩
  · intro hlt
    have hflag : s'.flagOpen = true := by rw [hs']; exact hopen
    apply C15_market_sell_beyond_depth_rejected c s' r2
      { ins with bids := newOrderList DCtx.exact (normSide DCtx.exact false ins.bids) fills }
      (newOrderList DCtx.exact (normSide DCtx.exact false ins.bids) fills)
      hflag (by rw [hn]; exact hfind') (by rw [hnorm] at hso; exact hso) hmin hm
      (by simp only [availBids, hmult, normInstr_bids, normSide_newOrderList])
    rw [hsum]; exact hlt

/-! ### non-vacuity — the example book shows 5 + 605 + 197 = 807 asks: 800 fit; after buying 10, 797 are left and 800 are
    refused (798 too), 797 are accepted.  Bids 51 + 585 = 636: after selling 40 of 700 held, 600 are refused. -/
section
open Deribit
example : (buy DCtx.exact ethCfg exState (exReq 800 none)).1 =
    .ok (.trade [⟨57 / 2000, 5⟩, ⟨29 / 1000, 605⟩, ⟨59 / 2000, 190⟩] (24 / 100)) := by decide +kernel
example : (buy DCtx.exact ethCfg (buy DCtx.exact ethCfg exState (exReq 10 none)).2 (exReq 800 none)).1 =
    .error (.demeter "insufficient-depth") := by decide +kernel
example : (buy DCtx.exact ethCfg (buy DCtx.exact ethCfg exState (exReq 10 none)).2 (exReq 798 none)).1 =
    .error (.demeter "insufficient-depth") := by decide +kernel
example : (buy DCtx.exact ethCfg (buy DCtx.exact ethCfg exState (exReq 10 none)).2 (exReq 797 none)).1 =
    .ok (.trade [⟨29 / 1000, 600⟩, ⟨59 / 2000, 197⟩] (2391 / 10000)) := by decide +kernel
example : sizeSum (normSide DCtx.exact true exInstr.asks) - fillSum [⟨57 / 2000, 5⟩, ⟨29 / 1000, 5⟩] = 797 := by decide +kernel
example : (sell DCtx.exact ethCfg (sell DCtx.exact ethCfg (buy DCtx.exact ethCfg exState (exReq 700 none)).2 (exReq 40 none)).2
    (exReq 600 none)).1 = .error (.demeter "insufficient-depth") := by decide +kernel
example : (sell DCtx.exact ethCfg (buy DCtx.exact ethCfg exState (exReq 700 none)).2 (exReq 600 none)).1 =
    .ok (.trade [⟨28 / 1000, 51⟩, ⟨55 / 2000, 549⟩] (18 / 100)) := by decide +kernel
end

end Demeter
