/-
  C15, limit orders at operation level — an accepted order that names a price (`price_in_token`, or `price_in_usd`
  converted with the instrument's underlying price) is exactly ONE fill, of the whole amount rounded to the contract
  step, at a level of the side the order is matched against (the normalised side, under the mark-price cap) whose
  price is within ±0.1 % of the requested price and which displays at least that amount.  That the order is one fill
  (and is charged once) needs the prices of the matched side to be distinct: this comes from
  `C15_normalised_side_best_first` (strictly best-first ⇒ one level per price), whatever the rows of the data look like.
  Consequently the hypothesis `fillSum fills = roundDec …` of the position / average-price theorems holds for limit
  orders as well (`C15_buy_position_limit`, `C15_sell_avg_price_limit`), and the cash effect is
  `amount × level price ± fee` (`C15_limit_buy_cost`, `C15_limit_sell_proceeds`).
  Exact arithmetic (`DCtx.exact`: Decimal arithmetic exact, `Decimal(str(float)) = float`).
-/
import Proofs.C15.Norm
import Proofs.Lemmas.DeribitInv
namespace Demeter
open Demeter.Deribit

namespace Deribit

/-! rounding to the contract step keeps an amount of at least one step positive -/

theorem pow10_pos' (k : Nat) : 0 < ((pow10 k : Nat) : Rat) := by
  unfold pow10; positivity

theorem quantHalfUp_pos (k : Nat) {x : Rat} (hx : 1 ≤ x * ((pow10 k : Nat) : Rat)) : 0 < quantHalfUp k x := by
  have hpw := pow10_pos' k
  have hxpos : 0 < x := (mul_pos_iff_of_pos_right hpw).mp (lt_of_lt_of_le one_pos hx)
  have hnum : 0 < x.num := Rat.num_pos.mpr hxpos
  have hden : (0 : Rat) < x.den := by exact_mod_cast x.den_pos
  have hle : x.den ≤ x.num.natAbs * pow10 k := by
    have h1 : (x.den : Rat) ≤ (x.num : Rat) * ((pow10 k : Nat) : Rat) := by
      have := hx
      rw [← Rat.num_div_den x] at this
      rw [div_mul_eq_mul_div, le_div_iff₀ hden] at this
      simpa using this
    have h2 : (x.num : Rat) = ((x.num.natAbs : Nat) : Rat) := by
      rw [← Int.cast_natCast, Int.natAbs_of_nonneg hnum.le]
    rw [h2] at h1
    exact_mod_cast h1
  have hq : 0 < roundHalfUpNat (x.num.natAbs * pow10 k) x.den := by
    unfold roundHalfUpNat
    simp only []
    split
    · exact Nat.div_pos hle x.den_pos
    · exact Nat.succ_pos _
  unfold quantHalfUp
  simp only [not_lt.mpr hnum.le, if_false]
  rw [Rat.mkRat_eq_div]
  apply div_pos
  · exact_mod_cast hq
  · exact hpw

theorem roundDec_pos (e : Int) {x : Rat} (hx : tenPow e ≤ x) : 0 < roundDec e x := by
  unfold roundDec
  unfold tenPow at hx
  split
  · rename_i he
    apply quantHalfUp_pos
    by_cases h0 : e ≥ 0
    · have : e = 0 := le_antisymm he h0
      subst this
      simpa [pow10] using hx
    · rw [if_neg h0] at hx
      have hp := pow10_pos' (-e).toNat
      rw [div_le_iff₀ hp] at hx
      exact hx
  · rename_i he
    have hT := tenPow_pos e
    apply mul_pos _ hT
    apply quantHalfUp_pos
    have h0 : e ≥ 0 := by omega
    have : tenPow e ≤ x := by unfold tenPow; exact hx
    have h1 : 1 ≤ x / tenPow e := by rw [le_div_iff₀ hT]; simpa using this
    simpa [pow10] using h1

/-- the request names a price -/
def Req.isLimit (r : Req) : Prop := r.priceTok ≠ none ∨ r.priceUsd ≠ none

/-- what `reqPrice` answers under exact arithmetic: `price_in_token` if given, else `price_in_usd / underlying`
    (which needs a non-zero underlying price) -/
theorem reqPrice_exact_some {ins : Instr} {r : Req} {p : Rat} (h : reqPrice DCtx.exact ins r = .ok (some p)) :
    (∀ t, r.priceTok = some t → p = t) ∧
    (∀ u, r.priceTok = none → r.priceUsd = some u → ins.underlying ≠ 0 ∧ p = u / ins.underlying) := by
  unfold reqPrice at h
  split at h
  · rename_i t _ ht
    simp only [Except.ok.injEq, Option.some.injEq] at h
    exact ⟨fun t' ht' => by rw [ht] at ht'; simp only [Option.some.injEq] at ht'; rw [← h, ht'],
           fun u hn _ => by rw [ht] at hn; simp at hn⟩
  · rename_i u hn hu
    refine ⟨fun t ht => by rw [hn] at ht; simp at ht, ?_⟩
    intro u' _ hu'
    rw [hu] at hu'
    simp only [Option.some.injEq] at hu'
    subst hu'
    simp only [decDiv, exact_reprD, exact_num, NumCtx.exact_div] at h
    by_cases h0 : ins.underlying = 0
    · simp only [h0, if_true] at h
      split at h
      · rename_i heq; split at heq <;> simp at heq
      · simp at h
    · simp only [h0, if_false, Except.ok.injEq, Option.some.injEq] at h
      exact ⟨h0, h.symm⟩
  · simp at h

theorem reqPrice_none_not_limit {cx : DCtx} {ins : Instr} {r : Req} (h : reqPrice cx ins r = .ok none) :
    r.priceTok = none ∧ r.priceUsd = none := by
  unfold reqPrice at h
  split at h
  · simp at h
  · split at h <;> simp at h
  · rename_i h1 h2; exact ⟨h1, h2⟩

@[simp] theorem normInstr_underlying (cx : DCtx) (i : Instr) : (normInstr cx i).underlying = i.underlying := rfl

/-- the core: an accepted limit request against a filtered part of a side with distinct prices is one fill -/
theorem limit_core {c : TokenCfg} {book : List Instr} {r : Req} {isBuy : Bool} {ck : Checked}
    (hck : checkTx DCtx.exact c book r isBuy = .ok ck) (hlim : r.isLimit)
    {side : List Level} {f : Level → Bool}
    (hav : availSide DCtx.exact ck.ins r.mult isBuy = .ok (side.filter f)) (hnd : PricesNodup side) :
    ∃ p l, reqPrice DCtx.exact ck.ins r = .ok (some p) ∧ l ∈ side ∧ f l = true ∧
      (1 - 1 / 1000) * p < l.price ∧ l.price < (1 + 1 / 1000) * p ∧ ck.amount ≤ l.size ∧
      deduct DCtx.exact ck.amount (side.filter f) ck.price = [⟨l.price, ck.amount⟩] := by
  obtain ⟨_, _, _, _, avail, ha, hcase⟩ := checkTx_ok hck
  rw [hav] at ha
  simp only [Except.ok.injEq] at ha
  subst ha
  rcases hcase with ⟨hrp, _, _⟩ | ⟨p, l, rest, hrp, hfa, hpr, hle⟩
  · obtain ⟨h1, h2⟩ := reqPrice_none_not_limit hrp
    rcases hlim with h | h <;> contradiction
  · have hl : l ∈ findAvailable DCtx.exact p (side.filter f) := by rw [hfa]; exact List.mem_cons_self
    have hfa' := hfa
    unfold findAvailable at hl hfa'
    obtain ⟨hl1, hl2⟩ := List.mem_filter.mp hl
    replace hl2 := of_decide_eq_true hl2
    have hme : matchErr = 1 / 1000 := C15_constants.2.2.2.2.2.2.2
    simp only [exact_num, NumCtx.exact_mul, NumCtx.exact_sub, NumCtx.exact_add, hme] at hl2 hfa'
    obtain ⟨hls, hlf⟩ := List.mem_filter.mp hl1
    refine ⟨p, l, hrp, hls, hlf, hl2.1, hl2.2, hle, ?_⟩
    · rw [hpr]
      simp only [exact_reprD, deduct]
      have := deductLimit_single DCtx.exact ck.amount (side.filter f) l hl1
        (by simpa [PricesNodup] using nodup_filter_prices hnd f)
      simpa using this

end Deribit

/-- **a limit buy fills exactly the rounded amount, once, at one ask within ±0.1 % of the requested price**
    (exact arithmetic).  `p` is the requested price: `price_in_token`, else `price_in_usd / underlying_price`;
    `l` is a level of the normalised asks (under the mark-price cap if one is given) that displays at least the amount;
    the prices of that side are distinct because it is strictly best-first (`C15_normalised_side_best_first`). -/
theorem C15_limit_fills_exactly_buy (c : TokenCfg) (s s' : DState) (r : Req) (fills : List Fill) (fee : Rat)
    (hlim : r.isLimit) (h : buy DCtx.exact c s r = (.ok (.trade fills fee), s')) :
    ∃ ins p, findInstr s.book r.name = some ins ∧
      (∀ t, r.priceTok = some t → p = t) ∧
      (∀ u, r.priceTok = none → r.priceUsd = some u → ins.underlying ≠ 0 ∧ p = u / ins.underlying) ∧
      ∃ l ∈ normSide DCtx.exact true ins.asks,
        fills = [⟨l.price, roundDec c.tradeExp r.amount⟩] ∧
        (1 - 1 / 1000) * p < l.price ∧ l.price < (1 + 1 / 1000) * p ∧
        roundDec c.tradeExp r.amount ≤ l.size ∧ (∀ m, r.mult = some m → l.price < m * ins.mark) := by
  obtain ⟨_, ck, hck, fills', prem, fee', hfills, _, _, hres, _⟩ := buy_ok h
  simp only [Res.trade.injEq] at hres
  obtain ⟨rfl, rfl⟩ := hres
  obtain ⟨⟨ins0, hfind, hnorm⟩, _, _, hamt, _⟩ := checkTx_ok hck
  obtain ⟨f, hf⟩ := availAsks_filter ck.ins r.mult
  have hnd : PricesNodup ck.ins.asks := by
    rw [hnorm]; exact sortedLt_nodup (C15_normalised_side_best_first DCtx.exact true ins0.asks).1
  obtain ⟨p, l, hrp, hl, hfl, h1, h2, hle, hded⟩ :=
    limit_core hck hlim (side := ck.ins.asks) (f := f) (by simp [availSide, hf]) hnd
  rw [hnorm] at hrp
  obtain ⟨ht, hu⟩ := reqPrice_exact_some hrp
  refine ⟨ins0, p, hfind, ht, by simpa using hu, l, by rw [hnorm] at hl; exact hl, ?_, h1, h2, hamt ▸ hle, ?_⟩
  · rw [hfills, hf, hded, hamt]
  · intro m hm
    have hmem : l ∈ availAsks DCtx.exact ck.ins r.mult := by rw [hf]; exact List.mem_filter.mpr ⟨hl, hfl⟩
    simp only [availAsks, hm, hnorm, normInstr_mark, exact_num, NumCtx.exact_mul] at hmem
    exact of_decide_eq_true (List.mem_filter.mp hmem).2

/-- **a limit sell fills exactly the rounded amount, once, at one bid within ±0.1 % of the requested price** -/
theorem C15_limit_fills_exactly_sell (c : TokenCfg) (s s' : DState) (r : Req) (fills : List Fill) (fee : Rat)
    (hlim : r.isLimit) (h : sell DCtx.exact c s r = (.ok (.trade fills fee), s')) :
    ∃ ins p, findInstr s.book r.name = some ins ∧
      (∀ t, r.priceTok = some t → p = t) ∧
      (∀ u, r.priceTok = none → r.priceUsd = some u → ins.underlying ≠ 0 ∧ p = u / ins.underlying) ∧
      ∃ l ∈ normSide DCtx.exact false ins.bids,
        fills = [⟨l.price, roundDec c.tradeExp r.amount⟩] ∧
        (1 - 1 / 1000) * p < l.price ∧ l.price < (1 + 1 / 1000) * p ∧
        roundDec c.tradeExp r.amount ≤ l.size ∧ (∀ m, r.mult = some m → m ≠ 0 ∧ ins.mark / m < l.price) := by
  obtain ⟨_, ck, pos, bids, hck, _, _, hbids, fills', prem, fee', hfills, _, _, hres, _⟩ := sell_ok h
  simp only [Res.trade.injEq] at hres
  obtain ⟨rfl, rfl⟩ := hres
  obtain ⟨⟨ins0, hfind, hnorm⟩, _, _, hamt, _⟩ := checkTx_ok hck
  obtain ⟨f, hf⟩ := availBids_filter hbids
  have hnd : PricesNodup ck.ins.bids := by
    rw [hnorm]; exact sortedLt_nodup (C15_normalised_side_best_first DCtx.exact false ins0.bids).1
  obtain ⟨p, l, hrp, hl, hfl, h1, h2, hle, hded⟩ :=
    limit_core hck hlim (side := ck.ins.bids) (f := f) (by simp [availSide, hbids, hf]) hnd
  rw [hnorm] at hrp
  obtain ⟨ht, hu⟩ := reqPrice_exact_some hrp
  refine ⟨ins0, p, hfind, ht, by simpa using hu, l, by rw [hnorm] at hl; exact hl, ?_, h1, h2, hamt ▸ hle, ?_⟩
  · rw [hfills, hf, hded, hamt]
  · intro m hm
    have hmem : l ∈ bids := by rw [hf]; exact List.mem_filter.mpr ⟨hl, hfl⟩
    simp only [availBids, hm, decDiv] at hbids
    by_cases hm0 : m = 0
    · simp only [hm0, if_true] at hbids
      split at hbids
      · simp at hbids
      · rename_i heq; split at heq <;> simp at heq
    · simp only [hm0, if_false, Except.ok.injEq] at hbids
      rw [← hbids, hnorm] at hmem
      simp only [normInstr_mark, exact_num, NumCtx.exact_div] at hmem
      exact ⟨hm0, of_decide_eq_true (List.mem_filter.mp hmem).2⟩

/-- **a limit-priced buy fills at a level within ±0.1 % of the requested price**, only if that level shows at least the
    (rounded) amount, and as exactly one fill of that amount (the `price_in_token` buy case of `C15_limit_fills_exactly_buy`) -/
theorem C15_limit_price_within_tolerance (c : TokenCfg) (s s' : DState) (r : Req) (p : Rat) (fills : List Fill) (fee : Rat)
    (hp : r.priceTok = some p) (h : buy DCtx.exact c s r = (.ok (.trade fills fee), s')) :
    ∃ ins l, findInstr s.book r.name = some ins ∧ l ∈ normSide DCtx.exact true ins.asks ∧
      (1 - 1 / 1000) * p < l.price ∧ l.price < (1 + 1 / 1000) * p ∧ roundDec c.tradeExp r.amount ≤ l.size ∧
      fills = [⟨l.price, roundDec c.tradeExp r.amount⟩] := by
  obtain ⟨ins, q, hf, ht, _, l, hl, hfills, h1, h2, h3, _⟩ :=
    C15_limit_fills_exactly_buy c s s' r fills fee (Or.inl (by simp [hp])) h
  have hq := ht p hp
  subst hq
  exact ⟨ins, l, hf, hl, h1, h2, h3, hfills⟩
/-- the total filled by an accepted limit buy is the rounded amount: the hypothesis `hfs` of `C15_buy_position` -/
theorem C15_limit_buy_fills_rounded_amount (c : TokenCfg) (s s' : DState) (r : Req) (fills : List Fill) (fee : Rat)
    (hlim : r.isLimit) (h : buy DCtx.exact c s r = (.ok (.trade fills fee), s')) :
    fillSum fills = roundDec c.tradeExp r.amount := by
  obtain ⟨_, _, _, _, _, l, _, hf, _⟩ := C15_limit_fills_exactly_buy c s s' r fills fee hlim h
  rw [hf]; simp [fillSum]

theorem C15_limit_sell_fills_rounded_amount (c : TokenCfg) (s s' : DState) (r : Req) (fills : List Fill) (fee : Rat)
    (hlim : r.isLimit) (h : sell DCtx.exact c s r = (.ok (.trade fills fee), s')) :
    fillSum fills = roundDec c.tradeExp r.amount := by
  obtain ⟨_, _, _, _, _, l, _, hf, _⟩ := C15_limit_fills_exactly_sell c s s' r fills fee hlim h
  rw [hf]; simp [fillSum]

/-- **every accepted buy — market or limit — fills exactly the requested amount rounded to the contract step**
    (non-negative displayed sizes) -/
theorem C15_buy_fills_rounded_amount (c : TokenCfg) (s s' : DState) (r : Req) (fills : List Fill) (fee : Rat)
    (hb : BookNonneg s.book) (h : buy DCtx.exact c s r = (.ok (.trade fills fee), s')) :
    fillSum fills = roundDec c.tradeExp r.amount := by
  by_cases hlim : r.isLimit
  · exact C15_limit_buy_fills_rounded_amount c s s' r fills fee hlim h
  · have hp : r.priceTok = none ∧ r.priceUsd = none := by
      simpa only [Req.isLimit, not_or, not_not] using hlim
    exact C15_buy_market_fills_rounded_amount c s s' r fills fee hb hp h

/-- **every accepted sell — market or limit — fills exactly the rounded amount** -/
theorem C15_sell_fills_rounded_amount (c : TokenCfg) (s s' : DState) (r : Req) (fills : List Fill) (fee : Rat)
    (hb : BookNonneg s.book) (h : sell DCtx.exact c s r = (.ok (.trade fills fee), s')) :
    fillSum fills = roundDec c.tradeExp r.amount := by
  by_cases hlim : r.isLimit
  · exact C15_limit_sell_fills_rounded_amount c s s' r fills fee hlim h
  · have hp : r.priceTok = none ∧ r.priceUsd = none := by
      simpa only [Req.isLimit, not_or, not_not] using hlim
    exact C15_sell_market_fills_rounded_amount c s s' r fills fee hb hp h

/-- **an accepted order is for a positive number of contracts**: `check_transaction` refuses amounts below one contract
    step, and rounding (half up) an amount of at least one step to the step does not give zero -/
theorem C15_accepted_amount_positive (c : TokenCfg) (s s' : DState) (r : Req) (res : Res) :
    (buy DCtx.exact c s r = (.ok res, s') → 0 < roundDec c.tradeExp r.amount) ∧
    (sell DCtx.exact c s r = (.ok res, s') → 0 < roundDec c.tradeExp r.amount) := by
  constructor
  · intro h
    obtain ⟨_, ck, hck, _⟩ := buy_ok h
    exact roundDec_pos _ (checkTx_ok hck).2.2.1
  · intro h
    obtain ⟨_, ck, _, _, hck, _⟩ := sell_ok h
    exact roundDec_pos _ (checkTx_ok hck).2.2.1

/-- **position after any accepted buy, market or limit** (`C15_buy_position` with both hypotheses discharged; non-negative
    displayed sizes): `a = round(amount) > 0` contracts are added, the average buy price is size-weighted -/
theorem C15_buy_position_total (c : TokenCfg) (s s' : DState) (r : Req) (fills : List Fill) (fee : Rat)
    (hb : BookNonneg s.book) (h : buy DCtx.exact c s r = (.ok (.trade fills fee), s')) :
    fillSum fills = roundDec c.tradeExp r.amount ∧ 0 < roundDec c.tradeExp r.amount ∧
    ∃ p', AList.get? s'.positions r.name = some p' ∧
      match AList.get? s.positions r.name with
      | none => p'.amount = fillSum fills ∧ p'.buyAmt = fillSum fills ∧ p'.avgBuy = fillCost fills / fillSum fills ∧
                p'.sellAmt = 0 ∧ p'.name = r.name
      | some p => p'.amount = p.amount + fillSum fills ∧ p'.buyAmt = p.buyAmt + fillSum fills ∧
                (p.buyAmt + fillSum fills ≠ 0 →
                  p'.avgBuy = (p.avgBuy * p.buyAmt + fillCost fills) / (p.buyAmt + fillSum fills)) := by
  have hfs := C15_buy_fills_rounded_amount c s s' r fills fee hb h
  have hpos := (C15_accepted_amount_positive c s s' r _).1 h
  exact ⟨hfs, hpos, C15_buy_position c s s' r fills fee h hfs (by rw [hfs]; exact hpos.ne')⟩

/-- **position after any accepted sell, market or limit** (`C15_sell_avg_price` with both hypotheses discharged) -/
theorem C15_sell_avg_price_total (c : TokenCfg) (s s' : DState) (r : Req) (fills : List Fill) (fee : Rat)
    (hb : BookNonneg s.book) (h : sell DCtx.exact c s r = (.ok (.trade fills fee), s')) :
    fillSum fills = roundDec c.tradeExp r.amount ∧ 0 < roundDec c.tradeExp r.amount ∧
    ∃ p, AList.get? s.positions r.name = some p ∧
      (p.amount - fillSum fills ≤ 0 → s'.positions = AList.erase s.positions r.name) ∧
      (¬ p.amount - fillSum fills ≤ 0 → ∃ p', AList.get? s'.positions r.name = some p' ∧
        p'.amount = p.amount - fillSum fills ∧ p'.sellAmt = p.sellAmt + fillSum fills ∧
        (p.sellAmt + fillSum fills ≠ 0 →
          p'.avgSell = (p.avgSell * p.sellAmt + fillCost fills) / (p.sellAmt + fillSum fills))) := by
  have hfs := C15_sell_fills_rounded_amount c s s' r fills fee hb h
  have hpos := (C15_accepted_amount_positive c s s' r _).2 h
  exact ⟨hfs, hpos, C15_sell_avg_price c s s' r fills fee h hfs (by rw [hfs]; exact hpos.ne')⟩

/-- **position after a limit buy** (`C15_buy_position` with its fill-total hypothesis discharged): one fill of
    `a = round(amount)` at the level price `q`; a fresh position holds `a` at average `q`, an existing one grows by `a`
    and averages `(old avg × old bought + a × q) / (old bought + a)` -/
theorem C15_buy_position_limit (c : TokenCfg) (s s' : DState) (r : Req) (fills : List Fill) (fee : Rat)
    (hlim : r.isLimit) (h : buy DCtx.exact c s r = (.ok (.trade fills fee), s')) :
    ∃ q, fills = [⟨q, roundDec c.tradeExp r.amount⟩] ∧
    ∃ p', AList.get? s'.positions r.name = some p' ∧
      match AList.get? s.positions r.name with
      | none => p'.amount = roundDec c.tradeExp r.amount ∧ p'.buyAmt = roundDec c.tradeExp r.amount ∧ p'.avgBuy = q ∧
                p'.sellAmt = 0 ∧ p'.name = r.name
      | some p => p'.amount = p.amount + roundDec c.tradeExp r.amount ∧
                p'.buyAmt = p.buyAmt + roundDec c.tradeExp r.amount ∧
                (p.buyAmt + roundDec c.tradeExp r.amount ≠ 0 →
                  p'.avgBuy = (p.avgBuy * p.buyAmt + roundDec c.tradeExp r.amount * q) /
                    (p.buyAmt + roundDec c.tradeExp r.amount)) := by
  obtain ⟨_, _, _, _, _, l, _, hf, _⟩ := C15_limit_fills_exactly_buy c s s' r fills fee hlim h
  have hfs : fillSum fills = roundDec c.tradeExp r.amount := by rw [hf]; simp [fillSum]
  have hfc : fillCost fills = roundDec c.tradeExp r.amount * l.price := by rw [hf]; simp [fillCost]
  have hpos : roundDec c.tradeExp r.amount ≠ 0 := ((C15_accepted_amount_positive c s s' r _).1 h).ne'
  obtain ⟨p', hp', hm⟩ := C15_buy_position c s s' r fills fee h hfs (by rw [hfs]; exact hpos)
  refine ⟨l.price, hf, p', hp', ?_⟩
  rw [hfs, hfc] at hm
  cases hg : AList.get? s.positions r.name with
  | none =>
    rw [hg] at hm
    obtain ⟨h1, h2, h3, h4, h5⟩ := hm
    refine ⟨h1, h2, ?_, h4, h5⟩
    rw [h3]; field_simp
  | some p => rw [hg] at hm; exact hm

/-- **position after a limit sell** (`C15_sell_avg_price` with its fill-total hypothesis discharged) -/
theorem C15_sell_avg_price_limit (c : TokenCfg) (s s' : DState) (r : Req) (fills : List Fill) (fee : Rat)
    (hlim : r.isLimit) (h : sell DCtx.exact c s r = (.ok (.trade fills fee), s')) :
    ∃ q, fills = [⟨q, roundDec c.tradeExp r.amount⟩] ∧
    ∃ p, AList.get? s.positions r.name = some p ∧
      (p.amount - roundDec c.tradeExp r.amount ≤ 0 → s'.positions = AList.erase s.positions r.name) ∧
      (¬ p.amount - roundDec c.tradeExp r.amount ≤ 0 → ∃ p', AList.get? s'.positions r.name = some p' ∧
        p'.amount = p.amount - roundDec c.tradeExp r.amount ∧ p'.sellAmt = p.sellAmt + roundDec c.tradeExp r.amount ∧
        (p.sellAmt + roundDec c.tradeExp r.amount ≠ 0 →
          p'.avgSell = (p.avgSell * p.sellAmt + roundDec c.tradeExp r.amount * q) /
            (p.sellAmt + roundDec c.tradeExp r.amount))) := by
  obtain ⟨_, _, _, _, _, l, _, hf, _⟩ := C15_limit_fills_exactly_sell c s s' r fills fee hlim h
  have hfs : fillSum fills = roundDec c.tradeExp r.amount := by rw [hf]; simp [fillSum]
  have hfc : fillCost fills = roundDec c.tradeExp r.amount * l.price := by rw [hf]; simp [fillCost]
  have hpos : roundDec c.tradeExp r.amount ≠ 0 := ((C15_accepted_amount_positive c s s' r _).2 h).ne'
  obtain ⟨p, hp, hm⟩ := C15_sell_avg_price c s s' r fills fee h hfs (by rw [hfs]; exact hpos)
  rw [hfs, hfc] at hm
  exact ⟨l.price, hf, p, hp, hm⟩

/-- **cash effect of a limit buy**: `a × q + fee` leaves the account, `fee = round(min(rate × a, 12.5 % × a × q))` -/
theorem C15_limit_buy_cost (c : TokenCfg) (s s' : DState) (r : Req) (fills : List Fill) (fee : Rat)
    (hlim : r.isLimit) (h : buy DCtx.exact c s r = (.ok (.trade fills fee), s')) :
    ∃ q, fills = [⟨q, roundDec c.tradeExp r.amount⟩] ∧
      s'.cash = s.cash - (roundDec c.tradeExp r.amount * q + fee) ∧ 0 ≤ s'.cash ∧
      fee = roundDec c.feeExp (min (c.tradeFee * roundDec c.tradeExp r.amount)
              (maxFeeRate * (roundDec c.tradeExp r.amount * q))) := by
  obtain ⟨_, _, _, _, _, l, _, hf, _⟩ := C15_limit_fills_exactly_buy c s s' r fills fee hlim h
  have hfc : fillCost fills = roundDec c.tradeExp r.amount * l.price := by rw [hf]; simp [fillCost]
  obtain ⟨h1, h2, h3, _⟩ := C15_buy_cost c s s' r fills fee h
  rw [hfc] at h1 h3
  exact ⟨l.price, hf, h1, h2, h3⟩

/-- **cash effect of a limit sell**: `a × q − fee` enters the account -/
theorem C15_limit_sell_proceeds (c : TokenCfg) (s s' : DState) (r : Req) (fills : List Fill) (fee : Rat)
    (hlim : r.isLimit) (h : sell DCtx.exact c s r = (.ok (.trade fills fee), s')) :
    ∃ q, fills = [⟨q, roundDec c.tradeExp r.amount⟩] ∧
      s'.cash = s.cash + (roundDec c.tradeExp r.amount * q - fee) ∧
      fee = roundDec c.feeExp (min (c.tradeFee * roundDec c.tradeExp r.amount)
              (maxFeeRate * (roundDec c.tradeExp r.amount * q))) := by
  obtain ⟨_, _, _, _, _, l, _, hf, _⟩ := C15_limit_fills_exactly_sell c s s' r fills fee hlim h
  have hfc : fillCost fills = roundDec c.tradeExp r.amount * l.price := by rw [hf]; simp [fillCost]
  obtain ⟨h1, h3, _⟩ := C15_sell_proceeds c s s' r fills fee h
  rw [hfc] at h1 h3
  exact ⟨l.price, hf, h1, h3⟩

/-! ### non-vacuity: limit orders on the example book (asks 0.0285×5, 0.029×605, 0.0295×197; bids 0.028×51, 0.0275×585;
    underlying 1651.94) and on a book whose rows repeat a price -/
section
open Deribit
/-- a request priced in USD -/
def Deribit.exReqUsd (a u : Rat) : Req :=
  { name := "ETH-22SEP23-1650-C", amount := a, priceTok := none, priceUsd := some u, mult := none }

example : (exReq 7 (some (29005 / 1000000))).isLimit := Or.inl (by simp [exReq])
example : (exReqUsd 7 48).isLimit := Or.inr (by simp [exReqUsd])
-- 6.5 contracts at 0.029005 (0.029 is within 0.1 %): one fill of round(6.5) = 7 at 0.029
example : (buy DCtx.exact ethCfg exState (exReq (13 / 2) (some (29005 / 1000000)))).1 =
    .ok (.trade [⟨29 / 1000, 7⟩] (21 / 10000)) := by decide +kernel
-- priced in USD: 47.9 $ / 1651.94 = 0.028996…, within 0.1 % of the 0.029 ask
example : (buy DCtx.exact ethCfg exState (exReqUsd 7 (479 / 10))).1 = .ok (.trade [⟨29 / 1000, 7⟩] (21 / 10000)) := by
  decide +kernel
-- limit sell of what was bought: the 0.028 bid, in token and in USD (46.25 $ / 1651.94 = 0.0279974…)
example : (sell DCtx.exact ethCfg (buy DCtx.exact ethCfg exState (exReq 10 none)).2 (exReq (13 / 2) (some (28 / 1000)))).1 =
    .ok (.trade [⟨28 / 1000, 7⟩] (21 / 10000)) := by decide +kernel
example : (sell DCtx.exact ethCfg (buy DCtx.exact ethCfg exState (exReq 10 none)).2 (exReqUsd 7 (4625 / 100))).1 =
    .ok (.trade [⟨28 / 1000, 7⟩] (21 / 10000)) := by decide +kernel
-- outside the tolerance, or larger than the one matched level shows (the next level is not used): rejected
example : (buy DCtx.exact ethCfg exState (exReq 7 (some (2904 / 100000)))).1 = .error (.demeter "no-order-at-price") := by
  decide +kernel
example : (buy DCtx.exact ethCfg exState (exReq 6 (some (57 / 2000)))).1 = .error (.demeter "insufficient-depth") := by
  decide +kernel
example : roundDec ethCfg.tradeExp (13 / 2) ≠ 0 := by decide +kernel
end

end Demeter
