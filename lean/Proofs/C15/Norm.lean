/-
  C15, books as the data files may hold them — rows of a side in any order, a price level split over several rows.
  `check_transaction` matches against `normalize_order_list(side)` (model: `normSide`, Demeter/Deribit.lean; lemmas in
  Proofs/Lemmas/DeribitNorm.lean).  Proved here, for every raw side:
    * the side orders are matched against is strictly best-first with one level per price, has exactly the prices of the
      data, and (exact arithmetic) shows at each price the total the data has there;
    * the fills of an accepted market order are, in order, on an initial segment of the non-empty levels of that side
      under the cap — "fills from the best price level outward", whatever the order of the rows;
    * no level is filled beyond what it shows (`C15_buy_never_overdraws`, Proofs/C15/Seq.lean, is stated for raw books);
    * a side that already has the exchange's shape is matched as it stands.
-/
import Proofs.C15
namespace Demeter
open Demeter.Deribit

/-- **the side orders are matched against**: strictly best price first (asks ascending, bids descending), so one level
    per price; its prices are exactly the prices of the rows (every context) -/
theorem C15_normalised_side_best_first (cx : DCtx) (asc : Bool) (ls : List Level) :
    (normSide cx asc ls).Pairwise (fun a b => better asc a.price b.price = true) ∧
    (∀ p, p ∈ (normSide cx asc ls).map (·.price) ↔ p ∈ ls.map (·.price)) :=
  ⟨normSide_sortedLt cx asc ls, normSide_prices cx asc ls⟩

/-- … and each of its levels displays the total size the rows of that price display (exact arithmetic; with floats the
    sizes are added in row order with float addition, reproduced bit-exactly by the driver) -/
theorem C15_normalised_side_shows_total (asc : Bool) (ls : List Level) :
    ∀ y ∈ normSide DCtx.exact asc ls, y.size = rawAt ls y.price :=
  normSide_size asc ls

/-- a side already in the exchange's shape (strictly best-first) is matched as it stands -/
theorem C15_sorted_side_unchanged (cx : DCtx) (asc : Bool) (ls : List Level)
    (h : ls.Pairwise (fun a b => better asc a.price b.price = true)) : normSide cx asc ls = ls :=
  normSide_fixed h

theorem Deribit.sortedLt_filter {asc : Bool} {ls : List Level} (h : SortedLt asc ls) (f : Level → Bool) :
    SortedLt asc (ls.filter f) :=
  List.Pairwise.sublist List.filter_sublist h

/-- **a market buy fills from the best ask outward, whatever the order of the rows** (every context): the fills sit, in
    order, on an initial segment of the non-empty levels of the allowed asks, which are strictly ascending in price; each
    fill carries its level's printed price and takes no more than the level's printed size -/
theorem C15_market_buy_fills_best_first (cx : DCtx) (c : TokenCfg) (s s' : DState) (r : Req) (fills : List Fill) (fee : Rat)
    (hp : r.priceTok = none ∧ r.priceUsd = none) (h : buy cx c s r = (.ok (.trade fills fee), s')) :
    ∃ ins, findInstr s.book r.name = some ins ∧
      SortedLt true (availAsks cx (normInstr cx ins) r.mult) ∧
      List.Forall₂ (fun (f : Fill) (l : Level) => f.price = cx.reprD l.price ∧ f.amount ≤ cx.reprD l.size) fills
        ((Deribit.nonEmpty (availAsks cx (normInstr cx ins) r.mult)).take fills.length) := by
  obtain ⟨_, ck, hck, fills', _, _, hfills, _, _, hres, _⟩ := buy_ok h
  simp only [Res.trade.injEq] at hres
  obtain ⟨rfl, _⟩ := hres
  obtain ⟨⟨ins0, hfind, hnorm⟩, _, _, _, avail, _, hcase⟩ := checkTx_ok hck
  refine ⟨ins0, hfind, ?_, ?_⟩
  · unfold availAsks
    cases r.mult with
    | none => exact normSide_sortedLt cx true ins0.asks
    | some m => exact Deribit.sortedLt_filter (normSide_sortedLt cx true ins0.asks) _
  · rcases hcase with ⟨_, hpn, _⟩ | ⟨p, l, rest, hrp, _⟩
    · rw [hfills, hpn, hnorm]
      exact C15_market_fills_prefix cx ck.amount _
    · simp [reqPrice, hp.1, hp.2] at hrp

/-- **a market sell fills from the best bid outward, whatever the order of the rows** -/
theorem C15_market_sell_fills_best_first (cx : DCtx) (c : TokenCfg) (s s' : DState) (r : Req) (fills : List Fill) (fee : Rat)
    (hp : r.priceTok = none ∧ r.priceUsd = none) (h : sell cx c s r = (.ok (.trade fills fee), s')) :
    ∃ ins bids, findInstr s.book r.name = some ins ∧ availBids cx (normInstr cx ins) r.mult = .ok bids ∧
      SortedLt false bids ∧
      List.Forall₂ (fun (f : Fill) (l : Level) => f.price = cx.reprD l.price ∧ f.amount ≤ cx.reprD l.size) fills
        ((Deribit.nonEmpty bids).take fills.length) := by
  obtain ⟨_, ck, p, bids, hck, _, _, hbids, fills', _, _, hfills, _, _, hres, _⟩ := sell_ok h
  simp only [Res.trade.injEq] at hres
  obtain ⟨rfl, _⟩ := hres
  obtain ⟨⟨ins0, hfind, hnorm⟩, _, _, _, avail, _, hcase⟩ := checkTx_ok hck
  rw [hnorm] at hbids
  refine ⟨ins0, bids, hfind, hbids, ?_, ?_⟩
  · unfold availBids at hbids
    cases hm : r.mult with
    | none =>
      simp only [hm, Except.ok.injEq] at hbids
      rw [← hbids]; exact normSide_sortedLt cx false ins0.bids
    | some m =>
      simp only [hm] at hbids
      split at hbids
      · simp at hbids
      · simp only [Except.ok.injEq] at hbids
        rw [← hbids]; exact Deribit.sortedLt_filter (normSide_sortedLt cx false ins0.bids) _
  · rcases hcase with ⟨_, hpn, _⟩ | ⟨q, l, rest, hrp, _⟩
    · rw [hfills, hpn]
      exact C15_market_fills_prefix cx ck.amount _
    · simp [reqPrice, hp.1, hp.2] at hrp

/-! ### non-vacuity: the books of /repo commit 7a140af -/

namespace Deribit
/-- asks `[[0.06, 5], [0.05, 5], [0.055, 5]]` (rows not in price order), bids `[[0.02, 3], [0.028, 4.0], [0.02, 2.5], [0.028, 1]]` -/
def roughInstr : Instr :=
  { exInstr with asks := [⟨6 / 100, 5, false⟩, ⟨5 / 100, 5, false⟩, ⟨55 / 1000, 5, false⟩],
                 bids := [⟨2 / 100, 3, false⟩, ⟨28 / 1000, 4, true⟩, ⟨2 / 100, 5 / 2, true⟩, ⟨28 / 1000, 1, false⟩] }
/-- asks `[[0.05, 5], [0.05, 7]]`: one price level in two rows -/
def dupInstr : Instr := { exInstr with asks := [⟨5 / 100, 5, false⟩, ⟨5 / 100, 7, false⟩] }
def roughState (i : Instr) : DState := { exState with book := [i] }
end Deribit

section
open Deribit
-- the side orders see: 0.05, 0.055, 0.06 / 0.028 (4 + 1), 0.02 (3 + 2.5)
example : normSide DCtx.exact true roughInstr.asks = [⟨5 / 100, 5, false⟩, ⟨55 / 1000, 5, false⟩, ⟨6 / 100, 5, false⟩] := by decide +kernel
example : normSide DCtx.exact false roughInstr.bids = [⟨28 / 1000, 5, true⟩, ⟨2 / 100, 11 / 2, true⟩] := by decide +kernel
-- a market buy of 3 is filled at the best ask 0.05, not at the first row (0.06); 8 take 5 @ 0.05 and 3 @ 0.055
example : (buy DCtx.exact ethCfg (roughState roughInstr) (exReq 3 none)).1 = .ok (.trade [⟨5 / 100, 3⟩] (9 / 10000)) := by decide +kernel
example : (buy DCtx.exact ethCfg (roughState roughInstr) (exReq 8 none)).1 =
    .ok (.trade [⟨5 / 100, 5⟩, ⟨55 / 1000, 3⟩] (24 / 10000)) := by decide +kernel
-- two rows at 0.05 are one level of 12: a limit buy of 2 is one fill, charged once; a market buy of 8 leaves 4 there, not -3
example : (buy DCtx.exact ethCfg (roughState dupInstr) (exReq 2 (some (5 / 100)))).1 = .ok (.trade [⟨5 / 100, 2⟩] (6 / 10000)) := by
  decide +kernel
example : (buy DCtx.exact ethCfg (roughState dupInstr) (exReq 2 (some (5 / 100)))).2.cash = 100 - (2 * (5 / 100) + 6 / 10000) := by
  decide +kernel
example : ((buy DCtx.exact ethCfg (roughState dupInstr) (exReq 8 none)).2.book.map (fun i => i.asks)) = [[⟨5 / 100, 4, true⟩]] := by
  decide +kernel
example : BookNonneg (roughState roughInstr).book := by
  intro i hi
  simp only [roughState, List.mem_singleton] at hi
  subst hi
  refine ⟨?_, ?_⟩ <;> (intro l hl; simp only [roughInstr, List.mem_cons, List.not_mem_nil, or_false] at hl;
                        rcases hl with rfl | rfl | rfl | rfl <;> norm_num)
end

end Demeter
