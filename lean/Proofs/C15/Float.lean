/-
  C15 under real float semantics — the fill-total theorem does not need floats to be real numbers: it holds for every
  float context that satisfies three sanity laws of IEEE-754 / CPython (`float(Decimal(repr(f))) == f`, `x - x == 0.0`,
  `repr(0.0)` reads as 0) as long as the Decimal sums involved are exact (they have far fewer than 35 digits).
  This is what makes the depth check of `check_transaction` and the fill loop of `_deduct_order_amount` agree after
  /repo's fix "check_transaction reads order sizes like the fill loop does".
-/
import Proofs.C15
namespace Demeter
open Demeter.Deribit

/-- the float laws the theorem needs (IEEE binary64 with CPython's shortest repr satisfies them) -/
structure Deribit.FloatSane (cx : DCtx) : Prop where
  rnd_id : ∀ x, cx.num.rnd x = x
  roundtrip : ∀ x, cx.toF (cx.reprD x) = cx.toF x
  sub_self : ∀ x, cx.fsub x x = 0
  repr_zero : cx.reprD 0 = 0

/-- the sizes as they print, summed -/
def Deribit.reprSum (cx : DCtx) (ls : List Level) : Rat := (ls.map (fun l => cx.reprD l.size)).sum

theorem Deribit.sumSizes_sane (cx : DCtx) (h : Deribit.FloatSane cx) (ls : List Level) : sumSizes cx ls = Deribit.reprSum cx ls := by
  unfold sumSizes Deribit.reprSum
  have : ∀ a : Rat, ls.foldl (fun acc l => cx.num.add acc (cx.reprD l.size)) a = a + (ls.map (fun l => cx.reprD l.size)).sum := by
    induction ls with
    | nil => simp
    | cons l ls ih =>
      intro a
      simp only [List.foldl_cons, List.map_cons, List.sum_cons]
      rw [ih]; simp only [NumCtx.add, h.rnd_id]; ring
  rw [this 0]; simp

/-- **fills exactly the requested amount — for real floats**: if the printed sizes are non-negative and the amount
    does not exceed their sum (exactly what the repaired `check_transaction` checks), the fills add up to the amount -/
theorem C15_market_fill_total_any_float (cx : DCtx) (h : Deribit.FloatSane cx) (ls : List Level) (amount : Rat)
    (hs : ∀ l ∈ ls, 0 ≤ cx.reprD l.size) (h0 : 0 ≤ amount) (hle : amount ≤ Deribit.reprSum cx ls) :
    fillSum (deductMarket cx amount ls) = amount := by
  induction ls generalizing amount with
  | nil =>
    simp [Deribit.reprSum] at hle
    simp [deductMarket, fillSum]; linarith
  | cons l ls ih =>
    have hl : 0 ≤ cx.reprD l.size := hs l List.mem_cons_self
    have hs' : ∀ x ∈ ls, 0 ≤ cx.reprD x.size := fun x hx => hs x (List.mem_cons_of_mem _ hx)
    have hsum : Deribit.reprSum cx (l :: ls) = cx.reprD l.size + Deribit.reprSum cx ls := by simp [Deribit.reprSum]
    unfold deductMarket
    by_cases hz : l.size = 0
    · simp only [hz, if_true]
      apply ih _ hs' h0
      rw [hsum, hz, h.repr_zero] at hle; linarith
    · simp only [hz, if_false]
      have hsub : cx.num.sub amount (min (cx.reprD l.size) amount) = amount - min (cx.reprD l.size) amount := by
        simp [NumCtx.sub, h.rnd_id]
      split
      · rename_i hc
        simp only [fillSum, List.map_cons, List.map_nil, List.sum_cons, List.sum_nil, add_zero]
        rcases hc with hc | hc
        · rcases min_choice (cx.reprD l.size) amount with hm | hm
          · -- the whole printed size was taken: float(size) - float(Decimal(repr(size))) = 0, not > 0
            rw [hm, h.roundtrip, h.sub_self] at hc
            exact absurd hc (lt_irrefl 0)
          · exact hm
        · rw [hsub] at hc; linarith
      · rename_i hc
        have hc2 : cx.num.sub amount (min (cx.reprD l.size) amount) ≠ 0 := fun e => hc (Or.inr e)
        rw [hsub] at hc2
        have hmin : min (cx.reprD l.size) amount = cx.reprD l.size := by
          rcases min_choice (cx.reprD l.size) amount with hm | hm
          · exact hm
          · exfalso; apply hc2; rw [hm]; ring
        simp only [fillSum, List.map_cons, List.sum_cons]
        have hrec := ih (cx.num.sub amount (min (cx.reprD l.size) amount)) hs'
          (by rw [hsub]; linarith [min_le_right (cx.reprD l.size) amount])
          (by rw [hsub, hmin]; rw [hsum] at hle; linarith)
        unfold fillSum at hrec
        rw [hrec, hsub]; ring

/-- the exact-real context is one such context (so the theorem above is not vacuous) … -/
example : Deribit.FloatSane DCtx.exact := ⟨fun _ => rfl, fun _ => rfl, fun x => by simp, rfl⟩

/-- … and on the float-residue book of the repaired defect the repaired depth check refuses 0.3 contracts
    (printed depth 0.09999999999999999 + 0.2), where the old check (exact binary values) let it through -/
example :
    let ls : List Level := [⟨29 / 1000, 9999999999999999 / 100000000000000000, true⟩, ⟨59 / 2000, 1 / 5, true⟩]
    ¬ ((3 : Rat) / 10 ≤ Deribit.reprSum DCtx.exact ls) := by decide +kernel

end Demeter
