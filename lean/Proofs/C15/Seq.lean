/-
  C15, sequences within a bar — whatever buys and sells (accepted or rejected) a strategy issues between two
  refreshes of the book, no level is ever drawn below zero, prices and level count never change, and each
  accepted order lowers the displayed sizes by exactly what it filled (exact arithmetic; book sides with
  non-negative sizes — they may be unsorted and repeat a price, orders are matched against the normalised side).
-/
import Proofs.C15
import Proofs.Lemmas.DeribitInv
namespace Demeter
open Demeter.Deribit

/-- **no level is overdrawn by one order**: after an accepted buy the asks are the normalised side (best first, one
    level per price) minus the fills; every level still shows a non-negative size, which is the old size minus what the
    fills took at that price — and the old size of a level is the total the raw data displays at that price -/
theorem C15_buy_never_overdraws (c : TokenCfg) (s s' : DState) (r : Req) (fills : List Fill) (fee : Rat)
    (hb : BookInv s.book) (h : buy DCtx.exact c s r = (.ok (.trade fills fee), s')) :
    ∃ ins, findInstr s.book r.name = some ins ∧
      s'.book = setAsks s.book r.name (newOrderList DCtx.exact (normSide DCtx.exact true ins.asks) fills) ∧
      (newOrderList DCtx.exact (normSide DCtx.exact true ins.asks) fills).map (·.size) =
        (normSide DCtx.exact true ins.asks).map (fun l => l.size - taken fills l.price) ∧
      (∀ l ∈ normSide DCtx.exact true ins.asks, taken fills l.price ≤ l.size ∧ l.size = rawAt ins.asks l.price) := by
  obtain ⟨ins, hfind, hbook⟩ := C15_buy_book DCtx.exact c s s' r fills fee h
  have hraw := (hb ins (findInstr_mem hfind)).1
  have hside : SideOk (normSide DCtx.exact true ins.asks) := sideOk_normSide hraw
  have hsizes := newOrderList_sizes _ fills hside.1
  refine ⟨ins, hfind, hbook, hsizes, ?_⟩
  -- the new book satisfies the invariant, so every new size is non-negative
  have hinv : BookInv s'.book := by
    have := step_bookInv c s (.buy r) hb
    simpa [step, h] using this
  intro l hl
  refine ⟨?_, normSide_size true ins.asks l hl⟩
  have hnew : ∀ x ∈ newOrderList DCtx.exact (normSide DCtx.exact true ins.asks) fills, 0 ≤ x.size := by
    have hmem : ({ ins with asks := newOrderList DCtx.exact (normSide DCtx.exact true ins.asks) fills } : Instr) ∈ s'.book := by
      rw [hbook]
      unfold setAsks
      apply List.mem_map.mpr
      refine ⟨ins, findInstr_mem hfind, ?_⟩
      have hname : ins.name = r.name := by
        have := List.find?_some hfind; simpa using this
      simp [hname]
    exact (hinv _ hmem).1
  have hx : l.size - taken fills l.price ∈ (newOrderList DCtx.exact (normSide DCtx.exact true ins.asks) fills).map (·.size) := by
    rw [hsizes]; exact List.mem_map.mpr ⟨l, hl, rfl⟩
  obtain ⟨l', hl', hs⟩ := List.mem_map.mp hx
  have := hnew l' hl'
  rw [hs] at this
  linarith

/-- **fills shrink the visible book until it is next refreshed, and never below zero**: along any sequence of
    operations inside a bar the book keeps non-negative sizes (the raw sides may be unsorted and repeat prices) -/
theorem C15_levels_never_overdrawn_in_a_bar (c : TokenCfg) (ops : List Op) (s : DState) (hb : BookInv s.book) :
    BookInv (runOps DCtx.exact c s ops).book ∧ BookNonneg (runOps DCtx.exact c s ops).book :=
  ⟨runOps_bookInv c ops s hb, bookInv_nonneg (runOps_bookInv c ops s hb)⟩

/-- … so the hypothesis of the fill-total theorems (non-negative displayed sizes) holds for *every* order of
    the sequence, not only the first: each accepted market buy in a bar fills exactly its rounded amount -/
theorem C15_every_order_of_a_sequence_fills_exactly (c : TokenCfg) (pre : List Op) (s s' : DState) (r : Req)
    (fills : List Fill) (fee : Rat) (hb : BookInv s.book) (hp : r.priceTok = none ∧ r.priceUsd = none)
    (h : buy DCtx.exact c (runOps DCtx.exact c s pre) r = (.ok (.trade fills fee), s')) :
    fillSum fills = roundDec c.tradeExp r.amount :=
  C15_buy_market_fills_rounded_amount c _ s' r fills fee (C15_levels_never_overdrawn_in_a_bar c pre s hb).2 hp h


/-! ### non-vacuity: the book of C15's examples satisfies the invariant; two market buys in a bar -/
example : BookInv Deribit.exState.book := by
  intro i hi
  simp only [Deribit.exState, List.mem_singleton] at hi
  subst hi
  refine ⟨?_, ?_⟩ <;>
    (intro l hl; simp only [Deribit.exInstr, List.mem_cons, List.not_mem_nil, or_false] at hl; rcases hl with rfl | rfl | rfl <;> norm_num)
example : ((runOps DCtx.exact ethCfg Deribit.exState
      [.buy (Deribit.exReq (19 / 2) none), .buy (Deribit.exReq 601 none)]).book.map (fun i => i.asks.map (·.size))) = [[0, 0, 196]] := by
  decide +kernel

end Demeter
