/-
  C15, the bid side — an accepted sell rewrites the bids of its instrument (and nothing else of the book) to the
  normalised bids minus the fills; no bid level is drawn below zero; and inside a bar every accepted sell, whatever
  went before it, fills exactly its rounded amount.  Mirrors of `C15_buy_book`, `C15_buy_never_overdraws`,
  `C15_every_order_of_a_sequence_fills_exactly` (exact arithmetic; raw sides may be unsorted and repeat a price).
-/
import Proofs.C15.Seq
import Proofs.C15.Limit
namespace Demeter
open Demeter.Deribit

/-- the book an accepted sell leaves is the old book with the bids of that instrument rewritten: the normalised side
    (best first, one level per price) minus the fills; the asks of every instrument are untouched (every context) -/
theorem C15_sell_book (cx : DCtx) (c : TokenCfg) (s s' : DState) (r : Req) (fills : List Fill) (fee : Rat)
    (h : sell cx c s r = (.ok (.trade fills fee), s')) :
    ∃ ins, findInstr s.book r.name = some ins ∧
      s'.book = setBids s.book r.name (newOrderList cx (normSide cx false ins.bids) fills) ∧
      s'.book.map (·.asks) = s.book.map (·.asks) := by
  obtain ⟨_, ck, _, _, hck, _, _, _, fills', _, _, _, _, _, hres, hs'⟩ := sell_ok h
  simp only [Res.trade.injEq] at hres
  obtain ⟨rfl, _⟩ := hres
  obtain ⟨⟨ins0, hfind, hnorm⟩, _⟩ := checkTx_ok hck
  refine ⟨ins0, hfind, by rw [hs', hnorm]; rfl, ?_⟩
  rw [hs']
  simp only [setBids, List.map_map]
  apply List.map_congr_left
  intro i _
  simp only [Function.comp]
  split <;> rfl

/-- **no bid is overdrawn by one order**: after an accepted sell the bids are the normalised side minus the fills; every
    level still shows a non-negative size, which is the old size minus what the fills took at that price — and the old
    size of a level is the total the raw data displays at that price -/
theorem C15_sell_never_overdraws (c : TokenCfg) (s s' : DState) (r : Req) (fills : List Fill) (fee : Rat)
    (hb : BookInv s.book) (h : sell DCtx.exact c s r = (.ok (.trade fills fee), s')) :
    ∃ ins, findInstr s.book r.name = some ins ∧
      s'.book = setBids s.book r.name (newOrderList DCtx.exact (normSide DCtx.exact false ins.bids) fills) ∧
      (newOrderList DCtx.exact (normSide DCtx.exact false ins.bids) fills).map (·.size) =
        (normSide DCtx.exact false ins.bids).map (fun l => l.size - taken fills l.price) ∧
      (newOrderList DCtx.exact (normSide DCtx.exact false ins.bids) fills).map (·.price) =
        (normSide DCtx.exact false ins.bids).map (·.price) ∧
      (∀ l ∈ normSide DCtx.exact false ins.bids, taken fills l.price ≤ l.size ∧ l.size = rawAt ins.bids l.price) := by
  obtain ⟨ins, hfind, hbook, _⟩ := C15_sell_book DCtx.exact c s s' r fills fee h
  have hraw := (hb ins (findInstr_mem hfind)).2
  have hside : SideOk (normSide DCtx.exact false ins.bids) := sideOk_normSide hraw
  have hsizes := newOrderList_sizes _ fills hside.1
  refine ⟨ins, hfind, hbook, hsizes, newOrderList_prices _ _ _, ?_⟩
  have hinv : BookInv s'.book := by
    have := step_bookInv c s (.sell r) hb
    simpa [step, h] using this
  intro l hl
  refine ⟨?_, normSide_size false ins.bids l hl⟩
  have hnew : ∀ x ∈ newOrderList DCtx.exact (normSide DCtx.exact false ins.bids) fills, 0 ≤ x.size := by
    have hmem : ({ ins with bids := newOrderList DCtx.exact (normSide DCtx.exact false ins.bids) fills } : Instr) ∈ s'.book := by
      rw [hbook]
      unfold setBids
      apply List.mem_map.mpr
      refine ⟨ins, findInstr_mem hfind, ?_⟩
      have hname : ins.name = r.name := by
        have := List.find?_some hfind; simpa using this
      simp [hname]
    exact (hinv _ hmem).2
  have hx : l.size - taken fills l.price ∈ (newOrderList DCtx.exact (normSide DCtx.exact false ins.bids) fills).map (·.size) := by
    rw [hsizes]; exact List.mem_map.mpr ⟨l, hl, rfl⟩
  obtain ⟨l', hl', hs⟩ := List.mem_map.mp hx
  have := hnew l' hl'
  rw [hs] at this
  linarith

/-- **each accepted sell in a bar — market or limit, whatever buys and sells went before — fills exactly its rounded
    amount**: the non-negativity the fill-total theorem needs is an invariant of the bar -/
theorem C15_every_sell_of_a_sequence_fills_exactly (c : TokenCfg) (pre : List Op) (s s' : DState) (r : Req)
    (fills : List Fill) (fee : Rat) (hb : BookInv s.book)
    (h : sell DCtx.exact c (runOps DCtx.exact c s pre) r = (.ok (.trade fills fee), s')) :
    fillSum fills = roundDec c.tradeExp r.amount :=
  C15_sell_fills_rounded_amount c _ s' r fills fee (C15_levels_never_overdrawn_in_a_bar c pre s hb).2 h

/-- the same for buys, limit orders included (`C15_every_order_of_a_sequence_fills_exactly` is the market case) -/
theorem C15_every_buy_of_a_sequence_fills_exactly (c : TokenCfg) (pre : List Op) (s s' : DState) (r : Req)
    (fills : List Fill) (fee : Rat) (hb : BookInv s.book)
    (h : buy DCtx.exact c (runOps DCtx.exact c s pre) r = (.ok (.trade fills fee), s')) :
    fillSum fills = roundDec c.tradeExp r.amount :=
  C15_buy_fills_rounded_amount c _ s' r fills fee (C15_levels_never_overdrawn_in_a_bar c pre s hb).2 h

/-- … and a sell inside the sequence draws no bid below zero either -/
theorem C15_sell_in_a_sequence_never_overdraws (c : TokenCfg) (pre : List Op) (s s' : DState) (r : Req)
    (fills : List Fill) (fee : Rat) (hb : BookInv s.book)
    (h : sell DCtx.exact c (runOps DCtx.exact c s pre) r = (.ok (.trade fills fee), s')) :
    ∃ ins, findInstr (runOps DCtx.exact c s pre).book r.name = some ins ∧
      s'.book = setBids (runOps DCtx.exact c s pre).book r.name
        (newOrderList DCtx.exact (normSide DCtx.exact false ins.bids) fills) ∧
      ∀ l ∈ normSide DCtx.exact false ins.bids, taken fills l.price ≤ l.size := by
  obtain ⟨ins, hf, hbk, _, _, hl⟩ :=
    C15_sell_never_overdraws c _ s' r fills fee (C15_levels_never_overdrawn_in_a_bar c pre s hb).1 h
  exact ⟨ins, hf, hbk, fun l hl' => (hl l hl').1⟩

/-! ### non-vacuity: buy 60, then sell 55 (51 @ 0.028, 4 @ 0.0275): bids 51/585 become 0/581; asks as the buy left them -/
example : (sell DCtx.exact ethCfg (runOps DCtx.exact ethCfg Deribit.exState [.buy (Deribit.exReq 60 none)])
      (Deribit.exReq 55 none)).1 = .ok (.trade [⟨28 / 1000, 51⟩, ⟨55 / 2000, 4⟩] (165 / 10000)) := by decide +kernel
example : ((runOps DCtx.exact ethCfg Deribit.exState
      [.buy (Deribit.exReq 60 none), .sell (Deribit.exReq 55 none)]).book.map (fun i => (i.asks.map (·.size), i.bids.map (·.size)))) =
    [([0, 550, 197], [0, 581])] := by decide +kernel

end Demeter
