/-
  C14, the `update` loop over all vaults — a vault at or above 1.5× is never touched, every vault below 1.5× is
  handed to `liquidate` with the entry and status it had when `update` started: liquidating one vault does not
  change another (they never share an LP position — the reachable-state invariant `Once` of C01).  Every context.
-/
import Proofs.Lemmas.SqueethOnce
namespace Demeter
namespace Squeeth
open Gen

/-- `s'` differs from `s` at most in vault `vk` and in position `pos?` (wallet and log are free) -/
structure FrameExcept (vk : Nat) (pos? : Option PosKey) (s s' : State) : Prop where
  v : ∀ k, k ≠ vk → AList.get? s'.vaults k = AList.get? s.vaults k
  p : ∀ q, some q ≠ pos? → AList.get? s'.positions q = AList.get? s.positions q

theorem FrameExcept.refl (vk : Nat) (pos? : Option PosKey) (s : State) : FrameExcept vk pos? s s := ⟨fun _ _ => rfl, fun _ _ => rfl⟩

theorem FrameExcept.trans {vk : Nat} {pos? : Option PosKey} {a b c : State} (h1 : FrameExcept vk pos? a b) (h2 : FrameExcept vk pos? b c) :
    FrameExcept vk pos? a c := ⟨fun k hk => (h2.v k hk).trans (h1.v k hk), fun q hq => (h2.p q hq).trans (h1.p q hq)⟩

theorem frame_setVault (vk : Nat) (pos? : Option PosKey) (s : State) (v : Vault) : FrameExcept vk pos? s (s.setVault vk v) :=
  ⟨fun k hk => by simp only [State.setVault, get?_set_other _ _ _ _ hk], fun _ _ => rfl⟩

theorem frame_wallet_log (vk : Nat) (pos? : Option PosKey) (s s' : State) (hv : s'.vaults = s.vaults) (hp : s'.positions = s.positions) :
    FrameExcept vk pos? s s' := ⟨fun _ _ => by rw [hv], fun _ _ => by rw [hp]⟩

theorem frame_liquidateInner (cx : NumCtx) (e : Env) (s : State) (vk : Nat) (pos? : Option PosKey) (m : Rat) :
    FrameExcept vk pos? s (liquidateInner cx e s vk m).st := by
  unfold liquidateInner
  cases AList.get? s.vaults vk with
  | none => exact FrameExcept.refl _ _ _
  | some v =>
    simp only []
    generalize liquidationResult cx e m v.short v.coll = r
    by_cases hlt : m < r.1
    · simp only [hlt, if_true]; exact FrameExcept.refl _ _ _
    · simp only [hlt, if_false]
      have h1 := frame_setVault vk pos? s { v with short := cx.sub v.short r.1, coll := cx.sub v.coll r.2 }
      generalize s.setVault vk { v with short := cx.sub v.short r.1, coll := cx.sub v.coll r.2 } = s1 at h1 ⊢
      cases vaultStatus cx e s1 vk with
      | error er => exact h1
      | ok p =>
        obtain ⟨a, d⟩ := p
        simp only []
        cases d with
        | true => exact h1
        | false => exact h1.trans (frame_wallet_log _ _ _ _ rfl rfl)

theorem frame_reduceDebtBody (cx : NumCtx) (e : Env) (s : State) (vk : Nat) (pb : Bool) (v : Vault)
    (hv : AList.get? s.vaults vk = some v) : FrameExcept vk v.nft s (reduceDebtBody cx e s vk pb).1.st := by
  unfold reduceDebtBody
  simp only [hv]
  cases hn : v.nft with
  | none => exact FrameExcept.refl _ _ _
  | some pos =>
    simp only []
    cases hp : AList.get? s.positions pos with
    | none => exact FrameExcept.refl _ _ _
    | some p =>
      simp only []
      by_cases ht : p.transferred = true
      · simp only [ht, Bool.not_true, Bool.false_eq_true, if_false]
        obtain ⟨fv, _, fo, _⟩ := uniRedeem_frame cx e (s.setPos pos { p with transferred := false }) pos false
        generalize uniRedeem cx e (s.setPos pos { p with transferred := false }) pos false = u at fv fo ⊢
        obtain ⟨⟨er, s1, o⟩, f0, f1⟩ := u
        simp only [] at fv fo
        have h1 : FrameExcept vk (some pos) s s1 := by
          refine ⟨fun k _ => by rw [fv]; rfl, fun q hq => ?_⟩
          have hq' : q ≠ pos := fun he => hq (by rw [he])
          rw [fo q hq']; simp only [State.setPos, get?_set_other _ _ _ _ hq']
        cases er with
        | some er => exact h1
        | none =>
          simp only [Res.ok_st]
          split_ifs <;> exact (h1.trans (frame_setVault _ _ _ _)).trans (frame_wallet_log _ _ _ _ rfl rfl)
      · simp only [ht, Bool.not_false, if_true]; exact FrameExcept.refl _ _ _

theorem frame_liquidateBody (cx : NumCtx) (e : Env) (s : State) (vk : Nat) (v : Vault) (hv : AList.get? s.vaults vk = some v) :
    FrameExcept vk v.nft s (liquidateBody cx e s vk).st := by
  unfold liquidateBody
  simp only [hv]
  cases vaultStatus cx e s vk with
  | error er => exact FrameExcept.refl _ _ _
  | ok p =>
    obtain ⟨safe, d⟩ := p
    simp only []
    cases safe with
    | true => exact FrameExcept.refl _ _ _
    | false =>
      simp only [Bool.false_eq_true, if_false]
      have h1 := frame_reduceDebtBody cx e s vk true v hv
      generalize (reduceDebtBody cx e s vk true).1 = r at h1 ⊢
      generalize (reduceDebtBody cx e s vk true).2 = b
      unfold Res.andThen
      cases r.err with
      | some er => exact h1
      | none =>
        simp only []
        cases vaultStatus cx e r.st vk with
        | error er => exact h1
        | ok p =>
          obtain ⟨safe1, d1⟩ := p
          simp only []
          cases safe1 with
          | true => exact h1
          | false =>
            simp only [Bool.false_eq_true, if_false]
            cases AList.get? r.st.vaults vk with
            | none => exact h1
            | some w => exact (h1.trans (frame_setVault _ _ _ _)).trans (frame_liquidateInner cx e _ vk _ _)

theorem frame_liquidateOp (cx : NumCtx) (e : Env) (s : State) (vk : Nat) (v : Vault) (hv : AList.get? s.vaults vk = some v) :
    FrameExcept vk v.nft s (liquidateOp cx e s vk).st := by
  unfold liquidateOp atomic
  cases (liquidateBody cx e s vk).err with
  | some er => exact FrameExcept.refl _ _ _
  | none => exact frame_liquidateBody cx e s vk v hv

/-- the status of a vault only depends on the vault itself and on the position it references -/
theorem vaultStatus_frame (cx : NumCtx) (e : Env) (s s' : State) (k : Nat)
    (hv : AList.get? s'.vaults k = AList.get? s.vaults k)
    (hp : ∀ w q, AList.get? s.vaults k = some w → w.nft = some q → AList.get? s'.positions q = AList.get? s.positions q) :
    vaultStatus cx e s' k = vaultStatus cx e s k := by
  unfold vaultStatus effColl posAmount
  rw [hv]
  cases hg : AList.get? s.vaults k with
  | none => rfl
  | some w =>
    simp only []
    cases hn : w.nft with
    | none => rfl
    | some q => simp only [hp w q hg hn]


theorem liquidateOp_once (cx : NumCtx) (e : Env) (s : State) (k : Nat) (h : Once s) : Once (liquidateOp cx e s k).st :=
  atomic_once _ _ h (liquidateBody_once cx e s k h)

/-- liquidating vault `k` leaves every other vault and its status alone -/
theorem liquidateOp_other (cx : NumCtx) (e : Env) (s : State) (h : Once s) (k vk : Nat) (hk : vk ≠ k) :
    AList.get? (liquidateOp cx e s k).st.vaults vk = AList.get? s.vaults vk ∧
    vaultStatus cx e (liquidateOp cx e s k).st vk = vaultStatus cx e s vk := by
  cases hg : AList.get? s.vaults k with
  | none =>
    have : (liquidateOp cx e s k).st = s := by
      unfold liquidateOp atomic liquidateBody; simp only [hg]; rfl
    rw [this]; exact ⟨rfl, rfl⟩
  | some w =>
    have f := frame_liquidateOp cx e s k w hg
    refine ⟨f.v vk hk, vaultStatus_frame cx e s _ vk (f.v vk hk) ?_⟩
    intro v q hv hn
    apply f.p q
    intro he
    exact hk (h.inj vk k v w q hv hg hn he.symm)

end Squeeth

open Squeeth

/-- **`update` never touches a vault that is at or above 1.5×** — wherever it stands in the loop, whatever happens to
    the other vaults (liquidated, LP redeemed, or an exception ending the loop): its entry and its status are the same
    afterwards.  (`Once`: the reachable-state invariant of C01 — no two vaults share an LP position.) -/
theorem C14_update_leaves_safe_vaults_alone (cx : NumCtx) (e : Env) (ks : List Nat) (s : State) (h : Once s) (vk : Nat) (d : Bool)
    (hs : vaultStatus cx e s vk = .ok (true, d)) :
    AList.get? (updateGo (liquidateOp cx e) cx e ks s).st.vaults vk = AList.get? s.vaults vk ∧
    vaultStatus cx e (updateGo (liquidateOp cx e) cx e ks s).st vk = .ok (true, d) := by
  induction ks generalizing s with
  | nil => exact ⟨rfl, hs⟩
  | cons k rest ih =>
    rw [updateGo]
    cases hk : vaultStatus cx e s k with
    | error er => exact ⟨rfl, hs⟩
    | ok p =>
      obtain ⟨safe, dk⟩ := p
      simp only []
      cases safe with
      | true => simp only [if_true]; exact ih s h hs
      | false =>
        simp only [Bool.false_eq_true, if_false]
        have hne : vk ≠ k := by
          intro he; subst he; rw [hs] at hk; cases hk
        obtain ⟨fv, fs⟩ := liquidateOp_other cx e s h k vk hne
        unfold Res.andThen
        cases (liquidateOp cx e s k).err with
        | some er => exact ⟨fv, by rw [fs]; exact hs⟩
        | none =>
          simp only []
          obtain ⟨i1, i2⟩ := ih _ (liquidateOp_once cx e s k h) (by rw [fs]; exact hs)
          exact ⟨i1.trans fv, i2⟩

/-- **`update` liquidates every vault that is below 1.5×**: if the loop completes, each unsafe vault `vk` was handed to
    `liquidate` in a state `t` in which it and its status were still as at the start of `update`, that call was
    accepted, and what it left in the vault is what `update` leaves there -/
theorem C14_update_liquidates_unsafe_vaults (cx : NumCtx) (e : Env) (ks : List Nat) (s : State) (h : Once s) (hnd : ks.Nodup)
    (vk : Nat) (hmem : vk ∈ ks) (d : Bool) (hs : vaultStatus cx e s vk = .ok (false, d))
    (hok : (updateGo (liquidateOp cx e) cx e ks s).err = none) :
    ∃ t, Once t ∧ AList.get? t.vaults vk = AList.get? s.vaults vk ∧ vaultStatus cx e t vk = .ok (false, d) ∧
      (liquidateOp cx e t vk).err = none ∧
      AList.get? (updateGo (liquidateOp cx e) cx e ks s).st.vaults vk = AList.get? (liquidateOp cx e t vk).st.vaults vk := by
  induction ks generalizing s with
  | nil => cases hmem
  | cons k rest ih =>
    rw [updateGo] at hok ⊢
    have hnd' : rest.Nodup := (List.nodup_cons.mp hnd).2
    have hknot : k ∉ rest := (List.nodup_cons.mp hnd).1
    by_cases hkv : k = vk
    · -- it is this vault's turn
      subst hkv
      simp only [hs, Bool.false_eq_true, if_false] at hok ⊢
      obtain ⟨h1, _, e2⟩ := Res.andThen_ok hok
      rw [e2]
      refine ⟨s, h, rfl, hs, h1, ?_⟩
      -- the rest of the loop does not come back to `k`
      have rest_frame : ∀ (l : List Nat) (u : State), k ∉ l → Once u →
          AList.get? (updateGo (liquidateOp cx e) cx e l u).st.vaults k = AList.get? u.vaults k := by
        intro l
        induction l with
        | nil => intro u _ _; rfl
        | cons j l ihl =>
          intro u hj hu
          rw [updateGo]
          have hjk : k ≠ j := fun he => hj (by rw [he]; exact List.mem_cons_self)
          have hjl : k ∉ l := fun hm => hj (List.mem_cons_of_mem _ hm)
          cases vaultStatus cx e u j with
          | error er => rfl
          | ok p =>
            obtain ⟨sf, dj⟩ := p
            simp only []
            cases sf with
            | true => simp only [if_true]; exact ihl u hjl hu
            | false =>
              simp only [Bool.false_eq_true, if_false]
              unfold Res.andThen
              cases (liquidateOp cx e u j).err with
              | some er => exact (liquidateOp_other cx e u hu j k hjk).1
              | none =>
                simp only []
                exact (ihl _ hjl (liquidateOp_once cx e u j hu)).trans (liquidateOp_other cx e u hu j k hjk).1
      exact rest_frame rest _ hknot (liquidateOp_once cx e s k h)
    · have hmem' : vk ∈ rest := by
        rcases List.mem_cons.mp hmem with he | hm
        · exact absurd he.symm hkv
        · exact hm
      cases hk : vaultStatus cx e s k with
      | error er => simp [hk] at hok
      | ok p =>
        obtain ⟨safe, dk⟩ := p
        simp only [hk] at hok ⊢
        cases safe with
        | true =>
          simp only [if_true] at hok ⊢
          exact ih s h hnd' hmem' hs hok
        | false =>
          simp only [Bool.false_eq_true, if_false] at hok ⊢
          obtain ⟨h1, _, e2⟩ := Res.andThen_ok hok
          rw [e2] at hok ⊢
          obtain ⟨fv, fs⟩ := liquidateOp_other cx e s h k vk (Ne.symm hkv)
          obtain ⟨t, ht, htv, hts, htl, hfin⟩ := ih _ (liquidateOp_once cx e s k h) hnd' hmem' (by rw [fs]; exact hs) hok
          exact ⟨t, ht, htv.trans fv, hts, htl, hfin⟩

end Demeter
