/-
  C14, TWAP window — which rows of `self.data` enter `get_twap_price` (the geometric mean itself is the oracle
  `Env.mean`): the trailing seven one-minute points ending at the current bar, fewer at the start of the data,
  the spot value when the market status carries no timestamp.
-/
import Proofs.Lemmas.Squeeth
import Mathlib.Tactic.Linarith
import Mathlib.Tactic.NormNum
namespace Demeter
open Squeeth Gen

/-- the generated constants are the numbers the property names: 7 points, 0.5 ETH, 3/2, 2 %, 10 %, 1e4, halves -/
theorem C14_constants :
    sqTwapPeriod = 7 ∧ sqTwapBack = 1 ∧ sqMinDeposit = 1 / 2 ∧ sqCrNum = 3 ∧ sqCrDen = 2 ∧
    sqReduceDebtBounty = 2 / 100 ∧ sqLiquidationBounty = 1 / 10 ∧ sqIndexScale = 10000 ∧ sqLiqDivisor = 2 := by
  refine ⟨rfl, rfl, ?_, rfl, rfl, ?_, ?_, rfl, rfl⟩ <;> norm_num [sqMinDeposit, sqReduceDebtBounty, sqLiquidationBounty]

namespace Squeeth

/-- rows on a one-minute grid starting at `t0` -/
def minuteGrid (t0 : Int) : List Row → Prop
  | [] => True
  | r :: rest => r.t = t0 ∧ minuteGrid (t0 + 1) rest

/-- strictly ascending timestamps, all at or after `a` -/
def ascendingFrom (a : Int) : List Row → Prop
  | [] => True
  | r :: rest => a ≤ r.t ∧ ascendingFrom (r.t + 1) rest

theorem filter_grid_above (l : List Row) (t0 a b : Int) (hg : minuteGrid t0 l) (hb : b < t0) :
    l.filter (fun r => decide (a ≤ r.t) && decide (r.t ≤ b)) = [] := by
  induction l generalizing t0 with
  | nil => rfl
  | cons r rest ih =>
    obtain ⟨h0, hr⟩ := hg
    have : ¬ r.t ≤ b := by omega
    simp only [List.filter, this, decide_false, Bool.and_false]
    exact ih (t0 + 1) hr (by omega)

theorem filter_grid_take (l : List Row) (t0 a b : Int) (hg : minuteGrid t0 l) (ha : a ≤ t0) :
    l.filter (fun r => decide (a ≤ r.t) && decide (r.t ≤ b)) = l.take (b - t0 + 1).toNat := by
  induction l generalizing t0 with
  | nil => simp
  | cons r rest ih =>
    obtain ⟨h0, hr⟩ := hg
    by_cases hb : b < t0
    · rw [filter_grid_above (r :: rest) t0 a b ⟨h0, hr⟩ hb]
      have : (b - t0 + 1).toNat = 0 := by omega
      rw [this]; rfl
    · have h1 : a ≤ r.t := by omega
      have h2 : r.t ≤ b := by omega
      simp only [List.filter, h1, h2, decide_true, Bool.and_self]
      have : (b - t0 + 1).toNat = (b - (t0 + 1) + 1).toNat + 1 := by omega
      rw [this, List.take_succ_cons, ih (t0 + 1) hr (by omega)]

theorem filter_grid_drop_take (l : List Row) (t0 b : Int) (i : Nat) (hg : minuteGrid t0 l) :
    l.filter (fun r => decide (t0 + i ≤ r.t) && decide (r.t ≤ b)) = (l.drop i).take (b - (t0 + i) + 1).toNat := by
  induction i generalizing l t0 with
  | zero => simpa using filter_grid_take l t0 (t0 + (0 : Nat)) b hg (by simp)
  | succ i ih =>
    cases l with
    | nil => simp
    | cons r rest =>
      obtain ⟨h0, hr⟩ := hg
      have h1 : ¬ (t0 + ((i + 1 : Nat) : Int) ≤ r.t) := by omega
      simp only [List.filter, h1, decide_false, Bool.false_and, List.drop_succ_cons]
      have e1 : t0 + ((i + 1 : Nat) : Int) = (t0 + 1) + (i : Int) := by omega
      rw [e1]
      exact ih rest (t0 + 1) hr

theorem filter_ascending_length (l : List Row) (a b : Int) (h : ascendingFrom a l) :
    (l.filter (fun r => decide (r.t ≤ b))).length ≤ (b - a + 1).toNat := by
  induction l generalizing a with
  | nil => simp
  | cons r rest ih =>
    obtain ⟨h0, hr⟩ := h
    have hrest := ih (r.t + 1) hr
    by_cases hb : r.t ≤ b
    · simp only [List.filter, hb, decide_true, List.length_cons]
      omega
    · simp only [List.filter, hb, decide_false]
      have : (b - (r.t + 1) + 1).toNat = 0 := by omega
      omega

theorem ascendingFrom_mono (l : List Row) (a a' : Int) (h : ascendingFrom a l) (ha : a' ≤ a) : ascendingFrom a' l := by
  cases l with
  | nil => trivial
  | cons r rest => exact ⟨by have := h.1; omega, h.2⟩

theorem filter_ascending_drop (l : List Row) (a b lo : Int) (h : ascendingFrom a l) :
    (l.filter (fun r => decide (lo ≤ r.t) && decide (r.t ≤ b))).length ≤ (b - lo + 1).toNat := by
  induction l generalizing a with
  | nil => simp
  | cons r rest ih =>
    obtain ⟨h0, hr⟩ := h
    by_cases hlo : lo ≤ r.t
    · -- from here on every row is at or after `lo`
      have hasc : ascendingFrom lo (r :: rest) := ⟨hlo, hr⟩
      have e : (r :: rest).filter (fun r => decide (lo ≤ r.t) && decide (r.t ≤ b))
             = ((r :: rest).filter (fun r => decide (lo ≤ r.t))).filter (fun r => decide (r.t ≤ b)) := by
        rw [List.filter_filter]; congr 1; funext x; exact Bool.and_comm _ _
      have hall : (r :: rest).filter (fun r => decide (lo ≤ r.t)) = r :: rest := by
        apply List.filter_eq_self.mpr
        intro x hx
        have : ∀ (l : List Row) (c : Int), ascendingFrom c l → ∀ x ∈ l, c ≤ x.t := by
          intro l
          induction l with
          | nil => intro c _ x hx; cases hx
          | cons y ys ihy =>
            intro c hc x hx
            rcases List.mem_cons.mp hx with rfl | hx
            · exact hc.1
            · have := ihy (y.t + 1) hc.2 x hx; have := hc.1; omega
        exact decide_eq_true (this _ lo hasc x hx)
      rw [e, hall]
      exact filter_ascending_length (r :: rest) lo b hasc
    · simp only [List.filter, hlo, decide_false, Bool.false_and]
      exact ih (r.t + 1) hr

end Squeeth
open Squeeth

/-- with `timestamp = None` (the unit tests) the TWAP is the spot value of the current row -/
theorem C14_twap_spot_without_timestamp (e : Env) (tok : Tok) (h : e.now = none) : twap e tok = e.spot tok := by
  unfold twap; rw [h]

/-- **window selection on one-minute data**: at the `k`-th bar (0-based) of data on a one-minute grid the prices
    handed to the mean are exactly `rows[max 0 (k−6) … k]` — the seven points ending at the current bar, or all
    `k+1` points when fewer than seven exist. -/
theorem C14_twap_window_is_trailing_seven (e : Env) (t0 : Int) (k : Nat)
    (hg : minuteGrid t0 e.rows) (hk : k < e.rows.length) :
    window e (t0 + k) = (e.rows.drop (k - 6)).take (min (k + 1) 7) ∧
    (window e (t0 + k)).length = min (k + 1) 7 := by
  have hw : window e (t0 + k) = (e.rows.drop (k - 6)).take (min (k + 1) 7) := by
    unfold window
    cases hrows : e.rows with
    | nil => rw [hrows] at hk; simp at hk
    | cons r rest =>
      rw [hrows] at hg
      have hs : winStart e (t0 + k) = t0 + ((k - 6 : Nat) : Int) := by
        unfold winStart
        simp only [hrows, List.head?_cons, C14_constants.1, C14_constants.2.1, hg.1]
        split <;> omega
      rw [hs, filter_grid_drop_take (r :: rest) t0 (t0 + k) (k - 6) hg]
      congr 1; omega
  refine ⟨hw, ?_⟩
  rw [hw, List.length_take, List.length_drop]; omega

/-- the value `get_twap_price` returns on one-minute data: the oracle mean of those (at most seven) prices -/
theorem C14_twap_on_minute_grid (e : Env) (t0 : Int) (k : Nat) (tok : Tok)
    (hg : minuteGrid t0 e.rows) (hk : k < e.rows.length) (hnow : e.now = some (t0 + k)) :
    twap e tok = e.mean (((e.rows.drop (k - 6)).take (min (k + 1) 7)).map (fun r => r.price tok)) := by
  unfold twap; rw [hnow]; simp only []; rw [(C14_twap_window_is_trailing_seven e t0 k hg hk).1]

/-- on any strictly ascending data (coarser or irregular grids included) at most seven points enter, all of them
    within the six minutes before the current bar -/
theorem C14_twap_window_at_most_seven (e : Env) (a now : Int) (h : ascendingFrom a e.rows) :
    (window e now).length ≤ 7 ∧ ∀ r ∈ window e now, now - 6 ≤ r.t ∧ r.t ≤ now := by
  constructor
  · unfold window
    have := filter_ascending_drop e.rows a now (winStart e now) h
    have hs : now - 6 ≤ winStart e now := by
      unfold winStart
      simp only [C14_constants.1, C14_constants.2.1]
      split <;> (try split) <;> omega
    omega
  · intro r hr
    unfold window at hr
    have := (List.mem_filter.mp hr).2
    simp only [Bool.and_eq_true, decide_eq_true_eq] at this
    have hs : now - 6 ≤ winStart e now := by
      unfold winStart
      simp only [C14_constants.1, C14_constants.2.1]
      split <;> (try split) <;> omega
    omega

/-- every row of ascending data is at or after the first one -/
theorem Squeeth.ascending_head_le (l : List Row) (a : Int) (h : ascendingFrom a l) (r0 : Row) (h0 : l.head? = some r0) :
    ∀ r ∈ l, r0.t ≤ r.t := by
  cases l with
  | nil => cases h0
  | cons y ys =>
    simp only [List.head?_cons, Option.some.injEq] at h0
    subst h0
    have key : ∀ (l : List Row) (c : Int), ascendingFrom c l → ∀ x ∈ l, c ≤ x.t := by
      intro l
      induction l with
      | nil => intro c _ x hx; cases hx
      | cons z zs ihz =>
        intro c hc x hx
        rcases List.mem_cons.mp hx with rfl | hx
        · exact hc.1
        · have := ihz (z.t + 1) hc.2 x hx; have := hc.1; omega
    intro r hr
    rcases List.mem_cons.mp hr with rfl | hr
    · exact le_refl _
    · have := key ys (y.t + 1) h.2 r hr; omega

/-- **window selection for ANY bar spacing** (5-minute, hourly, irregular data, gaps): on strictly ascending data the prices
    that enter the mean at time `now` are exactly the rows whose timestamp lies in the trailing seven-minute window
    `[now − 6, now]` — selected by time, not by position —, in the order of the data.  (7 = `sqTwapPeriod`, the window reaches
    back `sqTwapPeriod − sqTwapBack` = 6 minutes.) -/
theorem C14_twap_window_any_spacing (e : Env) (a now : Int) (h : ascendingFrom a e.rows) :
    window e now = e.rows.filter (fun r => decide (now - 6 ≤ r.t) && decide (r.t ≤ now)) ∧
    (∀ r, r ∈ window e now ↔ r ∈ e.rows ∧ now - 6 ≤ r.t ∧ r.t ≤ now) ∧
    sqTwapPeriod = 7 ∧ (sqTwapPeriod : Int) - (sqTwapBack : Int) = 6 := by
  have hw : window e now = e.rows.filter (fun r => decide (now - 6 ≤ r.t) && decide (r.t ≤ now)) := by
    unfold window
    apply List.filter_congr
    intro r hr
    cases hh : e.rows.head? with
    | none =>
      have : winStart e now = now - 6 := by
        unfold winStart; simp only [hh, C14_constants.1, C14_constants.2.1]; omega
      rw [this]
    | some r0 =>
      have hle := Squeeth.ascending_head_le e.rows a h r0 hh r hr
      have hs : winStart e now = if now - 6 < r0.t then r0.t else now - 6 := by
        unfold winStart; simp only [hh, C14_constants.1, C14_constants.2.1]
        have : now - ((7 : Int) - 1) = now - 6 := by omega
        simp only [Nat.cast_ofNat, Nat.cast_one, this]
      rw [hs]
      by_cases hc : now - 6 < r0.t
      · rw [if_pos hc]
        by_cases hb : r.t ≤ now
        · have h1 : r0.t ≤ r.t := hle
          have h2 : now - 6 ≤ r.t := by omega
          simp [h1, h2, hb]
        · simp [hb]
      · rw [if_neg hc]
  refine ⟨hw, ?_, C14_constants.1, by simp only [C14_constants.1, C14_constants.2.1]; norm_num⟩
  intro r
  rw [hw, List.mem_filter]
  simp only [Bool.and_eq_true, decide_eq_true_eq]

/-! ### non-vacuity -/
example : minuteGrid 0 [⟨0, 1000, 100⟩, ⟨1, 1001, 101⟩, ⟨2, 1002, 102⟩] := ⟨rfl, rfl, rfl, trivial⟩
example : (window { nf := 1, weth := 1, osqth := 1, now := some 8, uniPrice := 1, uniOpen := true, mean := fun _ => 0,
                    rows := [⟨0, 1, 1⟩, ⟨1, 1, 1⟩, ⟨2, 1, 1⟩, ⟨3, 1, 1⟩, ⟨4, 1, 1⟩, ⟨5, 1, 1⟩, ⟨6, 1, 1⟩, ⟨7, 1, 1⟩,
                             ⟨8, 1, 1⟩, ⟨9, 1, 1⟩] } 8).map (·.t) = [2, 3, 4, 5, 6, 7, 8] := by
  decide

/-- a 5-minute grid: at minute 20 only the bars at 15 and 20 are inside the seven-minute window [14, 20] (by position, seven rows would be) -/
example : (window { nf := 1, weth := 1, osqth := 1, now := some 20, uniPrice := 1, uniOpen := true, mean := fun _ => 0,
                    rows := [⟨0, 1, 1⟩, ⟨5, 1, 1⟩, ⟨10, 1, 1⟩, ⟨15, 1, 1⟩, ⟨20, 1, 1⟩, ⟨25, 1, 1⟩] } 20).map (·.t) = [15, 20] := by
  decide
/-- irregular data with a gap: 13, 14 and 17 are inside [11, 17] -/
example : (window { nf := 1, weth := 1, osqth := 1, now := some 17, uniPrice := 1, uniOpen := true, mean := fun _ => 0,
                    rows := [⟨0, 1, 1⟩, ⟨1, 1, 1⟩, ⟨9, 1, 1⟩, ⟨13, 1, 1⟩, ⟨14, 1, 1⟩, ⟨17, 1, 1⟩, ⟨30, 1, 1⟩] } 17).map (·.t) = [13, 14, 17] := by
  decide

end Demeter
