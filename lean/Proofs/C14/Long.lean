/-
  C14, the long side — `buy_squeeth` / `sell_squeeth` trade with the oSQTH/WETH pool and never touch a vault: vaults, pool positions
  and the id counter are what they were, so is every vault's effective collateral and safety status (what `update` will liquidate does
  not change); an accepted trade moves exactly the stated oSQTH and WETH through the wallet.  (That no amount goes negative is
  `C14_amounts_never_negative`, which covers the two trades.)
-/
import Proofs.C14.Moves
import Mathlib.Tactic.FieldSimp
namespace Demeter
open Squeeth Gen

namespace Squeeth
theorem weth_ne_osqth' : sqWethName ≠ sqOsqthName := by decide
theorem osqth_ne_weth' : sqOsqthName ≠ sqWethName := by decide
end Squeeth

/-- **the long side never touches vaults**: after `buy_squeeth` / `sell_squeeth` — any arguments, accepted or rejected, any arithmetic
    context — the vaults, the pool's positions and the vault id counter are exactly what they were -/
theorem C14_trade_never_touches_vaults (cx : NumCtx) (e : Env) (s : State) (op : Op) (hop : op.isTrade = true) :
    (step cx e s op).st.vaults = s.vaults ∧ (step cx e s op).st.positions = s.positions ∧ (step cx e s op).st.maxId = s.maxId :=
  trade_frame cx e s op hop

/-- … hence every vault keeps its effective collateral and its (above water, dust) status: a trade neither makes a vault
    liquidatable nor rescues one, and the 150 % rule holds after it for exactly the vaults it held for before -/
theorem C14_trade_keeps_vault_status (cx : NumCtx) (e : Env) (s : State) (op : Op) (hop : op.isTrade = true) (vk : Nat) :
    effColl cx e (step cx e s op).st vk = effColl cx e s vk ∧ vaultStatus cx e (step cx e s op).st vk = vaultStatus cx e s vk ∧
    checkVault cx e (step cx e s op).st vk = checkVault cx e s vk := by
  obtain ⟨hv, hp, _⟩ := trade_frame cx e s op hop
  have h1 : effColl cx e (step cx e s op).st vk = effColl cx e s vk := by unfold effColl posAmount; rw [hv, hp]
  have h2 : vaultStatus cx e (step cx e s op).st vk = vaultStatus cx e s vk := by unfold vaultStatus; rw [hv, h1]
  exact ⟨h1, h2, by unfold checkVault; rw [h2]⟩

/-- the amount handed to the pool: the oSQTH amount if one is given (an ETH amount given with it is ignored), else the ETH amount
    divided by the squeeth row's oSQTH price, else nothing (the call then raises `TypeError`) -/
theorem C14_trade_amount_forms (e : Env) (x y : Rat) (q : Option Rat) (h0 : e.osqth ≠ 0) :
    longAmount NumCtx.exact e (some x) q = .ok (some x) ∧ longAmount NumCtx.exact e none (some y) = .ok (some (y / e.osqth)) ∧
    longAmount NumCtx.exact e none none = .ok none ∧
    (∀ s, (step NumCtx.exact e s (.buy none none)).err = some (.type "amount-none") ∧
          (step NumCtx.exact e s (.sell none none)).err = some (.type "amount-none")) := by
  refine ⟨rfl, by simp [longAmount, h0], rfl, fun s => ⟨rfl, rfl⟩⟩

/-- **buy**: an accepted `buy_squeeth` of `a ≠ 0` oSQTH at pool price `p` and fee rate `f` debits the wallet's WETH by
    `a·p/(1−f) ≥ 0` (`Asset.sub`: exactly, or to zero within dust — `C14_debit_exact_or_dust`), credits exactly `a` oSQTH, reports
    `(fee, spent, got) = (f·a·p/(1−f), a·p/(1−f), a)` and touches no other token; with `a = 0` nothing happens -/
theorem C14_buy_moves_exactly (e : Env) (s : State) (o q : Option Rat)
    (h : (step NumCtx.exact e s (.buy o q)).err = none) :
    ∃ a, longAmount NumCtx.exact e o q = .ok (some a) ∧
      (a = 0 → step NumCtx.exact e s (.buy o q) = .ok s [0, 0, 0]) ∧
      (a ≠ 0 → e.uniPrice ≠ 0 ∧ 1 - e.uniFee ≠ 0 ∧ 0 ≤ buyCost e a ∧
        ∃ b b', AList.get? s.wallet sqWethName = some b ∧ assetSub NumCtx.exact b (buyCost e a) false = some b' ∧
          AList.get? (step NumCtx.exact e s (.buy o q)).st.wallet sqWethName = some b' ∧
          bal (step NumCtx.exact e s (.buy o q)).st sqOsqthName = bal s sqOsqthName + a ∧
          (step NumCtx.exact e s (.buy o q)).out = [buyCost e a * e.uniFee, buyCost e a, a] ∧
          ∀ t, t ≠ sqWethName → t ≠ sqOsqthName →
            AList.get? (step NumCtx.exact e s (.buy o q)).st.wallet t = AList.get? s.wallet t) := by
  have hstep : step NumCtx.exact e s (.buy o q) = buySqueethOp NumCtx.exact e s o q := rfl
  rw [hstep] at h ⊢
  obtain ⟨a, hl, h0 | ⟨ha, hp, hf, hc, w1, _, _, hd, hw, hout, _⟩⟩ := buy_ok_exact e s o q h
  · exact ⟨a, hl, fun _ => h0.2, fun ha => absurd h0.1 ha⟩
  · refine ⟨a, hl, fun h0 => absurd h0 ha, fun _ => ⟨hp, hf, hc, ?_⟩⟩
    have hgot : (buyCost e a - buyCost e a * e.uniFee) * (1 / e.uniPrice) = a := by
      unfold buyCost; field_simp
    rw [hgot] at hw hout
    obtain ⟨b, b', hb, hsub, hb', hoth⟩ := debit_ok hd
    refine ⟨b, b', hb, hsub, ?_, ?_, hout, ?_⟩
    · rw [hw, get?_credit_other _ _ _ _ weth_ne_osqth']; exact hb'
    · unfold bal; rw [hw, get?_credit_self, hoth _ osqth_ne_weth']; rfl
    · intro t h1 h2; rw [hw, get?_credit_other _ _ _ _ h2]; exact hoth t h1

/-- **sell**: an accepted `sell_squeeth` of `a ≠ 0` oSQTH has `a ≥ 0`, debits the wallet's oSQTH by `a` (`Asset.sub`), credits exactly
    `a·(1−f)·p` WETH, reports `(fee, sold, got) = (f·a, a, a·(1−f)·p)` and touches no other token; with `a = 0` nothing happens -/
theorem C14_sell_moves_exactly (e : Env) (s : State) (o q : Option Rat)
    (h : (step NumCtx.exact e s (.sell o q)).err = none) :
    ∃ a, longAmount NumCtx.exact e o q = .ok (some a) ∧ 0 ≤ a ∧
      (a = 0 → step NumCtx.exact e s (.sell o q) = .ok s [0, 0, 0]) ∧
      (a ≠ 0 →
        ∃ b b', AList.get? s.wallet sqOsqthName = some b ∧ assetSub NumCtx.exact b a false = some b' ∧
          AList.get? (step NumCtx.exact e s (.sell o q)).st.wallet sqOsqthName = some b' ∧
          bal (step NumCtx.exact e s (.sell o q)).st sqWethName = bal s sqWethName + (a - a * e.uniFee) * e.uniPrice ∧
          (step NumCtx.exact e s (.sell o q)).out = [a * e.uniFee, a, (a - a * e.uniFee) * e.uniPrice] ∧
          ∀ t, t ≠ sqWethName → t ≠ sqOsqthName →
            AList.get? (step NumCtx.exact e s (.sell o q)).st.wallet t = AList.get? s.wallet t) := by
  have hstep : step NumCtx.exact e s (.sell o q) = sellSqueethOp NumCtx.exact e s o q := rfl
  rw [hstep] at h ⊢
  obtain ⟨a, hl, h0 | ⟨ha, ha0, w1, _, _, hd, hw, hout, _⟩⟩ := sell_ok_exact e s o q h
  · exact ⟨a, hl, by rw [h0.1], fun _ => h0.2, fun ha => absurd h0.1 ha⟩
  · refine ⟨a, hl, ha0, fun h0 => absurd h0 ha, fun _ => ?_⟩
    obtain ⟨b, b', hb, hsub, hb', hoth⟩ := debit_ok hd
    refine ⟨b, b', hb, hsub, ?_, ?_, hout, ?_⟩
    · rw [hw, get?_credit_other _ _ _ _ osqth_ne_weth']; exact hb'
    · unfold bal; rw [hw, get?_credit_self, hoth _ weth_ne_osqth']; rfl
    · intro t h1 h2; rw [hw, get?_credit_other _ _ _ _ h1]; exact hoth t h2

/-! ### non-vacuity -/
namespace Squeeth
def longEnv : Env := { nf := 1/2, weth := 2000, osqth := 1/10, now := none, rows := [], uniPrice := 1/10, uniOpen := true, mean := fun _ => 0 }
def longState : State := { wallet := [("WETH", 100), ("OSQTH", 5)], vaults := [(1, { coll := 3, short := 10, nft := none })], maxId := 1,
                           positions := [], log := [] }
end Squeeth
-- 997 oSQTH at 0.1 and a fee of 0.3 % cost exactly 100 WETH: accepted, the wallet ends with 0 WETH and 1002 oSQTH, the vault is untouched
example : (step NumCtx.exact longEnv longState (.buy (some 997) none)).err = none := by decide +kernel
example : (step NumCtx.exact longEnv longState (.buy (some 997) none)).st.wallet = [("WETH", 0), ("OSQTH", 1002)] := by decide +kernel
example : (step NumCtx.exact longEnv longState (.buy (some 997) none)).out = [3/10, 100, 997] := by decide +kernel
example : (step NumCtx.exact longEnv longState (.buy (some 997) none)).st.vaults = longState.vaults := by decide +kernel
-- one more oSQTH is refused, the same amount given as ETH (99.7 ETH / 0.1) is accepted
example : (step NumCtx.exact longEnv longState (.buy (some 998) none)).err = some (.uni .assertion) := by decide +kernel
example : (step NumCtx.exact longEnv longState (.buy none (some (997/10)))).out = [3/10, 100, 997] := by decide +kernel
-- selling the 5 oSQTH brings 5 · 0.997 · 0.1 WETH
example : (step NumCtx.exact longEnv longState (.sell (some 5) none)).st.wallet = [("WETH", 100 + 997/2000), ("OSQTH", 0)] := by decide +kernel
example : (step NumCtx.exact longEnv longState (.sell (some 6) none)).err = some (.uni .assertion) := by decide +kernel
example : PoolOk longEnv := ⟨by norm_num [longEnv], by norm_num [longEnv]⟩

end Demeter
