/-
  C14, exact movements — minting, burning, depositing and withdrawing move exactly the stated oSQTH and ETH between
  wallet and vault (`open_deposit_mint` = mint ; deposit ; LP deposit ; check and `burn_and_withdraw` = burn ;
  withdraw ; check are compositions of these four, see Demeter.Squeeth.openBody / burnWithdrawBody).
-/
import Proofs.Lemmas.SqueethInv
namespace Demeter
open Squeeth Gen

namespace Squeeth
/-- wallet balance of a token (0 when the wallet has no entry) -/
def bal (s : State) (tok : String) : Rat := (AList.get? s.wallet tok).getD 0

theorem get?_credit_self (w : Wallet) (tok : String) (amt : Rat) :
    AList.get? (Wallet.credit NumCtx.exact w tok amt) tok = some ((AList.get? w tok).getD 0 + amt) := by
  unfold Wallet.credit assetAdd
  cases hg : AList.get? w tok <;> simp [get?_set_self]

theorem get?_credit_other (w : Wallet) (tok tok' : String) (amt : Rat) (h : tok' ≠ tok) :
    AList.get? (Wallet.credit NumCtx.exact w tok amt) tok' = AList.get? w tok' := by
  unfold Wallet.credit
  cases hg : AList.get? w tok <;> simp [get?_set_other _ _ _ _ h]

/-- `Broker.subtract_from_balance` on an accepted call: the new balance is what `Asset.sub` answers, other tokens untouched -/
theorem debit_ok {w w' : Wallet} {tok : String} {amt : Rat} (h : Wallet.debit NumCtx.exact w tok amt false = .ok w') :
    ∃ b b', AList.get? w tok = some b ∧ assetSub NumCtx.exact b amt false = some b' ∧ AList.get? w' tok = some b' ∧
      ∀ t, t ≠ tok → AList.get? w' t = AList.get? w t := by
  unfold Wallet.debit at h
  cases hg : AList.get? w tok with
  | none => simp [hg] at h
  | some b =>
    simp only [hg] at h
    cases ha : assetSub NumCtx.exact b amt false with
    | none => simp [ha] at h
    | some b' =>
      simp only [ha, Except.ok.injEq] at h
      subst h
      exact ⟨b, b', rfl, ha, get?_set_self _ _ _, fun t ht => get?_set_other _ _ _ _ ht⟩
end Squeeth

/-- what an accepted wallet debit (`Asset.sub`) does: the exact difference, or zero when the remainder is dust
    (below 1e-5 of the balance — the float literal's exact binary value) -/
theorem C14_debit_exact_or_dust (b amt b' : Rat) (h : assetSub NumCtx.exact b amt false = some b') :
    (b' = b - amt ∧ 0 ≤ b - amt) ∨ (b' = 0 ∧ b ≠ 0 ∧ ratAbs ((b - amt) / b) < assetDust) ∨ (b' = b ∧ b = 0 ∧ amt = 0) ∨
    (b' = 0 ∧ b = 0 ∧ ratAbs ((0 - amt) / amt) < assetDust) := by
  unfold assetSub at h
  dsimp only [NumCtx.sub, NumCtx.div, NumCtx.exact, id_eq] at h
  simp only [Bool.false_eq_true, if_false] at h
  by_cases hb : b = 0
  · subst hb
    simp only [ne_eq, not_true_eq_false, if_false] at h
    by_cases ha : amt = 0
    · simp only [ha, if_true, Option.some.injEq] at h
      exact Or.inr (Or.inr (Or.inl ⟨h.symm, rfl, ha⟩))
    · simp only [ha, if_false] at h
      by_cases hd : ratAbs ((0 - amt) / amt) < assetDust
      · simp only [hd, if_true, Option.some.injEq] at h
        exact Or.inr (Or.inr (Or.inr ⟨h.symm, rfl, hd⟩))
      · simp only [hd, if_false] at h
        by_cases hn : (0 : Rat) - amt < 0
        · simp only [hn, if_true] at h; cases h
        · simp only [hn, if_false, Option.some.injEq] at h
          exact Or.inl ⟨h.symm, not_lt.mp hn⟩
  · simp only [ne_eq, hb, not_false_eq_true, if_true, if_false] at h
    by_cases hd : ratAbs ((b - amt) / b) < assetDust
    · simp only [hd, if_true, Option.some.injEq] at h
      exact Or.inr (Or.inl ⟨h.symm, hb, hd⟩)
    · simp only [hd, if_false] at h
      by_cases hn : b - amt < 0
      · simp only [hn, if_true] at h; cases h
      · simp only [hn, if_false, Option.some.injEq] at h
        exact Or.inl ⟨h.symm, not_lt.mp hn⟩

/-- **mint** (`open_deposit_mint` with `osqth_mint_amount > 0`): the vault's debt and the wallet's oSQTH both grow by
    exactly the minted amount; collateral, LP reference, other vaults, other tokens and the pool are untouched -/
theorem C14_mint_moves_exactly (s : State) (vk : Nat) (v : Vault) (m : Rat) (hm : 0 < m)
    (hv : AList.get? s.vaults vk = some v) :
    (mintBody NumCtx.exact s vk m).err = none ∧
    AList.get? (mintBody NumCtx.exact s vk m).st.vaults vk = some { v with short := v.short + m } ∧
    bal (mintBody NumCtx.exact s vk m).st sqOsqthName = bal s sqOsqthName + m ∧
    (∀ k, k ≠ vk → AList.get? (mintBody NumCtx.exact s vk m).st.vaults k = AList.get? s.vaults k) ∧
    (∀ t, t ≠ sqOsqthName → AList.get? (mintBody NumCtx.exact s vk m).st.wallet t = AList.get? s.wallet t) ∧
    (mintBody NumCtx.exact s vk m).st.positions = s.positions := by
  unfold mintBody
  simp only [gt_iff_lt, hm, if_true, hv, NumCtx.exact_add, Res.ok, creditW, State.setVault, State.record, bal]
  refine ⟨trivial, get?_set_self _ _ _, ?_, fun k hk => get?_set_other _ _ _ _ hk, fun t ht => get?_credit_other _ _ _ _ ht, trivial⟩
  rw [get?_credit_self]; rfl


namespace Squeeth
theorem debitW_ok {s s' : State} {tok : String} {amt : Rat} (h : debitW NumCtx.exact s tok amt = .ok s') :
    Wallet.debit NumCtx.exact s.wallet tok amt false = .ok s'.wallet ∧ s'.vaults = s.vaults ∧ s'.positions = s.positions ∧
      s'.maxId = s.maxId ∧ s'.log = s.log := by
  unfold debitW at h
  cases hw : Wallet.debit NumCtx.exact s.wallet tok amt false with
  | error er => cases er <;> simp [hw] at h
  | ok w =>
    simp only [hw, Except.ok.injEq] at h
    subst h
    exact ⟨rfl, rfl, rfl, rfl, rfl⟩
end Squeeth

/-- **deposit**: an accepted `deposit(vault, eth)` has `eth ≥ 0`, raises the vault's collateral by exactly `eth` and
    debits the wallet's WETH by `eth` (`Asset.sub`: exactly, or to zero within dust); debt, LP reference, other
    vaults, other tokens and the pool are untouched -/
theorem C14_deposit_moves_exactly (s : State) (vk : Nat) (eth : Rat) (h : (depositBody NumCtx.exact s vk eth).err = none) :
    ∃ v b b', AList.get? s.vaults vk = some v ∧ 0 ≤ eth ∧
      AList.get? (depositBody NumCtx.exact s vk eth).st.vaults vk = some { v with coll := v.coll + eth } ∧
      AList.get? s.wallet sqWethName = some b ∧ assetSub NumCtx.exact b eth false = some b' ∧
      AList.get? (depositBody NumCtx.exact s vk eth).st.wallet sqWethName = some b' ∧
      (∀ k, k ≠ vk → AList.get? (depositBody NumCtx.exact s vk eth).st.vaults k = AList.get? s.vaults k) ∧
      (∀ t, t ≠ sqWethName → AList.get? (depositBody NumCtx.exact s vk eth).st.wallet t = AList.get? s.wallet t) ∧
      (depositBody NumCtx.exact s vk eth).st.positions = s.positions := by
  unfold depositBody at h ⊢
  by_cases he : eth < 0
  · simp [he] at h
  · simp only [he, if_false] at h ⊢
    cases hv : AList.get? s.vaults vk with
    | none => simp [hv] at h
    | some v =>
      simp only [hv, NumCtx.exact_add] at h ⊢
      cases hd : debitW NumCtx.exact (s.setVault vk { v with coll := v.coll + eth }) sqWethName eth with
      | error er => simp [hd] at h
      | ok s2 =>
        simp only [hd, Res.ok_st, State.record]
        obtain ⟨hw, hvs, hps, _, _⟩ := debitW_ok hd
        obtain ⟨b, b', hb, hsub, hb', hoth⟩ := debit_ok hw
        refine ⟨v, b, b', rfl, not_lt.mp he, ?_, hb, hsub, hb', ?_, hoth, ?_⟩
        · rw [hvs]; exact get?_set_self _ _ _
        · intro k hk; rw [hvs]; exact get?_set_other _ _ _ _ hk
        · rw [hps]; rfl

/-- **burn** (`burn_and_withdraw` with `osqth_burn_amount > 0`): the amount burned is `min(requested, debt)` — never
    more than the vault owes —, the debt falls by exactly that and the wallet's oSQTH is debited by exactly that -/
theorem C14_burn_moves_exactly (s : State) (vk : Nat) (burn : Rat) (hb : 0 < burn)
    (h : (burnBody NumCtx.exact s vk burn).err = none) :
    ∃ v b b', AList.get? s.vaults vk = some v ∧
      AList.get? (burnBody NumCtx.exact s vk burn).st.vaults vk = some { v with short := v.short - min burn v.short } ∧
      AList.get? s.wallet sqOsqthName = some b ∧ assetSub NumCtx.exact b (min burn v.short) false = some b' ∧
      AList.get? (burnBody NumCtx.exact s vk burn).st.wallet sqOsqthName = some b' ∧
      (∀ k, k ≠ vk → AList.get? (burnBody NumCtx.exact s vk burn).st.vaults k = AList.get? s.vaults k) ∧
      (∀ t, t ≠ sqOsqthName → AList.get? (burnBody NumCtx.exact s vk burn).st.wallet t = AList.get? s.wallet t) ∧
      (burnBody NumCtx.exact s vk burn).st.positions = s.positions := by
  unfold burnBody at h ⊢
  cases hv : AList.get? s.vaults vk with
  | none => simp [hv] at h
  | some v =>
    simp only [hv, gt_iff_lt, hb, if_true, NumCtx.exact_sub] at h ⊢
    by_cases hs : v.short ≥ burn
    · have hmin : min burn v.short = burn := min_eq_left hs
      simp only [hs, if_true] at h ⊢
      cases hd : debitW NumCtx.exact (s.setVault vk { v with short := v.short - burn }) sqOsqthName burn with
      | error er => simp [hd] at h
      | ok s2 =>
        simp only [hd, Res.ok_st, State.record]
        obtain ⟨hw, hvs, hps, _, _⟩ := debitW_ok hd
        obtain ⟨b, b', hb1, hsub, hb', hoth⟩ := debit_ok hw
        refine ⟨v, b, b', rfl, ?_, hb1, by rw [hmin]; exact hsub, hb', ?_, hoth, ?_⟩
        · rw [hvs, hmin]; exact get?_set_self _ _ _
        · intro k hk; rw [hvs]; exact get?_set_other _ _ _ _ hk
        · rw [hps]; rfl
    · have hmin : min burn v.short = v.short := min_eq_right (le_of_lt (not_le.mp hs))
      simp only [hs, if_false] at h ⊢
      cases hd : debitW NumCtx.exact (s.setVault vk { v with short := 0 }) sqOsqthName v.short with
      | error er => simp [hd] at h
      | ok s2 =>
        simp only [hd, Res.ok_st, State.record]
        obtain ⟨hw, hvs, hps, _, _⟩ := debitW_ok hd
        obtain ⟨b, b', hb1, hsub, hb', hoth⟩ := debit_ok hw
        refine ⟨v, b, b', rfl, ?_, hb1, by rw [hmin]; exact hsub, hb', ?_, hoth, ?_⟩
        · rw [hvs, hmin, sub_self]; exact get?_set_self _ _ _
        · intro k hk; rw [hvs]; exact get?_set_other _ _ _ _ hk
        · rw [hps]; rfl

/-- **withdraw** (`_withdraw_collateral`, `withdraw_eth_amount > 0`): the amount paid out is `min(requested, collateral)`
    — never more than the vault holds —, the collateral falls by exactly that, the wallet's WETH grows by exactly
    that, and the call is accepted only if the vault is then safe and not dust -/
theorem C14_withdraw_moves_exactly (e : Env) (s : State) (vk : Nat) (amount : Rat)
    (h : (withdrawCollBody NumCtx.exact e s vk amount).err = none) :
    ∃ v, AList.get? s.vaults vk = some v ∧
      AList.get? (withdrawCollBody NumCtx.exact e s vk amount).st.vaults vk = some { v with coll := v.coll - min amount v.coll } ∧
      bal (withdrawCollBody NumCtx.exact e s vk amount).st sqWethName = bal s sqWethName + min amount v.coll ∧
      (∀ k, k ≠ vk → AList.get? (withdrawCollBody NumCtx.exact e s vk amount).st.vaults k = AList.get? s.vaults k) ∧
      (∀ t, t ≠ sqWethName → AList.get? (withdrawCollBody NumCtx.exact e s vk amount).st.wallet t = AList.get? s.wallet t) ∧
      (withdrawCollBody NumCtx.exact e s vk amount).st.positions = s.positions ∧
      vaultStatus NumCtx.exact e (withdrawCollBody NumCtx.exact e s vk amount).st vk = .ok (true, false) := by
  unfold withdrawCollBody at h ⊢
  cases hv : AList.get? s.vaults vk with
  | none => simp [hv] at h
  | some v =>
    simp only [hv, NumCtx.exact_sub] at h ⊢
    have hmin : (if amount > v.coll then v.coll else amount) = min amount v.coll := by
      rw [min_def]
      split_ifs with h1 h2 h2
      · exact absurd h2 (not_le.mpr h1)
      · rfl
      · rfl
      · exact absurd (le_of_not_gt h1) h2
    obtain ⟨h1, _, e2⟩ := Res.andThen_ok h
    obtain ⟨hs, hst⟩ := checked_ok h1
    rw [e2, hst]
    simp only [Res.ok_st, State.record, creditW, State.setVault, bal, hmin] at hs ⊢
    refine ⟨v, rfl, get?_set_self _ _ _, ?_, fun k hk => get?_set_other _ _ _ _ hk,
      fun t ht => get?_credit_other _ _ _ _ ht, trivial, hs⟩
    rw [get?_credit_self]; rfl

/-! ### non-vacuity -/
def Squeeth.movesState : State :=
  { wallet := [("WETH", 10)], vaults := [(1, { coll := 3, short := 10, nft := none })], maxId := 1, positions := [], log := [] }
example : (mintBody NumCtx.exact movesState 1 5).st.wallet = [("WETH", 10), ("OSQTH", 5)] := by decide +kernel
example : assetSub NumCtx.exact 10 (9999999/1000000) false = some 0 := by decide +kernel   -- dust snap
example : assetSub NumCtx.exact 10 4 false = some 6 := by decide +kernel

end Demeter
