/-
  C14, `update` never raises — since the vault's own redemption of its LP collateral no longer goes through the pool's
  "market open" gate (/repo 33093df), no market data can make the bar-end liquidation fail: on every reachable state
  (`Once`: no dangling / shared LP reference; `Inv`: amounts ≥ 0; both tokens present in the wallet) and for every
  environment with a non-negative oSQTH TWAP — pool open or closed — `update()` completes.  Hence "liquidated iff below
  1.5×" holds without the "if the loop completes" proviso of `C14_update_liquidates_unsafe_vaults`.  Exact arithmetic.
-/
import Proofs.C14.Liquidation
import Proofs.C14.Update
import Proofs.Lemmas.SqueethInv
namespace Demeter
namespace Squeeth
open Gen

/-- both tokens have an entry in the wallet (the `*_balance_after` fields of the pool's action records read them) -/
def HasTokens (s : State) : Prop := (∃ bo, AList.get? s.wallet sqOsqthName = some bo) ∧ (∃ bw, AList.get? s.wallet sqWethName = some bw)

theorem get?_set_isSome {ν : Type} (w : AList String ν) (k k' : String) (x : ν) (h : ∃ b, AList.get? w k' = some b) :
    ∃ b, AList.get? (AList.set w k x) k' = some b := by
  by_cases hk : k' = k
  · subst hk; exact ⟨x, get?_set_self _ _ _⟩
  · rw [get?_set_other _ _ _ _ hk]; exact h

theorem credit_keeps (w : Wallet) (tok k' : String) (a : Rat) (h : ∃ b, AList.get? w k' = some b) :
    ∃ b, AList.get? (Wallet.credit NumCtx.exact w tok a) k' = some b := by
  unfold Wallet.credit
  cases AList.get? w tok with
  | none => exact get?_set_isSome _ _ _ _ h
  | some b => exact get?_set_isSome _ _ _ _ h

theorem step_liquidate_eq (cx : NumCtx) (e : Env) (s : State) (vk : Nat) : step cx e s (.liquidate vk) = liquidateOp cx e s vk := by
  unfold step stepBody liquidateOp
  simp only [Op.isAtomic, if_true]

/-- the status of an existing vault of a `Once` state is always defined -/
theorem vaultStatus_defined (cx : NumCtx) (e : Env) (s : State) (h : Once s) (vk : Nat) (v : Vault)
    (hv : AList.get? s.vaults vk = some v) : ∃ p, vaultStatus cx e s vk = .ok p := by
  unfold vaultStatus effColl
  simp only [hv]
  by_cases h0 : v.short = 0
  · simp only [h0, if_true]; exact ⟨_, rfl⟩
  · simp only [h0, if_false]
    cases hn : v.nft with
    | none => exact ⟨_, rfl⟩
    | some pos =>
      obtain ⟨p, hp, _⟩ := h.ref_lent vk v pos hv hn
      simp only [hp]; exact ⟨_, rfl⟩

/-- **`liquidate` of a vault below 1.5× never raises** (pool open or closed) and leaves both tokens in the wallet -/
theorem liquidateOp_completes (e : Env) (s : State) (h : Once s) (hi : Inv s) (ht : HasTokens s) (hp : 0 ≤ twap e .osqth)
    (vk : Nat) (v : Vault) (d : Bool) (hv : AList.get? s.vaults vk = some v)
    (hu : vaultStatus NumCtx.exact e s vk = .ok (false, d)) :
    (liquidateOp NumCtx.exact e s vk).err = none ∧ HasTokens (liquidateOp NumCtx.exact e s vk).st := by
  have hvok := hi.vault hv
  cases hn : v.nft with
  | none =>
    rw [← step_liquidate_eq, C14_liquidate_without_lp e s vk v d hv hn hvok.2 hp hu]
    exact ⟨rfl, ht⟩
  | some pos =>
    obtain ⟨p, hpp, htr⟩ := h.ref_lent vk v pos hv hn
    obtain ⟨⟨bo, hbo⟩, ⟨bw, hbw⟩⟩ := ht
    obtain ⟨hr1, hr2, hr3, _, hr5⟩ := C14_reduce_debt_rule e s vk v pos p bo bw _ _ hv hn hpp htr hbo hbw rfl rfl
    set wEth := p.pending0 + (closePosition NumCtx.exact (uniSqrtP NumCtx.exact e.uniPrice) pos.1 pos.2 p.liquidity sqWethDecimals sqOsqthDecimals).1 with hwE
    set wOsqth := p.pending1 + (closePosition NumCtx.exact (uniSqrtP NumCtx.exact e.uniPrice) pos.1 pos.2 p.liquidity sqWethDecimals sqOsqthDecimals).2 with hwO
    -- the wallet after the redemption still has both tokens
    have hw1 : HasTokens (reduceDebtBody NumCtx.exact e s vk true).1.st := by
      unfold HasTokens
      rw [hr5]
      split
      · exact ⟨credit_keeps _ _ _ _ ⟨bo, hbo⟩, credit_keeps _ _ _ _ ⟨bw, hbw⟩⟩
      · exact ⟨⟨bo, hbo⟩, ⟨bw, hbw⟩⟩
    have key : (liquidateBody NumCtx.exact e s vk).err = none ∧ HasTokens (liquidateBody NumCtx.exact e s vk).st := by
      unfold liquidateBody
      simp only [hv, hu, Bool.false_eq_true, if_false]
      rw [Res.andThen_of_ok _ hr1]
      generalize hrb : reduceDebtBody NumCtx.exact e s vk true = rb at hr1 hr2 hr3 hw1
      set s1 := rb.1.st with hs1
      set w : Vault := { coll := v.coll + wEth - min ((wOsqth * twap e .osqth + wEth) * (2 / 100)) (v.coll + wEth),
                         short := v.short - min wOsqth v.short, nft := none } with hw
      have hwshort : 0 ≤ w.short := by
        show 0 ≤ v.short - min wOsqth v.short
        have := min_le_right wOsqth v.short; linarith
      -- status of the vault after the redemption: it has no LP any more
      have hst : ∃ a b, vaultStatus NumCtx.exact e s1 vk = .ok (a, b) := by
        unfold vaultStatus effColl
        simp only [hr3]
        by_cases h0 : w.short = 0
        · simp only [h0, if_true]; exact ⟨_, _, rfl⟩
        · simp only [h0, if_false]; exact ⟨_, _, rfl⟩
      obtain ⟨a, b, hab⟩ := hst
      simp only [hab]
      cases a with
      | true => exact ⟨rfl, hw1⟩
      | false =>
        simp only [Bool.false_eq_true, if_false, hr3]
        set w' : Vault := { w with coll := NumCtx.exact.add w.coll rb.2 } with hw'
        have hg : AList.get? (s1.setVault vk w').vaults vk = some w' := by unfold State.setVault; simp only [get?_set_self]
        have := C14_liquidation_applies_rule e (s1.setVault vk w') vk w' hg rfl hwshort hp
        rw [show w'.short = w.short from rfl] at this ⊢
        rw [this]
        refine ⟨rfl, ?_⟩
        exact hw1
    unfold liquidateOp atomic
    rw [key.1]
    exact key

/-- both tokens stay in the wallet whatever `liquidate` does (a failed call is rolled back) -/
theorem liquidateOp_inv (e : Env) (s : State) (vk : Nat) (hp : 0 ≤ twap e .osqth) (hi : Inv s) : Inv (liquidateOp NumCtx.exact e s vk).st :=
  atomic_inv _ _ hi (liquidateBody_inv e s vk hp hi)

end Squeeth
open Squeeth

/-- **`update()` never raises**: on a reachable state (`Once`, `Inv`, both tokens in the wallet), for any market data with
    a non-negative oSQTH TWAP — the pool market open or CLOSED on this bar —, the loop over the vaults completes. -/
theorem C14_update_completes (e : Env) (hp : 0 ≤ twap e .osqth) (ks : List Nat) (s : State) (h : Once s) (hi : Inv s) (ht : HasTokens s)
    (hnd : ks.Nodup) (hk : ∀ k ∈ ks, ∃ v, AList.get? s.vaults k = some v) :
    (updateGo (liquidateOp NumCtx.exact e) NumCtx.exact e ks s).err = none := by
  induction ks generalizing s with
  | nil => rfl
  | cons k rest ih =>
    have hnd' : rest.Nodup := (List.nodup_cons.mp hnd).2
    have hknot : k ∉ rest := (List.nodup_cons.mp hnd).1
    obtain ⟨v, hv⟩ := hk k (List.mem_cons_self ..)
    obtain ⟨⟨safe, d⟩, hs⟩ := vaultStatus_defined NumCtx.exact e s h k v hv
    rw [C14_update_liquidates_iff_unsafe _ _ _ _ _ _ safe d hs]
    cases safe with
    | true =>
      simp only [if_true]
      exact ih s h hi ht hnd' (fun k' hk' => hk k' (List.mem_cons_of_mem _ hk'))
    | false =>
      simp only [Bool.false_eq_true, if_false]
      obtain ⟨hok, ht'⟩ := liquidateOp_completes e s h hi ht hp k v d hv hs
      rw [Res.andThen_of_ok _ hok]
      apply ih _ (liquidateOp_once _ e s k h) (liquidateOp_inv e s k hp hi) ht' hnd'
      intro k' hk'
      have hne : k' ≠ k := fun he => hknot (he ▸ hk')
      rw [(liquidateOp_other NumCtx.exact e s h k k' hne).1]
      exact hk k' (List.mem_cons_of_mem _ hk')

/-- **`update` liquidates every vault that is below 1.5× — unconditionally**: the "if the loop completes" hypothesis of
    `C14_update_liquidates_unsafe_vaults` is discharged by `C14_update_completes`; what remains are properties of the
    state alone, which every reachable state has. -/
theorem C14_update_liquidates_unsafe_vaults_always (e : Env) (hp : 0 ≤ twap e .osqth) (ks : List Nat) (s : State) (h : Once s) (hi : Inv s)
    (ht : HasTokens s) (hnd : ks.Nodup) (hk : ∀ k ∈ ks, ∃ v, AList.get? s.vaults k = some v)
    (vk : Nat) (hmem : vk ∈ ks) (d : Bool) (hs : vaultStatus NumCtx.exact e s vk = .ok (false, d)) :
    (updateGo (liquidateOp NumCtx.exact e) NumCtx.exact e ks s).err = none ∧
    ∃ t, Once t ∧ AList.get? t.vaults vk = AList.get? s.vaults vk ∧ vaultStatus NumCtx.exact e t vk = .ok (false, d) ∧
      (liquidateOp NumCtx.exact e t vk).err = none ∧
      AList.get? (updateGo (liquidateOp NumCtx.exact e) NumCtx.exact e ks s).st.vaults vk
        = AList.get? (liquidateOp NumCtx.exact e t vk).st.vaults vk :=
  ⟨C14_update_completes e hp ks s h hi ht hnd hk,
   C14_update_liquidates_unsafe_vaults NumCtx.exact e ks s h hnd vk hmem d hs (C14_update_completes e hp ks s h hi ht hnd hk)⟩

/-! ### non-vacuity: the boundary case of the harness — pool market CLOSED, vault below 1.5× with a lent LP position -/
namespace Squeeth
def closedEnv : Env := { nf := 1/2, weth := 2000, osqth := 1/10, now := none, rows := [], uniPrice := 1/10, uniOpen := false, mean := fun _ => 0 }
def lpState : State :=
  { wallet := [("WETH", 100), ("OSQTH", 100)], vaults := [(1, { coll := 1/10, short := 12, nft := some (21000, 25020) })], maxId := 1,
    positions := [((21000, 25020), { liquidity := 10^19, pending0 := 0, pending1 := 0, transferred := true })], log := [] }
end Squeeth

example : HasTokens lpState := ⟨⟨100, by decide⟩, ⟨100, by decide⟩⟩
/-- the vault is below 1.5×, `update()` on the closed pool completes, redeems the position and leaves no LP in the vault -/
example : (vaultStatus NumCtx.exact closedEnv lpState 1).toOption.map (·.1) = some false := by decide +kernel
example : (step NumCtx.exact closedEnv lpState .update).err = none := by decide +kernel
example : (step NumCtx.exact closedEnv lpState .update).st.vaults.map (fun kv => kv.2.nft) = [none] := by decide +kernel
example : (step NumCtx.exact closedEnv lpState .update).st.positions = [] := by decide +kernel
/-- … while an order of the strategy on the closed pool is still refused -/
example : (step NumCtx.exact closedEnv { lpState with vaults := [], positions := [((21000, 25020), { liquidity := 10^19, pending0 := 0, pending1 := 0, transferred := false })] }
    (.uniRemove (21000, 25020))).err = some (.demeter "uni-closed") := by decide +kernel

end Demeter
