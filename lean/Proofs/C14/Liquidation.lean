/-
  C14, liquidation — the amounts of `_get_liquidation_result`, the `_liquidate` step ("Need full liquidation" and
  "Dust vault left" unreachable), `liquidate` with and without LP collateral, `_reduce_debt` (LP first, 2 % bounty),
  and the `update` loop (a vault is handed to `liquidate` iff it is below 1.5×).  Exact rational semantics.
-/
import Proofs.C14.Window
import Mathlib.Tactic.Linarith
import Mathlib.Tactic.NormNum
import Mathlib.Tactic.Ring
import Mathlib.Tactic.SplitIfs
import Mathlib.Algebra.Order.Field.Rat
namespace Demeter
open Squeeth Gen

namespace Squeeth
/-- collateral a liquidator receives for `x` oSQTH at the TWAP price `p`: `x · p · 1.1` -/
def liqPay (p x : Rat) : Rat := x * p * (11 / 10)

/-- the property's liquidation amounts: half the debt — all of it if the vault would be left with under 0.5 ETH —
    against `debt × p × 1.1`, capped at the vault's collateral (then the whole debt is burned) -/
def specLiq (p short coll : Rat) : Rat × Rat :=
  let amt := if coll - liqPay p (short / 2) < 1 / 2 then short else short / 2
  if liqPay p amt > coll then (short, coll) else (amt, liqPay p amt)
end Squeeth

theorem C14_liquidation_amounts (e : Env) (short coll : Rat) (hs : 0 ≤ short) (hp : 0 ≤ twap e .osqth) :
    liquidationResult NumCtx.exact e short short coll = specLiq (twap e .osqth) short coll := by
  have hc := C14_constants
  unfold liquidationResult singleLiq specLiq liqPay
  simp only [NumCtx.exact_add, NumCtx.exact_sub, NumCtx.exact_mul, NumCtx.exact_div, hc.2.2.1, hc.2.2.2.2.2.2.1,
    hc.2.2.2.2.2.2.2.2]
  generalize twap e .osqth = p at hp ⊢
  have hsp : 0 ≤ short * p := mul_nonneg hs hp
  have h1 : (if short > short / 2 then short / 2 else short) = short / 2 := by
    split_ifs with h
    · rfl
    · linarith
  have h2 : (if short > short then short else short) = short := by simp
  have e1 : short / 2 * p + short / 2 * p * (1 / 10) = short / 2 * p * (11 / 10) := by ring
  have e2 : short * p + short * p * (1 / 10) = short * p * (11 / 10) := by ring
  simp only [h1, h2, e1, e2]
  by_cases ha : coll - short / 2 * p * (11 / 10) < 1 / 2
  · by_cases hb : coll ≥ short / 2 * p * (11 / 10)
    · have hR : (if coll ≥ short / 2 * p * (11 / 10) ∧ coll - short / 2 * p * (11 / 10) < 1 / 2
          then (short, short * p * (11 / 10)) else (short / 2, short / 2 * p * (11 / 10))) = (short, short * p * (11 / 10)) :=
        if_pos ⟨hb, ha⟩
      rw [hR, if_pos ha]
    · have hR : (if coll ≥ short / 2 * p * (11 / 10) ∧ coll - short / 2 * p * (11 / 10) < 1 / 2
          then (short, short * p * (11 / 10)) else (short / 2, short / 2 * p * (11 / 10))) = (short / 2, short / 2 * p * (11 / 10)) :=
        if_neg (fun h => hb h.1)
      rw [hR, if_pos ha]
      have hb' : short / 2 * p * (11 / 10) > coll := lt_of_not_ge hb
      have hfull : short * p * (11 / 10) > coll := by nlinarith
      simp only [hb', hfull, if_true]
  · have hR : (if coll ≥ short / 2 * p * (11 / 10) ∧ coll - short / 2 * p * (11 / 10) < 1 / 2
        then (short, short * p * (11 / 10)) else (short / 2, short / 2 * p * (11 / 10))) = (short / 2, short / 2 * p * (11 / 10)) :=
      if_neg (fun h => ha h.2)
    rw [hR, if_neg ha]

namespace Squeeth
theorem specLiq_fst_le (p short coll : Rat) (hs : 0 ≤ short) : (specLiq p short coll).1 ≤ short := by
  unfold specLiq
  by_cases h1 : coll - liqPay p (short / 2) < 1 / 2 <;> simp only [h1, if_true, if_false] <;> split_ifs <;> simp only [] <;> linarith

theorem specLiq_fst_nonneg (p short coll : Rat) (hs : 0 ≤ short) : 0 ≤ (specLiq p short coll).1 := by
  unfold specLiq
  by_cases h1 : coll - liqPay p (short / 2) < 1 / 2 <;> simp only [h1, if_true, if_false] <;> split_ifs <;> simp only [] <;> linarith

theorem specLiq_snd_le (p short coll : Rat) : (specLiq p short coll).2 ≤ coll := by
  unfold specLiq
  by_cases h1 : coll - liqPay p (short / 2) < 1 / 2 <;> simp only [h1, if_true, if_false] <;> split_ifs <;> simp only [] <;> linarith

/-- after the rule has been applied the vault has no debt left or keeps at least 0.5 ETH: never a dust vault -/
theorem specLiq_no_dust (p short coll : Rat) :
    short - (specLiq p short coll).1 = 0 ∨ 1 / 2 ≤ coll - (specLiq p short coll).2 := by
  unfold specLiq
  by_cases h1 : coll - liqPay p (short / 2) < 1 / 2
  · simp only [h1, if_true]
    left
    split_ifs <;> simp
  · simp only [h1, if_false]
    split_ifs with h2
    · left; simp
    · right; simp only []; linarith
end Squeeth

/-- **the liquidation step** (`_liquidate` on a vault whose LP, if any, has been redeemed): it never raises
    ("Need full liquidation" and "Dust vault left" are unreachable) and moves exactly the rule's amounts -/
theorem C14_liquidation_applies_rule (e : Env) (s : State) (vk : Nat) (v : Vault)
    (hv : AList.get? s.vaults vk = some v) (hn : v.nft = none) (hs : 0 ≤ v.short) (hp : 0 ≤ twap e .osqth) :
    liquidateInner NumCtx.exact e s vk v.short =
      .ok ((s.setVault vk { coll := v.coll - (specLiq (twap e .osqth) v.short v.coll).2,
                            short := v.short - (specLiq (twap e .osqth) v.short v.coll).1, nft := none }).record
            (.liquidation vk (specLiq (twap e .osqth) v.short v.coll).1 (v.short - (specLiq (twap e .osqth) v.short v.coll).1)
              (specLiq (twap e .osqth) v.short v.coll).2 (v.coll - (specLiq (twap e .osqth) v.short v.coll).2)))
          [(specLiq (twap e .osqth) v.short v.coll).1] := by
  unfold liquidateInner
  rw [hv]
  simp only [C14_liquidation_amounts e v.short v.coll hs hp, NumCtx.exact_sub]
  generalize ha : specLiq (twap e .osqth) v.short v.coll = a
  have hle : a.1 ≤ v.short := ha ▸ specLiq_fst_le _ _ _ hs
  have hnd : v.short - a.1 = 0 ∨ 1 / 2 ≤ v.coll - a.2 := ha ▸ specLiq_no_dust _ _ _
  rw [if_neg (not_lt.mpr hle)]
  have hst : vaultStatus NumCtx.exact e (s.setVault vk { v with short := v.short - a.1, coll := v.coll - a.2 }) vk
      = .ok (true, false) ∨ ∃ b, vaultStatus NumCtx.exact e (s.setVault vk { v with short := v.short - a.1, coll := v.coll - a.2 }) vk
      = .ok (b, false) := by
    unfold vaultStatus State.setVault
    simp only [get?_set_self]
    by_cases h0 : v.short - a.1 = 0
    · left; simp [h0]
    · right
      rcases hnd with h | h
      · exact absurd h h0
      · simp only [h0, if_false]
        unfold effColl
        simp only [get?_set_self, hn]
        rw [C14_constants.2.2.1, decide_eq_false (not_lt.mpr h)]
        exact ⟨_, rfl⟩
  have hvn : ({ v with short := v.short - a.1, coll := v.coll - a.2 } : Vault) = { coll := v.coll - a.2, short := v.short - a.1, nft := none } := by
    cases v; simp only [] at hn; subst hn; rfl
  rcases hst with h | ⟨b, h⟩
  · rw [h]; simp only [Bool.false_eq_true, if_false]; rw [hvn]
  · rw [h]; simp only [Bool.false_eq_true, if_false]; rw [hvn]


namespace Squeeth
theorem set_set {κ ν : Type} [DecidableEq κ] (m : AList κ ν) (k : κ) (a b : ν) :
    AList.set (AList.set m k a) k b = AList.set m k b := by
  induction m with
  | nil => simp [AList.set]
  | cons x m ih =>
    obtain ⟨k', v'⟩ := x
    by_cases h : k' = k
    · simp [AList.set, h]
    · simp [AList.set, h, ih]
end Squeeth

/-- **`update` liquidates a vault iff it is below 1.5×** (head of the loop): a vault at or above 1.5× is passed over
    without touching anything; a vault below is handed to `liquidate`, and the loop continues from what that leaves -/
theorem C14_update_liquidates_iff_unsafe (liq : State → Nat → Res) (cx : NumCtx) (e : Env) (s : State) (vk : Nat)
    (rest : List Nat) (safe dust : Bool) (h : vaultStatus cx e s vk = .ok (safe, dust)) :
    updateGo liq cx e (vk :: rest) s =
      if safe then updateGo liq cx e rest s else (liq s vk).andThen (updateGo liq cx e rest) := by
  rw [updateGo]; simp only [h]

/-- when every vault is at or above 1.5× `update` changes nothing -/
theorem C14_update_all_safe_is_noop (liq : State → Nat → Res) (cx : NumCtx) (e : Env) (s : State) (ks : List Nat)
    (h : ∀ k ∈ ks, ∃ d, vaultStatus cx e s k = .ok (true, d)) : updateGo liq cx e ks s = .ok s := by
  induction ks with
  | nil => rfl
  | cons k rest ih =>
    obtain ⟨d, hd⟩ := h k (by simp)
    rw [C14_update_liquidates_iff_unsafe liq cx e s k rest true d hd]
    simp only [if_true]
    exact ih (fun k' hk' => h k' (List.mem_cons_of_mem _ hk'))

/-- `liquidate` refuses a vault that is at or above 1.5× and leaves everything as it was -/
theorem C14_liquidate_rejects_safe_vault (cx : NumCtx) (e : Env) (s : State) (vk : Nat) (d : Bool)
    (h : vaultStatus cx e s vk = .ok (true, d)) :
    step cx e s (.liquidate vk) = .fail (.demeter "safe-vault") s := by
  unfold step stepBody liquidateBody
  simp only [Op.isAtomic, if_true]
  have hg : ∃ v, AList.get? s.vaults vk = some v := by
    unfold vaultStatus at h
    cases hv : AList.get? s.vaults vk with
    | none => rw [hv] at h; simp at h
    | some v => exact ⟨v, rfl⟩
  obtain ⟨v, hv⟩ := hg
  rw [hv]; simp only [h, if_true]
  rfl

/-- **liquidation of a vault without LP collateral**: `liquidate` on a vault below 1.5× applies exactly the rule -/
theorem C14_liquidate_without_lp (e : Env) (s : State) (vk : Nat) (v : Vault) (d : Bool)
    (hv : AList.get? s.vaults vk = some v) (hn : v.nft = none) (hs : 0 ≤ v.short) (hp : 0 ≤ twap e .osqth)
    (hu : vaultStatus NumCtx.exact e s vk = .ok (false, d)) :
    step NumCtx.exact e s (.liquidate vk) =
      .ok ((s.setVault vk { coll := v.coll - (specLiq (twap e .osqth) v.short v.coll).2,
                            short := v.short - (specLiq (twap e .osqth) v.short v.coll).1, nft := none }).record
            (.liquidation vk (specLiq (twap e .osqth) v.short v.coll).1 (v.short - (specLiq (twap e .osqth) v.short v.coll).1)
              (specLiq (twap e .osqth) v.short v.coll).2 (v.coll - (specLiq (twap e .osqth) v.short v.coll).2)))
          [(specLiq (twap e .osqth) v.short v.coll).1] := by
  unfold step stepBody liquidateBody
  simp only [Op.isAtomic, if_true, hv, hu, Bool.false_eq_true, if_false]
  have hrd : reduceDebtBody NumCtx.exact e s vk true = (.ok s [0, 0, 0, 0], 0) := by
    unfold reduceDebtBody; rw [hv]; simp only [hn]
  rw [hrd]
  simp only [Res.andThen, Res.ok, hu, hv, Bool.false_eq_true, if_false, NumCtx.exact_add, add_zero]
  have hvv : ({ v with coll := v.coll } : Vault) = v := by cases v; rfl
  rw [hvv]
  have hg : AList.get? (s.setVault vk v).vaults vk = some v := by unfold State.setVault; simp only [get?_set_self]
  rw [C14_liquidation_applies_rule e (s.setVault vk v) vk v hg hn hs hp]
  unfold atomic
  simp only [Res.ok]
  unfold State.setVault
  simp only [set_set]


namespace Squeeth

theorem get?_erase_self {κ ν : Type} [DecidableEq κ] (m : AList κ ν) (k : κ) : AList.get? (AList.erase m k) k = none := by
  unfold AList.get? AList.erase
  simp [List.find?_eq_none]

theorem get?_erase_other {κ ν : Type} [DecidableEq κ] (m : AList κ ν) (k k' : κ) (h : k' ≠ k) :
    AList.get? (AList.erase m k) k' = AList.get? m k' := by
  induction m with
  | nil => rfl
  | cons a m ih =>
    have e1 : AList.erase (a :: m) k = if a.1 = k then AList.erase m k else a :: AList.erase m k := by
      unfold AList.erase
      by_cases h1 : a.1 = k <;> simp [List.filter, h1]
    rw [e1]
    by_cases h1 : a.1 = k
    · have h2 : a.1 ≠ k' := by rw [h1]; exact Ne.symm h
      simp only [h1, if_true, get?_cons]
      rw [ih]; rw [h1] at h2; simp [h2]
    · simp only [h1, if_false, get?_cons, ih]

/-- what `remove_liquidity(collect=False)` + `collect_fee(collect_to_user=False)` do to a position that the pool
    holds, with both tokens in the wallet — whether the pool market is open or closed on this bar (`_redeem_uni_token`
    opens the write gate for its own calls): everything it is worth is handed out and it is deleted -/
theorem uniRedeem_vault (e : Env) (s : State) (pos : PosKey) (p : UPos) (bo bw : Rat)
    (hp : AList.get? s.positions pos = some p)
    (hbo : AList.get? s.wallet sqOsqthName = some bo) (hbw : AList.get? s.wallet sqWethName = some bw) :
    ∃ s6, uniRedeem NumCtx.exact e s pos false =
        (.ok s6, p.pending0 + (closePosition NumCtx.exact (uniSqrtP NumCtx.exact e.uniPrice) pos.1 pos.2 p.liquidity sqWethDecimals sqOsqthDecimals).1,
                 p.pending1 + (closePosition NumCtx.exact (uniSqrtP NumCtx.exact e.uniPrice) pos.1 pos.2 p.liquidity sqWethDecimals sqOsqthDecimals).2) ∧
      s6.wallet = s.wallet ∧ s6.vaults = s.vaults ∧ s6.maxId = s.maxId ∧ AList.get? s6.positions pos = none ∧
      (∀ k, k ≠ pos → AList.get? s6.positions k = AList.get? s.positions k) := by
  unfold uniRedeem
  simp only [Bool.false_and, Bool.false_eq_true, if_false, hp, State.setPos, State.record, hbo, hbw,
    NumCtx.exact_add, NumCtx.exact_sub, sub_self, and_self, if_true]
  refine ⟨_, rfl, rfl, rfl, rfl, ?_, ?_⟩
  · simp only [get?_erase_self]
  · intro k hk
    simp only [get?_erase_other _ _ _ hk, get?_set_other _ _ _ _ hk]

end Squeeth

/-- **LP collateral is redeemed first, with a 2 % bounty** (`_reduce_debt(vault, pay_bounty=True)`) — on every bar, also
    one on which the pool market is closed (no hypothesis on `e.uniOpen`): the position's
    WETH (liquidity + pending) joins the collateral, its oSQTH burns debt (any excess goes to the wallet), the
    bounty `(oSQTH × twap + WETH) × 2 %` — at most the ETH then in the vault — is deducted, the position leaves the
    pool and the vault. -/
theorem C14_reduce_debt_rule (e : Env) (s : State) (vk : Nat) (v : Vault) (pos : PosKey) (p : UPos) (bo bw wEth wOsqth : Rat)
    (hv : AList.get? s.vaults vk = some v) (hn : v.nft = some pos) (hp : AList.get? s.positions pos = some p)
    (ht : p.transferred = true)
    (hbo : AList.get? s.wallet sqOsqthName = some bo) (hbw : AList.get? s.wallet sqWethName = some bw)
    (hwe : p.pending0 + (closePosition NumCtx.exact (uniSqrtP NumCtx.exact e.uniPrice) pos.1 pos.2 p.liquidity
            sqWethDecimals sqOsqthDecimals).1 = wEth)
    (hwo : p.pending1 + (closePosition NumCtx.exact (uniSqrtP NumCtx.exact e.uniPrice) pos.1 pos.2 p.liquidity
            sqWethDecimals sqOsqthDecimals).2 = wOsqth) :
    (reduceDebtBody NumCtx.exact e s vk true).1.err = none ∧
    (reduceDebtBody NumCtx.exact e s vk true).2 = min ((wOsqth * twap e .osqth + wEth) * (2 / 100)) (v.coll + wEth) ∧
    AList.get? (reduceDebtBody NumCtx.exact e s vk true).1.st.vaults vk =
      some { coll := v.coll + wEth - min ((wOsqth * twap e .osqth + wEth) * (2 / 100)) (v.coll + wEth),
             short := v.short - min wOsqth v.short, nft := none } ∧
    AList.get? (reduceDebtBody NumCtx.exact e s vk true).1.st.positions pos = none ∧
    (reduceDebtBody NumCtx.exact e s vk true).1.st.wallet =
      (if wOsqth > v.short then Wallet.credit NumCtx.exact s.wallet sqOsqthName (wOsqth - v.short) else s.wallet) := by
  have hp' : AList.get? (s.setPos pos { p with transferred := false }).positions pos = some { p with transferred := false } := by
    unfold State.setPos; simp only [get?_set_self]
  obtain ⟨s6, hr, hw, hvs, _, hpos, _⟩ := uniRedeem_vault e (s.setPos pos { p with transferred := false }) pos
    { p with transferred := false } bo bw hp' hbo hbw
  simp only [hwe, hwo] at hr
  have hb : (if (wOsqth * twap e .osqth + wEth) * (2 / 100) > v.coll + wEth then v.coll + wEth
             else (wOsqth * twap e .osqth + wEth) * (2 / 100)) = min ((wOsqth * twap e .osqth + wEth) * (2 / 100)) (v.coll + wEth) := by
    rw [min_def]
    split_ifs with h1 h2 h2
    · exact absurd h2 (not_le.mpr h1)
    · rfl
    · rfl
    · exact absurd (le_of_not_gt h1) h2
  have hm : (if wOsqth > v.short then v.short else wOsqth) = min wOsqth v.short := by
    rw [min_def]
    split_ifs with h1 h2 h2
    · exact absurd h2 (not_le.mpr h1)
    · rfl
    · rfl
    · exact absurd (le_of_not_gt h1) h2
  have hexc : ((if wOsqth > v.short then wOsqth - v.short else 0) > 0) ↔ wOsqth > v.short := by
    split_ifs with h
    · simp only [h, iff_true]; linarith
    · simp only [h, iff_false]; exact lt_irrefl 0
  generalize hrd : reduceDebtBody NumCtx.exact e s vk true = r
  unfold reduceDebtBody at hrd
  simp only [hv, hn, hp, ht, Bool.not_true, Bool.false_eq_true, if_false, hr, if_true, NumCtx.exact_add, NumCtx.exact_sub,
    NumCtx.exact_mul, C14_constants.2.2.2.2.2.1, Res.ok, hb, hm] at hrd
  subst hrd
  refine ⟨rfl, rfl, ?_, ?_, ?_⟩
  · by_cases h : wOsqth > v.short
    · simp only [if_pos (hexc.mpr h), creditW, State.setVault, State.record, get?_set_self]
    · simp only [if_neg (fun x => h (hexc.mp x)), State.setVault, State.record, get?_set_self]
  · by_cases h : wOsqth > v.short
    · simp only [if_pos (hexc.mpr h), creditW, State.setVault, State.record, hpos]
    · simp only [if_neg (fun x => h (hexc.mp x)), State.setVault, State.record, hpos]
  · by_cases h : wOsqth > v.short
    · have h' : wOsqth - v.short > 0 := sub_pos.mpr h
      simp only [if_pos h, if_pos h', creditW, State.setVault, State.record, hw, State.setPos]
    · simp only [if_neg h, gt_iff_lt, lt_self_iff_false, if_false, State.setVault, State.record, hw, State.setPos]

/-! ### non-vacuity: the boundary vaults of the harness -/
-- half liquidation leaves exactly 0.5 ETH: half is burned
example : specLiq (1/10) 10 (105/100) = (5, 55/100) := by unfold specLiq liqPay; norm_num
-- leaves under 0.5 ETH: everything is burned, against 1.1 ETH > collateral, so capped
example : specLiq (1/10) 10 (104/100) = (10, 104/100) := by unfold specLiq liqPay; norm_num
-- half costs exactly the collateral (the former "Dust vault left" case): everything is burned for the collateral
example : specLiq (1/10) 10 (55/100) = (10, 55/100) := by unfold specLiq liqPay; norm_num
-- a large vault: plain half liquidation
example : specLiq (1/10) 100 12 = (50, 55/10) := by unfold specLiq liqPay; norm_num

end Demeter
