/-
  C14, amounts — vault amounts (and wallet balances) never go negative, whatever operation is called with whatever
  arguments, accepted or rejected, alone or in a sequence along any price path.
-/
import Proofs.Lemmas.SqueethInv
namespace Demeter
open Squeeth Gen

/-- one operation — any operation of the model, any arguments (negative, oversized, unknown keys), accepted or
    rejected — keeps every vault's collateral and debt, every wallet balance and every pending amount ≥ 0.
    The only thing asked of the market data is a non-negative oSQTH TWAP — and, when the operation is a trade of the long
    side (`buy_squeeth` / `sell_squeeth`), a non-negative pool price and a pool fee rate ≤ 1 (`PoolOk`; nothing is asked of the
    pool for any other operation). -/
theorem C14_amounts_never_negative (e : Env) (s : State) (op : Op) (hp : 0 ≤ twap e .osqth)
    (hq : op.isTrade = true → PoolOk e) (h : Inv s) : Inv (step NumCtx.exact e s op).st := by
  unfold step
  split
  · exact atomic_inv _ _ h (stepBody_inv e s op hp hq h)
  · exact stepBody_inv e s op hp hq h

namespace Squeeth
/-- run a history: each step has its own market data (a price / norm-factor path) and one operation -/
def runOps (cx : NumCtx) : State → List (Env × Op) → State
  | s, [] => s
  | s, (e, op) :: rest => runOps cx (step cx e s op).st rest
end Squeeth

/-- … and so does every sequence of operations along every price / norm-factor path -/
theorem C14_amounts_never_negative_along_paths (s : State) (hist : List (Env × Op))
    (hp : ∀ eo ∈ hist, 0 ≤ twap eo.1 .osqth) (hq : ∀ eo ∈ hist, eo.2.isTrade = true → PoolOk eo.1) (h : Inv s) :
    Inv (runOps NumCtx.exact s hist) := by
  induction hist generalizing s with
  | nil => exact h
  | cons eo rest ih =>
    obtain ⟨e, op⟩ := eo
    unfold runOps
    exact ih _ (fun x hx => hp x (List.mem_cons_of_mem _ hx)) (fun x hx => hq x (List.mem_cons_of_mem _ hx))
      (C14_amounts_never_negative e s op (hp (e, op) (by simp)) (hq (e, op) (by simp)) h)

/-- in particular: every vault of every reachable state has `collateral ≥ 0` and `debt ≥ 0` -/
theorem C14_vault_amounts_nonneg (s : State) (hist : List (Env × Op)) (hp : ∀ eo ∈ hist, 0 ≤ twap eo.1 .osqth)
    (hq : ∀ eo ∈ hist, eo.2.isTrade = true → PoolOk eo.1)
    (h : Inv s) (vk : Nat) (v : Vault) (hv : AList.get? (runOps NumCtx.exact s hist).vaults vk = some v) :
    0 ≤ v.coll ∧ 0 ≤ v.short :=
  (C14_amounts_never_negative_along_paths s hist hp hq h).vault hv

/-! ### non-vacuity -/
example : Inv { wallet := [("WETH", 100), ("OSQTH", 0)], vaults := [(1, { coll := 3, short := 10, nft := none })], maxId := 1,
                positions := [((18000, 21000), { liquidity := 10^19, pending0 := 0, pending1 := 1/5, transferred := false })], log := [] } := by
  refine ⟨?_, ?_, ?_⟩ <;> intro a ha <;> simp at ha
  · rcases ha with rfl | rfl <;> norm_num
  · subst ha; exact ⟨by norm_num, by norm_num⟩
  · subst ha; exact ⟨by norm_num, by norm_num⟩

end Demeter
