/-
  C09 — token order is immaterial.  The orchestration code of `UniLpMarket` (everything outside the numeric
  kernel) commutes *exactly* with the token-order mirror, for every pair of kernels related by the mirror law
  and every arithmetic context: same outcomes (accepted / rejected with the same exception), same amounts,
  same liquidity, same wallet, mirrored positions.  How far the concrete kernel is from an exactly mirrored one
  is quantified separately (kernel reciprocity, measured closeness) — see the harness.
-/
import Demeter.Uni.Mirror
import Demeter.Uni.Kernel
import Proofs.Lemmas.UniMirror
import Proofs.C04.Uni
namespace Demeter.Uni
open Demeter

theorem keys_mirror (ps : List Pos) :
    ((ps.map mPos).filter (fun p => !p.transferred)).map (fun p => (p.lower, p.upper)) =
      ((ps.filter (fun p => !p.transferred)).map (fun p => (p.lower, p.upper))).map (fun k => (-k.2, -k.1)) := by
  induction ps with
  | nil => rfl
  | cons p ps ih =>
    simp only [List.map_cons, List.filter_cons, mPos_transferred]
    by_cases h : p.transferred = true
    · simp only [h, Bool.not_true, Bool.false_eq_true, if_false, ih]
    · have h' : p.transferred = false := by simpa using h
      simp only [h', Bool.not_false, if_true, List.map_cons, ih, mPos, Int.neg_neg]

theorem removeAllLoop_mirror {K K' : Kern} {pool : Pool} {ms : Nat → Nat} (hk : KernMirror K K' pool ms)
    (hne : pool.tok0 ≠ pool.tok1) : ∀ (ks : List (Int × Int)) (s : State), WalletHas pool s.wallet →
    removeAllLoop K' (mPool pool) (ks.map (fun k => (-k.2, -k.1))) (mState s) = mRes (removeAllLoop K pool ks s)
  | [], s, _ => rfl
  | (lo, up) :: ks, s, hw => by
    simp only [List.map_cons, removeAllLoop]
    rw [remove_mirror hk s lo up none true true hw hne]
    have hwr := remove_wrel K pool s lo up none true none true
    cases hr : remove K pool s lo up none true none true with
    | mk out s1 =>
      rw [hr] at hwr
      cases out with
      | error e => rfl
      | ok v =>
        simp only [mRes]
        exact removeAllLoop_mirror hk hne ks s1 ⟨hwr.1 _ hw.1, hwr.1 _ hw.2⟩

/-- one operation on the mirror vs. on the original -/
theorem step_mirror {K K' : Kern} {pool : Pool} {ms : Nat → Nat} (hk : KernMirror K K' pool ms) (ht : TickErr K pool)
    (hne : pool.tok0 ≠ pool.tok1) (me : Rat) (s : State) (op : Op) (hm : op.mirrorable = true)
    (hw : WalletHas pool s.wallet) :
    MirrorStep op (step K pool me s op) (step K' (mPool pool) me (mState s) (mOp op)) := by
  cases op with
  | addRaw a0 a1 lo up sq =>
    have hsq : sq = none := by simpa [Op.mirrorable] using hm
    subst hsq
    simp only [step, mOp]
    rw [addRaw_mirror hk ht s a0 a1 lo up hw hne]
    cases hr : addRaw K pool s a0 a1 lo up none with
    | mk out s1 =>
      cases out with
      | error e => exact ⟨rfl, rfl⟩
      | ok v =>
        obtain ⟨l, u, u0, u1, liq⟩ := v
        refine ⟨?_, rfl⟩
        simp [Except.map, mResult]
  | addByTick lo up b q sq t trim =>
    have h2 : sq = none ∧ t = none := by simpa [Op.mirrorable] using hm
    obtain ⟨rfl, rfl⟩ := h2
    simp only [step, mOp, Option.map_none]
    exact addByTick_mirror hk ht s lo up b q trim hw hne
  | addByPrice lp up lt ut q b =>
    simp only [step, mOp]
    exact addByPrice_mirror hk ht s lp up lt ut q b hw hne
  | remove lo up l c sq rd =>
    have hsq : sq = none := by simpa [Op.mirrorable] using hm
    subst hsq
    simp only [step, mOp]
    exact MirrorStep.ofEq (remove_mirror hk s lo up l c rd hw hne) (fun _ _ => rfl)
  | collect lo up m0 m1 rd tu =>
    simp only [step, mOp]
    exact MirrorStep.ofEq (collect_mirror hk s lo up m0 m1 rd tu hw hne) (fun _ _ => rfl)
  | removeAll =>
    simp only [step, mOp, removeAll, mState_positions, keys_mirror]
    exact MirrorStep.ofEq (removeAllLoop_mirror hk hne _ s hw) (fun _ _ => rfl)
  | swap a f t p log =>
    simp only [step, mOp]
    rw [swap_mirror hk.cx]
    cases hr : swap K pool s a f t p log with
    | mk out s1 => cases out <;> exact ⟨rfl, rfl⟩
  | buy a p => simp only [step, mOp]; exact MirrorStep.ofEq (buy_mirror hk.cx pool s a p) (fun _ _ => rfl)
  | sell a p => simp only [step, mOp]; exact MirrorStep.ofEq (sell_mirror hk.cx pool s a p) (fun _ _ => rfl)
  | evenRebalance p => simp only [step, mOp]; exact MirrorStep.ofEq (evenRebalance_mirror hk.cx pool s p) (fun _ _ => rfl)
  | addByValue lo up v trim o => simp [Op.mirrorable] at hm
  | transferOut lo up => simp only [step, mOp]; exact MirrorStep.ofEq (transferOut_mirror s lo up) (fun _ _ => rfl)
  | transferIn lo up => simp only [step, mOp]; exact MirrorStep.ofEq (transferIn_mirror s lo up) (fun _ _ => rfl)

/-- the economic semantics: operations run one after the other on the state without the (write-only) action
    log; returns every outcome and the final economic state -/
def runE (K : Kern) (pool : Pool) (me : Rat) : State → List Op → List (Except Err (List Rat)) × State
  | s, [] => ([], stripLog s)
  | s, op :: ops =>
    let r := step K pool me (stripLog s) op
    let rest := runE K pool me r.2 ops
    (r.1 :: rest.1, rest.2)

/-- the outcomes of a mirrored run, expressed through the original's -/
def mOutcomes : List Op → List (Except Err (List Rat)) → List (Except Err (List Rat))
  | op :: ops, r :: rs => r.map (mResult op) :: mOutcomes ops rs
  | _, _ => []

theorem stripLog_idem (s : State) : stripLog (stripLog s) = stripLog s := rfl

theorem step_stripLog_wallet (K : Kern) (pool : Pool) (me : Rat) (s : State) (op : Op) (hw : WalletHas pool s.wallet) :
    WalletHas pool (step K pool me (stripLog s) op).2.wallet := by
  have h := (wrel_stepRel K pool).step me (stripLog s) op
  exact ⟨h.1 _ hw.1, h.1 _ hw.2⟩

end Demeter.Uni

namespace Demeter
open Demeter.Uni

/-- **Orchestration commutes with the token-order mirror.** For any two kernels related by the mirror law, any
    arithmetic context, any state whose wallet holds both pool tokens and any sequence of operations expressed in
    base/quote terms (add by price / by tick, remove, collect, remove all, swap, buy, sell, even rebalance,
    transfers; no caller-chosen pool price): running the mirrored sequence on the mirrored market yields, step by
    step, the same outcome (same exception class or the same numbers, position keys mirrored) and ends in the
    mirror of the original's final economic state — wallet identical, positions mirrored with identical
    liquidity and swapped pending amounts. An orientation slip in any branch of any of these helpers would break
    this theorem. -/
theorem C09_orchestration {K K' : Kern} {pool : Pool} {ms : Nat → Nat} (hk : KernMirror K K' pool ms)
    (ht : TickErr K pool) (hne : pool.tok0 ≠ pool.tok1) (minError : Rat) :
    ∀ (ops : List Op) (s : State), (∀ op ∈ ops, op.mirrorable = true) → WalletHas pool s.wallet →
      (runE K' (mPool pool) minError (mState s) (ops.map mOp)).1 = mOutcomes ops (runE K pool minError s ops).1 ∧
      (runE K' (mPool pool) minError (mState s) (ops.map mOp)).2 = mState (runE K pool minError s ops).2 := by
  intro ops
  induction ops with
  | nil => intro s _ _; exact ⟨rfl, rfl⟩
  | cons op ops ih =>
    intro s hm hw
    have hop := hm op (List.mem_cons_self ..)
    have hstep := step_mirror hk ht hne minError (stripLog s) op hop hw
    have hw1 := step_stripLog_wallet K pool minError s op hw
    simp only [List.map_cons, runE, stripLog_mState]
    -- the mirrored step starts from the same economic state and ends in the mirror of the original's
    have hrec := ih (step K pool minError (stripLog s) op).2 (fun o ho => hm o (List.mem_cons_of_mem _ ho)) hw1
    have hstate : stripLog (step K' (mPool pool) minError (mState (stripLog s)) (mOp op)).2 =
        stripLog (mState (step K pool minError (stripLog s) op).2) := hstep.2
    -- runE only looks at the economic part of its start state
    have hrun : ∀ (a b : State) (l : List Op), stripLog a = stripLog b →
        runE K' (mPool pool) minError a l = runE K' (mPool pool) minError b l := by
      intro a b l hab
      cases l with
      | nil => simp only [runE, hab]
      | cons o os => simp only [runE, hab]
    rw [hrun _ _ _ hstate]
    refine ⟨?_, ?_⟩
    · simp only [mOutcomes]
      rw [hstep.1, hrec.1]
    · exact hrec.2

end Demeter

/-! ### what is not covered, and non-vacuity -/
namespace Demeter
open Demeter.Uni

/-- `add_liquidity_by_value` (known finding, not covered by `C09_orchestration`): its tick oracle is the floor of
    the real-valued tick in pool orientation, rounded to the spacing; floor does not commute with negation, so the
    two token orders can disagree by a whole spacing. Witness: real tick 5.5, spacing 10. -/
theorem C09_fails_add_by_value_tick :
    nearestUsable (Rat.floor (-(11 / 2 : Rat))) 10 ≠ -nearestUsable (Rat.floor (11 / 2 : Rat)) 10 := by
  decide +kernel

/-- non-vacuity of `C09_orchestration`: a pair of kernels that satisfies the mirror law with a non-trivial
    `ms` (sqrt prices `s ↦ 1000 - s`), amounts that depend on the side, and a state that meets the hypotheses -/
example : ∃ (K K' : Kern) (pool : Pool) (ms : Nat → Nat), KernMirror K K' pool ms ∧ TickErr K pool ∧ pool.tok0 ≠ pool.tok1 ∧
    WalletHas pool toyState.wallet := by
  let mk (flip : Bool) : Kern :=
    { cx := NumCtx.exact
      priceToSqrt := fun _ _ => .ok (if flip then 600 else 400)
      sqrtToPrice := fun _ _ => .ok 2
      tickToPrice := fun _ t => .ok (if flip then -t else t)
      newPos := fun _ _ _ _ a0 a1 => if flip then .ok (a0 / 3, a1 / 2, 7) else .ok (a0 / 2, a1 / 3, 7)
      amounts := fun _ _ _ _ l _ => if flip then .ok (2 * l, l) else .ok (l, 2 * l)
      tickToSqrt := fun _ => .ok (if flip then 600 else 400) }
  refine ⟨mk false, mk true, toyPool, fun s => 1000 - s, ?_, ?_, by decide, ?_⟩
  · refine { cx := rfl, priceToSqrt := fun _ => rfl, sqrtToPrice := fun _ => rfl, tickToPrice := fun t => ?_,
             newPos := fun _ _ _ _ _ => rfl, amounts := fun _ _ _ _ _ => rfl, tickToSqrt := fun _ => rfl }
    simp [mk]
  · intro t e h; simp [mk] at h
  · exact ⟨by unfold Has; decide, by unfold Has; decide⟩

end Demeter
