/-
  C08 — per-bar LP fee = volume × fee rate × in-range path fraction × liquidity share.
  Theorems about Demeter.Uni.Fee (`V3CoreLib.update_fee`, `set_market_status`, `update`, the bar loop).
  Arithmetic statements are for the exact context; structural ones hold for every context.
-/
import Demeter.Uni.Fee
import Proofs.Lemmas.UniFee
namespace Demeter
open Demeter.Uni

/-! ### (1) the crossing weight is the in-range fraction of the tick path -/

/-- The weight the code derives from sorting the four ticks is the length of
    `[min(prev,close), max(prev,close)] ∩ [lower, upper]` divided by `|close − prev|` (1 for a stationary
    tick inside, 0 for one outside), and it lies in `[0, 1]`. All ticks, all ranges. -/
theorem C08_weight_spec (prev close lower upper : Int) (h : lower < upper) :
    weightOf (feeCase (some prev) close lower upper) = pathFraction prev close lower upper ∧
    0 ≤ weightOf (feeCase (some prev) close lower upper) ∧
    weightOf (feeCase (some prev) close lower upper) ≤ 1 := by
  rw [feeCase_eq_spec _ _ _ _ h]
  exact ⟨weightOf_feeSpec _ _ _ _ h, weightOf_feeSpec_bounds _ _ _ _ h⟩

/-- both closes inside the range: the whole bar counts -/
theorem C08_weight_inside (prev close lower upper : Int)
    (h1 : lower ≤ prev ∧ prev < upper) (h2 : lower ≤ close ∧ close < upper) :
    feeCase (some prev) close lower upper = .full := by
  have h : lower < upper := by omega
  rw [feeCase_eq_spec _ _ _ _ h]; unfold feeSpec inside; rw [if_pos ⟨h1, h2⟩]

/-- both closes on one side of the range: nothing -/
theorem C08_weight_outside (prev close lower upper : Int) (h : lower < upper)
    (hs : (upper ≤ prev ∧ upper ≤ close) ∨ (prev < lower ∧ close < lower)) :
    feeCase (some prev) close lower upper = .skip := by
  rw [feeCase_eq_spec _ _ _ _ h]; unfold feeSpec inside overlap
  rw [if_neg (by omega), if_pos (by omega)]

/-- the constants of the source the statements above are about: the alarm threshold `weight_decimal > 1` and the
    half-open range convention `tick >= upper` = above -/
theorem C08_source_constants : Gen.uniWeightAlarm = 1 ∧ Gen.uniUpperInclusiveAbove = true ∧
    (∀ lower upper t : Int, inRange lower upper t = 1 ↔ t ≥ upper) := by
  refine ⟨rfl, rfl, ?_⟩
  intro lower upper t
  unfold inRange
  split
  · simp_all
  · split <;> simp_all

/-- `RuntimeError("weight must <=1")` cannot be raised -/
theorem C08_weight_error_unreachable (pool : Pool) (prev : Int) (row : Row) (p : Pos) (hlu : p.lower < p.upper) :
    updateFee NumCtx.exact pool (some prev) row p ≠ .error .runtime := by
  by_cases hc : row.curLiq = 0
  · have hb := weightOf_feeSpec_bounds prev row.closeTick p.lower p.upper hlu
    unfold updateFee
    rw [feeCase_eq_spec _ _ _ _ hlu]
    cases hcase : feeSpec prev row.closeTick p.lower p.upper with
    | skip => simp
    | full => simp only [calcAmounts, if_pos hc]; split <;> simp
    | nanError => simp
    | part n d =>
      rw [hcase] at hb
      simp only [weightOf] at hb ⊢
      have : ¬ (NumCtx.exact.div (n : Rat) (d : Rat) > Gen.uniWeightAlarm) := by
        rw [NumCtx.exact_div]; exact not_lt.mpr hb.2
      rw [if_neg this]; simp only [calcAmounts, if_pos hc]; split <;> simp
  · rw [updateFee_exact pool prev row p hlu hc]; simp

/-! ### (2) the amount -/

/-- Per token: `Δpending = volume × fee rate × path fraction × share`, `volume = int(inAmount)/10^decimals`,
    `share = own liquidity / currentLiquidity` (which `set_market_status` made `pool + Σ own`, see
    `C08_bar_fee`). Nothing else of the position changes. -/
theorem C08_fee_formula (pool : Pool) (prev : Int) (row : Row) (p : Pos) (hlu : p.lower < p.upper)
    (hc : row.curLiq ≠ 0) :
    ∃ p', updateFee NumCtx.exact pool (some prev) row p = .ok p' ∧
      p'.pending0 - p.pending0 =
        (((truncInt row.in0 : Int) : Rat) / ((10 ^ pool.d0 : Nat) : Rat)) * pool.feeRate *
          pathFraction prev row.closeTick p.lower p.upper * ((p.liq : Rat) / row.curLiq) ∧
      p'.pending1 - p.pending1 =
        (((truncInt row.in1 : Int) : Rat) / ((10 ^ pool.d1 : Nat) : Rat)) * pool.feeRate *
          pathFraction prev row.closeTick p.lower p.upper * ((p.liq : Rat) / row.curLiq) ∧
      p' = { p with pending0 := p'.pending0, pending1 := p'.pending1 } := by
  refine ⟨_, updateFee_exact pool prev row p hlu hc, ?_, ?_, rfl⟩ <;>
    simp only [feeInc, pow10] <;> ring

theorem truncInt_nonneg {x : Rat} (h : 0 ≤ x) : 0 ≤ truncInt x := by
  unfold truncInt
  exact Int.tdiv_nonneg (Rat.num_nonneg.mpr h) (by exact_mod_cast Nat.zero_le _)

/-- never a negative amount -/
theorem C08_fee_nonneg (pool : Pool) (prev : Int) (row : Row) (p : Pos) (hlu : p.lower < p.upper)
    (hc : 0 < row.curLiq) (h0 : 0 ≤ row.in0) (h1 : 0 ≤ row.in1) (hl : 0 ≤ p.liq) (hf : 0 ≤ pool.feeRate) :
    ∃ p', updateFee NumCtx.exact pool (some prev) row p = .ok p' ∧
      p.pending0 ≤ p'.pending0 ∧ p.pending1 ≤ p'.pending1 := by
  refine ⟨_, updateFee_exact pool prev row p hlu (ne_of_gt hc), ?_, ?_⟩ <;>
  · have hw := (weightOf_feeSpec_bounds prev row.closeTick p.lower p.upper hlu).1
    rw [weightOf_feeSpec _ _ _ _ hlu] at hw
    have hl' : (0 : Rat) ≤ (p.liq : Rat) := by exact_mod_cast hl
    have ht0 : (0 : Rat) ≤ ((truncInt row.in0 : Int) : Rat) := by exact_mod_cast truncInt_nonneg h0
    have ht1 : (0 : Rat) ≤ ((truncInt row.in1 : Int) : Rat) := by exact_mod_cast truncInt_nonneg h1
    simp only [feeInc, le_add_iff_nonneg_right]
    positivity

/-- out of range for the whole bar: nothing, whatever the arithmetic context -/
theorem C08_fee_zero_out_of_range (cx : NumCtx) (pool : Pool) (prev : Int) (row : Row) (p : Pos)
    (hlu : p.lower < p.upper)
    (hs : (p.upper ≤ prev ∧ p.upper ≤ row.closeTick) ∨ (prev < p.lower ∧ row.closeTick < p.lower)) :
    updateFee cx pool (some prev) row p = .ok p := by
  unfold updateFee; rw [C08_weight_outside _ _ _ _ hlu hs]

theorem Uni.sumLiq_nonneg {ps : List Pos} (hnn : ∀ q ∈ ps, 0 ≤ q.liq) : 0 ≤ sumLiq ps := by
  induction ps with
  | nil => simp [sumLiq]
  | cons q qs ih =>
    have hq : 0 ≤ q.liq := hnn q (List.mem_cons_self ..)
    have := ih (fun x hx => hnn x (List.mem_cons_of_mem _ hx))
    simp only [sumLiq]; omega

/-- sum of own liquidity is at least any single non-negative member -/
theorem Uni.liq_le_sumLiq {ps : List Pos} (hnn : ∀ q ∈ ps, 0 ≤ q.liq) {p : Pos} (hp : p ∈ ps) :
    p.liq ≤ sumLiq ps := by
  induction ps with
  | nil => cases hp
  | cons q qs ih =>
    have hq : 0 ≤ q.liq := hnn q (List.mem_cons_self ..)
    have hrest : 0 ≤ sumLiq qs := Uni.sumLiq_nonneg (fun x hx => hnn x (List.mem_cons_of_mem _ hx))
    rcases List.mem_cons.mp hp with h | h
    · subst h; simp only [sumLiq]; omega
    · have := ih (fun x hx => hnn x (List.mem_cons_of_mem _ hx)) h
      simp only [sumLiq]; omega

/-- the share: `own / (pool + own)` for the only position, never more than that otherwise -/
theorem C08_share (poolLiq : Rat) (ps : List Pos) (p : Pos) (hp : p ∈ ps) (hnn : ∀ q ∈ ps, 0 ≤ q.liq)
    (hpool : 0 < poolLiq) :
    (ps = [p] → (p.liq : Rat) / (poolLiq + (sumLiq ps : Int)) = (p.liq : Rat) / (poolLiq + p.liq)) ∧
    (p.liq : Rat) / (poolLiq + (sumLiq ps : Int)) ≤ (p.liq : Rat) / (poolLiq + p.liq) := by
  have hl : 0 ≤ p.liq := hnn p hp
  have hle : p.liq ≤ sumLiq ps := Uni.liq_le_sumLiq hnn hp
  have hl' : (0 : Rat) ≤ (p.liq : Rat) := by exact_mod_cast hl
  have hle' : (p.liq : Rat) ≤ ((sumLiq ps : Int) : Rat) := by exact_mod_cast hle
  constructor
  · intro h; subst h; simp [sumLiq]
  · apply div_le_div_of_nonneg_left hl' (by linarith) (by linarith)

/-! ### (4) other operations reach the amount only through the share's denominator -/

/-- Same position, same path, same volumes; only `currentLiquidity` (= pool + Σ own) differs between the two
    runs: the accrued amounts are inversely proportional to it. -/
theorem C08_only_through_share (pool : Pool) (prev : Int) (row : Row) (c' : Rat) (p : Pos)
    (hlu : p.lower < p.upper) (hc : row.curLiq ≠ 0) (hc' : c' ≠ 0) :
    ∃ p1 p2, updateFee NumCtx.exact pool (some prev) row p = .ok p1 ∧
      updateFee NumCtx.exact pool (some prev) { row with curLiq := c' } p = .ok p2 ∧
      (p1.pending0 - p.pending0) * row.curLiq = (p2.pending0 - p.pending0) * c' ∧
      (p1.pending1 - p.pending1) * row.curLiq = (p2.pending1 - p.pending1) * c' := by
  refine ⟨_, _, updateFee_exact pool prev row p hlu hc,
    updateFee_exact pool prev { row with curLiq := c' } p hlu hc', ?_, ?_⟩ <;>
  · simp only [feeInc, add_sub_cancel_left]; field_simp

end Demeter

/-! ### non-vacuity -/
namespace Demeter
open Demeter.Uni

/-- a crossing: from tick 0 to tick 100 through the range [50, 200): half of the path is inside -/
example : pathFraction 0 100 50 200 = 1 / 2 := by
  simp [pathFraction, overlap, intAbs]; norm_num
/-- jump across the whole range -/
example : feeCase (some (-500)) 900 0 100 = .part 100 1400 := by decide
/-- close exactly on the upper bound counts as above; coming from inside the whole path is inside -/
example : feeCase (some 60) 100 0 100 = .part 40 40 := by decide
/-- arriving exactly on the lower bound from below: nothing -/
example : feeCase (some (-7)) 0 0 100 = .skip := by decide
/-- the hypotheses of `C08_fee_formula` / `C08_fee_nonneg` hold for an ordinary position and row -/
example : ∃ (row : Row) (p : Pos), p.lower < p.upper ∧ 0 < row.curLiq ∧ 0 ≤ row.in0 ∧ 0 ≤ p.liq ∧
    pathFraction 0 row.closeTick p.lower p.upper ≠ 0 :=
  ⟨{ closeTick := 5, curLiq := 1000, in0 := 10, in1 := 10, price := 1 },
   { (default : Pos) with lower := -10, upper := 10, liq := 7 }, by decide, by decide, by decide, by decide,
   by simp [pathFraction, overlap, intAbs]⟩

end Demeter
