/-
  C04, Squeeth part — a rejected vault operation leaves wallet, vaults, pool positions and the action list intact.
  The public vault operations (open_deposit_mint, deposit, deposit/withdraw_uni_position, burn_and_withdraw,
  liquidate) run inside `SqueethMarket._atomic`; `update` is a loop of such transactions.  The long side
  (`buy_squeeth` / `sell_squeeth`) has no transaction wrapper: it is the pool's `buy` / `sell`, which make every check
  and every computation that can raise before the first wallet movement — their atomicity (Proofs/Lemmas/UniAtomic) is
  carried over.  Proved for every arithmetic context.
-/
import Proofs.Lemmas.Squeeth
import Proofs.Lemmas.SqueethLong
namespace Demeter
open Squeeth Gen

/-- **rejected ⇒ unchanged**: every public vault operation, every rejection cause, every state, every context.
    `State` = wallet, vaults (+ id counter), the pool's positions, the action list. -/
theorem C04_squeeth_rejected_leaves_state_intact (cx : NumCtx) (e : Env) (s : State) (op : Op)
    (hop : op.isAtomic = true) (h : (step cx e s op).err ≠ none) : (step cx e s op).st = s := by
  unfold step at h ⊢
  simp only [hop, if_true] at h ⊢
  exact atomic_rejected s _ h

/-- a rejected operation returns nothing -/
theorem C04_squeeth_rejected_returns_nothing (cx : NumCtx) (e : Env) (s : State) (op : Op)
    (hop : op.isAtomic = true) (h : (step cx e s op).err ≠ none) : (step cx e s op).out = [] := by
  unfold step at h ⊢
  simp only [hop, if_true] at h ⊢
  unfold atomic at h ⊢
  cases hr : (stepBody cx e s op).err with
  | some er => simp [Res.fail]
  | none => simp [hr] at h

/-- the wrapper does not change which calls are rejected, nor with which error -/
theorem C04_squeeth_same_verdict (cx : NumCtx) (e : Env) (s : State) (op : Op) :
    (step cx e s op).err = (stepBody cx e s op).err := by
  unfold step
  split
  · exact atomic_err _ _
  · rfl

/-- an accepted operation is exactly its body -/
theorem C04_squeeth_accepted_is_body (cx : NumCtx) (e : Env) (s : State) (op : Op)
    (h : (step cx e s op).err = none) : step cx e s op = stepBody cx e s op := by
  unfold step at h ⊢
  split at h
  · rename_i hop; simp only [hop, if_true]; exact (atomic_ok h).2
  · rename_i hop; simp only [hop]; rfl

/-- **a rejected `buy_squeeth` / `sell_squeeth` leaves the whole state unchanged**: both parameter forms, every rejection
    cause (no amount at all, a zero squeeth-row price under an ETH amount, negative amount, more than the wallet holds, token
    missing from the wallet, zero pool price), every state, every context -/
theorem C04_squeeth_rejected_trade_leaves_state_intact (cx : NumCtx) (e : Env) (s : State) (op : Op)
    (hop : op.isTrade = true) (h : (step cx e s op).err ≠ none) : (step cx e s op).st = s := by
  cases op with
  | buy o q => exact buy_rejected cx e s o q h
  | sell o q => exact sell_rejected cx e s o q h
  | _ => simp [Op.isTrade] at hop

/-- … and returns nothing -/
theorem C04_squeeth_rejected_trade_returns_nothing (cx : NumCtx) (e : Env) (s : State) (op : Op)
    (hop : op.isTrade = true) (h : (step cx e s op).err ≠ none) : (step cx e s op).out = [] := by
  have key : ∀ (r : Uni.Res), (fromUni s r).err ≠ none → (fromUni s r).out = [] := by
    intro r hr
    unfold fromUni at hr ⊢
    cases h1 : r.1 with
    | ok v => simp [h1] at hr
    | error er => simp [Res.fail]
  cases op with
  | buy o q =>
    simp only [step, stepBody, Op.isAtomic, Bool.false_eq_true, if_false, buySqueethOp] at h ⊢
    split
    · rfl
    · rfl
    · rename_i a ha; rw [ha] at h; exact key _ h
  | sell o q =>
    simp only [step, stepBody, Op.isAtomic, Bool.false_eq_true, if_false, sellSqueethOp] at h ⊢
    split
    · rfl
    · rfl
    · rename_i a ha; rw [ha] at h; exact key _ h
  | _ => simp [Op.isTrade] at hop

/-- **every operation a strategy can call on the Squeeth market** — the vault operations and the long side — leaves the state
    unchanged when it is rejected -/
theorem C04_squeeth_user_operation_rejected_leaves_state_intact (cx : NumCtx) (e : Env) (s : State) (op : Op)
    (hop : op.isAtomic = true ∨ op.isTrade = true) (h : (step cx e s op).err ≠ none) : (step cx e s op).st = s := by
  rcases hop with hop | hop
  · exact C04_squeeth_rejected_leaves_state_intact cx e s op hop h
  · exact C04_squeeth_rejected_trade_leaves_state_intact cx e s op hop h

namespace Squeeth
/-- states reachable from `s` by accepted `liquidate` transactions -/
inductive ByLiquidations (cx : NumCtx) (e : Env) : State → State → Prop
  | refl (s : State) : ByLiquidations cx e s s
  | step (s : State) (vk : Nat) (s' : State) :
      (liquidateOp cx e s vk).err = none → ByLiquidations cx e (liquidateOp cx e s vk).st s' → ByLiquidations cx e s s'
end Squeeth

/-- **`update` per constituent transaction**: whatever happens — also when a `liquidate` inside it raises — the
    state `update` leaves behind is the result of the accepted `liquidate` calls made so far; the rejected call
    itself contributes nothing -/
theorem C04_squeeth_update_per_transaction (cx : NumCtx) (e : Env) (ks : List Nat) (s : State) :
    ByLiquidations cx e s (updateGo (liquidateOp cx e) cx e ks s).st := by
  induction ks generalizing s with
  | nil => exact .refl s
  | cons k rest ih =>
    rw [updateGo]
    cases hv : vaultStatus cx e s k with
    | error er => exact .refl s
    | ok p =>
      obtain ⟨safe, dust⟩ := p
      cases safe with
      | true => simp only [if_true]; exact ih s
      | false =>
        simp only [Bool.false_eq_true, if_false]
        cases hl : (liquidateOp cx e s k).err with
        | some er =>
          rw [Res.andThen_of_err _ hl]
          have : (liquidateOp cx e s k).st = s := by
            unfold liquidateOp at hl ⊢
            exact atomic_rejected s _ (by rw [hl]; simp)
          rw [this]; exact .refl s
        | none =>
          rw [Res.andThen_of_ok _ hl]
          exact .step s k _ hl (ih _)

/-- the pool refuses `remove_liquidity` on a position that is lent to a vault, touching nothing -/
theorem C04_squeeth_lent_position_guard (cx : NumCtx) (e : Env) (s : State) (pos : PosKey) (p : UPos)
    (hp : AList.get? s.positions pos = some p) (ht : p.transferred = true) :
    step cx e s (.uniRemove pos) = .fail (.demeter "transferred-out") s := by
  unfold step stepBody uniRemoveOp
  simp only [Op.isAtomic, Bool.false_eq_true, if_false, hp, ht, if_true]

/-! ### the rejection causes, each on a concrete state (non-vacuity; `py` = the driver's context) -/
namespace Squeeth
def c04Env : Env := { nf := 1/2, weth := 2000, osqth := 1/10, now := none, rows := [], uniPrice := 1/10, uniOpen := true, mean := fun _ => 0 }
def c04Pos : UPos := { liquidity := 10^19, pending0 := 0, pending1 := 0, transferred := false }
def c04State : State :=
  { wallet := [("WETH", 10), ("OSQTH", 5)],
    vaults := [(1, { coll := 3, short := 10, nft := none }), (2, { coll := 1, short := 1, nft := some (18000, 21000) })],
    maxId := 2, positions := [((21000, 25020), c04Pos), ((18000, 21000), { c04Pos with transferred := true })], log := [] }
def c04Cause (op : Op) : Option String := (step NumCtx.py c04Env c04State op).err.map Err.cause
end Squeeth

example : c04Cause (.openMint 1 66 none none) = some "unsafe" := by decide +kernel
example : c04Cause (.openMint (1/5) (1/10) none none) = some "dust" := by decide +kernel
example : c04Cause (.openMint 11 1 none none) = some "insufficient" := by decide +kernel
example : c04Cause (.openMint 1 1 (some 7) none) = some "key:vault" := by decide +kernel
example : c04Cause (.openMint 1 1 none (some (60, 120))) = some "position-not-in-pool" := by decide +kernel
example : c04Cause (.openMint 1 1 none (some (18000, 21000))) = some "already-transferred" := by decide +kernel
example : c04Cause (.deposit 1 11) = some "insufficient" := by decide +kernel
example : c04Cause (.deposit 1 (-1)) = some "negative-deposit" := by decide +kernel
example : c04Cause (.deposit 9 1) = some "key:vault" := by decide +kernel
example : c04Cause (.depositUni 2 (21000, 25020)) = some "already-has-nft" := by decide +kernel
example : c04Cause (.depositUni 1 (18000, 21000)) = some "already-transferred" := by decide +kernel
example : c04Cause (.withdrawUni 1 (18000, 21000)) = some "not-deposited" := by decide +kernel
example : c04Cause (.withdrawUni 9 (18000, 21000)) = some "vault-not-exist" := by decide +kernel
example : c04Cause (.burnWithdraw 1 0 2) = some "unsafe" := by decide +kernel
example : c04Cause (.burnWithdraw 1 6 0) = some "insufficient" := by decide +kernel
example : c04Cause (.burnWithdraw 9 1 1) = some "vault-not-exist" := by decide +kernel
example : c04Cause (.liquidate 1) = some "safe-vault" := by decide +kernel
example : c04Cause (.liquidate 9) = some "vault-not-exist" := by decide +kernel
example : c04Cause (.uniRemove (18000, 21000)) = some "transferred-out" := by decide +kernel
-- the long side: no amount, more than the wallet holds (WETH for a buy, oSQTH for a sell), negative amounts, a zero price
example : c04Cause (.buy none none) = some "amount-none" := by decide +kernel
example : c04Cause (.sell none none) = some "amount-none" := by decide +kernel
example : c04Cause (.buy (some 1000) none) = some "uni:AssertionError" := by decide +kernel
example : c04Cause (.buy none (some 100)) = some "uni:AssertionError" := by decide +kernel
example : c04Cause (.sell (some 6) none) = some "uni:AssertionError" := by decide +kernel
example : c04Cause (.buy (some (-1)) none) = some "uni:DemeterError" := by decide +kernel
example : c04Cause (.sell none (some (-1))) = some "uni:DemeterError" := by decide +kernel
example : ((step NumCtx.py { c04Env with osqth := 0 } c04State (.buy none (some 1))).err.map Err.cause) = some "uni:DivisionByZero" := by decide +kernel
example : ((step NumCtx.py { c04Env with uniPrice := 0 } c04State (.buy (some 1) none)).err.map Err.cause) = some "uni:DivisionByZero" := by decide +kernel
example : (step NumCtx.py c04Env c04State (.buy (some 1000) none)).st = c04State := by decide +kernel
-- … while a trade the wallet can pay is accepted and does change it (a closed pool does not refuse it)
example : (step NumCtx.py { c04Env with uniOpen := false } c04State (.buy (some 10) none)).err = none := by decide +kernel
example : (step NumCtx.py c04Env c04State (.sell none (some (1/10)))).st.wallet ≠ c04State.wallet := by decide +kernel
-- and in each of them the state is untouched, e.g.
example : (step NumCtx.py c04Env c04State (.openMint 1 66 none none)).st = c04State := by decide +kernel

/-- why the wrapper is needed: the *body* of `open_deposit_mint` alone (the code before the repair) leaves the new
    vault, the minted oSQTH and three action records behind when the collateral check fails -/
theorem C04_squeeth_body_alone_is_not_atomic :
    ¬ (∀ (e : Env) (s : State) (op : Op), (stepBody NumCtx.py e s op).err ≠ none → (stepBody NumCtx.py e s op).st = s) := by
  intro h
  have := h c04Env c04State (.openMint 1 66 none none) (by decide +kernel)
  revert this
  decide +kernel

end Demeter
