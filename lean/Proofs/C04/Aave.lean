/-
  C04 (Aave part) — a rejected Aave operation leaves wallet, supplies, borrows and the action log exactly as they
  were: `St.core` (the five caches may have been *filled* by the checks a rejected call performed; by C13 they
  stay coherent, so every view as observed is unchanged too).

  Model: `Demeter.Aave` = `/repo/demeter/aave/market.py` after the repairs 07ef1e2 (withdraw undoes its trial
  deduction before the health-factor raise), 236eb3f (supply checks the collateral flag before debiting the wallet),
  8d1be35 (non-positive amounts rejected up front).  All theorems hold for every arithmetic context; those for
  supply / withdraw / borrow / repay / reads need **no hypothesis at all** on the state or the bar's data (every
  rejection cause, including `KeyError`s from missing data and arithmetic errors from zero indices or prices).
-/
import Proofs.Lemmas.AaveReject2
namespace Demeter
open Aave

variable {cx : ACtx} {env : Env}

theorem aave_unitM_fst {m : M Unit} {s : St} {e : Err} (h : (unitM m s).1 = .error e) : (m s).1 = .error e := by
  unfold unitM mapM' at h
  rcases hm : m s with ⟨r, s1⟩
  rw [hm] at h
  cases r with
  | ok a => cases h
  | error e' => dsimp only at h ⊢; cases h; rfl

theorem aave_unitM_snd (m : M Unit) (s : St) : (unitM m s).2 = (m s).2 := by
  unfold unitM mapM'
  rcases m s with ⟨r, s1⟩
  cases r <;> rfl

/-- **supply** rejected (closed market, non-positive amount, token not usable as collateral, unknown token, zero
    index, collateral flag different from the existing supply, wallet short, token not in the wallet) ⇒ nothing changed. -/
theorem C04_aave_supply_reject_noop (s : St) (tok : String) (amount : Rat) (coll : Bool) (e : Err)
    (h : (step cx env s (.supply tok amount coll)).1 = .error e) :
    (step cx env s (.supply tok amount coll)).2.core = s.core := by
  show (unitM (supply cx env tok amount coll) s).2.core = _
  rw [aave_unitM_snd]
  exact ekp_supply s.core tok amount coll s rfl e (aave_unitM_fst h)

/-- **withdraw** rejected (closed, unknown token, nothing supplied, non-positive amount, more than the supply,
    health factor below 1 after the withdrawal, or the health-factor evaluation itself raising) ⇒ nothing changed:
    the trial deduction is undone on every path. -/
theorem C04_aave_withdraw_reject_noop (s : St) (tok : String) (amount : Option Rat) (e : Err)
    (h : (step cx env s (.withdraw tok amount)).1 = .error e) :
    (step cx env s (.withdraw tok amount)).2.core = s.core := by
  show (unitM (withdraw cx env tok amount) s).2.core = _
  rw [aave_unitM_snd]
  exact ekp_withdraw s.core tok amount s rfl e (aave_unitM_fst h)

/-- **borrow** rejected (closed, non-positive amount, unknown token, borrowing disabled, no collateral, LTV 0,
    health factor not above 1, collateral cannot cover, `0 × inf` for `amount=None` without collateral) ⇒ nothing changed. -/
theorem C04_aave_borrow_reject_noop (s : St) (tok : String) (amount : Option Rat) (e : Err)
    (h : (step cx env s (.borrow tok amount)).1 = .error e) :
    (step cx env s (.borrow tok amount)).2.core = s.core := by
  show (unitM (borrow cx env tok amount) s).2.core = _
  rw [aave_unitM_snd]
  exact ekp_borrow s.core tok amount s rfl e (aave_unitM_fst h)

/-- **repay** (cash or collateral) rejected (closed, unknown token, no such debt, collateral token not supplied /
    not collateral, non-positive amount, more than the debt, wallet short, token not in the wallet) ⇒ nothing
    changed; in particular once the collateral has been reduced the debt reduction cannot fail. -/
theorem C04_aave_repay_reject_noop (s : St) (tok : String) (amount : Option Rat) (withColl : Bool)
    (collTok : Option String) (e : Err)
    (h : (step cx env s (.repay tok amount withColl collTok)).1 = .error e) :
    (step cx env s (.repay tok amount withColl collTok)).2.core = s.core := by
  show (unitM (repay cx env tok amount withColl collTok) s).2.core = _
  rw [aave_unitM_snd]
  exact ekp_repay s.core tok amount withColl collTok s rfl e (aave_unitM_fst h)

/-- **change_collateral** rejected — closed market, nothing supplied (`KeyError`), token not admitted as collateral
    (`usageAsCollateralEnabled` false; checked before anything is written), health factor below 1 after switching the flag
    off, **or the health-factor evaluation itself raising** (cause `hfRaises`: a held token without a price / risk row in this
    bar, a zero index — `KeyError` / `ArithmeticError`) ⇒ nothing changed: the flag is written back on both failure
    paths (repair 65bb898; before it the second one kept the flipped flag, `C04_aave_fails_changeCollateral_hf_raises_pre_fix`).
    No hypothesis on the state or the bar (the former version assumed a coherent state, where that evaluation cannot
    raise). -/
theorem C04_aave_changeCollateral_reject_noop (s : St) (tok : String) (coll : Bool) (e : Err)
    (h : (step cx env s (.changeCollateral tok coll)).1 = .error e) :
    (step cx env s (.changeCollateral tok coll)).2.core = s.core := by
  show (unitM (changeCollateral cx env tok coll) s).2.core = _
  rw [aave_unitM_snd]
  exact changeCollateral_reject s tok coll e (aave_unitM_fst h)

/-- a **rejected read** (`get_supply` / `get_borrow` of an absent token, `get_max_borrow_amount` without
    collateral, a `KeyError` from missing data, `quantize` overflow) ⇒ nothing changed; nor does an accepted one. -/
theorem C04_aave_read_noop (s : St) (v : View) : (step cx env s (.read v)).2.core = s.core :=
  (readInv_core (cx := cx) (env := env) s.core).readView v s rfl

/-- **closed market**: every write (`write_func`) is refused with `DemeterError` and the whole state — caches
    included — is untouched. -/
theorem C04_aave_closed_noop (s : St) (hc : env.isOpen = false) (op : Op)
    (hop : ∀ v, op ≠ .read v) (hnb : op ≠ .newBar) : step cx env s op = (.error .closed, s) := by
  cases op with
  | supply t a c => simp [step, unitM, mapM', supply, guardOpen, hc, run_bind]
  | withdraw t a => simp [step, unitM, mapM', withdraw, guardOpen, hc, run_bind]
  | borrow t a => simp [step, unitM, mapM', borrow, guardOpen, hc, run_bind]
  | repay t a w c => simp [step, unitM, mapM', repay, guardOpen, hc, run_bind]
  | changeCollateral t c => simp [step, unitM, mapM', changeCollateral, guardOpen, hc, run_bind]
  | update => simp [step, unitM, mapM', liquidate, guardOpen, hc, run_bind]
  | read v => exact absurd rfl (hop v)
  | newBar => exact absurd rfl hnb

/-- the user-facing summary, **any state and any bar data**: whichever user operation is rejected and for whatever cause
    (including exceptions from missing rows and zero indices), supplies, borrows, wallet and action log are exactly as before -/
theorem C04_aave_reject_noop_any_state (s : St) (op : Op) (hu : op ≠ .update) (e : Err)
    (h : (step cx env s op).1 = .error e) : (step cx env s op).2.core = s.core := by
  cases op with
  | supply t a c => exact C04_aave_supply_reject_noop s t a c e h
  | withdraw t a => exact C04_aave_withdraw_reject_noop s t a e h
  | borrow t a => exact C04_aave_borrow_reject_noop s t a e h
  | repay t a w c => exact C04_aave_repay_reject_noop s t a w c e h
  | changeCollateral t c => exact C04_aave_changeCollateral_reject_noop s t c e h
  | update => exact absurd rfl hu
  | read v => exact C04_aave_read_noop s v
  | newBar => simp [step, unitM, mapM', newBar] at h

/-- the former statement (coherent states only), kept as a corollary -/
theorem C04_aave_reject_noop (s : St) (_hs : Good cx env s) (op : Op) (hu : op ≠ .update) (e : Err)
    (h : (step cx env s op).1 = .error e) : (step cx env s op).2.core = s.core :=
  C04_aave_reject_noop_any_state s op hu e h

/-! ### non-vacuity: concrete rejected calls on a concrete portfolio -/

/-- exact arithmetic -/
def c04AaveCx : ACtx := { rnd := id, dsqrt := dsqrt35, dpow := fun x n => x ^ n }

def c04AaveEnv : Env :=
  { status := [("WETH", ⟨1/100, 3/100, 11/10, 12/10⟩), ("USDC", ⟨1/100, 3/100, 1, 1⟩)],
    price := [("WETH", 1000), ("USDC", 1)],
    risk := [("WETH", ⟨true, 8/10, 825/1000, 5/100, true⟩), ("USDC", ⟨true, 8/10, 85/100, 4/100, true⟩)],
    isOpen := true }

/-- 10 WETH-scaled collateral, 7000 USDC debt, 5 WETH in the wallet -/
def c04AaveSt : St :=
  { St.init with supplies := [("WETH", ⟨10, true, 1⟩)], borrows := [("USDC", ⟨7000, 1⟩)], wallet := [("WETH", 5)] }

/-- `r` is the rejection `e` -/
def c04AaveErrIs {α : Type} (r : Res α) (e : Err) : Bool :=
  match r with
  | .error e' => e' == e
  | .ok _ => false

-- withdrawing 6 WETH would sink the health factor: rejected with `hfLow`, and the supply is still 10
example : c04AaveErrIs (step c04AaveCx c04AaveEnv c04AaveSt (.withdraw "WETH" (some 6))).1 .hfLow = true := by decide +kernel
example : (step c04AaveCx c04AaveEnv c04AaveSt (.withdraw "WETH" (some 6))).2.supplies = c04AaveSt.supplies := by
  decide +kernel
-- a supply with the wrong collateral flag is rejected and the wallet keeps its 5 WETH
example : c04AaveErrIs (step c04AaveCx c04AaveEnv c04AaveSt (.supply "WETH" 2 false)).1 .flagMismatch = true := by decide +kernel
example : (step c04AaveCx c04AaveEnv c04AaveSt (.supply "WETH" 2 false)).2.wallet = [("WETH", 5)] := by decide +kernel
-- a negative amount is refused
example : c04AaveErrIs (step c04AaveCx c04AaveEnv c04AaveSt (.borrow "USDC" (some (-1)))).1 .zeroAmount = true := by decide +kernel


/-! ### the defect repaired by 65bb898: the health-factor read raising inside `change_collateral` -/

/-- the bar of `c04AaveEnv` without a price for USDC (the debt token) -/
def c04AaveEnvNoPrice : Env := { c04AaveEnv with price := [("WETH", 1000)] }

/-- `change_collateral` as it was before the repair: flag flipped, `health_factor` read with no handler -/
def c04ChangeCollateralPreFix (cx : ACtx) (env : Env) (tok : String) (coll : Bool) : M Unit := do
  guardOpen env
  let info ← lookupSupply tok
  if info.coll == coll then setUpdated
  else do
    commitFlag tok { info with coll := coll }
    if !coll then do
      let hf ← healthFactor cx env
      if hf.ltR Gen.aaveHfThreshold then do
        commitFlag tok info
        M.throw .hfLow
      else pure ()
    else pure ()
    setUpdated

-- the repaired call: `KeyError` from the price lookup, and WETH is still flagged as collateral
example : c04AaveErrIs (step c04AaveCx c04AaveEnvNoPrice c04AaveSt (.changeCollateral "WETH" false)).1 .keyPrice = true := by
  decide +kernel
example : (step c04AaveCx c04AaveEnvNoPrice c04AaveSt (.changeCollateral "WETH" false)).2.supplies = c04AaveSt.supplies := by
  decide +kernel

/-- **witness of the pre-fix behaviour**: 10 WETH collateral, 7000 USDC debt, a bar whose price vector lacks USDC:
    `change_collateral(WETH, False)` raised `KeyError` and left `_supplies[WETH].collateral == False` — a rejected call
    that changed the position. -/
theorem C04_aave_fails_changeCollateral_hf_raises_pre_fix :
    c04AaveErrIs (c04ChangeCollateralPreFix c04AaveCx c04AaveEnvNoPrice "WETH" false c04AaveSt).1 .keyPrice = true ∧
    (c04ChangeCollateralPreFix c04AaveCx c04AaveEnvNoPrice "WETH" false c04AaveSt).2.core ≠ c04AaveSt.core := by
  decide +kernel

end Demeter
