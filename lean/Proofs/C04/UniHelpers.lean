/-
  C04, Uniswap part, multi-step helpers: when `remove_liquidity(collect=True)`, `remove_all_liquidity` or
  `add_liquidity_by_value` raises, the state left behind is exactly what the constituent transactions that
  completed (each an accepted single transaction) produced — the failing constituent left no trace.
-/
import Proofs.C04.Uni
namespace Demeter.Uni
open Demeter

/-- a run of accepted single transactions from `s` to `s'` -/
def TxPath (K : Kern) (pool : Pool) (me : Rat) (s s' : State) : Prop :=
  ∃ txs : List Op, (∀ t ∈ txs, t.atomic = true) ∧ Accepted K pool me s txs ∧ s' = runOps K pool me s txs

theorem TxPath.refl (K : Kern) (pool : Pool) (me : Rat) (s : State) : TxPath K pool me s s :=
  ⟨[], (fun _ h => by cases h), trivial, rfl⟩

theorem Accepted.append {K : Kern} {pool : Pool} {me : Rat} : ∀ {s : State} {a b : List Op},
    Accepted K pool me s a → Accepted K pool me (runOps K pool me s a) b → Accepted K pool me s (a ++ b)
  | _, [], _, _, hb => hb
  | s, op :: a, b, ha, hb => ⟨ha.1, Accepted.append (s := (step K pool me s op).2) ha.2 hb⟩

theorem runOps_append (K : Kern) (pool : Pool) (me : Rat) : ∀ (s : State) (a b : List Op),
    runOps K pool me s (a ++ b) = runOps K pool me (runOps K pool me s a) b
  | _, [], _ => rfl
  | s, op :: a, b => runOps_append K pool me _ a b

theorem TxPath.trans {K : Kern} {pool : Pool} {me : Rat} {a b c : State} (h1 : TxPath K pool me a b)
    (h2 : TxPath K pool me b c) : TxPath K pool me a c := by
  obtain ⟨t1, a1, c1, e1⟩ := h1
  obtain ⟨t2, a2, c2, e2⟩ := h2
  refine ⟨t1 ++ t2, ?_, ?_, ?_⟩
  · intro t ht; rcases List.mem_append.mp ht with h | h
    · exact a1 t h
    · exact a2 t h
  · exact Accepted.append c1 (by rw [← e1]; exact c2)
  · rw [runOps_append, ← e1]; exact e2

/-- one accepted single transaction -/
theorem TxPath.single {K : Kern} {pool : Pool} {me : Rat} {s : State} (op : Op) (ha : op.atomic = true)
    {v : List Rat} (hok : (step K pool me s op).1 = .ok v) : TxPath K pool me s (step K pool me s op).2 :=
  ⟨[op], (fun t ht => by simp at ht; subst ht; exact ha), ⟨⟨v, hok⟩, trivial⟩, rfl⟩

/-- an accepted `remove_liquidity(collect=False)` is one accepted single transaction -/
theorem removeNoCollect_path {K : Kern} {pool : Pool} {me : Rat} {s s2 : State} {lo up : Int} {l : Option Int}
    {sq : Option Nat} (rd : Bool) {v : List Rat} (h : removeNoCollect K pool s lo up l sq = (.ok v, s2)) :
    TxPath K pool me s s2 := by
  have hs : step K pool me s (.remove lo up l false sq rd) = (.ok v, s2) := by
    simp only [step, remove, h, Bool.false_eq_true, if_false]
  have := TxPath.single (K := K) (pool := pool) (me := me) (s := s) (.remove lo up l false sq rd) rfl (v := v)
    (by rw [hs])
  rw [hs] at this; exact this

/-- `remove_liquidity` (with or without collect) that raises: the state is what the completed constituents left -/
theorem remove_path (K : Kern) (pool : Pool) (me : Rat) (s : State) (lo up : Int) (l : Option Int) (c : Bool)
    (sq : Option Nat) (rd : Bool) (hi : PosImpliesWallet pool s) :
    TxPath K pool me s (remove K pool s lo up l c sq rd).2 := by
  unfold remove
  have ha := removeNoCollect_atomic K pool s lo up l sq hi
  split
  · rename_i e s' heq
    rw [heq] at ha
    rcases ha with h | ⟨_, hv⟩
    · show TxPath K pool me s s'
      have : s' = s := h
      rw [this]; exact TxPath.refl ..
    · cases hv
  · rename_i v s2 heq
    have p1 := removeNoCollect_path (me := me) rd heq
    split
    · -- then collect_fee on s2: accepted (one more transaction) or rejected (no trace)
      have hc := collect_atomic K pool s2 lo up none none rd true (Or.inl rfl)
      cases hres : (collect K pool s2 lo up none none rd true).1 with
      | error e => rw [hc.noop hres]; exact p1
      | ok w =>
        have hs : (step K pool me s2 (.collect lo up none none rd true)).1 = .ok w := by simp only [step]; exact hres
        have p2 := TxPath.single (K := K) (pool := pool) (me := me) (s := s2) (.collect lo up none none rd true) rfl hs
        exact TxPath.trans p1 (by simpa only [step] using p2)
    · exact p1

theorem removeAllLoop_path (K : Kern) (pool : Pool) (me : Rat) : ∀ (ks : List (Int × Int)) (s : State),
    PosImpliesWallet pool s → TxPath K pool me s (removeAllLoop K pool ks s).2
  | [], s, _ => TxPath.refl ..
  | (lo, up) :: ks, s, hi => by
    unfold removeAllLoop
    have h := remove_path K pool me s lo up none true none true hi
    have hw := remove_wrel K pool s lo up none true none true
    split
    · rename_i heq; rw [heq] at h; exact h
    · rename_i heq; rw [heq] at h hw
      exact TxPath.trans h (removeAllLoop_path K pool me ks _ (hw.inv hi))

/-- an accepted or rejected `swap` as a path -/
theorem swap_path (K : Kern) (pool : Pool) (me : Rat) (s : State) (a : Rat) (f t : String) (p : Option Rat) (log : Bool) :
    TxPath K pool me s (swap K pool s a f t p log).2 := by
  have ha := swap_atomic K pool s a f t p log
  cases hres : (swap K pool s a f t p log).1 with
  | error e => rw [ha.noop hres]; exact TxPath.refl ..
  | ok w =>
    have hs : step K pool me s (.swap a f t p log) = (.ok [w.1, w.2], (swap K pool s a f t p log).2) := by
      simp only [step]
      split
      · rename_i heq; rw [heq] at hres; cases hres
      · rename_i heq; rw [heq] at hres ⊢; injection hres with hres; subst hres; rfl
    have := TxPath.single (K := K) (pool := pool) (me := me) (s := s) (.swap a f t p log) rfl (v := [w.1, w.2]) (by rw [hs])
    rw [hs] at this; exact this

theorem addByTick_path (K : Kern) (pool : Pool) (me : Rat) (s : State) (lo up : Int) (b q : Option Rat) (sq : Option Nat)
    (t : Option Int) (trim : Bool) : TxPath K pool me s (addByTick K pool s lo up b q sq t trim).2 := by
  have ha := addByTick_atomic K pool s lo up b q sq t trim
  cases hres : (addByTick K pool s lo up b q sq t trim).1 with
  | error e => rw [ha.noop hres]; exact TxPath.refl ..
  | ok w =>
    have hs : (step K pool me s (.addByTick lo up b q sq t trim)).1 = .ok w := by simp only [step]; exact hres
    have := TxPath.single (K := K) (pool := pool) (me := me) (s := s) (.addByTick lo up b q sq t trim) rfl hs
    simpa only [step] using this

theorem TxPath.ofEq {α : Type} {K : Kern} {pool : Pool} {me : Rat} {s s' : State} {r : α × State} {x : α}
    (h : TxPath K pool me s r.2) (heq : r = (x, s')) : TxPath K pool me s s' := by rw [heq] at h; exact h

theorem optSwapFee_path (K : Kern) (pool : Pool) (me : Rat) (s : State) (c : Bool) (a : Rat) (f t : String) :
    TxPath K pool me s (optSwapFee K pool s c a f t).2 := by
  unfold optSwapFee
  split
  · have h := swap_path K pool me s a f t none true
    split
    · rename_i heq; exact TxPath.ofEq h heq
    · rename_i heq; exact TxPath.ofEq h heq
  · exact TxPath.refl ..

theorem swapValue_path (K : Kern) (pool : Pool) (me : Rat) (s : State) (b : Bool) (v p : Rat) :
    TxPath K pool me s (swapValue K pool s b v p).2 := by
  unfold swapValue
  repeat' split
  all_goals first
    | exact TxPath.refl ..
    | exact swap_path ..

theorem addValues_path (K : Kern) (pool : Pool) (me : Rat) (s : State) (lo up : Int) (p a b : Rat) :
    TxPath K pool me s (addValues K pool s lo up p a b).2 := by
  unfold addValues
  split
  · exact TxPath.refl ..
  · exact addByTick_path ..

theorem addByValueInRange_path (K : Kern) (pool : Pool) (me : Rat) (s : State) (lo up t : Int) (p v r : Rat) :
    TxPath K pool me s (addByValueInRange K pool s lo up t p v r).2 := by
  unfold addByValueInRange
  try simp only []
  repeat' split
  all_goals first
    | exact TxPath.refl ..
    | exact addValues_path ..
    | (rename_i heq; exact TxPath.ofEq (swapValue_path ..) heq)
    | (rename_i heq; exact TxPath.trans (TxPath.ofEq (swapValue_path ..) heq) (addValues_path ..))

theorem addByValue_path (K : Kern) (pool : Pool) (me : Rat) (s : State) (lo up : Int) (v : Option Rat) (trim : Bool)
    (o : ByValueOracle) : TxPath K pool me s (addByValue K pool me s lo up v trim o).2 := by
  unfold addByValue
  try simp only []
  repeat' split
  all_goals first
    | exact TxPath.refl ..
    | exact addByValueInRange_path ..
    | (rename_i heq; exact TxPath.ofEq (optSwapFee_path ..) heq)
    | (rename_i heq; exact TxPath.trans (TxPath.ofEq (optSwapFee_path ..) heq) (addByTick_path ..))

end Demeter.Uni

namespace Demeter
open Demeter.Uni

/-- **Multi-step helpers, per constituent transaction.** Whatever operation raises — a single transaction or
    one of the helpers `remove_liquidity(collect=True)`, `remove_all_liquidity`, `add_liquidity_by_value` — the
    state it leaves behind is the result of running a list of *accepted single transactions* from the state
    before (the empty list for a single transaction: nothing changed). The constituent that failed left no
    trace. -/
theorem C04_uni_helper_per_tx (K : Kern) (pool : Pool) (minError : Rat) (s : State) (op : Op) (e : Err)
    (hinv : PosImpliesWallet pool s) (hrej : (step K pool minError s op).1 = .error e) :
    ∃ txs : List Op, (∀ t ∈ txs, t.atomic = true) ∧ Accepted K pool minError s txs ∧
      (step K pool minError s op).2 = runOps K pool minError s txs := by
  by_cases ha : op.atomic = true
  · exact ⟨[], (fun _ h => by cases h), trivial, C04_uni_reject_noop K pool minError s op e hinv ha hrej⟩
  · cases op <;> simp [Op.atomic] at ha
    case remove lo up l c sq rd => simp only [step]; exact remove_path K pool minError s lo up l c sq rd hinv
    case removeAll => simp only [step]; exact removeAllLoop_path K pool minError _ s hinv
    case addByValue lo up v trim o => simp only [step]; exact addByValue_path K pool minError s lo up v trim o

end Demeter
