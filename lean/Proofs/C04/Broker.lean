/-
  C04 (wallet/broker part) — a rejected wallet debit or broker swap leaves the wallet exactly as it was: every
  check (`fee_rate` range, price lookups, `Asset.sub`'s overdraft test) precedes the first mutation.
  The statements are about the model's "state the code leaves behind"; the correspondence run compares that
  state with the real wallet after the real exception.
-/
import Demeter.Broker
namespace Demeter

/-- `Broker.subtract_from_balance` refused ⇒ no wallet is produced (the Python object is untouched: `Asset.sub`
    raises before assigning) — the model returns the error without a successor state. -/
theorem C04_wallet_debit_reject_noop (cx : NumCtx) (w : Wallet) (tok : String) (amount : Rat) (allowNeg : Bool)
    (e : WalletErr) (h : Wallet.debit cx w tok amount allowNeg = .error e) :
    (e = .insufficient ∧ ∃ b, AList.get? w tok = some b ∧ assetSub cx b amount allowNeg = none) ∨
    (e = .unknownToken ∧ AList.get? w tok = none ∧ allowNeg = false) := by
  unfold Wallet.debit at h
  cases hb : AList.get? w tok with
  | some b =>
    simp only [hb] at h
    cases hs : assetSub cx b amount allowNeg with
    | some b' => simp [hs] at h
    | none =>
      simp only [hs] at h
      injection h with h
      exact Or.inl ⟨h.symm, b, rfl, hs⟩
  | none =>
    simp only [hb] at h
    cases allowNeg with
    | true => simp at h
    | false =>
      simp only [Bool.false_eq_true, if_false] at h
      injection h with h
      exact Or.inr ⟨h.symm, rfl, rfl⟩

/-- a rejected `swap_by_from` leaves the wallet intact, whatever the cause -/
theorem C04_broker_swap_from_reject_noop (cx : NumCtx) (w w' : Wallet) (allowNeg : Bool) (f t : String)
    (amount feeRate : Rat) (p : Prices) (e : BrokerErr)
    (h : swapByFrom cx w allowNeg f t amount p feeRate = .error (e, w')) : w' = w := by
  unfold swapByFrom at h
  repeat' (first | split at h | (simp only [] at h; split at h))
  all_goals first
    | (injection h with h; injection h with _ h; exact h.symm)
    | (exact absurd h (by simp))

/-- a rejected `swap_by_to` leaves the wallet intact, whatever the cause -/
theorem C04_broker_swap_to_reject_noop (cx : NumCtx) (w w' : Wallet) (allowNeg : Bool) (f t : String)
    (amount feeRate : Rat) (p : Prices) (e : BrokerErr)
    (h : swapByTo cx w allowNeg f t amount p feeRate = .error (e, w')) : w' = w := by
  unfold swapByTo at h
  repeat' (first | split at h | (simp only [] at h; split at h))
  all_goals first
    | (injection h with h; injection h with _ h; exact h.symm)
    | (exact absurd h (by simp))

/-- the fix for negative amounts: they are rejected before anything is touched -/
theorem C04_broker_swap_negative_rejected (cx : NumCtx) (w : Wallet) (allowNeg : Bool) (f t : String)
    (amount feeRate : Rat) (p : Prices) (hneg : amount < 0) :
    (∃ e, swapByFrom cx w allowNeg f t amount p feeRate = .error (e, w)) ∧
    (∃ e, swapByTo cx w allowNeg f t amount p feeRate = .error (e, w)) := by
  unfold swapByFrom swapByTo
  constructor <;> split <;> first | exact ⟨_, rfl⟩ | (rw [if_pos hneg]; exact ⟨_, rfl⟩)

/-! ### the amount handed over as `float` / `int` (fix 83dd7db), `allow_negative_balance` on -/

/-- whatever the class of the amount argument (Decimal, int, float), whatever `allow_negative_balance`: a swap either
    returns its one action record, or raises with the wallet exactly as it was — there is no third outcome (before the
    fix there was: `TypeError` after debit and credit, see the witness below) -/
theorem C04_broker_swap_any_argument_atomic (cx : NumCtx) (w : Wallet) (allowNeg : Bool) (f t : String)
    (a : PyAmount) (feeRate : Rat) (p : Prices) :
    ((∃ r, swapByFromArg cx w allowNeg f t a p feeRate = .ok r) ∨ (∃ e, swapByFromArg cx w allowNeg f t a p feeRate = .error (e, w))) ∧
    ((∃ r, swapByToArg cx w allowNeg f t a p feeRate = .ok r) ∨ (∃ e, swapByToArg cx w allowNeg f t a p feeRate = .error (e, w))) := by
  unfold swapByFromArg swapByToArg
  constructor
  · cases h : swapByFrom cx w allowNeg f t (objectToDecimal a) p feeRate with
    | ok r => exact Or.inl ⟨r, rfl⟩
    | error ew =>
      obtain ⟨e, w'⟩ := ew
      rw [C04_broker_swap_from_reject_noop cx w w' allowNeg f t _ feeRate p e h]
      exact Or.inr ⟨e, rfl⟩
  · cases h : swapByTo cx w allowNeg f t (objectToDecimal a) p feeRate with
    | ok r => exact Or.inl ⟨r, rfl⟩
    | error ew =>
      obtain ⟨e, w'⟩ := ew
      rw [C04_broker_swap_to_reject_noop cx w w' allowNeg f t _ feeRate p e h]
      exact Or.inr ⟨e, rfl⟩

/-- with `allow_negative_balance` the wallet never refuses: the rejection causes left are the ones checked before the
    first mutation (fee range, negative amount, missing price, zero price) -/
theorem C04_broker_swap_allow_negative_causes (cx : NumCtx) (w w' : Wallet) (f t : String) (amount feeRate : Rat) (p : Prices)
    (e : BrokerErr) (h : swapByFrom cx w true f t amount p feeRate = .error (e, w') ∨ swapByTo cx w true f t amount p feeRate = .error (e, w')) :
    e ≠ .insufficient ∧ e ≠ .unknownToken := by
  have hs : ∀ b a, ∃ b', assetSub cx b a true = some b' := by
    intro b a
    by_cases h0 : (if b = 0 then a else b) = 0
    · exact ⟨b, by simp [assetSub, h0]⟩
    · exact ⟨cx.sub b a, by simp [assetSub, h0]⟩
  have hd : ∀ tok a, ∃ w1, Wallet.debit cx w tok a true = .ok w1 := by
    intro tok a
    unfold Wallet.debit
    cases AList.get? w tok with
    | none => exact ⟨_, rfl⟩
    | some b =>
      obtain ⟨b', hb'⟩ := hs b a
      simp only [hb']
      exact ⟨_, rfl⟩
  have hne : ∀ tok a e', Wallet.debit cx w tok a true ≠ .error e' := by
    intro tok a e' he
    obtain ⟨w1, h1⟩ := hd tok a
    rw [h1] at he
    exact absurd he (by simp)
  rcases h with h | h
  · unfold swapByFrom at h
    repeat' (first | split at h | (simp only [] at h; split at h))
    all_goals first
      | (rename_i hh; exact absurd hh (hne _ _ _))
      | (injection h with h; injection h with h _; subst h; exact ⟨by decide, by decide⟩)
      | (exact absurd h (by simp))
  · unfold swapByTo at h
    repeat' (first | split at h | (simp only [] at h; split at h))
    all_goals first
      | (rename_i hh; exact absurd hh (hne _ _ _))
      | (injection h with h; injection h with h _; subst h; exact ⟨by decide, by decide⟩)
      | (exact absurd h (by simp))

/-- the defect repaired by 83dd7db, on the reviewer's input: `swap_by_from(USDC, ETH, 100.5 : float)`, wallet
    1000 USDC / 1 ETH, a record callback attached: the unformatted body raised `TypeError` and left 899.5 USDC /
    1.05009925 ETH behind; the formatted call returns the record. -/
theorem C04_broker_swap_float_defect_before_fix :
    (match swapByFromUnformatted NumCtx.py [("USDC", 1000), ("ETH", 1)] false "USDC" "ETH" (.float (201/2)) (201/2)
              [("USDC", 1), ("ETH", 2000)] (3/1000) with
      | .error ew => some ew | .ok _ => none) = some ("TypeError", [("USDC", 1799/2), ("ETH", 4200397/4000000)]) ∧
    (swapByFromArg NumCtx.py [("USDC", 1000), ("ETH", 1)] false "USDC" "ETH" (.float (201/2))
              [("USDC", 1), ("ETH", 2000)] (3/1000)).toOption.map (·.wallet) = some [("USDC", 1799/2), ("ETH", 4200397/4000000)] := by
  decide +kernel

/-- every rejection cause of a swap is reachable (the theorem above is not vacuous) -/
example : (swapByFrom NumCtx.py [("USDC", 10)] false "USDC" "ETH" 50 [("USDC", 1), ("ETH", 2000)] (3 / 1000)).toOption.isNone := by decide +kernel
example : (swapByFrom NumCtx.py [("USDC", 10)] false "USDC" "ETH" 5 [("USDC", 1)] (3 / 1000)).toOption.isNone := by decide +kernel
example : (swapByFrom NumCtx.py [("USDC", 10)] false "USDC" "ETH" 5 [("USDC", 1), ("ETH", 2000)] 1).toOption.isNone := by decide +kernel

-- float / int arguments and allow_negative_balance: accepted and rejected cases exist
example : (swapByFromArg NumCtx.py [("USDC", 10)] true "USDC" "ETH" (.float 50) [("USDC", 1), ("ETH", 2000)] (3 / 1000)).toOption.isSome := by decide +kernel
example : (swapByFromArg NumCtx.py [("USDC", 10)] false "USDC" "ETH" (.float 50) [("USDC", 1), ("ETH", 2000)] (3 / 1000)).toOption.isNone := by decide +kernel
example : (swapByToArg NumCtx.py [("USDC", 10)] true "USDC" "ETH" (.int 1) [("USDC", 1)] (3 / 1000)).toOption.isNone := by decide +kernel

end Demeter
