/-
  C04 (wallet/broker part) — a rejected wallet debit or broker swap leaves the wallet exactly as it was: every
  check (`fee_rate` range, price lookups, `Asset.sub`'s overdraft test) precedes the first mutation.
  The statements are about the model's "state the code leaves behind"; the correspondence run compares that
  state with the real wallet after the real exception.
-/
import Demeter.Broker
namespace Demeter

/-- `Broker.subtract_from_balance` refused ⇒ no wallet is produced (the Python object is untouched: `Asset.sub`
    raises before assigning) — the model returns the error without a successor state. -/
theorem C04_wallet_debit_reject_noop (cx : NumCtx) (w : Wallet) (tok : String) (amount : Rat) (allowNeg : Bool)
    (e : WalletErr) (h : Wallet.debit cx w tok amount allowNeg = .error e) :
    (e = .insufficient ∧ ∃ b, AList.get? w tok = some b ∧ assetSub cx b amount allowNeg = none) ∨
    (e = .unknownToken ∧ AList.get? w tok = none ∧ allowNeg = false) := by
  unfold Wallet.debit at h
  cases hb : AList.get? w tok with
  | some b =>
    simp only [hb] at h
    cases hs : assetSub cx b amount allowNeg with
    | some b' => simp [hs] at h
    | none =>
      simp only [hs] at h
      injection h with h
      exact Or.inl ⟨h.symm, b, rfl, hs⟩
  | none =>
    simp only [hb] at h
    cases allowNeg with
    | true => simp at h
    | false =>
      simp only [Bool.false_eq_true, if_false] at h
      injection h with h
      exact Or.inr ⟨h.symm, rfl, rfl⟩

/-- a rejected `swap_by_from` leaves the wallet intact, whatever the cause -/
theorem C04_broker_swap_from_reject_noop (cx : NumCtx) (w w' : Wallet) (allowNeg : Bool) (f t : String)
    (amount feeRate : Rat) (p : Prices) (e : BrokerErr)
    (h : swapByFrom cx w allowNeg f t amount p feeRate = .error (e, w')) : w' = w := by
  unfold swapByFrom at h
  repeat' (first | split at h | (simp only [] at h; split at h))
  all_goals first
    | (injection h with h; injection h with _ h; exact h.symm)
    | (exact absurd h (by simp))

/-- a rejected `swap_by_to` leaves the wallet intact, whatever the cause -/
theorem C04_broker_swap_to_reject_noop (cx : NumCtx) (w w' : Wallet) (allowNeg : Bool) (f t : String)
    (amount feeRate : Rat) (p : Prices) (e : BrokerErr)
    (h : swapByTo cx w allowNeg f t amount p feeRate = .error (e, w')) : w' = w := by
  unfold swapByTo at h
  repeat' (first | split at h | (simp only [] at h; split at h))
  all_goals first
    | (injection h with h; injection h with _ h; exact h.symm)
    | (exact absurd h (by simp))

/-- the fix for negative amounts: they are rejected before anything is touched -/
theorem C04_broker_swap_negative_rejected (cx : NumCtx) (w : Wallet) (allowNeg : Bool) (f t : String)
    (amount feeRate : Rat) (p : Prices) (hneg : amount < 0) :
    (∃ e, swapByFrom cx w allowNeg f t amount p feeRate = .error (e, w)) ∧
    (∃ e, swapByTo cx w allowNeg f t amount p feeRate = .error (e, w)) := by
  unfold swapByFrom swapByTo
  constructor <;> split <;> first | exact ⟨_, rfl⟩ | (rw [if_pos hneg]; exact ⟨_, rfl⟩)

/-- every rejection cause of a swap is reachable (the theorem above is not vacuous) -/
example : (swapByFrom NumCtx.py [("USDC", 10)] false "USDC" "ETH" 50 [("USDC", 1), ("ETH", 2000)] (3 / 1000)).toOption.isNone := by decide +kernel
example : (swapByFrom NumCtx.py [("USDC", 10)] false "USDC" "ETH" 5 [("USDC", 1)] (3 / 1000)).toOption.isNone := by decide +kernel
example : (swapByFrom NumCtx.py [("USDC", 10)] false "USDC" "ETH" 5 [("USDC", 1), ("ETH", 2000)] 1).toOption.isNone := by decide +kernel

end Demeter
