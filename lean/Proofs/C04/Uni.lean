/-
  C04, Uniswap part — a rejected `UniLpMarket` operation leaves wallet, positions, status and action log as they
  were.  Theorems about the model of the operations (Demeter/Uni/Ops.lean, Views.lean, Step.lean); they hold for
  every numeric kernel and every arithmetic context: every check precedes the first mutation.
-/
import Demeter.Uni.Step
import Proofs.Lemmas.UniAtomic
import Proofs.Lemmas.UniInv
import Proofs.Lemmas.UniStepRel
import Proofs.Lemmas.Exact
namespace Demeter.Uni
open Demeter

/-- single transactions; the others (`remove_liquidity(collect=True)`, `remove_all_liquidity`,
    `add_liquidity_by_value`) are the multi-step convenience helpers of the property -/
def Op.atomic : Op → Bool
  | .remove _ _ _ c _ _ => !c
  | .removeAll => false
  | .addByValue .. => false
  | _ => true

/-- every operation of the list is accepted when run from `s` -/
def Accepted (K : Kern) (pool : Pool) (me : Rat) : State → List Op → Prop
  | _, [] => True
  | s, op :: ops => (∃ v, (step K pool me s op).1 = .ok v) ∧ Accepted K pool me (step K pool me s op).2 ops

theorem wrel_stepRel (K : Kern) (pool : Pool) : StepRel K pool (WRel pool) :=
  { refl := WRel.refl pool
    trans := WRel.trans
    record := fun s a => WRel.record s a
    addRaw := addRaw_wrel K pool
    collect := collect_wrel K pool
    remove := remove_wrel K pool
    swap := swap_wrel K pool
    transferOut := transferOut_wrel pool
    transferIn := transferIn_wrel pool }

theorem step_atomic (K : Kern) (pool : Pool) (me : Rat) (s : State) (op : Op) (hi : PosImpliesWallet pool s)
    (ha : op.atomic = true) : Atomic (step K pool me s op) s := by
  cases op <;> simp only [step]
  case addRaw a0 a1 lo up sq =>
    have h := addRaw_atomic K pool s a0 a1 lo up sq
    split
    · rename_i heq; rw [heq] at h
      rcases h with h | ⟨_, hv⟩
      · exact Or.inl h
      · cases hv
    · exact Or.inr ⟨_, rfl⟩
  case swap a f t p log =>
    have h := swap_atomic K pool s a f t p log
    split
    · rename_i heq; rw [heq] at h
      rcases h with h | ⟨_, hv⟩
      · exact Or.inl h
      · cases hv
    · exact Or.inr ⟨_, rfl⟩
  case addByTick => exact addByTick_atomic ..
  case addByPrice => exact addByPrice_atomic ..
  case remove lo up l c sq rd =>
    have hc : c = false := by simpa [Op.atomic] using ha
    subst hc
    exact removeCore_atomic K pool s lo up l sq rd hi
  case collect lo up m0 m1 rd tu => exact collect_atomic K pool s lo up m0 m1 rd tu (Or.inr hi)
  case removeAll => simp [Op.atomic] at ha
  case buy => exact buy_atomic ..
  case sell => exact sell_atomic ..
  case evenRebalance => exact evenRebalance_atomic ..
  case addByValue => simp [Op.atomic] at ha
  case transferOut => exact transferOut_atomic ..
  case transferIn => exact transferIn_atomic ..

end Demeter.Uni

namespace Demeter
open Demeter.Uni

/-- **A rejected single transaction changes nothing**: for every public operation of the market that is one
    transaction (add_liquidity, add_liquidity_by_tick, `_add_liquidity_by_tick`, remove_liquidity without
    collect, collect_fee, swap, buy, sell, even_rebalance, transfer in/out), every rejection cause, every state
    satisfying the wallet invariant, every kernel and context: if the call raises, the state afterwards *is*
    the state before — wallet, positions, status row, `last_tick`, action log, even `has_update`. -/
theorem C04_uni_reject_noop (K : Kern) (pool : Pool) (minError : Rat) (s : State) (op : Op) (e : Err)
    (hinv : PosImpliesWallet pool s) (hatomic : op.atomic = true)
    (hrej : (step K pool minError s op).1 = .error e) :
    (step K pool minError s op).2 = s :=
  (step_atomic K pool minError s op hinv hatomic).noop hrej

/-- the hypothesis of `C04_uni_reject_noop` is an invariant: it holds for a market without positions and is
    preserved by every operation (accepted or rejected, atomic or helper), hence in every reachable state -/
theorem C04_uni_wallet_invariant (K : Kern) (pool : Pool) (minError : Rat) :
    (∀ s : State, s.positions = [] → PosImpliesWallet pool s) ∧
    (∀ (s : State) (ops : List Op), PosImpliesWallet pool s → PosImpliesWallet pool (runOps K pool minError s ops)) :=
  ⟨fun _ h hne => absurd h hne, fun s ops hi => ((wrel_stepRel K pool).runOps minError ops s).inv hi⟩

/-- the wallet never loses a token -/
theorem C04_uni_wallet_keys (K : Kern) (pool : Pool) (minError : Rat) (s : State) (ops : List Op) (tok : String)
    (h : (AList.get? s.wallet tok).isSome = true) :
    (AList.get? (runOps K pool minError s ops).wallet tok).isSome = true :=
  ((wrel_stepRel K pool).runOps minError ops s).1 tok h

end Demeter

/-! ### what was wrong, and non-vacuity -/
namespace Demeter.Uni

/-- a stand-in kernel with constant answers (the statements hold for every kernel) -/
def toyKern : Kern :=
  { cx := NumCtx.exact
    priceToSqrt := fun _ _ => .ok 1
    sqrtToPrice := fun _ _ => .ok 1
    tickToPrice := fun _ _ => .ok 1
    newPos := fun _ _ _ _ _ _ => .ok (5, 5, 7)
    amounts := fun _ _ _ _ _ _ => .ok (0, 0)
    tickToSqrt := fun _ => .ok 1 }

/-- the exception of an outcome, if any -/
def errOf {α : Type} : Except Err α → Option Err
  | .error e => some e
  | .ok _ => none

theorem errOf_eq {α : Type} {r : Except Err α} {e : Err} (h : errOf r = some e) : r = .error e := by
  cases r with
  | error e' => simp only [errOf, Option.some.injEq] at h; rw [h]
  | ok v => simp [errOf] at h

def toyPool : Pool :=
  { tok0 := "a", tok1 := "b", d0 := 6, d1 := 18, feeRate := 3 / 1000, spacing := 10, q0 := true, decFac := 1 }

/-- 10 of token0, 1 of token1, no positions, open market -/
def toyState : State :=
  { positions := [], lastTick := none, row := none, ts := none, isOpen := true, hasUpdate := false,
    wallet := [("a", 10), ("b", 1)], allowNeg := false, actions := [] }

end Demeter.Uni

namespace Demeter
open Demeter.Uni

/-- Before the repair (`addRawOld`: positions first, then the debits): a request that needs 5 of each token with
    only 1 of token1 in the wallet is rejected, yet leaves a position with liquidity 7 and token0 debited. -/
theorem C04_uni_add_fails_before_fix :
    errOf (addRawOld toyKern toyPool toyState 5 5 0 10 (some 1)).1 = some .assertion ∧
    (addRawOld toyKern toyPool toyState 5 5 0 10 (some 1)).2.positions.length = 1 ∧
    AList.get? (addRawOld toyKern toyPool toyState 5 5 0 10 (some 1)).2.wallet "a" = some 5 := by
  decide +kernel

/-- the same request against the repaired order: rejected, and nothing has changed -/
example : errOf (addRaw toyKern toyPool toyState 5 5 0 10 (some 1)).1 = some .assertion ∧
    (addRaw toyKern toyPool toyState 5 5 0 10 (some 1)).2 = toyState := by decide +kernel

/-- hypotheses of `C04_uni_reject_noop` are satisfiable with a rejected and with an accepted call -/
example : PosImpliesWallet toyPool toyState ∧ (Op.addRaw 5 5 0 10 (some 1)).atomic = true ∧
    (step toyKern toyPool 0 toyState (.addRaw 5 5 0 10 (some 1))).1 = .error .assertion ∧
    errOf (step toyKern toyPool 0 { toyState with wallet := [("a", 10), ("b", 10)] } (.addRaw 5 5 0 10 (some 1))).1 = none := by
  refine ⟨fun h => absurd rfl h, rfl, errOf_eq (by decide +kernel), by decide +kernel⟩

end Demeter
