/-
  C04 (Aave part, continued) — the end-of-bar `update()` (`_liquidate` → `_do_liquidate`):

    * `C04_aave_do_liquidate_atomic`  : one `_do_liquidate` either returns, having appended exactly one `LiquidationAction`,
                                        or raises and leaves supplies, borrows, wallet and log exactly as they were — every
                                        `raise` precedes the first mutation and nothing after the first mutation can raise
                                        (any arithmetic context; coherent state; `EnvOK`, `EnvPos`);
    * `C04_aave_update_raise_noop`    : `update()` that raises before it recorded a liquidation leaves everything intact (the
                                        closed-market rejection, a failing health-factor read, a raise in the first step, a
                                        raise after steps whose `require`s refused) — so a raise can only fall *between*
                                        whole liquidation steps;
    * `C04_aave_update_completes`     : on a well-formed bar and state (`Aave.updWF`, a computable check: positive indices and
                                        prices, non-negative risk parameters and balances, collateral ⇒ LT > 0) `update()` on
                                        an open market returns normally in exact arithmetic, and the state it leaves is the
                                        risk model's: positions = `AaveRisk.liquidate` of the projected portfolio, wallet
                                        untouched, the log extended by exactly its actions, `has_update` set;
    * `C04_aave_update_complete_or_noop` : the clause of the property — on an open market `update()` either completes with
                                        the model's state or, if it raises before a recorded step, leaves the state unchanged;
                                        on well-formed states it completes.
-/
import Proofs.C04.Aave
import Proofs.Lemmas.AaveLiqAtomic
import Proofs.Lemmas.AaveWF
import Proofs.C12.RefineLoop
namespace Demeter
open Aave

variable {cx : ACtx} {env : Env}

theorem Aave.core_of_frame {s t : St} (h : s.frame = t.frame) : s.core = t.core := by
  have h1 : s.supplies = t.supplies := congrArg Frame.supplies h
  have h2 : s.borrows = t.borrows := congrArg Frame.borrows h
  have h3 : s.wallet = t.wallet := congrArg Frame.wallet h
  have h4 : s.actions = t.actions := congrArg Frame.actions h
  unfold St.core; rw [h1, h2, h3, h4]

/-- **`_do_liquidate` is atomic**: it returns with exactly one record appended, or raises with the core untouched. -/
theorem C04_aave_do_liquidate_atomic (hE : EnvOK env) (hP : EnvPos env) {s : St} (hs : Good cx env s)
    (ck dk : Option String) (dv : Rat) :
    match doLiquidate cx env ck dk dv s with
    | (.ok _, s') => s'.actions.length = s.actions.length + 1
    | (.error _, s') => s'.core = s.core ∧ s'.hasUpdate = s.hasUpdate := by
  have h := doLiquidate_atomic (cx := cx) hE hP ck dk dv s.frame s ⟨hs, rfl⟩
  rcases hd : doLiquidate cx env ck dk dv s with ⟨r, s'⟩
  rw [hd] at h
  unfold PostR at h
  cases r with
  | ok u => exact h.2
  | error e => exact ⟨core_of_frame h, congrArg Frame.hasUpdate h⟩

/-- **`update()` that raises before it recorded a liquidation leaves everything intact** (any arithmetic context). -/
theorem C04_aave_update_raise_noop (hE : EnvOK env) (hP : EnvPos env) {s : St} (hs : Good cx env s) (e : Err)
    (h : (step cx env s .update).1 = .error e) (hrec : (step cx env s .update).2.actions.length = s.actions.length) :
    (step cx env s .update).2.core = s.core ∧ (step cx env s .update).2.hasUpdate = s.hasUpdate := by
  have h' := aave_unitM_fst (m := liquidate cx env) h
  have hs2 : (step cx env s .update).2 = (liquidate cx env s).2 := aave_unitM_snd _ _
  rw [hs2] at hrec ⊢
  obtain ⟨_, _, hk⟩ := liquidate_post (cx := cx) hE hP hs
  have := hk e h' hrec
  exact ⟨core_of_frame this, congrArg Frame.hasUpdate this⟩

/-- the log never shrinks, whatever `update()` does -/
theorem C04_aave_update_log_grows (hE : EnvOK env) (hP : EnvPos env) {s : St} (hs : Good cx env s) :
    s.actions.length ≤ (step cx env s .update).2.actions.length := by
  rw [show (step cx env s .update).2 = (liquidate cx env s).2 from aave_unitM_snd _ _]
  exact (liquidate_post (cx := cx) hE hP hs).2.1

/-- **`update()` completes on well-formed states** (exact arithmetic; open market; coherent state passing the computable
    check `updWF`): no exception, and the state is the model's — positions project to the risk model's final portfolio, wallet
    untouched, log extended by exactly the risk model's actions, `has_update` set, caches coherent. -/
theorem C04_aave_update_completes {env : Env} {s : St} (hs : Good aaveExact env s) (hwf : updWF env s = true)
    (hopen : env.isOpen = true) :
    ∃ s', step aaveExact env s .update = (.ok .unit, s') ∧
      proj env s' = (AaveRisk.liquidate NumCtx.exact (proj env s)).p ∧ s'.wallet = s.wallet ∧
      s'.actions = s.actions ++ (AaveRisk.liquidate NumCtx.exact (proj env s)).actions.map actionOf ∧
      s'.hasUpdate = true ∧ Good aaveExact env s' := by
  obtain ⟨hE, hP, hpwf⟩ := updWF_sound (cx := aaveExact) hwf hs
  obtain ⟨s', e', hp, hw, ha, hg, hm⟩ := C12_sm_update_refines (cx := aaveExact) hE hP hs hopen
  have hterm := (C12_terminates (proj env s) hpwf).1
  have hterm' : (AaveRisk.liquidate aaveExact.toNumCtx (proj env s)).err = none := hterm
  rw [hterm'] at hm
  refine ⟨s', ?_, hp, hw, ha, hm.2, hg⟩
  unfold step unitM mapM'
  rcases hl : liquidate aaveExact env s with ⟨r, t⟩
  rw [hl] at e' hm
  dsimp only at e' hm
  subst e'
  obtain ⟨h1, _⟩ := hm
  subst h1
  rfl

/-- **the C04 clause for `update()`**: on an open market, in a coherent state, `update()` either completes, or raises — and
    then, unless a liquidation had already been recorded (the raise fell between two whole steps), nothing has changed; in
    exact arithmetic on a well-formed state (`updWF`) it completes. -/
theorem C04_aave_update_complete_or_noop {env : Env} {s : St} (hE : EnvOK env) (hP : EnvPos env) (hs : Good aaveExact env s) :
    ((step aaveExact env s .update).1 = .ok .unit ∨
      ∃ e, (step aaveExact env s .update).1 = .error e ∧
        ((step aaveExact env s .update).2.actions.length = s.actions.length → (step aaveExact env s .update).2.core = s.core)) ∧
    (updWF env s = true → env.isOpen = true → (step aaveExact env s .update).1 = .ok .unit) := by
  constructor
  · cases hr : (step aaveExact env s .update).1 with
    | ok v =>
      left
      unfold step unitM mapM' at hr
      rcases hl : liquidate aaveExact env s with ⟨r, t⟩
      rw [hl] at hr
      cases r with
      | ok u => dsimp only at hr; rw [← hr]
      | error e => cases hr
    | error e => exact Or.inr ⟨e, rfl, fun hrec => (C04_aave_update_raise_noop hE hP hs e hr hrec).1⟩
  · intro hwf hopen
    obtain ⟨s', h, _⟩ := C04_aave_update_completes hs hwf hopen
    rw [h]

/-! ### non-vacuity -/

-- the unhealthy account of `C12.Refine` (10 WETH against 10 000 USDC, HF 0.9075) passes the check, and `update()` completes
-- with one liquidation recorded
example : updWF c11rEnv c12rSt = true := by decide +kernel
example : (step aaveExact c11rEnv c12rSt .update).1 = .ok .unit ∧
    (step aaveExact c11rEnv c12rSt .update).2.actions.length = 1 := by decide +kernel
-- a bar whose price vector lacks the collateral token: `update()` raises `KeyError` from its first health-factor read and
-- supplies, borrows, wallet, log are as before
def c04uEnvNoPrice : Env := { c11rEnv with price := [("USDC", 1)] }
example : c04AaveErrIs (step aaveExact c04uEnvNoPrice c12rSt .update).1 .keyPrice = true := by decide +kernel
example : (step aaveExact c04uEnvNoPrice c12rSt .update).2.core = c12rSt.core := by decide +kernel

end Demeter
