/-
  C04, GMX part — a rejected `buy_glp` / `sell_glp` / `update` (v1) or `deposit` / `withdraw` (v2) leaves the wallet, the
  share holding, the pending reward and the action log exactly as they were: for every arithmetic context, every number
  type (v2: `Rat` and `Float` alike), every row, state and argument.  The models mirror the order of checks and mutations
  of the (repaired) code, including the one path that has already changed something when it fails: v2 `deposit` whose
  second wallet debit is refused after the first went through writes the remembered balance back.
-/
import Proofs.Lemmas.GmxV1Reject
import Proofs.Lemmas.GmxV2Reject
import Proofs.Lemmas.Exact
import Batteries.Lean.Except
namespace Demeter
open Demeter.Gmx Demeter.Gmx2

/-- v1: every rejected operation is a no-op on (glp, reward, wallet, action log) — either setting of
    `broker.allow_negative_balance` -/
theorem C04_gmx_v1_reject_noop (cx : NumCtx) (env : GmxV1.Env) (s s' : GmxV1.State) (op : GmxV1.Op) (e : GmxV1.Err) (allowNeg : Bool)
    (h : GmxV1.step cx env s op allowNeg = (.error e, s')) : s' = s :=
  step_reject h

/-- v1, along a sequence: the state after any list of operations equals the state after the accepted ones alone -/
theorem C04_gmx_v1_rejected_ops_are_skipped (cx : NumCtx) (env : GmxV1.Env) (ops : List GmxV1.Op) (s : GmxV1.State) :
    ops.foldl (fun st op => (GmxV1.step cx env st op).2) s
      = ops.foldl (fun st op => match GmxV1.step cx env st op with
          | (.ok _, st') => st'
          | (.error _, _) => st) s := by
  induction ops generalizing s with
  | nil => rfl
  | cons op ops ih =>
    simp only [List.foldl_cons]
    cases hs : GmxV1.step cx env s op with
    | mk res s' =>
      cases res with
      | ok v => simp only []; exact ih s'
      | error e => simp only []; rw [step_reject hs]; exact ih s

section
variable {α : Type} [Add α] [Sub α] [Mul α] [Div α] [Neg α] [LT α] [LE α] [OfNat α 0] [DecidableLT α] [DecidableLE α]

/-- v2 deposit: every rejection cause (negative amount, pricing error, first or second wallet debit refused, token
    missing from the wallet) leaves (amount, wallet, action log) as they were — either setting of `allow_negative_balance` -/
theorem C04_gmx_v2_deposit_reject_noop (o : GmxV2.Ops α) (cx : NumCtx) (cfg : GmxV2.Config α) (ps : GmxV2.Pool α) (lk sk : String)
    (s s' : GmxV2.State α) (la sa : α) (e : GmxV2.Err) (allowNeg : Bool)
    (h : GmxV2.deposit o cx cfg ps lk sk s la sa allowNeg = (.error e, s')) : s' = s :=
  deposit_reject h

/-- v2 withdraw: negative amount, more than held, pricing error -/
theorem C04_gmx_v2_withdraw_reject_noop (o : GmxV2.Ops α) (cx : NumCtx) (cfg : GmxV2.Config α) (ps : GmxV2.Pool α) (lk sk : String)
    (s s' : GmxV2.State α) (amt : Option α) (e : GmxV2.Err)
    (h : GmxV2.withdraw o cx cfg ps lk sk s amt = (.error e, s')) : s' = s :=
  withdraw_reject h

/-- v2: an amount that is not a finite number (NaN compares false with everything, so neither `< 0` nor `> holding` would
    stop it; ±∞) is an invalid argument — rejected with `DemeterError` before anything is priced or changed, whatever the
    number type, pool, wallet mode and state -/
theorem C04_gmx_v2_nonfinite_deposit_rejected (o : GmxV2.Ops α) (cx : NumCtx) (cfg : GmxV2.Config α) (ps : GmxV2.Pool α) (lk sk : String)
    (s : GmxV2.State α) (la sa : α) (allowNeg : Bool) (h : o.isFinite la = false ∨ o.isFinite sa = false) :
    GmxV2.deposit o cx cfg ps lk sk s la sa allowNeg = (.error .demeter, s) := by
  unfold GmxV2.deposit
  have : (!(o.isFinite la && o.isFinite sa)) = true := by
    rcases h with h | h <;> simp [h]
  rw [if_pos this]

theorem C04_gmx_v2_nonfinite_withdraw_rejected (o : GmxV2.Ops α) (cx : NumCtx) (cfg : GmxV2.Config α) (ps : GmxV2.Pool α) (lk sk : String)
    (s : GmxV2.State α) (amt : Option α) (h : o.isFinite (amt.getD s.amount) = false) :
    GmxV2.withdraw o cx cfg ps lk sk s amt = (.error .demeter, s) := by
  unfold GmxV2.withdraw
  simp only [h, Bool.not_false, if_true]
end

/-- non-vacuity for the IEEE instantiation the driver runs: NaN and +∞ are not finite, 1.5 is (kernel-evaluated `Float` is
    opaque, so this is stated through the instantiation's own field and checked at run time by the correspondence runs) -/
example : GmxV2.floatOps.isFinite = Float.isFinite := rfl

/-- the restore step of v2 `deposit` really is needed and really restores: after a successful first debit the wallet
    differs, and writing the remembered balance back gives the original wallet -/
theorem C04_gmx_v2_restore_is_exact (cx : NumCtx) (w w1 : Wallet) (k : String) (a b : Rat)
    (hb : AList.get? w k = some b) (hd : Wallet.debit cx w k a false = .ok w1) : AList.set w1 k b = w := by
  obtain ⟨b0, b', hb0, rfl⟩ := debit_ok_set hd
  rw [hb] at hb0; cases hb0
  exact alist_set_restore _ _ _ _ hb

/-! ### non-vacuity: each rejection cause is reachable in the model (and leaves the concrete state unchanged) -/

namespace GmxC04Demo
open GmxV1

def env : Env :=
  { rows := [{ name := "weth", price := 2000 * 10 ^ 30, usdg := 4 * 10 ^ 24, weight := 1 },
             { name := "usdc", price := 10 ^ 30, usdg := 5 * 10 ^ 24, weight := 1 }],
    tokenSet := ["weth", "usdc"], glpSupply := 8 * 10 ^ 24, aum := 10 ^ 37, usdgSupply := 10 ^ 25,
    interval := 10 ^ 15, glpPrice := 5 / 4, wavaxPrice := 30 * 10 ^ 30 }
def st : State := { glp := 8, reward := 1, wallet := [("WETH", 3)], actions := [.buy "WETH" 1 5] }

example : step NumCtx.py env st (.buy "weth" 18 (-1)) = (.error .demeter, st) := by decide +kernel
example : step NumCtx.py env st (.buy "weth" 18 4) = (.error .assertion, st) := by decide +kernel          -- insufficient balance
example : step NumCtx.py env st (.buy "usdc" 6 4) = (.error .demeter, st) := by decide +kernel            -- token not in the wallet
example : step NumCtx.py env st (.buy "doge" 8 1) = (.error .key, st) := by decide +kernel
example : step NumCtx.py { env with aum := 0 } st (.buy "weth" 18 1) = (.error .divZero, st) := by decide +kernel
example : step NumCtx.py { env with aum := 0 } st (.buy "weth" 18 0) = (.error .invalidOp, st) := by decide +kernel
example : step NumCtx.py env st (.buy "weth" 18 (10 ^ 20)) = (.error .invalidOp, st) := by decide +kernel   -- quantize overflow
example : step NumCtx.py env st (.sell "weth" 18 (-1)) = (.error .demeter, st) := by decide +kernel
example : step NumCtx.py env st (.sell "weth" 18 9) = (.error .demeter, st) := by decide +kernel           -- more than held
example : step NumCtx.py { env with glpSupply := 0 } st (.sell "weth" 18 1) = (.error .divZero, st) := by decide +kernel
example : step NumCtx.py { env with glpSupply := 0 } st .update = (.error .divZero, st) := by decide +kernel
/-- … while the accepted buy does change the state -/
example : (step NumCtx.py env st (.buy "weth" 18 1)).2 ≠ st := by decide +kernel

end GmxC04Demo

namespace GmxC04DemoV2
open GmxV2

def cfg : Config Rat :=
  { impactExponent := 2, impactFactorPos := 1 / 5000000000, impactFactorNeg := 1 / 2500000000, depositFeePos := 1 / 2000,
    depositFeeNeg := 7 / 10000, withdrawFeePos := 1 / 2000, withdrawFeeNeg := 7 / 10000 }
def pool : Pool Rat :=
  { longAmount := 5000, shortAmount := 30000000, virtualLong := none, virtualShort := none, poolValue := 40000000, supply := 40000000,
    impactPool := 1000000, longPrice := 2000, shortPrice := 1 }
def sq (x _ : Rat) : Rat := x * x
def st : State Rat := { amount := 5, wallet := [("WETH", 10), ("USDC", 100)], actions := [] }

/-- outcome class and the three state components, as decidable data -/
def obs (r : Except Err (LPResult Rat × String) × State Rat) : Option Err × Rat × Wallet × Nat :=
  ((match r.1 with | .error e => some e | .ok _ => none), r.2.amount, r.2.wallet, r.2.actions.length)
def obsW (r : Except Err (LPResult Rat) × State Rat) : Option Err × Rat × Wallet × Nat :=
  ((match r.1 with | .error e => some e | .ok _ => none), r.2.amount, r.2.wallet, r.2.actions.length)
def same (e : Err) : Option Err × Rat × Wallet × Nat := (some e, st.amount, st.wallet, st.actions.length)

example : obs (deposit (ratOps sq) NumCtx.py cfg pool "WETH" "USDC" st (-1) 0) = same .demeter := by decide +kernel
example : obs (deposit (ratOps sq) NumCtx.py cfg pool "WETH" "USDC" st 11 0) = same .assertion := by decide +kernel        -- long token short
/-- the restore path: 1 WETH is affordable, 1000 USDC is not — the WETH debit is undone -/
example : obs (deposit (ratOps sq) NumCtx.py cfg pool "WETH" "USDC" st 1 1000) = same .assertion := by decide +kernel
example : obs (deposit (ratOps sq) NumCtx.py cfg pool "WETH" "DAI" st 1 1) = same .demeter := by decide +kernel            -- short token not in the wallet
example : obs (deposit (ratOps sq) NumCtx.py cfg pool "DAI" "USDC" st 1 1) = same .demeter := by decide +kernel
example : obs (deposit (ratOps sq) NumCtx.py cfg { pool with supply := 0 } "WETH" "USDC" st 1 0) = same .zeroDiv := by decide +kernel
/-- negative impact larger than the deposit (pool 60 G USD long-heavy): RuntimeError -/
example : obs (deposit (ratOps sq) NumCtx.py cfg { pool with longAmount := 30000000 } "WETH" "USDC" st 1 0) = same .runtime := by decide +kernel
example : obsW (withdraw (ratOps sq) NumCtx.py cfg pool "WETH" "USDC" st (some (-1))) = same .demeter := by decide +kernel
example : obsW (withdraw (ratOps sq) NumCtx.py cfg pool "WETH" "USDC" st (some 6)) = same .demeter := by decide +kernel
example : obsW (withdraw (ratOps sq) NumCtx.py cfg { pool with supply := 0 } "WETH" "USDC" st none) = same .zeroDiv := by decide +kernel
/-- … while the accepted deposit does change the state -/
example : (obs (deposit (ratOps sq) NumCtx.py cfg pool "WETH" "USDC" st 1 50)).1 = none := by decide +kernel

end GmxC04DemoV2

end Demeter
