/-
  C04 (Deribit part) — a rejected buy / sell / deposit / withdraw leaves cash, positions, the visible order
  book, the broker wallet, the cached balance and the action log exactly as they were.

  Model: Demeter/Deribit.lean — the repaired code (before /repo 763165f `buy` wrote the depleted asks back
  before the balance check, before 4fb272a `sell` credited cash and consumed bids before the holding check).
  Every theorem holds for every arithmetic context: no rounding or float behaviour can make a rejected
  call leave a trace.
-/
import Proofs.Lemmas.Deribit
namespace Demeter
open Demeter.Deribit

/-- **rejected ⇒ nothing changed**, for every operation of the market, every state, every rejection cause -/
theorem C04_deribit_reject_noop (cx : DCtx) (c : TokenCfg) (s s' : DState) (op : Op) (e : Err)
    (h : step cx c s op = (.error e, s')) : s' = s := by
  cases op with
  | buy r => exact buy_err h
  | sell r => exact sell_err h
  | deposit a => exact deposit_err h
  | withdraw a => exact withdraw_err h
  | balance =>
    simp only [step, getMarketBalance] at h
    split at h
    · simp at h
    · split at h
      · simp at h
      · split at h <;> simp at h
  | update => simp [step] at h

/-- the same, as the predicate the harness evaluates on the implementation's snapshots: either the call
    succeeded or the post-state equals the pre-state -/
theorem C04_deribit_ok_or_unchanged (cx : DCtx) (c : TokenCfg) (s : DState) (op : Op) :
    (∃ r, (step cx c s op).1 = .ok r) ∨ (step cx c s op).2 = s := by
  rcases h : step cx c s op with ⟨o, s'⟩
  cases o with
  | ok r => exact Or.inl ⟨r, rfl⟩
  | error e => exact Or.inr (C04_deribit_reject_noop cx c s s' op e h)

/-- a whole strategy step list: the state after a sequence in which *every* call was rejected is the
    initial state (rejections do not accumulate traces) -/
theorem C04_deribit_all_rejected_sequence (cx : DCtx) (c : TokenCfg) (s : DState) (ops : List Op)
    (h : ∀ s₀ op, op ∈ ops → ∃ e, (step cx c s₀ op).1 = .error e) : runOps cx c s ops = s := by
  induction ops generalizing s with
  | nil => rfl
  | cons o os ih =>
    obtain ⟨e, he⟩ := h s o List.mem_cons_self
    have hs : (step cx c s o).2 = s := by
      rcases hstep : step cx c s o with ⟨o', s'⟩
      rw [hstep] at he; simp only at he; subst he
      exact C04_deribit_reject_noop cx c s s' o e hstep
    show runOps cx c (step cx c s o).2 os = s
    rw [hs]
    exact ih s (fun s₀ op hop => h s₀ op (List.mem_cons_of_mem _ hop))

/-- the closed-market gate (`write_func`): buy and sell are rejected on a bar without data, state intact;
    deposit and withdraw are not gated (they are not `write_func`s) -/
theorem C04_deribit_closed_market_gate (cx : DCtx) (c : TokenCfg) (s : DState) (r : Req) (h : s.flagOpen = false) :
    step cx c s (.buy r) = (.error (.demeter "market-closed"), s) ∧
    step cx c s (.sell r) = (.error (.demeter "market-closed"), s) := by
  constructor <;> simp [step, buy, sell, h]

/-! ### every rejection cause is reachable (non-vacuity), on the concrete book of C15 -/

def Deribit.c04Instr : Instr :=
  { name := "ETH-22SEP23-1650-C", stateOpen := true, kind := .call, strike := 1650, expiry := 30000,
    mark := 287 / 10000, underlying := 165194 / 100, delta := 52071 / 100000, gamma := 342 / 100000,
    asks := [⟨57 / 2000, 5, false⟩, ⟨29 / 1000, 605, false⟩], bids := [⟨28 / 1000, 51, false⟩, ⟨55 / 2000, 585, true⟩] }
def Deribit.c04Closed : Instr := { Deribit.c04Instr with name := "ETH-22SEP23-1700-C", stateOpen := false }
def Deribit.c04Pos : Position :=
  { name := "ETH-22SEP23-1650-C", expiry := 30000, strike := 1650, kind := .call, amount := 2, avgBuy := 3 / 100,
    buyAmt := 2, avgSell := 0, sellAmt := 0 }
def Deribit.c04State : DState :=
  { cash := 1 / 10, positions := [("ETH-22SEP23-1650-C", Deribit.c04Pos)], book := [Deribit.c04Instr, Deribit.c04Closed],
    wallet := [("ETH", 1)], allowNeg := false, actions := [], cache := none, flagOpen := true, now := 360, price := 1650, priceDec := false }
def Deribit.c04Req (n : String) (a : Rat) (p m : Option Rat := none) : Req :=
  { name := n, amount := a, priceTok := p, priceUsd := none, mult := m }

section
open Deribit
private def outc (o : Op) : Outcome := (step DCtx.exact ethCfg c04State o).1
example : outc (.buy (c04Req "ETH-NOPE" 1)) = .error (.demeter "not-in-orderbook") := by decide +kernel
example : outc (.buy (c04Req "ETH-22SEP23-1700-C" 1)) = .error (.demeter "instrument-not-open") := by decide +kernel
example : outc (.buy (c04Req "ETH-22SEP23-1650-C" (1 / 100))) = .error (.demeter "below-min-amount") := by decide +kernel
example : outc (.buy (c04Req "ETH-22SEP23-1650-C" 1 (some (6 / 100)))) = .error (.demeter "no-order-at-price") := by decide +kernel
example : outc (.buy (c04Req "ETH-22SEP23-1650-C" 6 (some (57 / 2000)))) = .error (.demeter "insufficient-depth") := by decide +kernel
example : outc (.buy (c04Req "ETH-22SEP23-1650-C" 100000)) = .error (.demeter "insufficient-depth") := by decide +kernel
example : outc (.buy (c04Req "ETH-22SEP23-1650-C" 10)) = .error .insufficientBalance := by decide +kernel
example : outc (.sell (c04Req "ETH-22SEP23-1650-C" 3)) = .error (.demeter "exceeds-holding") := by decide +kernel
example : (step DCtx.exact ethCfg { c04State with positions := [] } (.sell (c04Req "ETH-22SEP23-1650-C" 1))).1 =
    .error (.demeter "not-held") := by decide +kernel
example : outc (.sell (c04Req "ETH-22SEP23-1650-C" 1 none (some 0))) = .error .divisionByZero := by decide +kernel
example : outc (.deposit 2) = .error .assertion := by decide +kernel
example : outc (.deposit (-1)) = .error (.demeter "negative-amount") := by decide +kernel
example : (step DCtx.exact ethCfg { c04State with wallet := [] } (.deposit 1)).1 = .error (.demeter "unknown-token") := by decide +kernel
example : outc (.withdraw 1) = .error .insufficientBalance := by decide +kernel
example : outc (.withdraw (-1)) = .error (.demeter "negative-amount") := by decide +kernel
example : (step DCtx.exact ethCfg { c04State with flagOpen := false } (.buy (c04Req "ETH-22SEP23-1650-C" 1))).1 =
    .error (.demeter "market-closed") := by decide +kernel
-- and accepted calls do change the state, so the theorem is not about a constant function
example : outc (.buy (c04Req "ETH-22SEP23-1650-C" 2)) = .ok (.trade [⟨57 / 2000, 2⟩] (6 / 10000)) := by decide +kernel
example : (step DCtx.exact ethCfg c04State (.buy (c04Req "ETH-22SEP23-1650-C" 2))).2 ≠ c04State := by decide +kernel
end

end Demeter
